"""Harvest Quiver source texts from the repository: every string literal passed to `.evaluate(`
in /repo/quiver-tests/tests/*.rs (plain and raw strings), the `.qv` files of /repo/std and
/repo/examples, and fenced code blocks of docs/spec.md. Purely textual; sources that do not
compile stand-alone are simply reported as such by the harness."""
import os, re
from vplib.common import REPO

RAW = re.compile(r'r(#*)"(.*?)"\1', re.S)


def rust_string_literals(text, start):
    """Parse the Rust string literal starting at text[start] (after optional whitespace);
    returns (value, end) or None."""
    i = start
    while i < len(text) and text[i] in " \t\r\n":
        i += 1
    if text.startswith("&format!(", i) or text.startswith("format!(", i):
        return None
    if text[i] == "&":
        i += 1
    if text[i] == "r":
        m = RAW.match(text, i)
        if m:
            return m.group(2), m.end()
        return None
    if text[i] != '"':
        return None
    i += 1
    out = []
    while i < len(text) and text[i] != '"':
        c = text[i]
        if c == "\\":
            i += 1
            e = text[i]
            if e == "n": out.append("\n")
            elif e == "t": out.append("\t")
            elif e == "r": out.append("\r")
            elif e == "0": out.append("\0")
            elif e == "\\": out.append("\\")
            elif e == '"': out.append('"')
            elif e == "'": out.append("'")
            elif e == "\n":
                # line continuation: skip leading whitespace of the next line
                while i + 1 < len(text) and text[i + 1] in " \t\r\n":
                    i += 1
            elif e == "x":
                out.append(chr(int(text[i + 1:i + 3], 16))); i += 2
            elif e == "u":
                j = text.index("}", i)
                out.append(chr(int(text[i + 2:j], 16))); i = j
            else:
                out.append(e)
        else:
            out.append(c)
        i += 1
    return "".join(out), i + 1


def test_sources():
    """[(origin, source)] from the test suite (no in-memory modules attached)."""
    out = []
    tdir = os.path.join(REPO, "quiver-tests", "tests")
    for fn in sorted(os.listdir(tdir)):
        if not fn.endswith(".rs") or fn.startswith("zz") or fn == "common.rs":
            continue
        text = open(os.path.join(tdir, fn)).read()
        for m in re.finditer(r"\.evaluate\(", text):
            r = None
            try:
                r = rust_string_literals(text, m.end())
            except (ValueError, IndexError):
                r = None
            if r:
                line = text.count("\n", 0, m.start()) + 1
                out.append(("%s:%d" % (fn, line), r[0]))
    return out


def qv_files():
    out = []
    for d in ("std", "examples"):
        root = os.path.join(REPO, d)
        if not os.path.isdir(root):
            continue
        for dp, _, fs in os.walk(root):
            for f in sorted(fs):
                if f.endswith(".qv"):
                    p = os.path.join(dp, f)
                    out.append((os.path.relpath(p, REPO), open(p).read()))
    return out


def spec_examples():
    out = []
    p = os.path.join(REPO, "docs", "spec.md")
    if os.path.exists(p):
        text = open(p).read()
        for i, m in enumerate(re.finditer(r"```(?:quiver|qv)?\n(.*?)```", text, re.S)):
            out.append(("spec.md#%d" % i, m.group(1)))
    return out


def all_sources():
    seen, out = set(), []
    for origin, src in test_sources() + qv_files() + spec_examples():
        if src not in seen:
            seen.add(src)
            out.append((origin, src))
    return out
