#!/bin/sh
# Build the framework from files on disk only (offline): Rust harness against /repo's working
# tree, the whole Coq development (full .vo build), and the extracted-OCaml model drivers.
set -e
cd "$(dirname "$0")"
export CARGO_NET_OFFLINE=true
mkdir -p .cache coq/extracted
(cd harness && RUSTFLAGS="--cfg quiver_verif" cargo build --offline --bins 2>&1 | tail -3)
python3 - <<'PY'
import sys, os
sys.path.insert(0, os.getcwd())
from vplib.common import *
ensure_coq_makefile(force=True)
claimed = [l.strip() for l in open("claimed.txt") if l.strip() and not l.startswith("#")]
targets = ["theories/props/%s.vo" % c for c in claimed]
drivers = [f[:-8] for f in sorted(os.listdir(os.path.join(COQ, "driver"))) if f.endswith("_main.ml")]
# only the cones of claimed properties and the extraction files of existing drivers are built
# (a full .vo build of each cone; work-in-progress files of unclaimed properties are not touched)
targets += ["theories/extract/Extract%s.vo" % d.capitalize() for d in drivers
            if os.path.exists(os.path.join(COQ, "theories/extract/Extract%s.v" % d.capitalize()))]
rc, out = sh(["make", "-j%d" % NCPU] + targets, cwd=COQ, timeout=7000)
print(out[-1500:])
if rc != 0:
    sys.exit(1)
c = Ctx("setup", "quick", 0)
for d in drivers:
    if not os.path.exists(os.path.join(COQ, "theories/extract/Extract%s.v" % d.capitalize())):
        continue
    exe = c.driver(d)
    print("driver", d, exe)
    if not exe:
        print("WARNING: driver %s failed to build" % d)
PY
echo setup-ok
