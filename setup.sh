#!/bin/sh
# Build the framework from files on disk only (offline): Rust harness against /repo's working
# tree, the whole Coq development (full .vo build), and the extracted-OCaml model drivers.
set -e
cd "$(dirname "$0")"
export CARGO_NET_OFFLINE=true
mkdir -p .cache coq/extracted
(cd harness && RUSTFLAGS="--cfg quiver_verif" cargo build --offline --bins 2>&1 | tail -3)
python3 - <<'PY'
import sys, os
sys.path.insert(0, os.getcwd())
from vplib.common import *
ensure_coq_makefile(force=True)
rc, out = sh(["make", "-j%d" % NCPU], cwd=COQ, timeout=7000)
print(out[-1500:])
if rc != 0:
    sys.exit(1)
c = Ctx("setup", "quick", 0)
for f in sorted(os.listdir(os.path.join(COQ, "driver"))):
    if f.endswith("_main.ml"):
        exe = c.driver(f[:-8])
        print("driver", f[:-8], exe)
        if not exe:
            sys.exit(1)
PY
echo setup-ok
