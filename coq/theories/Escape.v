(* Escape.v — model of the string escaping done by the formatter (quiver-compiler/src/format.rs)
   and of the string un-escaping / multi-line processing done by the parser
   (quiver-compiler/src/parser.rs).  Definitions only; everything is a total, structurally
   recursive function over [list Z] (Unicode code points), [nat], [bool], [option].

   Code points used:  9 TAB  10 LF  13 CR  32 SPACE  34 ''''  92 '\'  123 '{'
                      110 'n'  114 'r'  115 's'  116 't'
   In the Rust quotations below the double-quote character (34) is written as two single quotes,
   because Coq lexes string literals inside comments. *)
From Quiver Require Import Base.

(* ------------------------------------------------------------------------------------------ *)
(* A. formatter side (format.rs)                                                               *)
(* ------------------------------------------------------------------------------------------ *)

(* format.rs:476 escape_single_line_text — the per-character match
     '\\' => ''\\\\'', '''' => ''\\\'''', '{' => ''\\{'', '\n' => ''\\n'', '\r' => ''\\r'', '\t' => ''\\t'',
     c => c *)
Definition esc_single_char (c : Z) : list Z :=
  if c =? 92 then [92; 92]
  else if c =? 34 then [92; 34]
  else if c =? 123 then [92; 123]
  else if c =? 10 then [92; 110]
  else if c =? 13 then [92; 114]
  else if c =? 9 then [92; 116]
  else [c].

(* format.rs:476 escape_single_line_text *)
Fixpoint escape_single (s : list Z) : list Z :=
  match s with
  | [] => []
  | c :: t => esc_single_char c ++ escape_single t
  end.

(* format.rs:568 escape_multiline_text — the per-character match (LF is not escaped)
     '\\' => ''\\\\'', '''' => ''\\\'''', '{' => ''\\{'', '\r' => ''\\r'', '\t' => ''\\t'', c => c *)
Definition esc_multi_char (c : Z) : list Z :=
  if c =? 92 then [92; 92]
  else if c =? 34 then [92; 34]
  else if c =? 123 then [92; 123]
  else if c =? 13 then [92; 114]
  else if c =? 9 then [92; 116]
  else [c].

(* format.rs:568 escape_multiline_text *)
Fixpoint escape_multiline_text (s : list Z) : list Z :=
  match s with
  | [] => []
  | c :: t => esc_multi_char c ++ escape_multiline_text t
  end.

(* ''the whole (remaining) line consists of U+0020'' — helper for trim_end_matches(' ') *)
Fixpoint all_space (l : list Z) : bool :=
  match l with
  | [] => true
  | c :: t => (c =? 32) && all_space t
  end.

(* format.rs:585 protect_trailing_spaces:
     trimmed_len = line.trim_end_matches(' ').len(); trailing = line.len() - trimmed_len;
     line[..trimmed_len] ++ ''\\s''.repeat(trailing)
   Position by position: a character that lies in the trailing run of spaces becomes `\s`. *)
Fixpoint protect_trailing_spaces (l : list Z) : list Z :=
  match l with
  | [] => []
  | c :: t =>
      if (c =? 32) && all_space t
      then 92 :: 115 :: protect_trailing_spaces t
      else c :: protect_trailing_spaces t
  end.

(* str::split('\n') — never returns the empty list ('''' splits to ['''']) *)
Fixpoint split_lf (s : list Z) : list (list Z) :=
  match s with
  | [] => [[]]
  | c :: t =>
      if c =? 10 then [] :: split_lf t
      else match split_lf t with
           | [] => [[c]]                      (* unreachable: split_lf is never empty *)
           | l :: ls => (c :: l) :: ls
           end
  end.

(* lines joined by LF (`if i > 0 { push('\n') }` in parser.rs:847; hardline between lines in
   format.rs:555) *)
Fixpoint join_lf (ls : list (list Z)) : list Z :=
  match ls with
  | [] => []
  | l :: ls' =>
      match ls' with
      | [] => l
      | _ :: _ => l ++ 10 :: join_lf ls'
      end
  end.

(* format.rs:521 multiline_string_doc, one line of a text-only string:
     protect_trailing_spaces(escape_multiline_text(part)) *)
Definition render_line (l : list Z) : list Z :=
  protect_trailing_spaces (escape_multiline_text l).

(* format.rs:521 multiline_string_doc for a single Text segment:
     lines = text.split('\n') mapped through escape_multiline_text / protect_trailing_spaces *)
Definition render_lines (s : list Z) : list (list Z) :=
  map render_line (split_lf s).

(* the dedented content: rendered lines joined by LF *)
Definition render_text (s : list Z) : list Z := join_lf (render_lines s).

(* one output line at indentation [margin]; an empty line carries no indentation because the
   pretty printer strips trailing whitespace *)
Definition indent_line (margin : nat) (l : list Z) : list Z :=
  match l with
  | [] => []
  | _ :: _ => repeat 32 margin ++ l
  end.

(* format.rs:554-561: text(''\''\''\''''), then (hardline, text(line)) per line, hardline, text(''\''\''\'''').
   The raw text between the delimiters when the ambient indentation is [margin] spaces. *)
Definition render_multiline (s : list Z) (margin : nat) : list Z :=
  10 :: flat_map (fun l => indent_line margin l ++ [10]) (render_lines s) ++ repeat 32 margin.

(* ------------------------------------------------------------------------------------------ *)
(* B. parser side (parser.rs)                                                                  *)
(* ------------------------------------------------------------------------------------------ *)

(* the escape table shared by parser.rs:696-721 (parse_string_content) and parser.rs:528-535
   (string_segments):  \'' \\ \n \r \t \{ *)
Definition unesc_char (e : Z) : option Z :=
  if e =? 34 then Some 34
  else if e =? 92 then Some 92
  else if e =? 110 then Some 10
  else if e =? 114 then Some 13
  else if e =? 116 then Some 9
  else if e =? 123 then Some 123
  else None.

(* parser.rs:685 parse_string_content; None = Err(StringEscapeInvalid) (bad escape or a lone
   trailing backslash) *)
Fixpoint unescape (s : list Z) : option (list Z) :=
  match s with
  | [] => Some []
  | c :: t =>
      if c =? 92 then
        match t with
        | [] => None
        | e :: t' =>
            match unesc_char e with
            | None => None
            | Some d => option_map (cons d) (unescape t')
            end
        end
      else option_map (cons c) (unescape t)
  end.

Inductive scan_result :=
| ScanText (text rest : list Z)
| ScanHole (text rest : list Z)
| ScanErr.

Definition scan_cons (d : Z) (r : scan_result) : scan_result :=
  match r with
  | ScanText t rest => ScanText (d :: t) rest
  | ScanHole t rest => ScanHole (d :: t) rest
  | ScanErr => ScanErr
  end.

(* parser.rs:499 string_segments restricted to text: scan the body after the opening quote.
   '''' ends the string; an unescaped '{' opens a hole (we stop there, returning the text decoded
   so far and the input from the brace on); '\\' decodes an escape (bad escape / end of input =
   Failure); end of input = Failure(Eof). *)
Fixpoint scan_single (s : list Z) : scan_result :=
  match s with
  | [] => ScanErr
  | c :: t =>
      if c =? 34 then ScanText [] t
      else if c =? 123 then ScanHole [] (c :: t)
      else if c =? 92 then
        match t with
        | [] => ScanErr
        | e :: t' =>
            match unesc_char e with
            | None => ScanErr
            | Some d => scan_cons d (scan_single t')
            end
        end
      else scan_cons c (scan_single t)
  end.

Definition raw_cons (pre : list Z) (r : option (list Z * list Z)) : option (list Z * list Z) :=
  match r with
  | Some (raw, rest) => Some (pre ++ raw, rest)
  | None => None
  end.

(* parser.rs:794 multiline_string_raw, after tag(''\''\''\''''): a backslash skips the following
   character; the first '''' at which the input starts_with(''\''\''\'''') closes. None = unterminated. *)
Fixpoint scan_multiline_raw (s : list Z) : option (list Z * list Z) :=
  match s with
  | [] => None
  | c :: t =>
      if c =? 92 then
        match t with
        | [] => None
        | e :: t' => raw_cons [c; e] (scan_multiline_raw t')
        end
      else if c =? 34 then
        match t with
        | a :: b :: rest =>
            if (a =? 34) && (b =? 34) then Some ([], rest)
            else raw_cons [c] (scan_multiline_raw t)
        | _ => raw_cons [c] (scan_multiline_raw t)
        end
      else raw_cons [c] (scan_multiline_raw t)
  end.

(* parser.rs:757 is_hspace *)
Definition is_hspace (c : Z) : bool := (c =? 32) || (c =? 9).

Definition all_hspace (l : list Z) : bool := forallb is_hspace l.

(* parser.rs:827 raw.replace(''\r\n'', ''\n'') *)
Fixpoint replace_crlf (s : list Z) : list Z :=
  match s with
  | [] => []
  | c :: t =>
      match t with
      | [] => [c]
      | d :: t' =>
          if (c =? 13) && (d =? 10) then 10 :: replace_crlf t'
          else c :: replace_crlf t
      end
  end.

(* parser.rs:827 .replace('\r', ''\n'') *)
Definition replace_cr (s : list Z) : list Z :=
  map (fun c => if c =? 13 then 10 else c) s.

(* str::split_once('\n') *)
Fixpoint split_once_lf (s : list Z) : option (list Z * list Z) :=
  match s with
  | [] => None
  | c :: t =>
      if c =? 10 then Some ([], t)
      else match split_once_lf t with
           | Some (a, b) => Some (c :: a, b)
           | None => None
           end
  end.

(* str::rsplit_once('\n') *)
Fixpoint rsplit_once_lf (s : list Z) : option (list Z * list Z) :=
  match s with
  | [] => None
  | c :: t =>
      match rsplit_once_lf t with
      | Some (a, b) => Some (c :: a, b)
      | None => if c =? 10 then Some ([], t) else None
      end
  end.

(* str::strip_prefix *)
Fixpoint strip_prefix (p l : list Z) : option (list Z) :=
  match p with
  | [] => Some l
  | a :: p' =>
      match l with
      | [] => None
      | b :: l' => if a =? b then strip_prefix p' l' else None
      end
  end.

(* parser.rs:847-855, the loop body: a blank line contributes an empty line, any other line must
   carry the margin as a prefix *)
Fixpoint dedent_lines (margin : list Z) (ls : list (list Z)) : option (list (list Z)) :=
  match ls with
  | [] => Some []
  | l :: ls' =>
      match (if all_hspace l then Some [] else strip_prefix margin l) with
      | None => None
      | Some l' => option_map (cons l') (dedent_lines margin ls')
      end
  end.

(* parser.rs:826 multiline_dedent *)
Definition multiline_dedent (raw : list Z) : option (list Z) :=
  let normalized := replace_cr (replace_crlf raw) in
  match split_once_lf normalized with
  | None => None
  | Some (first, after_open) =>
      if all_hspace first then
        let '(body, margin) :=
          match rsplit_once_lf after_open with
          | Some p => p
          | None => ([], after_open)
          end in
        if all_hspace margin
        then option_map join_lf (dedent_lines margin (split_lf body))
        else None
      else None
  end.

(* the escape table of parser.rs:890-897 / 958-965:  \'' \\ \n \r \t \s \{ *)
Definition munesc_char (e : Z) : option Z :=
  if e =? 34 then Some 34
  else if e =? 92 then Some 92
  else if e =? 110 then Some 10
  else if e =? 114 then Some 13
  else if e =? 116 then Some 9
  else if e =? 115 then Some 32
  else if e =? 123 then Some 123
  else None.

(* parser.rs:870-907, the loop of process_multiline_string over the dedented text.
   [pending] is the buffered horizontal whitespace (in order); [skip] is true while the inner
   `while chars.peek().is_some_and(is_hspace)` loop after a line continuation is running
   (pending is empty then).  The result is built front-to-back (the Rust appends to `result`
   and discards it on None, which is the same thing). *)
Fixpoint process_escapes_aux (skip : bool) (pending : list Z) (s : list Z) : option (list Z) :=
  match s with
  | [] => Some []
  | c :: t =>
      if skip && is_hspace c then process_escapes_aux true pending t
      else if is_hspace c then process_escapes_aux false (pending ++ [c]) t
      else if c =? 10 then option_map (cons 10) (process_escapes_aux false [] t)
      else if c =? 92 then
        match t with
        | [] => None
        | e :: t' =>
            if e =? 10 then option_map (app pending) (process_escapes_aux true [] t')
            else match munesc_char e with
                 | None => None
                 | Some d => option_map (fun r => pending ++ d :: r) (process_escapes_aux false [] t')
                 end
        end
      else option_map (fun r => pending ++ c :: r) (process_escapes_aux false [] t)
  end.

Definition process_escapes (s : list Z) : option (list Z) := process_escapes_aux false [] s.

(* parser.rs:864 process_multiline_string *)
Definition process_multiline (raw : list Z) : option (list Z) :=
  match multiline_dedent raw with
  | None => None
  | Some d => process_escapes d
  end.

Inductive mresult := MText (s : list Z) | MHole | MErr.

Definition mcons (pre : list Z) (r : mresult) : mresult :=
  match r with
  | MText s => MText (pre ++ s)
  | MHole => MHole
  | MErr => MErr
  end.

(* parser.rs:921-975, the loop of process_multiline_segments restricted to text: identical to
   process_escapes_aux except that an unescaped '{' opens a hole (MHole; whatever follows the hole
   is outside the model) *)
Fixpoint process_term_aux (skip : bool) (pending : list Z) (s : list Z) : mresult :=
  match s with
  | [] => MText []
  | c :: t =>
      if skip && is_hspace c then process_term_aux true pending t
      else if is_hspace c then process_term_aux false (pending ++ [c]) t
      else if c =? 10 then mcons [10] (process_term_aux false [] t)
      else if c =? 123 then MHole
      else if c =? 92 then
        match t with
        | [] => MErr
        | e :: t' =>
            if e =? 10 then mcons pending (process_term_aux true [] t')
            else match munesc_char e with
                 | None => MErr
                 | Some d => mcons (pending ++ [d]) (process_term_aux false [] t')
                 end
        end
      else mcons (pending ++ [c]) (process_term_aux false [] t)
  end.

(* parser.rs:914 process_multiline_segments restricted to text *)
Definition process_multiline_term (raw : list Z) : mresult :=
  match multiline_dedent raw with
  | None => MErr
  | Some d => process_term_aux false [] d
  end.
