(* SimplifyCompose.v — formatter-normalisation followed by compiler-normalisation equals compiler-normalisation
   (model of simplify.rs `normalize_blocks`, Simplify.v):
     normalize_blocks (normalize_blocks p (formatter_options k)) compiler_options = normalize_blocks p compiler_options
   for EVERY keep predicate k.
   Route: (1) invariants of strip_* for any options (match-freeness, emptiness, tail-call positions), (2) for the compiler's
   options the recursive tail-call test is invariant under strip_term, (3) chain level: a block the formatter splices is
   contributed by the compiler as exactly the compiler-normal form of its body terms (whether or not the compiler's lifting
   intervenes inside that block), (4) a grouped consequence is un-grouped again by the compiler's lifting,
   (5) mutual induction over the AST. *)
From Quiver Require Import Base Ast Simplify SimplifyProofs.

Local Notation co := compiler_options.
Local Notation fo := formatter_options.

(* the shape `{ ch }` of a block with one branch, no consequence, one chain *)
Definition blk1 (ch : chain) : term := Block (Expression [Branch (Sequence [ch]) None]).
Definition blkn (cs : list chain) : term := Block (Expression [Branch (Sequence cs) None]).

(* ------------------------------------------------------------------ small list facts *)
Lemma map_ext_Forall' {A B} (f g : A -> B) (l : list A) : Forall (fun x => f x = g x) l -> map f l = map g l.
Proof. induction 1 as [|x r Hx Hr IH]; cbn; [reflexivity|]. rewrite Hx, IH. reflexivity. Qed.

Lemma existsb_map_Forall {A} (g : A -> bool) (f : A -> A) (l : list A) :
  Forall (fun x => g (f x) = g x) l -> existsb g (map f l) = existsb g l.
Proof. induction 1 as [|x r Hx Hr IH]; cbn; [reflexivity|]. rewrite Hx, IH. reflexivity. Qed.

Lemma forallb_map_all {A} (g : A -> bool) (f : A -> A) (l : list A) :
  (forall x, g (f x) = g x) -> forallb g (map f l) = forallb g l.
Proof. intros H. induction l as [|x r IH]; cbn; [reflexivity|]. rewrite H, IH. reflexivity. Qed.

Lemma null_map {A B} (f : A -> B) (l : list A) : null (map f l) = null l.
Proof. destruct l; reflexivity. Qed.

Lemma null_true {A} (l : list A) : null l = true -> l = [].
Proof. destruct l; [reflexivity|discriminate]. Qed.

Lemma null_false {A} (l : list A) : null l = false <-> l <> [].
Proof. destruct l; split; try congruence; try discriminate. reflexivity. Qed.

Lemma removelast_map' {A B} (f : A -> B) (l : list A) : removelast (map f l) = map f (removelast l).
Proof.
  induction l as [|x r IH]; [reflexivity|]. destruct r as [|y r]; [reflexivity|].
  cbn [map removelast] in *. rewrite IH. reflexivity.
Qed.

(* ------------------------------------------------------------------ the tail-call tests, list level *)
(* `body.terms.last().is_some_and(ends_in_tail_call)` on a bare term list *)
Definition lends (l : list term) : bool :=
  match last_term l with Some t => term_ends_in_tail_call t | None => false end.
(* has_nonfinal_tail_call without the (redundant) length test *)
Definition nft (l : list term) : bool := existsb is_tail_call (removelast l).

Lemma ends_lends ch : ends_in_tail_call ch = lends (chain_terms ch).
Proof. reflexivity. Qed.

Lemma lends_cons t r : lends (t :: r) = if null r then term_ends_in_tail_call t else lends r.
Proof. destruct r; reflexivity. Qed.

Lemma lends_app_ne l1 l2 : l2 <> [] -> lends (l1 ++ l2) = lends l2.
Proof.
  intros Hne. induction l1 as [|t r IH]; [reflexivity|]. cbn [app]. rewrite lends_cons.
  assert (Hn : null (r ++ l2) = false).
  { apply null_false. intros E. apply app_eq_nil in E as [_ E]. congruence. }
  rewrite Hn. exact IH.
Qed.

Lemma lends_map (f : term -> term) l :
  (forall t, term_ends_in_tail_call (f t) = term_ends_in_tail_call t) -> lends (map f l) = lends l.
Proof.
  intros H. induction l as [|t r IH]; [reflexivity|]. cbn [map]. rewrite !lends_cons, null_map, H, IH. reflexivity.
Qed.

Lemma lends_map_Forall (f : term -> term) l :
  Forall (fun t => term_ends_in_tail_call (f t) = term_ends_in_tail_call t) l -> lends (map f l) = lends l.
Proof.
  induction 1 as [|t r Ht Hr IH]; [reflexivity|]. cbn [map]. rewrite !lends_cons, null_map, Ht, IH. reflexivity.
Qed.

Lemma nft_cons t x : nft (t :: x) = if null x then false else is_tail_call t || nft x.
Proof. destruct x; reflexivity. Qed.

Lemma hnf_nft l : has_nonfinal_tail_call l = nft l.
Proof.
  unfold has_nonfinal_tail_call, nft. destruct (1 <? Z.of_nat (length l)) eqn:E; [reflexivity|].
  apply Z.ltb_ge in E. destruct l as [|a [|b l]]; [reflexivity|reflexivity|]. cbn [length] in E. lia.
Qed.

Lemma nft_map (f : term -> term) l : (forall t, is_tail_call (f t) = is_tail_call t) -> nft (map f l) = nft l.
Proof.
  intros H. unfold nft. rewrite removelast_map'. apply existsb_map_Forall. apply Forall_forall. auto.
Qed.

(* the anonymous inner fixpoint of term_ends_in_tail_call is `lends` *)
Lemma inner_fix_lends ts :
  (fix last_ends (l : list term) : bool :=
     match l with
     | [] => false
     | x :: r => match r with [] => term_ends_in_tail_call x | _ :: _ => last_ends r end
     end) ts = lends ts.
Proof.
  induction ts as [|t r IH]; [reflexivity|]. rewrite lends_cons. destruct r as [|t2 r2]; [reflexivity|].
  cbn [null]. exact IH.
Qed.

Lemma redundant_blk1 ch : redundant_body (blk1 ch) = if is_inlinable_chain ch then Some ch else None.
Proof. reflexivity. Qed.

(* simplify.rs:272 in terms of the fused test *)
Lemma term_ends_unfold t :
  term_ends_in_tail_call t =
  match redundant_body t with Some body => ends_in_tail_call body | None => is_tail_call t end.
Proof.
  destruct t as [l|n fs|st segs|m|e|sg body|a|t'| |srcs|n|a]; try reflexivity.
  destruct e as [[|[[[|[mp sp ts] [|c2 cs]]] [k|]] [|b2 bs]]]; try reflexivity.
  change (redundant_body (Block (Expression [Branch (Sequence [Chain mp sp ts]) None])))
    with (redundant_body (blk1 (Chain mp sp ts))).
  rewrite redundant_blk1. cbn [term_ends_in_tail_call].
  destruct (is_inlinable_chain (Chain mp sp ts)); [|reflexivity].
  rewrite inner_fix_lends. reflexivity.
Qed.

Lemma redundant_is_block t body : redundant_body t = Some body -> t = blk1 body /\ is_inlinable_chain body = true.
Proof. apply redundant_body_inv. Qed.

Lemma is_tail_ends t : is_tail_call t = true -> term_ends_in_tail_call t = true.
Proof.
  intros H. rewrite term_ends_unfold. destruct (redundant_body t) as [body|] eqn:Hr; [|exact H].
  apply redundant_is_block in Hr as [-> _]. discriminate H.
Qed.

Lemma should_strip_inv2 o t b bt :
  should_strip o t b = Some bt ->
  exists body, redundant_body t = Some body /\ bt = chain_terms body /\ keep o body = false /\
               (ends_in_tail_call body = false \/ b = true).
Proof.
  unfold should_strip. intros Hs. destruct (redundant_body t) as [body|]; [|discriminate].
  destruct (keep o body) eqn:Hk; [discriminate|]. cbn [negb andb] in Hs.
  destruct (ends_in_tail_call body) eqn:He; cbn [negb orb] in Hs.
  - destruct b; [|discriminate]. injection Hs as <-. exists body. repeat split; auto.
  - injection Hs as <-. exists body. repeat split; auto.
Qed.

(* the flag only matters for terms that end in a tail call *)
Lemma should_strip_flag o t b : term_ends_in_tail_call t = false -> should_strip o t b = should_strip o t true.
Proof.
  intros H. unfold should_strip. rewrite term_ends_unfold in H.
  destruct (redundant_body t) as [body|]; [|reflexivity]. rewrite H. cbn [negb orb]. reflexivity.
Qed.

Lemma inlinable_parts ch :
  is_inlinable_chain ch = true ->
  chain_terms ch <> [] /\ is_frame_free_chain ch = true /\ nft (chain_terms ch) = false.
Proof.
  unfold is_inlinable_chain. rewrite hnf_nft. intros H.
  apply andb_true_iff in H as [H H3]. apply andb_true_iff in H as [H1 H2].
  apply negb_true_iff in H1, H3. apply null_false in H1. auto.
Qed.

Lemma no_tail_calls l : nft l = false -> lends l = false -> existsb is_tail_call l = false.
Proof.
  induction l as [|a r IH]; [reflexivity|]. rewrite nft_cons, lends_cons. destruct r as [|b r'].
  - cbn [null existsb]. intros _ He. rewrite orb_false_r.
    destruct (is_tail_call a) eqn:Ht; [|reflexivity]. apply is_tail_ends in Ht. congruence.
  - cbn [null]. intros Hn He. apply orb_false_iff in Hn as [Ha Hn]. cbn [existsb]. rewrite Ha. cbn [orb].
    apply IH; assumption.
Qed.

(* ------------------------------------------------------------------ (1) invariants of splice, any options *)
Lemma splice_lends o l : lends (splice o l) = lends l.
Proof.
  induction l as [|t r IH]; [reflexivity|]. cbn [splice].
  destruct (should_strip o t (null r)) as [bt|] eqn:Hs.
  - apply should_strip_inv2 in Hs as (body & Hr & -> & _ & _).
    rewrite lends_cons. destruct r as [|t2 r2].
    + cbn [splice null]. rewrite app_nil_r. rewrite term_ends_unfold, Hr. reflexivity.
    + cbn [null]. rewrite lends_app_ne; [exact IH|]. apply null_false. rewrite splice_null. reflexivity.
  - rewrite !lends_cons, splice_null, IH. reflexivity.
Qed.

Lemma splice_nft o l : nft (splice o l) = nft l.
Proof.
  induction l as [|t r IH]; [reflexivity|]. cbn [splice].
  destruct (should_strip o t (null r)) as [bt|] eqn:Hs.
  - apply should_strip_inv2 in Hs as (body & Hr & -> & _ & Hflag).
    apply redundant_is_block in Hr as [-> Hin]. apply inlinable_parts in Hin as (_ & _ & Hn).
    rewrite nft_cons. destruct r as [|t2 r2].
    + cbn [splice null]. rewrite app_nil_r. exact Hn.
    + cbn [null] in *. destruct Hflag as [He|Hd]; [|discriminate]. rewrite ends_lends in He.
      unfold nft at 1. rewrite removelast_app by (apply null_false; rewrite splice_null; reflexivity).
      rewrite existsb_app, (no_tail_calls _ Hn He). cbn [orb is_tail_call blk1]. exact IH.
  - rewrite !nft_cons, splice_null, IH. reflexivity.
Qed.

Lemma splice_no_match o l : existsb contains_match (splice o l) = existsb contains_match l.
Proof.
  induction l as [|t r IH]; [reflexivity|]. cbn [splice].
  destruct (should_strip o t (null r)) as [bt|] eqn:Hs.
  - apply should_strip_inv2 in Hs as (body & Hr & -> & _ & _).
    apply redundant_is_block in Hr as [-> Hin]. apply inlinable_parts in Hin as (_ & Hff & _).
    rewrite existsb_app, IH. cbn [existsb contains_match blk1 orb].
    destruct body as [mp sp bs]. cbn [is_frame_free_chain chain_terms] in *.
    apply andb_true_iff in Hff as [_ Hff]. apply negb_true_iff in Hff. rewrite Hff. reflexivity.
  - cbn [existsb]. rewrite IH. reflexivity.
Qed.

(* splicing distributes over append when the seam cannot be a retained tail-call block *)
Lemma splice_app_gen o l1 l2 :
  l2 = [] \/ lends l1 = false -> splice o (l1 ++ l2) = splice o l1 ++ splice o l2.
Proof.
  induction l1 as [|t r IH]; intros H; [reflexivity|]. cbn [app splice]. destruct r as [|t2 r2].
  - cbn [app null splice].
    assert (Hf : should_strip o t (null l2) = should_strip o t true).
    { destruct H as [->|He]; [reflexivity|]. apply should_strip_flag. exact He. }
    rewrite Hf. destruct (should_strip o t true); [rewrite app_nil_r|]; reflexivity.
  - change (null ((t2 :: r2) ++ l2)) with false. cbn [null].
    rewrite IH by (destruct H as [->|He]; [left; reflexivity|right; rewrite lends_cons in He; exact He]).
    destruct (should_strip o t false); [rewrite app_assoc|]; reflexivity.
Qed.

(* ------------------------------------------------------------------ (1) invariants of strip_*, any options *)
Lemma strip_is_tail_call o t : is_tail_call (strip_term o t) = is_tail_call t.
Proof. destruct t as [l|n fs|st segs|m|e|sg body|a|t'| |[srcs|]|n|a]; reflexivity. Qed.

Definition cm_chain (c : chain) : bool :=
  match c with Chain mp _ ts => is_some mp || existsb contains_match ts end.
Definition cm_field (f : tuple_field) : bool :=
  match f with
  | TupleField _ (FChain c) => cm_chain c
  | TupleField _ (FSpread _) => false
  end.

Lemma contains_match_Tuple n fs : contains_match (Tuple n fs) = existsb cm_field fs.
Proof.
  cbn [contains_match]. induction fs as [|f r IH]; [reflexivity|]. cbn [existsb]. rewrite IH.
  destruct f as [nm [[mp sp ts]|s]]; reflexivity.
Qed.

Lemma contains_match_Select cs : contains_match (Select (Some cs)) = existsb cm_chain cs.
Proof.
  cbn [contains_match]. induction cs as [|c r IH]; [reflexivity|]. cbn [existsb]. rewrite IH.
  destruct c as [mp sp ts]; reflexivity.
Qed.

Lemma strip_contains_match o :
  (forall t, contains_match (strip_term o t) = contains_match t) /\
  (forall f, cm_field (strip_field o f) = cm_field f) /\
  (forall v, match v with FChain c => cm_chain (strip_chain o c) = cm_chain c | FSpread _ => True end) /\
  (forall g : str_segment, True) /\
  (forall c, cm_chain (strip_chain o c) = cm_chain c) /\
  (forall s : sequence, True) /\ (forall b : branch, True) /\ (forall e : expression, True).
Proof.
  apply ast_mutind; try (intros; exact I); try reflexivity.
  - intros n fs IH. cbn [strip_term]. rewrite !contains_match_Tuple. apply existsb_map_Forall. exact IH.
  - intros cs IH. cbn [strip_term]. rewrite !contains_match_Select. apply existsb_map_Forall. exact IH.
  - intros n v IH. destruct v as [c|s]; [|reflexivity]. cbn [strip_field cm_field]. exact IH.
  - intros c IH. exact IH.
  - intros mp sp ts IH. cbn [strip_chain cm_chain]. f_equal.
    rewrite splice_no_match. apply existsb_map_Forall. exact IH.
Qed.

Lemma strip_frame_free o c : is_frame_free_chain (strip_chain o c) = is_frame_free_chain c.
Proof.
  destruct (strip_contains_match o) as (_ & _ & _ & _ & H & _). specialize (H c).
  destruct c as [mp sp ts]. cbn [strip_chain cm_chain is_frame_free_chain] in *.
  destruct mp; cbn [is_some negb andb orb] in *; [reflexivity|]. rewrite H. reflexivity.
Qed.

Lemma strip_chain_null o c : null (chain_terms (strip_chain o c)) = null (chain_terms c).
Proof. destruct c as [mp sp ts]. cbn [strip_chain chain_terms]. rewrite splice_null, null_map. reflexivity. Qed.

Lemma strip_chain_pattern o c : chain_pattern (strip_chain o c) = chain_pattern c.
Proof. destruct c; reflexivity. Qed.

Lemma strip_chain_span o c : chain_span (strip_chain o c) = chain_span c.
Proof. destruct c; reflexivity. Qed.

Lemma strip_chain_nft o c : nft (chain_terms (strip_chain o c)) = nft (chain_terms c).
Proof.
  destruct c as [mp sp ts]. cbn [strip_chain chain_terms]. rewrite splice_nft.
  apply nft_map. apply strip_is_tail_call.
Qed.

Lemma strip_has_nonfinal_tail_call o c :
  has_nonfinal_tail_call (chain_terms (strip_chain o c)) = has_nonfinal_tail_call (chain_terms c).
Proof. rewrite !hnf_nft. apply strip_chain_nft. Qed.

Lemma strip_inlinable o c : is_inlinable_chain (strip_chain o c) = is_inlinable_chain c.
Proof.
  unfold is_inlinable_chain. rewrite strip_chain_null, strip_frame_free, strip_has_nonfinal_tail_call. reflexivity.
Qed.

(* ------------------------------------------------------------------ lifting facts *)
Lemma liftable_chains_spec t inner :
  liftable_chains t = Some inner ->
  t = blkn inner /\ inner <> [] /\ forallb is_frame_free_chain inner = true.
Proof.
  intros H. pose proof (liftable_chains_inv _ _ H) as ->. cbn [liftable_chains] in H.
  destruct (negb (null inner) && forallb is_frame_free_chain inner) eqn:E; [|discriminate].
  apply andb_true_iff in E as [E1 E2]. apply negb_true_iff, null_false in E1. auto.
Qed.

Lemma should_lift_spec o c inner :
  should_lift o c = Some inner ->
  (exists sp, c = Chain None sp [blkn inner]) /\ inner <> [] /\ forallb is_frame_free_chain inner = true.
Proof.
  intros Hs. pose proof (should_lift_inv _ _ _ Hs) as (sp & ->). split; [exists sp; reflexivity|].
  unfold should_lift in Hs. destruct (lift o); [|discriminate].
  apply liftable_chains_spec in Hs as (_ & H1 & H2). auto.
Qed.

Lemma lift_length o l : (length l <= length (lift_chains o l))%nat.
Proof.
  induction l as [|c r IH]; [reflexivity|]. cbn [lift_chains].
  destruct (should_lift o c) as [inner|] eqn:Hs; cbn [length]; [|lia].
  apply should_lift_spec in Hs as (_ & Hne & _). rewrite app_length.
  destruct inner; [congruence|]. cbn [length]. lia.
Qed.

Lemma lift_frame_free o l :
  forallb is_frame_free_chain l = true -> forallb is_frame_free_chain (lift_chains o l) = true.
Proof.
  induction l as [|c r IH]; [reflexivity|]. cbn [forallb lift_chains]. intros H.
  apply andb_true_iff in H as [Hc Hr]. destruct (should_lift o c) as [inner|] eqn:Hs.
  - apply should_lift_spec in Hs as (_ & _ & Hff). rewrite forallb_app, Hff. cbn [andb]. auto.
  - cbn [forallb]. rewrite Hc. cbn [andb]. auto.
Qed.

Lemma lift_off o l : lift o = false -> lift_chains o l = l.
Proof.
  intros Hoff. apply lift_chains_id. apply Forall_forall. intros c _. unfold should_lift. rewrite Hoff. reflexivity.
Qed.

(* ------------------------------------------------------------------ (2) compiler options *)
Lemma co_compat : group_consequences co = true -> lift co = false.
Proof. cbn. discriminate. Qed.

Lemma co_nf_term t : nf_term co (strip_term co t).
Proof. destruct (strip_nf co co_compat) as (H & _). apply H. Qed.
Lemma co_nf_chain c : nf_chain co (strip_chain co c).
Proof. destruct (strip_nf co co_compat) as (_ & _ & _ & _ & H & _). apply H. Qed.

(* with keep = false, a term retained in final position is not a redundant block *)
Lemma co_not_stripped t : should_strip co t true = None -> redundant_body t = None.
Proof.
  unfold should_strip. destruct (redundant_body t) as [body|]; [|reflexivity].
  cbn [keep co negb andb]. rewrite orb_true_r. discriminate.
Qed.

Lemma strip_blk1 o ch :
  strip_term o (blk1 ch) = blkn (lift_chains o [strip_chain o ch]).
Proof. reflexivity. Qed.

(* the compiler-normalised one-chain sequence: either it stays one chain, or its sole term is a block that is lifted —
   and then that block is not redundant *)
Lemma co_lift_single ch :
  (lift_chains co [strip_chain co ch] = [strip_chain co ch])
  \/ (exists inner, chain_terms (strip_chain co ch) = [blkn inner] /\
                    lift_chains co [strip_chain co ch] = inner /\
                    should_strip co (blkn inner) true = None).
Proof.
  pose proof (co_nf_chain ch) as Hnf. cbn [lift_chains].
  destruct (should_lift co (strip_chain co ch)) as [inner|] eqn:Hs; [right|left; reflexivity].
  apply should_lift_inv in Hs as (sp & Heq). rewrite Heq in *. exists inner. rewrite app_nil_r.
  split; [reflexivity|]. split; [reflexivity|].
  inversion Hnf as [? ? ? _ Hdn]; subst. cbn [dn null negb andb] in Hdn. apply Hdn.
Qed.

(* a redundant block after compiler-normalisation comes from a redundant block *)
Lemma co_redundant_strip_inv e B :
  redundant_body (strip_term co (Block e)) = Some B ->
  exists ch, e = Expression [Branch (Sequence [ch]) None] /\ B = strip_chain co ch /\
             lift_chains co [strip_chain co ch] = [strip_chain co ch] /\ is_inlinable_chain ch = true.
Proof.
  intros Hr. apply redundant_is_block in Hr as [Heq Hin]. unfold blk1 in Heq.
  destruct e as [bs]. cbn [strip_term strip_expression] in Heq. injection Heq as Heq.
  destruct bs as [|[s k] [|b2 bs]]; cbn [map] in Heq; try discriminate.
  cbn [strip_branch] in Heq. injection Heq as Hs Hk. destruct k as [k|]; [discriminate|].
  destruct s as [cs]. cbn [strip_sequence] in Hs. injection Hs as Hs.
  destruct cs as [|ch [|ch2 cs]].
  - discriminate.
  - exists ch. cbn [map] in Hs. destruct (co_lift_single ch) as [Hl|(inner & _ & Hl & Hss)].
    + rewrite Hl in Hs. injection Hs as <-. rewrite strip_inlinable in Hin. auto.
    + exfalso. rewrite Hl in Hs. subst inner. apply co_not_stripped in Hss.
      change (blkn [B]) with (blk1 B) in Hss. rewrite redundant_blk1, Hin in Hss. discriminate.
  - exfalso. pose proof (lift_length co (map (strip_chain co) (ch :: ch2 :: cs))) as Hlen.
    rewrite Hs in Hlen. cbn [map length] in Hlen. lia.
Qed.

(* the recursive tail-call test is invariant under compiler-normalisation *)
Lemma co_term_ends :
  forall t, term_ends_in_tail_call (strip_term co t) = term_ends_in_tail_call t.
Proof.
  pose (Pt := fun t => term_ends_in_tail_call (strip_term co t) = term_ends_in_tail_call t).
  pose (Pc := fun c => Forall Pt (chain_terms c)).
  pose (Ps := fun s => Forall Pc (seq_chains s)).
  pose (Pb := fun b => match b with Branch c _ => Ps c end).
  pose (Pe := fun e => match e with Expression bs => Forall Pb bs end).
  enough (H : (forall t, Pt t) /\ (forall f : tuple_field, True) /\ (forall v : field_value, True) /\
              (forall g : str_segment, True) /\ (forall c, Pc c) /\ (forall s, Ps s) /\ (forall b, Pb b) /\
              (forall e, Pe e)) by apply H.
  apply ast_mutind; subst Pt Pc Ps Pb Pe; cbn beta; try (intros; exact I); try reflexivity; try (intros; assumption).
  - (* Block *)
    intros e IH. rewrite !term_ends_unfold.
    destruct (redundant_body (Block e)) as [ch|] eqn:Hr.
    + apply redundant_is_block in Hr as [Heq Hin]. injection Heq as ->.
      inversion IH as [|? ? Hb _]; subst. cbn [seq_chains] in Hb. inversion Hb as [|? ? Hts _]; subst.
      assert (Hends : lends (chain_terms (strip_chain co ch)) = lends (chain_terms ch)).
      { destruct ch as [mp sp ts]. cbn [strip_chain chain_terms] in *. rewrite splice_lends.
        apply lends_map_Forall. exact Hts. }
      change (Block (Expression [Branch (Sequence [ch]) None])) with (blk1 ch). rewrite strip_blk1.
      destruct (co_lift_single ch) as [Hl|(inner & Hct & Hl & Hss)]; rewrite Hl.
      * change (blkn [strip_chain co ch]) with (blk1 (strip_chain co ch)).
        rewrite redundant_blk1, strip_inlinable, Hin. rewrite !ends_lends. exact Hends.
      * apply co_not_stripped in Hss. rewrite Hss. rewrite ends_lends, <- Hends, Hct.
        unfold lends. cbn [last_term map last]. rewrite term_ends_unfold, Hss. reflexivity.
    + destruct (redundant_body (strip_term co (Block e))) as [B|] eqn:Hr2; [exfalso|reflexivity].
      apply co_redundant_strip_inv in Hr2 as (ch & -> & _ & _ & Hin).
      change (Block (Expression [Branch (Sequence [ch]) None])) with (blk1 ch) in Hr.
      rewrite redundant_blk1, Hin in Hr. discriminate.
Qed.

Lemma co_ends_chain ch : ends_in_tail_call (strip_chain co ch) = ends_in_tail_call ch.
Proof.
  rewrite !ends_lends. destruct ch as [mp sp ts]. cbn [strip_chain chain_terms].
  rewrite splice_lends. apply lends_map. apply co_term_ends.
Qed.

(* (3) the crux: what the compiler contributes for (the compiler-normal form of) a redundant block `u = { bf }` that
   may be spliced at its position is exactly the compiler-normal form of bf's terms — also when lifting intervenes *)
Lemma co_contribution bf b :
  is_inlinable_chain bf = true ->
  ends_in_tail_call bf = false \/ b = true ->
  match should_strip co (strip_term co (blk1 bf)) b with
  | Some bt => bt
  | None => [strip_term co (blk1 bf)]
  end = chain_terms (strip_chain co bf).
Proof.
  intros Hin Hflag. rewrite strip_blk1.
  destruct (co_lift_single bf) as [Hl|(inner & Hct & Hl & Hss)]; rewrite Hl.
  - change (blkn [strip_chain co bf]) with (blk1 (strip_chain co bf)).
    unfold should_strip. rewrite redundant_blk1, strip_inlinable, Hin, co_ends_chain.
    cbn [keep co negb andb]. destruct Hflag as [->| ->]; [reflexivity|]. rewrite orb_true_r. reflexivity.
  - assert (Hn : should_strip co (blkn inner) b = None).
    { destruct b; [exact Hss|]. apply should_strip_none_weaken. exact Hss. }
    rewrite Hn. symmetry. exact Hct.
Qed.

(* ------------------------------------------------------------------ (3) chain level *)
Lemma chain_level k ts :
  Forall (fun t => strip_term co (strip_term (fo k) t) = strip_term co t) ts ->
  splice co (map (strip_term co) (splice (fo k) (map (strip_term (fo k)) ts)))
  = splice co (map (strip_term co) ts).
Proof.
  induction 1 as [|t r Ht Hr IH]; [reflexivity|]. cbn [map splice].
  destruct (should_strip (fo k) (strip_term (fo k) t) (null (map (strip_term (fo k)) r))) as [bt|] eqn:Hs.
  - (* the formatter splices the block: so does the compiler, up to lifting inside it *)
    apply should_strip_inv2 in Hs as (bf & Hrb & -> & _ & Hflag).
    apply redundant_is_block in Hrb as [Hu Hin]. rewrite null_map in Hflag.
    rewrite map_app, splice_app_gen, IH.
    + rewrite <- Ht, Hu. rewrite null_map.
      pose proof (co_contribution bf (null r) Hin Hflag) as Hc.
      destruct bf as [mp sp bs]. cbn [strip_chain chain_terms] in Hc |- *.
      destruct (should_strip co (strip_term co (blk1 (Chain mp sp bs))) (null r)) as [bt|];
        rewrite <- Hc; reflexivity.
    + destruct Hflag as [He|Hn].
      * right. rewrite lends_map by apply co_term_ends. exact He.
      * left. apply null_true in Hn. subst r. reflexivity.
  - (* the formatter retains the term *)
    cbn [map splice]. rewrite !null_map, splice_null, null_map, Ht, IH. reflexivity.
Qed.

(* ------------------------------------------------------------------ (4) grouping is undone by the compiler's lifting *)
Lemma co_ungroup s : strip_sequence co (group_consequence s) = strip_sequence co s.
Proof.
  destruct s as [cs]. cbn [group_consequence].
  destruct ((1 <? Z.of_nat (length cs)) && forallb is_frame_free_chain cs) eqn:Hcond; [|reflexivity].
  apply andb_true_iff in Hcond as [Hlen Hff]. apply Z.ltb_lt in Hlen.
  cbn [strip_sequence strip_chain strip_term strip_expression strip_branch map].
  set (L := lift_chains co (map (strip_chain co) cs)).
  assert (HL : (2 <= length L)%nat).
  { pose proof (lift_length co (map (strip_chain co) cs)) as H. rewrite map_length in H. subst L. lia. }
  assert (HffL : forallb is_frame_free_chain L = true).
  { subst L. apply lift_frame_free. rewrite forallb_map_all by apply strip_frame_free. exact Hff. }
  assert (Hsp : splice co [Block (Expression [Branch (Sequence L) None])]
                = [Block (Expression [Branch (Sequence L) None])]).
  { destruct L as [|[mp sp ts] [|b L']]; cbn [length] in HL; try lia. reflexivity. }
  rewrite Hsp. cbn [lift_chains should_lift lift co liftable_chains]. rewrite HffL.
  destruct L as [|a L']; [cbn [length] in HL; lia|]. cbn [null negb andb]. rewrite app_nil_r. reflexivity.
Qed.

(* ------------------------------------------------------------------ (5) the mutual induction *)
Lemma compose_all k :
  (forall t, strip_term co (strip_term (fo k) t) = strip_term co t) /\
  (forall f, strip_field co (strip_field (fo k) f) = strip_field co f) /\
  (forall v, match v with
             | FChain c => strip_chain co (strip_chain (fo k) c) = strip_chain co c
             | FSpread _ => True
             end) /\
  (forall g, strip_segment co (strip_segment (fo k) g) = strip_segment co g) /\
  (forall c, strip_chain co (strip_chain (fo k) c) = strip_chain co c) /\
  (forall s, strip_sequence co (strip_sequence (fo k) s) = strip_sequence co s) /\
  (forall b, strip_branch co (strip_branch (fo k) b) = strip_branch co b) /\
  (forall e, strip_expression co (strip_expression (fo k) e) = strip_expression co e).
Proof.
  apply ast_mutind; try reflexivity.
  - intros n fs IH. cbn [strip_term]. f_equal. rewrite map_map. apply map_ext_Forall'. exact IH.
  - intros st segs IH. cbn [strip_term]. f_equal. rewrite map_map. apply map_ext_Forall'. exact IH.
  - intros e IH. cbn [strip_term]. f_equal. exact IH.
  - intros sg [e|] IH; [|reflexivity]. cbn [strip_term Popt] in *. rewrite IH. reflexivity.
  - intros t IH. cbn [strip_term]. f_equal. exact IH.
  - intros cs IH. cbn [strip_term]. do 2 f_equal. rewrite map_map. apply map_ext_Forall'. exact IH.
  - intros n v IH. destruct v as [c|s]; [|reflexivity]. cbn [strip_field]. rewrite IH. reflexivity.
  - intros c IH. exact IH.
  - intros e IH. cbn [strip_segment]. f_equal. exact IH.
  - intros mp sp ts IH. cbn [strip_chain]. f_equal. apply chain_level. exact IH.
  - intros cs IH. cbn [strip_sequence]. f_equal. rewrite (lift_off (fo k)) by reflexivity.
    rewrite map_map. f_equal. apply map_ext_Forall'. exact IH.
  - intros c [s|] IHc IHs; cbn [strip_branch Popt group_consequences fo formatter_options co compiler_options] in *.
    + rewrite IHc, co_ungroup, IHs. reflexivity.
    + rewrite IHc. reflexivity.
  - intros bs IH. cbn [strip_expression]. f_equal. rewrite map_map. apply map_ext_Forall'. exact IH.
Qed.

Theorem format_then_compile_same : forall (k : chain -> bool) (p : program),
  normalize_blocks (normalize_blocks p (formatter_options k)) compiler_options
  = normalize_blocks p compiler_options.
Proof.
  intros k [stmts]. cbn [normalize_blocks]. f_equal. rewrite map_map. apply map_ext.
  intros [n ps ty|sq]; [reflexivity|]. f_equal.
  destruct (compose_all k) as (_ & _ & _ & _ & _ & Hs & _). apply Hs.
Qed.
Print Assumptions format_then_compile_same.

(* ------------------------------------------------------------------ non-vacuity *)
(* A program on which the formatter (keeping the blocks whose body chains start at offsets 10 and 74)
     - strips the redundant block at 4 and keeps the redundant block at 10,
     - leaves `{ 1 { 2 ^ } } 3` alone (kept inner block at 74 ends in a tail call: the recursive test protects the outer one),
     - does not lift the two-step block of the chain at 20, and
     - groups the compound consequence at 50/53,
   while the compiler strips 4 and 10, strips 74 inside 72 (then retains 72: tail call in non-final position),
   lifts the two-step block, and does not group. *)
Definition sc_chain (sp : Z) (ts : list term) : chain := Chain None (Some sp) ts.
Definition sc_blk (sp : Z) (ts : list term) : term := blk1 (sc_chain sp ts).
Definition sc_cond (k : option sequence) : term :=
  Block (Expression [Branch (Sequence [sc_chain 44 [Match (SxAtom 0)]]) k;
                     Branch (Sequence [sc_chain 60 [lit 3]]) None]).
Definition sc_program : program :=
  Program [TypeAlias (Some 1) [] (SxAtom 2);
           StmtExpression (Sequence
    [sc_chain 0 [lit 5; sc_blk 4 [lit 6; lit 7]; sc_blk 10 [lit 8]; lit 9];
     sc_chain 20 [blkn [sc_chain 22 [lit 1]; sc_chain 25 [lit 2]]];
     sc_chain 40 [lit 0; sc_cond (Some (Sequence [sc_chain 50 [lit 8]; sc_chain 53 [lit 9]]))];
     sc_chain 70 [sc_blk 72 [lit 1; sc_blk 74 [lit 2; tail]]; lit 3]])].
Definition sc_keep : chain -> bool := keep_by_span (fun off => (off =? 10) || (off =? 74)).

Definition sc_formatted : program :=
  Program [TypeAlias (Some 1) [] (SxAtom 2);
           StmtExpression (Sequence
    [sc_chain 0 [lit 5; lit 6; lit 7; sc_blk 10 [lit 8]; lit 9];
     sc_chain 20 [blkn [sc_chain 22 [lit 1]; sc_chain 25 [lit 2]]];
     sc_chain 40 [lit 0; sc_cond (Some (Sequence
        [Chain None None [blkn [sc_chain 50 [lit 8]; sc_chain 53 [lit 9]]]]))];
     sc_chain 70 [sc_blk 72 [lit 1; sc_blk 74 [lit 2; tail]]; lit 3]])].
Definition sc_compiled : program :=
  Program [TypeAlias (Some 1) [] (SxAtom 2);
           StmtExpression (Sequence
    [sc_chain 0 [lit 5; lit 6; lit 7; lit 8; lit 9];
     sc_chain 22 [lit 1]; sc_chain 25 [lit 2];
     sc_chain 40 [lit 0; sc_cond (Some (Sequence [sc_chain 50 [lit 8]; sc_chain 53 [lit 9]]))];
     sc_chain 70 [sc_blk 72 [lit 1; lit 2; tail]; lit 3]])].

Example format_then_compile_nonvacuous :
  normalize_blocks sc_program (formatter_options sc_keep) = sc_formatted /\
  normalize_blocks sc_program compiler_options = sc_compiled /\
  sc_formatted <> sc_compiled /\ sc_formatted <> sc_program /\ sc_compiled <> sc_program /\
  normalize_blocks sc_program (formatter_options sc_keep)
    <> normalize_blocks sc_program (formatter_options (fun _ => false)) /\
  normalize_blocks sc_formatted compiler_options = sc_compiled.
Proof.
  split; [vm_compute; reflexivity|]. split; [vm_compute; reflexivity|].
  split; [intros Heq; vm_compute in Heq; discriminate Heq|].
  split; [intros Heq; vm_compute in Heq; discriminate Heq|].
  split; [intros Heq; vm_compute in Heq; discriminate Heq|].
  split; [intros Heq; vm_compute in Heq; discriminate Heq|].
  vm_compute. reflexivity.
Qed.

(* the same instance through the theorem *)
Example format_then_compile_instance :
  normalize_blocks (normalize_blocks sc_program (formatter_options sc_keep)) compiler_options
  = normalize_blocks sc_program compiler_options.
Proof. apply format_then_compile_same. Qed.
