(* NarrowPartialEx.v — NarrowPartial.intersect_keeps_partial_pattern is not vacuous:
   (A[x: int] | B[x: bin]) /\ (x: int, ..) = A[x: int]; A[x: 0] is kept, B[x: ''] is not in the result. *)
From Quiver Require Import Base Types Rel Sem Narrow NarrowProofs OverlapProofs OverlapPartial Witness.
From Coq Require Import Arith.
Close Scope Z_scope.
Open Scope nat_scope.

Definition reg_pp : registry :=
  mk_reg [mk_tuple None []; mk_tuple (Some name_ok) []; mk_tuple (Some 0) [(Some 0, 0)]; mk_tuple (Some 1) [(Some 0, 1)]]
         [TInteger; TBinary; TTuple 2; TTuple 3; TUnion [2; 3]; TPartial None [(0, 0)]].
Definition v_A0 : value := VTup (Some 0) [(Some 0, VInt 0%Z)].
Definition v_Bb : value := VTup (Some 1) [(Some 0, VBin [])].

Lemma v_A0_wfv : wfv v_A0.
Proof.
  constructor.
  - intros l v1 v2 [H1|[]] [H2|[]]; inversion H1; inversion H2; subst; reflexivity.
  - intros f [<-|[]]; constructor.
Qed.

Lemma intersect_partial_pattern_nonvacuous :
  cfg_any_callable current_cfg = true /\ cfg_partial_any current_cfg = true /\
  fo_domain reg_pp 4 = true /\ fo_domain reg_pp 0 = true /\
  match intersect_types current_cfg 1000 1000 reg_pp 4 5 with
  | Some (P', r) => memb reg_pp v_A0 4 && memb reg_pp v_A0 5 && memb P' v_A0 r
                    && memb reg_pp v_Bb 4 && negb (memb P' v_Bb r)
  | None => false
  end = true /\ wfv v_A0.
Proof. repeat (split; [vm_compute; reflexivity|]). exact v_A0_wfv. Qed.

(* (A[x: int] | B[x: bin]) \ (x: int, ..) = B[x: bin]: B[x: ''] is kept, A[x: 0] is removed *)
Lemma complement_partial_pattern_nonvacuous :
  cfg_retract current_cfg = true /\ cfg_partial_name current_cfg = true /\ wfregb reg_pp = true /\
  fo_domain reg_pp 4 = true /\ fo_domain reg_pp 0 = true /\
  match compute_complement current_cfg 1000 1000 reg_pp 4 5 with
  | Some (P', r) => memb reg_pp v_Bb 4 && negb (memb reg_pp v_Bb 5) && memb P' v_Bb r && negb (memb P' v_A0 r)
  | None => false
  end = true.
Proof. vm_compute. repeat split; reflexivity. Qed.
