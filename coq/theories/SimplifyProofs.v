(* SimplifyProofs.v — theorems about the model of simplify.rs (Simplify.v).
   Route to idempotence: a normal-form predicate `nf` such that
     (B) every output of strip_* is in normal form, and (A) strip_* is the identity on normal forms. *)
From Quiver Require Import Base Ast Simplify.

(* ------------------------------------------------------------------ decisions of the two loops *)
(* "no term of l would be spliced": the flag of the last term is `negb more` (more = terms follow l) *)
Fixpoint dn (o : options) (more : bool) (l : list term) : Prop :=
  match l with
  | [] => True
  | t :: r => should_strip o t (null r && negb more) = None /\ dn o more r
  end.

Lemma redundant_body_inv t body :
  redundant_body t = Some body ->
  t = Block (Expression [Branch (Sequence [body]) None]) /\ is_inlinable_chain body = true.
Proof.
  unfold redundant_body. intros Hr.
  repeat (match type of Hr with context [match ?x with _ => _ end] => destruct x eqn:?; try discriminate end).
  injection Hr as <-. split; [reflexivity|assumption].
Qed.

Lemma should_strip_inv o t b bt :
  should_strip o t b = Some bt ->
  exists c, t = Block (Expression [Branch (Sequence [c]) None]) /\ bt = chain_terms c /\
            is_inlinable_chain c = true.
Proof.
  unfold should_strip. intros Hs. destruct (redundant_body t) as [body|] eqn:Hrb; [|discriminate].
  apply redundant_body_inv in Hrb as [-> Hin].
  destruct (negb (keep o body) && (negb (ends_in_tail_call body) || b)); [|discriminate].
  injection Hs as <-. exists body. repeat split; assumption.
Qed.

Lemma should_strip_mono o t bt : should_strip o t false = Some bt -> should_strip o t true = Some bt.
Proof.
  unfold should_strip. destruct (redundant_body t) as [body|]; [|discriminate].
  destruct (keep o body); cbn; [discriminate|].
  destruct (ends_in_tail_call body); cbn; [discriminate|]. auto.
Qed.

Lemma should_strip_none_weaken o t : should_strip o t true = None -> should_strip o t false = None.
Proof.
  intros Hn. destruct (should_strip o t false) as [bt|] eqn:Hs; [|reflexivity].
  apply should_strip_mono in Hs. congruence.
Qed.

Lemma inlinable_nonempty c : is_inlinable_chain c = true -> chain_terms c <> [].
Proof.
  unfold is_inlinable_chain. intros Hi Hn. rewrite Hn in Hi. cbn in Hi. discriminate.
Qed.

Lemma splice_null o l : null (splice o l) = null l.
Proof.
  destruct l as [|t r]; [reflexivity|]. cbn [splice].
  destruct (should_strip o t (null r)) as [bt|] eqn:Hs; [|reflexivity].
  apply should_strip_inv in Hs as (c & _ & -> & Hin). apply inlinable_nonempty in Hin.
  destruct (chain_terms c); [congruence|reflexivity].
Qed.

Lemma dn_weaken o l : dn o false l -> dn o true l.
Proof.
  induction l as [|t r IH]; cbn [dn]; [auto|]. intros [Hs Hr]. split; [|auto].
  rewrite andb_false_r. rewrite andb_true_r in Hs.
  destruct (null r); [apply should_strip_none_weaken; exact Hs | exact Hs].
Qed.

Lemma dn_app_ne o more l1 l2 : dn o true l1 -> dn o more l2 -> l2 <> [] -> dn o more (l1 ++ l2).
Proof.
  intros H1 H2 Hne. induction l1 as [|t r IH]; cbn [app dn]; [exact H2|].
  cbn [dn] in H1. destruct H1 as [Hs Hr]. split; [|auto].
  rewrite andb_false_r in Hs.
  assert (Hnull : null (r ++ l2) = false).
  { destruct r; cbn; [destruct l2; [congruence|reflexivity]|reflexivity]. }
  rewrite Hnull. cbn. exact Hs.
Qed.

Lemma splice_id o l : dn o false l -> splice o l = l.
Proof.
  induction l as [|t r IH]; [reflexivity|]. cbn [dn splice]. intros [Hs Hr].
  rewrite andb_true_r in Hs. rewrite Hs. f_equal. auto.
Qed.

Lemma lift_chains_id o cs : Forall (fun c => should_lift o c = None) cs -> lift_chains o cs = cs.
Proof.
  induction 1 as [|c r Hc Hr IH]; [reflexivity|]. cbn [lift_chains]. rewrite Hc. f_equal. exact IH.
Qed.

(* ------------------------------------------------------------------ normal forms *)
Inductive nf_term (o : options) : term -> Prop :=
| nf_Literal l : nf_term o (Literal l)
| nf_Tuple n fs : Forall (nf_field o) fs -> nf_term o (Tuple n fs)
| nf_String st segs : Forall (nf_segment o) segs -> nf_term o (String st segs)
| nf_Match m : nf_term o (Match m)
| nf_Block e : nf_expr o e -> nf_term o (Block e)
| nf_FunctionNone sg : nf_term o (Function sg None)
| nf_FunctionSome sg e : nf_expr o e -> nf_term o (Function sg (Some e))
| nf_Access a : nf_term o (Access a)
| nf_Spawn t : nf_term o t -> nf_term o (Spawn t)
| nf_Self : nf_term o Self_
| nf_SelectNone : nf_term o (Select None)
| nf_SelectSome cs : Forall (nf_chain o) cs -> nf_term o (Select (Some cs))
| nf_Process n : nf_term o (Process n)
| nf_Reference a : nf_term o (Reference a)
with nf_field (o : options) : tuple_field -> Prop :=
| nf_FieldChain n c : nf_chain o c -> nf_field o (TupleField n (FChain c))
| nf_FieldSpread n m : nf_field o (TupleField n (FSpread m))
with nf_segment (o : options) : str_segment -> Prop :=
| nf_Text b : nf_segment o (Text b)
| nf_Hole e : nf_expr o e -> nf_segment o (Hole e)
with nf_chain (o : options) : chain -> Prop :=
| nf_Chain mp sp ts : Forall (nf_term o) ts -> dn o false ts -> nf_chain o (Chain mp sp ts)
with nf_seq (o : options) : sequence -> Prop :=
| nf_Sequence cs : Forall (nf_chain o) cs -> Forall (fun c => should_lift o c = None) cs ->
                   nf_seq o (Sequence cs)
with nf_branch (o : options) : branch -> Prop :=
| nf_BranchNone c : nf_seq o c -> nf_branch o (Branch c None)
| nf_BranchSome c k : nf_seq o c -> nf_seq o k ->
                      (group_consequences o = true -> group_consequence k = k) ->
                      nf_branch o (Branch c (Some k))
with nf_expr (o : options) : expression -> Prop :=
| nf_Expression bs : Forall (nf_branch o) bs -> nf_expr o (Expression bs).

Definition nf_stmt (o : options) (s : statement) : Prop :=
  match s with StmtExpression sq => nf_seq o sq | TypeAlias _ _ _ => True end.
Definition nf_program (o : options) (p : program) : Prop :=
  match p with Program stmts => Forall (nf_stmt o) stmts end.

Lemma map_id_Forall {A} (f : A -> A) (l : list A) : Forall (fun x => f x = x) l -> map f l = l.
Proof. induction 1 as [|x r Hx Hr IH]; cbn; [reflexivity|]. rewrite Hx, IH. reflexivity. Qed.

Lemma Forall_impl2 {A} (P Q R : A -> Prop) (l : list A) :
  (forall x, P x -> Q x -> R x) -> Forall P l -> Forall Q l -> Forall R l.
Proof.
  intros Himp HP. induction HP as [|x r Hx Hr IH]; intros HQ; [constructor|].
  inversion HQ as [|? ? Hqx Hqr]; subst. constructor; auto.
Qed.

(* (A) strip_* is the identity on normal forms *)
Lemma nf_fixed o :
  (forall t, nf_term o t -> strip_term o t = t) /\
  (forall f, nf_field o f -> strip_field o f = f) /\
  (forall v, match v with FChain c => nf_chain o c -> strip_chain o c = c | FSpread _ => True end) /\
  (forall g, nf_segment o g -> strip_segment o g = g) /\
  (forall c, nf_chain o c -> strip_chain o c = c) /\
  (forall s, nf_seq o s -> strip_sequence o s = s) /\
  (forall b, nf_branch o b -> strip_branch o b = b) /\
  (forall e, nf_expr o e -> strip_expression o e = e).
Proof.
  apply ast_mutind.
  - reflexivity.
  - intros n fs IH Hnf. inversion Hnf as [|? ? Hfs| | | | | | | | | | | |]; subst. cbn [strip_term].
    f_equal. apply map_id_Forall. eapply Forall_impl2; [|exact IH|exact Hfs]. auto.
  - intros st segs IH Hnf. inversion Hnf as [| |? ? Hs| | | | | | | | | | |]; subst. cbn [strip_term].
    f_equal. apply map_id_Forall. eapply Forall_impl2; [|exact IH|exact Hs]. auto.
  - reflexivity.
  - intros e IH Hnf. inversion Hnf as [| | | |? He| | | | | | | | |]; subst. cbn [strip_term].
    f_equal. auto.
  - intros sg body IH Hnf. destruct body as [e|]; cbn [strip_term]; [|reflexivity].
    inversion Hnf as [| | | | | |? ? He| | | | | | |]; subst. cbn [Popt] in IH. rewrite IH by assumption. reflexivity.
  - reflexivity.
  - intros t IH Hnf. inversion Hnf as [| | | | | | | |? Ht| | | | |]; subst. cbn [strip_term]. f_equal. auto.
  - reflexivity.
  - reflexivity.
  - intros cs IH Hnf. inversion Hnf as [| | | | | | | | | | |? Hcs| |]; subst. cbn [strip_term].
    do 2 f_equal. apply map_id_Forall. eapply Forall_impl2; [|exact IH|exact Hcs]. auto.
  - reflexivity.
  - reflexivity.
  - (* TupleField *)
    intros n v IH Hnf. destruct v as [c|m]; cbn [strip_field]; [|reflexivity].
    inversion Hnf as [? ? Hc|]; subst. rewrite IH by assumption. reflexivity.
  - intros c IH Hc. auto.
  - intros n. exact I.
  - reflexivity.
  - intros e IH Hnf. inversion Hnf as [|? He]; subst. cbn [strip_segment]. f_equal. auto.
  - (* Chain *)
    intros mp sp ts IH Hnf. inversion Hnf as [? ? ? Hts Hdn]; subst. cbn [strip_chain].
    f_equal. rewrite (map_id_Forall (strip_term o) ts).
    + apply splice_id. exact Hdn.
    + eapply Forall_impl2; [|exact IH|exact Hts]. auto.
  - (* Sequence *)
    intros cs IH Hnf. inversion Hnf as [? Hcs Hl]; subst. cbn [strip_sequence].
    f_equal. rewrite (map_id_Forall (strip_chain o) cs).
    + apply lift_chains_id. exact Hl.
    + eapply Forall_impl2; [|exact IH|exact Hcs]. auto.
  - (* Branch *)
    intros c k IHc IHk Hnf. destruct k as [k|]; cbn [strip_branch].
    + inversion Hnf as [|? ? Hc Hk Hg]; subst. cbn [Popt] in IHk.
      rewrite IHc, IHk by assumption.
      destruct (group_consequences o) eqn:Hgc; [rewrite Hg by reflexivity|]; reflexivity.
    + inversion Hnf as [? Hc|]; subst. rewrite IHc by assumption. reflexivity.
  - intros bs IH Hnf. inversion Hnf as [? Hbs]; subst. cbn [strip_expression].
    f_equal. apply map_id_Forall. eapply Forall_impl2; [|exact IH|exact Hbs]. auto.
Qed.

(* ------------------------------------------------------------------ (B) outputs are normal forms *)
Lemma nf_body o t b bt :
  nf_term o t -> should_strip o t b = Some bt -> Forall (nf_term o) bt /\ dn o false bt /\ bt <> [].
Proof.
  intros Hnf Hs. apply should_strip_inv in Hs as (c & -> & -> & Hin).
  inversion Hnf as [| | | |? He| | | | | | | | |]; subst.
  inversion He as [? Hbs]; subst. inversion Hbs as [|? ? Hb _]; subst.
  inversion Hb as [? Hsq|]; subst. inversion Hsq as [? Hcs _]; subst.
  inversion Hcs as [|? ? Hc _]; subst. inversion Hc as [? ? ? Hts Hdn]; subst.
  cbn [chain_terms] in *. repeat split; try assumption. apply inlinable_nonempty in Hin. exact Hin.
Qed.

Lemma splice_nf o l : Forall (nf_term o) l -> Forall (nf_term o) (splice o l) /\ dn o false (splice o l).
Proof.
  induction 1 as [|t r Ht Hr [IH1 IH2]]; [split; [constructor|exact I]|].
  cbn [splice]. destruct (should_strip o t (null r)) as [bt|] eqn:Hs.
  - destruct (nf_body o t _ bt Ht Hs) as (Hb1 & Hb2 & Hb3). split.
    + apply Forall_app. split; assumption.
    + destruct r as [|t2 r2].
      * cbn [splice]. rewrite app_nil_r. exact Hb2.
      * apply dn_app_ne; [apply dn_weaken; exact Hb2 | exact IH2 |].
        intros Hnil. assert (Hn : null (splice o (t2 :: r2)) = true) by (rewrite Hnil; reflexivity).
        rewrite splice_null in Hn. discriminate.
  - split; [constructor; assumption|]. cbn [dn]. split; [|exact IH2].
    rewrite splice_null, andb_true_r. exact Hs.
Qed.

Lemma liftable_chains_inv t inner :
  liftable_chains t = Some inner -> t = Block (Expression [Branch (Sequence inner) None]).
Proof.
  unfold liftable_chains. intros Hr.
  repeat (match type of Hr with context [match ?x with _ => _ end] => destruct x eqn:?; try discriminate end).
  injection Hr as <-. reflexivity.
Qed.

Lemma should_lift_inv o c inner :
  should_lift o c = Some inner ->
  exists sp, c = Chain None sp [Block (Expression [Branch (Sequence inner) None])].
Proof.
  unfold should_lift. intros Hs. destruct (lift o); [|discriminate].
  destruct c as [mp sp ts]. destruct mp; [discriminate|].
  destruct ts as [|t [|t2 ts]]; try discriminate.
  apply liftable_chains_inv in Hs as ->. exists sp. reflexivity.
Qed.

Lemma lift_nf o l :
  Forall (nf_chain o) l ->
  Forall (nf_chain o) (lift_chains o l) /\ Forall (fun c => should_lift o c = None) (lift_chains o l).
Proof.
  induction 1 as [|c r Hc Hr [IH1 IH2]]; [split; constructor|].
  cbn [lift_chains]. destruct (should_lift o c) as [inner|] eqn:Hs.
  - apply should_lift_inv in Hs as (sp & ->).
    inversion Hc as [? ? ? Hts _]; subst. inversion Hts as [|? ? Hb _]; subst.
    inversion Hb as [| | | |? He| | | | | | | | |]; subst. inversion He as [? Hbs]; subst.
    inversion Hbs as [|? ? Hbr _]; subst. inversion Hbr as [? Hsq|]; subst.
    inversion Hsq as [? Hcs Hl]; subst.
    split; apply Forall_app; split; assumption.
  - split; constructor; assumption.
Qed.

Lemma group_consequence_nf o s :
  (group_consequences o = true -> lift o = false) ->
  nf_seq o s ->
  let k := if group_consequences o then group_consequence s else s in
  nf_seq o k /\ (group_consequences o = true -> group_consequence k = k).
Proof.
  intros Hcompat Hnf. destruct (group_consequences o) eqn:Hg; cbn zeta.
  - destruct s as [cs]. cbn [group_consequence].
    destruct ((1 <? Z.of_nat (length cs)) && forallb is_frame_free_chain cs) eqn:Hcond.
    + split; [|intros _; reflexivity].
      apply andb_true_iff in Hcond as [Hlen _]. apply Z.ltb_lt in Hlen.
      constructor.
      * constructor; [|constructor]. constructor.
        -- constructor; [|constructor]. constructor. constructor. constructor; [|constructor].
           constructor. exact Hnf.
        -- cbn [dn]. split; [|exact I]. unfold should_strip, redundant_body.
           destruct cs as [|c1 [|c2 cs]]; cbn [length] in Hlen; try lia; reflexivity.
      * constructor; [|constructor]. unfold should_lift. rewrite (Hcompat eq_refl). reflexivity.
    + split; [exact Hnf|]. intros _. cbn [group_consequence]. rewrite Hcond. reflexivity.
  - split; [exact Hnf|]. intros Hd. discriminate.
Qed.

Lemma strip_nf o :
  (group_consequences o = true -> lift o = false) ->
  (forall t, nf_term o (strip_term o t)) /\
  (forall f, nf_field o (strip_field o f)) /\
  (forall v, match v with FChain c => nf_chain o (strip_chain o c) | FSpread _ => True end) /\
  (forall g, nf_segment o (strip_segment o g)) /\
  (forall c, nf_chain o (strip_chain o c)) /\
  (forall s, nf_seq o (strip_sequence o s)) /\
  (forall b, nf_branch o (strip_branch o b)) /\
  (forall e, nf_expr o (strip_expression o e)).
Proof.
  intros Hcompat. apply ast_mutind.
  - intros l. constructor.
  - intros n fs IH. cbn [strip_term]. constructor. apply Forall_map. exact IH.
  - intros st segs IH. cbn [strip_term]. constructor. apply Forall_map. exact IH.
  - intros m. constructor.
  - intros e IH. cbn [strip_term]. constructor. exact IH.
  - intros sg body IH. destruct body as [e|]; cbn [strip_term]; constructor. exact IH.
  - intros a. constructor.
  - intros t IH. cbn [strip_term]. constructor. exact IH.
  - constructor.
  - constructor.
  - intros cs IH. cbn [strip_term]. constructor. apply Forall_map. exact IH.
  - intros n. constructor.
  - intros a. constructor.
  - intros n v IH. destruct v as [c|m]; cbn [strip_field]; constructor. exact IH.
  - intros c IH. exact IH.
  - intros n. exact I.
  - intros b. constructor.
  - intros e IH. cbn [strip_segment]. constructor. exact IH.
  - intros mp sp ts IH. cbn [strip_chain].
    destruct (splice_nf o (map (strip_term o) ts)) as [H1 H2]; [apply Forall_map; exact IH|].
    constructor; assumption.
  - intros cs IH. cbn [strip_sequence].
    destruct (lift_nf o (map (strip_chain o) cs)) as [H1 H2]; [apply Forall_map; exact IH|].
    constructor; assumption.
  - intros c k IHc IHk. destruct k as [k|]; cbn [strip_branch]; [|constructor; exact IHc].
    cbn [Popt] in IHk. destruct (group_consequence_nf o (strip_sequence o k) Hcompat IHk) as [Hk1 Hk2].
    constructor; assumption.
  - intros bs IH. cbn [strip_expression]. constructor. apply Forall_map. exact IH.
Qed.

(* ------------------------------------------------------------------ idempotence *)
Lemma normalize_idempotent_gen o p :
  (group_consequences o = true -> lift o = false) ->
  normalize_blocks (normalize_blocks p o) o = normalize_blocks p o.
Proof.
  intros Hcompat. destruct p as [stmts]. cbn [normalize_blocks]. f_equal.
  rewrite map_map. apply map_ext. intros s. destruct s as [n ps ty|sq]; [reflexivity|].
  f_equal. destruct (nf_fixed o) as (_ & _ & _ & _ & _ & Hs & _).
  destruct (strip_nf o Hcompat) as (_ & _ & _ & _ & _ & Hn & _). apply Hs. apply Hn.
Qed.

Lemma normalize_idempotent_compiler p :
  normalize_blocks (normalize_blocks p compiler_options) compiler_options = normalize_blocks p compiler_options.
Proof. apply normalize_idempotent_gen. cbn. discriminate. Qed.

Lemma normalize_idempotent_formatter (k : chain -> bool) p :
  normalize_blocks (normalize_blocks p (formatter_options k)) (formatter_options k)
  = normalize_blocks p (formatter_options k).
Proof. apply normalize_idempotent_gen. cbn. reflexivity. Qed.

(* ------------------------------------------------------------------ witnesses *)
(* `f = #'int { $ { 1 { /*kept: span 27*/ 2 ^ } } 3 }` (finding F19): the body of the function *)
Definition tail := Access (mkAccess (Some (TailCall None)) []).
Definition lit (n : Z) := Literal (Integer n).
Definition f19_program : program :=
  Program [StmtExpression (Sequence [Chain None (Some 12)
    [Access (mkAccess (Some ParameterSrc) []);
     Block (Expression [Branch (Sequence [Chain None (Some 16)
       [lit 1; Block (Expression [Branch (Sequence [Chain None (Some 27) [lit 2; tail]]) None])]]) None]);
     lit 3]])].
Definition keep27 : chain -> bool := keep_by_span (fun off => off =? 27).

(* Historical (pre-repair model, finding F19, fixed by /repo commit e176e48): with the old test
   `is_tail_call (last body)` the body `1 { 2 ^ }` of the outer block was NOT seen as ending in a tail call, so the
   formatter spliced the outer block in a non-final position although the compiler keeps it. The repaired test
   looks through the kept block. *)
Definition f19_outer_body : chain :=
  Chain None (Some 16) [lit 1; Block (Expression [Branch (Sequence [Chain None (Some 27) [lit 2; tail]]) None])].
Example f19_pre_repair_test_missed_it :
  ends_in_tail_call_pre_repair f19_outer_body = false /\ ends_in_tail_call f19_outer_body = true.
Proof. split; vm_compute; reflexivity. Qed.

(* on the repaired model the F19 witness satisfies the law *)
Example f19_repaired :
  normalize_blocks (normalize_blocks f19_program (formatter_options keep27)) compiler_options
  = normalize_blocks f19_program compiler_options.
Proof. vm_compute. reflexivity. Qed.

(* non-vacuity: a program on which both option sets do change something (redundant block stripped, multi-step
   block lifted by the compiler / kept by the formatter, compound consequence grouped by the formatter) *)
Definition ex_program : program :=
  Program [StmtExpression (Sequence
    [Chain None (Some 0) [lit 5; Block (Expression [Branch (Sequence [Chain None (Some 4) [lit 6; lit 7]]) None])];
     Chain None (Some 20) [Block (Expression [Branch (Sequence [Chain None (Some 22) [lit 1]; Chain None (Some 25) [lit 2]]) None])];
     Chain None (Some 40) [lit 0; Block (Expression
        [Branch (Sequence [Chain None (Some 44) [Match (SxAtom 0)]])
                (Some (Sequence [Chain None (Some 50) [lit 8]; Chain None (Some 53) [lit 9]]));
         Branch (Sequence [Chain None (Some 60) [lit 3]]) None])]])].

Example normalize_idempotent_nonvacuous :
  normalize_blocks ex_program compiler_options <> ex_program /\
  normalize_blocks ex_program (formatter_options (fun _ => false)) <> ex_program /\
  normalize_blocks ex_program compiler_options <> normalize_blocks ex_program (formatter_options (fun _ => false)) /\
  normalize_blocks (normalize_blocks ex_program (formatter_options (fun _ => false))) compiler_options
    = normalize_blocks ex_program compiler_options.
Proof.
  split; [intros Heq; vm_compute in Heq; discriminate Heq|].
  split; [intros Heq; vm_compute in Heq; discriminate Heq|].
  split; [intros Heq; vm_compute in Heq; discriminate Heq|].
  vm_compute. reflexivity.
Qed.
