(* Hamt.v — executable model of /repo/std/dict.qv (persistent 32-way HAMT), function by function,
   clause order preserved. Definitions only; the proofs are in HamtProofs*.v, the property theorems
   in props/C19.v.

   The model is parameterised (Section variables) by
     key      : the key type          (in Quiver: 'key = Str['bin] | 'bin)
     val      : the value type        (any Quiver value)
     key_eqb  : structural equality   (Quiver `=&` on two keys)
     hash     : key -> Z              (Quiver: key_bytes then __binary_hash32__)
   so that the theorems hold for EVERY hash function with range [0, 2^32), in particular for
   key sets whose hashes collide in any number of 5-bit fragments or in all 32 bits.
   The concrete instance used by the correspondence check (qkey, FNV-1a 32) is at the end.

   Integers: Quiver integers are unbounded; the bit builtins (__integer_and/or/not/shift/popcount__)
   work on the i64 image and answer InvalidArgument outside it (quiver-core/src/builtins/integer.rs).
   Every operand that dict.qv passes to them lies in [-2^32, 2^32] when 0 <= hash < 2^32
   (fragments are < 32, bits are 2^f < 2^32, bitmaps stay in [0, 2^32): HamtBits.v
   `fragment_range`, `int_shift_1`, `set_range`, `clear_range`), so the error arm is not modelled;
   the left-shift wrap of i64 is (`wrap_i64`).

   Recursion: dict.qv recurses on the tree / on hash bits without a bound. The model uses fuel;
   `None` means "out of fuel". C19_put/C19_remove/C19_get prove that the constant `FUEL` is always
   enough on dicts satisfying the invariant (the depth is bounded because two distinct hashes
   below 2^32 differ in one of the 7 fragments), and C19_entries that `S (dsize d)` is enough for
   the worklist walk. *)
From Coq Require Import List ZArith Bool.
Import ListNotations.
Open Scope Z_scope.

(* ---------------------------------------------------------------- integer builtins used by dict.qv *)

(* i64 two's-complement image (Rust `value << n` on i64 drops the high bits) *)
Definition wrap_i64 (z : Z) : Z := (z + 2 ^ 63) mod 2 ^ 64 - 2 ^ 63.

(* integer.rs:335 builtin_integer_shift: n > 0 left shift (wrapping in i64), n < 0 arithmetic right
   shift; |n| >= 64 gives 0 / -1, which is what the two formulas below give on i64 operands. *)
Definition int_shift (x n : Z) : Z :=
  if n =? 0 then x else if 0 <? n then wrap_i64 (Z.shiftl x n) else Z.shiftr x (- n).

(* integer.rs integer_and / integer_or / integer_not on the i64 image = the same on Z *)
Definition int_and (a b : Z) : Z := Z.land a b.
Definition int_or (a b : Z) : Z := Z.lor a b.
Definition int_not (a : Z) : Z := Z.lnot a.

Fixpoint pop_pos (p : positive) : Z :=
  match p with xH => 1 | xO q => pop_pos q | xI q => 1 + pop_pos q end.

(* integer.rs:376 builtin_integer_popcount: (n as u64).count_ones() *)
Definition popcount (z : Z) : Z :=
  match z with
  | Z0 => 0
  | Zpos p => pop_pos p
  | Zneg p => 64 - match Z.pred (Zpos p) with Zpos q => pop_pos q | _ => 0 end
  end.

Section Hamt.
Variable key : Type.
Variable val : Type.
Variable key_eqb : key -> key -> bool.
Variable hash : key -> Z.

(* dict.qv:20  '<'v> = Empty | Leaf['int,'key,'v] | Collision['int,'list<['key,'v]>]
                      | Node['int, (Nil | Cons[^, ^1])] *)
Inductive dict :=
| Empty
| Leaf (h : Z) (k : key) (v : val)
| Collision (h : Z) (es : list (key * val))
| Node (bitmap : Z) (children : list dict).

(* dict.qv:32 fragment = #[hash, shift] { [0, shift] %num.sub ~> [hash, ~] %int.shift ~> [~, 31] %int.and } *)
Definition fragment (h shift : Z) : Z := int_and (int_shift h (0 - shift)) 31.

(* dict.qv:40 slot_index = #[bitmap, bit] { [bit,1] %num.sub ~> [bitmap, ~] %int.and ~> %int.popcount } *)
Definition slot_index (bitmap bit : Z) : Z := popcount (int_and bitmap (bit - 1)).

(* dict.qv:49 revcat [acc, rest]: acc { Nil => rest | Cons[h,t] => Cons[h, rest] [t, ~] ^ } *)
Fixpoint revcat {A} (acc rest : list A) : list A :=
  match acc with
  | [] => rest
  | h :: t => revcat t (h :: rest)
  end.

(* dict.qv:58 length [lst, n] *)
Fixpoint length_acc {A} (lst : list A) (n : Z) : Z :=
  match lst with
  | [] => n
  | _ :: t => length_acc t (n + 1)
  end.

(* dict.qv:67 map [lst, f, acc] *)
Fixpoint map_acc {A B} (lst : list A) (f : A -> B) (acc : list B) : list B :=
  match lst with
  | [] => revcat acc []
  | h :: t => map_acc t f (f h :: acc)
  end.

(* dict.qv:78 child_at [children, idx]: Nil => Empty | Cons[h,t] => { idx =0 => h | [t, idx-1] ^ } *)
Fixpoint child_at (children : list dict) (idx : Z) : dict :=
  match children with
  | [] => Empty
  | h :: t => if idx =? 0 then h else child_at t (idx - 1)
  end.

(* dict.qv:90 insert_at [lst, idx, val, acc]: the idx =0 test comes BEFORE the match on lst *)
Fixpoint insert_at {A} (lst : list A) (idx : Z) (x : A) (acc : list A) : list A :=
  if idx =? 0 then revcat acc (x :: lst)
  else match lst with
       | [] => revcat acc [x]
       | h :: t => insert_at t (idx - 1) x (h :: acc)
       end.

(* dict.qv:102 update_at [lst, idx, val, acc] *)
Fixpoint update_at {A} (lst : list A) (idx : Z) (x : A) (acc : list A) : list A :=
  match lst with
  | [] => revcat acc []
  | h :: t => if idx =? 0 then revcat acc (x :: t) else update_at t (idx - 1) x (h :: acc)
  end.

(* dict.qv:114 remove_at [lst, idx, acc] *)
Fixpoint remove_at {A} (lst : list A) (idx : Z) (acc : list A) : list A :=
  match lst with
  | [] => revcat acc []
  | h :: t => if idx =? 0 then revcat acc t else remove_at t (idx - 1) (h :: acc)
  end.

(* dict.qv:127 bucket_get [entries, key]; nil ([]) is None *)
Fixpoint bucket_get (entries : list (key * val)) (k : key) : option val :=
  match entries with
  | [] => None
  | (k', v) :: t => if key_eqb k' k then Some v else bucket_get t k
  end.

(* dict.qv:136 bucket_put [entries, key, value, acc] *)
Fixpoint bucket_put (entries : list (key * val)) (k : key) (v : val) (acc : list (key * val))
  : list (key * val) :=
  match entries with
  | [] => revcat acc [(k, v)]
  | (k', v') :: t =>
    if key_eqb k' k then revcat acc ((k, v) :: t) else bucket_put t k v ((k', v') :: acc)
  end.

(* dict.qv:148 bucket_remove [entries, key, acc] *)
Fixpoint bucket_remove (entries : list (key * val)) (k : key) (acc : list (key * val))
  : list (key * val) :=
  match entries with
  | [] => revcat acc []
  | (k', v') :: t => if key_eqb k' k then revcat acc t else bucket_remove t k ((k', v') :: acc)
  end.

(* dict.qv:161 get [node, key, hash, shift]. Outer option: fuel; inner option: the value or nil. *)
Fixpoint get_aux (fuel : nat) (node : dict) (k : key) (h shift : Z) : option (option val) :=
  match fuel with
  | O => None
  | S fuel' =>
    match node with
    | Empty => Some None
    | Leaf _ k' v => Some (if key_eqb k' k then Some v else None)
    | Collision _ entries => Some (bucket_get entries k)
    | Node bitmap children =>
      let bit := int_shift 1 (fragment h shift) in
      if int_and bitmap bit =? 0 then Some None
      else
        let child := child_at children (slot_index bitmap bit) in
        get_aux fuel' child k h (shift + 5)
    end
  end.

(* dict.qv:183 split_pair [self, h1, k1, v1, h2, k2, v2, shift] *)
Fixpoint split_pair (fuel : nat) (h1 : Z) (k1 : key) (v1 : val) (h2 : Z) (k2 : key) (v2 : val)
         (shift : Z) : option dict :=
  match fuel with
  | O => None
  | S fuel' =>
    if h1 =? h2 then
      Some (Collision h1 (bucket_put (bucket_put [] k1 v1 []) k2 v2 []))
    else
      let f1 := fragment h1 shift in
      let f2 := fragment h2 shift in
      if f1 =? f2 then
        match split_pair fuel' h1 k1 v1 h2 k2 v2 (shift + 5) with
        | None => None
        | Some c => Some (Node (int_shift 1 f1) [c])
        end
      else
        let bitmap := int_or (int_shift 1 f1) (int_shift 1 f2) in
        if f1 <? f2 then Some (Node bitmap [Leaf h1 k1 v1; Leaf h2 k2 v2])
        else Some (Node bitmap [Leaf h2 k2 v2; Leaf h1 k1 v1])
  end.

(* dict.qv:215 split_node [self, cnode, chash, hash, key, value, shift] *)
Fixpoint split_node (fuel : nat) (cnode : dict) (chash h : Z) (k : key) (v : val) (shift : Z)
  : option dict :=
  match fuel with
  | O => None
  | S fuel' =>
    let fc := fragment chash shift in
    let fh := fragment h shift in
    if fc =? fh then
      match split_node fuel' cnode chash h k v (shift + 5) with
      | None => None
      | Some c => Some (Node (int_shift 1 fc) [c])
      end
    else
      let bitmap := int_or (int_shift 1 fc) (int_shift 1 fh) in
      if fc <? fh then Some (Node bitmap [cnode; Leaf h k v])
      else Some (Node bitmap [Leaf h k v; cnode])
  end.

(* dict.qv:235 put [self, node, key, value, hash, shift] *)
Fixpoint put_aux (fuel : nat) (node : dict) (k : key) (v : val) (h shift : Z) : option dict :=
  match fuel with
  | O => None
  | S fuel' =>
    match node with
    | Empty => Some (Leaf h k v)
    | Leaf lhash lkey lvalue =>
      if key_eqb lkey k then Some (Leaf h k v)
      else split_pair fuel' lhash lkey lvalue h k v shift
    | Collision chash entries =>
      if chash =? h then Some (Collision chash (bucket_put entries k v []))
      else split_node fuel' node chash h k v shift
    | Node bitmap children =>
      let bit := int_shift 1 (fragment h shift) in
      let idx := slot_index bitmap bit in
      if int_and bitmap bit =? 0 then
        Some (Node (int_or bitmap bit) (insert_at children idx (Leaf h k v) []))
      else
        let child := child_at children idx in
        match put_aux fuel' child k v h (shift + 5) with
        | None => None
        | Some new_child => Some (Node bitmap (update_at children idx new_child []))
        end
    end
  end.

(* dict.qv:275 collapse_node [bitmap, children] *)
Definition collapse_node (bitmap : Z) (children : list dict) : dict :=
  match children with
  | [] => Empty
  | [only] =>
    match only with
    | Node _ _ => Node bitmap children
    | leaf => leaf
    end
  | _ => Node bitmap children
  end.

(* dict.qv:290 remove_slot [bitmap, bit, children, idx] *)
Definition remove_slot (bitmap bit : Z) (children : list dict) (idx : Z) : dict :=
  collapse_node (int_and bitmap (int_not bit)) (remove_at children idx []).

(* dict.qv:295 remove [self, node, key, hash, shift] *)
Fixpoint remove_aux (fuel : nat) (node : dict) (k : key) (h shift : Z) : option dict :=
  match fuel with
  | O => None
  | S fuel' =>
    match node with
    | Empty => Some Empty
    | Leaf lhash k' v => Some (if key_eqb k' k then Empty else Leaf lhash k' v)
    | Collision chash entries =>
      let kept := bucket_remove entries k [] in
      Some (match kept with
            | [] => Empty
            | [(k', v')] => Leaf chash k' v'
            | _ => Collision chash kept
            end)
    | Node bitmap children =>
      let bit := int_shift 1 (fragment h shift) in
      if int_and bitmap bit =? 0 then Some (Node bitmap children)
      else
        let idx := slot_index bitmap bit in
        let child := child_at children idx in
        match remove_aux fuel' child k h (shift + 5) with
        | None => None
        | Some Empty => Some (remove_slot bitmap bit children idx)
        | Some new => Some (collapse_node bitmap (update_at children idx new []))
        end
    end
  end.

(* dict.qv:326 entries [worklist, acc] *)
Fixpoint entries_aux (fuel : nat) (worklist : list dict) (acc : list (key * val))
  : option (list (key * val)) :=
  match fuel with
  | O => None
  | S fuel' =>
    match worklist with
    | [] => Some acc
    | node :: rest =>
      match node with
      | Empty => entries_aux fuel' rest acc
      | Leaf _ k v => entries_aux fuel' rest ((k, v) :: acc)
      | Collision _ ents => entries_aux fuel' rest (revcat ents acc)
      | Node _ children => entries_aux fuel' (revcat children rest) acc
      end
    end
  end.

(* ---------------------------------------------------------------- exported functions (dict.qv:350-396) *)

(* depth bound of a well-formed dict is 8 nodes (7 fragments + leaf); see HamtProofs.v *)
Definition FUEL : nat := 16%nat.

(* number of tree nodes: the worklist walk of `entries` pops each exactly once *)
Fixpoint dsize (d : dict) : nat :=
  match d with
  | Node _ cs => S ((fix go (l : list dict) : nat := match l with [] => O | c :: t => (dsize c + go t)%nat end) cs)
  | _ => 1%nat
  end.

Definition d_new : dict := Empty.
(* get: #['<'v>, 'key] { [$0, $1, $1 hash, 0] get } *)
Definition d_get (d : dict) (k : key) : option (option val) := get_aux FUEL d k (hash k) 0.
(* put: { [&put, $0, $1, $2, $1 hash, 0] put } *)
Definition d_put (d : dict) (k : key) (v : val) : option dict := put_aux FUEL d k v (hash k) 0.
(* remove: { [&remove, $0, $1, $1 hash, 0] remove } *)
Definition d_remove (d : dict) (k : key) : option dict := remove_aux FUEL d k (hash k) 0.
(* has?: { [$0, $1, $1 hash, 0] get, Ok } — Ok (true) when get is not nil *)
Definition d_has (d : dict) (k : key) : option bool :=
  match d_get d k with
  | None => None
  | Some r => Some (match r with Some _ => true | None => false end)
  end.
(* entries: { Cons[~, Nil] [~, Nil] entries } *)
Definition d_entries (d : dict) : option (list (key * val)) := entries_aux (S (dsize d)) [d] [].
(* count: { Cons[~, Nil] [~, Nil] entries [~, 0] length } *)
Definition d_count (d : dict) : option Z :=
  match d_entries d with None => None | Some es => Some (length_acc es 0) end.
(* keys / values: entries ~> [~, #{ $0 }, Nil] map *)
Definition d_keys (d : dict) : option (list key) :=
  match d_entries d with None => None | Some es => Some (map_acc es fst []) end.
Definition d_values (d : dict) : option (list val) :=
  match d_entries d with None => None | Some es => Some (map_acc es snd []) end.
(* iter: entries ~> %iter.unfold with step Cons[e,t] => [e,t] | Nil => []: yields the entries in
   list order; the model of the iterator is the sequence it yields. *)
Definition d_iter (d : dict) : option (list (key * val)) := d_entries d.

(* dict.qv:339 from [self, d, pairs] *)
Fixpoint from_aux (d : dict) (pairs : list (key * val)) : option dict :=
  match pairs with
  | [] => Some d
  | (k, v) :: t =>
    match put_aux FUEL d k v (hash k) 0 with
    | None => None
    | Some d' => from_aux d' t
    end
  end.

(* from: { [&from, Empty, ~] from } *)
Definition d_from (pairs : list (key * val)) : option dict := from_aux Empty pairs.
(* merge: { Cons[$1, Nil] [~, Nil] entries [&from, $0, ~] from } *)
Definition d_merge (a b : dict) : option dict :=
  match d_entries b with None => None | Some es => from_aux a es end.

End Hamt.

Arguments Empty {key val}.
Arguments Leaf {key val} h k v.
Arguments Collision {key val} h es.
Arguments Node {key val} bitmap children.

(* ---------------------------------------------------------------- the concrete instance: Quiver keys, FNV-1a *)

(* 'key = Str['bin] | 'bin — a string and a binary with the same bytes are different keys with the
   same hash (dict.qv:27 key_bytes = #'key { =Str[b] => b | ='bin => $ }). Bytes are Z in [0,256). *)
Inductive qkey := KStr (bs : list Z) | KBin (bs : list Z).

Definition key_bytes (k : qkey) : list Z := match k with KStr b => b | KBin b => b end.

Fixpoint bytes_eqb (a b : list Z) : bool :=
  match a, b with
  | [], [] => true
  | x :: a', y :: b' => (x =? y) && bytes_eqb a' b'
  | _, _ => false
  end.

(* `=&` on two keys: structural equality *)
Definition qkey_eqb (a b : qkey) : bool :=
  match a, b with
  | KStr x, KStr y => bytes_eqb x y
  | KBin x, KBin y => bytes_eqb x y
  | _, _ => false
  end.

(* binary.rs:823 builtin_binary_hash32: fold(2166136261u32, |h, byte| (h ^ byte).wrapping_mul(16777619)) *)
Definition fnv1a32 (bs : list Z) : Z :=
  fold_left (fun h b => (Z.lxor h b * 16777619) mod 2 ^ 32) bs 2166136261.

(* dict.qv:29 hash = #'key { key_bytes __binary_hash32__ } *)
Definition qhash (k : qkey) : Z := fnv1a32 (key_bytes k).

Definition qdict := dict qkey Z.
Definition q_get : qdict -> qkey -> option (option Z) := d_get qkey Z qkey_eqb qhash.
Definition q_put : qdict -> qkey -> Z -> option qdict := d_put qkey Z qkey_eqb qhash.
Definition q_remove : qdict -> qkey -> option qdict := d_remove qkey Z qkey_eqb qhash.
Definition q_has : qdict -> qkey -> option bool := d_has qkey Z qkey_eqb qhash.
Definition q_entries : qdict -> option (list (qkey * Z)) := d_entries qkey Z.
Definition q_count : qdict -> option Z := d_count qkey Z.
Definition q_keys : qdict -> option (list qkey) := d_keys qkey Z.
Definition q_values : qdict -> option (list Z) := d_values qkey Z.
Definition q_iter : qdict -> option (list (qkey * Z)) := d_iter qkey Z.
Definition q_from : list (qkey * Z) -> option qdict := d_from qkey Z qkey_eqb qhash.
Definition q_merge : qdict -> qdict -> option qdict := d_merge qkey Z qkey_eqb qhash.
