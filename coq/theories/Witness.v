(* Witness.v — concrete type graphs on which the real functions (and the model variant that mirrors
   them) violate a C09 statement, checked by vm_compute.  Each registry literal is the dump of the
   real `Program` after the `(ops ..)` shown above it (harness qv_types); the probes are replayed
   against the real code by ./check C09 (corpus/c09_probes.txt).  Membership is judged by the
   executable `inhabb` of Sem.v (walk fuel 64, cap 400, depth 6). *)
From Quiver Require Import Base Types Rel Sem Narrow.
From Coq Require Import Arith.
Close Scope Z_scope.
Open Scope nat_scope.

(* (ops (tu 0) (tu 1) (tu 2) (tuple 2) (tuple 3) (tuple 4) (union 0 1) (tu 3 (- 3)) (tuple 5) (tu 3 (- 4)) (tuple 6) (tu 3 (- 0)) (tuple 7) (tu 3 (- 6)) (tuple 8) (union 6 2) (tu 3 (- 8)) (tuple 9) (union 7 9)) (qs (compat 5 10)) : real answers ['0'] *)
Definition reg_F7 : registry :=
  mk_reg
    [mk_tuple None []; mk_tuple (Some name_ok) []; mk_tuple (Some 0) []; mk_tuple (Some 1) []; mk_tuple (Some 2) []; mk_tuple (Some 3) [(None, 3)]; mk_tuple (Some 3) [(None, 4)]; mk_tuple (Some 3) [(None, 0)]; mk_tuple (Some 3) [(None, 6)]; mk_tuple (Some 3) [(None, 8)]]
    [TTuple 2; TTuple 3; TTuple 4; TUnion [0; 1]; TTuple 5; TTuple 6; TTuple 7; TTuple 8; TUnion [6; 2]; TTuple 9; TUnion [7; 9]].

(* (ops (int) (bin) (cycle 1) (tu 0 (- 2)) (tuple 2) (union 0 3) (tu 0 (- 0)) (tuple 3) (union 5 1)) (qs (overlap 4 6) (overlap 6 4)) : real answers ['1', '1'] *)
Definition reg_F12 : registry :=
  mk_reg
    [mk_tuple None []; mk_tuple (Some name_ok) []; mk_tuple (Some 0) [(None, 2)]; mk_tuple (Some 0) [(None, 0)]]
    [TInteger; TBinary; TCycle 1; TTuple 2; TUnion [0; 3]; TTuple 3; TUnion [5; 1]].

(* (ops (int) (bin) (tuple 0) (cycle 2) (union 2 3) (tu 0 (- 4)) (tuple 2) (union 0 5) (union 1 5) (tu 0 (- 0)) (tuple 3) (tu 1 (- 8) (- 8)) (tuple 4) (tu 1 (- 6) (- 7)) (tuple 5)) (qs (compat 9 10)) : real answers ['1'] *)
Definition reg_F23a : registry :=
  mk_reg
    [mk_tuple None []; mk_tuple (Some name_ok) []; mk_tuple (Some 0) [(None, 4)]; mk_tuple (Some 0) [(None, 0)]; mk_tuple (Some 1) [(None, 8); (None, 8)]; mk_tuple (Some 1) [(None, 6); (None, 7)]]
    [TInteger; TBinary; TTuple 0; TCycle 2; TUnion [2; 3]; TTuple 2; TUnion [0; 5]; TUnion [1; 5]; TTuple 3; TTuple 4; TTuple 5].

(* (ops (tuple 0) (tu 5) (tuple 2) (cycle 2) (tu 1 (- 2)) (tuple 3) (union 1 3) (tu 0 (- 4)) (tuple 4) (cycle 1) (tu 2 (- 6)) (tuple 5) (union 0 5 7) (tu 2 (- 1)) (tuple 6) (tu 1 (- 9)) (tuple 7) (tu 0 (- 10)) (tuple 8)) (qs (compat 11 8)) : real answers ['1'] *)
Definition reg_F23c : registry :=
  mk_reg
    [mk_tuple None []; mk_tuple (Some name_ok) []; mk_tuple (Some 5) []; mk_tuple (Some 1) [(None, 2)]; mk_tuple (Some 0) [(None, 4)]; mk_tuple (Some 2) [(None, 6)]; mk_tuple (Some 2) [(None, 1)]; mk_tuple (Some 1) [(None, 9)]; mk_tuple (Some 0) [(None, 10)]]
    [TTuple 0; TTuple 2; TCycle 2; TTuple 3; TUnion [1; 3]; TTuple 4; TCycle 1; TTuple 5; TUnion [0; 5; 7]; TTuple 6; TTuple 7; TTuple 8].

(* (ops (int) (bin) (union) (fn 0 0 2) (fn 1 0 2) (union 0 1) (fn 5 0 2)) (qs (overlap 3 4)) : real answers ['0'] *)
Definition reg_F25fn : registry :=
  mk_reg
    [mk_tuple None []; mk_tuple (Some name_ok) []]
    [TInteger; TBinary; TUnion []; TCallable 0 0 2; TCallable 1 0 2; TUnion [0; 1]; TCallable 5 0 2].

(* (ops (int) (partial - (0 0)) (tu 0 (0 0)) (tuple 2)) (qs (overlap 1 2) (overlap 2 1)) : real answers ['0', '1'] *)
Definition reg_F25partial : registry :=
  mk_reg
    [mk_tuple None []; mk_tuple (Some name_ok) []; mk_tuple (Some 0) [((Some 0), 0)]]
    [TInteger; TPartial None [(0, 0)]; TTuple 2].

(* (ops (int) (partial - (0 0)) (partial 0 (0 0)) (tu 1 (0 0)) (tuple 2)) (qs (compat 1 2)) : real answers ['1'] *)
Definition reg_Pname : registry :=
  mk_reg
    [mk_tuple None []; mk_tuple (Some name_ok) []; mk_tuple (Some 1) [((Some 0), 0)]]
    [TInteger; TPartial None [(0, 0)]; TPartial (Some 0) [(0, 0)]; TTuple 2].


Definition memb (P : registry) (v : value) (t : nat) : bool := inhabb P 64 400 6 [] v t.
Definition tup (n : nat) (fs : list value) : value := VTup (Some n) (map (fun v => (None, v)) fs).

(* a violation of assignability => containment on (P, a, b): accepted, both in the domain, and a
   value of a that is not a value of b *)
Definition compat_violation (cfg : rel_cfg) (P : registry) (a b : nat) (v : value) : bool :=
  closedb P a && closedb P b
  && match is_compatible_with cfg 1000 P a b with Some true => true | _ => false end
  && memb P v a && negb (memb P v b).

(* a violation of overlap completeness: answered "disjoint" although v inhabits both *)
Definition overlap_violation (cfg : rel_cfg) (P : registry) (a b : nat) (v : value) : bool :=
  closedb P a && closedb P b
  && match types_overlap_with cfg 1000 P a b with Some false => true | _ => false end
  && memb P v a && memb P v b.

(* F7: Wrap[Wrap[A|B]] vs Wrap[Wrap[A]] | Wrap[Wrap[A]|O]; value Wrap[Wrap[B]] *)
Definition v_F7 : value := tup 3 [tup 3 [tup 1 []]].
Lemma F7_legacy : compat_violation legacy_cfg reg_F7 5 10 v_F7 = true.
Proof. vm_compute. reflexivity. Qed.
Lemma F7_repaired : is_compatible_with current_cfg 1000 reg_F7 5 10 = Some false.
Proof. vm_compute. reflexivity. Qed.

(* F12: 'int | B[^] vs B['int] | 'bin; value B[1] *)
Definition v_F12 : value := tup 0 [VInt 0%Z].
Lemma F12_legacy : overlap_violation legacy_cfg reg_F12 4 6 v_F12 = true.
Proof. vm_compute. reflexivity. Qed.
Lemma F12_f7_only : overlap_violation f7_cfg reg_F12 4 6 v_F12 = true.
Proof. vm_compute. reflexivity. Qed.
Lemma F12_repaired : types_overlap_with current_cfg 1000 reg_F12 4 6 = Some true
                     /\ types_overlap_with current_cfg 1000 reg_F12 6 4 = Some true.
Proof. vm_compute. split; reflexivity. Qed.

(* F23 (a): p = Nil | ^2 shared by W1 = int | Box[p] and W2 = bin | Box[p];
   Pair[Box[int], Box[int]] is accepted for Pair[W1, W2] although Box[int] is not in W2 *)
Definition v_F23a : value := tup 1 [tup 0 [VInt 0%Z]; tup 0 [VInt 0%Z]].
Lemma F23a_current : compat_violation current_cfg reg_F23a 9 10 v_F23a = true.
Proof. vm_compute. reflexivity. Qed.

(* F23 (c): T = Nil | A[U] | C[^1], U = Nil2 | B[^2]; A[B[C[Nil2]]] is accepted for T *)
Definition v_F23c : value := tup 0 [tup 1 [tup 2 [tup 5 []]]].
Lemma F23c_current : compat_violation current_cfg reg_F23c 11 8 v_F23c = true.
Proof. vm_compute. reflexivity. Qed.

(* F25: fn(int)->int and fn(bin)->int are answered disjoint although a function declared
   fn(int|bin)->int belongs to both; a partial on the self side never overlaps a tuple *)
Lemma F25_callable_as_found : overlap_violation f55_cfg reg_F25fn 3 4 (VFun 6) = true.
Proof. vm_compute. reflexivity. Qed.
Lemma F25_callable_repaired : types_overlap_with current_cfg 1000 reg_F25fn 3 4 = Some true.
Proof. vm_compute. reflexivity. Qed.
Definition v_F25p : value := VTup (Some 0) [(Some 0, VInt 0%Z)].
Lemma F25p_as_found : overlap_violation fixed_cfg reg_F25partial 1 2 v_F25p = true.
Proof. vm_compute. reflexivity. Qed.
Lemma F25p_repaired : types_overlap_with current_cfg 1000 reg_F25partial 1 2 = Some true
                      /\ types_overlap_with current_cfg 1000 reg_F25partial 2 1 = Some true.
Proof. vm_compute. split; reflexivity. Qed.

(* F29: unnamed partial accepted where a named partial is expected: (x:int) vs N0(x:int); value N1[x: 1] *)
Definition v_Pname : value := VTup (Some 1) [(Some 0, VInt 0%Z)].
Lemma F29_as_found : compat_violation fixed_cfg reg_Pname 1 2 v_Pname = true.
Proof. vm_compute. reflexivity. Qed.
Lemma F29_repaired : is_compatible_with current_cfg 1000 reg_Pname 1 2 = Some false.
Proof. vm_compute. reflexivity. Qed.

(* F24: complement(muX. N1 | N0[X] | bin, bin) = muY. N1 | N0[Y], which drops N0[bin] *)
Definition reg_F24 : registry :=
  mk_reg [mk_tuple None []; mk_tuple (Some name_ok) []; mk_tuple (Some 1) []; mk_tuple (Some 0) [(None, 2)]]
         [TBinary; TTuple 2; TCycle 1; TTuple 3; TUnion [1; 3; 0]].
Definition v_F24 : value := tup 0 [VBin []].

(* a violation of complement_keeps: v is in o, not in nr, and not in compute_complement o nr *)
Definition complement_violation (cfg : rel_cfg) (P : registry) (o nr : nat) (v : value) : bool :=
  closedb P o && closedb P nr &&
  match compute_complement cfg 1000 1000 P o nr with
  | Some (P', r) => memb P v o && negb (memb P v nr) && negb (memb P' v r)
  | None => false
  end.

(* a violation of intersect_keeps: v is in a and in b, and not in intersect_types a b *)
Definition intersect_violation (cfg : rel_cfg) (P : registry) (a b : nat) (v : value) : bool :=
  closedb P a && closedb P b &&
  match intersect_types cfg 1000 1000 P a b with
  | Some (P', r) => memb P v a && memb P v b && negb (memb P' v r)
  | None => false
  end.

Lemma F24_current : complement_violation current_cfg reg_F24 4 0 v_F24 = true.
Proof. vm_compute. reflexivity. Qed.

(* F25 through intersect_types: fn(int)->int /\ fn(bin)->int used to be `never` although fn(int|bin)->int is
   in both; since 79f9965 (F25b) intersect_pair builds the exact meet fn(int|bin)->int *)
Lemma F25_intersect_repaired : intersect_violation current_cfg reg_F25fn 3 4 (VFun 6) = false.
Proof. vm_compute. reflexivity. Qed.

(* filter_variants_by_field: parent = A[x: int|bin] | B[x: int]; after a test of field x against int
   succeeded the code keeps only B (A's field type is not ASSIGNABLE to int), dropping A[x: 5] *)
Definition reg_filter : registry :=
  mk_reg [mk_tuple None []; mk_tuple (Some name_ok) []; mk_tuple (Some 0) [(Some 0, 2)]; mk_tuple (Some 1) [(Some 0, 0)]]
         [TInteger; TBinary; TUnion [0; 1]; TTuple 2; TTuple 3; TUnion [3; 4]].
Definition v_filter : value := VTup (Some 0) [(Some 0, VInt 0%Z)].

(* a violation of filter_keeps: the tuple value is in the parent, its field idx is in `must`, and the
   value is not in filter_variants_by_field's result *)
Definition filter_violation (cfg : rel_cfg) (by_overlap : bool) (P : registry) (parent idx must : nat) (v fv : value) : bool :=
  closedb P parent && closedb P must &&
  match filter_variants_by_field cfg 1000 by_overlap P parent idx must with
  | Some (P', r) => memb P v parent && memb P fv must && negb (memb P' v r)
  | None => false
  end.

Lemma F87_as_found : filter_violation current_cfg false reg_filter 5 0 0 v_filter (VInt 0%Z) = true.
Proof. vm_compute. reflexivity. Qed.
Lemma F87_repaired : filter_violation current_cfg current_filter_by_overlap reg_filter 5 0 0 v_filter (VInt 0%Z) = false
  /\ match filter_variants_by_field current_cfg 1000 current_filter_by_overlap reg_filter 5 0 0 with
     | Some (P', r) => memb P' v_filter r | None => false end = true.
Proof. vm_compute. split; reflexivity. Qed.
