(* RopeProofs.v — representation invariant of the rope model and its denotation theorems. *)
From Quiver Require Export Rope.
From Coq Require Import Lia.

Fixpoint wf (r : rope) : Prop :=
  match r with
  | Owned bs => bytes_ok bs /\ Z.of_nat (length bs) <= MAX_BINARY_SIZE
  | Zeroed n => 0 <= n <= MAX_BINARY_SIZE
  | Slice p off len => wf p /\ 0 <= off /\ 0 < len /\ off + len <= rlen p
  | Concat l rr t => wf l /\ wf rr /\ t = rlen l + rlen rr /\ t <= MAX_BINARY_SIZE
  | Tiled u c => wf u /\ 2 <= c /\ 0 < rlen u /\ rlen u * c <= MAX_BINARY_SIZE
  end.

(* find_from (first index >= off of b in l, as a plain list function) is defined in Rope.v *)

(* ------------------------------------------------------------------ *)
(* Generic list helpers (nat-indexed)                                  *)
(* ------------------------------------------------------------------ *)

Lemma nth_error_firstn_lt {A} (l : list A) n i :
  (i < n)%nat -> nth_error (firstn n l) i = nth_error l i.
Proof.
  revert l i; induction n as [|n IH]; intros l i H; [lia|].
  destruct l as [|x l]; [destruct i; reflexivity|].
  destruct i as [|i]; simpl; [reflexivity|]. apply IH; lia.
Qed.

Lemma nth_error_firstn_ge {A} (l : list A) n i :
  (n <= i)%nat -> nth_error (firstn n l) i = None.
Proof.
  intros H. apply nth_error_None. pose proof (firstn_le_length n l). lia.
Qed.

Lemma nth_error_skipn_add {A} (l : list A) k i :
  nth_error (skipn k l) i = nth_error l (k + i).
Proof.
  revert l; induction k as [|k IH]; intros l; [reflexivity|].
  destruct l as [|x l]; simpl; [destruct i; reflexivity|apply IH].
Qed.

Lemma nth_error_repeat_lt {A} (x : A) n i :
  (i < n)%nat -> nth_error (repeat x n) i = Some x.
Proof.
  revert i; induction n as [|n IH]; intros i H; [lia|].
  destruct i as [|i]; simpl; [reflexivity|]. apply IH; lia.
Qed.

Lemma skipn_nth_cons {A} (l : list A) i x :
  nth_error l i = Some x -> skipn i l = x :: skipn (S i) l.
Proof.
  revert l; induction i as [|i IH]; intros l H; destruct l as [|y l]; try discriminate.
  - simpl in H. injection H as ->. reflexivity.
  - simpl in H. apply IH in H. exact H.
Qed.

Lemma Forall_firstn_keep {A} (P : A -> Prop) n l : Forall P l -> Forall P (firstn n l).
Proof.
  intros H; revert n; induction H; intros [|n]; simpl; constructor; auto.
Qed.

Lemma Forall_skipn_keep {A} (P : A -> Prop) n l : Forall P l -> Forall P (skipn n l).
Proof.
  intros H; revert n; induction H; intros [|n]; simpl; auto.
Qed.

Lemma Forall_repeat_intro {A} (P : A -> Prop) x n : P x -> Forall P (repeat x n).
Proof. intros H; induction n; simpl; constructor; auto. Qed.

Lemma Forall_concat_repeat {A} (P : A -> Prop) u n :
  Forall P u -> Forall P (concat (repeat u n)).
Proof.
  intros H; induction n as [|n IH]; simpl; [constructor|].
  apply Forall_app; split; assumption.
Qed.

(* concat (repeat u c) *)

Lemma length_concat_repeat {A} (u : list A) c :
  length (concat (repeat u c)) = (c * length u)%nat.
Proof.
  induction c as [|c IH]; simpl; [reflexivity|]. rewrite app_length, IH. reflexivity.
Qed.

Lemma concat_repeat_nil {A} c : concat (repeat (@nil A) c) = [].
Proof. induction c; simpl; auto. Qed.

Lemma nth_error_concat_repeat {A} (u : list A) c q o :
  (q < c)%nat -> (o < length u)%nat ->
  nth_error (concat (repeat u c)) (q * length u + o) = nth_error u o.
Proof.
  revert c; induction q as [|q IH]; intros c Hq Ho; (destruct c as [|c]; [lia|]);
    simpl repeat; simpl concat.
  - simpl. apply nth_error_app1; lia.
  - rewrite nth_error_app2 by (simpl; lia).
    replace (S q * length u + o - length u)%nat with (q * length u + o)%nat by (simpl; lia).
    apply IH; lia.
Qed.

Lemma skipn_concat_repeat {A} (u : list A) c q o :
  (q < c)%nat -> (o <= length u)%nat ->
  skipn (q * length u + o) (concat (repeat u c)) =
  skipn o u ++ concat (repeat u (c - q - 1)).
Proof.
  revert c; induction q as [|q IH]; intros c Hq Ho; (destruct c as [|c]; [lia|]);
    simpl repeat; simpl concat; rewrite skipn_app.
  - simpl. replace (o - length u)%nat with 0%nat by lia.
    rewrite Nat.sub_0_r. reflexivity.
  - rewrite (skipn_all2 u) by (simpl; lia).
    replace (S q * length u + o - length u)%nat with (q * length u + o)%nat by (simpl; lia).
    rewrite IH by lia. simpl. reflexivity.
Qed.

(* ------------------------------------------------------------------ *)
(* list_find                                                           *)
(* ------------------------------------------------------------------ *)

Lemma list_find_bound b l p : list_find b l = Some p -> 0 <= p < Z.of_nat (length l).
Proof.
  revert p; induction l as [|a l IH]; intros p H; cbn [list_find] in H; [discriminate|].
  cbn [length]. destruct (a =? b).
  - injection H as <-. lia.
  - destruct (list_find b l) as [p'|]; cbn [option_map] in H; [|discriminate].
    injection H as <-. specialize (IH p' eq_refl). lia.
Qed.

Lemma list_find_app b l1 l2 :
  list_find b (l1 ++ l2) =
  match list_find b l1 with
  | Some p => Some p
  | None => option_map (fun p => p + Z.of_nat (length l1)) (list_find b l2)
  end.
Proof.
  induction l1 as [|a l1 IH]; cbn [app list_find length].
  - destruct (list_find b l2); cbn [option_map]; [f_equal; lia|reflexivity].
  - destruct (a =? b); [reflexivity|]. rewrite IH.
    destruct (list_find b l1); cbn [option_map]; [reflexivity|].
    destruct (list_find b l2); cbn [option_map]; [f_equal; lia|reflexivity].
Qed.

Lemma list_find_firstn b n l :
  list_find b (firstn n l) =
  match list_find b l with
  | Some p => if p <? Z.of_nat n then Some p else None
  | None => None
  end.
Proof.
  revert l; induction n as [|n IH]; intros l.
  - cbn [firstn list_find]. destruct (list_find b l) as [p|] eqn:E; [|reflexivity].
    apply list_find_bound in E. destruct (Z.ltb_spec p (Z.of_nat 0)); [lia|reflexivity].
  - destruct l as [|a l]; cbn [firstn list_find]; [reflexivity|].
    destruct (a =? b).
    + destruct (Z.ltb_spec 0 (Z.of_nat (S n))); [reflexivity|lia].
    + rewrite IH. destruct (list_find b l) as [p|]; cbn [option_map]; [|reflexivity].
      destruct (Z.ltb_spec p (Z.of_nat n)); destruct (Z.ltb_spec (Z.succ p) (Z.of_nat (S n)));
        cbn [option_map]; try lia; reflexivity.
Qed.

Lemma list_find_repeat_ne b x n : (x =? b) = false -> list_find b (repeat x n) = None.
Proof.
  intros H; induction n as [|n IH]; cbn [repeat list_find]; [reflexivity|].
  rewrite H, IH. reflexivity.
Qed.

Lemma list_find_repeat_S b x n :
  list_find b (repeat x (S n)) = if x =? b then Some 0 else None.
Proof.
  cbn [repeat list_find]. destruct (x =? b) eqn:E; [reflexivity|].
  rewrite list_find_repeat_ne by exact E. reflexivity.
Qed.

Lemma list_find_concat_repeat_none b u k :
  list_find b u = None -> list_find b (concat (repeat u k)) = None.
Proof.
  intros H; induction k as [|k IH]; cbn [repeat concat]; [reflexivity|].
  rewrite list_find_app, H, IH. reflexivity.
Qed.

Lemma list_find_concat_repeat_some b u k p :
  list_find b u = Some p -> list_find b (concat (repeat u (S k))) = Some p.
Proof.
  intros H. cbn [repeat concat]. rewrite list_find_app, H. reflexivity.
Qed.

(* characterisation of list_find, so that find_from is visibly "the first index" *)
Lemma list_find_spec b l p : list_find b l = Some p <->
  (0 <= p /\ nth_error l (Z.to_nat p) = Some b /\ forall q, (q < Z.to_nat p)%nat -> nth_error l q <> Some b).
Proof.
  revert p; induction l as [|a l IH]; intros p; cbn [list_find].
  - split; [discriminate|]. intros (_ & H & _). destruct (Z.to_nat p); discriminate.
  - destruct (Z.eqb_spec a b) as [E|E].
    + split.
      * intros H; injection H as <-. split; [lia|]. split; [simpl; congruence|].
        intros q Hq. simpl in Hq. lia.
      * intros (Hp & Hn & Hq). destruct (Z.to_nat p) as [|n] eqn:En.
        -- f_equal. lia.
        -- exfalso. apply (Hq 0%nat); [lia|]. simpl. congruence.
    + split.
      * intros H. destruct (list_find b l) as [p'|] eqn:E'; cbn [option_map] in H; [|discriminate].
        injection H as <-. destruct (proj1 (IH p') eq_refl) as (Hp & Hn & Hq).
        rewrite Z2Nat.inj_succ by lia. split; [lia|]. split; [exact Hn|].
        intros [|q] Hlt; simpl; [congruence|]. apply Hq; lia.
      * intros (Hp & Hn & Hq). destruct (Z.to_nat p) as [|n] eqn:En.
        -- simpl in Hn. congruence.
        -- simpl in Hn.
           assert (Hrec : list_find b l = Some (p - 1)).
           { apply IH. replace (Z.to_nat (p - 1)) with n by lia.
             split; [lia|]. split; [exact Hn|].
             intros q Hlt. apply (Hq (S q)). lia. }
           rewrite Hrec. cbn [option_map]. f_equal. lia.
Qed.

Lemma list_find_none b l : list_find b l = None <-> ~ In b l.
Proof.
  induction l as [|a l IH]; cbn [list_find In].
  - split; auto.
  - destruct (Z.eqb_spec a b) as [E|E].
    + split; [discriminate|]. intros H; exfalso; apply H; left; exact E.
    + destruct (list_find b l); cbn [option_map].
      * split; [discriminate|]. intros H.
        assert (Hn : ~ In b l) by (intros Hi; apply H; right; exact Hi).
        apply IH in Hn. discriminate.
      * split; [|reflexivity]. intros _ [H|H]; [exact (E H)|]. revert H. apply IH. reflexivity.
Qed.

(* ------------------------------------------------------------------ *)
(* Unfolding equations and boolean range tests                         *)
(* ------------------------------------------------------------------ *)

Lemma byte_at_eq r i :
  byte_at r i =
  if (i <? 0) || (rlen r <=? i) then None else
  match r with
  | Owned bs => nth_error bs (Z.to_nat i)
  | Zeroed _ => Some 0
  | Slice p off _ => byte_at p (off + i)
  | Concat l rr _ => if i <? rlen l then byte_at l i else byte_at rr (i - rlen l)
  | Tiled u _ => byte_at u (i mod rlen u)
  end.
Proof. destruct r; reflexivity. Qed.

Lemma range_test_true i L : 0 <= i < L -> (0 <=? i) && (i <? L) = true.
Proof.
  intros H. destruct (Z.leb_spec 0 i); destruct (Z.ltb_spec i L); try lia; reflexivity.
Qed.

Lemma range_test_false i L : ~ (0 <= i < L) -> (0 <=? i) && (i <? L) = false.
Proof.
  intros H. destruct (Z.leb_spec 0 i); destruct (Z.ltb_spec i L); try lia; reflexivity.
Qed.

Lemma out_test_false i L : 0 <= i < L -> (i <? 0) || (L <=? i) = false.
Proof.
  intros H. destruct (Z.ltb_spec i 0); destruct (Z.leb_spec L i); try lia; reflexivity.
Qed.

Lemma out_test_true i L : ~ (0 <= i < L) -> (i <? 0) || (L <=? i) = true.
Proof.
  intros H. destruct (Z.ltb_spec i 0); destruct (Z.leb_spec L i); try lia; reflexivity.
Qed.

(* Z <-> nat decomposition of an index into a tiled list *)
Lemma tile_index_split (i m : Z) : 0 <= i -> 0 < m ->
  0 <= i / m /\ 0 <= i mod m < m /\ i = m * (i / m) + i mod m /\
  Z.to_nat i = (Z.to_nat (i / m) * Z.to_nat m + Z.to_nat (i mod m))%nat.
Proof.
  intros Hi Hm.
  assert (H1 : 0 <= i / m) by (apply Z.div_pos; lia).
  assert (H2 : 0 <= i mod m < m) by (apply Z.mod_pos_bound; lia).
  assert (H3 : i = m * (i / m) + i mod m) by (apply Z.div_mod; lia).
  repeat split; try lia.
  all: apply Nat2Z.inj; rewrite Nat2Z.inj_add, Nat2Z.inj_mul, !Z2Nat.id by lia; lia.
Qed.

(* ------------------------------------------------------------------ *)
(* Length and well-formedness of the denotation                        *)
(* ------------------------------------------------------------------ *)

Lemma wf_rlen_bound r : wf r -> 0 <= rlen r <= MAX_BINARY_SIZE.
Proof.
  induction r as [bs|n|p IHp off len|l IHl rr IHr t|u IHu c]; cbn [wf rlen]; intros H.
  - lia.
  - lia.
  - destruct H as (Hp & H0 & H1 & H2). specialize (IHp Hp). lia.
  - destruct H as (Hl & Hr & Ht & Hb). specialize (IHl Hl). specialize (IHr Hr). lia.
  - destruct H as (Hu & Hc & Hl & Hb). split; [|exact Hb]. apply Z.mul_nonneg_nonneg; lia.
Qed.

Theorem rlen_bytes_of r : wf r -> rlen r = Z.of_nat (length (bytes_of r)).
Proof.
  induction r as [bs|n|p IHp off len|l IHl rr IHr t|u IHu c]; cbn [wf rlen bytes_of]; intros H.
  - reflexivity.
  - rewrite repeat_length. lia.
  - destruct H as (Hp & H0 & H1 & H2). specialize (IHp Hp).
    rewrite firstn_length, skipn_length. lia.
  - destruct H as (Hl & Hr & Ht & Hb). rewrite app_length, Nat2Z.inj_add, <- IHl, <- IHr by assumption.
    exact Ht.
  - destruct H as (Hu & Hc & Hl & Hb). rewrite length_concat_repeat, Nat2Z.inj_mul, <- IHu by assumption.
    rewrite Z2Nat.id by lia. lia.
Qed.

Theorem bytes_of_ok r : wf r -> bytes_ok (bytes_of r).
Proof.
  unfold bytes_ok.
  induction r as [bs|n|p IHp off len|l IHl rr IHr t|u IHu c]; cbn [wf bytes_of]; intros H.
  - exact (proj1 H).
  - apply Forall_repeat_intro. lia.
  - apply Forall_firstn_keep, Forall_skipn_keep, IHp, H.
  - destruct H as (Hl & Hr & _). apply Forall_app; split; auto.
  - apply Forall_concat_repeat, IHu, H.
Qed.

(* ------------------------------------------------------------------ *)
(* byte_at                                                             *)
(* ------------------------------------------------------------------ *)

Lemma byte_at_out r i : ~ (0 <= i < rlen r) -> byte_at r i = None.
Proof. intros H. rewrite byte_at_eq, out_test_true by exact H. reflexivity. Qed.

Lemma byte_at_in r : wf r -> forall i, 0 <= i < rlen r ->
  byte_at r i = nth_error (bytes_of r) (Z.to_nat i).
Proof.
  induction r as [bs|n|p IHp off len|l IHl rr IHr t|u IHu c]; intros H i Hi;
    rewrite byte_at_eq, out_test_false by exact Hi; cbn [wf rlen bytes_of] in *.
  - reflexivity.
  - symmetry. apply nth_error_repeat_lt. lia.
  - destruct H as (Hp & H0 & H1 & H2).
    rewrite IHp by (try exact Hp; lia).
    rewrite nth_error_firstn_lt by lia. rewrite nth_error_skipn_add.
    f_equal. lia.
  - destruct H as (Hl & Hr & Ht & Hb).
    pose proof (rlen_bytes_of l Hl) as Ll. pose proof (rlen_bytes_of rr Hr) as Lr.
    destruct (Z.ltb_spec i (rlen l)) as [Hlt|Hge].
    + rewrite IHl by (try exact Hl; lia).
      rewrite nth_error_app1 by lia. reflexivity.
    + rewrite IHr by (try exact Hr; lia).
      rewrite nth_error_app2 by lia. f_equal. lia.
  - destruct H as (Hu & Hc & Hl & Hb).
    pose proof (rlen_bytes_of u Hu) as Lu.
    destruct (tile_index_split i (rlen u)) as (Q0 & M0 & Ei & En); [lia|lia|].
    rewrite IHu by (try exact Hu; lia).
    rewrite En. replace (Z.to_nat (rlen u)) with (length (bytes_of u)) by lia.
    rewrite nth_error_concat_repeat; [reflexivity| |lia].
    assert (i / rlen u < c) by (apply Z.div_lt_upper_bound; lia). lia.
Qed.

Theorem byte_at_spec r i : wf r ->
  byte_at r i = if (0 <=? i) && (i <? rlen r) then nth_error (bytes_of r) (Z.to_nat i) else None.
Proof.
  intros H. destruct (Z_le_dec 0 i) as [H0|H0]; [destruct (Z_lt_dec i (rlen r)) as [H1|H1]|].
  - rewrite range_test_true by lia. apply byte_at_in; [exact H|lia].
  - rewrite range_test_false by lia. apply byte_at_out. lia.
  - rewrite range_test_false by lia. apply byte_at_out. lia.
Qed.

Corollary byte_at_in_range r i : wf r -> 0 <= i < rlen r ->
  exists b, byte_at r i = Some b /\ nth_error (bytes_of r) (Z.to_nat i) = Some b /\ 0 <= b < 256.
Proof.
  intros H Hi. rewrite byte_at_spec by exact H. rewrite range_test_true by exact Hi.
  pose proof (rlen_bytes_of r H) as L.
  destruct (nth_error (bytes_of r) (Z.to_nat i)) as [b|] eqn:E.
  - exists b. split; [reflexivity|]. split; [reflexivity|].
    pose proof (bytes_of_ok r H) as Hok. unfold bytes_ok in Hok.
    rewrite Forall_forall in Hok. apply Hok. eapply nth_error_In. exact E.
  - apply nth_error_None in E. lia.
Qed.

(* ------------------------------------------------------------------ *)
(* rope_iter                                                           *)
(* ------------------------------------------------------------------ *)

Lemma iter_from_spec r fuel : forall i, wf r -> 0 <= i -> i + Z.of_nat fuel = rlen r ->
  iter_from r i fuel = skipn (Z.to_nat i) (bytes_of r).
Proof.
  induction fuel as [|f IH]; intros i H Hi Hf; cbn [iter_from].
  - symmetry. apply skipn_all2. pose proof (rlen_bytes_of r H). lia.
  - destruct (byte_at_in_range r i H) as (b & Hb & Hn & _); [lia|].
    rewrite Hb. rewrite (skipn_nth_cons _ _ _ Hn). f_equal.
    rewrite IH by (try assumption; lia). f_equal. lia.
Qed.

Theorem rope_iter_spec r : wf r -> rope_iter r = bytes_of r.
Proof.
  intros H. unfold rope_iter. pose proof (wf_rlen_bound r H).
  rewrite iter_from_spec by (try assumption; lia). reflexivity.
Qed.

(* ------------------------------------------------------------------ *)
(* find_from: equations mirroring each rope constructor                *)
(* ------------------------------------------------------------------ *)

Lemma skipn_repeat {A} (x : A) n k : skipn k (repeat x n) = repeat x (n - k).
Proof.
  revert k; induction n as [|n IH]; intros [|k]; cbn [repeat skipn Nat.sub]; try reflexivity.
  apply IH.
Qed.

Lemma skipn_skipn_add {A} (l : list A) x y : skipn x (skipn y l) = skipn (y + x) l.
Proof.
  revert l; induction y as [|y IH]; intros l; [reflexivity|].
  destruct l as [|a l]; cbn [skipn Nat.add]; [destruct x; reflexivity|apply IH].
Qed.

Lemma find_from_out b l off : Z.of_nat (length l) <= off -> find_from b l off = None.
Proof.
  intros H. unfold find_from. destruct (Z.leb_spec (Z.of_nat (length l)) off); [reflexivity|lia].
Qed.

Lemma find_from_in b l off : off < Z.of_nat (length l) ->
  find_from b l off = option_map (fun p => p + off) (list_find b (skipn (Z.to_nat off) l)).
Proof.
  intros H. unfold find_from. destruct (Z.leb_spec (Z.of_nat (length l)) off); [lia|reflexivity].
Qed.

Lemma find_from_0 b l : find_from b l 0 = list_find b l.
Proof.
  destruct l as [|x l]; [reflexivity|].
  rewrite find_from_in by (cbn [length]; lia).
  change (Z.to_nat 0) with 0%nat. cbn [skipn].
  destruct (list_find b (x :: l)); cbn [option_map]; [f_equal; lia|reflexivity].
Qed.

Lemma find_from_repeat0 b n off : 0 <= off ->
  find_from b (repeat 0 n) off = if (b =? 0) && (off <? Z.of_nat n) then Some off else None.
Proof.
  intros Hoff. destruct (Z.ltb_spec off (Z.of_nat n)) as [Hlt|Hge].
  - rewrite find_from_in by (rewrite repeat_length; lia).
    rewrite skipn_repeat.
    destruct (n - Z.to_nat off)%nat as [|k] eqn:E; [lia|].
    rewrite list_find_repeat_S. rewrite (Z.eqb_sym b 0).
    destruct (0 =? b); cbn [option_map andb]; [f_equal; lia|reflexivity].
  - rewrite find_from_out by (rewrite repeat_length; lia).
    rewrite andb_false_r. reflexivity.
Qed.

Lemma find_from_slice b l soff len off :
  0 <= soff -> 0 < len -> soff + len <= Z.of_nat (length l) -> 0 <= off ->
  find_from b (firstn (Z.to_nat len) (skipn (Z.to_nat soff) l)) off =
  if len <=? off then None
  else match find_from b l (soff + off) with
       | Some a => if a - soff <? len then Some (a - soff) else None
       | None => None
       end.
Proof.
  intros Hs Hl Hb Hoff.
  assert (Elen : Z.of_nat (length (firstn (Z.to_nat len) (skipn (Z.to_nat soff) l))) = len).
  { rewrite firstn_length, skipn_length. lia. }
  destruct (Z.leb_spec len off) as [Hge|Hlt].
  - apply find_from_out. lia.
  - rewrite find_from_in by lia. rewrite find_from_in by lia.
    rewrite skipn_firstn_comm, skipn_skipn_add.
    replace (Z.to_nat (soff + off)) with (Z.to_nat soff + Z.to_nat off)%nat by lia.
    rewrite list_find_firstn.
    destruct (list_find b (skipn (Z.to_nat soff + Z.to_nat off) l)) as [p|]; cbn [option_map];
      [|reflexivity].
    destruct (Z.ltb_spec p (Z.of_nat (Z.to_nat len - Z.to_nat off)));
      destruct (Z.ltb_spec (p + (soff + off) - soff) len); cbn [option_map]; try lia;
      [f_equal; lia|reflexivity].
Qed.

Lemma find_from_app b l1 l2 off : 0 <= off ->
  find_from b (l1 ++ l2) off =
  if off <? Z.of_nat (length l1) then
    match find_from b l1 off with
    | Some i => Some i
    | None => option_map (fun i => i + Z.of_nat (length l1)) (find_from b l2 0)
    end
  else option_map (fun i => i + Z.of_nat (length l1)) (find_from b l2 (off - Z.of_nat (length l1))).
Proof.
  intros Hoff. destruct (Z.ltb_spec off (Z.of_nat (length l1))) as [Hlt|Hge].
  - rewrite find_from_in by (rewrite app_length; lia).
    rewrite find_from_in by lia. rewrite find_from_0.
    rewrite skipn_app. replace (Z.to_nat off - length l1)%nat with 0%nat by lia.
    cbn [skipn]. rewrite list_find_app.
    destruct (list_find b (skipn (Z.to_nat off) l1)) as [p|]; cbn [option_map]; [reflexivity|].
    rewrite skipn_length.
    destruct (list_find b l2) as [p|]; cbn [option_map]; [f_equal; lia|reflexivity].
  - destruct (Z_le_dec (Z.of_nat (length l1) + Z.of_nat (length l2)) off) as [Hout|Hin].
    + rewrite find_from_out by (rewrite app_length; lia).
      rewrite find_from_out by lia. reflexivity.
    + rewrite find_from_in by (rewrite app_length; lia).
      rewrite find_from_in by lia.
      rewrite skipn_app. rewrite (skipn_all2 l1) by lia. cbn [app].
      replace (Z.to_nat (off - Z.of_nat (length l1))) with (Z.to_nat off - length l1)%nat by lia.
      destruct (list_find b (skipn (Z.to_nat off - length l1) l2)) as [p|]; cbn [option_map];
        [f_equal; lia|reflexivity].
Qed.

Lemma find_from_tiled b u c off :
  0 < Z.of_nat (length u) -> 0 <= c -> 0 <= off ->
  find_from b (concat (repeat u (Z.to_nat c))) off =
  if (Z.of_nat (length u) =? 0) || (Z.of_nat (length u) * c <=? off) then None
  else match find_from b u (off mod Z.of_nat (length u)) with
       | Some p => Some (off / Z.of_nat (length u) * Z.of_nat (length u) + p)
       | None =>
           if off / Z.of_nat (length u) + 1 <? c then
             match find_from b u 0 with
             | Some p => Some ((off / Z.of_nat (length u) + 1) * Z.of_nat (length u) + p)
             | None => None
             end
           else None
       end.
Proof.
  intros Hm Hc Hoff. set (m := Z.of_nat (length u)) in *.
  assert (Elen : Z.of_nat (length (concat (repeat u (Z.to_nat c)))) = m * c).
  { rewrite length_concat_repeat, Nat2Z.inj_mul, Z2Nat.id by lia. fold m. lia. }
  destruct (Z.eqb_spec m 0) as [E0|_]; [lia|]. cbn [orb].
  destruct (Z.leb_spec (m * c) off) as [Hout|Hin].
  - apply find_from_out. lia.
  - destruct (tile_index_split off m Hoff Hm) as (Q0 & M0 & Eo & En).
    assert (Qc : off / m < c) by (apply Z.div_lt_upper_bound; lia).
    set (su := off / m) in *. set (o := off mod m) in *.
    rewrite find_from_in by lia. rewrite (find_from_in b u o) by (fold m; lia).
    rewrite find_from_0.
    rewrite En. replace (Z.to_nat m) with (length u) by (subst m; lia).
    rewrite skipn_concat_repeat by (subst m; lia).
    rewrite list_find_app.
    destruct (list_find b (skipn (Z.to_nat o) u)) as [p|]; cbn [option_map];
      [f_equal; lia|].
    rewrite skipn_length.
    destruct (Z.ltb_spec (su + 1) c) as [Hmore|Hlast].
    + destruct (Z.to_nat c - Z.to_nat su - 1)%nat as [|k] eqn:Ek; [lia|].
      destruct (list_find b u) as [p|] eqn:Eu.
      * rewrite (list_find_concat_repeat_some _ _ _ _ Eu). cbn [option_map].
        f_equal. subst m. lia.
      * rewrite (list_find_concat_repeat_none _ _ _ Eu). reflexivity.
    + replace (Z.to_nat c - Z.to_nat su - 1)%nat with 0%nat by lia. reflexivity.
Qed.

(* ------------------------------------------------------------------ *)
(* find_byte                                                           *)
(* ------------------------------------------------------------------ *)

Theorem find_byte_spec r b off : wf r -> 0 <= off -> find_byte r b off = find_from b (bytes_of r) off.
Proof.
  revert off.
  induction r as [bs|n|p IHp soff len|l IHl rr IHr t|u IHu c]; intros off H Hoff;
    cbn [find_byte wf bytes_of] in *.
  - reflexivity.
  - rewrite find_from_repeat0 by exact Hoff. rewrite Z2Nat.id by lia. reflexivity.
  - destruct H as (Hp & H0 & H1 & H2).
    rewrite IHp by (try exact Hp; lia).
    rewrite find_from_slice by (try rewrite <- rlen_bytes_of by exact Hp; lia).
    reflexivity.
  - destruct H as (Hl & Hr & Ht & Hb). cbv zeta.
    pose proof (wf_rlen_bound l Hl) as Bl.
    rewrite find_from_app by exact Hoff. rewrite <- rlen_bytes_of by exact Hl.
    destruct (Z.ltb_spec off (rlen l)) as [Hlt|Hge].
    + rewrite IHl by (try exact Hl; lia). rewrite IHr by (try exact Hr; lia). reflexivity.
    + rewrite IHr by (try exact Hr; lia). reflexivity.
  - destruct H as (Hu & Hc & Hl & Hb). cbv zeta.
    pose proof (rlen_bytes_of u Hu) as Lu.
    assert (Hmod : 0 <= off mod rlen u < rlen u) by (apply Z.mod_pos_bound; lia).
    rewrite !IHu by (try exact Hu; lia).
    rewrite find_from_tiled by lia. rewrite <- Lu. reflexivity.
Qed.

(* ------------------------------------------------------------------ *)
(* Smart constructors                                                  *)
(* ------------------------------------------------------------------ *)

Theorem mk_concat_wf l r : wf l -> wf r -> rlen l + rlen r <= MAX_BINARY_SIZE -> wf (mk_concat l r).
Proof.
  intros Hl Hr Hb. unfold mk_concat. cbn [wf]. repeat split; try assumption.
Qed.

Theorem mk_concat_bytes l r : bytes_of (mk_concat l r) = bytes_of l ++ bytes_of r.
Proof. reflexivity. Qed.

Theorem mk_slice_some p off len : wf p -> 0 <= off -> 0 <= len -> off + len <= rlen p ->
  exists s, mk_slice p off len = Some s /\ wf s /\
            bytes_of s = firstn (Z.to_nat len) (skipn (Z.to_nat off) (bytes_of p)).
Proof.
  intros Hp Hoff Hlen Hb. unfold mk_slice.
  destruct (Z.ltb_spec (rlen p) off) as [C1|C1]; [lia|].
  destruct (Z.ltb_spec (rlen p) (off + len)) as [C2|C2]; [lia|]. cbn [orb].
  destruct (Z.eqb_spec len 0) as [E0|N0].
  - exists (Owned []). split; [reflexivity|]. split.
    + cbn [wf length]. split; [constructor|]. unfold MAX_BINARY_SIZE. lia.
    + subst len. reflexivity.
  - destruct (Z.eqb_spec off 0) as [Eo|No]; [destruct (Z.eqb_spec len (rlen p)) as [El|Nl]|];
      cbn [andb].
    + exists p. split; [reflexivity|]. split; [exact Hp|].
      subst off. change (Z.to_nat 0) with 0%nat. cbn [skipn].
      rewrite firstn_all2; [reflexivity|]. pose proof (rlen_bytes_of p Hp). lia.
    + exists (Slice p off len). split; [reflexivity|]. split; [|reflexivity].
      cbn [wf]. repeat split; try assumption; lia.
    + exists (Slice p off len). split; [reflexivity|]. split; [|reflexivity].
      cbn [wf]. repeat split; try assumption; lia.
Qed.

Theorem mk_slice_none p off len : wf p -> 0 <= off -> 0 <= len -> rlen p < off + len -> mk_slice p off len = None.
Proof.
  intros Hp Hoff Hlen Hb. unfold mk_slice.
  destruct (Z.ltb_spec (rlen p) (off + len)) as [C2|C2]; [|lia].
  rewrite orb_true_r. reflexivity.
Qed.

Theorem mk_tiled_wf u c : wf u -> 0 <= c -> rlen u * c <= MAX_BINARY_SIZE -> wf (mk_tiled u c).
Proof.
  intros Hu Hc Hb. unfold mk_tiled. pose proof (wf_rlen_bound u Hu) as Bu.
  destruct (Z.eqb_spec c 0) as [E0|N0]; [|destruct (Z.eqb_spec (rlen u) 0) as [El|Nl]]; cbn [orb].
  - cbn [wf length]. split; [constructor|]. unfold MAX_BINARY_SIZE. lia.
  - cbn [wf length]. split; [constructor|]. unfold MAX_BINARY_SIZE. lia.
  - destruct (Z.eqb_spec c 1) as [E1|N1]; [exact Hu|].
    cbn [wf]. repeat split; try assumption; lia.
Qed.

Theorem mk_tiled_bytes u c : wf u -> 0 <= c -> bytes_of (mk_tiled u c) = concat (repeat (bytes_of u) (Z.to_nat c)).
Proof.
  intros Hu Hc. unfold mk_tiled. pose proof (rlen_bytes_of u Hu) as Lu.
  destruct (Z.eqb_spec c 0) as [E0|N0]; [|destruct (Z.eqb_spec (rlen u) 0) as [El|Nl]]; cbn [orb].
  - subst c. reflexivity.
  - assert (En : bytes_of u = []) by (apply length_zero_iff_nil; lia).
    rewrite En, concat_repeat_nil. reflexivity.
  - destruct (Z.eqb_spec c 1) as [E1|N1]; [|reflexivity].
    subst c. change (Z.to_nat 1) with 1%nat. cbn [repeat concat]. rewrite app_nil_r. reflexivity.
Qed.

(* ------------------------------------------------------------------ *)
(* Shape independence                                                  *)
(* ------------------------------------------------------------------ *)

(* anything computed through the rope interface depends only on the denotation *)
Theorem shape_independent r1 r2 : wf r1 -> wf r2 -> bytes_of r1 = bytes_of r2 ->
  rlen r1 = rlen r2 /\ (forall i, byte_at r1 i = byte_at r2 i) /\ rope_iter r1 = rope_iter r2 /\
  (forall b off, 0 <= off -> find_byte r1 b off = find_byte r2 b off) /\
  (forall off len, 0 <= off -> 0 <= len ->
     option_map bytes_of (mk_slice r1 off len) = option_map bytes_of (mk_slice r2 off len)) /\
  (forall c, 0 <= c -> bytes_of (mk_tiled r1 c) = bytes_of (mk_tiled r2 c)) /\
  (forall r3, bytes_of (mk_concat r1 r3) = bytes_of (mk_concat r2 r3) /\ bytes_of (mk_concat r3 r1) = bytes_of (mk_concat r3 r2)).
Proof.
  intros H1 H2 E.
  assert (El : rlen r1 = rlen r2).
  { rewrite (rlen_bytes_of r1 H1), (rlen_bytes_of r2 H2), E. reflexivity. }
  split; [exact El|].
  split; [intros i; rewrite !byte_at_spec by assumption; rewrite El, E; reflexivity|].
  split; [rewrite !rope_iter_spec by assumption; exact E|].
  split; [intros b off Hoff; rewrite !find_byte_spec by assumption; rewrite E; reflexivity|].
  split.
  { intros off len Hoff Hlen. destruct (Z_le_dec (off + len) (rlen r1)) as [Hin|Hout].
    - destruct (mk_slice_some r1 off len H1 Hoff Hlen Hin) as (s1 & -> & _ & B1).
      destruct (mk_slice_some r2 off len H2 Hoff Hlen) as (s2 & -> & _ & B2); [lia|].
      cbn [option_map]. rewrite B1, B2, E. reflexivity.
    - rewrite (mk_slice_none r1 off len) by (try assumption; lia).
      rewrite (mk_slice_none r2 off len) by (try assumption; lia). reflexivity. }
  split; [intros c Hc; rewrite !mk_tiled_bytes by assumption; rewrite E; reflexivity|].
  intros r3. rewrite !mk_concat_bytes, E. split; reflexivity.
Qed.

(* non-vacuity: a concrete rope using all five constructors is wf *)
Example wf_example : wf (Concat (Slice (Owned [1;2;3;4;5]) 1 3) (Tiled (Concat (Zeroed 2) (Owned [255]) 3) 4) 15).
Proof.
  cbn [wf rlen length]. unfold bytes_ok, MAX_BINARY_SIZE.
  repeat split; try lia; repeat constructor; lia.
Qed.
