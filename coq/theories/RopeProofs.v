(* RopeProofs.v — representation invariant of the rope model and its denotation theorems. *)
From Quiver Require Export Rope.
From Coq Require Import Lia.

Fixpoint wf (r : rope) : Prop :=
  match r with
  | Owned bs => bytes_ok bs /\ Z.of_nat (length bs) <= MAX_BINARY_SIZE
  | Zeroed n => 0 <= n <= MAX_BINARY_SIZE
  | Slice p off len => wf p /\ 0 <= off /\ 0 < len /\ off + len <= rlen p
  | Concat l rr t => wf l /\ wf rr /\ t = rlen l + rlen rr /\ t <= MAX_BINARY_SIZE
  | Tiled u c => wf u /\ 2 <= c /\ 0 < rlen u /\ rlen u * c <= MAX_BINARY_SIZE
  end.

(* first index >= off of b in l, as a plain list function *)
Definition find_from (b : Z) (l : list Z) (off : Z) : option Z :=
  if Z.of_nat (length l) <=? off then None
  else option_map (fun p => p + off) (list_find b (skipn (Z.to_nat off) l)).

(* ------------------------------------------------------------------ *)
(* Generic list helpers (nat-indexed)                                  *)
(* ------------------------------------------------------------------ *)

Lemma nth_error_firstn_lt {A} (l : list A) n i :
  (i < n)%nat -> nth_error (firstn n l) i = nth_error l i.
Proof.
  revert l i; induction n as [|n IH]; intros l i H; [lia|].
  destruct l as [|x l]; [destruct i; reflexivity|].
  destruct i as [|i]; simpl; [reflexivity|]. apply IH; lia.
Qed.

Lemma nth_error_firstn_ge {A} (l : list A) n i :
  (n <= i)%nat -> nth_error (firstn n l) i = None.
Proof.
  intros H. apply nth_error_None. pose proof (firstn_le_length n l). lia.
Qed.

Lemma nth_error_skipn_add {A} (l : list A) k i :
  nth_error (skipn k l) i = nth_error l (k + i).
Proof.
  revert l; induction k as [|k IH]; intros l; [reflexivity|].
  destruct l as [|x l]; simpl; [destruct i; reflexivity|apply IH].
Qed.

Lemma nth_error_repeat_lt {A} (x : A) n i :
  (i < n)%nat -> nth_error (repeat x n) i = Some x.
Proof.
  revert i; induction n as [|n IH]; intros i H; [lia|].
  destruct i as [|i]; simpl; [reflexivity|]. apply IH; lia.
Qed.

Lemma skipn_nth_cons {A} (l : list A) i x :
  nth_error l i = Some x -> skipn i l = x :: skipn (S i) l.
Proof.
  revert l; induction i as [|i IH]; intros l H; destruct l as [|y l]; try discriminate.
  - simpl in H. injection H as ->. reflexivity.
  - simpl in H. apply IH in H. exact H.
Qed.

Lemma Forall_firstn_keep {A} (P : A -> Prop) n l : Forall P l -> Forall P (firstn n l).
Proof.
  intros H; revert n; induction H; intros [|n]; simpl; constructor; auto.
Qed.

Lemma Forall_skipn_keep {A} (P : A -> Prop) n l : Forall P l -> Forall P (skipn n l).
Proof.
  intros H; revert n; induction H; intros [|n]; simpl; auto.
Qed.

Lemma Forall_repeat_intro {A} (P : A -> Prop) x n : P x -> Forall P (repeat x n).
Proof. intros H; induction n; simpl; constructor; auto. Qed.

Lemma Forall_concat_repeat {A} (P : A -> Prop) u n :
  Forall P u -> Forall P (concat (repeat u n)).
Proof.
  intros H; induction n as [|n IH]; simpl; [constructor|].
  apply Forall_app; split; assumption.
Qed.

(* concat (repeat u c) *)

Lemma length_concat_repeat {A} (u : list A) c :
  length (concat (repeat u c)) = (c * length u)%nat.
Proof.
  induction c as [|c IH]; simpl; [reflexivity|]. rewrite app_length, IH. reflexivity.
Qed.

Lemma concat_repeat_nil {A} c : concat (repeat (@nil A) c) = [].
Proof. induction c; simpl; auto. Qed.

Lemma nth_error_concat_repeat {A} (u : list A) c q o :
  (q < c)%nat -> (o < length u)%nat ->
  nth_error (concat (repeat u c)) (q * length u + o) = nth_error u o.
Proof.
  revert c; induction q as [|q IH]; intros c Hq Ho; (destruct c as [|c]; [lia|]);
    simpl repeat; simpl concat.
  - simpl. apply nth_error_app1; lia.
  - rewrite nth_error_app2 by (simpl; lia).
    replace (S q * length u + o - length u)%nat with (q * length u + o)%nat by (simpl; lia).
    apply IH; lia.
Qed.

Lemma skipn_concat_repeat {A} (u : list A) c q o :
  (q < c)%nat -> (o <= length u)%nat ->
  skipn (q * length u + o) (concat (repeat u c)) =
  skipn o u ++ concat (repeat u (c - q - 1)).
Proof.
  revert c; induction q as [|q IH]; intros c Hq Ho; (destruct c as [|c]; [lia|]);
    simpl repeat; simpl concat; rewrite skipn_app.
  - simpl. replace (o - length u)%nat with 0%nat by lia.
    rewrite Nat.sub_0_r. reflexivity.
  - rewrite (skipn_all2 u) by (simpl; lia).
    replace (S q * length u + o - length u)%nat with (q * length u + o)%nat by (simpl; lia).
    rewrite IH by lia. simpl. reflexivity.
Qed.

(* ------------------------------------------------------------------ *)
(* list_find                                                           *)
(* ------------------------------------------------------------------ *)

Lemma list_find_bound b l p : list_find b l = Some p -> 0 <= p < Z.of_nat (length l).
Proof.
  revert p; induction l as [|a l IH]; intros p H; cbn [list_find] in H; [discriminate|].
  cbn [length]. destruct (a =? b).
  - injection H as <-. lia.
  - destruct (list_find b l) as [p'|]; cbn [option_map] in H; [|discriminate].
    injection H as <-. specialize (IH p' eq_refl). lia.
Qed.

Lemma list_find_app b l1 l2 :
  list_find b (l1 ++ l2) =
  match list_find b l1 with
  | Some p => Some p
  | None => option_map (fun p => p + Z.of_nat (length l1)) (list_find b l2)
  end.
Proof.
  induction l1 as [|a l1 IH]; cbn [app list_find length].
  - destruct (list_find b l2); cbn [option_map]; [f_equal; lia|reflexivity].
  - destruct (a =? b); [reflexivity|]. rewrite IH.
    destruct (list_find b l1); cbn [option_map]; [reflexivity|].
    destruct (list_find b l2); cbn [option_map]; [f_equal; lia|reflexivity].
Qed.

Lemma list_find_firstn b n l :
  list_find b (firstn n l) =
  match list_find b l with
  | Some p => if p <? Z.of_nat n then Some p else None
  | None => None
  end.
Proof.
  revert l; induction n as [|n IH]; intros l.
  - cbn [firstn list_find]. destruct (list_find b l) as [p|] eqn:E; [|reflexivity].
    apply list_find_bound in E. destruct (Z.ltb_spec p (Z.of_nat 0)); [lia|reflexivity].
  - destruct l as [|a l]; cbn [firstn list_find]; [reflexivity|].
    destruct (a =? b).
    + destruct (Z.ltb_spec 0 (Z.of_nat (S n))); [reflexivity|lia].
    + rewrite IH. destruct (list_find b l) as [p|]; cbn [option_map]; [|reflexivity].
      destruct (Z.ltb_spec p (Z.of_nat n)); destruct (Z.ltb_spec (Z.succ p) (Z.of_nat (S n)));
        cbn [option_map]; try lia; reflexivity.
Qed.

Lemma list_find_repeat_ne b x n : (x =? b) = false -> list_find b (repeat x n) = None.
Proof.
  intros H; induction n as [|n IH]; cbn [repeat list_find]; [reflexivity|].
  rewrite H, IH. reflexivity.
Qed.

Lemma list_find_repeat_S b x n :
  list_find b (repeat x (S n)) = if x =? b then Some 0 else None.
Proof.
  cbn [repeat list_find]. destruct (x =? b) eqn:E; [reflexivity|].
  rewrite list_find_repeat_ne by exact E. reflexivity.
Qed.

Lemma list_find_concat_repeat_none b u k :
  list_find b u = None -> list_find b (concat (repeat u k)) = None.
Proof.
  intros H; induction k as [|k IH]; cbn [repeat concat]; [reflexivity|].
  rewrite list_find_app, H, IH. reflexivity.
Qed.

Lemma list_find_concat_repeat_some b u k p :
  list_find b u = Some p -> list_find b (concat (repeat u (S k))) = Some p.
Proof.
  intros H. cbn [repeat concat]. rewrite list_find_app, H. reflexivity.
Qed.

(* characterisation of list_find, so that find_from is visibly "the first index" *)
Lemma list_find_spec b l p : list_find b l = Some p <->
  (0 <= p /\ nth_error l (Z.to_nat p) = Some b /\ forall q, (q < Z.to_nat p)%nat -> nth_error l q <> Some b).
Proof.
  revert p; induction l as [|a l IH]; intros p; cbn [list_find].
  - split; [discriminate|]. intros (_ & H & _). destruct (Z.to_nat p); discriminate.
  - destruct (Z.eqb_spec a b) as [E|E].
    + split.
      * intros H; injection H as <-. split; [lia|]. split; [simpl; congruence|].
        intros q Hq. simpl in Hq. lia.
      * intros (Hp & Hn & Hq). destruct (Z.to_nat p) as [|n] eqn:En.
        -- f_equal. lia.
        -- exfalso. apply (Hq 0%nat); [lia|]. simpl. congruence.
    + split.
      * intros H. destruct (list_find b l) as [p'|] eqn:E'; cbn [option_map] in H; [|discriminate].
        injection H as <-. destruct (proj1 (IH p') eq_refl) as (Hp & Hn & Hq).
        rewrite Z2Nat.inj_succ by lia. split; [lia|]. split; [exact Hn|].
        intros [|q] Hlt; simpl; [congruence|]. apply Hq; lia.
      * intros (Hp & Hn & Hq). destruct (Z.to_nat p) as [|n] eqn:En.
        -- simpl in Hn. congruence.
        -- simpl in Hn.
           assert (Hrec : list_find b l = Some (p - 1)).
           { apply IH. replace (Z.to_nat (p - 1)) with n by lia.
             split; [lia|]. split; [exact Hn|].
             intros q Hlt. apply (Hq (S q)). lia. }
           rewrite Hrec. cbn [option_map]. f_equal. lia.
Qed.

Lemma list_find_none b l : list_find b l = None <-> ~ In b l.
Proof.
  induction l as [|a l IH]; cbn [list_find In].
  - split; auto.
  - destruct (Z.eqb_spec a b) as [E|E].
    + split; [discriminate|]. intros H; exfalso; apply H; left; exact E.
    + destruct (list_find b l); cbn [option_map].
      * split; [discriminate|]. intros H.
        assert (Hn : ~ In b l) by (intros Hi; apply H; right; exact Hi).
        apply IH in Hn. discriminate.
      * split; [|reflexivity]. intros _ [H|H]; [exact (E H)|]. revert H. apply IH. reflexivity.
Qed.
