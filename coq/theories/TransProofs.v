(* TransProofs.v — transitivity of is_compatible on the cycle-free fragment.

   `subref` is a reference relation: the ALL-mode arms of check_type_relation without assumptions
   and stacks, by recursion on fuel.  Under `topo` (children have smaller ids) its value does not
   depend on the fuel once fuel > s + p (`subref_fuel`), which gives the canonical `R s p`.
   `check_exact` (in TransCheck.v) shows that check_rel computes exactly R on the fragment;
   `R_trans` shows R transitive by induction on a + b + c. *)
From Quiver Require Import Base Types Rel Sem SemProofs RelProofs.
From Coq Require Import Arith Lia.
Close Scope Z_scope.
Open Scope nat_scope.

Lemma forallb_ext_in {A} (f g : A -> bool) l : (forall x, In x l -> f x = g x) -> forallb f l = forallb g l.
Proof.
  induction l as [|a l IH]; intros H; cbn; [reflexivity|].
  rewrite (H a (or_introl eq_refl)), IH; [reflexivity|]. intros x Hx. apply H. right; exact Hx.
Qed.

Lemma existsb_ext_in {A} (f g : A -> bool) l : (forall x, In x l -> f x = g x) -> existsb f l = existsb g l.
Proof.
  induction l as [|a l IH]; intros H; cbn; [reflexivity|].
  rewrite (H a (or_introl eq_refl)), IH; [reflexivity|]. intros x Hx. apply H. right; exact Hx.
Qed.

(* zip(fields1, fields2).all(|..| label1 == label2 && r(t1, t2)) *)
Fixpoint fields_ref (r : nat -> nat -> bool) (f1 f2 : list (option nat * nat)) : bool :=
  match f1, f2 with
  | (n1, t1) :: f1', (n2, t2) :: f2' => opt_eqb n1 n2 && r t1 t2 && fields_ref r f1' f2'
  | _, _ => true
  end.

Lemma fields_ref_ext_in (r1 r2 : nat -> nat -> bool) f1 f2 :
  (forall a b, In a f1 -> In b f2 -> r1 (snd a) (snd b) = r2 (snd a) (snd b)) ->
  fields_ref r1 f1 f2 = fields_ref r2 f1 f2.
Proof.
  revert f2. induction f1 as [|[n1 t1] f1 IH]; intros [|[n2 t2] f2] H; cbn; try reflexivity.
  pose proof (H (n1, t1) (n2, t2) (or_introl eq_refl) (or_introl eq_refl)) as H0. cbn in H0. rewrite H0.
  rewrite IH; [reflexivity|]. intros a b Ha Hb. apply H; right; assumption.
Qed.

Section Ref.
  Variable P : registry.

  Definition tuple_partial_ref (r : nat -> nat -> bool) (cfields : list (option nat * nat)) (pfields : list (nat * nat)) : bool :=
    forallb (fun pf => existsb (fun cf => opt_eqb (fst cf) (Some (fst pf)) && r (snd cf) (snd pf)) cfields) pfields.
  Definition partial_partial_ref (r : nat -> nat -> bool) (fields1 fields2 : list (nat * nat)) : bool :=
    forallb (fun f2 => existsb (fun f1 => Nat.eqb (fst f1) (fst f2) && r (snd f1) (snd f2)) fields1) fields2.

  (* one unfolding, given the recursive call r *)
  Definition subref_step (r : nat -> nat -> bool) (s p : nat) : bool :=
    if Nat.eqb s p then true else
    match lookup_type P s, lookup_type P p with
    | Some ts, Some tp =>
      match ts, tp with
      | TUnion [], _ => true
      | TInteger, TInteger => true
      | TBinary, TBinary => true
      | TReference, TReference => true
      | TResource r1, TResource r2 => Nat.eqb r1 r2
      | TUnion vs, _ => forallb (fun v => r v p) vs
      | _, TUnion ws => existsb (fun w => r s w) ws
      | TTuple id1, TTuple id2 =>
        if Nat.eqb id1 id2 then true else
        match lookup_tuple P id1, lookup_tuple P id2 with
        | Some i1, Some i2 =>
          opt_eqb (tname i1) (tname i2) && Nat.eqb (length (tfields i1)) (length (tfields i2))
          && fields_ref r (tfields i1) (tfields i2)
        | _, _ => false
        end
      | TTuple cid, TPartial pn pf =>
        match lookup_tuple P cid with
        | Some ci =>
          (match pn with Some x => opt_eqb (tname ci) (Some x) | None => true end)
          && tuple_partial_ref r (tfields ci) pf
        | None => false
        end
      | TPartial n1 f1, TPartial n2 f2 =>
        negb (match n2 with Some _ => negb (opt_eqb n1 n2) | None => false end)
        && partial_partial_ref r f1 f2
      | TProcess (Some s1) (Some r1), TProcess (Some s2) (Some r2) => r s1 s2 && r r1 r2
      | TCallable p1 r1 c1, TCallable p2 r2 c2 => r p2 p1 && r r1 r2 && r c2 c1
      | _, _ => false
      end
    | _, _ => false
    end.

  Fixpoint subref (fuel : nat) (s p : nat) : bool :=
    match fuel with
    | 0 => false
    | S f => subref_step (subref f) s p
    end.

  (* canonical fuel *)
  Definition R (s p : nat) : bool := subref (S (s + p)) s p.

  Hypothesis Htopo : topo P.
  Notation CF := (CF P true).

  Lemma child_lt s t c : lookup_type P s = Some t -> In c (children P t) -> c < s.
  Proof. intros Hl Hc. exact (Htopo s t Hl c Hc). Qed.

  Lemma tuple_child_lt s tid info f :
    lookup_type P s = Some (TTuple tid) -> lookup_tuple P tid = Some info -> In f (tfields info) -> snd f < s.
  Proof. intros Hl Ht Hin. apply (child_lt s _ _ Hl). cbn. rewrite Ht. apply in_map. exact Hin. Qed.

  Lemma partial_child_lt s n fs f : lookup_type P s = Some (TPartial n fs) -> In f fs -> snd f < s.
  Proof. intros Hl Hin. apply (child_lt s _ _ Hl). cbn. apply in_map. exact Hin. Qed.

  (* the step only looks at r on pairs of strictly smaller measure *)
  Lemma subref_step_ext (r1 r2 : nat -> nat -> bool) s p :
    CF s -> CF p ->
    (forall s' p', s' + p' < s + p -> CF s' -> CF p' -> r1 s' p' = r2 s' p') ->
    subref_step r1 s p = subref_step r2 s p.
  Proof.
    intros Hs Hp Hr. unfold subref_step. destruct (Nat.eqb s p); [reflexivity|].
    inversion Hs as [? Hls|? Hls|? Hls|? ? Hls|? vs Hls Hvs|? tid1 info1 Hls Hlt1 Hfs1|? pn1 pf1 Hls Hnm1 Hpf1
                     |? p1 r1' c1 Hls Hcp1 Hcr1 Hcc1|? s1 r1' Hls Hcs1 Hcr1]; subst;
    inversion Hp as [? Hlp|? Hlp|? Hlp|? ? Hlp|? ws Hlp Hws|? tid2 info2 Hlp Hlt2 Hfs2|? pn2 pf2 Hlp Hnm2 Hpf2
                     |? p2 r2' c2 Hlp Hcp2 Hcr2 Hcc2|? s2 r2' Hlp Hcs2 Hcr2]; subst;
    rewrite Hls, Hlp; try reflexivity;
    try (destruct vs as [|v0 vs]; [reflexivity|]);
    (* union on the left *)
    try (apply forallb_ext_in; intros v Hv; apply Hr; [pose proof (child_lt _ _ v Hls Hv); lia|apply Hvs; exact Hv|exact Hp]; fail);
    (* union on the right *)
    try (apply existsb_ext_in; intros w Hw; apply Hr; [pose proof (child_lt _ _ w Hlp Hw); lia|exact Hs|apply Hws; exact Hw]; fail).
    - (* tuple / tuple *)
      destruct (Nat.eqb tid1 tid2); [reflexivity|]. rewrite Hlt1, Hlt2. f_equal.
      apply fields_ref_ext_in. intros a b Ha Hb. apply Hr; [|apply Hfs1; exact Ha|apply Hfs2; exact Hb].
      pose proof (tuple_child_lt _ _ _ _ Hls Hlt1 Ha). pose proof (tuple_child_lt _ _ _ _ Hlp Hlt2 Hb). lia.
    - (* tuple / partial *)
      rewrite Hlt1. f_equal. unfold tuple_partial_ref. apply forallb_ext_in. intros pf Hpf.
      apply existsb_ext_in. intros cf Hcf. f_equal. apply Hr; [|apply Hfs1; exact Hcf|apply Hpf2; exact Hpf].
      pose proof (tuple_child_lt _ _ _ _ Hls Hlt1 Hcf). pose proof (partial_child_lt _ _ _ _ Hlp Hpf). lia.
    - (* partial / partial *)
      f_equal. unfold partial_partial_ref. apply forallb_ext_in. intros f2 Hf2.
      apply existsb_ext_in. intros f1 Hf1. f_equal. apply Hr; [|apply Hpf1; exact Hf1|apply Hpf2; exact Hf2].
      pose proof (partial_child_lt _ _ _ _ Hls Hf1). pose proof (partial_child_lt _ _ _ _ Hlp Hf2). lia.
    - (* callable / callable *)
      assert (p1 < s /\ r1' < s /\ c1 < s) as (? & ? & ?) by (repeat split; apply (child_lt _ _ _ Hls); cbn; auto).
      assert (p2 < p /\ r2' < p /\ c2 < p) as (? & ? & ?) by (repeat split; apply (child_lt _ _ _ Hlp); cbn; auto).
      rewrite (Hr p2 p1), (Hr r1' r2'), (Hr c2 c1); try assumption; try lia. reflexivity.
    - (* process / process *)
      assert (s1 < s /\ r1' < s) as (? & ?) by (split; apply (child_lt _ _ _ Hls); cbn; auto).
      assert (s2 < p /\ r2' < p) as (? & ?) by (split; apply (child_lt _ _ _ Hlp); cbn; auto).
      rewrite (Hr s1 s2), (Hr r1' r2'); try assumption; try lia. reflexivity.
  Qed.

  Lemma subref_fuel : forall f1 f2 s p, s + p < f1 -> s + p < f2 -> CF s -> CF p -> subref f1 s p = subref f2 s p.
  Proof.
    induction f1 as [|f1 IH]; intros f2 s p H1 H2 Hs Hp; [lia|]. destruct f2 as [|f2]; [lia|]. cbn [subref].
    apply subref_step_ext; [exact Hs|exact Hp|]. intros s' p' Hlt Hs' Hp'. apply IH; [lia|lia|exact Hs'|exact Hp'].
  Qed.

  Lemma R_unfold s p : CF s -> CF p -> R s p = subref_step R s p.
  Proof.
    intros Hs Hp. unfold R at 1. cbn [subref]. apply subref_step_ext; [exact Hs|exact Hp|].
    intros s' p' Hlt Hs' Hp'. unfold R. apply subref_fuel; [lia|lia|exact Hs'|exact Hp'].
  Qed.

  Lemma R_refl s : R s s = true.
  Proof. unfold R. cbn [subref]. unfold subref_step. rewrite Nat.eqb_refl. reflexivity. Qed.
End Ref.

(* ---------------------------------------------------------------- transitivity of R *)
Lemma opt_eqb_refl o : opt_eqb o o = true.
Proof. destruct o; cbn; [apply Nat.eqb_refl|reflexivity]. Qed.

Arguments R : simpl never.

Section Trans.
  Variable P : registry.
  Hypothesis Htopo : topo P.
  (* the type table holds no duplicate entry (what register_type's dedup maintains) *)
  Hypothesis Hnodup : forall x y t, lookup_type P x = Some t -> lookup_type P y = Some t -> x = y.
  Notation CF := (CF P true).
  Notation R := (R P).

  Lemma R_union_left a vs c : CF a -> CF c -> a <> c -> lookup_type P a = Some (TUnion vs) ->
    R a c = forallb (fun v => R v c) vs.
  Proof.
    intros Ha Hc Hne Hl. rewrite (R_unfold P Htopo a c Ha Hc). unfold subref_step.
    apply Nat.eqb_neq in Hne. rewrite Hne, Hl.
    inversion Hc as [? Hlc|? Hlc|? Hlc|? ? Hlc|? ws Hlc _|? tid info Hlc _ _|? pn pf Hlc _ _|? p1 r1 c1 Hlc _ _ _|? s1 r1 Hlc _ _]; subst;
      rewrite Hlc; destruct vs; reflexivity.
  Qed.

  Definition is_union_ty (t : ty) : bool := match t with TUnion _ => true | _ => false end.

  Lemma R_union_right a ta ws c : CF a -> CF c -> a <> c -> lookup_type P a = Some ta -> is_union_ty ta = false ->
    lookup_type P c = Some (TUnion ws) -> R a c = existsb (fun w => R a w) ws.
  Proof.
    intros Ha Hc Hne Hl Hnu Hlc. rewrite (R_unfold P Htopo a c Ha Hc). unfold subref_step.
    apply Nat.eqb_neq in Hne. rewrite Hne, Hl, Hlc.
    inversion Ha as [? Hla|? Hla|? Hla|? ? Hla|? vs Hla _|? tid info Hla _ _|? pn pf Hla _ _|? p1 r1 c1 Hla _ _ _|? s1 r1 Hla _ _]; subst;
      rewrite Hl in Hla; inversion Hla; subst; try discriminate; reflexivity.
  Qed.

  Lemma fields_ref_trans f1 : forall f2 f3,
    length f1 = length f2 ->
    (forall x y z, In x f1 -> In y f2 -> In z f3 -> R (snd x) (snd y) = true -> R (snd y) (snd z) = true -> R (snd x) (snd z) = true) ->
    fields_ref R f1 f2 = true -> fields_ref R f2 f3 = true -> fields_ref R f1 f3 = true.
  Proof.
    induction f1 as [|[n1 t1] f1 IH]; intros [|[n2 t2] f2] [|[n3 t3] f3] Hlen Htr H12 H23; cbn in *; try reflexivity; try discriminate.
    apply andb_true_iff in H12. destruct H12 as [H12 H12']. apply andb_true_iff in H12. destruct H12 as [Hn12 Hr12].
    apply andb_true_iff in H23. destruct H23 as [H23 H23']. apply andb_true_iff in H23. destruct H23 as [Hn23 Hr23].
    apply opt_eqb_eq in Hn12. apply opt_eqb_eq in Hn23. subst.
    rewrite opt_eqb_refl.
    pose proof (Htr (n3, t1) (n3, t2) (n3, t3) (or_introl eq_refl) (or_introl eq_refl) (or_introl eq_refl) Hr12 Hr23) as H13.
    cbn [snd] in H13. rewrite H13. cbn.
    apply (IH f2 f3); [lia| |assumption|assumption].
    intros x y z Hx Hy Hz. apply Htr; right; assumption.
  Qed.

  Lemma fields_ref_In f1 : forall f2 y, length f1 = length f2 -> fields_ref R f1 f2 = true -> In y f2 ->
    exists x, In x f1 /\ fst x = fst y /\ R (snd x) (snd y) = true.
  Proof.
    induction f1 as [|[n1 t1] f1 IH]; intros [|[n2 t2] f2] y Hlen H Hin; cbn in *; try discriminate; [destruct Hin|].
    apply andb_true_iff in H. destruct H as [H H']. apply andb_true_iff in H. destruct H as [Hn Hr].
    apply opt_eqb_eq in Hn. subst. destruct Hin as [<-|Hin].
    - exists (n2, t1). cbn. auto.
    - destruct (IH f2 y ltac:(lia) H' Hin) as [x [Hx Hrest]]. exists x. split; [right; exact Hx|exact Hrest].
  Qed.

  Lemma tuple_partial_from_tuple fa fb pf :
    length fa = length fb -> fields_ref R fa fb = true -> tuple_partial_ref R fb pf = true ->
    (forall x y z, In x fa -> In y fb -> In z pf -> R (snd x) (snd y) = true -> R (snd y) (snd z) = true -> R (snd x) (snd z) = true) ->
    tuple_partial_ref R fa pf = true.
  Proof.
    intros Hlen Hab Hbp Htr. unfold tuple_partial_ref in *. rewrite forallb_forall in *. intros z Hz.
    specialize (Hbp z Hz). rewrite existsb_exists in *. destruct Hbp as [y [Hy Hyz]].
    apply andb_true_iff in Hyz. destruct Hyz as [Hl Hr].
    destruct (fields_ref_In fa fb y Hlen Hab Hy) as [x [Hx [Hfst Hxy]]].
    exists x. split; [exact Hx|]. rewrite Hfst, Hl. cbn. eapply Htr; eassumption.
  Qed.

  Lemma tuple_partial_partial fa pfb pfc :
    tuple_partial_ref R fa pfb = true -> partial_partial_ref R pfb pfc = true ->
    (forall x y z, In x fa -> In y pfb -> In z pfc -> R (snd x) (snd y) = true -> R (snd y) (snd z) = true -> R (snd x) (snd z) = true) ->
    tuple_partial_ref R fa pfc = true.
  Proof.
    intros Hab Hbc Htr. unfold tuple_partial_ref, partial_partial_ref in *. rewrite forallb_forall in *. intros z Hz.
    specialize (Hbc z Hz). rewrite existsb_exists in Hbc. destruct Hbc as [y [Hy Hyz]].
    apply andb_true_iff in Hyz. destruct Hyz as [Hl Hr]. apply Nat.eqb_eq in Hl.
    specialize (Hab y Hy). rewrite existsb_exists in *. destruct Hab as [x [Hx Hxy]].
    apply andb_true_iff in Hxy. destruct Hxy as [Hlx Hrx].
    exists x. split; [exact Hx|]. rewrite <- Hl, Hlx. cbn. eapply Htr; eassumption.
  Qed.

  Lemma partial_partial_trans pfa pfb pfc :
    partial_partial_ref R pfa pfb = true -> partial_partial_ref R pfb pfc = true ->
    (forall x y z, In x pfa -> In y pfb -> In z pfc -> R (snd x) (snd y) = true -> R (snd y) (snd z) = true -> R (snd x) (snd z) = true) ->
    partial_partial_ref R pfa pfc = true.
  Proof.
    intros Hab Hbc Htr. unfold partial_partial_ref in *. rewrite forallb_forall in *. intros z Hz.
    specialize (Hbc z Hz). rewrite existsb_exists in Hbc. destruct Hbc as [y [Hy Hyz]].
    apply andb_true_iff in Hyz. destruct Hyz as [Hl Hr]. apply Nat.eqb_eq in Hl.
    specialize (Hab y Hy). rewrite existsb_exists in *. destruct Hab as [x [Hx Hxy]].
    apply andb_true_iff in Hxy. destruct Hxy as [Hlx Hrx]. apply Nat.eqb_eq in Hlx.
    exists x. split; [exact Hx|]. rewrite Hlx, Hl, Nat.eqb_refl. cbn. eapply Htr; eassumption.
  Qed.

  Theorem R_trans : forall n a b c, a + b + c < n -> CF a -> CF b -> CF c ->
    R a b = true -> R b c = true -> R a c = true.
  Proof.
    induction n as [|n IHn]; intros a b c Hn Ha Hb Hc Hab Hbc; [lia|].
    destruct (Nat.eq_dec a c) as [->|Hac]; [apply R_refl|].
    destruct (Nat.eq_dec a b) as [->|Hne1]; [exact Hbc|].
    destruct (Nat.eq_dec b c) as [->|Hne2]; [exact Hab|].
    assert (IH : forall a' b' c', a' + b' + c' < a + b + c -> CF a' -> CF b' -> CF c' ->
                 R a' b' = true -> R b' c' = true -> R a' c' = true).
    { intros a' b' c' Hlt. apply IHn. lia. }
    clear IHn.
    inversion Ha as [? Hla|? Hla|? Hla|? ? Hla|? vsa Hla Hvsa|? tida infoa Hla Hlta Hfsa|? pna pfa Hla Hnma Hpfa
                     |? pa ra ca Hla Hcpa Hcra Hcca|? sa ra Hla Hcsa Hcra]; subst.
    5: { (* a is a union *)
      rewrite (R_union_left a vsa b Ha Hb Hne1 Hla) in Hab. rewrite (R_union_left a vsa c Ha Hc Hac Hla).
      rewrite forallb_forall in *. intros v Hv. apply (IH v b c); auto.
      pose proof (child_lt P Htopo a _ v Hla Hv). lia. }
    all: inversion Hb as [? Hlb|? Hlb|? Hlb|? ? Hlb|? vsb Hlb Hvsb|? tidb infob Hlb Hltb Hfsb|? pnb pfb Hlb Hnmb Hpfb
                          |? pb rb cb Hlb Hcpb Hcrb Hccb|? sb rb Hlb Hcsb Hcrb]; subst.
    all: try ((* b is a union *)
              rewrite (R_union_right a _ vsb b Ha Hb Hne1 Hla eq_refl Hlb) in Hab;
              rewrite (R_union_left b vsb c Hb Hc Hne2 Hlb) in Hbc;
              rewrite existsb_exists in Hab; destruct Hab as [w [Hw Haw]];
              rewrite forallb_forall in Hbc;
              apply (IH a w c); auto; pose proof (child_lt P Htopo b _ w Hlb Hw); lia).
    all: inversion Hc as [? Hlc|? Hlc|? Hlc|? ? Hlc|? vsc Hlc Hvsc|? tidc infoc Hlc Hltc Hfsc|? pnc pfc Hlc Hnmc Hpfc
                          |? pc rc cc Hlc Hcpc Hcrc Hccc|? sc rc Hlc Hcsc Hcrc]; subst.
    all: try ((* c is a union *)
              rewrite (R_union_right b _ vsc c Hb Hc Hne2 Hlb eq_refl Hlc) in Hbc;
              rewrite (R_union_right a _ vsc c Ha Hc Hac Hla eq_refl Hlc);
              rewrite existsb_exists in *; destruct Hbc as [w [Hw Hbw]];
              exists w; split; [exact Hw|]; apply (IH a b w); auto; pose proof (child_lt P Htopo c _ w Hlc Hw); lia).
    (* no union left: unfold all three *)
    all: rewrite (R_unfold P Htopo a b Ha Hb) in Hab; rewrite (R_unfold P Htopo b c Hb Hc) in Hbc;
         rewrite (R_unfold P Htopo a c Ha Hc); unfold subref_step in *;
         rewrite (proj2 (Nat.eqb_neq a b) Hne1) in Hab; rewrite (proj2 (Nat.eqb_neq b c) Hne2) in Hbc;
         rewrite (proj2 (Nat.eqb_neq a c) Hac);
         rewrite Hla, Hlb in Hab; rewrite Hlb, Hlc in Hbc; rewrite Hla, Hlc;
         try discriminate; try reflexivity.
    - (* resources *)
      apply Nat.eqb_eq in Hab. apply Nat.eqb_eq in Hbc. apply Nat.eqb_eq. congruence.
    - (* tuple / tuple / tuple *)
      destruct (tida =? tidb) eqn:E1; [apply Nat.eqb_eq in E1; subst; exfalso; apply Hne1; eapply Hnodup; eassumption|].
      destruct (tidb =? tidc) eqn:E2; [apply Nat.eqb_eq in E2; subst; exfalso; apply Hne2; eapply Hnodup; eassumption|].
      destruct (tida =? tidc) eqn:E3; [reflexivity|].
      rewrite Hlta, Hltb in Hab. rewrite Hltb, Hltc in Hbc. rewrite Hlta, Hltc.
      apply andb_true_iff in Hab. destruct Hab as [Hab Hfab]. apply andb_true_iff in Hab. destruct Hab as [Hnab Hlab].
      apply andb_true_iff in Hbc. destruct Hbc as [Hbc Hfbc]. apply andb_true_iff in Hbc. destruct Hbc as [Hnbc Hlbc].
      apply opt_eqb_eq in Hnab. apply opt_eqb_eq in Hnbc. apply Nat.eqb_eq in Hlab. apply Nat.eqb_eq in Hlbc.
      rewrite Hnab, Hnbc, opt_eqb_refl, Hlab, Hlbc, Nat.eqb_refl. cbn.
      apply (fields_ref_trans (tfields infoa) (tfields infob) (tfields infoc) Hlab); [|assumption|assumption].
      intros x y z Hx Hy Hz. apply IH; auto.
      pose proof (tuple_child_lt P Htopo _ _ _ _ Hla Hlta Hx). pose proof (tuple_child_lt P Htopo _ _ _ _ Hlb Hltb Hy).
      pose proof (tuple_child_lt P Htopo _ _ _ _ Hlc Hltc Hz). lia.
    - (* tuple / tuple / partial *)
      destruct (tida =? tidb) eqn:E1; [apply Nat.eqb_eq in E1; subst; exfalso; apply Hne1; eapply Hnodup; eassumption|].
      rewrite Hlta, Hltb in Hab. rewrite Hltb in Hbc. rewrite Hlta.
      apply andb_true_iff in Hab. destruct Hab as [Hab Hfab]. apply andb_true_iff in Hab. destruct Hab as [Hnab Hlab].
      apply andb_true_iff in Hbc. destruct Hbc as [Hnbc Hfbc].
      apply opt_eqb_eq in Hnab. apply Nat.eqb_eq in Hlab. rewrite Hnab, Hnbc. cbn.
      apply (tuple_partial_from_tuple (tfields infoa) (tfields infob) pfc Hlab Hfab Hfbc).
      intros x y z Hx Hy Hz. apply IH; auto.
      pose proof (tuple_child_lt P Htopo _ _ _ _ Hla Hlta Hx). pose proof (tuple_child_lt P Htopo _ _ _ _ Hlb Hltb Hy).
      pose proof (partial_child_lt P Htopo _ _ _ _ Hlc Hz). lia.
    - (* tuple / partial / partial *)
      rewrite Hlta in Hab. rewrite Hlta.
      apply andb_true_iff in Hab. destruct Hab as [Hnab Hfab].
      apply andb_true_iff in Hbc. destruct Hbc as [Hnbc Hfbc].
      apply andb_true_iff. split.
      + destruct pnc as [x|]; [|reflexivity]. apply negb_true_iff in Hnbc. apply negb_false_iff in Hnbc.
        apply opt_eqb_eq in Hnbc. subst pnb. exact Hnab.
      + apply (tuple_partial_partial (tfields infoa) pfb pfc Hfab Hfbc).
        intros x y z Hx Hy Hz. apply IH; auto.
        pose proof (tuple_child_lt P Htopo _ _ _ _ Hla Hlta Hx). pose proof (partial_child_lt P Htopo _ _ _ _ Hlb Hy).
        pose proof (partial_child_lt P Htopo _ _ _ _ Hlc Hz). lia.
    - (* partial / partial / partial *)
      apply andb_true_iff in Hab. destruct Hab as [Hnab Hfab].
      apply andb_true_iff in Hbc. destruct Hbc as [Hnbc Hfbc].
      apply andb_true_iff. split.
      + destruct pnc as [x|]; [|reflexivity]. apply negb_true_iff in Hnbc. apply negb_false_iff in Hnbc.
        apply opt_eqb_eq in Hnbc. subst pnb. exact Hnab.
      + apply (partial_partial_trans pfa pfb pfc Hfab Hfbc).
        intros x y z Hx Hy Hz. apply IH; auto.
        pose proof (partial_child_lt P Htopo _ _ _ _ Hla Hx). pose proof (partial_child_lt P Htopo _ _ _ _ Hlb Hy).
        pose proof (partial_child_lt P Htopo _ _ _ _ Hlc Hz). lia.
    - (* callable / callable / callable *)
      assert (pa < a /\ ra < a /\ ca < a) as (? & ? & ?) by (repeat split; apply (child_lt P Htopo _ _ _ Hla); cbn; auto).
      assert (pb < b /\ rb < b /\ cb < b) as (? & ? & ?) by (repeat split; apply (child_lt P Htopo _ _ _ Hlb); cbn; auto).
      assert (pc < c /\ rc < c /\ cc < c) as (? & ? & ?) by (repeat split; apply (child_lt P Htopo _ _ _ Hlc); cbn; auto).
      apply andb_true_iff in Hab. destruct Hab as [Hab Hq3]. apply andb_true_iff in Hab. destruct Hab as [Hq1 Hq2].
      apply andb_true_iff in Hbc. destruct Hbc as [Hbc Hq6]. apply andb_true_iff in Hbc. destruct Hbc as [Hq4 Hq5].
      rewrite (IH pc pb pa), (IH ra rb rc), (IH cc cb ca); auto; lia.
    - (* process / process / process *)
      assert (sa < a /\ ra < a) as (? & ?) by (split; apply (child_lt P Htopo _ _ _ Hla); cbn; auto).
      assert (sb < b /\ rb < b) as (? & ?) by (split; apply (child_lt P Htopo _ _ _ Hlb); cbn; auto).
      assert (sc < c /\ rc < c) as (? & ?) by (split; apply (child_lt P Htopo _ _ _ Hlc); cbn; auto).
      apply andb_true_iff in Hab. destruct Hab as [Hq1 Hq2].
      apply andb_true_iff in Hbc. destruct Hbc as [Hq4 Hq5].
      rewrite (IH sa sb sc), (IH ra rb rc); auto; lia.
  Qed.
End Trans.
