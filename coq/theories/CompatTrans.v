(* CompatTrans.v — istype_complete without the transitivity hypothesis, on the fragment where
   transitivity of is_compatible is proved (TransThm.compat_trans_cf).  The types are read in the
   table the runtime tables are computed on (Compat.ci_xreg: the program's types extended with the
   process types of fix 5eb967d); the pattern is one of the program's own types. *)
From Quiver Require Import Base Types Rel Sem RelProofs Compat CompatProofs TransCheck TransThm.
From Coq Require Import Arith Lia.
Close Scope Z_scope.
Open Scope nat_scope.

Theorem istype_complete_cf : forall cfg fuel I c t tau S,
  cfg_retract cfg = true -> cfg_partial_name cfg = true ->
  trans_domain (ci_xreg I) tau = true -> trans_domain (ci_xreg I) S = true -> trans_domain (ci_xreg I) t = true ->
  tau + S < fuel -> S + t < fuel -> tau + t < fuel ->
  t < length (types (ci_reg I)) -> is_pattern I t = true ->
  type_of_tag I c = Some tau ->
  is_compatible_with cfg fuel (ci_xreg I) tau S = Some true ->
  is_compatible_with cfg fuel (ci_xreg I) S t = Some true ->
  check_type_compatible (compute_type_compatibility cfg fuel I) c t = true.
Proof.
  intros cfg fuel I c t tau S Hret Hpn D1 D2 D3 F1 F2 F3 Hlt Hpat Htag H1 H2.
  eapply istype_complete; try eassumption.
  intros _ _. exact (compat_trans_cf cfg (ci_xreg I) fuel tau S t Hret Hpn D1 D2 D3 F1 F2 F3 H1 H2).
Qed.
