(* CompatTrans.v — istype_complete without the transitivity hypothesis, on the fragment where
   transitivity of is_compatible is proved (TransThm.compat_trans_cf). *)
From Quiver Require Import Base Types Rel Sem RelProofs Compat CompatProofs TransCheck TransThm.
From Coq Require Import Arith Lia.
Close Scope Z_scope.
Open Scope nat_scope.

Theorem istype_complete_cf : forall cfg fuel I c t tau S,
  cfg_retract cfg = true -> cfg_partial_name cfg = true ->
  trans_domain (ci_reg I) tau = true -> trans_domain (ci_reg I) S = true -> trans_domain (ci_reg I) t = true ->
  tau + S < fuel -> S + t < fuel -> tau + t < fuel ->
  is_pattern I t = true ->
  type_of_tag I c = Some tau ->
  is_compatible_with cfg fuel (ci_reg I) tau S = Some true ->
  is_compatible_with cfg fuel (ci_reg I) S t = Some true ->
  check_type_compatible (compute_type_compatibility cfg fuel I) c t = true.
Proof.
  intros cfg fuel I c t tau S Hret Hpn D1 D2 D3 F1 F2 F3 Hpat Htag H1 H2.
  eapply istype_complete; try eassumption.
  - (* t is a registered id: it is in the domain *)
    unfold trans_domain in D3. apply andb_true_iff in D3. destruct D3 as [_ D3].
    remember (length (types (ci_reg I))) as k eqn:Hk. cbn [cfb] in D3.
    destruct (lookup_type (ci_reg I) t) as [ty0|] eqn:Hl.
    + rewrite Hk. apply nth_error_Some.
      intro Hc.
      unfold lookup_type in Hl.
      rewrite Hc in Hl.
      discriminate Hl.
    + discriminate D3.
  - intros _ _. exact (compat_trans_cf cfg (ci_reg I) fuel tau S t Hret Hpn D1 D2 D3 F1 F2 F3 H1 H2).
Qed.
