(* CompatProofs.v — the runtime type-test tables (Compat.v) are exactly the relation
   "the tag's type is assignable to the pattern" (table_is_relation), with the tag's type given by
   the FIRST matching entry of the type table (first-occurrence rule); consequences for IsType
   (sound relative to C09's compat_sound, complete under explicit hypotheses) and for the
   parameter tables (permissive only when absent). *)
From Quiver Require Import Base Types Rel Sem SemProofs RelProofs TypesProofs Compat.
From Coq Require Import Arith Lia.
Close Scope Z_scope.
Open Scope nat_scope.

(* ---------------------------------------------------------------- list / map helpers *)
Lemma position_snoc {A} (pred : A -> bool) l x :
  position pred (l ++ [x]) =
  match position pred l with
  | Some i => Some i
  | None => if pred x then Some (length l) else None
  end.
Proof.
  induction l as [|a l IH]; cbn.
  - destruct (pred x); reflexivity.
  - destruct (pred a); [reflexivity|]. rewrite IH. destruct (position pred l); cbn; [reflexivity|].
    destruct (pred x); reflexivity.
Qed.

Lemma pair_eqb_eq a b : pair_eqb a b = true <-> a = b.
Proof.
  destruct a, b. unfold pair_eqb. cbn. rewrite andb_true_iff, !Nat.eqb_eq. split; [intros [-> ->]; reflexivity|intros H; inversion H; auto].
Qed.

Lemma opt_eqb_iff a b : opt_eqb a b = true <-> a = b.
Proof.
  split; [apply opt_eqb_true|]. intros ->. destruct b; cbn; [apply Nat.eqb_refl|reflexivity].
Qed.

Lemma opair_eqb_eq a b : opair_eqb a b = true <-> a = b.
Proof.
  destruct a, b. unfold opair_eqb. cbn. rewrite andb_true_iff, !opt_eqb_iff. split; [intros [-> ->]; reflexivity|intros H; inversion H; auto].
Qed.

Section Assoc.
  Context {K : Type} (eqb : K -> K -> bool).
  Hypothesis eqb_eq : forall a b, eqb a b = true <-> a = b.

  Lemma assoc_app k (m : list (K * nat)) k0 v :
    assoc eqb k (m ++ [(k0, v)]) =
    match assoc eqb k m with Some w => Some w | None => if eqb k k0 then Some v else None end.
  Proof.
    induction m as [|[k1 v1] m IH]; cbn; [reflexivity|]. destruct (eqb k k1); [reflexivity|exact IH].
  Qed.

  Lemma assoc_or_insert k (m : list (K * nat)) k0 v :
    assoc eqb k (or_insert eqb m k0 v) =
    match assoc eqb k m with Some w => Some w | None => if eqb k k0 then Some v else None end.
  Proof.
    unfold or_insert. destruct (assoc eqb k0 m) eqn:E0.
    - destruct (assoc eqb k m) eqn:E; [reflexivity|].
      destruct (eqb k k0) eqn:Ek; [|reflexivity]. apply eqb_eq in Ek. subst. congruence.
    - apply assoc_app.
  Qed.
End Assoc.

Lemma nth_error_set_if_none l i x j :
  nth_error (set_if_none l i x) j =
  if Nat.eqb j i then match nth_error l i with Some None => Some (Some x) | o => o end
  else nth_error l j.
Proof.
  revert i j. induction l as [|o l IH]; intros i j; cbn.
  - destruct (Nat.eqb j i); destruct i, j; reflexivity.
  - destruct i as [|i].
    + destruct j as [|j]; cbn; destruct o; reflexivity.
    + destruct j as [|j]; cbn; [destruct o; reflexivity|]. destruct o; cbn; apply IH.
Qed.

Lemma length_set_if_none l i x : length (set_if_none l i x) = length l.
Proof.
  revert i. induction l as [|o l IH]; intros i; cbn; [reflexivity|].
  destruct i; destruct o; cbn; try rewrite IH; reflexivity.
Qed.

(* ---------------------------------------------------------------- the first-occurrence rule *)
Definition is_int (t : ty) : bool := match t with TInteger => true | _ => false end.
Definition is_bin (t : ty) : bool := match t with TBinary => true | _ => false end.
Definition is_ref (t : ty) : bool := match t with TReference => true | _ => false end.
Definition is_tuple (tid : nat) (t : ty) : bool := match t with TTuple x => Nat.eqb tid x | _ => false end.
Definition never_at (P : registry) (rc : nat) : bool :=
  match lookup_type P rc with Some r => is_never r | None => false end.
Definition is_callable_never (P : registry) (key : nat * nat) (t : ty) : bool :=
  match t with TCallable p r rc => pair_eqb key (p, r) && never_at P rc | _ => false end.
Definition is_process (key : option nat * option nat) (t : ty) : bool :=
  match t with TProcess s r => opair_eqb key (s, r) | _ => false end.
Definition is_resource (name : nat) (t : ty) : bool :=
  match t with TResource n => Nat.eqb name n | _ => false end.

Section Index.
  Variable P : registry.
  Let ntup := length (tuples P).

  Definition IxInv (ix : type_index) (pre : list ty) : Prop :=
    ix_integer ix = position is_int pre /\
    ix_binary ix = position is_bin pre /\
    ix_reference ix = position is_ref pre /\
    length (ix_tuple_to_type ix) = ntup /\
    (forall tid, tid < ntup -> nth_error (ix_tuple_to_type ix) tid = Some (position (is_tuple tid) pre)) /\
    (forall key, assoc pair_eqb key (ix_callable_to_type ix) = position (is_callable_never P key) pre) /\
    (forall key, assoc opair_eqb key (ix_process_to_type ix) = position (is_process key) pre) /\
    (forall n, assoc Nat.eqb n (ix_resource_to_type ix) = position (is_resource n) pre).

  Lemma goi_spec (pred : ty -> bool) pre t :
    get_or_insert (position pred pre) (length pre) = (if pred t then position pred (pre ++ [t]) else get_or_insert (position pred pre) (length pre)).
  Proof.
    rewrite position_snoc. destruct (position pred pre); cbn; destruct (pred t); reflexivity.
  Qed.

  Lemma IxInv_step ix pre t : IxInv ix pre -> IxInv (index_step P ix (length pre) t) (pre ++ [t]).
  Proof.
    intros (Hi & Hb & Hr & Hlen & Ht & Hc & Hp & Hs).
    assert (Hsame : forall (pred : ty -> bool), pred t = false -> position pred (pre ++ [t]) = position pred pre).
    { intros pred Hf. rewrite position_snoc, Hf. destruct (position pred pre); reflexivity. }
    destruct t as [| | |tid|pn fs|p r rc|d|vs|s r|rn|v]; unfold IxInv, index_step; cbn [ix_integer ix_binary ix_reference ix_tuple_to_type ix_callable_to_type ix_process_to_type ix_resource_to_type].
    - (* Integer *) repeat split; try (rewrite Hsame by reflexivity; assumption); try assumption;
        try (intros; rewrite Hsame by reflexivity; auto).
      rewrite Hi, position_snoc. destruct (position is_int pre); reflexivity.
    - (* Binary *) repeat split; try (rewrite Hsame by reflexivity; assumption); try assumption;
        try (intros; rewrite Hsame by reflexivity; auto).
      rewrite Hb, position_snoc. destruct (position is_bin pre); reflexivity.
    - (* Reference *) repeat split; try (rewrite Hsame by reflexivity; assumption); try assumption;
        try (intros; rewrite Hsame by reflexivity; auto).
      rewrite Hr, position_snoc. destruct (position is_ref pre); reflexivity.
    - (* Tuple *) repeat split; try (rewrite Hsame by reflexivity; assumption);
        try (intros; rewrite Hsame by reflexivity; auto).
      + rewrite length_set_if_none. exact Hlen.
      + intros tid0 Hlt. rewrite nth_error_set_if_none, position_snoc. cbn [is_tuple].
        destruct (Nat.eqb tid0 tid) eqn:E.
        * apply Nat.eqb_eq in E. subst tid0. rewrite (Ht tid Hlt).
          destruct (position (is_tuple tid) pre); reflexivity.
        * rewrite (Ht tid0 Hlt). destruct (position (is_tuple tid0) pre); reflexivity.
    - (* Partial *) repeat split; try (rewrite Hsame by reflexivity; assumption); try assumption;
        try (intros; rewrite Hsame by reflexivity; auto).
    - (* Callable *)
      fold (never_at P rc). destruct (never_at P rc) eqn:Hn;
        cbn [ix_integer ix_binary ix_reference ix_tuple_to_type ix_callable_to_type ix_process_to_type ix_resource_to_type];
        repeat split; try (rewrite Hsame by reflexivity; assumption); try assumption;
        try (intros; rewrite Hsame by reflexivity; auto).
      + intros key. rewrite (assoc_or_insert pair_eqb pair_eqb_eq), Hc, position_snoc. cbn [is_callable_never].
        rewrite Hn, andb_true_r. reflexivity.
      + intros key. rewrite Hc, position_snoc. cbn [is_callable_never]. rewrite Hn, andb_false_r.
        destruct (position (is_callable_never P key) pre); reflexivity.
    - (* Cycle *) repeat split; try (rewrite Hsame by reflexivity; assumption); try assumption;
        try (intros; rewrite Hsame by reflexivity; auto).
    - (* Union *) repeat split; try (rewrite Hsame by reflexivity; assumption); try assumption;
        try (intros; rewrite Hsame by reflexivity; auto).
    - (* Process *) repeat split; try (rewrite Hsame by reflexivity; assumption); try assumption;
        try (intros; rewrite Hsame by reflexivity; auto).
      intros key. rewrite (assoc_or_insert opair_eqb opair_eqb_eq), Hp, position_snoc. reflexivity.
    - (* Resource *) repeat split; try (rewrite Hsame by reflexivity; assumption); try assumption;
        try (intros; rewrite Hsame by reflexivity; auto).
      intros n. rewrite (assoc_or_insert Nat.eqb Nat.eqb_eq), Hs, position_snoc. reflexivity.
    - (* Variable *) repeat split; try (rewrite Hsame by reflexivity; assumption); try assumption;
        try (intros; rewrite Hsame by reflexivity; auto).
  Qed.

  Lemma IxInv_pass : forall ts ix pre, IxInv ix pre -> IxInv (index_pass P ix (length pre) ts) (pre ++ ts).
  Proof.
    induction ts as [|t ts IH]; intros ix pre H; cbn.
    - rewrite app_nil_r. exact H.
    - replace (pre ++ t :: ts) with ((pre ++ [t]) ++ ts) by (rewrite <- app_assoc; reflexivity).
      replace (S (length pre)) with (length (pre ++ [t])) by (rewrite app_length; cbn; lia).
      apply IH. apply IxInv_step. exact H.
  Qed.

  Lemma nth_error_repeat {A} (x : A) n i : i < n -> nth_error (repeat x n) i = Some x.
  Proof. revert i. induction n; intros i H; [lia|]. destruct i; cbn; [reflexivity|apply IHn; lia]. Qed.

  (* TypeIndex::build computes, for every shape, the FIRST type id of that shape *)
  Theorem build_index_spec : IxInv (build_index P) (types P).
  Proof.
    unfold build_index. apply (IxInv_pass (types P) _ []).
    unfold IxInv; cbn. repeat split; try reflexivity.
    - apply repeat_length.
    - intros tid Hlt. apply nth_error_repeat. exact Hlt.
  Qed.
End Index.

(* ---------------------------------------------------------------- the tables are a relation *)
Lemma In_enumerate_from {A} (l : list A) : forall s i x,
  In (i, x) (enumerate_from s l) <-> s <= i /\ nth_error l (i - s) = Some x.
Proof.
  induction l as [|a l IH]; intros s i x; cbn.
  - split; [intros []|intros [_ H]; destruct (i - s); discriminate].
  - rewrite IH. split.
    + intros [H|[Hle Hn]]; [inversion H; subst; split; [lia|rewrite Nat.sub_diag; reflexivity]|].
      split; [lia|]. replace (i - s) with (S (i - S s)) by lia. exact Hn.
    + intros [Hle Hn]. destruct (Nat.eq_dec i s) as [->|Hne].
      * rewrite Nat.sub_diag in Hn. cbn in Hn. inversion Hn. left; reflexivity.
      * right. split; [lia|]. replace (i - s) with (S (i - S s)) in Hn by lia. exact Hn.
Qed.

Lemma In_flat_enum {A B} (g : nat * A -> list B) (l : list A) (c : B) :
  In c (flat_map g (enumerate_from 0 l)) <-> exists i x, nth_error l i = Some x /\ In c (g (i, x)).
Proof.
  rewrite in_flat_map. split.
  - intros [[i x] [Hin Hc]]. apply In_enumerate_from in Hin. destruct Hin as [_ Hn].
    rewrite Nat.sub_0_r in Hn. exists i, x. auto.
  - intros [i [x [Hn Hc]]]. exists (i, x). split; [|exact Hc].
    apply In_enumerate_from. split; [lia|rewrite Nat.sub_0_r; exact Hn].
Qed.

Section Relation.
  Variable cfg : rel_cfg.
  Variable fuel : nat.
  Variable I : compat_input.
  Let P := ci_reg I.
  Let PX := ci_xreg I.

  (* the type a tag stands for: the FIRST entry of the type table of the tag's shape *)
  Definition type_of_tag (c : ctag) : option nat :=
    match c with
    | CInteger => position is_int (types PX)
    | CBinary => position is_bin (types PX)
    | CReference => position is_ref (types PX)
    | CTuple tid => if tid <? length (tuples PX) then position (is_tuple tid) (types PX) else None
    | CFunction f => option_map f_type_id (nth_error (ci_functions I) f)
    | CBuiltin b =>
      match nth_error (ci_builtins I) b with
      | Some key => position (is_callable_never PX key) (types PX)
      | None => None
      end
    | CProcess f =>
      match nth_error (ci_functions I) f with
      | Some fi => let '(_, _, s, r) := extract_function_type_info P fi in position (is_process (s, r)) (types PX)
      | None => None
      end
    | CResource r =>
      match nth_error (ci_resources I) r with
      | Some name => position (is_resource name) (types PX)
      | None => None
      end
    end.

  (* a primitive without an entry in the type table is accepted exactly by itself and by `never`
     (compatibility.rs:245-250, 257-261, 268-272) *)
  Definition prim_fallback (c : ctag) (t : nat) : bool :=
    match lookup_type PX t with
    | Some pattern =>
      match c with
      | CInteger => is_int pattern || is_never pattern
      | CBinary => is_bin pattern || is_never pattern
      | CReference => is_ref pattern || is_never pattern
      | _ => false
      end
    | None => false
    end.

  Definition accepts (c : ctag) (t : nat) : bool :=
    match type_of_tag c with
    | Some tau => compat cfg fuel PX tau t
    | None => prim_fallback c t
    end.

  Lemma In_prim_check found is_prim tag t c :
    In c (prim_check cfg fuel PX found is_prim tag t) <->
    c = tag /\ match found with
               | Some id => compat cfg fuel PX id t = true
               | None => match lookup_type PX t with
                         | Some pattern => is_prim pattern || is_never pattern = true
                         | None => False
                         end
               end.
  Proof.
    unfold prim_check. fold PX. destruct found as [id|].
    - destruct (compat cfg fuel PX id t); cbn; [intuition congruence|intuition congruence].
    - destruct (lookup_type PX t) as [pattern|]; [|cbn; intuition].
      destruct (is_prim pattern || is_never pattern); cbn; intuition congruence.
  Qed.

  Lemma extract_callable fi : snd (fst (fst (extract_function_type_info P fi))) = f_type_id fi.
  Proof. unfold extract_function_type_info. destruct (lookup_type P (f_type_id fi)) as [[]|]; reflexivity. Qed.

  (* table_is_relation: a tag is in the row of pattern t  iff  the tag's type is assignable to t
     (or, for a primitive that has no entry, the fallback) *)
  Theorem table_is_relation : forall c t,
    In c (compute_compatible_concrete_types cfg fuel I PX (build_index PX) t) <-> accepts c t = true.
  Proof.
    intros c t.
    destruct (build_index_spec PX) as (Hi & Hb & Hr & Hlen & Ht & Hc & Hp & Hs).
    unfold compute_compatible_concrete_types. fold P. fold PX.
    rewrite !in_app_iff, !In_prim_check, !In_flat_enum. fold P. fold PX.
    rewrite Hi, Hb, Hr.
    unfold accepts, type_of_tag, prim_fallback. fold P. fold PX.
    split.
    - intros [[-> H]|[[-> H]|[[-> H]|[H|[H|[H|[H|H]]]]]]].
      + destruct (position is_int (types PX)); [exact H|]. destruct (lookup_type PX t); [exact H|destruct H].
      + destruct (position is_bin (types PX)); [exact H|]. destruct (lookup_type PX t); [exact H|destruct H].
      + destruct (position is_ref (types PX)); [exact H|]. destruct (lookup_type PX t); [exact H|destruct H].
      + destruct H as [tid [o [Hn Hin]]]. cbn in Hin. destruct o as [type_id|]; [|destruct Hin].
        destruct (compat cfg fuel PX type_id t) eqn:Hcmp; [|destruct Hin]. destruct Hin as [<-|[]].
        assert (Hlt : tid < length (tuples PX)) by (rewrite <- Hlen; apply nth_error_Some; congruence).
        rewrite (Ht tid Hlt) in Hn. assert (Hpos : position (is_tuple tid) (types PX) = Some type_id) by congruence.
        apply Nat.ltb_lt in Hlt. rewrite Hlt, Hpos. exact Hcmp.
      + destruct H as [f [fi [Hn Hin]]]. cbn in Hin.
        pose proof (extract_callable fi) as Hx.
        destruct (extract_function_type_info P fi) as [[[pa ca] se] re]. cbn in Hx. subst ca.
        destruct (compat cfg fuel PX (f_type_id fi) t) eqn:Hcmp; [|destruct Hin]. destruct Hin as [<-|[]].
        rewrite Hn. cbn. exact Hcmp.
      + destruct H as [b [key [Hn Hin]]]. cbn in Hin. rewrite Hc in Hin.
        destruct (position (is_callable_never PX key) (types PX)) as [cid|] eqn:Hpos; [|destruct Hin].
        destruct (compat cfg fuel PX cid t) eqn:Hcmp; [|destruct Hin]. destruct Hin as [<-|[]].
        rewrite Hn, Hpos. exact Hcmp.
      + destruct H as [f [fi [Hn Hin]]]. cbn in Hin.
        destruct (extract_function_type_info P fi) as [[[pa ca] se] re] eqn:Hex. rewrite Hp in Hin.
        destruct (position (is_process (se, re)) (types PX)) as [pid|] eqn:Hpos; [|destruct Hin].
        destruct (compat cfg fuel PX pid t) eqn:Hcmp; [|destruct Hin]. destruct Hin as [<-|[]].
        rewrite Hn, Hex, Hpos. exact Hcmp.
      + destruct H as [r [name [Hn Hin]]]. cbn in Hin. rewrite Hs in Hin.
        destruct (position (is_resource name) (types PX)) as [rid|] eqn:Hpos; [|destruct Hin].
        destruct (compat cfg fuel PX rid t) eqn:Hcmp; [|destruct Hin]. destruct Hin as [<-|[]].
        rewrite Hn, Hpos. exact Hcmp.
    - intros H. destruct c as [| | |tid|f|b|f|r].
      + left. split; [reflexivity|]. destruct (position is_int (types PX)); [exact H|].
        destruct (lookup_type PX t); [exact H|discriminate].
      + right; left. split; [reflexivity|]. destruct (position is_bin (types PX)); [exact H|].
        destruct (lookup_type PX t); [exact H|discriminate].
      + right; right; left. split; [reflexivity|]. destruct (position is_ref (types PX)); [exact H|].
        destruct (lookup_type PX t); [exact H|discriminate].
      + do 3 right; left.
        destruct (tid <? length (tuples PX)) eqn:Hlt; [|destruct (lookup_type PX t); discriminate].
        apply Nat.ltb_lt in Hlt.
        destruct (position (is_tuple tid) (types PX)) as [tau|] eqn:Hpos; [|destruct (lookup_type PX t); discriminate].
        exists tid, (Some tau). split; [rewrite (Ht tid Hlt), Hpos; reflexivity|]. cbn. rewrite H. left; reflexivity.
      + do 4 right; left.
        destruct (nth_error (ci_functions I) f) as [fi|] eqn:Hn; [|cbn in H; destruct (lookup_type PX t); discriminate].
        cbn in H. exists f, fi. split; [exact Hn|]. cbn.
        pose proof (extract_callable fi) as Hx.
        destruct (extract_function_type_info P fi) as [[[pa ca] se] re]. cbn in Hx. subst ca.
        rewrite H. left; reflexivity.
      + do 5 right; left.
        destruct (nth_error (ci_builtins I) b) as [key|] eqn:Hn; [|destruct (lookup_type PX t); discriminate].
        destruct (position (is_callable_never PX key) (types PX)) as [cid|] eqn:Hpos; [|destruct (lookup_type PX t); discriminate].
        exists b, key. split; [exact Hn|]. cbn. rewrite Hc, Hpos, H. left; reflexivity.
      + do 6 right; left.
        destruct (nth_error (ci_functions I) f) as [fi|] eqn:Hn; [|destruct (lookup_type PX t); discriminate].
        exists f, fi. split; [exact Hn|]. cbn.
        destruct (extract_function_type_info P fi) as [[[pa ca] se] re] eqn:Hex.
        destruct (position (is_process (se, re)) (types PX)) as [pid|] eqn:Hpos; [|destruct (lookup_type PX t); discriminate].
        rewrite Hp, Hpos, H. left; reflexivity.
      + do 7 right.
        destruct (nth_error (ci_resources I) r) as [name|] eqn:Hn; [|destruct (lookup_type PX t); discriminate].
        destruct (position (is_resource name) (types PX)) as [rid|] eqn:Hpos; [|destruct (lookup_type PX t); discriminate].
        exists r, name. split; [exact Hn|]. cbn. rewrite Hs, Hpos, H. left; reflexivity.
  Qed.
End Relation.

(* ---------------------------------------------------------------- IsType and receive filters *)
Lemma ctag_eqb_eq a b : ctag_eqb a b = true <-> a = b.
Proof.
  destruct a, b; cbn; try (split; [discriminate|discriminate]); try (split; reflexivity);
    (rewrite Nat.eqb_eq; split; [intros ->; reflexivity|intros H; inversion H; reflexivity]).
Qed.

Lemma mem_tag_In c s : mem_tag c s = true <-> In c s.
Proof.
  unfold mem_tag. rewrite existsb_exists. split.
  - intros [x [Hin Heq]]. apply ctag_eqb_eq in Heq. subst. exact Hin.
  - intros Hin. exists c. split; [exact Hin|apply ctag_eqb_eq; reflexivity].
Qed.

Lemma nth_error_seq' s n i : i < n -> nth_error (seq s n) i = Some (s + i).
Proof.
  revert s i. induction n as [|n IH]; intros s i H; [lia|]. destruct i as [|i]; cbn.
  - f_equal. lia.
  - rewrite IH by lia. f_equal. lia.
Qed.

Lemma nth_error_map' {A B} (f : A -> B) l i : nth_error (map f l) i = option_map f (nth_error l i).
Proof. revert i. induction l as [|a l IH]; intros [|i]; cbn; auto. Qed.

Section IsType.
  Variable cfg : rel_cfg.
  Variable fuel : nat.
  Variable I : compat_input.
  Let P := ci_reg I.
  Let PX := ci_xreg I.
  Let table := compute_type_compatibility cfg fuel I.

  Definition is_pattern (t : nat) : bool := existsb (Nat.eqb t) (pattern_type_ids I).

  (* handle_is_type answers Ok exactly when: t is a registered type id that some IsType instruction
     names, and the tag's type is assignable to it *)
  Theorem istype_is_relation : forall c t,
    check_type_compatible table c t = true <->
    t < length (types P) /\ is_pattern t = true /\ accepts cfg fuel I c t = true.
  Proof.
    intros c t. unfold check_type_compatible, table, compute_type_compatibility. fold P. fold PX.
    destruct (nth_error (map _ (seq 0 (length (types P)))) t) as [row|] eqn:Hn.
    - assert (Hlt : t < length (types P)).
      { assert (Hx : t < length (map (fun pattern_id =>
                   if existsb (Nat.eqb pattern_id) (pattern_type_ids I)
                   then compute_compatible_concrete_types cfg fuel I PX (build_index PX) pattern_id else [])
                   (seq 0 (length (types P))))) by (apply nth_error_Some; congruence).
        rewrite map_length, seq_length in Hx. exact Hx. }
      rewrite nth_error_map', nth_error_seq' in Hn by exact Hlt. cbn in Hn. inversion Hn as [Hrow]. clear Hn.
      unfold is_pattern. destruct (existsb (Nat.eqb t) (pattern_type_ids I)).
      + rewrite mem_tag_In. unfold PX. rewrite (table_is_relation cfg fuel I c t). intuition.
      + cbn. intuition discriminate.
    - split; [discriminate|]. intros [Hlt _]. exfalso.
      apply nth_error_None in Hn. rewrite map_length, seq_length in Hn. lia.
  Qed.

  (* a tuple id without a `Type::Tuple(tid)` entry in the type table is never accepted *)
  Corollary no_tuple_entry_never_accepted : forall tid t,
    position (is_tuple tid) (types PX) = None -> check_type_compatible table (CTuple tid) t = false.
  Proof.
    intros tid t Hpos. destruct (check_type_compatible table (CTuple tid) t) eqn:E; [|reflexivity].
    apply istype_is_relation in E. destruct E as (_ & _ & Hacc).
    unfold accepts, type_of_tag, prim_fallback in Hacc. fold PX in Hacc. rewrite Hpos in Hacc.
    destruct (tid <? length (tuples PX)); destruct (lookup_type PX t); discriminate.
  Qed.

  (* istype_sound, relative to C09's compat_sound: on the fragment where assignability is proved
     sound, an accepted value that inhabits its tag's type inhabits the pattern type *)
  Theorem istype_sound : forall c t tau n v,
    cfg_retract cfg = true ->
    check_type_compatible table c t = true ->
    type_of_tag I c = Some tau ->
    cf_domain cfg PX tau = true -> cf_domain cfg PX t = true ->
    inhab PX n [] v tau -> inhab PX n [] v t.
  Proof.
    intros c t tau n v Hret Hchk Htag Hd1 Hd2 Hv.
    apply istype_is_relation in Hchk. destruct Hchk as (_ & _ & Hacc).
    unfold accepts in Hacc. rewrite Htag in Hacc. unfold compat in Hacc. fold PX in Hacc.
    destruct (is_compatible_with cfg fuel PX tau t) as [[|]|] eqn:Hc; try discriminate.
    exact (compat_sound_cf cfg PX fuel tau t Hret Hd1 Hd2 Hc n v Hv).
  Qed.

  (* istype_complete: a value whose tag has a type entry (has_type_entry), whose tag type is
     assignable to its static type S, is accepted by every pattern S is assignable to — given
     transitivity of is_compatible at (tau, S, t) (C09's compat_trans, not proved in general) *)
  Theorem istype_complete : forall c t tau S,
    t < length (types P) -> is_pattern t = true ->
    type_of_tag I c = Some tau ->
    is_compatible_with cfg fuel PX tau S = Some true ->
    is_compatible_with cfg fuel PX S t = Some true ->
    (is_compatible_with cfg fuel PX tau S = Some true -> is_compatible_with cfg fuel PX S t = Some true ->
     is_compatible_with cfg fuel PX tau t = Some true) ->
    check_type_compatible table c t = true.
  Proof.
    intros c t tau S Hlt Hpat Htag H1 H2 Htrans. apply istype_is_relation. repeat split; try assumption.
    unfold accepts. rewrite Htag. unfold compat. fold PX. rewrite (Htrans H1 H2). reflexivity.
  Qed.

  (* without a type entry (F70: the process type of the top-level function is not in the type table)
     the tag is never accepted, whatever the pattern *)
  Theorem no_type_entry_never_accepted : forall c t,
    type_of_tag I c = None -> (forall p, c <> p \/ (p <> CInteger /\ p <> CBinary /\ p <> CReference)) ->
    check_type_compatible table c t = false.
  Proof.
    intros c t Htag Hnp. destruct (check_type_compatible table c t) eqn:E; [|reflexivity].
    apply istype_is_relation in E. destruct E as (_ & _ & Hacc).
    unfold accepts in Hacc. rewrite Htag in Hacc. unfold prim_fallback in Hacc.
    destruct (lookup_type (ci_xreg I) t); [|discriminate].
    destruct c; try discriminate.
    - destruct (Hnp CInteger) as [H|[H _]]; congruence.
    - destruct (Hnp CBinary) as [H|[_ [H _]]]; congruence.
    - destruct (Hnp CReference) as [H|[_ [_ H]]]; congruence.
  Qed.

  (* ---- parameter tables (receive filters) ---- *)
  Theorem param_tables_cover : forall fp bp,
    compute_param_compatibility cfg fuel I = (fp, bp) ->
    length fp = length (ci_functions I) /\ length bp = length (ci_builtins I).
  Proof. intros fp bp H. unfold compute_param_compatibility in H. inversion H. rewrite !map_length. auto. Qed.

  (* a receive filter is permissive (accepts a message it has no row for) only when the row is absent *)
  Theorem param_table_permissive_only_when_absent : forall fp bp c f row,
    nth_error fp f = Some row ->
    check_message_compatible fp bp c (SrcFunction f) = mem_tag c row.
  Proof. intros fp bp c f row H. cbn. rewrite H. reflexivity. Qed.

  Theorem param_table_absent_is_permissive : forall bp c f,
    check_message_compatible [] bp c (SrcFunction f) = true.
  Proof. intros. cbn. destruct f; reflexivity. Qed.

  (* with the tables computed (param_compat = true) every function has a row, and the row is the
     relation "tag type assignable to the function's parameter type" *)
  Theorem param_row_is_relation : forall fp bp c f fi,
    param_tables cfg fuel I true = (fp, bp) -> nth_error (ci_functions I) f = Some fi ->
    check_message_compatible fp bp c (SrcFunction f) =
    accepts cfg fuel I c (fst (fst (fst (extract_function_type_info P fi)))).
  Proof.
    intros fp bp c f fi H Hn. cbn in H. unfold compute_param_compatibility in H. inversion H; subst. cbn.
    rewrite nth_error_map', Hn. cbn. fold P.
    destruct (extract_function_type_info P fi) as [[[pa ca] se] re]. cbn.
    pose proof (table_is_relation cfg fuel I c pa) as Hrel.
    destruct (accepts cfg fuel I c pa) eqn:Ha.
    - apply mem_tag_In. apply Hrel. reflexivity.
    - match goal with |- ?m = false => destruct m eqn:Hm end; [|reflexivity].
      apply mem_tag_In in Hm. apply Hrel in Hm. discriminate.
  Qed.
End IsType.

(* ---------------------------------------------------------------- F70 (fix 5eb967d) *)
(* the tables are computed over the program's types extended with the process type of every function
   that has none: the process tag of EVERY function has a type entry, and ids of the program's own
   types are unchanged *)
Lemma position_exists {A} (pred : A -> bool) l : (exists x, In x l /\ pred x = true) -> position pred l <> None.
Proof.
  induction l as [|a l IH]; intros [x [Hin Hp]]; [destruct Hin|]. cbn.
  destruct (pred a) eqn:Ea; [discriminate|].
  destruct Hin as [->|Hin]; [congruence|].
  destruct (position pred l) eqn:Epos; [discriminate|]. exfalso. apply IH; [exists x; auto|reflexivity].
Qed.

Lemma process_types_pass_covers P : forall fs known f s r pa ca,
  In f fs -> extract_function_type_info P f = (pa, ca, Some s, r) ->
  existsb (opair_eqb (Some s, r)) known = true \/ In (TProcess (Some s) r) (process_types_pass P known fs).
Proof.
  induction fs as [|f0 fs IH]; intros known f s r pa ca Hin Hex; [destruct Hin|]. cbn [process_types_pass].
  destruct (extract_function_type_info P f0) as [[[pa0 ca0] s0] r0] eqn:Hex0.
  destruct Hin as [->|Hin].
  - rewrite Hex in Hex0. inversion Hex0; subst pa0 ca0 s0 r0.
    destruct (existsb (opair_eqb (Some s, r)) known) eqn:Ek; [left; reflexivity|right; left; reflexivity].
  - destruct s0 as [s0|]; [|exact (IH known f s r pa ca Hin Hex)].
    destruct (existsb (opair_eqb (Some s0, r0)) known) eqn:Ek; [exact (IH known f s r pa ca Hin Hex)|].
    destruct (IH ((Some s0, r0) :: known) f s r pa ca Hin Hex) as [H|H]; [|right; right; exact H].
    cbn [existsb] in H. apply orb_true_iff in H. destruct H as [H|H]; [|left; exact H].
    apply opair_eqb_eq in H. inversion H; subst. right; left; reflexivity.
Qed.

Lemma known_keys_in_types P key :
  existsb (opair_eqb key) (known_process_keys P) = true -> exists t, In t (types P) /\ is_process key t = true.
Proof.
  intros H. apply existsb_exists in H. destruct H as [k [Hin Hk]]. apply opair_eqb_eq in Hk. subst k.
  unfold known_process_keys in Hin. apply in_flat_map in Hin. destruct Hin as [t [Ht Hin]].
  exists t. split; [exact Ht|]. destruct t; try (destruct Hin; fail). destruct Hin as [<-|[]].
  cbn. apply opair_eqb_eq. reflexivity.
Qed.

Theorem process_has_type_entry : forall I f fi p r rc,
  nth_error (ci_functions I) f = Some fi ->
  lookup_type (ci_reg I) (f_type_id fi) = Some (TCallable p r rc) ->
  exists tau, type_of_tag I (CProcess f) = Some tau.
Proof.
  intros I f fi p r rc Hn Hl. unfold type_of_tag. rewrite Hn.
  assert (Hex : extract_function_type_info (ci_reg I) fi = (p, f_type_id fi, Some rc, Some r))
    by (unfold extract_function_type_info; rewrite Hl; reflexivity).
  rewrite Hex.
  destruct (position (is_process (Some rc, Some r)) (types (ci_xreg I))) as [tau|] eqn:Hpos; [eauto|exfalso].
  revert Hpos. apply position_exists. unfold ci_xreg. cbn [types].
  destruct (process_types_pass_covers (ci_reg I) (ci_functions I) (known_process_keys (ci_reg I)) fi rc (Some r) p (f_type_id fi)
              (nth_error_In _ _ Hn) Hex) as [H|H].
  - destruct (known_keys_in_types _ _ H) as [t [Ht Hp]]. exists t. split; [apply in_or_app; left; exact Ht|exact Hp].
  - exists (TProcess (Some rc) (Some r)). split; [apply in_or_app; right; exact H|]. cbn. apply opair_eqb_eq. reflexivity.
Qed.

(* the program's own types keep their ids in the extended table *)
Theorem xreg_keeps_ids : forall I i t, lookup_type (ci_reg I) i = Some t -> lookup_type (ci_xreg I) i = Some t.
Proof.
  intros I i t H. unfold lookup_type, ci_xreg in *. cbn [types].
  rewrite nth_error_app1; [exact H|]. apply nth_error_Some. congruence.
Qed.
