(* BinaryProofs.v — the binary builtins that are direct rope operations or byte-wise maps/folds
   (new, length, concat, repeat, and, or, xor, not, index, slice, popcount, hash32, hash64) agree
   with their reference specs. binary_shift is in BinaryShiftProofs.v; binary_get/set/append in
   BinaryBitsProofs.v. *)
From Quiver Require Import BuiltinWf.
From Coq Require Import Lia.

(* both sides are Err TypeMismatch on an ill-shaped argument *)
Ltac ill := split; [reflexivity | exact I].

(* reduce `a` to the single well-shaped case of a 2-field / 3-field builtin *)
Ltac tup2 a :=
  destruct a as [?|?|fs|]; try ill;
  destruct fs as [|x fs]; try ill;
  destruct fs as [|y fs]; [destruct x; ill|];
  destruct fs as [|? ?]; [|destruct x; try ill; destruct y; ill];
  destruct x; try ill; destruct y; try ill.
Ltac tup3 a :=
  destruct a as [?|?|fs|]; try ill;
  destruct fs as [|x fs]; try ill;
  destruct fs as [|y fs]; [destruct x; ill|];
  destruct fs as [|z fs]; [destruct x; try ill; destruct y; ill|];
  destruct fs as [|? ?]; [|destruct x; try ill; destruct y; try ill; destruct z; ill];
  destruct x; try ill; destruct y; try ill; destruct z; try ill.

Local Ltac zb :=
  repeat match goal with
  | H : (_ <=? _) = true |- _ => apply Z.leb_le in H
  | H : (_ <=? _) = false |- _ => apply Z.leb_gt in H
  | H : (_ <? _) = true |- _ => apply Z.ltb_lt in H
  | H : (_ <? _) = false |- _ => apply Z.ltb_ge in H
  | H : (_ =? _) = true |- _ => apply Z.eqb_eq in H
  | H : (_ =? _) = false |- _ => apply Z.eqb_neq in H
  | H : (_ && _) = true |- _ => apply andb_true_iff in H; destruct H
  | H : (_ || _) = false |- _ => apply orb_false_iff in H; destruct H
  end.

Lemma max_lt_two64 : MAX_BINARY_SIZE < two64.
Proof. unfold MAX_BINARY_SIZE, two64. lia. Qed.

Lemma in_u64_true z : 0 <= z < two64 -> in_u64 z = true.
Proof. intros H. unfold in_u64. apply andb_true_iff. split; [apply Z.leb_le | apply Z.ltb_lt]; lia. Qed.

(* ---------------------------------------------------------------- length *)
Theorem binary_length_correct : agrees impl_binary_length spec_binary_length.
Proof.
  intros a Ha. destruct a as [z|r|fs|]; try ill.
  cbn [wf_bval] in Ha. split; [|exact I].
  cbn [impl_binary_length flatten_out flatten spec_binary_length]. rewrite blen_bytes_of by exact Ha. reflexivity.
Qed.

(* ---------------------------------------------------------------- new *)
Theorem binary_new_correct : agrees impl_binary_new spec_binary_new.
Proof.
  intros a _. destruct a as [z|r|fs|]; try ill.
  cbn [impl_binary_new flatten spec_binary_new]. unfold to_usize_checked, in_u64.
  pose proof max_lt_two64 as HM.
  destruct (z <? 0) eqn:E1; zb.
  - destruct (0 <=? z) eqn:E2; zb; [lia|]. cbn [andb]. ill.
  - destruct (0 <=? z) eqn:E2; zb; [|lia]. cbn [andb obind].
    destruct (z <? two64) eqn:E3; zb; cbn [obind].
    + destruct (MAX_BINARY_SIZE <? z) eqn:E4; destruct (z <=? MAX_BINARY_SIZE) eqn:E5; zb; try lia; [ill|].
      rewrite alloc_ok by (cbn [rlen]; lia). cbn [flatten_out flatten bytes_of wf_out wf_bval wf]. split; [reflexivity | lia].
    + destruct (z <=? MAX_BINARY_SIZE) eqn:E5; zb; [lia | ill].
Qed.

(* ---------------------------------------------------------------- concat *)
Theorem binary_concat_correct : agrees impl_binary_concat spec_binary_concat.
Proof.
  intros a Ha. tup2 a. rename r into ra, r0 into rb.
  cbn [wf_bval] in Ha. destruct Ha as (Ha & Hb & _).
  pose proof (wf_rlen_bound _ Ha) as Ba. pose proof (wf_rlen_bound _ Hb) as Bb. pose proof max_lt_two64 as HM.
  cbn [impl_binary_concat flatten map spec_binary_concat]. rewrite !blen_bytes_of by assumption.
  rewrite in_u64_true by (unfold two64, MAX_BINARY_SIZE in *; lia).
  cbn [negb].
  destruct (MAX_BINARY_SIZE <? rlen ra + rlen rb) eqn:E1; destruct (rlen ra + rlen rb <=? MAX_BINARY_SIZE) eqn:E2; zb; try lia; [ill|].
  rewrite alloc_ok by (cbn [mk_concat rlen]; lia).
  cbn [flatten_out flatten wf_out wf_bval]. split; [reflexivity|]. apply mk_concat_wf; assumption.
Qed.

(* ---------------------------------------------------------------- repeat *)
Theorem binary_repeat_correct : agrees impl_binary_repeat spec_binary_repeat.
Proof.
  intros a Ha. tup2 a.
  cbn [wf_bval] in Ha. destruct Ha as (Ha & _).
  pose proof (wf_rlen_bound _ Ha) as Ba. pose proof max_lt_two64 as HM.
  cbn [impl_binary_repeat flatten map spec_binary_repeat]. rewrite !blen_bytes_of by assumption.
  unfold to_usize_checked, checked_mul_usize, in_u64.
  destruct (z <? 0) eqn:E1; zb.
  { destruct (0 <=? z) eqn:E2; zb; [lia | ill]. }
  destruct (0 <=? z) eqn:E2; zb; [|lia]. cbn [andb].
  destruct (z <? two64) eqn:E3; zb; cbn [obind andb]; [|ill].
  assert (Hp : 0 <= rlen r * z) by (apply Z.mul_nonneg_nonneg; lia).
  destruct (0 <=? rlen r * z) eqn:E4; zb; [|lia]. cbn [andb].
  destruct (rlen r * z <? two64) eqn:E5; zb.
  - destruct (MAX_BINARY_SIZE <? rlen r * z) eqn:E6; destruct (rlen r * z <=? MAX_BINARY_SIZE) eqn:E7; zb; try lia; [ill|].
    pose proof (mk_tiled_wf r z Ha E2 E7) as Hw.
    rewrite alloc_wf by exact Hw. cbn [flatten_out flatten wf_out wf_bval]. split; [|exact Hw].
    rewrite mk_tiled_bytes by assumption. reflexivity.
  - destruct (rlen r * z <=? MAX_BINARY_SIZE) eqn:E7; zb; [lia | ill].
Qed.

(* ---------------------------------------------------------------- byte-wise ops keep bytes *)
Definition byte_op_closed (op : Z -> Z -> Z) : bool :=
  forallb (fun x => forallb (fun y => byteb (op x y)) (zrange 256)) (zrange 256).

Lemma byte_op_closed_spec op : byte_op_closed op = true ->
  forall x y, 0 <= x < 256 -> 0 <= y < 256 -> 0 <= op x y < 256.
Proof.
  intros H x y Hx Hy. unfold byte_op_closed in H. rewrite forallb_forall in H.
  specialize (H x (proj2 (zrange_In 256 x) Hx)). rewrite forallb_forall in H.
  specialize (H y (proj2 (zrange_In 256 y) Hy)). unfold byteb in H.
  apply andb_true_iff in H. destruct H as [H1 H2]. apply Z.leb_le in H1. apply Z.ltb_lt in H2. lia.
Qed.

Lemma land_closed : byte_op_closed Z.land = true. Proof. vm_compute. reflexivity. Qed.
Lemma lor_closed : byte_op_closed Z.lor = true. Proof. vm_compute. reflexivity. Qed.
Lemma lxor_closed : byte_op_closed Z.lxor = true. Proof. vm_compute. reflexivity. Qed.

Lemma zip_with_map2 f l1 l2 : zip_with f l1 l2 = map2 f l1 l2.
Proof.
  revert l2. induction l1 as [|x t IH]; intros [|y u]; try reflexivity.
  unfold map2 in *. cbn [zip_with combine map fst snd]. rewrite IH. reflexivity.
Qed.

Lemma map2_length f l1 l2 : length (map2 f l1 l2) = Nat.min (length l1) (length l2).
Proof. unfold map2. rewrite map_length, combine_length. reflexivity. Qed.

Lemma map2_bytes_ok f l1 l2 :
  (forall x y, 0 <= x < 256 -> 0 <= y < 256 -> 0 <= f x y < 256) ->
  bytes_ok l1 -> bytes_ok l2 -> bytes_ok (map2 f l1 l2).
Proof.
  intros Hf H1. revert l2. induction H1 as [|x t Hx Ht IH]; intros l2 H2.
  - constructor.
  - destruct H2 as [|y u Hy Hu]; [constructor|].
    unfold map2 in *. cbn [combine map fst snd]. constructor; [apply Hf; assumption | apply IH; assumption].
Qed.

(* ---------------------------------------------------------------- and *)
Theorem binary_and_correct : agrees impl_binary_and spec_binary_and.
Proof.
  intros a Ha. tup2 a. rename r into ra, r0 into rb.
  cbn [wf_bval] in Ha. destruct Ha as (Ha & Hb & _).
  cbn [impl_binary_and flatten map spec_binary_and].
  rewrite !rope_iter_spec by assumption. rewrite zip_with_map2.
  assert (Hlen : Z.of_nat (length (map2 Z.land (bytes_of ra) (bytes_of rb))) <= MAX_BINARY_SIZE).
  { rewrite map2_length. pose proof (wf_rlen_bound _ Ha) as Ba. rewrite (rlen_bytes_of _ Ha) in Ba. lia. }
  rewrite alloc_bytes_ok by exact Hlen.
  cbn [flatten_out flatten bytes_of wf_out wf_bval wf]. split; [reflexivity|]. split; [|exact Hlen].
  apply map2_bytes_ok; [apply byte_op_closed_spec, land_closed | apply bytes_of_ok; assumption ..].
Qed.

(* ---------------------------------------------------------------- or / xor *)
Lemma nth_pad_to n l i : nth i (pad_to n l) 0 = nth i l 0.
Proof.
  unfold pad_to. destruct (Nat.lt_ge_cases i (length l)) as [H|H].
  - apply app_nth1; exact H.
  - rewrite app_nth2 by exact H. rewrite (nth_overflow l) by exact H.
    destruct (Nat.lt_ge_cases (i - length l) (n - length l)) as [H2|H2].
    + apply nth_repeat.
    + apply nth_overflow. rewrite repeat_length. exact H2.
Qed.

Lemma pad_to_length n l : (length l <= n)%nat -> length (pad_to n l) = n.
Proof. intros H. unfold pad_to. rewrite app_length, repeat_length. lia. Qed.

Lemma pad_to_bytes_ok n l : bytes_ok l -> bytes_ok (pad_to n l).
Proof. intros H. unfold pad_to, bytes_ok. apply Forall_app. split; [exact H|]. apply Forall_repeat_intro. lia. Qed.

Lemma map2_nth f l1 l2 i : length l1 = length l2 -> (i < length l1)%nat ->
  nth i (map2 f l1 l2) (f 0 0) = f (nth i l1 0) (nth i l2 0).
Proof.
  intros Hl Hi. unfold map2.
  change (f 0 0) with ((fun p : Z * Z => f (fst p) (snd p)) (0, 0)). rewrite map_nth.
  rewrite combine_nth by exact Hl. reflexivity.
Qed.

Lemma padded_byte_val r i : wf r -> 0 <= i ->
  padded_byte r (rlen r) i = Val (nth (Z.to_nat i) (bytes_of r) 0).
Proof.
  intros Hw Hi. unfold padded_byte. destruct (Z.ltb_spec i (rlen r)) as [H|H].
  - destruct (byte_at_in_range r i Hw (conj Hi H)) as (b & E1 & E2 & _). rewrite E1.
    rewrite (nth_error_nth _ _ 0 E2). reflexivity.
  - rewrite nth_overflow; [reflexivity|]. rewrite (rlen_bytes_of _ Hw) in H. lia.
Qed.

Lemma padded_op_correct op ra rb : byte_op_closed op = true -> wf ra -> wf rb ->
  let n := Nat.max (length (bytes_of ra)) (length (bytes_of rb)) in
  let out := map2 op (pad_to n (bytes_of ra)) (pad_to n (bytes_of rb)) in
  padded_op op ra rb = Val (BBin (Owned out)) /\ wf (Owned out).
Proof.
  intros Hop Ha Hb n out. unfold padded_op.
  pose proof (rlen_bytes_of _ Ha) as La. pose proof (rlen_bytes_of _ Hb) as Lb.
  pose proof (wf_rlen_bound _ Ha) as Ba. pose proof (wf_rlen_bound _ Hb) as Bb.
  assert (Hn : Z.max (rlen ra) (rlen rb) = Z.of_nat n) by (unfold n; lia).
  set (g := fun i => op (nth (Z.to_nat i) (bytes_of ra) 0) (nth (Z.to_nat i) (bytes_of rb) 0)).
  rewrite (omap_val _ g).
  2:{ intros i Hi. apply zrange_In in Hi. rewrite !padded_byte_val by (assumption || lia). reflexivity. }
  cbn [obind].
  assert (Hout : map g (zrange (Z.max (rlen ra) (rlen rb))) = out).
  { rewrite Hn. unfold zrange. rewrite Nat2Z.id, map_map.
    assert (Hpa : length (pad_to n (bytes_of ra)) = n) by (apply pad_to_length; unfold n; lia).
    assert (Hpb : length (pad_to n (bytes_of rb)) = n) by (apply pad_to_length; unfold n; lia).
    apply (nth_ext _ _ (op 0 0) (op 0 0)).
    - rewrite map_length, seq_length. unfold out. rewrite map2_length, Hpa, Hpb. lia.
    - intros i Hi. rewrite map_length, seq_length in Hi.
      set (F := fun x : nat => g (Z.of_nat x)).
      rewrite (nth_indep (map F (seq 0 n)) (op 0 0) (F 0%nat)) by (rewrite map_length, seq_length; exact Hi).
      rewrite (map_nth F). rewrite seq_nth by exact Hi. cbn [Nat.add]. unfold F, g, out. rewrite Nat2Z.id.
      rewrite map2_nth by (rewrite ?Hpa, ?Hpb; (reflexivity || exact Hi)).
      rewrite !nth_pad_to. reflexivity. }
  rewrite Hout.
  assert (Hlen : Z.of_nat (length out) <= MAX_BINARY_SIZE).
  { unfold out. rewrite map2_length, !pad_to_length by (unfold n; lia). lia. }
  rewrite alloc_bytes_ok by exact Hlen. split; [reflexivity|].
  cbn [wf]. split; [|exact Hlen].
  apply map2_bytes_ok; [apply byte_op_closed_spec, Hop | apply pad_to_bytes_ok, bytes_of_ok; assumption ..].
Qed.

Theorem binary_or_correct : agrees impl_binary_or spec_binary_or.
Proof.
  intros a Ha. tup2 a. rename r into ra, r0 into rb.
  cbn [wf_bval] in Ha. destruct Ha as (Ha & Hb & _).
  destruct (padded_op_correct Z.lor ra rb lor_closed Ha Hb) as [E Hw].
  cbn [impl_binary_or flatten map]. unfold spec_binary_or. cbn [spec_padded]. rewrite E.
  cbn [flatten_out flatten bytes_of wf_out wf_bval]. split; [reflexivity | exact Hw].
Qed.

Theorem binary_xor_correct : agrees impl_binary_xor spec_binary_xor.
Proof.
  intros a Ha. tup2 a. rename r into ra, r0 into rb.
  cbn [wf_bval] in Ha. destruct Ha as (Ha & Hb & _).
  destruct (padded_op_correct Z.lxor ra rb lxor_closed Ha Hb) as [E Hw].
  cbn [impl_binary_xor flatten map]. unfold spec_binary_xor. cbn [spec_padded]. rewrite E.
  cbn [flatten_out flatten bytes_of wf_out wf_bval]. split; [reflexivity | exact Hw].
Qed.

(* ---------------------------------------------------------------- not *)
Theorem binary_not_correct : agrees impl_binary_not spec_binary_not.
Proof.
  intros a Ha. destruct a as [z|r|fs|]; try ill.
  cbn [wf_bval] in Ha. cbn [impl_binary_not flatten spec_binary_not].
  rewrite rope_iter_spec by exact Ha.
  assert (Hlen : Z.of_nat (length (map (fun b => 255 - b) (bytes_of r))) <= MAX_BINARY_SIZE).
  { rewrite map_length. pose proof (wf_rlen_bound _ Ha) as Ba. rewrite (rlen_bytes_of _ Ha) in Ba. lia. }
  rewrite alloc_bytes_ok by exact Hlen.
  cbn [flatten_out flatten bytes_of wf_out wf_bval wf]. split; [reflexivity|]. split; [|exact Hlen].
  pose proof (bytes_of_ok _ Ha) as Hok. unfold bytes_ok in *. rewrite Forall_map.
  eapply Forall_impl; [|exact Hok]. cbn beta. intros b Hb. lia.
Qed.

(* ---------------------------------------------------------------- index *)
Theorem binary_index_correct : agrees impl_binary_index spec_binary_index.
Proof.
  intros a Ha. tup3 a. rename z0 into byte, z into off.
  cbn [wf_bval] in Ha. destruct Ha as (Ha & _).
  cbn [impl_binary_index flatten map spec_binary_index].
  unfold to_u8_checked, to_usize_checked, byteb, in_u64.
  destruct (0 <=? byte) eqn:E1; cbn [andb obind]; [|ill].
  destruct (byte <? 256) eqn:E2; cbn [andb obind]; [|ill].
  destruct (off <? 0) eqn:E3; destruct (0 <=? off) eqn:E4; zb; try lia; cbn [andb obind]; [ill|].
  destruct (off <? two64) eqn:E5; cbn [andb obind]; [|ill].
  rewrite find_byte_spec by assumption.
  destruct (find_from byte (bytes_of r) off); ill.
Qed.

(* ---------------------------------------------------------------- slice *)
Theorem binary_slice_correct : agrees impl_binary_slice spec_binary_slice.
Proof.
  intros a Ha. tup3 a. rename z0 into s, z into e.
  cbn [wf_bval] in Ha. destruct Ha as (Ha & _).
  pose proof (wf_rlen_bound _ Ha) as Ba. pose proof max_lt_two64 as HM.
  cbn [impl_binary_slice flatten map spec_binary_slice]. rewrite blen_bytes_of by exact Ha.
  unfold to_usize_checked, in_u64.
  destruct ((0 <=? s) && (s <=? e) && (e <=? rlen r)) eqn:Espec.
  - zb.
    destruct (s <? 0) eqn:E1; zb; [lia|]. destruct (e <? 0) eqn:E2; zb; [lia|]. cbn [orb].
    destruct (0 <=? s) eqn:E3; zb; [|lia]. destruct (s <? two64) eqn:E4; zb; [|lia]. cbn [andb obind].
    destruct (0 <=? e) eqn:E5; zb; [|lia]. destruct (e <? two64) eqn:E6; zb; [|lia]. cbn [andb obind].
    destruct (rlen r <? s) eqn:E7; zb; [lia|]. destruct (rlen r <? e) eqn:E8; zb; [lia|]. cbn [orb].
    destruct (e <? s) eqn:E9; zb; [lia|].
    destruct (mk_slice_some r s (e - s) Ha) as (x & Ex & Wx & Bx); try lia.
    rewrite Ex. rewrite alloc_wf by exact Wx.
    cbn [flatten_out flatten wf_out wf_bval]. rewrite Bx. split; [reflexivity | exact Wx].
  - split; [|].
    + destruct (s <? 0) eqn:E1; [reflexivity|]. destruct (e <? 0) eqn:E2; [reflexivity|]. cbn [orb].
      destruct ((0 <=? s) && (s <? two64)); cbn [obind]; [|reflexivity].
      destruct ((0 <=? e) && (e <? two64)); cbn [obind]; [|reflexivity].
      destruct (rlen r <? s) eqn:E7; [reflexivity|]. destruct (rlen r <? e) eqn:E8; [reflexivity|]. cbn [orb].
      destruct (e <? s) eqn:E9; [reflexivity|]. zb.
      exfalso. apply andb_false_iff in Espec. destruct Espec as [Espec|Espec]; [apply andb_false_iff in Espec; destruct Espec as [Espec|Espec]|]; zb; lia.
    + destruct (s <? 0) eqn:E1; [exact I|]. destruct (e <? 0) eqn:E2; [exact I|]. cbn [orb].
      destruct ((0 <=? s) && (s <? two64)); cbn [obind]; [|exact I].
      destruct ((0 <=? e) && (e <? two64)); cbn [obind]; [|exact I].
      destruct (rlen r <? s) eqn:E7; [exact I|]. destruct (rlen r <? e) eqn:E8; [exact I|]. cbn [orb].
      destruct (e <? s) eqn:E9; [exact I|]. zb.
      exfalso. apply andb_false_iff in Espec. destruct Espec as [Espec|Espec]; [apply andb_false_iff in Espec; destruct Espec as [Espec|Espec]|]; zb; lia.
Qed.

(* ---------------------------------------------------------------- popcount *)
Lemma popcount_bits_set : forallb (fun b => popcount b =? bits_set b) (zrange 256) = true.
Proof. vm_compute. reflexivity. Qed.

Lemma popcount_byte b : 0 <= b < 256 -> popcount b = bits_set b.
Proof.
  intros H. pose proof popcount_bits_set as P. rewrite forallb_forall in P.
  apply Z.eqb_eq. apply P. apply zrange_In. exact H.
Qed.

Lemma filter_length_le' {A} (f : A -> bool) l : (length (filter f l) <= length l)%nat.
Proof. induction l as [|x t IH]; cbn [filter length]; [lia|]. destruct (f x); cbn [length]; lia. Qed.

Lemma bits_set_bound b : 0 <= bits_set b <= 8.
Proof.
  unfold bits_set. pose proof (filter_length_le' (fun i => Z.testbit b (Z.of_nat i)) (seq 0 8)) as H.
  rewrite seq_length in H. lia.
Qed.

Lemma fold_popcount l acc : bytes_ok l ->
  fold_left (fun acc b => acc + popcount b) l acc = acc + fold_right Z.add 0 (map bits_set l).
Proof.
  intros H. revert acc. induction H as [|b t Hb Ht IH]; intros acc; cbn [fold_left map fold_right]; [lia|].
  rewrite IH. rewrite popcount_byte by exact Hb. lia.
Qed.

Lemma sum_bits_set_bound l : 0 <= fold_right Z.add 0 (map bits_set l) <= 8 * Z.of_nat (length l).
Proof.
  induction l as [|b t IH]; cbn [map fold_right length]; [lia|].
  pose proof (bits_set_bound b). lia.
Qed.

Theorem binary_popcount_correct : agrees impl_binary_popcount spec_binary_popcount.
Proof.
  intros a Ha. destruct a as [z|r|fs|]; try ill.
  cbn [wf_bval] in Ha. cbn [impl_binary_popcount flatten spec_binary_popcount].
  rewrite rope_iter_spec by exact Ha. rewrite fold_popcount by (apply bytes_of_ok; exact Ha).
  rewrite Z.add_0_l.
  pose proof (sum_bits_set_bound (bytes_of r)) as B. pose proof (wf_rlen_bound _ Ha) as Ba.
  rewrite (rlen_bytes_of _ Ha) in Ba.
  rewrite in_u64_true by (unfold two64, MAX_BINARY_SIZE in *; lia). ill.
Qed.

(* ---------------------------------------------------------------- hash32 / hash64 *)
Theorem binary_hash32_correct : agrees impl_binary_hash32 spec_binary_hash32.
Proof.
  intros a Ha. destruct a as [z|r|fs|]; try ill.
  cbn [wf_bval] in Ha. cbn [impl_binary_hash32 flatten spec_binary_hash32].
  rewrite rope_iter_spec by exact Ha. ill.
Qed.

Theorem binary_hash64_correct : agrees impl_binary_hash64 spec_binary_hash64.
Proof.
  intros a Ha. destruct a as [z|r|fs|]; try ill.
  cbn [wf_bval] in Ha. cbn [impl_binary_hash64 flatten spec_binary_hash64].
  rewrite rope_iter_spec by exact Ha. ill.
Qed.

(* ---------------------------------------------------------------- non-vacuity *)
Example binary_examples :
  wf_bval (BTup [BBin (Concat (Slice (Owned [1;2;3;4;5]) 1 3) (Tiled (Owned [7;0]) 2) 7); BInt 0; BInt 2]) /\
  flatten_out (impl_binary_index (BTup [BBin (Concat (Slice (Owned [1;2;3;4;5]) 1 3) (Tiled (Owned [7;0]) 2) 7); BInt 0; BInt 2]))
    = Val (FInt 4) /\
  flatten_out (impl_binary_xor (BTup [BBin (Zeroed 3); BBin (Owned [255])])) = Val (FBin [255;0;0]) /\
  flatten_out (impl_binary_hash32 (BBin (Owned [97]))) = Val (FInt 3826002220).
Proof.
  split.
  - cbn [wf_bval wf rlen]. unfold bytes_ok, MAX_BINARY_SIZE. cbn [length].
    repeat split; try lia; repeat constructor; lia.
  - vm_compute. repeat split; reflexivity.
Qed.
