(* BinaryProofs.v — the binary builtins that are direct rope operations or byte-wise maps/folds
   (new, length, concat, repeat, and, or, xor, not, index, slice, popcount, hash32, hash64) agree
   with their reference specs. binary_shift is in BinaryShiftProofs.v; binary_get/set/append in
   BinaryBitsProofs.v. *)
From Quiver Require Import BuiltinWf.
From Coq Require Import Lia.

(* both sides are Err TypeMismatch on an ill-shaped argument *)
Ltac ill := split; [reflexivity | exact I].

(* reduce `a` to the single well-shaped case of a 2-field / 3-field builtin *)
Ltac tup2 a :=
  destruct a as [?|?|fs|]; try ill;
  destruct fs as [|x fs]; try ill;
  destruct fs as [|y fs]; [destruct x; ill|];
  destruct fs as [|? ?]; [|destruct x; try ill; destruct y; ill];
  destruct x; try ill; destruct y; try ill.
Ltac tup3 a :=
  destruct a as [?|?|fs|]; try ill;
  destruct fs as [|x fs]; try ill;
  destruct fs as [|y fs]; [destruct x; ill|];
  destruct fs as [|z fs]; [destruct x; try ill; destruct y; ill|];
  destruct fs as [|? ?]; [|destruct x; try ill; destruct y; try ill; destruct z; ill];
  destruct x; try ill; destruct y; try ill; destruct z; try ill.

Local Ltac zb :=
  repeat match goal with
  | H : (_ <=? _) = true |- _ => apply Z.leb_le in H
  | H : (_ <=? _) = false |- _ => apply Z.leb_gt in H
  | H : (_ <? _) = true |- _ => apply Z.ltb_lt in H
  | H : (_ <? _) = false |- _ => apply Z.ltb_ge in H
  | H : (_ =? _) = true |- _ => apply Z.eqb_eq in H
  | H : (_ =? _) = false |- _ => apply Z.eqb_neq in H
  | H : (_ && _) = true |- _ => apply andb_true_iff in H; destruct H
  | H : (_ || _) = false |- _ => apply orb_false_iff in H; destruct H
  end.

Lemma max_lt_two64 : MAX_BINARY_SIZE < two64.
Proof. unfold MAX_BINARY_SIZE, two64. lia. Qed.

Lemma in_u64_true z : 0 <= z < two64 -> in_u64 z = true.
Proof. intros H. unfold in_u64. apply andb_true_iff. split; [apply Z.leb_le | apply Z.ltb_lt]; lia. Qed.

(* ---------------------------------------------------------------- length *)
Theorem binary_length_correct : agrees impl_binary_length spec_binary_length.
Proof.
  intros a Ha. destruct a as [z|r|fs|]; try ill.
  cbn [wf_bval] in Ha. split; [|exact I].
  cbn [impl_binary_length flatten_out flatten spec_binary_length]. rewrite blen_bytes_of by exact Ha. reflexivity.
Qed.

(* ---------------------------------------------------------------- new *)
Theorem binary_new_correct : agrees impl_binary_new spec_binary_new.
Proof.
  intros a _. destruct a as [z|r|fs|]; try ill.
  cbn [impl_binary_new flatten spec_binary_new]. unfold to_usize_checked, in_u64.
  pose proof max_lt_two64 as HM.
  destruct (z <? 0) eqn:E1; zb.
  - destruct (0 <=? z) eqn:E2; zb; [lia|]. cbn [andb]. ill.
  - destruct (0 <=? z) eqn:E2; zb; [|lia]. cbn [andb obind].
    destruct (z <? two64) eqn:E3; zb; cbn [obind].
    + destruct (MAX_BINARY_SIZE <? z) eqn:E4; destruct (z <=? MAX_BINARY_SIZE) eqn:E5; zb; try lia; [ill|].
      rewrite alloc_ok by (cbn [rlen]; lia). cbn [flatten_out flatten bytes_of wf_out wf_bval wf]. split; [reflexivity | lia].
    + destruct (z <=? MAX_BINARY_SIZE) eqn:E5; zb; [lia | ill].
Qed.

(* ---------------------------------------------------------------- concat *)
Theorem binary_concat_correct : agrees impl_binary_concat spec_binary_concat.
Proof.
  intros a Ha. tup2 a. rename r into ra, r0 into rb.
  cbn [wf_bval] in Ha. destruct Ha as (Ha & Hb & _).
  pose proof (wf_rlen_bound _ Ha) as Ba. pose proof (wf_rlen_bound _ Hb) as Bb. pose proof max_lt_two64 as HM.
  cbn [impl_binary_concat flatten map spec_binary_concat]. rewrite !blen_bytes_of by assumption.
  rewrite in_u64_true by (unfold two64, MAX_BINARY_SIZE in *; lia).
  cbn [negb].
  destruct (MAX_BINARY_SIZE <? rlen ra + rlen rb) eqn:E1; destruct (rlen ra + rlen rb <=? MAX_BINARY_SIZE) eqn:E2; zb; try lia; [ill|].
  rewrite alloc_ok by (cbn [mk_concat rlen]; lia).
  cbn [flatten_out flatten wf_out wf_bval]. split; [reflexivity|]. apply mk_concat_wf; assumption.
Qed.

(* ---------------------------------------------------------------- repeat *)
Theorem binary_repeat_correct : agrees impl_binary_repeat spec_binary_repeat.
Proof.
  intros a Ha. tup2 a.
  cbn [wf_bval] in Ha. destruct Ha as (Ha & _).
  pose proof (wf_rlen_bound _ Ha) as Ba. pose proof max_lt_two64 as HM.
  cbn [impl_binary_repeat flatten map spec_binary_repeat]. rewrite !blen_bytes_of by assumption.
  unfold to_usize_checked, checked_mul_usize, in_u64.
  destruct (z <? 0) eqn:E1; zb.
  { destruct (0 <=? z) eqn:E2; zb; [lia | ill]. }
  destruct (0 <=? z) eqn:E2; zb; [|lia]. cbn [andb].
  destruct (z <? two64) eqn:E3; zb; cbn [obind andb]; [|ill].
  assert (Hp : 0 <= rlen r * z) by (apply Z.mul_nonneg_nonneg; lia).
  destruct (0 <=? rlen r * z) eqn:E4; zb; [|lia]. cbn [andb].
  destruct (rlen r * z <? two64) eqn:E5; zb.
  - destruct (MAX_BINARY_SIZE <? rlen r * z) eqn:E6; destruct (rlen r * z <=? MAX_BINARY_SIZE) eqn:E7; zb; try lia; [ill|].
    pose proof (mk_tiled_wf r z Ha E2 E7) as Hw.
    rewrite alloc_wf by exact Hw. cbn [flatten_out flatten wf_out wf_bval]. split; [|exact Hw].
    rewrite mk_tiled_bytes by assumption. reflexivity.
  - destruct (rlen r * z <=? MAX_BINARY_SIZE) eqn:E7; zb; [lia | ill].
Qed.
