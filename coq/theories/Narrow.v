(* Narrow.v — models of the narrowing primitives (quiver-compiler/src/compiler/narrowing.rs,
   typing.rs `union_type_ids`).  They mutate the `Program` (register new tuple / type entries), so
   every function takes the registry and returns the new one with its result.
   `None` = out of fuel. *)
From Quiver Require Import Base Types Rel.
From Coq Require Import Arith.
Close Scope Z_scope.
Open Scope nat_scope.

(* fix 79f9965 (F25b): intersect_pair builds the exact meet of two non-recursive callable
   (process) types instead of answering `a` for every overlapping pair *)
Definition current_meet_callable : bool := true.   (* since fix 79f9965 (F25b) *)

Section Narrow.
  Variable cfg : rel_cfg.
  Variable rel_fuel : nat.

  Definition is_compatible (P : registry) (a b : nat) : option bool := is_compatible_with cfg rel_fuel P a b.
  Definition types_overlap (P : registry) (a b : nat) : option bool := types_overlap_with cfg rel_fuel P a b.

  (* typing.rs:30-53 *)
  Fixpoint dedup (seen : list nat) (l : list nat) : list nat :=
    match l with
    | [] => []
    | x :: l' => if existsb (Nat.eqb x) seen then dedup seen l' else x :: dedup (x :: seen) l'
    end.

  Definition union_type_ids (P : registry) (type_ids : list nat) : registry * nat :=
    let flattened :=
      flat_map (fun id => match lookup_type P id with
                          | Some (TUnion variants) => variants
                          | _ => [id]
                          end) type_ids in
    let unique := dedup [] flattened in
    match unique with
    | [] => never P
    | [x] => (P, x)
    | _ => register_type P (TUnion unique)
    end.

  (* narrowing.rs:277-295  contains_cycle, threading `seen` through the short-circuiting `any` *)
  Fixpoint contains_cycle (fuel : nat) (P : registry) (seen : list nat) (type_id : nat)
    : option (bool * list nat) :=
    match fuel with
    | 0 => None
    | S f =>
      if existsb (Nat.eqb type_id) seen then Some (false, seen) else
      let seen1 := type_id :: seen in
      let any_child :=
        fix any_child (seen : list nat) (children : list nat) : option (bool * list nat) :=
          match children with
          | [] => Some (false, seen)
          | c :: children' =>
            match contains_cycle f P seen c with
            | None => None
            | Some (true, seen') => Some (true, seen')
            | Some (false, seen') => any_child seen' children'
            end
          end in
      match lookup_type P type_id with
      | Some (TCycle _) => Some (true, seen1)
      | Some (TUnion ids) => any_child seen1 ids
      | Some (TTuple tuple_id) =>
        match lookup_tuple P tuple_id with
        | Some info => any_child seen1 (map snd (tfields info))
        | None => Some (false, seen1)
        end
      | Some (TPartial _ fields) => any_child seen1 (map snd fields)
      (* since fix 2bb39f1 (F56): Callable => [parameter, result, receive]; Process => send ++ receive *)
      | Some (TCallable parameter result receive) =>
        if cfg_cc_callable cfg then any_child seen1 [parameter; result; receive] else Some (false, seen1)
      | Some (TProcess send receive) =>
        if cfg_cc_callable cfg
        then any_child seen1 ((match send with Some x => [x] | None => [] end)
                              ++ (match receive with Some x => [x] | None => [] end))
        else Some (false, seen1)
      | _ => Some (false, seen1)
      end
    end.

  Definition cyclic (fuel : nat) (P : registry) (t : nat) : option bool :=
    option_map fst (contains_cycle fuel P [] t).

  (* ---- intersect_types / intersect_pair, narrowing.rs:303-372 ----
     The Rust loops are top-level definitions here, parametrised by the recursive call (as in
     Rel.v), so that they can be reasoned about. *)
  Section IntersectLoops.
    Variable ipair : registry -> nat -> nat -> option (registry * nat).    (* intersect_pair *)
    Variable itypes : registry -> nat -> nat -> option (registry * nat).   (* intersect_types *)

    (* narrowing.rs:310-315  for bv in b_variants { piece = intersect_pair(av, bv); if piece != never { push } } *)
    Fixpoint isect_inner (never_id : nat) (P : registry) (pieces : list nat) (av : nat) (bvs : list nat)
      : option (registry * list nat) :=
      match bvs with
      | [] => Some (P, pieces)
      | bv :: bvs' =>
        match ipair P av bv with
        | None => None
        | Some (P', piece) =>
          isect_inner never_id P' (if Nat.eqb piece never_id then pieces else pieces ++ [piece]) av bvs'
        end
      end.

    (* narrowing.rs:309  for av in a_variants *)
    Fixpoint isect_outer (never_id : nat) (b_variants : list nat) (P : registry) (pieces : list nat) (avs : list nat)
      : option (registry * list nat) :=
      match avs with
      | [] => Some (P, pieces)
      | av :: avs' =>
        match isect_inner never_id P pieces av b_variants with
        | None => None
        | Some (P', pieces') => isect_outer never_id b_variants P' pieces' avs'
        end
      end.

    (* narrowing.rs:354-360  for ((name, f1), (_, f2)) in zip { fi = intersect_types(f1, f2);
         if fi == program.never() { return never }  fields.push((name, fi)) }   (None = returned never) *)
    Fixpoint isect_fields (P : registry) (acc : list (option nat * nat)) (fs1 fs2 : list (option nat * nat))
      : option (registry * option (list (option nat * nat))) :=
      match fs1, fs2 with
      | (name, f1) :: fs1', (_, f2) :: fs2' =>
        match itypes P f1 f2 with
        | None => None
        | Some (P1, fi) =>
          let '(P2, nv) := never P1 in
          if Nat.eqb fi nv then Some (P2, None)
          else isect_fields P2 (acc ++ [(name, fi)]) fs1' fs2'
        end
      | _, _ => Some (P, Some acc)
      end.
  End IntersectLoops.

  Fixpoint intersect_types (fuel : nat) (P : registry) (a_id b_id : nat) : option (registry * nat) :=
    match fuel with
    | 0 => None
    | S f =>
      let a_variants := get_type_variants P a_id in
      let b_variants := get_type_variants P b_id in
      let '(P0, never_id) := never P in
      match isect_outer (intersect_pair f) never_id b_variants P0 [] a_variants with
      | None => None
      | Some (P1, pieces) => Some (union_type_ids P1 pieces)
      end
    end

  with intersect_pair (fuel : nat) (P : registry) (a b : nat) : option (registry * nat) :=
    match fuel with
    | 0 => None
    | S f =>
      if Nat.eqb a b then Some (P, a) else
      let '(P0, never_id) := never P in
      match lookup_type P0 a, lookup_type P0 b with
      | Some ta, Some tb =>
        match ta, tb with
        | TVariable _, _ => Some (P0, a)
        | _, TVariable _ => Some (P0, a)
        | TCycle _, _ => Some (P0, a)
        | _, TCycle _ => Some (P0, a)
        | TInteger, TInteger => Some (P0, a)
        | TBinary, TBinary => Some (P0, a)
        | TReference, TReference => Some (P0, a)
        | TTuple id1, TTuple id2 =>
          match lookup_tuple P0 id1, lookup_tuple P0 id2 with
          | Some i1, Some i2 =>
            if negb (opt_eqb (tname i1) (tname i2))
               || negb (Nat.eqb (length (tfields i1)) (length (tfields i2)))
            then Some (P0, never_id)
            else
              match isect_fields (intersect_types f) P0 [] (tfields i1) (tfields i2) with
              | None => None
              | Some (P1, None) => Some (P1, never_id)
              | Some (P1, Some fields) =>
                let '(P2, tuple_id) := register_tuple P1 (tname i1) fields in
                Some (register_type P2 (TTuple tuple_id))
              end
          | _, _ => Some (P0, never_id)
          end
        (* fix_F25b: `if !contains_cycle(a) && !contains_cycle(b)` guards both arms *)
        | TCallable p1 r1 c1, TCallable p2 r2 c2 =>
          let default :=
            match types_overlap P0 a b with
            | None => None
            | Some true => Some (P0, a)
            | Some false => Some (P0, never_id)
            end in
          if negb current_meet_callable then default else
          match cyclic rel_fuel P0 a with
          | None => None
          | Some ca =>
          match (if ca then Some true else cyclic rel_fuel P0 b) with
          | None => None
          | Some true => default
          | Some false =>
            match is_compatible P0 a b with
            | None => None
            | Some true => Some (P0, a)
            | Some false =>
            match is_compatible P0 b a with
            | None => None
            | Some true => Some (P0, b)
            | Some false =>
              let '(P1, parameter) := union_type_ids P0 [p1; p2] in
              match intersect_types f P1 r1 r2 with
              | None => None
              | Some (P2, result) =>
                let '(P3, receive) := union_type_ids P2 [c1; c2] in
                Some (register_type P3 (TCallable parameter result receive))
              end
            end end
          end end
        | TProcess s1 r1, TProcess s2 r2 =>
          let default :=
            match types_overlap P0 a b with
            | None => None
            | Some true => Some (P0, a)
            | Some false => Some (P0, never_id)
            end in
          if negb current_meet_callable then default else
          match cyclic rel_fuel P0 a with
          | None => None
          | Some ca =>
          match (if ca then Some true else cyclic rel_fuel P0 b) with
          | None => None
          | Some true => default
          | Some false =>
            match is_compatible P0 a b with
            | None => None
            | Some true => Some (P0, a)
            | Some false =>
            match is_compatible P0 b a with
            | None => None
            | Some true => Some (P0, b)
            | Some false =>
              (* meet(x, y): both known => intersect; one unknown => the other; none => unknown *)
              let meet (P : registry) (x y : option nat) : option (registry * option nat) :=
                match x, y with
                | Some x, Some y => match intersect_types f P x y with
                                    | None => None
                                    | Some (P', m) => Some (P', Some m)
                                    end
                | Some x, None => Some (P, Some x)
                | None, Some y => Some (P, Some y)
                | None, None => Some (P, None)
                end in
              match meet P0 s1 s2 with
              | None => None
              | Some (P1, send) =>
                match meet P1 r1 r2 with
                | None => None
                | Some (P2, receive) => Some (register_type P2 (TProcess send receive))
                end
              end
            end end
          end end
        | _, _ =>
          match types_overlap P0 a b with
          | None => None
          | Some true => Some (P0, a)
          | Some false => Some (P0, never_id)
          end
        end
      | _, _ => Some (P0, never_id)
      end
    end.

  (* `fields[i].1 = v` *)
  Fixpoint set_field_type (fields : list (option nat * nat)) (i v : nat) : list (option nat * nat) :=
    match fields, i with
    | [], _ => []
    | (n, _) :: fs, 0 => (n, v) :: fs
    | f :: fs, S i' => f :: set_field_type fs i' v
    end.

  (* ---- compute_complement / subtract_one, narrowing.rs:403-479 ---- *)
  Section ComplementLoops.
    Variable sub1 : registry -> nat -> nat -> option (registry * list nat).      (* subtract_one *)
    Variable compl : registry -> nat -> nat -> option (registry * nat).          (* compute_complement *)

    (* narrowing.rs:407-410  for piece in pieces { next.extend(subtract_one(piece, nv)) } *)
    Fixpoint compl_per_piece (P : registry) (next : list nat) (pieces : list nat) (nv : nat)
      : option (registry * list nat) :=
      match pieces with
      | [] => Some (P, next)
      | piece :: pieces' =>
        match sub1 P piece nv with
        | None => None
        | Some (P1, out) => compl_per_piece P1 (next ++ out) pieces' nv
        end
      end.

    (* narrowing.rs:406-412  for nv in narrowed_variants { pieces = next } *)
    Fixpoint compl_per_nv (P : registry) (pieces : list nat) (nvs : list nat) : option (registry * list nat) :=
      match nvs with
      | [] => Some (P, pieces)
      | nv :: nvs' =>
        match compl_per_piece P [] pieces nv with
        | None => None
        | Some (P1, next) => compl_per_nv P1 next nvs'
        end
      end.

    (* narrowing.rs:465-475  for (i, ((_, f1), (_, f2))) in zip.enumerate() {
         fc = compute_complement(f1, f2); if fc == never { continue }
         fields = i1.fields.clone(); fields[i].1 = fc; out.push(Type::Tuple(register_tuple(name, fields))) } *)
    Fixpoint compl_fields (never_id : nat) (name : option nat) (all_fields : list (option nat * nat))
             (P : registry) (out : list nat) (i : nat) (fs1 fs2 : list (option nat * nat))
      : option (registry * list nat) :=
      match fs1, fs2 with
      | (_, f1) :: fs1', (_, f2) :: fs2' =>
        match compl P f1 f2 with
        | None => None
        | Some (P1, fc) =>
          if Nat.eqb fc never_id then compl_fields never_id name all_fields P1 out (S i) fs1' fs2'
          else
            let fields := set_field_type all_fields i fc in
            let '(P2, tuple_id) := register_tuple P1 name fields in
            let '(P3, ty_id) := register_type P2 (TTuple tuple_id) in
            compl_fields never_id name all_fields P3 (out ++ [ty_id]) (S i) fs1' fs2'
        end
      | _, _ => Some (P, out)
      end.
  End ComplementLoops.

  Fixpoint compute_complement (fuel : nat) (P : registry) (original_id narrowed_id : nat)
    : option (registry * nat) :=
    match fuel with
    | 0 => None
    | S f =>
      let narrowed_variants := get_type_variants P narrowed_id in
      let pieces0 := get_type_variants P original_id in
      match compl_per_nv (subtract_one f) P pieces0 narrowed_variants with
      | None => None
      | Some (P1, pieces) => Some (union_type_ids P1 pieces)
      end
    end

  with subtract_one (fuel : nat) (P : registry) (a b : nat) : option (registry * list nat) :=
    match fuel with
    | 0 => None
    | S f =>
      if Nat.eqb a b then Some (P, []) else
      match lookup_type P a, lookup_type P b with
      | Some ta, Some tb =>
        let is_cycle t := match t with TCycle _ => true | _ => false end in
        if is_cycle ta || is_cycle tb then Some (P, [a]) else
        match cyclic rel_fuel P a with
        | None => None
        | Some ca =>
        match (if ca then Some true else cyclic rel_fuel P b) with
        | None => None
        | Some cyc =>
          (* the two shortcuts, only for cycle-free operands; Some l = early return *)
          let shortcut : option (option (list nat)) :=
            if cyc then Some None else
            match is_compatible P a b with
            | None => None
            | Some true => Some (Some [])
            | Some false =>
              match types_overlap P a b with
              | None => None
              | Some false => Some (Some [a])
              | Some true => Some None
              end
            end in
          match shortcut with
          | None => None
          | Some (Some early) => Some (P, early)
          | Some None =>
            let '(P0, never_id) := never P in
            match ta, tb with
            | TTuple id1, TTuple id2 =>
              match lookup_tuple P0 id1, lookup_tuple P0 id2 with
              | Some i1, Some i2 =>
                (* since fix f9e893e (F26): `|| zip(fields).any(|((n1,_),(n2,_))| n1 != n2)` *)
                if negb (opt_eqb (tname i1) (tname i2))
                   || negb (Nat.eqb (length (tfields i1)) (length (tfields i2)))
                   || existsb (fun ab => negb (opt_eqb (fst (fst ab)) (fst (snd ab))))
                              (combine (tfields i1) (tfields i2))
                then Some (P0, [a])
                else compl_fields (compute_complement f) never_id (tname i1) (tfields i1) P0 [] 0
                                  (tfields i1) (tfields i2)
              | _, _ => Some (P0, [a])
              end
            | _, _ => Some (P0, [a])
            end
          end
        end end
      | _, _ => Some (P, [a])
      end
    end.

  (* narrowing.rs:487-515  get_field_type *)
  Definition get_field_type (P : registry) (type_id field_idx : nat) : option (registry * nat) :=
    let variants := get_type_variants P type_id in
    let field_type_ids :=
      flat_map (fun variant_id =>
        match lookup_type P variant_id with
        | Some (TTuple tuple_id) =>
          match lookup_tuple P tuple_id with
          | Some info => match nth_error (tfields info) field_idx with Some f => [snd f] | None => [] end
          | None => []
          end
        | Some (TPartial _ fields) =>
          match nth_error fields field_idx with Some f => [snd f] | None => [] end
        | _ => []
        end) variants in
    match field_type_ids with
    | [] => None
    | _ => Some (union_type_ids P field_type_ids)
    end.

  (* narrowing.rs:375-394  filter_variants_by_field.
     [by_overlap] selects the test applied to a variant's field type: `false` = is_compatible (the
     code as it is), `true` = types_overlap (fix d6406e8, F87: after a
     runtime test on the field succeeded, a variant whose field type merely OVERLAPS the tested type
     can still be the value). *)
  Fixpoint filter_loop (by_overlap : bool) (field_idx field_must_be_id : nat)
           (P : registry) (filtered : list nat) (vs : list nat) : option (registry * list nat) :=
    match vs with
    | [] => Some (P, filtered)
    | variant_id :: vs' =>
      match get_field_type P variant_id field_idx with
      | None => filter_loop by_overlap field_idx field_must_be_id P filtered vs'
      | Some (P1, field_type_id) =>
        match (if by_overlap then types_overlap P1 field_type_id field_must_be_id
               else is_compatible P1 field_type_id field_must_be_id) with
        | None => None
        | Some true => filter_loop by_overlap field_idx field_must_be_id P1 (filtered ++ [variant_id]) vs'
        | Some false => filter_loop by_overlap field_idx field_must_be_id P1 filtered vs'
        end
      end
    end.

  Definition filter_variants_by_field (by_overlap : bool) (P : registry) (parent_type_id field_idx field_must_be_id : nat)
    : option (registry * nat) :=
    match filter_loop by_overlap field_idx field_must_be_id P [] (get_type_variants P parent_type_id) with
    | None => None
    | Some (P1, filtered) => Some (union_type_ids P1 filtered)
    end.
End Narrow.

(* which test /repo's filter_variants_by_field applies today *)
Definition current_filter_by_overlap : bool := true.   (* since fix d6406e8 (F87) *)
