(* Narrow.v — models of the narrowing primitives (quiver-compiler/src/compiler/narrowing.rs,
   typing.rs `union_type_ids`).  They mutate the `Program` (register new tuple / type entries), so
   every function takes the registry and returns the new one with its result.
   `None` = out of fuel. *)
From Quiver Require Import Base Types Rel.
From Coq Require Import Arith.
Close Scope Z_scope.
Open Scope nat_scope.

Section Narrow.
  Variable cfg : rel_cfg.
  Variable rel_fuel : nat.

  Definition is_compatible (P : registry) (a b : nat) : option bool := is_compatible_with cfg rel_fuel P a b.
  Definition types_overlap (P : registry) (a b : nat) : option bool := types_overlap_with cfg rel_fuel P a b.

  (* typing.rs:30-53 *)
  Fixpoint dedup (seen : list nat) (l : list nat) : list nat :=
    match l with
    | [] => []
    | x :: l' => if existsb (Nat.eqb x) seen then dedup seen l' else x :: dedup (x :: seen) l'
    end.

  Definition union_type_ids (P : registry) (type_ids : list nat) : registry * nat :=
    let flattened :=
      flat_map (fun id => match lookup_type P id with
                          | Some (TUnion variants) => variants
                          | _ => [id]
                          end) type_ids in
    let unique := dedup [] flattened in
    match unique with
    | [] => never P
    | [x] => (P, x)
    | _ => register_type P (TUnion unique)
    end.

  (* narrowing.rs:277-295  contains_cycle, threading `seen` through the short-circuiting `any` *)
  Fixpoint contains_cycle (fuel : nat) (P : registry) (seen : list nat) (type_id : nat)
    : option (bool * list nat) :=
    match fuel with
    | 0 => None
    | S f =>
      if existsb (Nat.eqb type_id) seen then Some (false, seen) else
      let seen1 := type_id :: seen in
      let any_child :=
        fix any_child (seen : list nat) (children : list nat) : option (bool * list nat) :=
          match children with
          | [] => Some (false, seen)
          | c :: children' =>
            match contains_cycle f P seen c with
            | None => None
            | Some (true, seen') => Some (true, seen')
            | Some (false, seen') => any_child seen' children'
            end
          end in
      match lookup_type P type_id with
      | Some (TCycle _) => Some (true, seen1)
      | Some (TUnion ids) => any_child seen1 ids
      | Some (TTuple tuple_id) =>
        match lookup_tuple P tuple_id with
        | Some info => any_child seen1 (map snd (tfields info))
        | None => Some (false, seen1)
        end
      | Some (TPartial _ fields) => any_child seen1 (map snd fields)
      (* since fix 2bb39f1 (F56): Callable => [parameter, result, receive]; Process => send ++ receive *)
      | Some (TCallable parameter result receive) =>
        if cfg_cc_callable cfg then any_child seen1 [parameter; result; receive] else Some (false, seen1)
      | Some (TProcess send receive) =>
        if cfg_cc_callable cfg
        then any_child seen1 ((match send with Some x => [x] | None => [] end)
                              ++ (match receive with Some x => [x] | None => [] end))
        else Some (false, seen1)
      | _ => Some (false, seen1)
      end
    end.

  Definition cyclic (fuel : nat) (P : registry) (t : nat) : option bool :=
    option_map fst (contains_cycle fuel P [] t).

  (* ---- intersect_types / intersect_pair, narrowing.rs:303-372 ---- *)
  Fixpoint intersect_types (fuel : nat) (P : registry) (a_id b_id : nat) : option (registry * nat) :=
    match fuel with
    | 0 => None
    | S f =>
      let a_variants := get_type_variants P a_id in
      let b_variants := get_type_variants P b_id in
      let '(P0, never_id) := never P in
      (* for av in a_variants { for bv in b_variants { piece = intersect_pair(av, bv) .. } } *)
      let inner :=
        fix inner (P : registry) (pieces : list nat) (av : nat) (bvs : list nat)
          : option (registry * list nat) :=
          match bvs with
          | [] => Some (P, pieces)
          | bv :: bvs' =>
            match intersect_pair f P av bv with
            | None => None
            | Some (P', piece) =>
              inner P' (if Nat.eqb piece never_id then pieces else pieces ++ [piece]) av bvs'
            end
          end in
      let outer :=
        fix outer (P : registry) (pieces : list nat) (avs : list nat) : option (registry * list nat) :=
          match avs with
          | [] => Some (P, pieces)
          | av :: avs' =>
            match inner P pieces av b_variants with
            | None => None
            | Some (P', pieces') => outer P' pieces' avs'
            end
          end in
      match outer P0 [] a_variants with
      | None => None
      | Some (P1, pieces) => Some (union_type_ids P1 pieces)
      end
    end

  with intersect_pair (fuel : nat) (P : registry) (a b : nat) : option (registry * nat) :=
    match fuel with
    | 0 => None
    | S f =>
      if Nat.eqb a b then Some (P, a) else
      let '(P0, never_id) := never P in
      match lookup_type P0 a, lookup_type P0 b with
      | Some ta, Some tb =>
        match ta, tb with
        | TVariable _, _ => Some (P0, a)
        | _, TVariable _ => Some (P0, a)
        | TCycle _, _ => Some (P0, a)
        | _, TCycle _ => Some (P0, a)
        | TInteger, TInteger => Some (P0, a)
        | TBinary, TBinary => Some (P0, a)
        | TReference, TReference => Some (P0, a)
        | TTuple id1, TTuple id2 =>
          match lookup_tuple P0 id1, lookup_tuple P0 id2 with
          | Some i1, Some i2 =>
            if negb (opt_eqb (tname i1) (tname i2))
               || negb (Nat.eqb (length (tfields i1)) (length (tfields i2)))
            then Some (P0, never_id)
            else
              (* for ((name, f1), (_, f2)) in zip { fi = intersect_types(f1, f2); if fi == never return never } *)
              let fields_loop :=
                fix fields_loop (P : registry) (acc : list (option nat * nat))
                    (fs1 fs2 : list (option nat * nat)) : option (registry * option (list (option nat * nat))) :=
                  match fs1, fs2 with
                  | (name, f1) :: fs1', (_, f2) :: fs2' =>
                    match intersect_types f P f1 f2 with
                    | None => None
                    | Some (P', fi) =>
                      let '(P'', nv) := never P' in
                      if Nat.eqb fi nv then Some (P'', None)
                      else fields_loop P'' (acc ++ [(name, fi)]) fs1' fs2'
                    end
                  | _, _ => Some (P, Some acc)
                  end in
              match fields_loop P0 [] (tfields i1) (tfields i2) with
              | None => None
              | Some (P1, None) => Some (P1, never_id)
              | Some (P1, Some fields) =>
                let '(P2, tuple_id) := register_tuple P1 (tname i1) fields in
                Some (register_type P2 (TTuple tuple_id))
              end
          | _, _ => Some (P0, never_id)
          end
        | _, _ =>
          match types_overlap P0 a b with
          | None => None
          | Some true => Some (P0, a)
          | Some false => Some (P0, never_id)
          end
        end
      | _, _ => Some (P0, never_id)
      end
    end.

  (* `fields[i].1 = v` *)
  Fixpoint set_field_type (fields : list (option nat * nat)) (i v : nat) : list (option nat * nat) :=
    match fields, i with
    | [], _ => []
    | (n, _) :: fs, 0 => (n, v) :: fs
    | f :: fs, S i' => f :: set_field_type fs i' v
    end.

  (* ---- compute_complement / subtract_one, narrowing.rs:403-479 ---- *)
  Fixpoint compute_complement (fuel : nat) (P : registry) (original_id narrowed_id : nat)
    : option (registry * nat) :=
    match fuel with
    | 0 => None
    | S f =>
      let narrowed_variants := get_type_variants P narrowed_id in
      let pieces0 := get_type_variants P original_id in
      let per_piece :=
        fix per_piece (P : registry) (next : list nat) (pieces : list nat) (nv : nat)
          : option (registry * list nat) :=
          match pieces with
          | [] => Some (P, next)
          | piece :: pieces' =>
            match subtract_one f P piece nv with
            | None => None
            | Some (P', out) => per_piece P' (next ++ out) pieces' nv
            end
          end in
      let per_nv :=
        fix per_nv (P : registry) (pieces : list nat) (nvs : list nat) : option (registry * list nat) :=
          match nvs with
          | [] => Some (P, pieces)
          | nv :: nvs' =>
            match per_piece P [] pieces nv with
            | None => None
            | Some (P', next) => per_nv P' next nvs'
            end
          end in
      match per_nv P pieces0 narrowed_variants with
      | None => None
      | Some (P1, pieces) => Some (union_type_ids P1 pieces)
      end
    end

  with subtract_one (fuel : nat) (P : registry) (a b : nat) : option (registry * list nat) :=
    match fuel with
    | 0 => None
    | S f =>
      if Nat.eqb a b then Some (P, []) else
      match lookup_type P a, lookup_type P b with
      | Some ta, Some tb =>
        let is_cycle t := match t with TCycle _ => true | _ => false end in
        if is_cycle ta || is_cycle tb then Some (P, [a]) else
        match cyclic rel_fuel P a with
        | None => None
        | Some ca =>
        match (if ca then Some true else cyclic rel_fuel P b) with
        | None => None
        | Some cyc =>
          (* the two shortcuts, only for cycle-free operands; Some l = early return *)
          let shortcut : option (option (list nat)) :=
            if cyc then Some None else
            match is_compatible P a b with
            | None => None
            | Some true => Some (Some [])
            | Some false =>
              match types_overlap P a b with
              | None => None
              | Some false => Some (Some [a])
              | Some true => Some None
              end
            end in
          match shortcut with
          | None => None
          | Some (Some early) => Some (P, early)
          | Some None =>
            let '(P0, never_id) := never P in
            match ta, tb with
            | TTuple id1, TTuple id2 =>
              match lookup_tuple P0 id1, lookup_tuple P0 id2 with
              | Some i1, Some i2 =>
                (* since fix f9e893e (F26): `|| zip(fields).any(|((n1,_),(n2,_))| n1 != n2)` *)
                if negb (opt_eqb (tname i1) (tname i2))
                   || negb (Nat.eqb (length (tfields i1)) (length (tfields i2)))
                   || existsb (fun ab => negb (opt_eqb (fst (fst ab)) (fst (snd ab))))
                              (combine (tfields i1) (tfields i2))
                then Some (P0, [a])
                else
                  let loop :=
                    fix loop (P : registry) (out : list nat) (i : nat)
                        (fs1 fs2 : list (option nat * nat)) : option (registry * list nat) :=
                      match fs1, fs2 with
                      | (_, f1) :: fs1', (_, f2) :: fs2' =>
                        match compute_complement f P f1 f2 with
                        | None => None
                        | Some (P', fc) =>
                          if Nat.eqb fc never_id then loop P' out (S i) fs1' fs2'
                          else
                            let fields := set_field_type (tfields i1) i fc in
                            let '(P'', tuple_id) := register_tuple P' (tname i1) fields in
                            let '(P''', ty_id) := register_type P'' (TTuple tuple_id) in
                            loop P''' (out ++ [ty_id]) (S i) fs1' fs2'
                        end
                      | _, _ => Some (P, out)
                      end in
                  loop P0 [] 0 (tfields i1) (tfields i2)
              | _, _ => Some (P0, [a])
              end
            | _, _ => Some (P0, [a])
            end
          end
        end end
      | _, _ => Some (P, [a])
      end
    end.

  (* narrowing.rs:487-515  get_field_type *)
  Definition get_field_type (P : registry) (type_id field_idx : nat) : option (registry * nat) :=
    let variants := get_type_variants P type_id in
    let field_type_ids :=
      flat_map (fun variant_id =>
        match lookup_type P variant_id with
        | Some (TTuple tuple_id) =>
          match lookup_tuple P tuple_id with
          | Some info => match nth_error (tfields info) field_idx with Some f => [snd f] | None => [] end
          | None => []
          end
        | Some (TPartial _ fields) =>
          match nth_error fields field_idx with Some f => [snd f] | None => [] end
        | _ => []
        end) variants in
    match field_type_ids with
    | [] => None
    | _ => Some (union_type_ids P field_type_ids)
    end.

  (* narrowing.rs:375-394  filter_variants_by_field *)
  Definition filter_variants_by_field (P : registry) (parent_type_id field_idx field_must_be_id : nat)
    : option (registry * nat) :=
    let variants := get_type_variants P parent_type_id in
    let loop :=
      fix loop (P : registry) (filtered : list nat) (vs : list nat) : option (registry * list nat) :=
        match vs with
        | [] => Some (P, filtered)
        | variant_id :: vs' =>
          match get_field_type P variant_id field_idx with
          | None => loop P filtered vs'
          | Some (P', field_type_id) =>
            match is_compatible P' field_type_id field_must_be_id with
            | None => None
            | Some true => loop P' (filtered ++ [variant_id]) vs'
            | Some false => loop P' filtered vs'
            end
          end
        end in
    match loop P [] variants with
    | None => None
    | Some (P1, filtered) => Some (union_type_ids P1 filtered)
    end.
End Narrow.
