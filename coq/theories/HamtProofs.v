(* HamtProofs.v — the dict model (Hamt.v, after std/dict.qv) refines a finite map, for EVERY hash
   function with range [0, 2^32) and every key type with a decidable equality.
   Abstraction: `bindings d` (the [key, value] pairs physically stored in the tree, in storage
   order) read as an association list: abs d k = assoc k (bindings d).
   Invariant: `Inv d` (see `inv`). *)
From Coq Require Import List ZArith Bool Lia Permutation.
From Quiver Require Import Hamt HamtBits.
Import ListNotations.
Open Scope Z_scope.

Section Proofs.
Variable key : Type.
Variable val : Type.
Variable key_eqb : key -> key -> bool.
Variable hash : key -> Z.
Hypothesis key_eqb_spec : forall a b, key_eqb a b = true <-> a = b.
Hypothesis hash_range : forall k, 0 <= hash k < 2 ^ 32.

Notation dict := (Hamt.dict key val).
Notation entry := (key * val)%type.
Notation bget := (bucket_get key val key_eqb).
Notation bput := (bucket_put key val key_eqb).
Notation bremove := (bucket_remove key val key_eqb).

(* ---------------------------------------------------------------- key equality *)

Lemma key_eqb_refl k : key_eqb k k = true.
Proof. apply key_eqb_spec. reflexivity. Qed.

Lemma key_eqb_false a b : key_eqb a b = false <-> a <> b.
Proof.
  split.
  - intros H E. apply key_eqb_spec in E. congruence.
  - intros H. destruct (key_eqb a b) eqn:E; [|reflexivity]. apply key_eqb_spec in E. contradiction.
Qed.

Lemma key_eq_dec (a b : key) : {a = b} + {a <> b}.
Proof.
  destruct (key_eqb a b) eqn:E; [left; now apply key_eqb_spec | right; now apply key_eqb_false].
Qed.

(* ---------------------------------------------------------------- association lists / buckets *)

(* assoc k l is dict.qv's own bucket_get: the first pair with key k *)
Definition assoc (l : list entry) (k : key) : option val := bget l k.

(* functional specifications of bucket_put / bucket_remove *)
Fixpoint bset (es : list entry) (k : key) (v : val) : list entry :=
  match es with
  | [] => [(k, v)]
  | (k', v') :: t => if key_eqb k' k then (k, v) :: t else (k', v') :: bset t k v
  end.

Fixpoint bdel (es : list entry) (k : key) : list entry :=
  match es with
  | [] => []
  | (k', v') :: t => if key_eqb k' k then t else (k', v') :: bdel t k
  end.

Lemma bucket_put_spec es k v acc : bput es k v acc = rev acc ++ bset es k v.
Proof.
  revert acc. induction es as [|[k' v'] t IH]; intros acc; cbn [bucket_put bset].
  - apply revcat_spec.
  - destruct (key_eqb k' k); [apply revcat_spec|].
    rewrite IH. cbn [rev]. rewrite <- app_assoc. reflexivity.
Qed.

Lemma bucket_remove_spec es k acc : bremove es k acc = rev acc ++ bdel es k.
Proof.
  revert acc. induction es as [|[k' v'] t IH]; intros acc; cbn [bucket_remove bdel].
  - apply revcat_spec.
  - destruct (key_eqb k' k); [apply revcat_spec|].
    rewrite IH. cbn [rev]. rewrite <- app_assoc. reflexivity.
Qed.

Lemma in_keys (e : entry) l : In e l -> In (fst e) (map fst l).
Proof. apply in_map. Qed.

Lemma in_bset es k v e : NoDup (map fst es) ->
  (In e (bset es k v) <-> e = (k, v) \/ (In e es /\ fst e <> k)).
Proof.
  induction es as [|[k' v'] t IH]; intros Hnd; cbn [bset].
  - cbn [In]. intuition.
  - cbn [map fst] in Hnd. inversion Hnd as [|x l Hnotin Hnd']; subst.
    destruct (key_eqb k' k) eqn:E.
    + apply key_eqb_spec in E. subst k'. cbn [In]. split.
      * intros [H|H]; [left; now symmetry|]. right. split; [now right|].
        intros Hk. apply Hnotin. rewrite <- Hk. now apply in_keys.
      * intros [H|[[H|H] Hne]]; [left; now symmetry| |now right].
        subst e. cbn [fst] in Hne. contradiction.
    + apply key_eqb_false in E. cbn [In]. rewrite (IH Hnd'). split.
      * intros [H|[H|[H Hne]]]; [|now left|right; split; [now right|assumption]].
        right. split; [now left|]. subst e. cbn [fst]. exact E.
      * intros [H|[[H|H] Hne]]; [right; now left|now left|right; right; now split].
Qed.

Lemma in_keys_bset es k v x : In x (map fst (bset es k v)) -> x = k \/ In x (map fst es).
Proof.
  induction es as [|[k' v'] t IH]; cbn [bset map fst In].
  - intros [H|[]]. now left.
  - destruct (key_eqb k' k) eqn:E; cbn [map fst In].
    + intros [H|H]; [now left|right; now right].
    + intros [H|H]; [right; now left|]. destruct (IH H); [now left|right; now right].
Qed.

Lemma nodup_bset es k v : NoDup (map fst es) -> NoDup (map fst (bset es k v)).
Proof.
  induction es as [|[k' v'] t IH]; intros Hnd; cbn [bset map fst].
  - constructor; [intros []|constructor].
  - cbn [map fst] in Hnd. inversion Hnd as [|x l Hnotin Hnd']; subst.
    destruct (key_eqb k' k) eqn:E; cbn [map fst].
    + apply key_eqb_spec in E. subst k'. constructor; assumption.
    + apply key_eqb_false in E. constructor; [|apply IH; assumption].
      intros Hin. apply in_keys_bset in Hin. destruct Hin as [Hin|Hin]; [congruence|contradiction].
Qed.

Lemma length_bset es k v : (length es <= length (bset es k v))%nat.
Proof.
  induction es as [|[k' v'] t IH]; cbn [bset length]; [lia|].
  destruct (key_eqb k' k); cbn [length]; lia.
Qed.

Lemma in_bdel es k e : NoDup (map fst es) -> (In e (bdel es k) <-> In e es /\ fst e <> k).
Proof.
  induction es as [|[k' v'] t IH]; intros Hnd; cbn [bdel].
  - cbn [In]. intuition.
  - cbn [map fst] in Hnd. inversion Hnd as [|x l Hnotin Hnd']; subst.
    destruct (key_eqb k' k) eqn:E.
    + apply key_eqb_spec in E. subst k'. cbn [In]. split.
      * intros H. split; [now right|]. intros Hk. apply Hnotin. rewrite <- Hk. now apply in_keys.
      * intros [[H|H] Hne]; [|assumption]. subst e. cbn [fst] in Hne. contradiction.
    + apply key_eqb_false in E. cbn [In]. rewrite (IH Hnd'). split.
      * intros [H|[H Hne]]; [|split; [now right|assumption]].
        split; [now left|]. subst e. exact E.
      * intros [[H|H] Hne]; [now left|right; now split].
Qed.

Lemma in_keys_bdel es k x : In x (map fst (bdel es k)) -> In x (map fst es).
Proof.
  induction es as [|[k' v'] t IH]; cbn [bdel map fst In]; [tauto|].
  destruct (key_eqb k' k); cbn [map fst In]; [now right|].
  intros [H|H]; [now left|right; now apply IH].
Qed.

Lemma nodup_bdel es k : NoDup (map fst es) -> NoDup (map fst (bdel es k)).
Proof.
  induction es as [|[k' v'] t IH]; intros Hnd; cbn [bdel map fst]; [constructor|].
  cbn [map fst] in Hnd. inversion Hnd as [|x l Hnotin Hnd']; subst.
  destruct (key_eqb k' k); [assumption|]. cbn [map fst]. constructor; [|now apply IH].
  intros Hin. apply in_keys_bdel in Hin. contradiction.
Qed.

Lemma assoc_app l1 l2 k :
  assoc (l1 ++ l2) k = match assoc l1 k with Some v => Some v | None => assoc l2 k end.
Proof.
  unfold assoc. induction l1 as [|[k' v'] t IH]; cbn [app bucket_get]; [reflexivity|].
  destruct (key_eqb k' k); [reflexivity|exact IH].
Qed.

Lemma assoc_none l k : ~ In k (map fst l) -> assoc l k = None.
Proof.
  unfold assoc. induction l as [|[k' v'] t IH]; cbn [bucket_get map fst In]; [reflexivity|].
  intros H. destruct (key_eqb k' k) eqn:E.
  - apply key_eqb_spec in E. exfalso. apply H. now left.
  - apply IH. intros Hin. apply H. now right.
Qed.

Lemma assoc_some_in l k v : assoc l k = Some v -> In (k, v) l.
Proof.
  unfold assoc. induction l as [|[k' v'] t IH]; cbn [bucket_get In]; [discriminate|].
  destruct (key_eqb k' k) eqn:E.
  - apply key_eqb_spec in E. intros H. inversion H. subst. now left.
  - intros H. right. now apply IH.
Qed.

Lemma assoc_in l k v : NoDup (map fst l) -> (assoc l k = Some v <-> In (k, v) l).
Proof.
  intros Hnd. split; [apply assoc_some_in|].
  unfold assoc. induction l as [|[k' v'] t IH]; cbn [bucket_get In]; [tauto|].
  cbn [map fst] in Hnd. inversion Hnd as [|x l' Hnotin Hnd']; subst.
  intros [H|H].
  - inversion H. subst. rewrite key_eqb_refl. reflexivity.
  - assert (Hne : k' <> k).
    { intros ->. apply Hnotin. apply (in_keys (k, v)). exact H. }
    apply key_eqb_false in Hne. rewrite Hne. now apply IH.
Qed.

(* an association list with distinct keys is determined by its set of pairs *)
Lemma assoc_ext l l' : NoDup (map fst l) -> NoDup (map fst l') ->
  (forall e, In e l <-> In e l') -> forall k, assoc l k = assoc l' k.
Proof.
  intros Hl Hl' Hiff k.
  destruct (assoc l k) as [v|] eqn:E.
  - symmetry. apply (assoc_in _ _ _ Hl'). apply Hiff. now apply (assoc_in _ _ _ Hl).
  - destruct (assoc l' k) as [v'|] eqn:E'; [|reflexivity].
    apply (assoc_in _ _ _ Hl') in E'. apply Hiff in E'. apply (assoc_in _ _ _ Hl) in E'. congruence.
Qed.

(* map update / delete on the abstraction *)
Definition upd (m : key -> option val) (k : key) (v : val) : key -> option val :=
  fun k' => if key_eqb k' k then Some v else m k'.
Definition del (m : key -> option val) (k : key) : key -> option val :=
  fun k' => if key_eqb k' k then None else m k'.

Lemma assoc_put_law l l' k v : NoDup (map fst l) -> NoDup (map fst l') ->
  (forall e, In e l' <-> e = (k, v) \/ (In e l /\ fst e <> k)) ->
  forall k', assoc l' k' = upd (assoc l) k v k'.
Proof.
  intros Hl Hl' Hiff k'. unfold upd.
  destruct (key_eqb k' k) eqn:E.
  - apply key_eqb_spec in E. subst k'. apply (assoc_in _ _ _ Hl'). apply Hiff. now left.
  - apply key_eqb_false in E.
    destruct (assoc l k') as [w|] eqn:Ew.
    + apply (assoc_in _ _ _ Hl'). apply Hiff. right. split; [now apply (assoc_in _ _ _ Hl)|exact E].
    + destruct (assoc l' k') as [w'|] eqn:Ew'; [|reflexivity].
      apply (assoc_in _ _ _ Hl') in Ew'. apply Hiff in Ew'. destruct Ew' as [H|[H _]].
      * inversion H. congruence.
      * apply (assoc_in _ _ _ Hl) in H. congruence.
Qed.

Lemma assoc_remove_law l l' k : NoDup (map fst l) -> NoDup (map fst l') ->
  (forall e, In e l' <-> In e l /\ fst e <> k) ->
  forall k', assoc l' k' = del (assoc l) k k'.
Proof.
  intros Hl Hl' Hiff k'. unfold del.
  destruct (key_eqb k' k) eqn:E.
  - apply key_eqb_spec in E. subst k'.
    destruct (assoc l' k) as [w'|] eqn:Ew'; [|reflexivity].
    apply (assoc_in _ _ _ Hl') in Ew'. apply Hiff in Ew'. destruct Ew' as [_ Hne]. now contradiction Hne.
  - apply key_eqb_false in E.
    destruct (assoc l k') as [w|] eqn:Ew.
    + apply (assoc_in _ _ _ Hl'). apply Hiff. split; [now apply (assoc_in _ _ _ Hl)|exact E].
    + destruct (assoc l' k') as [w'|] eqn:Ew'; [|reflexivity].
      apply (assoc_in _ _ _ Hl') in Ew'. apply Hiff in Ew'. destruct Ew' as [H _].
      apply (assoc_in _ _ _ Hl) in H. congruence.
Qed.

Lemma Forall2_len {A B} (R : A -> B -> Prop) l l' : Forall2 R l l' -> length l = length l'.
Proof. induction 1; cbn [length]; congruence. Qed.

Lemma NoDup_app_intro {A} (l1 l2 : list A) :
  NoDup l1 -> NoDup l2 -> (forall x, In x l1 -> ~ In x l2) -> NoDup (l1 ++ l2).
Proof.
  induction l1 as [|a l1 IH]; intros H1 H2 Hd; cbn [app]; [assumption|].
  inversion H1 as [|x l Hnotin H1']; subst. constructor.
  - intros Hin. apply in_app_or in Hin. destruct Hin as [Hin|Hin]; [contradiction|].
    apply (Hd a); [now left|assumption].
  - apply IH; [assumption|assumption|]. intros x Hx. apply Hd. now right.
Qed.

(* ---------------------------------------------------------------- abstraction and invariant *)

(* the pairs stored in the tree, in storage order (children left to right, buckets in order) *)
Fixpoint bindings (d : dict) : list entry :=
  match d with
  | Empty => []
  | Leaf _ k v => [(k, v)]
  | Collision _ es => es
  | Node _ cs => (fix go (l : list dict) : list entry :=
                    match l with [] => [] | c :: t => bindings c ++ go t end) cs
  end.

Lemma bindings_node bm cs : bindings (Node bm cs) = flat_map bindings cs.
Proof. cbn [bindings]. induction cs as [|c t IH]; cbn [flat_map]; [reflexivity|]. now rewrite IH. Qed.

(* the finite map a dict denotes *)
Definition abs (d : dict) : key -> option val := assoc (bindings d).

Definition keys_all (P : key -> Prop) (d : dict) : Prop := forall e, In e (bindings d) -> P (fst e).

(* a Node never has zero children, and a lone child is itself a Node (collapse_node's canonical
   form; insertion never builds a lone leaf either) *)
Definition canon (cs : list dict) : Prop :=
  match cs with
  | [] => False
  | [c] => match c with Node _ _ => True | _ => False end
  | _ => True
  end.

(* inv n lvl d: d is a well-formed NON-EMPTY subtree sitting at trie level lvl (hash bits
   5*lvl ..), with at most n further Node levels below it (n + lvl = 7 at every use).
   - Leaf: the stored hash is the key's hash
   - Collision: >= 2 entries, pairwise distinct keys, all hashing to the bucket's hash
   - Node: bitmap in range; children pair up, in order, with the occupied slots of the bitmap
     (hence #children = popcount bitmap); the child at slot f is well formed one level down and
     holds only keys whose fragment at this level is f; canonical shape. *)
Fixpoint inv (n lvl : nat) (d : dict) {struct n} : Prop :=
  match d with
  | Empty => False
  | Leaf h k _ => h = hash k
  | Collision h es =>
    (2 <= length es)%nat /\ NoDup (map fst es) /\ (forall e, In e es -> hash (fst e) = h)
  | Node bm cs =>
    match n with
    | O => False
    | S n' =>
      0 <= bm < 2 ^ 32 /\
      Forall2 (fun f c => inv n' (S lvl) c /\ keys_all (fun k => frag (hash k) lvl = f) c) (slots bm) cs /\
      canon cs
    end
  end.

Definition child_ok (n lvl : nat) (f : nat) (c : dict) : Prop :=
  inv n (S lvl) c /\ keys_all (fun k => frag (hash k) lvl = f) c.

(* the invariant without the canonical-shape clause: what remove builds before collapse_node *)
Definition pre (n lvl : nat) (bm : Z) (cs : list dict) : Prop :=
  0 <= bm < 2 ^ 32 /\ Forall2 (child_ok n lvl) (slots bm) cs.

Lemma inv_node n lvl bm cs : inv (S n) lvl (Node bm cs) <-> pre n lvl bm cs /\ canon cs.
Proof. cbn [inv]. unfold pre, child_ok. tauto. Qed.

(* The invariant of a whole dict. *)
Definition Inv (d : dict) : Prop := d = Empty \/ inv 7 0 d.

Lemma inv_leaf_any n lvl n' lvl' h k v : inv n lvl (Leaf h k v) -> inv n' lvl' (Leaf h k v).
Proof. destruct n, n'; cbn [inv]; tauto. Qed.

Lemma inv_coll_any n lvl n' lvl' h es : inv n lvl (Collision h es) -> inv n' lvl' (Collision h es).
Proof. destruct n, n'; cbn [inv]; tauto. Qed.

Lemma inv_leaf n lvl h k v : inv n lvl (Leaf h k v) <-> h = hash k.
Proof. destruct n; cbn [inv]; tauto. Qed.

Lemma inv_coll n lvl h es : inv n lvl (Collision h es) <->
  (2 <= length es)%nat /\ NoDup (map fst es) /\ (forall e, In e es -> hash (fst e) = h).
Proof. destruct n; cbn [inv]; tauto. Qed.

Lemma inv_not_empty n lvl : ~ inv n lvl Empty.
Proof. destruct n; cbn [inv]; tauto. Qed.

(* keys of the children of a node have their fragment among the node's slots *)
Lemma children_frag n lvl fs cs e : Forall2 (child_ok n lvl) fs cs ->
  In e (flat_map bindings cs) -> In (frag (hash (fst e)) lvl) fs.
Proof.
  induction 1 as [|f c fs cs [_ Hk] _ IH]; cbn [flat_map]; [tauto|].
  intros Hin. apply in_app_or in Hin. destruct Hin as [Hin|Hin].
  - left. symmetry. apply (Hk e Hin).
  - right. now apply IH.
Qed.

Lemma sib_lo n lvl bm f clo e k : Forall2 (child_ok n lvl) (lo bm f) clo ->
  frag (hash k) lvl = f -> In e (flat_map bindings clo) -> fst e <> k.
Proof.
  intros HF Hf Hin Hk. apply (children_frag _ _ _ _ _ HF) in Hin. apply lo_lt in Hin.
  rewrite Hk, Hf in Hin. lia.
Qed.

Lemma sib_hi n lvl bm f chi e k : Forall2 (child_ok n lvl) (hi bm f) chi ->
  frag (hash k) lvl = f -> In e (flat_map bindings chi) -> fst e <> k.
Proof.
  intros HF Hf Hin Hk. apply (children_frag _ _ _ _ _ HF) in Hin. apply hi_gt in Hin.
  rewrite Hk, Hf in Hin. lia.
Qed.

(* decomposition of a node's children around slot f *)
Lemma node_split n lvl bm cs f : (f < 32)%nat -> Forall2 (child_ok n lvl) (slots bm) cs ->
  if tb bm f
  then exists clo c chi, cs = clo ++ c :: chi /\ length clo = length (lo bm f) /\
         Forall2 (child_ok n lvl) (lo bm f) clo /\ child_ok n lvl f c /\ Forall2 (child_ok n lvl) (hi bm f) chi
  else exists clo chi, cs = clo ++ chi /\ length clo = length (lo bm f) /\
         Forall2 (child_ok n lvl) (lo bm f) clo /\ Forall2 (child_ok n lvl) (hi bm f) chi.
Proof.
  intros Hf HF. rewrite (slots_split bm f Hf) in HF.
  destruct (tb bm f).
  - apply Forall2_app_inv_l in HF. destruct HF as (clo & rest & Hlo & Hrest & ->).
    cbn [app] in Hrest. inversion Hrest as [|f' c fs chi Hc Hhi]; subst.
    exists clo, c, chi. repeat split; try assumption.
    + symmetry. apply (Forall2_len _ _ _ Hlo).
    + apply Hc.
    + apply Hc.
  - cbn [app] in HF. apply Forall2_app_inv_l in HF. destruct HF as (clo & chi & Hlo & Hhi & ->).
    exists clo, chi. repeat split; try assumption. symmetry. apply (Forall2_len _ _ _ Hlo).
Qed.

(* the bit selected by a hash at a level *)
Lemma bit_of_frag h lvl : int_shift 1 (fragment h (5 * Z.of_nat lvl)) = 2 ^ Z.of_nat (frag h lvl).
Proof.
  rewrite <- frag_of_nat. apply int_shift_1. pose proof (frag_lt h lvl). lia.
Qed.

(* ---------------------------------------------------------------- put *)

Definition agree (lvl : nat) (h1 h2 : Z) : Prop := forall j, (j < lvl)%nat -> frag h1 j = frag h2 j.

Lemma agree_succ lvl h1 h2 : agree lvl h1 h2 -> frag h1 lvl = frag h2 lvl -> agree (S lvl) h1 h2.
Proof. intros H E j Hj. destruct (Nat.eq_dec j lvl) as [->|]; [exact E | apply H; lia]. Qed.

Lemma int_shift_1_nat (f : nat) : (f < 32)%nat -> int_shift 1 (Z.of_nat f) = 2 ^ Z.of_nat f.
Proof. intros H. apply int_shift_1. lia. Qed.

Lemma slot_index_lo bm (f : nat) : slot_index bm (2 ^ Z.of_nat f) = Z.of_nat (length (lo bm f)).
Proof. apply slot_index_spec. Qed.

Definition is_node (d : dict) : Prop := match d with Node _ _ => True | _ => False end.

(* what put does to the stored pairs: exactly the pair for k is replaced / added *)
Definition put_post (d : dict) (k : key) (v : val) (d' : dict) : Prop :=
  forall e, In e (bindings d') <-> e = (k, v) \/ (In e (bindings d) /\ fst e <> k).

(* Termination of split_pair: two distinct hashes agreeing on the first lvl fragments are
   separated within the remaining n = 7 - lvl levels. *)
Lemma split_pair_ok n : forall lvl fuel k1 v1 k2 v2,
  (n + lvl = 7)%nat -> (n < fuel)%nat -> hash k1 <> hash k2 -> agree lvl (hash k1) (hash k2) ->
  exists bm cs,
    split_pair key val key_eqb fuel (hash k1) k1 v1 (hash k2) k2 v2 (5 * Z.of_nat lvl) = Some (Node bm cs)
    /\ inv n lvl (Node bm cs)
    /\ (forall e, In e (bindings (Node bm cs)) <-> e = (k1, v1) \/ e = (k2, v2)).
Proof.
  induction n as [|n IH]; intros lvl fuel k1 v1 k2 v2 Hn Hfuel Hne Hag.
  - exfalso. apply Hne. apply frag_inj; try apply hash_range. intros j Hj. apply Hag. lia.
  - destruct fuel as [|fuel]; [lia|]. cbn [split_pair].
    replace (hash k1 =? hash k2) with false by (symmetry; now apply Z.eqb_neq).
    rewrite <- !frag_of_nat.
    pose proof (frag_lt (hash k1) lvl) as Hf1. pose proof (frag_lt (hash k2) lvl) as Hf2.
    set (f1 := frag (hash k1) lvl) in *. set (f2 := frag (hash k2) lvl) in *.
    destruct (Nat.eq_dec f1 f2) as [Ef|Ef].
    + rewrite Ef, Z.eqb_refl, shift_succ.
      destruct (IH (S lvl) fuel k1 v1 k2 v2) as (bm & cs & Hsp & Hinv & Hb);
        [lia|lia|assumption|now apply agree_succ|].
      rewrite Hsp. exists (2 ^ Z.of_nat f2), [Node bm cs].
      split; [now rewrite int_shift_1_nat|]. split.
      * apply inv_node. split; [|exact I]. split; [now apply pow2_range|].
        rewrite slots_pow2 by assumption. constructor; [|constructor].
        split; [exact Hinv|]. intros e He. apply Hb in He.
        destruct He as [->| ->]; cbn [fst]; [exact Ef|reflexivity].
      * intros e. rewrite bindings_node. cbn [flat_map]. rewrite app_nil_r. apply Hb.
    + replace (Z.of_nat f1 =? Z.of_nat f2) with false by (symmetry; apply Z.eqb_neq; lia).
      rewrite !int_shift_1_nat by assumption.
      destruct (lt_dec f1 f2) as [Hlt|Hge].
      * replace (Z.of_nat f1 <? Z.of_nat f2) with true by (symmetry; apply Z.ltb_lt; lia).
        eexists _, _. split; [reflexivity|]. split.
        -- apply inv_node. split; [|exact I]. split; [apply set_range; [now apply pow2_range|assumption]|].
           rewrite slots_pow2_pair by assumption.
           constructor; [|constructor; [|constructor]]; (split; [now apply inv_leaf|]);
             intros e [<-|[]]; reflexivity.
        -- intros e. rewrite bindings_node. cbn [flat_map bindings app In]. intuition.
      * replace (Z.of_nat f1 <? Z.of_nat f2) with false by (symmetry; apply Z.ltb_ge; lia).
        eexists _, _. split; [reflexivity|]. split.
        -- apply inv_node. split; [|exact I]. unfold int_or. rewrite Z.lor_comm. fold (int_or (2 ^ Z.of_nat f2) (2 ^ Z.of_nat f1)).
           split; [apply set_range; [now apply pow2_range|assumption]|].
           rewrite slots_pow2_pair by lia.
           constructor; [|constructor; [|constructor]]; (split; [now apply inv_leaf|]);
             intros e [<-|[]]; reflexivity.
        -- intros e. rewrite bindings_node. cbn [flat_map bindings app In]. intuition.
Qed.

Lemma split_node_ok n : forall lvl fuel ch es k v,
  (n + lvl = 7)%nat -> (n < fuel)%nat -> 0 <= ch < 2 ^ 32 -> ch <> hash k -> agree lvl ch (hash k) ->
  inv n lvl (Collision ch es) ->
  exists bm cs,
    split_node key val fuel (Collision ch es) ch (hash k) k v (5 * Z.of_nat lvl) = Some (Node bm cs)
    /\ inv n lvl (Node bm cs)
    /\ (forall e, In e (bindings (Node bm cs)) <-> e = (k, v) \/ In e es).
Proof.
  induction n as [|n IH]; intros lvl fuel ch es k v Hn Hfuel Hch Hne Hag Hc.
  - exfalso. apply Hne. apply frag_inj; [assumption|apply hash_range|]. intros j Hj. apply Hag. lia.
  - destruct fuel as [|fuel]; [lia|]. cbn [split_node].
    rewrite <- !frag_of_nat.
    pose proof (frag_lt ch lvl) as Hf1. pose proof (frag_lt (hash k) lvl) as Hf2.
    set (fc := frag ch lvl) in *. set (fh := frag (hash k) lvl) in *.
    assert (Hkeys : keys_all (fun k' => frag (hash k') lvl = fc) (Collision ch es)).
    { intros e He. cbn [bindings] in He. apply inv_coll in Hc. destruct Hc as (_ & _ & Hh).
      rewrite (Hh e He). reflexivity. }
    destruct (Nat.eq_dec fc fh) as [Ef|Ef].
    + rewrite Ef, Z.eqb_refl, shift_succ.
      destruct (IH (S lvl) fuel ch es k v) as (bm & cs & Hsp & Hinv & Hb);
        [lia|lia|assumption|assumption|now apply agree_succ|eapply inv_coll_any; exact Hc|].
      rewrite Hsp. exists (2 ^ Z.of_nat fh), [Node bm cs].
      split; [now rewrite int_shift_1_nat|]. split.
      * apply inv_node. split; [|exact I]. split; [now apply pow2_range|].
        rewrite slots_pow2 by assumption. constructor; [|constructor].
        split; [exact Hinv|]. intros e He. apply Hb in He.
        destruct He as [->|He]; cbn [fst]; [reflexivity|]. rewrite <- Ef. apply (Hkeys e He).
      * intros e. rewrite bindings_node. cbn [flat_map]. rewrite app_nil_r. apply Hb.
    + replace (Z.of_nat fc =? Z.of_nat fh) with false by (symmetry; apply Z.eqb_neq; lia).
      rewrite !int_shift_1_nat by assumption.
      assert (Hc' : inv n (S lvl) (Collision ch es)) by (eapply inv_coll_any; exact Hc).
      destruct (lt_dec fc fh) as [Hlt|Hge].
      * replace (Z.of_nat fc <? Z.of_nat fh) with true by (symmetry; apply Z.ltb_lt; lia).
        eexists _, _. split; [reflexivity|]. split.
        -- apply inv_node. split; [|exact I]. split; [apply set_range; [now apply pow2_range|assumption]|].
           rewrite slots_pow2_pair by assumption.
           constructor; [split; [exact Hc'|exact Hkeys]|constructor; [|constructor]].
           split; [now apply inv_leaf|]. intros e [<-|[]]. reflexivity.
        -- intros e. rewrite bindings_node. cbn [flat_map bindings]. rewrite app_nil_r, in_app_iff.
           cbn [In]. intuition.
      * replace (Z.of_nat fc <? Z.of_nat fh) with false by (symmetry; apply Z.ltb_ge; lia).
        eexists _, _. split; [reflexivity|]. split.
        -- apply inv_node. split; [|exact I]. unfold int_or. rewrite Z.lor_comm. fold (int_or (2 ^ Z.of_nat fh) (2 ^ Z.of_nat fc)).
           split; [apply set_range; [now apply pow2_range|assumption]|].
           rewrite slots_pow2_pair by lia.
           constructor; [|constructor; [split; [exact Hc'|exact Hkeys]|constructor]].
           split; [now apply inv_leaf|]. intros e [<-|[]]. reflexivity.
        -- intros e. rewrite bindings_node. cbn [flat_map bindings app]. rewrite app_nil_r.
           cbn [In]. intuition.
Qed.

Lemma put_leaf_ok n lvl fuel lh lk lv k v :
  (n + lvl = 7)%nat -> (S n < fuel)%nat -> inv n lvl (Leaf lh lk lv) -> agree lvl (hash lk) (hash k) ->
  exists d', put_aux key val key_eqb fuel (Leaf lh lk lv) k v (hash k) (5 * Z.of_nat lvl) = Some d'
    /\ inv n lvl d' /\ put_post (Leaf lh lk lv) k v d'.
Proof.
  intros Hn Hfuel Hinv Hag. apply inv_leaf in Hinv. subst lh.
  destruct fuel as [|fuel]; [lia|]. cbn [put_aux].
  destruct (key_eqb lk k) eqn:E.
  - apply key_eqb_spec in E. subst lk. eexists. split; [reflexivity|]. split; [now apply inv_leaf|].
    intros e. cbn [bindings In]. split.
    + intros [H|[]]. now left.
    + intros [H|[[H|[]] Hne]]; [now left|]. subst e. cbn [fst] in Hne. contradiction.
  - pose proof E as Ene. apply key_eqb_false in Ene.
    destruct (Z.eq_dec (hash lk) (hash k)) as [Eh|Eh].
    + destruct fuel as [|fuel]; [lia|]. cbn [split_pair]. rewrite Eh, Z.eqb_refl.
      rewrite !bucket_put_spec. cbn [bset rev app]. rewrite E.
      eexists. split; [reflexivity|]. split.
      * apply inv_coll. split; [cbn [length]; lia|]. split.
        -- cbn [map fst]. constructor; [intros [H|[]]; congruence|constructor; [intros []|constructor]].
        -- intros e [<-|[<-|[]]]; cbn [fst]; congruence.
      * intros e. cbn [bindings In]. split.
        -- intros [H|[H|[]]]; [right; split; [now left|subst e; exact Ene]|now left].
        -- intros [H|[[H|[]] _]]; [right; now left|now left].
    + destruct (split_pair_ok n lvl fuel lk lv k v) as (bm & cs & Hsp & Hinv & Hb); [lia|lia|assumption|assumption|].
      rewrite Hsp. eexists. split; [reflexivity|]. split; [exact Hinv|].
      intros e. rewrite Hb. cbn [bindings In]. split.
      * intros [H|H]; [right; split; [now left|subst e; exact Ene]|now left].
      * intros [H|[[H|[]] _]]; [now right|now left].
Qed.

Lemma put_coll_ok n lvl fuel ch es k v :
  (n + lvl = 7)%nat -> (S n < fuel)%nat -> inv n lvl (Collision ch es) ->
  keys_all (fun k' => agree lvl (hash k') (hash k)) (Collision ch es) ->
  exists d', put_aux key val key_eqb fuel (Collision ch es) k v (hash k) (5 * Z.of_nat lvl) = Some d'
    /\ inv n lvl d' /\ put_post (Collision ch es) k v d'.
Proof.
  intros Hn Hfuel Hinv Hag. pose proof Hinv as Hinv0. apply inv_coll in Hinv. destruct Hinv as (Hlen & Hnd & Hh).
  destruct fuel as [|fuel]; [lia|]. cbn [put_aux].
  destruct (Z.eq_dec ch (hash k)) as [Eh|Eh].
  - rewrite Eh, Z.eqb_refl, bucket_put_spec. cbn [rev app].
    eexists. split; [reflexivity|]. split.
    + apply inv_coll. split; [pose proof (length_bset es k v); lia|]. split; [now apply nodup_bset|].
      intros e He. apply (in_bset _ _ _ _ Hnd) in He. destruct He as [->|[He _]]; [reflexivity|].
      rewrite <- Eh. now apply Hh.
    + intros e. cbn [bindings]. now apply in_bset.
  - replace (ch =? hash k) with false by (symmetry; now apply Z.eqb_neq).
    destruct es as [|e0 es']; [cbn [length] in Hlen; lia|].
    assert (Hch : ch = hash (fst e0)) by (symmetry; apply Hh; now left).
    destruct (split_node_ok n lvl fuel ch (e0 :: es') k v) as (bm & cs & Hsp & Hinv & Hb);
      [lia|lia|rewrite Hch; apply hash_range|assumption| |exact Hinv0|].
    { rewrite Hch. apply (Hag e0). cbn [bindings]. now left. }
    rewrite Hsp. eexists. split; [reflexivity|]. split; [exact Hinv|].
    intros e. rewrite Hb. cbn [bindings]. split.
    + intros [H|H]; [now left|]. right. split; [assumption|].
      intros Hk. apply Eh. rewrite <- (Hh e H), Hk. reflexivity.
    + intros [H|[H _]]; [now left|now right].
Qed.

Lemma flat_map_bindings_app (l1 l2 : list dict) :
  flat_map bindings (l1 ++ l2) = flat_map bindings l1 ++ flat_map bindings l2.
Proof. apply flat_map_app. Qed.

Lemma put_ok n : forall lvl fuel d k v,
  (n + lvl = 7)%nat -> (S n < fuel)%nat -> inv n lvl d ->
  keys_all (fun k' => agree lvl (hash k') (hash k)) d ->
  exists d', put_aux key val key_eqb fuel d k v (hash k) (5 * Z.of_nat lvl) = Some d'
    /\ inv n lvl d' /\ put_post d k v d' /\ (is_node d -> is_node d').
Proof.
  induction n as [|n IH]; intros lvl fuel d k v Hn Hfuel Hinv Hag.
  - destruct d as [|lh lk lv|ch es|bm cs].
    + now apply inv_not_empty in Hinv.
    + destruct (put_leaf_ok 0 lvl fuel lh lk lv k v Hn Hfuel Hinv) as (d' & H1 & H2 & H3).
      { apply (Hag (lk, lv)). now left. }
      exists d'. split; [exact H1|]. split; [exact H2|]. split; [exact H3|]. intros Hx; destruct Hx.
    + destruct (put_coll_ok 0 lvl fuel ch es k v Hn Hfuel Hinv Hag) as (d' & H1 & H2 & H3).
      exists d'. split; [exact H1|]. split; [exact H2|]. split; [exact H3|]. intros Hx; destruct Hx.
    + cbn [inv] in Hinv. contradiction.
  - destruct d as [|lh lk lv|ch es|bm cs].
    + now apply inv_not_empty in Hinv.
    + destruct (put_leaf_ok (S n) lvl fuel lh lk lv k v Hn Hfuel Hinv) as (d' & H1 & H2 & H3).
      { apply (Hag (lk, lv)). now left. }
      exists d'. split; [exact H1|]. split; [exact H2|]. split; [exact H3|]. intros Hx; destruct Hx.
    + destruct (put_coll_ok (S n) lvl fuel ch es k v Hn Hfuel Hinv Hag) as (d' & H1 & H2 & H3).
      exists d'. split; [exact H1|]. split; [exact H2|]. split; [exact H3|]. intros Hx; destruct Hx.
    + apply inv_node in Hinv. destruct Hinv as [[Hbm HF] Hcanon].
      destruct fuel as [|fuel]; [lia|]. cbn [put_aux].
      rewrite bit_of_frag, bit_test, slot_index_lo, shift_succ.
      pose proof (frag_lt (hash k) lvl) as Hf. set (f := frag (hash k) lvl) in *.
      pose proof (node_split n lvl bm cs f Hf HF) as Hsplit.
      destruct (tb bm f) eqn:Etb; cbn [negb].
      * destruct Hsplit as (clo & c & chi & -> & Hlen & Hlo & [Hc Hck] & Hhi).
        rewrite <- Hlen, child_at_app.
        destruct (IH (S lvl) fuel c k v) as (c' & Hput & Hinv' & Hpost & Hnode); [lia|lia|exact Hc| |].
        { intros e He. apply agree_succ.
          - apply (Hag e). rewrite bindings_node, flat_map_bindings_app. apply in_or_app. right.
            cbn [flat_map]. apply in_or_app. now left.
          - apply (Hck e He). }
        rewrite Hput, update_at_app. cbn [rev app].
        eexists. split; [reflexivity|]. split; [|split; [|intros _; exact I]].
        -- apply inv_node. split.
           ++ split; [exact Hbm|]. rewrite (slots_split bm f Hf), Etb.
              apply Forall2_app; [exact Hlo|]. cbn [app]. constructor; [|exact Hhi].
              split; [exact Hinv'|]. intros e He. apply Hpost in He.
              destruct He as [->|[He _]]; [reflexivity|apply (Hck e He)].
           ++ destruct clo as [|c1 clo]; [|destruct clo; cbn; exact I].
              destruct chi as [|c2 chi]; [|cbn; exact I].
              cbn [app canon] in *. destruct c; try contradiction. specialize (Hnode I).
              destruct c'; try contradiction. exact I.
        -- intros e. rewrite !bindings_node, !flat_map_bindings_app. cbn [flat_map].
           rewrite !in_app_iff. rewrite (Hpost e). split.
           ++ intros [H|[[H|[H Hne]]|H]].
              ** right. split; [now left|]. eapply sib_lo; eassumption || reflexivity.
              ** now left.
              ** right. split; [right; left; assumption|assumption].
              ** right. split; [right; right; assumption|]. eapply sib_hi; eassumption || reflexivity.
           ++ intros [H|[[H|[H|H]] Hne]]; [right; left; now left|now left|right; left; right; now split|right; now right].
      * destruct Hsplit as (clo & chi & -> & Hlen & Hlo & Hhi).
        rewrite <- Hlen, insert_at_app. cbn [rev app].
        eexists. split; [reflexivity|]. split; [|split; [|intros _; exact I]].
        -- apply inv_node. split.
           ++ split; [now apply set_range|]. rewrite slots_set by assumption.
              apply Forall2_app; [exact Hlo|]. cbn [app]. constructor; [|exact Hhi].
              split; [now apply inv_leaf|]. intros e [<-|[]]. reflexivity.
           ++ destruct clo as [|c1 clo]; [destruct chi as [|c2 chi]; [cbn in Hcanon; contradiction|cbn; exact I]|].
              destruct clo; cbn; exact I.
        -- intros e. rewrite !bindings_node, !flat_map_bindings_app. cbn [flat_map bindings].
           rewrite !in_app_iff. cbn [In]. split.
           ++ intros [H|[[H|[]]|H]].
              ** right. split; [now left|]. eapply sib_lo; eassumption || reflexivity.
              ** left. now symmetry.
              ** right. split; [now right|]. eapply sib_hi; eassumption || reflexivity.
           ++ intros [H|[[H|H] Hne]]; [right; left; left; now symmetry|now left|right; now right].
Qed.

(* ---------------------------------------------------------------- remove *)

Definition remove_post (d : dict) (k : key) (d' : dict) : Prop :=
  forall e, In e (bindings d') <-> In e (bindings d) /\ fst e <> k.

(* collapse_node restores the canonical shape and keeps the stored pairs *)
Lemma collapse_ok n lvl bm cs : pre n lvl bm cs ->
  (collapse_node key val bm cs = Empty \/ inv (S n) lvl (collapse_node key val bm cs))
  /\ bindings (collapse_node key val bm cs) = bindings (Node bm cs).
Proof.
  intros Hpre. pose proof Hpre as [Hbm HF].
  destruct cs as [|c [|c2 cs]]; cbn [collapse_node].
  - split; [now left|reflexivity].
  - inversion HF as [|f c' fs cs' [Hc Hck] Hrest Ef]; subst.
    destruct c as [|h k v|h es|bm' cs'].
    + now apply inv_not_empty in Hc.
    + split; [right; eapply inv_leaf_any; exact Hc|].
      rewrite bindings_node. cbn [flat_map]. now rewrite app_nil_r.
    + split; [right; eapply inv_coll_any; exact Hc|].
      rewrite bindings_node. cbn [flat_map]. now rewrite app_nil_r.
    + split; [|reflexivity]. right. apply inv_node. split; [exact Hpre|exact I].
  - split; [|reflexivity]. right. apply inv_node. split; [exact Hpre|exact I].
Qed.

Lemma remove_leaf_ok n lvl fuel lh lk lv k :
  (0 < fuel)%nat -> inv n lvl (Leaf lh lk lv) ->
  exists d', remove_aux key val key_eqb fuel (Leaf lh lk lv) k (hash k) (5 * Z.of_nat lvl) = Some d'
    /\ (d' = Empty \/ inv n lvl d') /\ remove_post (Leaf lh lk lv) k d'.
Proof.
  intros Hfuel Hinv. destruct fuel as [|fuel]; [lia|]. cbn [remove_aux].
  destruct (key_eqb lk k) eqn:E.
  - apply key_eqb_spec in E. subst lk. eexists. split; [reflexivity|]. split; [now left|].
    intros e. cbn [bindings In]. split; [tauto|]. intros [[H|[]] Hne]. subst e. now contradiction Hne.
  - apply key_eqb_false in E. eexists. split; [reflexivity|]. split; [now right|].
    intros e. cbn [bindings In]. split; [|tauto]. intros [H|[]]. split; [now left|]. subst e. exact E.
Qed.

Lemma remove_coll_ok n lvl fuel ch es k :
  (0 < fuel)%nat -> inv n lvl (Collision ch es) ->
  exists d', remove_aux key val key_eqb fuel (Collision ch es) k (hash k) (5 * Z.of_nat lvl) = Some d'
    /\ (d' = Empty \/ inv n lvl d') /\ remove_post (Collision ch es) k d'.
Proof.
  intros Hfuel Hinv. apply inv_coll in Hinv. destruct Hinv as (Hlen & Hnd & Hh).
  destruct fuel as [|fuel]; [lia|]. cbn [remove_aux].
  rewrite bucket_remove_spec. cbn [rev app].
  pose proof (fun e => in_bdel es k e Hnd) as Hin. pose proof (nodup_bdel es k Hnd) as Hnd'.
  destruct (bdel es k) as [|[k' v'] [|e2 rest]] eqn:Ek.
  - eexists. split; [reflexivity|]. split; [now left|]. intros e. cbn [bindings]. apply Hin.
  - eexists. split; [reflexivity|]. split.
    + right. apply inv_leaf. symmetry. apply (Hh (k', v')). apply Hin. now left.
    + intros e. cbn [bindings]. apply Hin.
  - eexists. split; [reflexivity|]. split.
    + right. apply inv_coll. split; [cbn [length]; lia|]. split; [exact Hnd'|].
      intros e He. apply Hh. now apply Hin.
    + intros e. cbn [bindings]. apply Hin.
Qed.

Lemma remove_ok n : forall lvl fuel d k,
  (n < fuel)%nat -> inv n lvl d ->
  exists d', remove_aux key val key_eqb fuel d k (hash k) (5 * Z.of_nat lvl) = Some d'
    /\ (d' = Empty \/ inv n lvl d') /\ remove_post d k d'.
Proof.
  induction n as [|n IH]; intros lvl fuel d k Hfuel Hinv.
  - destruct d as [|lh lk lv|ch es|bm cs].
    + now apply inv_not_empty in Hinv.
    + apply remove_leaf_ok; [lia|assumption].
    + apply remove_coll_ok; [lia|assumption].
    + cbn [inv] in Hinv. contradiction.
  - destruct d as [|lh lk lv|ch es|bm cs].
    + now apply inv_not_empty in Hinv.
    + apply remove_leaf_ok; [lia|assumption].
    + apply remove_coll_ok; [lia|assumption].
    + pose proof Hinv as Hinv0. apply inv_node in Hinv. destruct Hinv as [[Hbm HF] Hcanon].
      destruct fuel as [|fuel]; [lia|]. cbn [remove_aux].
      rewrite bit_of_frag, bit_test.
      pose proof (frag_lt (hash k) lvl) as Hf. set (f := frag (hash k) lvl) in *.
      pose proof (node_split n lvl bm cs f Hf HF) as Hsplit.
      destruct (tb bm f) eqn:Etb; cbn [negb].
      * rewrite slot_index_lo, shift_succ.
        destruct Hsplit as (clo & c & chi & -> & Hlen & Hlo & [Hc Hck] & Hhi).
        rewrite <- Hlen, child_at_app.
        destruct (IH (S lvl) fuel c k) as (c' & Hrem & Hinv' & Hpost); [lia|exact Hc|].
        rewrite Hrem.
        assert (Hsib : forall e, In e (flat_map bindings clo) \/ In e (flat_map bindings chi) -> fst e <> k).
        { intros e [H|H]; [eapply sib_lo|eapply sib_hi]; eassumption || reflexivity. }
        assert (Hgen : c' <> Empty ->
          exists d', Some (collapse_node key val bm (clo ++ c' :: chi)) = Some d'
            /\ (d' = Empty \/ inv (S n) lvl d') /\ remove_post (Node bm (clo ++ c :: chi)) k d').
        { intros Hne. destruct Hinv' as [->|Hinv']; [contradiction|].
          assert (Hpre : pre n lvl bm (clo ++ c' :: chi)).
          { split; [exact Hbm|]. rewrite (slots_split bm f Hf), Etb.
            apply Forall2_app; [exact Hlo|]. cbn [app]. constructor; [|exact Hhi].
            split; [exact Hinv'|]. intros e He. apply Hpost in He. apply (Hck e (proj1 He)). }
          destruct (collapse_ok n lvl bm _ Hpre) as [Hr Hb].
          eexists. split; [reflexivity|]. split; [exact Hr|].
          intros e. rewrite Hb, !bindings_node, !flat_map_bindings_app. cbn [flat_map].
          rewrite !in_app_iff, (Hpost e). split.
          - intros [H|[[H Hne']|H]].
            + split; [now left|]. apply Hsib. now left.
            + split; [right; now left|assumption].
            + split; [right; now right|]. apply Hsib. now right.
          - intros [[H|[H|H]] Hne']; [now left|right; left; now split|right; now right]. }
        destruct c' as [|h' k' v'|h' es'|bm' cs'].
        -- unfold remove_slot. rewrite remove_at_app. cbn [rev app].
           assert (Hpre : pre n lvl (int_and bm (int_not (2 ^ Z.of_nat f))) (clo ++ chi)).
           { split; [now apply clear_range|]. rewrite slots_clear by assumption.
             apply Forall2_app; assumption. }
           destruct (collapse_ok n lvl _ _ Hpre) as [Hr Hb].
           eexists. split; [reflexivity|]. split; [exact Hr|].
           intros e. rewrite Hb, !bindings_node, !flat_map_bindings_app. cbn [flat_map].
           rewrite !in_app_iff. specialize (Hpost e). cbn [bindings In] in Hpost. split.
           ++ intros [H|H]; (split; [tauto|]); apply Hsib; tauto.
           ++ intros [[H|[H|H]] Hne']; [now left| |now right]. exfalso. apply Hpost. now split.
        -- rewrite update_at_app. cbn [rev app]. apply Hgen. discriminate.
        -- rewrite update_at_app. cbn [rev app]. apply Hgen. discriminate.
        -- rewrite update_at_app. cbn [rev app]. apply Hgen. discriminate.
      * eexists. split; [reflexivity|]. split; [now right|].
        intros e. split; [|tauto]. intros He. split; [exact He|].
        intros Hk. rewrite bindings_node in He. apply (children_frag _ _ _ _ _ HF) in He.
        apply slots_In in He. rewrite Hk in He. fold f in He. destruct He as [_ He]. congruence.
Qed.

(* ---------------------------------------------------------------- get, distinct keys *)

Lemma nodup_children n lvl fs cs :
  (forall lvl' d, inv n lvl' d -> NoDup (map fst (bindings d))) ->
  Forall2 (child_ok n lvl) fs cs -> NoDup fs -> NoDup (map fst (flat_map bindings cs)).
Proof.
  intros IHn. induction 1 as [|f c fs cs [Hc Hck] HF IH]; intros Hnd; cbn [flat_map map]; [constructor|].
  inversion Hnd as [|x l Hnotin Hnd']; subst.
  rewrite map_app. apply NoDup_app_intro; [now apply (IHn (S lvl))|now apply IH|].
  intros x Hx Hx'. apply in_map_iff in Hx. destruct Hx as (e & <- & He).
  apply in_map_iff in Hx'. destruct Hx' as (e' & Ee & He').
  apply (children_frag _ _ _ _ _ HF) in He'. rewrite Ee, (Hck e He) in He'. contradiction.
Qed.

(* all keys stored in a well-formed dict are pairwise distinct *)
Lemma nodup_bindings n : forall lvl d, inv n lvl d -> NoDup (map fst (bindings d)).
Proof.
  induction n as [|n IH]; intros lvl d Hinv; destruct d as [|h k v|h es|bm cs];
    try (now apply inv_not_empty in Hinv);
    try (cbn [bindings map fst]; constructor; [intros []|constructor]);
    try (apply inv_coll in Hinv; cbn [bindings]; tauto).
  - cbn [inv] in Hinv. contradiction.
  - apply inv_node in Hinv. destruct Hinv as [[_ HF] _]. rewrite bindings_node.
    apply (nodup_children n lvl (slots bm) cs IH HF (slots_NoDup bm)).
Qed.

Lemma get_ok n : forall lvl fuel d k, (n < fuel)%nat -> inv n lvl d ->
  get_aux key val key_eqb fuel d k (hash k) (5 * Z.of_nat lvl) = Some (abs d k).
Proof.
  induction n as [|n IH]; intros lvl fuel d k Hfuel Hinv; (destruct fuel as [|fuel]; [lia|]);
    destruct d as [|h k' v|h es|bm cs];
    try (now apply inv_not_empty in Hinv); try reflexivity.
  - cbn [inv] in Hinv. contradiction.
  - apply inv_node in Hinv. destruct Hinv as [[Hbm HF] Hcanon].
    cbn [get_aux]. rewrite bit_of_frag, bit_test.
    pose proof (frag_lt (hash k) lvl) as Hf. set (f := frag (hash k) lvl) in *.
    pose proof (node_split n lvl bm cs f Hf HF) as Hsplit.
    destruct (tb bm f) eqn:Etb; cbn [negb].
    + rewrite slot_index_lo, shift_succ.
      destruct Hsplit as (clo & c & chi & -> & Hlen & Hlo & [Hc Hck] & Hhi).
      rewrite <- Hlen, child_at_app, (IH (S lvl) fuel c k) by (lia || assumption).
      f_equal. unfold abs. rewrite bindings_node, flat_map_bindings_app. cbn [flat_map].
      rewrite assoc_app, (assoc_none (flat_map bindings clo)).
      * rewrite assoc_app. destruct (assoc (bindings c) k); [reflexivity|].
        symmetry. apply assoc_none. intros Hin. apply in_map_iff in Hin. destruct Hin as (e & Ee & He).
        eapply sib_hi; eassumption || reflexivity.
      * intros Hin. apply in_map_iff in Hin. destruct Hin as (e & Ee & He).
        eapply sib_lo; eassumption || reflexivity.
    + f_equal. symmetry. unfold abs. apply assoc_none. intros Hin.
      apply in_map_iff in Hin. destruct Hin as (e & Ee & He). rewrite bindings_node in He.
      apply (children_frag _ _ _ _ _ HF) in He. apply slots_In in He. rewrite Ee in He. fold f in He.
      destruct He as [_ He]. congruence.
Qed.

(* ---------------------------------------------------------------- the exported functions *)

Notation dget := (d_get key val key_eqb hash).
Notation dput := (d_put key val key_eqb hash).
Notation dremove := (d_remove key val key_eqb hash).
Notation dhas := (d_has key val key_eqb hash).
Notation dentries := (d_entries key val).
Notation dcount := (d_count key val).
Notation dkeys := (d_keys key val).
Notation dvalues := (d_values key val).
Notation diter := (d_iter key val).
Notation dfrom := (d_from key val key_eqb hash).
Notation dmerge := (d_merge key val key_eqb hash).

Lemma Inv_empty : Inv (d_new key val).
Proof. now left. Qed.

Lemma Inv_nodup d : Inv d -> NoDup (map fst (bindings d)).
Proof. intros [->|H]; [constructor|now apply (nodup_bindings 7 0)]. Qed.

Lemma agree_0 h1 h2 : agree 0 h1 h2.
Proof. intros j Hj. lia. Qed.

Theorem put_correct d k v : Inv d ->
  exists d', dput d k v = Some d' /\ Inv d' /\ forall k', abs d' k' = upd (abs d) k v k'.
Proof.
  intros HI. pose proof (Inv_nodup d HI) as Hnd. destruct HI as [->|Hinv].
  - exists (Leaf (hash k) k v). split; [reflexivity|]. split; [right; now apply inv_leaf|].
    apply assoc_put_law; [constructor|cbn [bindings map fst]; constructor; [intros []|constructor]|].
    intros e. cbn [bindings In]. intuition.
  - destruct (put_ok 7 0 FUEL d k v) as (d' & Hput & Hinv' & Hpost & _);
      [reflexivity|unfold FUEL; lia|exact Hinv|intros e _; apply agree_0|].
    exists d'. split; [exact Hput|]. split; [now right|].
    apply assoc_put_law; [exact Hnd|now apply (nodup_bindings 7 0)|exact Hpost].
Qed.

Theorem remove_correct d k : Inv d ->
  exists d', dremove d k = Some d' /\ Inv d' /\ forall k', abs d' k' = del (abs d) k k'.
Proof.
  intros HI. pose proof (Inv_nodup d HI) as Hnd. destruct HI as [->|Hinv].
  - exists Empty. split; [reflexivity|]. split; [now left|].
    intros k'. unfold del, abs, assoc. cbn [bindings bucket_get]. now destruct (key_eqb k' k).
  - destruct (remove_ok 7 0 FUEL d k) as (d' & Hrem & Hinv' & Hpost); [unfold FUEL; lia|exact Hinv|].
    exists d'. split; [exact Hrem|]. split; [exact Hinv'|].
    apply assoc_remove_law; [exact Hnd|now apply Inv_nodup|exact Hpost].
Qed.

Theorem get_correct d k : Inv d -> dget d k = Some (abs d k).
Proof.
  intros [->|Hinv]; [reflexivity|]. apply (get_ok 7 0 FUEL d k); [unfold FUEL; lia|exact Hinv].
Qed.

Theorem has_correct d k : Inv d ->
  dhas d k = Some (match abs d k with Some _ => true | None => false end).
Proof. intros HI. unfold d_has. now rewrite get_correct. Qed.

(* ---------------------------------------------------------------- entries, count, keys, values *)

Fixpoint wsize (l : list dict) : nat :=
  match l with [] => O | c :: t => (dsize key val c + wsize t)%nat end.

Lemma dsize_node bm cs : dsize key val (Node bm cs) = S (wsize cs).
Proof. reflexivity. Qed.

Lemma wsize_app l1 l2 : wsize (l1 ++ l2) = (wsize l1 + wsize l2)%nat.
Proof. induction l1 as [|c t IH]; cbn [app wsize]; [reflexivity|]. rewrite IH. lia. Qed.

Lemma wsize_rev l : wsize (rev l) = wsize l.
Proof. induction l as [|c t IH]; cbn [rev wsize]; [reflexivity|]. rewrite wsize_app, IH. cbn [wsize]. lia. Qed.

Lemma dsize_pos d : (0 < dsize key val d)%nat.
Proof. destruct d; cbn [dsize]; lia. Qed.

Lemma flat_map_rev_perm (l : list dict) : Permutation (flat_map bindings (rev l)) (flat_map bindings l).
Proof.
  induction l as [|c t IH]; cbn [rev flat_map]; [constructor|].
  rewrite flat_map_app. cbn [flat_map]. rewrite app_nil_r.
  etransitivity; [apply Permutation_app_comm|]. now apply Permutation_app_head.
Qed.

(* the worklist walk of `entries` terminates and collects exactly the stored pairs *)
Lemma entries_ok fuel : forall wl acc, (wsize wl < fuel)%nat ->
  exists es, entries_aux key val fuel wl acc = Some es /\ Permutation es (flat_map bindings wl ++ acc).
Proof.
  induction fuel as [|fuel IH]; intros wl acc Hfuel; [lia|].
  destruct wl as [|node rest]; cbn [entries_aux].
  - exists acc. split; [reflexivity|]. apply Permutation_refl.
  - cbn [wsize] in Hfuel. pose proof (dsize_pos node) as Hpos.
    destruct node as [|h k v|h es0|bm cs].
    + destruct (IH rest acc) as (es & He & Hp); [lia|]. exists es. split; [exact He|exact Hp].
    + destruct (IH rest ((k, v) :: acc)) as (es & He & Hp); [lia|]. exists es. split; [exact He|].
      cbn [flat_map bindings app]. etransitivity; [exact Hp|]. symmetry. apply Permutation_middle.
    + destruct (IH rest (revcat es0 acc)) as (es & He & Hp); [lia|]. exists es. split; [exact He|].
      rewrite revcat_spec in Hp. cbn [flat_map bindings]. etransitivity; [exact Hp|].
      rewrite <- app_assoc. rewrite !app_assoc. apply Permutation_app_tail.
      etransitivity; [apply Permutation_app_comm|]. apply Permutation_app_tail. symmetry. apply Permutation_rev.
    + rewrite dsize_node in Hfuel.
      destruct (IH (revcat cs rest) acc) as (es & He & Hp).
      { rewrite revcat_spec, wsize_app, wsize_rev. lia. }
      exists es. split; [exact He|]. rewrite revcat_spec, flat_map_app in Hp.
      cbn [flat_map]. rewrite bindings_node. etransitivity; [exact Hp|].
      apply Permutation_app_tail. apply Permutation_app_tail. apply flat_map_rev_perm.
Qed.

Theorem entries_correct d : Inv d ->
  exists es, dentries d = Some es /\ Permutation es (bindings d) /\ NoDup (map fst es) /\
             forall k v, In (k, v) es <-> abs d k = Some v.
Proof.
  intros HI. destruct (entries_ok (S (dsize key val d)) [d] []) as (es & He & Hp).
  { cbn [wsize]. lia. }
  cbn [flat_map] in Hp. rewrite !app_nil_r in Hp.
  exists es. split; [exact He|]. split; [exact Hp|].
  pose proof (Inv_nodup d HI) as Hnd. split.
  - eapply Permutation_NoDup; [|exact Hnd]. apply Permutation_map. now symmetry.
  - intros k v. unfold abs. rewrite (assoc_in _ _ _ Hnd). split; intros H.
    + eapply Permutation_in; [exact Hp|exact H].
    + eapply Permutation_in; [symmetry; exact Hp|exact H].
Qed.

Theorem count_correct d : Inv d -> dcount d = Some (Z.of_nat (length (bindings d))).
Proof.
  intros HI. destruct (entries_correct d HI) as (es & He & Hp & _). unfold d_count. rewrite He.
  rewrite length_acc_spec, (Permutation_length Hp). reflexivity.
Qed.

Theorem keys_correct d : Inv d ->
  exists ks, dkeys d = Some ks /\ Permutation ks (map fst (bindings d)) /\ NoDup ks.
Proof.
  intros HI. destruct (entries_correct d HI) as (es & He & Hp & Hnd & _). unfold d_keys. rewrite He.
  eexists. split; [reflexivity|]. rewrite map_acc_spec. cbn [rev app].
  split; [now apply Permutation_map|exact Hnd].
Qed.

Theorem values_correct d : Inv d ->
  exists vs, dvalues d = Some vs /\ Permutation vs (map snd (bindings d)).
Proof.
  intros HI. destruct (entries_correct d HI) as (es & He & Hp & _). unfold d_values. rewrite He.
  eexists. split; [reflexivity|]. rewrite map_acc_spec. cbn [rev app]. now apply Permutation_map.
Qed.

(* ---------------------------------------------------------------- from, merge *)

Definition upd_pair (m : key -> option val) (p : entry) : key -> option val := upd m (fst p) (snd p).

Lemma fold_upd_ext ps : forall m1 m2, (forall k, m1 k = m2 k) ->
  forall k, fold_left upd_pair ps m1 k = fold_left upd_pair ps m2 k.
Proof.
  induction ps as [|p t IH]; intros m1 m2 Hm k; cbn [fold_left]; [apply Hm|].
  apply IH. intros k'. unfold upd_pair, upd. now rewrite Hm.
Qed.

Lemma from_ok ps : forall d, Inv d ->
  exists d', from_aux key val key_eqb hash d ps = Some d' /\ Inv d' /\
             forall k, abs d' k = fold_left upd_pair ps (abs d) k.
Proof.
  induction ps as [|[k v] t IH]; intros d HI; cbn [from_aux].
  - exists d. split; [reflexivity|]. split; [exact HI|]. reflexivity.
  - destruct (put_correct d k v HI) as (d1 & Hput & HI1 & Habs).
    unfold d_put in Hput. rewrite Hput.
    destruct (IH d1 HI1) as (d' & Hfrom & HI' & Habs').
    exists d'. split; [exact Hfrom|]. split; [exact HI'|].
    intros k0. rewrite Habs'. cbn [fold_left]. apply fold_upd_ext. intros k1. apply Habs.
Qed.

(* from: later pairs win *)
Theorem from_correct ps :
  exists d', dfrom ps = Some d' /\ Inv d' /\
             forall k, abs d' k = fold_left upd_pair ps (fun _ => None) k.
Proof.
  destruct (from_ok ps Empty Inv_empty) as (d' & H1 & H2 & H3). exists d'. split; [exact H1|]. split; [exact H2|].
  intros k. rewrite H3. apply fold_upd_ext. intros k'. reflexivity.
Qed.

Lemma fold_upd_nodup es : forall m k, NoDup (map fst es) ->
  fold_left upd_pair es m k = match assoc es k with Some v => Some v | None => m k end.
Proof.
  induction es as [|[k0 v0] t IH]; intros m k Hnd; cbn [fold_left]; [reflexivity|].
  cbn [map fst] in Hnd. inversion Hnd as [|x l Hnotin Hnd']; subst.
  rewrite (IH _ _ Hnd'). unfold assoc. cbn [bucket_get]. fold (assoc t k).
  destruct (key_eqb k0 k) eqn:E.
  - apply key_eqb_spec in E. subst k0. rewrite (assoc_none t k Hnotin).
    unfold upd_pair, upd. cbn [fst snd]. now rewrite key_eqb_refl.
  - destruct (assoc t k); [reflexivity|]. unfold upd_pair, upd. cbn [fst snd].
    apply key_eqb_false in E. replace (key_eqb k k0) with false; [reflexivity|].
    symmetry. apply key_eqb_false. congruence.
Qed.

(* merge: b's values win on conflict *)
Theorem merge_correct a b : Inv a -> Inv b ->
  exists d', dmerge a b = Some d' /\ Inv d' /\
             forall k, abs d' k = match abs b k with Some v => Some v | None => abs a k end.
Proof.
  intros Ha Hb. destruct (entries_correct b Hb) as (es & He & Hp & Hnd & Hin).
  unfold d_merge. rewrite He.
  destruct (from_ok es a Ha) as (d' & Hfrom & HI' & Habs).
  exists d'. split; [exact Hfrom|]. split; [exact HI'|].
  intros k. rewrite Habs, (fold_upd_nodup es _ _ Hnd).
  replace (assoc es k) with (abs b k); [reflexivity|].
  unfold abs. apply assoc_ext; [now apply Inv_nodup|exact Hnd|].
  intros e. split; intros H; [eapply Permutation_in; [symmetry; exact Hp|exact H]|eapply Permutation_in; [exact Hp|exact H]].
Qed.

(* children count = popcount of the bitmap, at every Node of a well-formed dict *)
Lemma inv_popcount n lvl bm cs : inv n lvl (Node bm cs) -> Z.of_nat (length cs) = popcount bm.
Proof.
  destruct n; [cbn [inv]; tauto|]. intros H. apply inv_node in H. destruct H as [[Hbm HF] _].
  rewrite popcount_slots by assumption. f_equal. symmetry. apply (Forall2_len _ _ _ HF).
Qed.

(* ---------------------------------------------------------------- persistence, histories *)

(* Old versions are unaffected: the functions are pure, so after computing put / remove results the
   old dict still answers every get as before, and each result answers as the updated map. *)
Theorem persistence d k v k2 d1 d2 : Inv d -> dput d k v = Some d1 -> dremove d k2 = Some d2 ->
  forall k', dget d k' = Some (abs d k') /\ dget d1 k' = Some (upd (abs d) k v k') /\
             dget d2 k' = Some (del (abs d) k2 k').
Proof.
  intros HI Hp Hr k'.
  destruct (put_correct d k v HI) as (d1' & Hp' & HI1 & A1). rewrite Hp in Hp'. inversion Hp'. subst d1'.
  destruct (remove_correct d k2 HI) as (d2' & Hr' & HI2 & A2). rewrite Hr in Hr'. inversion Hr'. subst d2'.
  split; [now apply get_correct|]. split; [rewrite get_correct, A1 by assumption|rewrite get_correct, A2 by assumption]; reflexivity.
Qed.

(* any sequence of insertions / replacements / removals, against the reference map *)
Inductive op := OPut (k : key) (v : val) | ORemove (k : key).

Fixpoint run (ops : list op) (d : dict) : option dict :=
  match ops with
  | [] => Some d
  | OPut k v :: t => match dput d k v with Some d' => run t d' | None => None end
  | ORemove k :: t => match dremove d k with Some d' => run t d' | None => None end
  end.

Fixpoint ref_run (ops : list op) (m : key -> option val) : key -> option val :=
  match ops with
  | [] => m
  | OPut k v :: t => ref_run t (upd m k v)
  | ORemove k :: t => ref_run t (del m k)
  end.

Lemma ref_run_ext ops : forall m1 m2, (forall k, m1 k = m2 k) -> forall k, ref_run ops m1 k = ref_run ops m2 k.
Proof.
  induction ops as [|[k v|k] t IH]; intros m1 m2 Hm k0; cbn [ref_run]; [apply Hm| |];
    apply IH; intros k'; unfold upd, del; now rewrite Hm.
Qed.

Lemma run_ok ops : forall d, Inv d ->
  exists d', run ops d = Some d' /\ Inv d' /\ forall k, abs d' k = ref_run ops (abs d) k.
Proof.
  induction ops as [|[k v|k] t IH]; intros d HI; cbn [run ref_run].
  - exists d. split; [reflexivity|]. split; [exact HI|reflexivity].
  - destruct (put_correct d k v HI) as (d1 & Hp & HI1 & A1). rewrite Hp.
    destruct (IH d1 HI1) as (d' & Hrun & HI' & A'). exists d'. split; [exact Hrun|]. split; [exact HI'|].
    intros k0. rewrite A'. apply ref_run_ext. exact A1.
  - destruct (remove_correct d k HI) as (d1 & Hp & HI1 & A1). rewrite Hp.
    destruct (IH d1 HI1) as (d' & Hrun & HI' & A'). exists d'. split; [exact Hrun|]. split; [exact HI'|].
    intros k0. rewrite A'. apply ref_run_ext. exact A1.
Qed.

Theorem history_correct ops :
  exists d, run ops (d_new key val) = Some d /\ Inv d /\
    (forall k, dget d k = Some (ref_run ops (fun _ => None) k)) /\
    (exists es, dentries d = Some es /\ NoDup (map fst es) /\
                (forall k v, In (k, v) es <-> ref_run ops (fun _ => None) k = Some v) /\
                dcount d = Some (Z.of_nat (length es))).
Proof.
  destruct (run_ok ops Empty Inv_empty) as (d & Hrun & HI & A). exists d. split; [exact Hrun|]. split; [exact HI|].
  assert (A' : forall k, abs d k = ref_run ops (fun _ => None) k).
  { intros k. rewrite A. apply ref_run_ext. reflexivity. }
  split; [intros k; rewrite get_correct by assumption; now rewrite A'|].
  destruct (entries_correct d HI) as (es & He & Hp & Hnd & Hin). exists es. split; [exact He|]. split; [exact Hnd|].
  split; [intros k v; rewrite <- A'; apply Hin|].
  rewrite count_correct by assumption. now rewrite (Permutation_length Hp).
Qed.

Lemma bindings_are_the_map d : Inv d ->
  NoDup (map fst (bindings d)) /\ forall k v, In (k, v) (bindings d) <-> abs d k = Some v.
Proof.
  intros HI. pose proof (Inv_nodup d HI) as Hnd. split; [exact Hnd|].
  intros k v. unfold abs. symmetry. now apply assoc_in.
Qed.

Lemma node_shape n lvl bm cs : inv n lvl (Node bm cs) ->
  0 <= bm < 2 ^ 32 /\ Z.of_nat (length cs) = popcount bm /\ cs <> [].
Proof.
  intros H. pose proof (inv_popcount _ _ _ _ H) as Hp. destruct n; [cbn [inv] in H; contradiction|].
  apply inv_node in H. destruct H as [[Hbm _] Hc]. split; [exact Hbm|]. split; [exact Hp|].
  intros ->. exact Hc.
Qed.

(* ---------------------------------------------------------------- remove of an absent key *)

Lemma bdel_absent es k : ~ In k (map fst es) -> bdel es k = es.
Proof.
  induction es as [|[k' v'] t IH]; cbn [bdel map fst In]; [reflexivity|].
  intros H. destruct (key_eqb k' k) eqn:E.
  - apply key_eqb_spec in E. exfalso. apply H. now left.
  - f_equal. apply IH. intros Hin. apply H. now right.
Qed.

Lemma collapse_canon bm cs : canon cs -> collapse_node key val bm cs = Node bm cs.
Proof.
  destruct cs as [|c [|c2 cs]]; cbn [canon collapse_node]; [tauto| |reflexivity].
  destruct c; tauto.
Qed.

(* dict.qv: "A dict with `key` removed (unchanged if absent)" — structurally unchanged *)
Lemma remove_absent n : forall lvl fuel d k, (n < fuel)%nat -> inv n lvl d ->
  ~ In k (map fst (bindings d)) ->
  remove_aux key val key_eqb fuel d k (hash k) (5 * Z.of_nat lvl) = Some d.
Proof.
  induction n as [|n IH]; intros lvl fuel d k Hfuel Hinv Habs; (destruct fuel as [|fuel]; [lia|]);
    destruct d as [|lh lk lv|ch es|bm cs]; try (now apply inv_not_empty in Hinv).
  1,4: (cbn [remove_aux]; replace (key_eqb lk k) with false; [reflexivity|];
        symmetry; apply key_eqb_false; intros ->; apply Habs; now left).
  1,3: (apply inv_coll in Hinv; destruct Hinv as (Hlen & _ & _); cbn [remove_aux];
        rewrite bucket_remove_spec; cbn [rev app]; cbn [bindings] in Habs; rewrite (bdel_absent es k Habs);
        destruct es as [|[k1 v1] [|e2 rest]]; cbn [length] in Hlen; try lia; reflexivity).
  - cbn [inv] in Hinv. contradiction.
  - apply inv_node in Hinv. destruct Hinv as [[Hbm HF] Hcanon].
    cbn [remove_aux]. rewrite bit_of_frag, bit_test.
    pose proof (frag_lt (hash k) lvl) as Hf. set (f := frag (hash k) lvl) in *.
    pose proof (node_split n lvl bm cs f Hf HF) as Hsplit.
    destruct (tb bm f) eqn:Etb; cbn [negb]; [|reflexivity].
    rewrite slot_index_lo, shift_succ.
    destruct Hsplit as (clo & c & chi & -> & Hlen & Hlo & [Hc Hck] & Hhi).
    rewrite <- Hlen, child_at_app.
    rewrite (IH (S lvl) fuel c k) by (try lia; try assumption; intros Hin; apply Habs;
      rewrite bindings_node, flat_map_bindings_app, map_app; apply in_or_app; right;
      cbn [flat_map]; rewrite map_app; apply in_or_app; now left).
    rewrite update_at_app. cbn [rev app].
    destruct c; [now apply inv_not_empty in Hc| | |]; now rewrite collapse_canon.
Qed.

Theorem remove_absent_unchanged d k : Inv d -> abs d k = None -> dremove d k = Some d.
Proof.
  intros HI Habs. pose proof (Inv_nodup d HI) as Hnd. destruct HI as [->|Hinv]; [reflexivity|].
  apply (remove_absent 7 0 FUEL d k); [unfold FUEL; lia|exact Hinv|].
  intros Hin. apply in_map_iff in Hin. destruct Hin as ([k' v] & Ek & Hin). cbn [fst] in Ek. subst k'.
  apply (assoc_in _ _ _ Hnd) in Hin. unfold abs in Habs. congruence.
Qed.

End Proofs.
