(* C14 — the resource-ownership automaton of quiver-environment/src/environment.rs.

   State  = ownership map (`resource_ownership`) + terminated processes + pids with an outstanding
            async effect + `next_process_id` + the log of calls made to the `EffectBackend`.
   Events = what `Environment::step` handles, one at a time (DESIGN.md §4: with one visible event per
            step the environment handles exactly one event per action), plus `ETerminate p`, the
            moment a process really terminates on its worker (the environment does NOT see it; it
            learns of a termination only through a later `EResults`).
   The backend is a logged oracle: its answers are part of the events (`answer`, `EComplete`); every
   `execute` / `close_resource` the environment makes is appended to `log`.

   Not modelled: persistent (REPL/root) processes going to sleep and being resumed, the
   inspector/subscription traffic, routing (`process_router`: which worker runs a process). *)
From Coq Require Import List NArith Bool.
Import ListNotations.
Open Scope N_scope.

Definition pid := N.
Definition rid := N.

(* value.rs `Value`, reduced to what `transfer_resource_ownership` looks at (environment.rs:1238):
   Resource / Tuple fields / Function captures / anything else *)
Inductive val : Type :=
| VRes (r : rid)
| VTuple (fields : list val)
| VFun (captures : list val)
| VOther.

(* effects.rs:59 `Effect::resource_id`, for the harness effect type qvh::TestEffect
   (Open n creates; Op r n operates on r) *)
Inductive effect : Type :=
| Open (n : N)
| Op (r : rid) (n : N).

Definition resource_id (e : effect) : option rid :=
  match e with
  | Open _ => None
  | Op r _ => Some r
  end.

(* effects.rs:94 result of `EffectBackend::execute`:
   Ok(Some(Ok v)) = ANow (Some v); Ok(Some(Err _)) = ANow None; Ok(None) = AAsync; Err _ = AFail *)
Inductive answer : Type :=
| ANow (res : option val)
| AAsync
| AFail.

Inductive event : Type :=
| EEffect (p : pid) (e : effect) (a : answer)   (* Event::EffectRequest + what the backend answers if asked *)
| EComplete (p : pid) (res : option val)        (* one item of `process_completions()` *)
| ESpawn (caller : pid) (vals : list val)       (* Event::SpawnAction: captures ++ [argument] *)
| ESend (sender target : pid) (v : val)         (* Event::DeliverAction (it names the sender) *)
| EResults (done : list pid)                    (* Event::ProcessResults: the pids whose result is Some *)
| EWatchReport (p : pid)                        (* Event::ProcessTerminated: the worker's answer to a
                                                   Command::WatchProcess once p has terminated *)
| ETerminate (p : pid)                          (* p completed/failed on its worker *)
| EOther.                                       (* AwaitAction, ResultResponse, ...: no effect on ownership *)

Inductive call : Type :=
| CExec (p : pid) (e : effect)                  (* backend.execute(p, e) *)
| CClose (r : rid).                             (* backend.close_resource(r) *)

(* `HashMap<ResourceId, ProcessId>` as an association list; iteration order is not observable
   (dumps are compared sorted, close batches as sets). *)
Definition omap := list (rid * pid).

Fixpoint lookup (r : rid) (m : omap) : option pid :=
  match m with
  | [] => None
  | (r', p) :: t => if N.eqb r r' then Some p else lookup r t
  end.

(* HashMap::insert: replace the binding if the key is present, add it otherwise *)
Fixpoint insert (r : rid) (p : pid) (m : omap) : omap :=
  match m with
  | [] => [(r, p)]
  | (r', q) :: t => if N.eqb r r' then (r', p) :: t else (r', q) :: insert r p t
  end.

(* environment.rs:1241 `if let Some(owner) = self.resource_ownership.get_mut(id) { *owner = new }`:
   re-assign the binding only when the key is present *)
Fixpoint reassign (r : rid) (p : pid) (m : omap) : omap :=
  match m with
  | [] => []
  | (r', q) :: t => if N.eqb r r' then (r', p) :: t else (r', q) :: reassign r p t
  end.

(* HashMap::remove *)
Fixpoint remove (r : rid) (m : omap) : omap :=
  match m with
  | [] => []
  | (r', q) :: t => if N.eqb r r' then remove r t else (r', q) :: remove r t
  end.

Record state : Type := mkState {
  owner : omap;            (* environment.rs resource_ownership *)
  dead : list pid;         (* processes that have terminated (ETerminate seen) *)
  pending : list pid;      (* processes with an async effect outstanding in the backend *)
  next_pid : pid;          (* environment.rs next_process_id *)
  log : list call;         (* every backend call so far, oldest first *)
  watched : list pid       (* one entry per Command::WatchProcess sent and not yet answered by an
                              Event::ProcessTerminated (worker.rs `watched` + commands in flight) *)
}.

(* after `start_process` of the root: process 0 exists, next id is 1 *)
Definition init : state := mkState [] [] [] 1 [] [].

Definition owner_is (g : pid) (o : option pid) : bool :=
  match o with
  | Some q => N.eqb q g
  | None => false
  end.

(* environment.rs give_resources(giver, value, new_owner) — recursive through tuples and closures:
   a resource moves only if `giver` is its owner (then transfer_resource_ownership re-assigns the
   registered id); the handle of a resource somebody else owns, or of an id that is not registered,
   moves nothing *)
Fixpoint give (giver : pid) (v : val) (new_owner : pid) (m : omap) : omap :=
  match v with
  | VRes r => if owner_is giver (lookup r m) then reassign r new_owner m else m
  | VTuple fields => fold_left (fun m f => give giver f new_owner m) fields m
  | VFun captures => fold_left (fun m c => give giver c new_owner m) captures m
  | VOther => m
  end.

Definition give_all (giver : pid) (vs : list val) (new_owner : pid) (m : omap) : omap :=
  fold_left (fun m v => give giver v new_owner m) vs m.

(* the resource ids a value contains, in traversal order *)
Fixpoint rids_of (v : val) : list rid :=
  match v with
  | VRes r => [r]
  | VTuple fields => flat_map rids_of fields
  | VFun captures => flat_map rids_of captures
  | VOther => []
  end.

(* the boolean give_resources returns ("did any resource change hands"), specified on the map before
   the call: some carried id is owned by the giver. (The code accumulates it along the traversal;
   the step-by-step correspondence compares the WatchProcess commands it decides.) *)
Definition gives_any (giver : pid) (vs : list val) (m : omap) : bool :=
  existsb (fun r => owner_is giver (lookup r m)) (flat_map rids_of vs).

(* environment.rs watch_resource_owner: Command::WatchProcess to the owner's worker *)
Definition watch (p : pid) (s : state) : state :=
  mkState (owner s) (dead s) (pending s) (next_pid s) (log s) (p :: watched s).

(* environment.rs handle_effect_completion: a result that IS a resource registers ownership and the
   new owner is watched (a resource nested inside a result tuple would not; no builtin returns one) *)
Definition handle_effect_completion (s : state) (p : pid) (res : option val) : state :=
  match res with
  | Some (VRes r) =>
      watch p (mkState (insert r p (owner s)) (dead s) (pending s) (next_pid s) (log s) (watched s))
  | _ => s
  end.

Fixpoint remove_pid (p : pid) (l : list pid) : list pid :=
  match l with
  | [] => []
  | q :: t => if N.eqb p q then t else q :: remove_pid p t
  end.

(* environment.rs handle_effect_request *)
Definition handle_effect_request (s : state) (p : pid) (e : effect) (a : answer) : state :=
  let denied :=
    match resource_id e with
    | Some r => match lookup r (owner s) with
                | Some o => negb (N.eqb o p)      (* report_effect_error, no backend call *)
                | None => false                   (* id not in the map: the check is skipped *)
                end
    | None => false
    end in
  if denied then s
  else
    (* effect_backend.execute(process_id, effect) *)
    let s1 := mkState (owner s) (dead s) (pending s) (next_pid s) (log s ++ [CExec p e]) (watched s) in
    match a with
    | ANow res => handle_effect_completion s1 p res           (* immediate completion *)
    | AAsync => mkState (owner s1) (dead s1) (p :: pending s1) (next_pid s1) (log s1) (watched s1)
    | AFail => s1                                             (* report_effect_error *)
    end.

(* environment.rs handle_spawn: allocate the pid, give the caller's resources in captures then
   argument to the child, watch the child if anything moved *)
Definition handle_spawn (s : state) (caller : pid) (vals : list val) : state :=
  let new_pid := next_pid s in
  let s' := mkState (give_all caller vals new_pid (owner s)) (dead s) (pending s) (N.succ new_pid)
                    (log s) (watched s) in
  if gives_any caller vals (owner s) then watch new_pid s' else s'.

(* environment.rs handle_deliver *)
Definition handle_deliver (s : state) (sender target : pid) (v : val) : state :=
  let s' := mkState (give sender v target (owner s)) (dead s) (pending s) (next_pid s) (log s)
                    (watched s) in
  if gives_any sender [v] (owner s) then watch target s' else s'.

(* the ids owned by p, in map order *)
Definition owned_by (p : pid) (m : omap) : list rid :=
  map fst (filter (fun rp => N.eqb (snd rp) p) m).

(* environment.rs cleanup_process_resources: close each resource of p, drop it from the map *)
Definition cleanup (s : state) (p : pid) : state :=
  let rs := owned_by p (owner s) in
  mkState (fold_left (fun m r => remove r m) rs (owner s)) (dead s) (pending s) (next_pid s)
          (log s ++ map CClose rs) (watched s).

(* environment.rs handle_process_results: cleanup for every result that is Some *)
Definition handle_process_results (s : state) (done : list pid) : state :=
  fold_left cleanup done s.

Definition step (s : state) (e : event) : state :=
  match e with
  | EEffect p eff a => handle_effect_request s p eff a
  | EComplete p res =>
      let s' := handle_effect_completion s p res in
      mkState (owner s') (dead s') (remove_pid p (pending s')) (next_pid s') (log s') (watched s')
  | ESpawn caller vals => handle_spawn s caller vals
  | ESend sender target v => handle_deliver s sender target v
  | EResults done => handle_process_results s done
  | EWatchReport p =>                      (* handle_event: cleanup_process_resources(process_id) *)
      let s' := cleanup s p in
      mkState (owner s') (dead s') (pending s') (next_pid s') (log s') (remove_pid p (watched s'))
  | ETerminate p => mkState (owner s) (p :: dead s) (pending s) (next_pid s) (log s) (watched s)
  | EOther => s
  end.

Definition run (h : list event) : state := fold_left step h init.

(* the backend calls made while handling e in state s (the log only grows: OwnProofs.log_extends) *)
Definition new_calls (s : state) (e : event) : list call :=
  skipn (length (log s)) (log (step s e)).

Definition closes (l : list call) : list rid :=
  flat_map (fun c => match c with CClose r => [r] | CExec _ _ => [] end) l.

(* nothing outstanding: no async effect in the backend, and no watched process that has terminated
   (its worker would still send Event::ProcessTerminated) *)
Definition quiescent (s : state) : Prop :=
  pending s = [] /\ forall p, In p (watched s) -> ~ In p (dead s).

(* ------------------------------------------------------------------ classes of histories
   Executable monitors over a history (mirrored by the checker's oracles, vplib/props/c14.py): the
   hypotheses and the excluded (known-finding) classes of the C14 theorems. *)

Definition memb (r : N) (l : list N) : bool := existsb (N.eqb r) l.

Definition result_rid (res : option val) : list rid :=
  match res with
  | Some (VRes r) => [r]
  | _ => []
  end.

(* the resource ids the backend hands out in answer to e *)
Definition issued_by (e : event) : list rid :=
  match e with
  | EEffect _ _ (ANow res) => result_rid res
  | EComplete _ res => result_rid res
  | _ => []
  end.

Definition issued (h : list event) : list rid := flat_map issued_by h.

(* assumption on the backend: it never hands out the same id twice
   (quiver-io native_backend.rs: next_resource_id only grows) *)
Definition backend_fresh (h : list event) : Prop := NoDup (issued h).

(* the resource ids e moves to a process *)
Definition transferred (e : event) : list rid :=
  match e with
  | ESend _ _ v => rids_of v
  | ESpawn _ vals => flat_map rids_of vals
  | _ => []
  end.

(* does some event of h, met in the state reached by the events before it, satisfy `bad`? *)
Fixpoint anyb (bad : state -> event -> bool) (s : state) (h : list event) : bool :=
  match h with
  | [] => false
  | e :: t => bad s e || anyb bad (step s e) t
  end.

(* a ProcessResults / ProcessTerminated event names a process that has not terminated (the worker never does this:
   worker.rs query_and_await / check_completed_processes report a result only when it is set) *)
Definition early_reportb (s : state) (e : event) : bool :=
  match e with
  | EResults done => negb (forallb (fun p => memb p (dead s)) done)
  | EWatchReport p => negb (memb p (dead s))
  | _ => false
  end.
Definition reports_only_terminated (h : list event) : Prop := anyb early_reportb init h = false.

Definition absentb (s : state) (r : rid) : bool :=
  match lookup r (owner s) with
  | None => true
  | Some _ => false
  end.

(* F47: an effect on an id that is not in the ownership map *)
Definition stale_useb (s : state) (e : event) : bool :=
  match e with
  | EEffect _ (Op r _) _ => absentb s r
  | _ => false
  end.
Definition KnownF47 (h : list event) : Prop := anyb stale_useb init h = true.

(* a send/spawn carrying an id that is not in the ownership map (closed, or never issued): since the
   repair of F48 such a transfer registers nothing (statistic only) *)
Definition stale_transferb (s : state) (e : event) : bool := existsb (absentb s) (transferred e).

(* who hands the values of a send/spawn over *)
Definition initiator (e : event) : option pid :=
  match e with
  | ESend sender _ _ => Some sender
  | ESpawn caller _ => Some caller
  | _ => None
  end.

(* the processes whose termination e tells the environment of *)
Definition reportsb (p : pid) (e : event) : bool :=
  match e with
  | EResults done => memb p done
  | EWatchReport q => N.eqb q p
  | _ => false
  end.
