(* C14 — proofs about the ownership automaton res/Own.v. *)
From Coq Require Import List NArith Bool Lia.
From Quiver Require Import res.Own.
Import ListNotations.
Open Scope N_scope.

(* ------------------------------------------------------------------ generalities *)

Lemma run_snoc : forall h e, run (h ++ [e]) = step (run h) e.
Proof. intros h e. unfold run. rewrite fold_left_app. reflexivity. Qed.

Lemma run_app : forall h1 h2, run (h1 ++ h2) = fold_left step h2 (run h1).
Proof. intros h1 h2. unfold run. apply fold_left_app. Qed.

Definition keys (m : omap) : list rid := map fst m.

Lemma eqb_refl' : forall r, N.eqb r r = true.
Proof. intro r. apply N.eqb_refl. Qed.

Lemma lookup_insert_eq : forall r p m, lookup r (insert r p m) = Some p.
Proof.
  intros r p m. induction m as [|[r' q] t IH]; cbn [insert lookup].
  - rewrite N.eqb_refl. reflexivity.
  - destruct (N.eqb r r') eqn:E; cbn [lookup]; rewrite E; [reflexivity|exact IH].
Qed.

Lemma lookup_insert_neq : forall r r' p m, r <> r' -> lookup r (insert r' p m) = lookup r m.
Proof.
  intros r r' p m Hne. induction m as [|[k q] t IH]; cbn [insert lookup].
  - destruct (N.eqb r r') eqn:E; [apply N.eqb_eq in E; contradiction|reflexivity].
  - destruct (N.eqb r' k) eqn:E1; cbn [lookup].
    + apply N.eqb_eq in E1. subst k.
      destruct (N.eqb r r') eqn:E; [apply N.eqb_eq in E; contradiction|reflexivity].
    + destruct (N.eqb r k); [reflexivity|exact IH].
Qed.

Lemma lookup_remove_eq : forall r m, lookup r (remove r m) = None.
Proof.
  intros r m. induction m as [|[k q] t IH]; cbn [remove lookup]; [reflexivity|].
  destruct (N.eqb r k) eqn:E; [exact IH|]. cbn [lookup]. rewrite E. exact IH.
Qed.

Lemma lookup_remove_neq : forall r r' m, r <> r' -> lookup r (remove r' m) = lookup r m.
Proof.
  intros r r' m Hne. induction m as [|[k q] t IH]; cbn [remove lookup]; [reflexivity|].
  destruct (N.eqb r' k) eqn:E1.
  - apply N.eqb_eq in E1. subst k.
    destruct (N.eqb r r') eqn:E; [apply N.eqb_eq in E; contradiction|exact IH].
  - cbn [lookup]. destruct (N.eqb r k); [reflexivity|exact IH].
Qed.

Lemma lookup_in_keys : forall r m, lookup r m <> None <-> In r (keys m).
Proof.
  intros r m. induction m as [|[k q] t IH]; cbn [lookup keys map fst In].
  - split; [intro H; contradiction|intros []].
  - destruct (N.eqb r k) eqn:E.
    + apply N.eqb_eq in E. subst k. split; [intros _; left; reflexivity|intros _; discriminate].
    + apply N.eqb_neq in E. rewrite IH. split; [intro H; right; exact H|intros [H|H]; [congruence|exact H]].
Qed.

Lemma lookup_none_keys : forall r m, lookup r m = None <-> ~ In r (keys m).
Proof.
  intros r m. rewrite <- lookup_in_keys. destruct (lookup r m) as [p|].
  - split; [discriminate|]. intro H. exfalso. apply H. discriminate.
  - split; [intros _ H; apply H; reflexivity|reflexivity].
Qed.

Lemma lookup_some_in : forall r p m, lookup r m = Some p -> In (r, p) m.
Proof.
  intros r p m. induction m as [|[k q] t IH]; cbn [lookup]; [discriminate|].
  destruct (N.eqb r k) eqn:E.
  - apply N.eqb_eq in E. subst k. intro H. injection H as ->. left. reflexivity.
  - intro H. right. exact (IH H).
Qed.

Lemma in_lookup : forall r p m, NoDup (keys m) -> In (r, p) m -> lookup r m = Some p.
Proof.
  intros r p m. induction m as [|[k q] t IH]; cbn [keys map fst]; intros Hnd Hin; [destruct Hin|].
  inversion Hnd as [|? ? Hnotin Hnd']; subst. cbn [lookup]. destruct Hin as [Heq|Hin].
  - injection Heq as -> ->. rewrite N.eqb_refl. reflexivity.
  - destruct (N.eqb r k) eqn:E.
    + apply N.eqb_eq in E. subst k. exfalso. apply Hnotin.
      change (In (fst (r, p)) (map fst t)). apply in_map. exact Hin.
    + exact (IH Hnd' Hin).
Qed.

Lemma keys_insert : forall r p m x, In x (keys (insert r p m)) <-> x = r \/ In x (keys m).
Proof.
  intros r p m x. induction m as [|[k q] t IH]; cbn [insert keys map fst In].
  - split; [intros [H|[]]; left; congruence|intros [H|[]]; left; congruence].
  - destruct (N.eqb r k) eqn:E; cbn [keys map fst In].
    + apply N.eqb_eq in E. subst k. split; [intros [H|H]; [left; congruence|right; right; exact H]|
        intros [H|[H|H]]; [left; congruence|left; exact H|right; exact H]].
    + fold (keys (insert r p t)). fold (keys t). rewrite IH. tauto.
Qed.

Lemma nodup_insert : forall r p m, NoDup (keys m) -> NoDup (keys (insert r p m)).
Proof.
  intros r p m. induction m as [|[k q] t IH]; cbn [insert keys map fst]; intro Hnd.
  - constructor; [intros []|constructor].
  - destruct (N.eqb r k) eqn:E; cbn [keys map fst]; [exact Hnd|].
    inversion Hnd as [|? ? Hnotin Hnd']; subst. constructor.
    + fold (keys (insert r p t)). rewrite keys_insert. intros [H|H].
      * subst k. rewrite N.eqb_refl in E. discriminate.
      * exact (Hnotin H).
    + exact (IH Hnd').
Qed.

Lemma keys_remove_incl : forall r m x, In x (keys (remove r m)) -> In x (keys m).
Proof.
  intros r m x. induction m as [|[k q] t IH]; cbn [remove keys map fst In]; [intros []|].
  destruct (N.eqb r k); cbn [keys map fst In].
  - intro H. right. exact (IH H).
  - intros [H|H]; [left; exact H|right; exact (IH H)].
Qed.

Lemma nodup_remove : forall r m, NoDup (keys m) -> NoDup (keys (remove r m)).
Proof.
  intros r m. induction m as [|[k q] t IH]; cbn [remove keys map fst]; intro Hnd; [constructor|].
  inversion Hnd as [|? ? Hnotin Hnd']; subst.
  destruct (N.eqb r k); cbn [keys map fst]; [exact (IH Hnd')|].
  constructor; [|exact (IH Hnd')]. intro H. apply Hnotin. exact (keys_remove_incl _ _ _ H).
Qed.

(* ------------------------------------------------------------------ values *)

Section ValInd.
  Variable P : val -> Prop.
  Hypothesis Hres : forall r, P (VRes r).
  Hypothesis Htup : forall fs, Forall P fs -> P (VTuple fs).
  Hypothesis Hfun : forall cs, Forall P cs -> P (VFun cs).
  Hypothesis Hoth : P VOther.
  Fixpoint val_ind' (v : val) : P v :=
    match v with
    | VRes r => Hres r
    | VTuple fs => Htup fs ((fix go (l : list val) : Forall P l :=
                               match l with [] => Forall_nil P | x :: t => Forall_cons x (val_ind' x) (go t) end) fs)
    | VFun cs => Hfun cs ((fix go (l : list val) : Forall P l :=
                             match l with [] => Forall_nil P | x :: t => Forall_cons x (val_ind' x) (go t) end) cs)
    | VOther => Hoth
    end.
End ValInd.

(* r occurs in v at some depth, below tuples and closures *)
Inductive carries (r : rid) : val -> Prop :=
| carries_res : carries r (VRes r)
| carries_tuple : forall fs f, In f fs -> carries r f -> carries r (VTuple fs)
| carries_fun : forall cs c, In c cs -> carries r c -> carries r (VFun cs).

Lemma carries_iff : forall r v, carries r v <-> In r (rids_of v).
Proof.
  intros r v. induction v as [r'|fs IH|cs IH|] using val_ind'; cbn [rids_of].
  - split; [intro H; inversion H; left; reflexivity|intros [H|[]]; subst; constructor].
  - rewrite in_flat_map. split.
    + intro H. inversion H as [|? f Hin Hc|]; subst. exists f. split; [exact Hin|].
      rewrite Forall_forall in IH. apply (IH f Hin). exact Hc.
    + intros [f [Hin Hr]]. apply carries_tuple with f; [exact Hin|].
      rewrite Forall_forall in IH. apply (IH f Hin). exact Hr.
  - rewrite in_flat_map. split.
    + intro H. inversion H as [| |? c Hin Hc]; subst. exists c. split; [exact Hin|].
      rewrite Forall_forall in IH. apply (IH c Hin). exact Hc.
    + intros [c [Hin Hr]]. apply carries_fun with c; [exact Hin|].
      rewrite Forall_forall in IH. apply (IH c Hin). exact Hr.
  - split; [intro H; inversion H|intros []].
Qed.

Lemma keys_reassign : forall r p m, keys (reassign r p m) = keys m.
Proof.
  intros r p m. induction m as [|[k q] t IH]; cbn [reassign keys map fst]; [reflexivity|].
  destruct (N.eqb r k); cbn [keys map fst]; [reflexivity|]. f_equal. exact IH.
Qed.

Lemma lookup_reassign : forall r r' p m,
  lookup r (reassign r' p m) =
  if N.eqb r r' then match lookup r m with Some _ => Some p | None => None end else lookup r m.
Proof.
  intros r r' p m. induction m as [|[k q] t IH]; cbn [reassign lookup].
  - destruct (N.eqb r r'); reflexivity.
  - destruct (N.eqb r' k) eqn:E1; cbn [lookup].
    + apply N.eqb_eq in E1. subst k. destruct (N.eqb r r'); reflexivity.
    + destruct (N.eqb r k) eqn:E2.
      * apply N.eqb_eq in E2. subst k. rewrite N.eqb_sym, E1. reflexivity.
      * exact IH.
Qed.

Definition reassign_all (rs : list rid) (p : pid) (m : omap) : omap :=
  fold_left (fun m r => reassign r p m) rs m.

Definition insert_all (rs : list rid) (p : pid) (m : omap) : omap :=
  fold_left (fun m r => insert r p m) rs m.

Lemma transfer_rids : forall v p m, transfer v p m = reassign_all (rids_of v) p m.
Proof.
  intros v p. induction v as [r|fs IH|cs IH|] using val_ind'; intro m; cbn [transfer rids_of]; try reflexivity.
  - revert m. induction fs as [|f t IHt]; intro m; cbn [fold_left flat_map]; [reflexivity|].
    inversion IH as [|? ? Hf Ht]; subst. unfold reassign_all. rewrite fold_left_app.
    fold (reassign_all (rids_of f) p m). rewrite <- Hf. exact (IHt Ht _).
  - revert m. induction cs as [|c t IHt]; intro m; cbn [fold_left flat_map]; [reflexivity|].
    inversion IH as [|? ? Hc Ht]; subst. unfold reassign_all. rewrite fold_left_app.
    fold (reassign_all (rids_of c) p m). rewrite <- Hc. exact (IHt Ht _).
Qed.

Lemma transfer_all_rids : forall vs p m, transfer_all vs p m = reassign_all (flat_map rids_of vs) p m.
Proof.
  intros vs p. induction vs as [|v t IH]; intro m; cbn [transfer_all fold_left flat_map]; [reflexivity|].
  unfold reassign_all. rewrite fold_left_app. fold (reassign_all (rids_of v) p m).
  rewrite <- transfer_rids. exact (IH _).
Qed.

Lemma keys_reassign_all : forall rs p m, keys (reassign_all rs p m) = keys m.
Proof.
  intros rs p. induction rs as [|a t IH]; intro m; cbn [reassign_all fold_left]; [reflexivity|].
  fold (reassign_all t p (reassign a p m)). rewrite IH. apply keys_reassign.
Qed.

Lemma lookup_insert_all_notin : forall rs p m r, ~ In r rs -> lookup r (insert_all rs p m) = lookup r m.
Proof.
  intros rs p. induction rs as [|a t IH]; intros m r Hn; cbn [insert_all fold_left]; [reflexivity|].
  fold (insert_all t p (insert a p m)). rewrite IH by (intro H; apply Hn; right; exact H).
  apply lookup_insert_neq. intro H. apply Hn. left. symmetry. exact H.
Qed.

Lemma lookup_insert_all_in : forall rs p m r, In r rs -> lookup r (insert_all rs p m) = Some p.
Proof.
  intros rs p. induction rs as [|a t IH]; intros m r Hin; [destruct Hin|].
  cbn [insert_all fold_left]. fold (insert_all t p (insert a p m)).
  destruct (in_dec N.eq_dec r t) as [Ht|Ht]; [exact (IH _ _ Ht)|].
  rewrite lookup_insert_all_notin by exact Ht.
  destruct Hin as [->|Hin]; [apply lookup_insert_eq|contradiction].
Qed.

Lemma nodup_insert_all : forall rs p m, NoDup (keys m) -> NoDup (keys (insert_all rs p m)).
Proof.
  intros rs p. induction rs as [|a t IH]; intros m H; cbn [insert_all fold_left]; [exact H|].
  apply IH. apply nodup_insert. exact H.
Qed.

Lemma keys_insert_all : forall rs p m x, In x (keys (insert_all rs p m)) <-> In x rs \/ In x (keys m).
Proof.
  intros rs p. induction rs as [|a t IH]; intros m x; cbn [insert_all fold_left In]; [tauto|].
  fold (insert_all t p (insert a p m)). rewrite IH, keys_insert. intuition congruence.
Qed.

(* ------------------------------------------------------------------ cleanup *)

Definition remove_all (rs : list rid) (m : omap) : omap := fold_left (fun m r => remove r m) rs m.

Lemma lookup_remove_none : forall a m r, lookup r m = None -> lookup r (remove a m) = None.
Proof.
  intros a m r H. destruct (N.eq_dec r a) as [->|Hne]; [apply lookup_remove_eq|].
  rewrite lookup_remove_neq by exact Hne. exact H.
Qed.

Lemma lookup_remove_all_none : forall rs m r, lookup r m = None -> lookup r (remove_all rs m) = None.
Proof.
  intros rs. induction rs as [|a t IH]; intros m r H; cbn [remove_all fold_left]; [exact H|].
  apply IH. apply lookup_remove_none. exact H.
Qed.

Lemma lookup_remove_all_in : forall rs m r, In r rs -> lookup r (remove_all rs m) = None.
Proof.
  intros rs. induction rs as [|a t IH]; intros m r Hin; [destruct Hin|].
  cbn [remove_all fold_left]. destruct Hin as [->|Hin].
  - apply lookup_remove_all_none. apply lookup_remove_eq.
  - exact (IH _ _ Hin).
Qed.

Lemma nodup_app : forall (l1 l2 : list rid), NoDup l1 -> NoDup l2 ->
  (forall x, In x l1 -> In x l2 -> False) -> NoDup (l1 ++ l2).
Proof.
  intros l1. induction l1 as [|a t IH]; intros l2 H1 H2 Hd; cbn [app]; [exact H2|].
  inversion H1 as [|? ? Hn H1']; subst. constructor.
  - rewrite in_app_iff. intros [H|H]; [exact (Hn H)|]. exact (Hd a (or_introl eq_refl) H).
  - apply IH; [exact H1'|exact H2|]. intros x Hx1 Hx2. exact (Hd x (or_intror Hx1) Hx2).
Qed.

Lemma lookup_remove_all_notin : forall rs m r, ~ In r rs -> lookup r (remove_all rs m) = lookup r m.
Proof.
  intros rs. induction rs as [|a t IH]; intros m r Hn; cbn [remove_all fold_left]; [reflexivity|].
  fold (remove_all t (remove a m)). rewrite IH by (intro H; apply Hn; right; exact H).
  apply lookup_remove_neq. intro H. apply Hn. left. symmetry. exact H.
Qed.

Lemma nodup_remove_all : forall rs m, NoDup (keys m) -> NoDup (keys (remove_all rs m)).
Proof.
  intros rs. induction rs as [|a t IH]; intros m H; cbn [remove_all fold_left]; [exact H|].
  apply IH. apply nodup_remove. exact H.
Qed.

Lemma in_owned_by : forall p m r, In r (owned_by p m) <-> In (r, p) m.
Proof.
  intros p m r. unfold owned_by. rewrite in_map_iff. split.
  - intros [[r' q] [Hfst Hin]]. cbn [fst] in Hfst. subst r'. apply filter_In in Hin.
    destruct Hin as [Hin Heq]. cbn [snd] in Heq. apply N.eqb_eq in Heq. subst q. exact Hin.
  - intro Hin. exists (r, p). split; [reflexivity|]. apply filter_In. split; [exact Hin|].
    cbn [snd]. apply N.eqb_refl.
Qed.

Lemma owned_by_lookup : forall p m r, NoDup (keys m) -> (In r (owned_by p m) <-> lookup r m = Some p).
Proof.
  intros p m r Hnd. rewrite in_owned_by. split; [apply in_lookup; exact Hnd|apply lookup_some_in].
Qed.

Lemma nodup_owned_by : forall p m, NoDup (keys m) -> NoDup (owned_by p m).
Proof.
  intros p m. unfold owned_by, keys. induction m as [|[k q] t IH]; cbn [map fst filter snd]; intro Hnd; [constructor|].
  inversion Hnd as [|? ? Hnotin Hnd']; subst. destruct (N.eqb q p); cbn [map fst]; [|exact (IH Hnd')].
  constructor; [|exact (IH Hnd')]. intro H. apply Hnotin. apply in_map_iff in H.
  destruct H as [x [Hx Hin]]. apply filter_In in Hin. destruct Hin as [Hin _].
  apply in_map_iff. exists x. split; [exact Hx|exact Hin].
Qed.

Definition inv (s : state) : Prop := NoDup (keys (owner s)).

Lemma cleanup_owner : forall s p, owner (cleanup s p) = remove_all (owned_by p (owner s)) (owner s).
Proof. reflexivity. Qed.

Lemma cleanup_log : forall s p, log (cleanup s p) = log s ++ map CClose (owned_by p (owner s)).
Proof. reflexivity. Qed.

Lemma cleanup_inv : forall s p, inv s -> inv (cleanup s p).
Proof. intros s p H. unfold inv. rewrite cleanup_owner. apply nodup_remove_all. exact H. Qed.

(* cleanup of p: p owns nothing afterwards, every other binding is untouched *)
Lemma lookup_cleanup : forall s p r, inv s ->
  lookup r (owner (cleanup s p)) = match lookup r (owner s) with
                                   | Some q => if N.eqb q p then None else Some q
                                   | None => None
                                   end.
Proof.
  intros s p r Hinv. rewrite cleanup_owner.
  destruct (in_dec N.eq_dec r (owned_by p (owner s))) as [Hin|Hn].
  - rewrite lookup_remove_all_in by exact Hin. apply (owned_by_lookup _ _ _ Hinv) in Hin.
    rewrite Hin, N.eqb_refl. reflexivity.
  - rewrite lookup_remove_all_notin by exact Hn. destruct (lookup r (owner s)) as [q|] eqn:E; [|reflexivity].
    destruct (N.eqb q p) eqn:Eq; [|reflexivity]. apply N.eqb_eq in Eq. subst q.
    exfalso. apply Hn. apply (owned_by_lookup _ _ _ Hinv). exact E.
Qed.

Lemma results_inv : forall done s, inv s -> inv (handle_process_results s done).
Proof.
  intros done. induction done as [|p t IH]; intros s H; cbn [handle_process_results fold_left]; [exact H|].
  apply IH. apply cleanup_inv. exact H.
Qed.

Lemma results_dead : forall done s, dead (handle_process_results s done) = dead s.
Proof.
  intros done. induction done as [|p t IH]; intro s; cbn [handle_process_results fold_left]; [reflexivity|].
  unfold handle_process_results in IH. rewrite IH. reflexivity.
Qed.

Lemma results_next_pid : forall done s, next_pid (handle_process_results s done) = next_pid s.
Proof.
  intros done. induction done as [|p t IH]; intro s; cbn [handle_process_results fold_left]; [reflexivity|].
  unfold handle_process_results in IH. rewrite IH. reflexivity.
Qed.

(* after handling ProcessResults done: bindings to reported processes are gone, others untouched *)
Lemma lookup_results : forall done s r, inv s ->
  lookup r (owner (handle_process_results s done)) =
  match lookup r (owner s) with
  | Some q => if existsb (N.eqb q) done then None else Some q
  | None => None
  end.
Proof.
  intros done. induction done as [|p t IH]; intros s r Hinv; cbn [handle_process_results fold_left existsb].
  - destruct (lookup r (owner s)); reflexivity.
  - unfold handle_process_results in IH. rewrite (IH (cleanup s p) r (cleanup_inv _ _ Hinv)).
    rewrite (lookup_cleanup s p r Hinv). destruct (lookup r (owner s)) as [q|]; [|reflexivity].
    destruct (N.eqb q p) eqn:E; cbn [orb]; reflexivity.
Qed.

Lemma existsb_eqb_in : forall q l, existsb (N.eqb q) l = true <-> In q l.
Proof.
  intros q l. rewrite existsb_exists. split.
  - intros [x [Hin Heq]]. apply N.eqb_eq in Heq. subst x. exact Hin.
  - intro Hin. exists q. split; [exact Hin|apply N.eqb_refl].
Qed.

(* the calls made by handle_process_results: only closes, each of a resource owned (before the
   event) by one of the reported processes; and all of those *)
Lemma results_log : forall done s, inv s ->
  exists rs, log (handle_process_results s done) = log s ++ map CClose rs /\
             (forall r, In r rs <-> exists p, In p done /\ lookup r (owner s) = Some p) /\
             NoDup rs.
Proof.
  intros done. induction done as [|p t IH]; intros s Hinv; cbn [handle_process_results fold_left].
  - exists []. split; [rewrite app_nil_r; reflexivity|]. split; [|constructor].
    intro r. split; [intros []|intros [p [[] _]]].
  - destruct (IH (cleanup s p) (cleanup_inv _ _ Hinv)) as [rs [Hlog [Hrs Hnd]]].
    exists (owned_by p (owner s) ++ rs). split; [|split].
    + unfold handle_process_results in Hlog. rewrite Hlog, cleanup_log, map_app, app_assoc. reflexivity.
    + intro r. rewrite in_app_iff, Hrs, (owned_by_lookup _ _ _ Hinv). split.
      * intros [H|[q [Hq Hl]]].
        -- exists p. split; [left; reflexivity|exact H].
        -- rewrite (lookup_cleanup s p r Hinv) in Hl. destruct (lookup r (owner s)) as [o|]; [|discriminate].
           destruct (N.eqb o p); [discriminate|]. exists q. split; [right; exact Hq|]. exact Hl.
      * intros [q [[Hq|Hq] Hl]].
        -- subst q. left. exact Hl.
        -- destruct (N.eq_dec q p) as [->|Hne]; [left; exact Hl|]. right. exists q. split; [exact Hq|].
           rewrite (lookup_cleanup s p r Hinv), Hl. apply N.eqb_neq in Hne. rewrite Hne. reflexivity.
    + apply nodup_app; [apply nodup_owned_by; exact Hinv|exact Hnd|].
      intros r Hin1 Hin2. apply (owned_by_lookup _ _ _ Hinv) in Hin1. apply Hrs in Hin2.
      destruct Hin2 as [q [_ Hl]]. rewrite (lookup_cleanup s p r Hinv), Hin1, N.eqb_refl in Hl. discriminate.
Qed.

(* ------------------------------------------------------------------ one step, characterised *)

Lemma memb_in : forall r l, memb r l = true <-> In r l.
Proof. intros r l. apply existsb_eqb_in. Qed.

Lemma memb_notin : forall r l, memb r l = false <-> ~ In r l.
Proof.
  intros r l. rewrite <- memb_in. destruct (memb r l).
  - split; [discriminate|]. intro H. exfalso. apply H. reflexivity.
  - split; [intros _ H; discriminate H|reflexivity].
Qed.

Lemma lookup_insert : forall r r' p m, lookup r (insert r' p m) = if N.eqb r r' then Some p else lookup r m.
Proof.
  intros r r' p m. destruct (N.eqb r r') eqn:E.
  - apply N.eqb_eq in E. subst r'. apply lookup_insert_eq.
  - apply N.eqb_neq in E. apply lookup_insert_neq. exact E.
Qed.

Lemma lookup_insert_all : forall rs p m r,
  lookup r (insert_all rs p m) = if memb r rs then Some p else lookup r m.
Proof.
  intros rs p m r. destruct (memb r rs) eqn:E.
  - apply memb_in in E. apply lookup_insert_all_in. exact E.
  - apply memb_notin in E. apply lookup_insert_all_notin. exact E.
Qed.

Definition moved (old : option pid) (p : pid) : option pid :=
  match old with Some _ => Some p | None => None end.

Lemma lookup_reassign_all : forall rs p m r,
  lookup r (reassign_all rs p m) = if memb r rs then moved (lookup r m) p else lookup r m.
Proof.
  intros rs p. induction rs as [|a t IH]; intros m r; cbn [reassign_all fold_left memb existsb]; [reflexivity|].
  fold (reassign_all t p (reassign a p m)). fold (memb r t). rewrite IH, lookup_reassign.
  destruct (N.eqb r a); cbn [orb]; destruct (memb r t); try reflexivity.
  unfold moved. destruct (lookup r m); reflexivity.
Qed.

(* environment.rs:1703-1714: the request is refused without touching the backend *)
Definition deniedb (s : state) (p : pid) (e : effect) : bool :=
  match resource_id e with
  | Some r => match lookup r (owner s) with
              | Some o => negb (N.eqb o p)
              | None => false
              end
  | None => false
  end.

Lemma effect_request_unfold : forall s p e a,
  handle_effect_request s p e a =
  if deniedb s p e then s
  else
    let s1 := mkState (owner s) (dead s) (pending s) (next_pid s) (log s ++ [CExec p e]) in
    match a with
    | ANow res => handle_effect_completion s1 p res
    | AAsync => mkState (owner s1) (dead s1) (p :: pending s1) (next_pid s1) (log s1)
    | AFail => s1
    end.
Proof. reflexivity. Qed.

Lemma completion_owner : forall s p res r,
  lookup r (owner (handle_effect_completion s p res)) =
  if memb r (result_rid res) then Some p else lookup r (owner s).
Proof.
  intros s p res r. unfold handle_effect_completion. cbn [owner].
  destruct res as [[r'| | |]|]; cbn [result_rid memb existsb orb]; try reflexivity.
  rewrite lookup_insert. destruct (N.eqb r r'); reflexivity.
Qed.

Lemma completion_inv : forall s p res, inv s -> inv (handle_effect_completion s p res).
Proof.
  intros s p res H. unfold inv, handle_effect_completion. cbn [owner].
  destruct res as [[r'| | |]|]; try exact H. apply nodup_insert. exact H.
Qed.

Lemma step_inv : forall s e, inv s -> inv (step s e).
Proof.
  intros s e H. destruct e as [p eff a|p res|c vals|sd t v|done|p|]; cbn [step].
  - rewrite effect_request_unfold. destruct (deniedb s p eff); [exact H|].
    destruct a as [res| |]; cbn zeta; try exact H. apply completion_inv. exact H.
  - unfold inv. cbn [owner]. apply completion_inv. exact H.
  - unfold inv, handle_spawn. cbn [owner]. rewrite transfer_all_rids, keys_reassign_all. exact H.
  - unfold inv, handle_deliver. cbn [owner]. rewrite transfer_rids, keys_reassign_all. exact H.
  - apply results_inv. exact H.
  - exact H.
  - exact H.
Qed.

Lemma init_inv : inv init.
Proof. unfold inv. cbn. constructor. Qed.

Lemma run_inv : forall h, inv (run h).
Proof.
  intro h. induction h as [|e h IH] using rev_ind; [exact init_inv|].
  rewrite run_snoc. apply step_inv. exact IH.
Qed.

(* the owner of r after one step *)
Lemma step_owner : forall s e r, inv s ->
  lookup r (owner (step s e)) =
  match e with
  | EEffect p eff a =>
      if deniedb s p eff then lookup r (owner s)
      else if memb r (issued_by e) then Some p else lookup r (owner s)
  | EComplete p res => if memb r (issued_by e) then Some p else lookup r (owner s)
  | ESend _ t v => if memb r (transferred e) then moved (lookup r (owner s)) t else lookup r (owner s)
  | ESpawn _ vals => if memb r (transferred e) then moved (lookup r (owner s)) (next_pid s) else lookup r (owner s)
  | EResults done => match lookup r (owner s) with
                     | Some q => if existsb (N.eqb q) done then None else Some q
                     | None => None
                     end
  | ETerminate _ | EOther => lookup r (owner s)
  end.
Proof.
  intros s e r Hinv. destruct e as [p eff a|p res|c vals|sd t v|done|p|]; cbn [step]; try reflexivity.
  - rewrite effect_request_unfold. destruct (deniedb s p eff); [reflexivity|].
    destruct a as [res| |]; cbn zeta; cbn [issued_by memb existsb]; try reflexivity.
    rewrite completion_owner. reflexivity.
  - cbn [owner issued_by]. apply completion_owner.
  - unfold handle_spawn. cbn [owner transferred]. rewrite transfer_all_rids. apply lookup_reassign_all.
  - unfold handle_deliver. cbn [owner transferred]. rewrite transfer_rids. apply lookup_reassign_all.
  - apply lookup_results. exact Hinv.
Qed.

Lemma skipn_app_exact : forall (A : Type) (a l : list A), skipn (length a) (a ++ l) = l.
Proof. intros A a l. induction a as [|x t IH]; cbn [length app skipn]; [reflexivity|exact IH]. Qed.

(* the backend calls made by one step *)
Lemma step_calls : forall s e, inv s ->
  log (step s e) = log s ++ new_calls s e /\
  match e with
  | EEffect p eff a => new_calls s e = if deniedb s p eff then [] else [CExec p eff]
  | EResults done => exists rs, new_calls s e = map CClose rs /\
                                (forall r, In r rs <-> exists p, In p done /\ lookup r (owner s) = Some p) /\
                                NoDup rs
  | _ => new_calls s e = []
  end.
Proof.
  intros s e Hinv.
  assert (Hgen : forall l, log (step s e) = log s ++ l -> new_calls s e = l).
  { intros l Hl. unfold new_calls. rewrite Hl. apply skipn_app_exact. }
  destruct e as [p eff a|p res|c vals|sd t v|done|p|].
  - assert (Hl : log (step s (EEffect p eff a)) = log s ++ (if deniedb s p eff then [] else [CExec p eff])).
    { cbn [step]. rewrite effect_request_unfold. destruct (deniedb s p eff); [rewrite app_nil_r; reflexivity|].
      destruct a as [res| |]; cbn zeta; reflexivity. }
    rewrite (Hgen _ Hl). split; [exact Hl|reflexivity].
  - assert (Hl : log (step s (EComplete p res)) = log s ++ []) by (rewrite app_nil_r; reflexivity).
    rewrite (Hgen _ Hl). split; [exact Hl|reflexivity].
  - assert (Hl : log (step s (ESpawn c vals)) = log s ++ []) by (rewrite app_nil_r; reflexivity).
    rewrite (Hgen _ Hl). split; [exact Hl|reflexivity].
  - assert (Hl : log (step s (ESend sd t v)) = log s ++ []) by (rewrite app_nil_r; reflexivity).
    rewrite (Hgen _ Hl). split; [exact Hl|reflexivity].
  - destruct (results_log done s Hinv) as [rs [Hl [Hrs Hnd]]].
    cbn [step]. rewrite (Hgen _ Hl). split; [exact Hl|]. exists rs. split; [reflexivity|]. split; assumption.
  - assert (Hl : log (step s (ETerminate p)) = log s ++ []) by (rewrite app_nil_r; reflexivity).
    rewrite (Hgen _ Hl). split; [exact Hl|reflexivity].
  - assert (Hl : log (step s EOther) = log s ++ []) by (rewrite app_nil_r; reflexivity).
    rewrite (Hgen _ Hl). split; [exact Hl|reflexivity].
Qed.

Lemma log_extends : forall s e, inv s -> log (step s e) = log s ++ new_calls s e.
Proof. intros s e H. exact (proj1 (step_calls s e H)). Qed.

Lemma step_dead : forall s e,
  dead (step s e) = match e with ETerminate p => p :: dead s | _ => dead s end.
Proof.
  intros s e. destruct e as [p eff a|p res|c vals|sd t v|done|p|]; cbn [step]; try reflexivity.
  - rewrite effect_request_unfold. destruct (deniedb s p eff); [reflexivity|].
    destruct a as [res| |]; reflexivity.
  - apply results_dead.
Qed.

Lemma dead_iff_terminated : forall h p, In p (dead (run h)) <-> In (ETerminate p) h.
Proof.
  intros h p. induction h as [|e h IH] using rev_ind.
  - cbn. tauto.
  - rewrite run_snoc, step_dead, in_app_iff. cbn [In].
    destruct e; try (rewrite IH; split; [intro H; left; exact H|intros [H|[H|[]]]; [exact H|discriminate H]]).
    cbn [In]. rewrite IH. split.
    + intros [H|H]; [right; left; subst; reflexivity|left; exact H].
    + intros [H|[H|[]]]; [right; exact H|left; injection H as ->; reflexivity].
Qed.

(* ------------------------------------------------------------------ monitors over histories *)

Lemma anyb_snoc : forall bad h s e,
  anyb bad s (h ++ [e]) = anyb bad s h || bad (fold_left step h s) e.
Proof.
  intros bad h. induction h as [|x t IH]; intros s e; cbn [app anyb fold_left].
  - rewrite orb_false_r. reflexivity.
  - rewrite IH, orb_assoc. reflexivity.
Qed.

Lemma anyb_snoc_false : forall bad h e,
  anyb bad init (h ++ [e]) = false -> anyb bad init h = false /\ bad (run h) e = false.
Proof. intros bad h e H. rewrite anyb_snoc in H. apply orb_false_elim in H. exact H. Qed.

Lemma issued_snoc : forall h e, issued (h ++ [e]) = issued h ++ issued_by e.
Proof. intros h e. unfold issued. rewrite flat_map_app. cbn [flat_map]. rewrite app_nil_r. reflexivity. Qed.

Lemma f10_scan_snoc : forall p r h s rep giv e,
  f10_scan p r s rep giv (h ++ [e]) =
  (fst (f10_scan p r s rep giv h) || reportsb p e,
   snd (f10_scan p r s rep giv h) ||
   (fst (f10_scan p r s rep giv h) && givesb (fold_left step h s) e p r)).
Proof.
  intros p r h. induction h as [|x t IH]; intros s rep giv e; cbn [app f10_scan fold_left fst snd].
  - reflexivity.
  - apply IH.
Qed.

(* ------------------------------------------------------------------ single owner *)

Theorem owner_map_is_function : forall h r p q,
  In (r, p) (owner (run h)) -> In (r, q) (owner (run h)) -> p = q.
Proof.
  intros h r p q Hp Hq. pose proof (run_inv h) as Hinv.
  apply (in_lookup _ _ _ Hinv) in Hp. apply (in_lookup _ _ _ Hinv) in Hq. congruence.
Qed.

Lemma memb_rids_carries : forall r v, memb r (rids_of v) = true <-> carries r v.
Proof. intros r v. rewrite memb_in, carries_iff. tauto. Qed.

Lemma memb_flat_carries : forall r vals,
  memb r (flat_map rids_of vals) = true <-> exists v, In v vals /\ carries r v.
Proof.
  intros r vals. rewrite memb_in, in_flat_map. split; intros [v [Hin H]]; exists v; (split; [exact Hin|]);
    apply carries_iff; exact H.
Qed.

Theorem owner_after_send : forall h sender target v r,
  (carries r v -> lookup r (owner (run h)) <> None ->
     lookup r (owner (run (h ++ [ESend sender target v]))) = Some target) /\
  (carries r v -> lookup r (owner (run h)) = None ->
     lookup r (owner (run (h ++ [ESend sender target v]))) = None) /\
  (~ carries r v -> lookup r (owner (run (h ++ [ESend sender target v]))) = lookup r (owner (run h))).
Proof.
  intros h sd t v r. rewrite run_snoc, (step_owner _ _ _ (run_inv h)). cbn [transferred].
  destruct (memb r (rids_of v)) eqn:E.
  - apply memb_rids_carries in E. unfold moved. repeat split.
    + intros _ Hp. destruct (lookup r (owner (run h))); [reflexivity|congruence].
    + intros _ Hn. rewrite Hn. reflexivity.
    + intro H. contradiction.
  - repeat split; try reflexivity; intro H; apply memb_rids_carries in H; congruence.
Qed.

Theorem owner_after_spawn : forall h caller vals r,
  ((exists v, In v vals /\ carries r v) -> lookup r (owner (run h)) <> None ->
     lookup r (owner (run (h ++ [ESpawn caller vals]))) = Some (next_pid (run h))) /\
  ((exists v, In v vals /\ carries r v) -> lookup r (owner (run h)) = None ->
     lookup r (owner (run (h ++ [ESpawn caller vals]))) = None) /\
  ((forall v, In v vals -> ~ carries r v) ->
     lookup r (owner (run (h ++ [ESpawn caller vals]))) = lookup r (owner (run h))).
Proof.
  intros h c vals r. rewrite run_snoc, (step_owner _ _ _ (run_inv h)). cbn [transferred].
  destruct (memb r (flat_map rids_of vals)) eqn:E.
  - apply memb_flat_carries in E. unfold moved. repeat split.
    + intros _ Hp. destruct (lookup r (owner (run h))); [reflexivity|congruence].
    + intros _ Hn. rewrite Hn. reflexivity.
    + intro H. destruct E as [v [Hin Hc]]. exfalso. exact (H v Hin Hc).
  - repeat split; try reflexivity; intro H; apply memb_flat_carries in H; congruence.
Qed.

Theorem creator_is_first_owner : forall h p n r,
  lookup r (owner (run (h ++ [EEffect p (Open n) (ANow (Some (VRes r)))]))) = Some p /\
  lookup r (owner (run (h ++ [EComplete p (Some (VRes r))]))) = Some p.
Proof.
  intros h p n r. rewrite !run_snoc, !(step_owner _ _ _ (run_inv h)).
  cbn [deniedb resource_id issued_by result_rid memb existsb]. rewrite N.eqb_refl. split; reflexivity.
Qed.

(* e, handled in state s, makes p the owner of r *)
Definition gives (s : state) (e : event) (p : pid) (r : rid) : Prop :=
  match e with
  | ESend _ t v => t = p /\ carries r v
  | ESpawn _ vals => next_pid s = p /\ exists v, In v vals /\ carries r v
  | EEffect q _ _ | EComplete q _ => q = p /\ In r (issued_by e)
  | _ => False
  end.

Lemma givesb_gives : forall s e p r, givesb s e p r = true <-> gives s e p r.
Proof.
  intros s e p r. destruct e as [q eff a|q res|c vals|sd t v|done|q|]; cbn [givesb gives transferred];
    try (split; [discriminate|intros []]); rewrite andb_true_iff, N.eqb_eq.
  - rewrite memb_in. tauto.
  - rewrite memb_in. tauto.
  - rewrite memb_flat_carries. tauto.
  - rewrite memb_rids_carries. tauto.
Qed.

Lemma step_gives : forall s e p r, inv s ->
  lookup r (owner (step s e)) = Some p -> lookup r (owner s) <> Some p -> gives s e p r.
Proof.
  intros s e p r Hinv Hnew Hold. rewrite (step_owner _ _ _ Hinv) in Hnew.
  destruct e as [q eff a|q res|c vals|sd t v|done|q|]; cbn [gives]; try contradiction.
  - destruct (deniedb s q eff); [contradiction|].
    destruct (memb r (issued_by (EEffect q eff a))) eqn:E; [|contradiction].
    apply memb_in in E. injection Hnew as ->. split; [reflexivity|exact E].
  - destruct (memb r (issued_by (EComplete q res))) eqn:E; [|contradiction].
    apply memb_in in E. injection Hnew as ->. split; [reflexivity|exact E].
  - destruct (memb r (transferred (ESpawn c vals))) eqn:E; [|contradiction].
    cbn [transferred] in E. apply memb_flat_carries in E. unfold moved in Hnew.
    destruct (lookup r (owner s)); [|discriminate]. injection Hnew as <-. split; [reflexivity|exact E].
  - destruct (memb r (transferred (ESend sd t v))) eqn:E; [|contradiction].
    cbn [transferred] in E. apply memb_rids_carries in E. unfold moved in Hnew.
    destruct (lookup r (owner s)); [|discriminate]. injection Hnew as ->. split; [reflexivity|exact E].
  - destruct (lookup r (owner s)) as [o|]; [|discriminate].
    destruct (existsb (N.eqb o) done); [discriminate|]. contradiction.
Qed.

Theorem ownership_changes_only_by : forall h e r,
  lookup r (owner (run (h ++ [e]))) <> lookup r (owner (run h)) ->
  match lookup r (owner (run (h ++ [e]))) with
  | Some p => gives (run h) e p r
  | None => exists done o, e = EResults done /\ lookup r (owner (run h)) = Some o /\ In o done
  end.
Proof.
  intros h e r Hne. rewrite run_snoc in *. pose proof (run_inv h) as Hinv.
  destruct (lookup r (owner (step (run h) e))) as [p|] eqn:Enew.
  - apply (step_gives _ _ _ _ Hinv Enew). congruence.
  - rewrite (step_owner _ _ _ Hinv) in Enew.
    destruct e as [q eff a|q res|c vals|sd t v|done|q|]; try congruence.
    + destruct (deniedb (run h) q eff); [congruence|].
      destruct (memb r (issued_by (EEffect q eff a))); [discriminate|congruence].
    + destruct (memb r (issued_by (EComplete q res))); [discriminate|congruence].
    + destruct (memb r (transferred (ESpawn c vals))); [|congruence].
      unfold moved in Enew. destruct (lookup r (owner (run h))); [discriminate|congruence].
    + destruct (memb r (transferred (ESend sd t v))); [|congruence].
      unfold moved in Enew. destruct (lookup r (owner (run h))); [discriminate|congruence].
    + destruct (lookup r (owner (run h))) as [o|] eqn:Eo; [|congruence].
      destruct (existsb (N.eqb o) done) eqn:Ex; [|congruence].
      apply existsb_eqb_in in Ex. exists done, o. repeat split; [exact Ex].
Qed.

(* ------------------------------------------------------------------ only the owner reaches the backend *)

Lemma exec_in_calls : forall s e p eff, inv s -> In (CExec p eff) (new_calls s e) ->
  exists a, e = EEffect p eff a /\ deniedb s p eff = false.
Proof.
  intros s e p eff Hinv Hin. destruct (step_calls s e Hinv) as [_ Hc].
  destruct e as [q eff' a|q res|c vals|sd t v|done|q|]; try (rewrite Hc in Hin; destruct Hin).
  - rewrite Hc in Hin. destruct (deniedb s q eff') eqn:E; [destruct Hin|].
    destruct Hin as [H|[]]. injection H as -> ->. exists a. split; [reflexivity|exact E].
  - destruct Hc as [rs [Hc _]]. rewrite Hc in Hin. apply in_map_iff in Hin.
    destruct Hin as [x [Hx _]]. discriminate.
Qed.

Theorem non_owner_never_reaches_backend : forall h e p eff r o,
  In (CExec p eff) (new_calls (run h) e) -> resource_id eff = Some r ->
  lookup r (owner (run h)) = Some o -> o = p.
Proof.
  intros h e p eff r o Hin Hr Ho. destruct (exec_in_calls _ _ _ _ (run_inv h) Hin) as [a [_ Hd]].
  unfold deniedb in Hd. rewrite Hr, Ho in Hd. apply negb_false_iff in Hd. apply N.eqb_eq in Hd. exact Hd.
Qed.

Theorem denied_request_is_inert : forall h p r n a o,
  lookup r (owner (run h)) = Some o -> o <> p ->
  run (h ++ [EEffect p (Op r n) a]) = run h /\ new_calls (run h) (EEffect p (Op r n) a) = [].
Proof.
  intros h p r n a o Ho Hne. rewrite run_snoc.
  assert (Hd : deniedb (run h) p (Op r n) = true).
  { unfold deniedb. cbn [resource_id]. rewrite Ho. apply negb_true_iff. apply N.eqb_neq. exact Hne. }
  split.
  - cbn [step]. rewrite effect_request_unfold, Hd. reflexivity.
  - destruct (step_calls (run h) (EEffect p (Op r n) a) (run_inv h)) as [_ Hc]. rewrite Hc, Hd. reflexivity.
Qed.

Theorem non_owner_never_reaches_backend_strong : forall h e p eff r,
  ~ KnownF47 (h ++ [e]) ->
  In (CExec p eff) (new_calls (run h) e) -> resource_id eff = Some r ->
  lookup r (owner (run h)) = Some p.
Proof.
  intros h e p eff r Hk Hin Hr. destruct (exec_in_calls _ _ _ _ (run_inv h) Hin) as [a [-> Hd]].
  destruct eff as [n|r' n]; [discriminate|]. injection Hr as ->.
  unfold deniedb in Hd. cbn [resource_id] in Hd.
  destruct (lookup r (owner (run h))) as [o|] eqn:Eo.
  - apply negb_false_iff in Hd. apply N.eqb_eq in Hd. subst o. reflexivity.
  - exfalso. apply Hk. unfold KnownF47. rewrite anyb_snoc. apply orb_true_iff. right.
    cbn [stale_useb]. unfold absentb. fold (run h). rewrite Eo. reflexivity.
Qed.

(* ------------------------------------------------------------------ close_resource *)

Lemma close_in_calls : forall s e r, inv s -> In (CClose r) (new_calls s e) ->
  exists done p, e = EResults done /\ In p done /\ lookup r (owner s) = Some p.
Proof.
  intros s e r Hinv Hin. destruct (step_calls s e Hinv) as [_ Hc].
  destruct e as [q eff' a|q res|c vals|sd t v|done|q|]; try (rewrite Hc in Hin; destruct Hin).
  - rewrite Hc in Hin. destruct (deniedb s q eff'); [destruct Hin|]. destruct Hin as [H|[]]. discriminate.
  - destruct Hc as [rs [Hc [Hrs _]]]. rewrite Hc in Hin. apply in_map_iff in Hin.
    destruct Hin as [x [Hx Hin]]. injection Hx as ->. apply Hrs in Hin. destruct Hin as [p [Hp Hl]].
    exists done, p. repeat split; assumption.
Qed.

Theorem close_only_in_cleanup_of_owner : forall h e r,
  In (CClose r) (new_calls (run h) e) ->
  exists done p, e = EResults done /\ In p done /\ lookup r (owner (run h)) = Some p.
Proof. intros h e r. apply close_in_calls. apply run_inv. Qed.

Theorem not_closed_while_owner_alive : forall h e r,
  reports_only_terminated (h ++ [e]) -> In (CClose r) (new_calls (run h) e) ->
  exists p, lookup r (owner (run h)) = Some p /\ In p (dead (run h)).
Proof.
  intros h e r Hwf Hin. destruct (close_only_in_cleanup_of_owner h e r Hin) as [done [p [-> [Hp Hl]]]].
  exists p. split; [exact Hl|]. apply anyb_snoc_false in Hwf. destruct Hwf as [_ Hok].
  cbn [early_reportb] in Hok. apply negb_false_iff in Hok. rewrite forallb_forall in Hok.
  apply memb_in. exact (Hok p Hp).
Qed.

Theorem cleanup_closes_everything : forall h done p r,
  In p done -> lookup r (owner (run h)) = Some p ->
  In (CClose r) (new_calls (run h) (EResults done)) /\
  forall r', lookup r' (owner (run (h ++ [EResults done]))) <> Some p.
Proof.
  intros h done p r Hp Hl. pose proof (run_inv h) as Hinv. split.
  - destruct (step_calls (run h) (EResults done) Hinv) as [_ [rs [Hc [Hrs _]]]].
    rewrite Hc. apply in_map. apply Hrs. exists p. split; assumption.
  - intro r'. rewrite run_snoc, (step_owner _ _ _ Hinv).
    destruct (lookup r' (owner (run h))) as [o|]; [|discriminate].
    destruct (existsb (N.eqb o) done) eqn:Ex; [discriminate|].
    intro H. injection H as ->. apply existsb_eqb_in in Hp. congruence.
Qed.

(* ------------------------------------------------------------------ closed at most once *)

Lemma closes_app : forall a b, closes (a ++ b) = closes a ++ closes b.
Proof. intros a b. unfold closes. apply flat_map_app. Qed.

Lemma closes_map_close : forall rs, closes (map CClose rs) = rs.
Proof. intro rs. induction rs as [|r t IH]; cbn; [reflexivity|]. f_equal. exact IH. Qed.

(* what one step adds to the closed ids *)
Lemma step_closes : forall s e, inv s ->
  exists rs, closes (log (step s e)) = closes (log s) ++ rs /\ NoDup rs /\
    forall r, In r rs <-> exists done p, e = EResults done /\ In p done /\ lookup r (owner s) = Some p.
Proof.
  intros s e Hinv. destruct (step_calls s e Hinv) as [Hlog Hc]. rewrite Hlog, closes_app.
  destruct e as [q eff a|q res|c vals|sd t v|done|q|];
    try (rewrite Hc; exists []; split; [reflexivity|]; split; [constructor|];
         intro r; split; [intros []|intros [d [p [H _]]]; discriminate]).
  - rewrite Hc. exists []. split; [destruct (deniedb s q eff); reflexivity|]. split; [constructor|].
    intro r. split; [intros []|intros [d [p [H _]]]; discriminate].
  - destruct Hc as [rs [Hc [Hrs Hnd]]]. rewrite Hc, closes_map_close. exists rs. split; [reflexivity|].
    split; [exact Hnd|]. intro r. rewrite Hrs. split.
    + intros [p [Hp Hl]]. exists done, p. repeat split; assumption.
    + intros [d [p [Hd [Hp Hl]]]]. injection Hd as <-. exists p. split; assumption.
Qed.

Record cinv (I : list rid) (s : state) : Prop := mk_cinv {
  ci_owned : forall r p, lookup r (owner s) = Some p -> In r I;
  ci_closed : forall r, In r (closes (log s)) -> In r I;
  ci_disj : forall r p, lookup r (owner s) = Some p -> ~ In r (closes (log s));
  ci_nodup : NoDup (closes (log s))
}.

(* a binding present after a step was present before, or its id was just issued by the backend
   (a transfer never registers an id that is absent from the map) *)
Lemma step_owner_dom : forall s e r p, inv s ->
  lookup r (owner (step s e)) = Some p -> lookup r (owner s) <> None \/ In r (issued_by e).
Proof.
  intros s e r p Hinv Hnew. rewrite (step_owner _ _ _ Hinv) in Hnew.
  destruct e as [q eff a|q res|c vals|sd t v|done|q|].
  - destruct (deniedb s q eff); [left; congruence|].
    destruct (memb r (issued_by (EEffect q eff a))) eqn:E; [right; apply memb_in; exact E|left; congruence].
  - destruct (memb r (issued_by (EComplete q res))) eqn:E; [right; apply memb_in; exact E|left; congruence].
  - left. destruct (memb r (transferred (ESpawn c vals))); [|congruence].
    unfold moved in Hnew. destruct (lookup r (owner s)); [discriminate|discriminate].
  - left. destruct (memb r (transferred (ESend sd t v))); [|congruence].
    unfold moved in Hnew. destruct (lookup r (owner s)); [discriminate|discriminate].
  - left. destruct (lookup r (owner s)); [discriminate|discriminate].
  - left. congruence.
  - left. congruence.
Qed.

Lemma issued_by_no_results : forall e r, In r (issued_by e) -> forall done, e <> EResults done.
Proof. intros e r H done He. subst e. destruct H. Qed.

Lemma cinv_step : forall I s e, inv s -> cinv I s -> NoDup (I ++ issued_by e) ->
  cinv (I ++ issued_by e) (step s e).
Proof.
  intros I s e Hinv [Hown Hcl Hdisj Hnd] Hfresh.
  destruct (step_closes s e Hinv) as [rs [Hcs [Hrsnd Hrs]]].
  assert (Hfr : forall r, In r (issued_by e) -> ~ In r I).
  { intros r Hr HI. clear - Hfresh Hr HI. induction I as [|x t IH]; [destruct HI|].
    cbn [app] in Hfresh. inversion Hfresh as [|? ? Hn Hf]; subst. destruct HI as [->|HI].
    - apply Hn. apply in_or_app. right. exact Hr.
    - exact (IH Hf HI). }
  constructor.
  - intros r p Hl. apply in_or_app.
    destruct (step_owner_dom s e r p Hinv Hl) as [H|H]; [|right; exact H].
    left. destruct (lookup r (owner s)) as [o|] eqn:E; [exact (Hown r o E)|congruence].
  - intros r Hr. rewrite Hcs in Hr. apply in_or_app. left. apply in_app_or in Hr. destruct Hr as [Hr|Hr].
    + exact (Hcl r Hr).
    + apply Hrs in Hr. destruct Hr as [d [p [_ [_ Hl]]]]. exact (Hown r p Hl).
  - intros r p Hl Hr. rewrite Hcs in Hr. apply in_app_or in Hr.
    destruct (step_owner_dom s e r p Hinv Hl) as [H|H].
    + destruct (lookup r (owner s)) as [o|] eqn:E; [|congruence]. destruct Hr as [Hr|Hr].
      * exact (Hdisj r o E Hr).
      * apply Hrs in Hr. destruct Hr as [d [q [-> [Hq Hlq]]]].
        rewrite (step_owner _ _ _ Hinv), Hlq in Hl. apply existsb_eqb_in in Hq. rewrite Hq in Hl. discriminate.
    + destruct Hr as [Hr|Hr].
      * exact (Hfr r H (Hcl r Hr)).
      * apply Hrs in Hr. destruct Hr as [d [q [He _]]]. exact (issued_by_no_results e r H d He).
  - rewrite Hcs. apply nodup_app; [exact Hnd|exact Hrsnd|]. intros r H1 H2.
    apply Hrs in H2. destruct H2 as [d [q [_ [_ Hl]]]]. exact (Hdisj r q Hl H1).
Qed.

Lemma nodup_app_l : forall (a b : list rid), NoDup (a ++ b) -> NoDup a.
Proof.
  intros a b. induction a as [|x t IH]; cbn [app]; intro H; [constructor|].
  inversion H as [|? ? Hn Hd]; subst. constructor; [|exact (IH Hd)].
  intro Hx. apply Hn. apply in_or_app. left. exact Hx.
Qed.

Lemma reachable_cinv : forall h, backend_fresh h -> cinv (issued h) (run h).
Proof.
  intro h. induction h as [|e h IH] using rev_ind; intros Hf.
  - constructor; cbn; try (intros; discriminate); try (intros ? []); constructor.
  - unfold backend_fresh in Hf. rewrite issued_snoc in *. rewrite run_snoc.
    apply cinv_step; [apply run_inv| |exact Hf]. apply IH. exact (nodup_app_l _ _ Hf).
Qed.

Theorem closed_at_most_once : forall h, backend_fresh h -> NoDup (closes (log (run h))).
Proof. intros h Hf. exact (ci_nodup _ _ (reachable_cinv h Hf)). Qed.

(* ------------------------------------------------------------------ closed after termination *)

Lemma reported_not_owner : forall h p r,
  fst (f10_scan p r init false false h) = true -> snd (f10_scan p r init false false h) = false ->
  lookup r (owner (run h)) <> Some p.
Proof.
  intros h p r. induction h as [|e h IH] using rev_ind; intros Hrep Hgiv.
  - cbn in Hrep. discriminate.
  - rewrite f10_scan_snoc in Hrep, Hgiv. cbn [fst snd] in Hrep, Hgiv. fold (run h) in Hgiv.
    apply orb_false_elim in Hgiv. destruct Hgiv as [Hg1 Hg2]. rewrite run_snoc.
    pose proof (run_inv h) as Hinv.
    destruct (fst (f10_scan p r init false false h)) eqn:Erep.
    + cbn [andb] in Hg2. specialize (IH eq_refl Hg1). intro Hnew.
      pose proof (step_gives _ _ _ _ Hinv Hnew IH) as Hgives. apply givesb_gives in Hgives. congruence.
    + cbn [orb] in Hrep. destruct e as [q eff a|q res|c vals|sd t v|done|q|]; try discriminate.
      cbn [reportsb] in Hrep. apply memb_in in Hrep.
      rewrite (step_owner _ _ _ Hinv). destruct (lookup r (owner (run h))) as [o|]; [|discriminate].
      destruct (existsb (N.eqb o) done) eqn:Ex; [discriminate|]. intro H. injection H as ->.
      apply existsb_eqb_in in Hrep. congruence.
Qed.

Theorem closed_after_termination : forall h p r,
  ~ KnownF10 h p r -> In p (dead (run h)) -> lookup r (owner (run h)) <> Some p.
Proof.
  intros h p r Hk _. apply reported_not_owner.
  - destruct (fst (f10_scan p r init false false h)) eqn:E; [reflexivity|]. exfalso. apply Hk. left. exact E.
  - destruct (snd (f10_scan p r init false false h)) eqn:E; [|reflexivity]. exfalso. apply Hk. right. exact E.
Qed.

(* ------------------------------------------------------------------ who may transfer (F49) *)

Definition initiates (e : event) (q : pid) (r : rid) : Prop :=
  initiator e = Some q /\ In r (transferred e).

Theorem ownership_leaves_only_by_owner_action : forall h e r o,
  ~ KnownF49 (h ++ [e]) ->
  lookup r (owner (run h)) = Some o -> lookup r (owner (run (h ++ [e]))) <> Some o ->
  initiates e o r \/ (exists done, e = EResults done /\ In o done) \/ In r (issued_by e).
Proof.
  intros h e r o Hk Hold Hnew. rewrite run_snoc, (step_owner _ _ _ (run_inv h)) in Hnew.
  assert (Hke : foreign_transferb (run h) e = false).
  { unfold KnownF49 in Hk. rewrite anyb_snoc in Hk. fold (run h) in Hk.
    destruct (foreign_transferb (run h) e); [exfalso; apply Hk; apply orb_true_r|reflexivity]. }
  assert (Htr : forall q, initiator e = Some q -> memb r (transferred e) = true -> o = q).
  { intros q Hq Hm. unfold foreign_transferb in Hke. rewrite Hq in Hke. apply memb_in in Hm.
    destruct (N.eq_dec o q) as [->|Hne]; [reflexivity|]. exfalso.
    assert (Hex : existsb (fun r0 => match lookup r0 (owner (run h)) with
                                      | Some o0 => negb (N.eqb o0 q) | None => false end) (transferred e) = true).
    { apply existsb_exists. exists r. split; [exact Hm|]. rewrite Hold. apply negb_true_iff. apply N.eqb_neq. exact Hne. }
    congruence. }
  destruct e as [q eff a|q res|c vals|sd t v|done|q|]; try congruence.
  - destruct (deniedb (run h) q eff); [congruence|].
    destruct (memb r (issued_by (EEffect q eff a))) eqn:E; [|congruence]. right. right. apply memb_in. exact E.
  - destruct (memb r (issued_by (EComplete q res))) eqn:E; [|congruence]. right. right. apply memb_in. exact E.
  - destruct (memb r (transferred (ESpawn c vals))) eqn:E; [|congruence]. left.
    clear Hnew.
    rewrite (Htr c eq_refl eq_refl). split; [reflexivity|apply memb_in; exact E].
  - destruct (memb r (transferred (ESend sd t v))) eqn:E; [|congruence]. left.
    clear Hnew.
    rewrite (Htr sd eq_refl eq_refl). split; [reflexivity|apply memb_in; exact E].
  - rewrite Hold in Hnew. destruct (existsb (N.eqb o) done) eqn:Ex; [|congruence].
    right. left. exists done. split; [reflexivity|apply existsb_eqb_in; exact Ex].
Qed.

(* ------------------------------------------------------------------ refuted statements: witnesses
   Each witness is the event sequence of a run of the REAL environment (harness qv_own) on the
   Quiver program quoted above it. *)

(* `p = @{ 0 __res_open__ =r, [r, 0] __res_use__ }, 5` : p is never awaited *)
Definition witness_F10 : list event :=
  [ESpawn 0 [VTuple []]; EEffect 1 (Open 0) (ANow (Some (VRes 1)));
   EEffect 1 (Op 1 0) (ANow (Some VOther)); ETerminate 1; EOther].

Theorem closed_after_termination_refuted :
  exists h p r, reports_only_terminated h /\ backend_fresh h /\ quiescent (run h) /\
                In p (dead (run h)) /\ lookup r (owner (run h)) = Some p /\ KnownF10 h p r.
Proof.
  exists witness_F10, 1, 1. repeat split; try reflexivity.
  - unfold backend_fresh. vm_compute. constructor; [intros []|constructor].
  - vm_compute. left. reflexivity.
  - left. reflexivity.
Qed.

(* `b = @{ !#'m { =H[_] => Ok } }, r = 0 __res_open__, H[r] b, !b, [r, 0] __res_use__` :
   the stale id 1 reaches backend.execute *)
Definition witness_F47 : list event :=
  [ESpawn 0 [VTuple []]; EEffect 0 (Open 0) (ANow (Some (VRes 1))); ESend 0 1 (VTuple [VRes 1]);
   ETerminate 1; EOther; EResults [1]].

Theorem non_owner_never_reaches_backend_unconditional_refuted :
  exists h e p eff r, reports_only_terminated (h ++ [e]) /\
    In (CExec p eff) (new_calls (run h) e) /\ resource_id eff = Some r /\
    lookup r (owner (run h)) <> Some p /\ KnownF47 (h ++ [e]).
Proof.
  exists witness_F47, (EEffect 0 (Op 1 0) AFail), 0, (Op 1 0), 1. repeat split; try reflexivity.
  - vm_compute. left. reflexivity.
  - vm_compute. discriminate.
Qed.

(* `b = @{ !#'m { =H[_] => Ok } }, c = @{ !#'m { =H[_] => Ok } }, r = 0 __res_open__, H[r] b, !b, H[r] c, !c` :
   close_resource(1) was called twice before the repair of F48 *)
Definition witness_F48 : list event :=
  [ESpawn 0 [VTuple []]; ESpawn 0 [VTuple []]; EEffect 0 (Open 0) (ANow (Some (VRes 1)));
   ESend 0 1 (VTuple [VRes 1]); ETerminate 1; EOther; EResults [1];
   ESend 0 2 (VTuple [VRes 1]); EOther; ETerminate 2; EResults []; EResults [2]].

(* since the repair of F48 the stale handle is not registered again: closed once *)
Example stale_handle_resent_closed_once :
  reports_only_terminated witness_F48 /\ backend_fresh witness_F48 /\
  anyb stale_transferb init witness_F48 = true /\ closes (log (run witness_F48)) = [1].
Proof.
  repeat split; try reflexivity. unfold backend_fresh. vm_compute. constructor; [intros []|constructor].
Qed.

(* `b = @{ !#'m {..use..}, !#'m {..} }, c = @{ !#'m { =H[_] => Ok } }, r = 0 __res_open__, H[r] b, H[r] c, ...` :
   process 0, no longer the owner, moves resource 1 from its live owner 1 to process 2 *)
Definition witness_F49 : list event :=
  [ESpawn 0 [VTuple []]; ESpawn 0 [VTuple []]; EEffect 0 (Open 0) (ANow (Some (VRes 1)));
   ESend 0 1 (VTuple [VRes 1]); EEffect 1 (Op 1 0) (ANow (Some VOther))].

Theorem transfer_only_by_owner_refuted :
  exists h e q r o, initiates e q r /\ lookup r (owner (run h)) = Some o /\ o <> q /\
                    ~ In o (dead (run h)) /\ lookup r (owner (run (h ++ [e]))) <> Some o /\
                    KnownF49 (h ++ [e]).
Proof.
  exists witness_F49, (ESend 0 2 (VTuple [VRes 1])), 0, 1, 1. repeat split; try reflexivity.
  - vm_compute. left. reflexivity.
  - discriminate.
  - vm_compute. intros [].
  - vm_compute. discriminate.
Qed.

(* ------------------------------------------------------------------ non-vacuity *)

(* three processes, a handle nested in a closure inside a tuple, transferred twice, its last owner
   reported: none of the known classes, all hypotheses hold, and the resource is closed once *)
Definition good_history : list event :=
  [ESpawn 0 [VTuple []]; EEffect 0 (Open 1) AAsync; EComplete 0 (Some (VRes 1));
   ESend 0 1 (VTuple [VTuple [VFun [VRes 1]; VOther]]);
   EEffect 1 (Op 1 0) (ANow (Some VOther)); EEffect 0 (Op 1 4) AFail;
   ESpawn 1 [VFun [VRes 1]; VTuple []]; ETerminate 1; EEffect 2 (Op 1 0) (ANow (Some VOther));
   ETerminate 2; EResults [2]; EResults [1]].

Example good_history_meets_all_hypotheses :
  reports_only_terminated good_history /\ backend_fresh good_history /\
  ~ KnownF47 good_history /\ ~ KnownF49 good_history /\
  ~ KnownF10 good_history 2 1 /\ In 2 (dead (run good_history)) /\
  closes (log (run good_history)) = [1] /\
  log (run good_history) = [CExec 0 (Open 1); CExec 1 (Op 1 0); CExec 2 (Op 1 0); CClose 1].
Proof.
  repeat split; try reflexivity.
  - unfold backend_fresh. vm_compute. constructor; [intros []|constructor].
  - vm_compute. discriminate.
  - vm_compute. discriminate.
  - vm_compute. intros [H|H]; discriminate.
  - vm_compute. left. reflexivity.
Qed.

(* the denied request of the old owner (process 0 after the send) is in good_history: *)
Example good_history_has_denied_use :
  exists h1 h2, good_history = h1 ++ EEffect 0 (Op 1 4) AFail :: h2 /\
                lookup 1 (owner (run h1)) = Some 1 /\ new_calls (run h1) (EEffect 0 (Op 1 4) AFail) = [].
Proof.
  exists (firstn 5 good_history), (skipn 6 good_history). repeat split; reflexivity.
Qed.

Example close_example :
  In (CClose 1) (new_calls (run (firstn 10 good_history)) (EResults [2])) /\
  lookup 1 (owner (run (firstn 10 good_history))) = Some 2.
Proof. split; [vm_compute; left; reflexivity|reflexivity]. Qed.

Lemma run_log_extends : forall h e, log (run (h ++ [e])) = log (run h) ++ new_calls (run h) e.
Proof. intros h e. rewrite run_snoc. apply log_extends. apply run_inv. Qed.
