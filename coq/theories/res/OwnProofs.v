(* C14 — proofs about the ownership automaton res/Own.v. *)
From Coq Require Import List NArith Bool Lia.
From Quiver Require Import res.Own.
Import ListNotations.
Open Scope N_scope.

(* ------------------------------------------------------------------ generalities *)

Lemma run_snoc : forall h e, run (h ++ [e]) = step (run h) e.
Proof. intros h e. unfold run. rewrite fold_left_app. reflexivity. Qed.

Lemma run_app : forall h1 h2, run (h1 ++ h2) = fold_left step h2 (run h1).
Proof. intros h1 h2. unfold run. apply fold_left_app. Qed.

Definition keys (m : omap) : list rid := map fst m.

Lemma eqb_refl' : forall r, N.eqb r r = true.
Proof. intro r. apply N.eqb_refl. Qed.

Lemma lookup_insert_eq : forall r p m, lookup r (insert r p m) = Some p.
Proof.
  intros r p m. induction m as [|[r' q] t IH]; cbn [insert lookup].
  - rewrite N.eqb_refl. reflexivity.
  - destruct (N.eqb r r') eqn:E; cbn [lookup]; rewrite E; [reflexivity|exact IH].
Qed.

Lemma lookup_insert_neq : forall r r' p m, r <> r' -> lookup r (insert r' p m) = lookup r m.
Proof.
  intros r r' p m Hne. induction m as [|[k q] t IH]; cbn [insert lookup].
  - destruct (N.eqb r r') eqn:E; [apply N.eqb_eq in E; contradiction|reflexivity].
  - destruct (N.eqb r' k) eqn:E1; cbn [lookup].
    + apply N.eqb_eq in E1. subst k.
      destruct (N.eqb r r') eqn:E; [apply N.eqb_eq in E; contradiction|reflexivity].
    + destruct (N.eqb r k); [reflexivity|exact IH].
Qed.

Lemma lookup_remove_eq : forall r m, lookup r (remove r m) = None.
Proof.
  intros r m. induction m as [|[k q] t IH]; cbn [remove lookup]; [reflexivity|].
  destruct (N.eqb r k) eqn:E; [exact IH|]. cbn [lookup]. rewrite E. exact IH.
Qed.

Lemma lookup_remove_neq : forall r r' m, r <> r' -> lookup r (remove r' m) = lookup r m.
Proof.
  intros r r' m Hne. induction m as [|[k q] t IH]; cbn [remove lookup]; [reflexivity|].
  destruct (N.eqb r' k) eqn:E1.
  - apply N.eqb_eq in E1. subst k.
    destruct (N.eqb r r') eqn:E; [apply N.eqb_eq in E; contradiction|exact IH].
  - cbn [lookup]. destruct (N.eqb r k); [reflexivity|exact IH].
Qed.

Lemma lookup_in_keys : forall r m, lookup r m <> None <-> In r (keys m).
Proof.
  intros r m. induction m as [|[k q] t IH]; cbn [lookup keys map fst In].
  - split; [intro H; contradiction|intros []].
  - destruct (N.eqb r k) eqn:E.
    + apply N.eqb_eq in E. subst k. split; [intros _; left; reflexivity|intros _; discriminate].
    + apply N.eqb_neq in E. rewrite IH. split; [intro H; right; exact H|intros [H|H]; [congruence|exact H]].
Qed.

Lemma lookup_none_keys : forall r m, lookup r m = None <-> ~ In r (keys m).
Proof.
  intros r m. rewrite <- lookup_in_keys. destruct (lookup r m) as [p|].
  - split; [discriminate|]. intro H. exfalso. apply H. discriminate.
  - split; [intros _ H; apply H; reflexivity|reflexivity].
Qed.

Lemma lookup_some_in : forall r p m, lookup r m = Some p -> In (r, p) m.
Proof.
  intros r p m. induction m as [|[k q] t IH]; cbn [lookup]; [discriminate|].
  destruct (N.eqb r k) eqn:E.
  - apply N.eqb_eq in E. subst k. intro H. injection H as ->. left. reflexivity.
  - intro H. right. exact (IH H).
Qed.

Lemma in_lookup : forall r p m, NoDup (keys m) -> In (r, p) m -> lookup r m = Some p.
Proof.
  intros r p m. induction m as [|[k q] t IH]; cbn [keys map fst]; intros Hnd Hin; [destruct Hin|].
  inversion Hnd as [|? ? Hnotin Hnd']; subst. cbn [lookup]. destruct Hin as [Heq|Hin].
  - injection Heq as -> ->. rewrite N.eqb_refl. reflexivity.
  - destruct (N.eqb r k) eqn:E.
    + apply N.eqb_eq in E. subst k. exfalso. apply Hnotin.
      change (In (fst (r, p)) (map fst t)). apply in_map. exact Hin.
    + exact (IH Hnd' Hin).
Qed.

Lemma keys_insert : forall r p m x, In x (keys (insert r p m)) <-> x = r \/ In x (keys m).
Proof.
  intros r p m x. induction m as [|[k q] t IH]; cbn [insert keys map fst In].
  - split; [intros [H|[]]; left; congruence|intros [H|[]]; left; congruence].
  - destruct (N.eqb r k) eqn:E; cbn [keys map fst In].
    + apply N.eqb_eq in E. subst k. split; [intros [H|H]; [left; congruence|right; right; exact H]|
        intros [H|[H|H]]; [left; congruence|left; exact H|right; exact H]].
    + fold (keys (insert r p t)). fold (keys t). rewrite IH. tauto.
Qed.

Lemma nodup_insert : forall r p m, NoDup (keys m) -> NoDup (keys (insert r p m)).
Proof.
  intros r p m. induction m as [|[k q] t IH]; cbn [insert keys map fst]; intro Hnd.
  - constructor; [intros []|constructor].
  - destruct (N.eqb r k) eqn:E; cbn [keys map fst]; [exact Hnd|].
    inversion Hnd as [|? ? Hnotin Hnd']; subst. constructor.
    + fold (keys (insert r p t)). rewrite keys_insert. intros [H|H].
      * subst k. rewrite N.eqb_refl in E. discriminate.
      * exact (Hnotin H).
    + exact (IH Hnd').
Qed.

Lemma keys_remove_incl : forall r m x, In x (keys (remove r m)) -> In x (keys m).
Proof.
  intros r m x. induction m as [|[k q] t IH]; cbn [remove keys map fst In]; [intros []|].
  destruct (N.eqb r k); cbn [keys map fst In].
  - intro H. right. exact (IH H).
  - intros [H|H]; [left; exact H|right; exact (IH H)].
Qed.

Lemma nodup_remove : forall r m, NoDup (keys m) -> NoDup (keys (remove r m)).
Proof.
  intros r m. induction m as [|[k q] t IH]; cbn [remove keys map fst]; intro Hnd; [constructor|].
  inversion Hnd as [|? ? Hnotin Hnd']; subst.
  destruct (N.eqb r k); cbn [keys map fst]; [exact (IH Hnd')|].
  constructor; [|exact (IH Hnd')]. intro H. apply Hnotin. exact (keys_remove_incl _ _ _ H).
Qed.

(* ------------------------------------------------------------------ values *)

Section ValInd.
  Variable P : val -> Prop.
  Hypothesis Hres : forall r, P (VRes r).
  Hypothesis Htup : forall fs, Forall P fs -> P (VTuple fs).
  Hypothesis Hfun : forall cs, Forall P cs -> P (VFun cs).
  Hypothesis Hoth : P VOther.
  Fixpoint val_ind' (v : val) : P v :=
    match v with
    | VRes r => Hres r
    | VTuple fs => Htup fs ((fix go (l : list val) : Forall P l :=
                               match l with [] => Forall_nil P | x :: t => Forall_cons x (val_ind' x) (go t) end) fs)
    | VFun cs => Hfun cs ((fix go (l : list val) : Forall P l :=
                             match l with [] => Forall_nil P | x :: t => Forall_cons x (val_ind' x) (go t) end) cs)
    | VOther => Hoth
    end.
End ValInd.

(* r occurs in v at some depth, below tuples and closures *)
Inductive carries (r : rid) : val -> Prop :=
| carries_res : carries r (VRes r)
| carries_tuple : forall fs f, In f fs -> carries r f -> carries r (VTuple fs)
| carries_fun : forall cs c, In c cs -> carries r c -> carries r (VFun cs).

Lemma carries_iff : forall r v, carries r v <-> In r (rids_of v).
Proof.
  intros r v. induction v as [r'|fs IH|cs IH|] using val_ind'; cbn [rids_of].
  - split; [intro H; inversion H; left; reflexivity|intros [H|[]]; subst; constructor].
  - rewrite in_flat_map. split.
    + intro H. inversion H as [|? f Hin Hc|]; subst. exists f. split; [exact Hin|].
      rewrite Forall_forall in IH. apply (IH f Hin). exact Hc.
    + intros [f [Hin Hr]]. apply carries_tuple with f; [exact Hin|].
      rewrite Forall_forall in IH. apply (IH f Hin). exact Hr.
  - rewrite in_flat_map. split.
    + intro H. inversion H as [| |? c Hin Hc]; subst. exists c. split; [exact Hin|].
      rewrite Forall_forall in IH. apply (IH c Hin). exact Hc.
    + intros [c [Hin Hr]]. apply carries_fun with c; [exact Hin|].
      rewrite Forall_forall in IH. apply (IH c Hin). exact Hr.
  - split; [intro H; inversion H|intros []].
Qed.

Lemma keys_reassign : forall r p m, keys (reassign r p m) = keys m.
Proof.
  intros r p m. induction m as [|[k q] t IH]; cbn [reassign keys map fst]; [reflexivity|].
  destruct (N.eqb r k); cbn [keys map fst]; [reflexivity|]. f_equal. exact IH.
Qed.

Lemma lookup_reassign : forall r r' p m,
  lookup r (reassign r' p m) =
  if N.eqb r r' then match lookup r m with Some _ => Some p | None => None end else lookup r m.
Proof.
  intros r r' p m. induction m as [|[k q] t IH]; cbn [reassign lookup].
  - destruct (N.eqb r r'); reflexivity.
  - destruct (N.eqb r' k) eqn:E1; cbn [lookup].
    + apply N.eqb_eq in E1. subst k. destruct (N.eqb r r'); reflexivity.
    + destruct (N.eqb r k) eqn:E2.
      * apply N.eqb_eq in E2. subst k. rewrite N.eqb_sym, E1. reflexivity.
      * exact IH.
Qed.

Definition remove_all (rs : list rid) (m : omap) : omap := fold_left (fun m r => remove r m) rs m.

Lemma lookup_remove_none : forall a m r, lookup r m = None -> lookup r (remove a m) = None.
Proof.
  intros a m r H. destruct (N.eq_dec r a) as [->|Hne]; [apply lookup_remove_eq|].
  rewrite lookup_remove_neq by exact Hne. exact H.
Qed.

Lemma lookup_remove_all_none : forall rs m r, lookup r m = None -> lookup r (remove_all rs m) = None.
Proof.
  intros rs. induction rs as [|a t IH]; intros m r H; cbn [remove_all fold_left]; [exact H|].
  apply IH. apply lookup_remove_none. exact H.
Qed.

Lemma lookup_remove_all_in : forall rs m r, In r rs -> lookup r (remove_all rs m) = None.
Proof.
  intros rs. induction rs as [|a t IH]; intros m r Hin; [destruct Hin|].
  cbn [remove_all fold_left]. destruct Hin as [->|Hin].
  - apply lookup_remove_all_none. apply lookup_remove_eq.
  - exact (IH _ _ Hin).
Qed.

Lemma nodup_app : forall (l1 l2 : list rid), NoDup l1 -> NoDup l2 ->
  (forall x, In x l1 -> In x l2 -> False) -> NoDup (l1 ++ l2).
Proof.
  intros l1. induction l1 as [|a t IH]; intros l2 H1 H2 Hd; cbn [app]; [exact H2|].
  inversion H1 as [|? ? Hn H1']; subst. constructor.
  - rewrite in_app_iff. intros [H|H]; [exact (Hn H)|]. exact (Hd a (or_introl eq_refl) H).
  - apply IH; [exact H1'|exact H2|]. intros x Hx1 Hx2. exact (Hd x (or_intror Hx1) Hx2).
Qed.

Lemma lookup_remove_all_notin : forall rs m r, ~ In r rs -> lookup r (remove_all rs m) = lookup r m.
Proof.
  intros rs. induction rs as [|a t IH]; intros m r Hn; cbn [remove_all fold_left]; [reflexivity|].
  fold (remove_all t (remove a m)). rewrite IH by (intro H; apply Hn; right; exact H).
  apply lookup_remove_neq. intro H. apply Hn. left. symmetry. exact H.
Qed.

Lemma nodup_remove_all : forall rs m, NoDup (keys m) -> NoDup (keys (remove_all rs m)).
Proof.
  intros rs. induction rs as [|a t IH]; intros m H; cbn [remove_all fold_left]; [exact H|].
  apply IH. apply nodup_remove. exact H.
Qed.

Lemma in_owned_by : forall p m r, In r (owned_by p m) <-> In (r, p) m.
Proof.
  intros p m r. unfold owned_by. rewrite in_map_iff. split.
  - intros [[r' q] [Hfst Hin]]. cbn [fst] in Hfst. subst r'. apply filter_In in Hin.
    destruct Hin as [Hin Heq]. cbn [snd] in Heq. apply N.eqb_eq in Heq. subst q. exact Hin.
  - intro Hin. exists (r, p). split; [reflexivity|]. apply filter_In. split; [exact Hin|].
    cbn [snd]. apply N.eqb_refl.
Qed.

Lemma owned_by_lookup : forall p m r, NoDup (keys m) -> (In r (owned_by p m) <-> lookup r m = Some p).
Proof.
  intros p m r Hnd. rewrite in_owned_by. split; [apply in_lookup; exact Hnd|apply lookup_some_in].
Qed.

Lemma nodup_owned_by : forall p m, NoDup (keys m) -> NoDup (owned_by p m).
Proof.
  intros p m. unfold owned_by, keys. induction m as [|[k q] t IH]; cbn [map fst filter snd]; intro Hnd; [constructor|].
  inversion Hnd as [|? ? Hnotin Hnd']; subst. destruct (N.eqb q p); cbn [map fst]; [|exact (IH Hnd')].
  constructor; [|exact (IH Hnd')]. intro H. apply Hnotin. apply in_map_iff in H.
  destruct H as [x [Hx Hin]]. apply filter_In in Hin. destruct Hin as [Hin _].
  apply in_map_iff. exists x. split; [exact Hx|exact Hin].
Qed.

Definition inv (s : state) : Prop := NoDup (keys (owner s)).

Lemma cleanup_owner : forall s p, owner (cleanup s p) = remove_all (owned_by p (owner s)) (owner s).
Proof. reflexivity. Qed.

Lemma cleanup_log : forall s p, log (cleanup s p) = log s ++ map CClose (owned_by p (owner s)).
Proof. reflexivity. Qed.

Lemma cleanup_inv : forall s p, inv s -> inv (cleanup s p).
Proof. intros s p H. unfold inv. rewrite cleanup_owner. apply nodup_remove_all. exact H. Qed.

(* cleanup of p: p owns nothing afterwards, every other binding is untouched *)
Lemma lookup_cleanup : forall s p r, inv s ->
  lookup r (owner (cleanup s p)) = match lookup r (owner s) with
                                   | Some q => if N.eqb q p then None else Some q
                                   | None => None
                                   end.
Proof.
  intros s p r Hinv. rewrite cleanup_owner.
  destruct (in_dec N.eq_dec r (owned_by p (owner s))) as [Hin|Hn].
  - rewrite lookup_remove_all_in by exact Hin. apply (owned_by_lookup _ _ _ Hinv) in Hin.
    rewrite Hin, N.eqb_refl. reflexivity.
  - rewrite lookup_remove_all_notin by exact Hn. destruct (lookup r (owner s)) as [q|] eqn:E; [|reflexivity].
    destruct (N.eqb q p) eqn:Eq; [|reflexivity]. apply N.eqb_eq in Eq. subst q.
    exfalso. apply Hn. apply (owned_by_lookup _ _ _ Hinv). exact E.
Qed.

Lemma results_inv : forall done s, inv s -> inv (handle_process_results s done).
Proof.
  intros done. induction done as [|p t IH]; intros s H; cbn [handle_process_results fold_left]; [exact H|].
  apply IH. apply cleanup_inv. exact H.
Qed.

Lemma results_dead : forall done s, dead (handle_process_results s done) = dead s.
Proof.
  intros done. induction done as [|p t IH]; intro s; cbn [handle_process_results fold_left]; [reflexivity|].
  unfold handle_process_results in IH. rewrite IH. reflexivity.
Qed.

Lemma results_next_pid : forall done s, next_pid (handle_process_results s done) = next_pid s.
Proof.
  intros done. induction done as [|p t IH]; intro s; cbn [handle_process_results fold_left]; [reflexivity|].
  unfold handle_process_results in IH. rewrite IH. reflexivity.
Qed.

(* after handling ProcessResults done: bindings to reported processes are gone, others untouched *)
Lemma lookup_results : forall done s r, inv s ->
  lookup r (owner (handle_process_results s done)) =
  match lookup r (owner s) with
  | Some q => if existsb (N.eqb q) done then None else Some q
  | None => None
  end.
Proof.
  intros done. induction done as [|p t IH]; intros s r Hinv; cbn [handle_process_results fold_left existsb].
  - destruct (lookup r (owner s)); reflexivity.
  - unfold handle_process_results in IH. rewrite (IH (cleanup s p) r (cleanup_inv _ _ Hinv)).
    rewrite (lookup_cleanup s p r Hinv). destruct (lookup r (owner s)) as [q|]; [|reflexivity].
    destruct (N.eqb q p) eqn:E; cbn [orb]; reflexivity.
Qed.

Lemma existsb_eqb_in : forall q l, existsb (N.eqb q) l = true <-> In q l.
Proof.
  intros q l. rewrite existsb_exists. split.
  - intros [x [Hin Heq]]. apply N.eqb_eq in Heq. subst x. exact Hin.
  - intro Hin. exists q. split; [exact Hin|apply N.eqb_refl].
Qed.

(* the calls made by handle_process_results: only closes, each of a resource owned (before the
   event) by one of the reported processes; and all of those *)
Lemma results_log : forall done s, inv s ->
  exists rs, log (handle_process_results s done) = log s ++ map CClose rs /\
             (forall r, In r rs <-> exists p, In p done /\ lookup r (owner s) = Some p) /\
             NoDup rs.
Proof.
  intros done. induction done as [|p t IH]; intros s Hinv; cbn [handle_process_results fold_left].
  - exists []. split; [rewrite app_nil_r; reflexivity|]. split; [|constructor].
    intro r. split; [intros []|intros [p [[] _]]].
  - destruct (IH (cleanup s p) (cleanup_inv _ _ Hinv)) as [rs [Hlog [Hrs Hnd]]].
    exists (owned_by p (owner s) ++ rs). split; [|split].
    + unfold handle_process_results in Hlog. rewrite Hlog, cleanup_log, map_app, app_assoc. reflexivity.
    + intro r. rewrite in_app_iff, Hrs, (owned_by_lookup _ _ _ Hinv). split.
      * intros [H|[q [Hq Hl]]].
        -- exists p. split; [left; reflexivity|exact H].
        -- rewrite (lookup_cleanup s p r Hinv) in Hl. destruct (lookup r (owner s)) as [o|]; [|discriminate].
           destruct (N.eqb o p); [discriminate|]. exists q. split; [right; exact Hq|]. exact Hl.
      * intros [q [[Hq|Hq] Hl]].
        -- subst q. left. exact Hl.
        -- destruct (N.eq_dec q p) as [->|Hne]; [left; exact Hl|]. right. exists q. split; [exact Hq|].
           rewrite (lookup_cleanup s p r Hinv), Hl. apply N.eqb_neq in Hne. rewrite Hne. reflexivity.
    + apply nodup_app; [apply nodup_owned_by; exact Hinv|exact Hnd|].
      intros r Hin1 Hin2. apply (owned_by_lookup _ _ _ Hinv) in Hin1. apply Hrs in Hin2.
      destruct Hin2 as [q [_ Hl]]. rewrite (lookup_cleanup s p r Hinv), Hin1, N.eqb_refl in Hl. discriminate.
Qed.

(* ------------------------------------------------------------------ one step, characterised *)

Lemma memb_in : forall r l, memb r l = true <-> In r l.
Proof. intros r l. apply existsb_eqb_in. Qed.

Lemma memb_notin : forall r l, memb r l = false <-> ~ In r l.
Proof.
  intros r l. rewrite <- memb_in. destruct (memb r l).
  - split; [discriminate|]. intro H. exfalso. apply H. reflexivity.
  - split; [intros _ H; discriminate H|reflexivity].
Qed.

Lemma lookup_insert : forall r r' p m, lookup r (insert r' p m) = if N.eqb r r' then Some p else lookup r m.
Proof.
  intros r r' p m. destruct (N.eqb r r') eqn:E.
  - apply N.eqb_eq in E. subst r'. apply lookup_insert_eq.
  - apply N.eqb_neq in E. apply lookup_insert_neq. exact E.
Qed.


(* ------------------------------------------------------------------ give_resources *)

Definition give1 (g : pid) (new : pid) (m : omap) (r : rid) : omap :=
  if owner_is g (lookup r m) then reassign r new m else m.

Definition give_list (g : pid) (rs : list rid) (new : pid) (m : omap) : omap :=
  fold_left (give1 g new) rs m.

Lemma give_rids : forall g v new m, give g v new m = give_list g (rids_of v) new m.
Proof.
  intros g v new. induction v as [r|fs IH|cs IH|] using val_ind'; intro m; cbn [give rids_of]; try reflexivity.
  - revert m. induction fs as [|f t IHt]; intro m; cbn [fold_left flat_map]; [reflexivity|].
    inversion IH as [|? ? Hf Ht]; subst. unfold give_list. rewrite fold_left_app.
    fold (give_list g (rids_of f) new m). rewrite <- Hf. exact (IHt Ht _).
  - revert m. induction cs as [|c t IHt]; intro m; cbn [fold_left flat_map]; [reflexivity|].
    inversion IH as [|? ? Hc Ht]; subst. unfold give_list. rewrite fold_left_app.
    fold (give_list g (rids_of c) new m). rewrite <- Hc. exact (IHt Ht _).
Qed.

Lemma give_all_rids : forall g vs new m, give_all g vs new m = give_list g (flat_map rids_of vs) new m.
Proof.
  intros g vs new. induction vs as [|v t IH]; intro m; cbn [give_all fold_left flat_map]; [reflexivity|].
  unfold give_list. rewrite fold_left_app. fold (give_list g (rids_of v) new m).
  rewrite <- give_rids. exact (IH _).
Qed.

Lemma keys_give_list : forall g rs new m, keys (give_list g rs new m) = keys m.
Proof.
  intros g rs new. induction rs as [|a t IH]; intro m; cbn [give_list fold_left]; [reflexivity|].
  fold (give_list g t new (give1 g new m a)). rewrite IH. unfold give1.
  destruct (owner_is g (lookup a m)); [apply keys_reassign|reflexivity].
Qed.

Lemma lookup_give1 : forall g new m a r,
  lookup r (give1 g new m a) =
  if N.eqb r a && owner_is g (lookup r m) then Some new else lookup r m.
Proof.
  intros g new m a r. unfold give1. destruct (N.eqb r a) eqn:E; cbn [andb].
  - apply N.eqb_eq in E. subst a. destruct (owner_is g (lookup r m)) eqn:Eo; [|reflexivity].
    rewrite lookup_reassign, N.eqb_refl. unfold owner_is in Eo. destruct (lookup r m); [reflexivity|discriminate].
  - destruct (owner_is g (lookup a m)); [|reflexivity]. rewrite lookup_reassign, E. reflexivity.
Qed.

(* a resource carried by the value moves exactly when the giver owns it *)
Lemma lookup_give_list : forall g rs new m r,
  lookup r (give_list g rs new m) =
  if memb r rs && owner_is g (lookup r m) then Some new else lookup r m.
Proof.
  intros g rs new. induction rs as [|a t IH]; intros m r; cbn [give_list fold_left memb existsb]; [reflexivity|].
  fold (give_list g t new (give1 g new m a)). fold (memb r t). rewrite IH, lookup_give1.
  destruct (N.eqb r a); cbn [orb andb]; [|reflexivity].
  destruct (owner_is g (lookup r m)) eqn:Eo; cbn [andb].
  - destruct (memb r t && owner_is g (Some new)); reflexivity.
  - rewrite Eo, andb_false_r. reflexivity.
Qed.

(* ------------------------------------------------------------------ one step, characterised *)

(* environment.rs handle_effect_request: the request is refused without touching the backend *)
Definition deniedb (s : state) (p : pid) (e : effect) : bool :=
  match resource_id e with
  | Some r => match lookup r (owner s) with
              | Some o => negb (N.eqb o p)
              | None => false
              end
  | None => false
  end.

Lemma effect_request_unfold : forall s p e a,
  handle_effect_request s p e a =
  if deniedb s p e then s
  else
    let s1 := mkState (owner s) (dead s) (pending s) (next_pid s) (log s ++ [CExec p e]) (watched s) in
    match a with
    | ANow res => handle_effect_completion s1 p res
    | AAsync => mkState (owner s1) (dead s1) (p :: pending s1) (next_pid s1) (log s1) (watched s1)
    | AFail => s1
    end.
Proof. reflexivity. Qed.

Lemma completion_owner : forall s p res r,
  lookup r (owner (handle_effect_completion s p res)) =
  if memb r (result_rid res) then Some p else lookup r (owner s).
Proof.
  intros s p res r. unfold handle_effect_completion.
  destruct res as [[r'| | |]|]; cbn [result_rid memb existsb orb owner watch]; try reflexivity.
  rewrite lookup_insert. destruct (N.eqb r r'); reflexivity.
Qed.

Lemma completion_inv : forall s p res, inv s -> inv (handle_effect_completion s p res).
Proof.
  intros s p res H. unfold inv, handle_effect_completion.
  destruct res as [[r'| | |]|]; try exact H. cbn [owner watch]. apply nodup_insert. exact H.
Qed.

Lemma completion_log : forall s p res, log (handle_effect_completion s p res) = log s.
Proof. intros s p res. unfold handle_effect_completion. destruct res as [[r'| | |]|]; reflexivity. Qed.

Lemma completion_dead : forall s p res, dead (handle_effect_completion s p res) = dead s.
Proof. intros s p res. unfold handle_effect_completion. destruct res as [[r'| | |]|]; reflexivity. Qed.

Lemma completion_watched : forall s p res,
  watched (handle_effect_completion s p res) = if memb p (map (fun _ => p) (result_rid res)) then p :: watched s else watched s.
Proof.
  intros s p res. unfold handle_effect_completion.
  destruct res as [[r'| | |]|]; cbn [result_rid map memb existsb orb watched watch]; try reflexivity.
  rewrite N.eqb_refl. reflexivity.
Qed.

Lemma spawn_owner : forall s c vals,
  owner (handle_spawn s c vals) = give_all c vals (next_pid s) (owner s).
Proof. intros s c vals. unfold handle_spawn. destruct (gives_any c vals (owner s)); reflexivity. Qed.

Lemma deliver_owner : forall s sd t v, owner (handle_deliver s sd t v) = give sd v t (owner s).
Proof. intros s sd t v. unfold handle_deliver. destruct (gives_any sd [v] (owner s)); reflexivity. Qed.

Lemma spawn_log : forall s c vals, log (handle_spawn s c vals) = log s.
Proof. intros s c vals. unfold handle_spawn. destruct (gives_any c vals (owner s)); reflexivity. Qed.

Lemma deliver_log : forall s sd t v, log (handle_deliver s sd t v) = log s.
Proof. intros s sd t v. unfold handle_deliver. destruct (gives_any sd [v] (owner s)); reflexivity. Qed.

Lemma spawn_dead : forall s c vals, dead (handle_spawn s c vals) = dead s.
Proof. intros s c vals. unfold handle_spawn. destruct (gives_any c vals (owner s)); reflexivity. Qed.

Lemma deliver_dead : forall s sd t v, dead (handle_deliver s sd t v) = dead s.
Proof. intros s sd t v. unfold handle_deliver. destruct (gives_any sd [v] (owner s)); reflexivity. Qed.

(* the processes whose termination e reports to the environment *)
Definition reported (e : event) : list pid :=
  match e with
  | EResults done => done
  | EWatchReport p => [p]
  | _ => []
  end.

Lemma step_inv : forall s e, inv s -> inv (step s e).
Proof.
  intros s e H. destruct e as [p eff a|p res|c vals|sd t v|done|p|p|]; cbn [step].
  - rewrite effect_request_unfold. destruct (deniedb s p eff); [exact H|].
    destruct a as [res| |]; cbn zeta; try exact H. apply completion_inv. exact H.
  - unfold inv. cbn [owner]. apply completion_inv. exact H.
  - unfold inv. rewrite spawn_owner, give_all_rids, keys_give_list. exact H.
  - unfold inv. rewrite deliver_owner, give_rids, keys_give_list. exact H.
  - apply results_inv. exact H.
  - unfold inv. cbn [owner]. apply (cleanup_inv s p H).
  - exact H.
  - exact H.
Qed.

Lemma init_inv : inv init.
Proof. unfold inv. cbn. constructor. Qed.

Lemma run_inv : forall h, inv (run h).
Proof.
  intro h. induction h as [|e h IH] using rev_ind; [exact init_inv|].
  rewrite run_snoc. apply step_inv. exact IH.
Qed.

(* the owner of r after one step *)
Lemma step_owner : forall s e r, inv s ->
  lookup r (owner (step s e)) =
  match e with
  | EEffect p eff a =>
      if deniedb s p eff then lookup r (owner s)
      else if memb r (issued_by e) then Some p else lookup r (owner s)
  | EComplete p res => if memb r (issued_by e) then Some p else lookup r (owner s)
  | ESend q t v =>
      if memb r (transferred e) && owner_is q (lookup r (owner s)) then Some t else lookup r (owner s)
  | ESpawn q vals =>
      if memb r (transferred e) && owner_is q (lookup r (owner s)) then Some (next_pid s)
      else lookup r (owner s)
  | EResults _ | EWatchReport _ =>
      match lookup r (owner s) with
      | Some q => if existsb (N.eqb q) (reported e) then None else Some q
      | None => None
      end
  | ETerminate _ | EOther => lookup r (owner s)
  end.
Proof.
  intros s e r Hinv. destruct e as [p eff a|p res|c vals|sd t v|done|p|p|]; cbn [step reported]; try reflexivity.
  - rewrite effect_request_unfold. destruct (deniedb s p eff); [reflexivity|].
    destruct a as [res| |]; cbn zeta; cbn [issued_by memb existsb]; try reflexivity.
    rewrite completion_owner. reflexivity.
  - cbn [owner issued_by]. apply completion_owner.
  - rewrite spawn_owner, give_all_rids. cbn [transferred]. apply lookup_give_list.
  - rewrite deliver_owner, give_rids. cbn [transferred]. apply lookup_give_list.
  - apply lookup_results. exact Hinv.
  - cbn [owner]. change (cleanup s p) with (handle_process_results s [p]). apply lookup_results. exact Hinv.
Qed.

Lemma skipn_app_exact : forall (A : Type) (a l : list A), skipn (length a) (a ++ l) = l.
Proof. intros A a l. induction a as [|x t IH]; cbn [length app skipn]; [reflexivity|exact IH]. Qed.

(* the backend calls made by one step: an execute for a request that is not denied; the closes of
   everything the reported processes own; nothing else *)
Lemma step_calls : forall s e, inv s ->
  log (step s e) = log s ++ new_calls s e /\
  match e with
  | EEffect p eff a => new_calls s e = if deniedb s p eff then [] else [CExec p eff]
  | _ => exists rs, new_calls s e = map CClose rs /\
                    (forall r, In r rs <-> exists p, In p (reported e) /\ lookup r (owner s) = Some p) /\
                    NoDup rs
  end.
Proof.
  intros s e Hinv.
  assert (Hgen : forall l, log (step s e) = log s ++ l -> new_calls s e = l).
  { intros l Hl. unfold new_calls. rewrite Hl. apply skipn_app_exact. }
  assert (Hnone : reported e = [] -> log (step s e) = log s ->
                  log (step s e) = log s ++ new_calls s e /\
                  exists rs, new_calls s e = map CClose rs /\
                    (forall r, In r rs <-> exists p, In p (reported e) /\ lookup r (owner s) = Some p) /\
                    NoDup rs).
  { intros Hr Hl. assert (Hl' : log (step s e) = log s ++ []) by (rewrite app_nil_r; exact Hl).
    rewrite (Hgen _ Hl'). split; [exact Hl'|]. exists []. split; [reflexivity|]. split; [|constructor].
    intro r. rewrite Hr. split; [intros []|intros [p [[] _]]]. }
  destruct e as [p eff a|p res|c vals|sd t v|done|p|p|].
  - assert (Hl : log (step s (EEffect p eff a)) = log s ++ (if deniedb s p eff then [] else [CExec p eff])).
    { cbn [step]. rewrite effect_request_unfold. destruct (deniedb s p eff); [rewrite app_nil_r; reflexivity|].
      destruct a as [res| |]; cbn zeta; try reflexivity. apply completion_log. }
    rewrite (Hgen _ Hl). split; [exact Hl|reflexivity].
  - apply Hnone; [reflexivity|]. cbn [step log]. apply completion_log.
  - apply Hnone; [reflexivity|]. cbn [step]. apply spawn_log.
  - apply Hnone; [reflexivity|]. cbn [step]. apply deliver_log.
  - destruct (results_log done s Hinv) as [rs [Hl [Hrs Hnd]]].
    cbn [step]. rewrite (Hgen _ Hl). split; [exact Hl|]. exists rs. split; [reflexivity|]. split; assumption.
  - destruct (results_log [p] s Hinv) as [rs [Hl [Hrs Hnd]]].
    assert (Hl' : log (step s (EWatchReport p)) = log s ++ map CClose rs) by exact Hl.
    rewrite (Hgen _ Hl'). split; [exact Hl'|]. exists rs. split; [reflexivity|]. split; assumption.
  - apply Hnone; reflexivity.
  - apply Hnone; reflexivity.
Qed.

Lemma log_extends : forall s e, inv s -> log (step s e) = log s ++ new_calls s e.
Proof. intros s e H. exact (proj1 (step_calls s e H)). Qed.

Lemma step_dead : forall s e,
  dead (step s e) = match e with ETerminate p => p :: dead s | _ => dead s end.
Proof.
  intros s e. destruct e as [p eff a|p res|c vals|sd t v|done|p|p|]; cbn [step]; try reflexivity.
  - rewrite effect_request_unfold. destruct (deniedb s p eff); [reflexivity|].
    destruct a as [res| |]; cbn zeta; try reflexivity. rewrite completion_dead. reflexivity.
  - cbn [dead]. rewrite completion_dead. reflexivity.
  - apply spawn_dead.
  - apply deliver_dead.
  - apply results_dead.
Qed.

Lemma dead_iff_terminated : forall h p, In p (dead (run h)) <-> In (ETerminate p) h.
Proof.
  intros h p. induction h as [|e h IH] using rev_ind.
  - cbn. tauto.
  - rewrite run_snoc, step_dead, in_app_iff. cbn [In].
    destruct e; try (rewrite IH; split; [intro H; left; exact H|intros [H|[H|[]]]; [exact H|discriminate H]]).
    cbn [In]. rewrite IH. split.
    + intros [H|H]; [right; left; subst; reflexivity|left; exact H].
    + intros [H|[H|[]]]; [right; exact H|left; injection H as ->; reflexivity].
Qed.

(* ------------------------------------------------------------------ monitors over histories *)

Lemma anyb_snoc : forall bad h s e,
  anyb bad s (h ++ [e]) = anyb bad s h || bad (fold_left step h s) e.
Proof.
  intros bad h. induction h as [|x t IH]; intros s e; cbn [app anyb fold_left].
  - rewrite orb_false_r. reflexivity.
  - rewrite IH, orb_assoc. reflexivity.
Qed.

Lemma anyb_snoc_false : forall bad h e,
  anyb bad init (h ++ [e]) = false -> anyb bad init h = false /\ bad (run h) e = false.
Proof. intros bad h e H. rewrite anyb_snoc in H. apply orb_false_elim in H. exact H. Qed.

Lemma issued_snoc : forall h e, issued (h ++ [e]) = issued h ++ issued_by e.
Proof. intros h e. unfold issued. rewrite flat_map_app. cbn [flat_map]. rewrite app_nil_r. reflexivity. Qed.

(* ------------------------------------------------------------------ single owner *)

Theorem owner_map_is_function : forall h r p q,
  In (r, p) (owner (run h)) -> In (r, q) (owner (run h)) -> p = q.
Proof.
  intros h r p q Hp Hq. pose proof (run_inv h) as Hinv.
  apply (in_lookup _ _ _ Hinv) in Hp. apply (in_lookup _ _ _ Hinv) in Hq. congruence.
Qed.

Lemma memb_rids_carries : forall r v, memb r (rids_of v) = true <-> carries r v.
Proof. intros r v. rewrite memb_in, carries_iff. tauto. Qed.

Lemma memb_flat_carries : forall r vals,
  memb r (flat_map rids_of vals) = true <-> exists v, In v vals /\ carries r v.
Proof.
  intros r vals. rewrite memb_in, in_flat_map. split; intros [v [Hin H]]; exists v; (split; [exact Hin|]);
    apply carries_iff; exact H.
Qed.

Lemma owner_is_true : forall g o, owner_is g o = true <-> o = Some g.
Proof.
  intros g o. unfold owner_is. destruct o as [q|]; [|split; discriminate].
  rewrite N.eqb_eq. split; [intros ->; reflexivity|intro H; injection H as ->; reflexivity].
Qed.

(* a send moves exactly the carried resources that the SENDER owns, to the target *)
Theorem owner_after_send : forall h sender target v r,
  (carries r v -> lookup r (owner (run h)) = Some sender ->
     lookup r (owner (run (h ++ [ESend sender target v]))) = Some target) /\
  (lookup r (owner (run h)) <> Some sender ->
     lookup r (owner (run (h ++ [ESend sender target v]))) = lookup r (owner (run h))) /\
  (~ carries r v -> lookup r (owner (run (h ++ [ESend sender target v]))) = lookup r (owner (run h))).
Proof.
  intros h sd t v r. rewrite run_snoc, (step_owner _ _ _ (run_inv h)). cbn [transferred]. repeat split.
  - intros Hc Ho. apply memb_rids_carries in Hc. rewrite Hc, Ho. cbn [owner_is andb]. rewrite N.eqb_refl. reflexivity.
  - intro Hn. destruct (owner_is sd (lookup r (owner (run h)))) eqn:E.
    + apply owner_is_true in E. contradiction.
    + rewrite andb_false_r. reflexivity.
  - intro Hn. destruct (memb r (rids_of v)) eqn:E; [apply memb_rids_carries in E; contradiction|reflexivity].
Qed.

Theorem owner_after_spawn : forall h caller vals r,
  ((exists v, In v vals /\ carries r v) -> lookup r (owner (run h)) = Some caller ->
     lookup r (owner (run (h ++ [ESpawn caller vals]))) = Some (next_pid (run h))) /\
  (lookup r (owner (run h)) <> Some caller ->
     lookup r (owner (run (h ++ [ESpawn caller vals]))) = lookup r (owner (run h))) /\
  ((forall v, In v vals -> ~ carries r v) ->
     lookup r (owner (run (h ++ [ESpawn caller vals]))) = lookup r (owner (run h))).
Proof.
  intros h c vals r. rewrite run_snoc, (step_owner _ _ _ (run_inv h)). cbn [transferred]. repeat split.
  - intros Hc Ho. apply memb_flat_carries in Hc. rewrite Hc, Ho. cbn [owner_is andb]. rewrite N.eqb_refl. reflexivity.
  - intro Hn. destruct (owner_is c (lookup r (owner (run h)))) eqn:E.
    + apply owner_is_true in E. contradiction.
    + rewrite andb_false_r. reflexivity.
  - intro Hn. destruct (memb r (flat_map rids_of vals)) eqn:E; [|reflexivity].
    apply memb_flat_carries in E. destruct E as [v [Hin Hc]]. exfalso. exact (Hn v Hin Hc).
Qed.

Theorem creator_is_first_owner : forall h p n r,
  lookup r (owner (run (h ++ [EEffect p (Open n) (ANow (Some (VRes r)))]))) = Some p /\
  lookup r (owner (run (h ++ [EComplete p (Some (VRes r))]))) = Some p.
Proof.
  intros h p n r. rewrite !run_snoc, !(step_owner _ _ _ (run_inv h)).
  cbn [deniedb resource_id issued_by result_rid memb existsb]. rewrite N.eqb_refl. split; reflexivity.
Qed.

(* e, handled in state s, makes p the owner of r *)
Definition gives (s : state) (e : event) (p : pid) (r : rid) : Prop :=
  match e with
  | ESend q t v => t = p /\ carries r v /\ lookup r (owner s) = Some q
  | ESpawn q vals => next_pid s = p /\ (exists v, In v vals /\ carries r v) /\ lookup r (owner s) = Some q
  | EEffect q _ _ | EComplete q _ => q = p /\ In r (issued_by e)
  | _ => False
  end.

Lemma step_gives : forall s e p r, inv s ->
  lookup r (owner (step s e)) = Some p -> lookup r (owner s) <> Some p -> gives s e p r.
Proof.
  intros s e p r Hinv Hnew Hold. rewrite (step_owner _ _ _ Hinv) in Hnew.
  destruct e as [q eff a|q res|c vals|sd t v|done|q|q|]; cbn [gives]; try contradiction.
  - destruct (deniedb s q eff); [contradiction|].
    destruct (memb r (issued_by (EEffect q eff a))) eqn:E; [|contradiction].
    apply memb_in in E. injection Hnew as ->. split; [reflexivity|exact E].
  - destruct (memb r (issued_by (EComplete q res))) eqn:E; [|contradiction].
    apply memb_in in E. injection Hnew as ->. split; [reflexivity|exact E].
  - destruct (memb r (transferred (ESpawn c vals)) && owner_is c (lookup r (owner s))) eqn:E; [|contradiction].
    apply andb_true_iff in E. destruct E as [E1 E2]. cbn [transferred] in E1.
    apply memb_flat_carries in E1. apply owner_is_true in E2. injection Hnew as <-. repeat split; assumption.
  - destruct (memb r (transferred (ESend sd t v)) && owner_is sd (lookup r (owner s))) eqn:E; [|contradiction].
    apply andb_true_iff in E. destruct E as [E1 E2]. cbn [transferred] in E1.
    apply memb_rids_carries in E1. apply owner_is_true in E2. injection Hnew as ->. repeat split; assumption.
  - destruct (lookup r (owner s)) as [o|]; [|discriminate].
    destruct (existsb (N.eqb o) (reported (EResults done))); [discriminate|]. contradiction.
  - destruct (lookup r (owner s)) as [o|]; [|discriminate].
    destruct (existsb (N.eqb o) (reported (EWatchReport q))); [discriminate|]. contradiction.
Qed.

Theorem ownership_changes_only_by : forall h e r,
  lookup r (owner (run (h ++ [e]))) <> lookup r (owner (run h)) ->
  match lookup r (owner (run (h ++ [e]))) with
  | Some p => gives (run h) e p r
  | None => exists o, lookup r (owner (run h)) = Some o /\ In o (reported e)
  end.
Proof.
  intros h e r Hne. rewrite run_snoc in *. pose proof (run_inv h) as Hinv.
  destruct (lookup r (owner (step (run h) e))) as [p|] eqn:Enew.
  - apply (step_gives _ _ _ _ Hinv Enew). congruence.
  - rewrite (step_owner _ _ _ Hinv) in Enew.
    destruct e as [q eff a|q res|c vals|sd t v|done|q|q|]; try congruence.
    + destruct (deniedb (run h) q eff); [congruence|].
      destruct (memb r (issued_by (EEffect q eff a))); [discriminate|congruence].
    + destruct (memb r (issued_by (EComplete q res))); [discriminate|congruence].
    + destruct (memb r (transferred (ESpawn c vals)) && owner_is c (lookup r (owner (run h)))); [discriminate|congruence].
    + destruct (memb r (transferred (ESend sd t v)) && owner_is sd (lookup r (owner (run h)))); [discriminate|congruence].
    + destruct (lookup r (owner (run h))) as [o|] eqn:Eo; [|congruence].
      destruct (existsb (N.eqb o) (reported (EResults done))) eqn:Ex; [|congruence].
      apply existsb_eqb_in in Ex. exists o. split; [reflexivity|exact Ex].
    + destruct (lookup r (owner (run h))) as [o|] eqn:Eo; [|congruence].
      destruct (existsb (N.eqb o) (reported (EWatchReport q))) eqn:Ex; [|congruence].
      apply existsb_eqb_in in Ex. exists o. split; [reflexivity|exact Ex].
Qed.

(* F49 (repaired): only its owner can give a resource away — a resource leaves its owner only by
   the owner's own send/spawn, by the owner's cleanup, or by the backend issuing the id again *)
Definition initiates (e : event) (q : pid) (r : rid) : Prop :=
  initiator e = Some q /\ In r (transferred e).

Theorem transfer_only_by_owner : forall h e r o,
  lookup r (owner (run h)) = Some o -> lookup r (owner (run (h ++ [e]))) <> Some o ->
  initiates e o r \/ In o (reported e) \/ In r (issued_by e).
Proof.
  intros h e r o Hold Hnew. rewrite run_snoc, (step_owner _ _ _ (run_inv h)) in Hnew.
  destruct e as [q eff a|q res|c vals|sd t v|done|q|q|]; try congruence.
  - destruct (deniedb (run h) q eff); [congruence|].
    destruct (memb r (issued_by (EEffect q eff a))) eqn:E; [|congruence]. right. right. apply memb_in. exact E.
  - destruct (memb r (issued_by (EComplete q res))) eqn:E; [|congruence]. right. right. apply memb_in. exact E.
  - destruct (memb r (transferred (ESpawn c vals)) && owner_is c (lookup r (owner (run h)))) eqn:E; [|congruence].
    apply andb_true_iff in E. destruct E as [E1 E2]. apply owner_is_true in E2. left.
    assert (o = c) by congruence. subst c. split; [reflexivity|apply memb_in; exact E1].
  - destruct (memb r (transferred (ESend sd t v)) && owner_is sd (lookup r (owner (run h)))) eqn:E; [|congruence].
    apply andb_true_iff in E. destruct E as [E1 E2]. apply owner_is_true in E2. left.
    assert (o = sd) by congruence. subst sd. split; [reflexivity|apply memb_in; exact E1].
  - rewrite Hold in Hnew. destruct (existsb (N.eqb o) (reported (EResults done))) eqn:Ex; [|congruence].
    right. left. apply existsb_eqb_in. exact Ex.
  - rewrite Hold in Hnew. destruct (existsb (N.eqb o) (reported (EWatchReport q))) eqn:Ex; [|congruence].
    right. left. apply existsb_eqb_in. exact Ex.
Qed.

(* ------------------------------------------------------------------ only the owner reaches the backend *)

Lemma exec_in_calls : forall s e p eff, inv s -> In (CExec p eff) (new_calls s e) ->
  exists a, e = EEffect p eff a /\ deniedb s p eff = false.
Proof.
  intros s e p eff Hinv Hin. destruct (step_calls s e Hinv) as [_ Hc].
  destruct e as [q eff' a|q res|c vals|sd t v|done|q|q|];
    try (destruct Hc as [rs [Hc _]]; rewrite Hc in Hin; apply in_map_iff in Hin;
         destruct Hin as [x [Hx _]]; discriminate).
  rewrite Hc in Hin. destruct (deniedb s q eff') eqn:E; [destruct Hin|].
  destruct Hin as [H|[]]. injection H as -> ->. exists a. split; [reflexivity|exact E].
Qed.

Theorem non_owner_never_reaches_backend : forall h e p eff r o,
  In (CExec p eff) (new_calls (run h) e) -> resource_id eff = Some r ->
  lookup r (owner (run h)) = Some o -> o = p.
Proof.
  intros h e p eff r o Hin Hr Ho. destruct (exec_in_calls _ _ _ _ (run_inv h) Hin) as [a [_ Hd]].
  unfold deniedb in Hd. rewrite Hr, Ho in Hd. apply negb_false_iff in Hd. apply N.eqb_eq in Hd. exact Hd.
Qed.

Theorem denied_request_is_inert : forall h p r n a o,
  lookup r (owner (run h)) = Some o -> o <> p ->
  run (h ++ [EEffect p (Op r n) a]) = run h /\ new_calls (run h) (EEffect p (Op r n) a) = [].
Proof.
  intros h p r n a o Ho Hne. rewrite run_snoc.
  assert (Hd : deniedb (run h) p (Op r n) = true).
  { unfold deniedb. cbn [resource_id]. rewrite Ho. apply negb_true_iff. apply N.eqb_neq. exact Hne. }
  split.
  - cbn [step]. rewrite effect_request_unfold, Hd. reflexivity.
  - destruct (step_calls (run h) (EEffect p (Op r n) a) (run_inv h)) as [_ Hc]. rewrite Hc, Hd. reflexivity.
Qed.

Theorem non_owner_never_reaches_backend_strong : forall h e p eff r,
  ~ KnownF47 (h ++ [e]) ->
  In (CExec p eff) (new_calls (run h) e) -> resource_id eff = Some r ->
  lookup r (owner (run h)) = Some p.
Proof.
  intros h e p eff r Hk Hin Hr. destruct (exec_in_calls _ _ _ _ (run_inv h) Hin) as [a [-> Hd]].
  destruct eff as [n|r' n]; [discriminate|]. injection Hr as ->.
  unfold deniedb in Hd. cbn [resource_id] in Hd.
  destruct (lookup r (owner (run h))) as [o|] eqn:Eo.
  - apply negb_false_iff in Hd. apply N.eqb_eq in Hd. subst o. reflexivity.
  - exfalso. apply Hk. unfold KnownF47. rewrite anyb_snoc. apply orb_true_iff. right.
    cbn [stale_useb]. unfold absentb. fold (run h). rewrite Eo. reflexivity.
Qed.

(* ------------------------------------------------------------------ close_resource *)

Lemma close_in_calls : forall s e r, inv s -> In (CClose r) (new_calls s e) ->
  exists p, In p (reported e) /\ lookup r (owner s) = Some p.
Proof.
  intros s e r Hinv Hin. destruct (step_calls s e Hinv) as [_ Hc].
  destruct e as [q eff' a|q res|c vals|sd t v|done|q|q|];
    try (destruct Hc as [rs [Hc [Hrs _]]]; rewrite Hc in Hin; apply in_map_iff in Hin;
         destruct Hin as [x [Hx Hin]]; injection Hx as ->; apply Hrs in Hin; exact Hin).
  rewrite Hc in Hin. destruct (deniedb s q eff'); [destruct Hin|]. destruct Hin as [H|[]]. discriminate.
Qed.

Theorem close_only_in_cleanup_of_owner : forall h e r,
  In (CClose r) (new_calls (run h) e) ->
  exists p, In p (reported e) /\ lookup r (owner (run h)) = Some p.
Proof. intros h e r. apply close_in_calls. apply run_inv. Qed.

Theorem not_closed_while_owner_alive : forall h e r,
  reports_only_terminated (h ++ [e]) -> In (CClose r) (new_calls (run h) e) ->
  exists p, lookup r (owner (run h)) = Some p /\ In p (dead (run h)).
Proof.
  intros h e r Hwf Hin. destruct (close_only_in_cleanup_of_owner h e r Hin) as [p [Hp Hl]].
  exists p. split; [exact Hl|]. apply anyb_snoc_false in Hwf. destruct Hwf as [_ Hok].
  destruct e as [q eff' a|q res|c vals|sd t v|done|q|q|]; try destruct Hp.
  - cbn [early_reportb] in Hok. apply negb_false_iff in Hok. rewrite forallb_forall in Hok.
    apply memb_in. exact (Hok p Hp).
  - cbn [early_reportb] in Hok. apply negb_false_iff in Hok. subst q. apply memb_in. exact Hok.
  - destruct H.
Qed.

Theorem cleanup_closes_everything : forall h e p r,
  In p (reported e) -> lookup r (owner (run h)) = Some p ->
  In (CClose r) (new_calls (run h) e) /\
  forall r', lookup r' (owner (run (h ++ [e]))) <> Some p.
Proof.
  intros h e p r Hp Hl. pose proof (run_inv h) as Hinv. split.
  - destruct (step_calls (run h) e Hinv) as [_ Hc].
    destruct e as [q eff' a|q res|c vals|sd t v|done|q|q|]; try destruct Hp;
      destruct Hc as [rs [Hc [Hrs _]]]; rewrite Hc; apply in_map; apply Hrs; exists p; split; try assumption.
    + left. assumption.
    + destruct H.
  - intro r'. rewrite run_snoc, (step_owner _ _ _ Hinv).
    destruct e as [q eff' a|q res|c vals|sd t v|done|q|q|]; try destruct Hp.
    + destruct (lookup r' (owner (run h))) as [o|]; [|discriminate].
      destruct (existsb (N.eqb o) (reported (EResults done))) eqn:Ex; [discriminate|].
      intro H'. injection H' as ->. cbn [reported] in Ex, Hp. apply existsb_eqb_in in Hp. congruence.
    + subst q. destruct (lookup r' (owner (run h))) as [o|]; [|discriminate].
      destruct (existsb (N.eqb o) (reported (EWatchReport p))) eqn:Ex; [discriminate|].
      intro H'. injection H' as ->. cbn [reported existsb] in Ex. rewrite N.eqb_refl in Ex. discriminate.
    + destruct H.
Qed.

(* ------------------------------------------------------------------ closed at most once *)

Lemma closes_app : forall a b, closes (a ++ b) = closes a ++ closes b.
Proof. intros a b. unfold closes. apply flat_map_app. Qed.

Lemma closes_map_close : forall rs, closes (map CClose rs) = rs.
Proof. intro rs. induction rs as [|r t IH]; cbn; [reflexivity|]. f_equal. exact IH. Qed.

(* what one step adds to the closed ids *)
Lemma step_closes : forall s e, inv s ->
  exists rs, closes (log (step s e)) = closes (log s) ++ rs /\ NoDup rs /\
    forall r, In r rs <-> exists p, In p (reported e) /\ lookup r (owner s) = Some p.
Proof.
  intros s e Hinv. destruct (step_calls s e Hinv) as [Hlog Hc]. rewrite Hlog, closes_app.
  destruct e as [q eff a|q res|c vals|sd t v|done|q|q|];
    try (destruct Hc as [rs [Hc [Hrs Hnd]]]; rewrite Hc, closes_map_close; exists rs;
         split; [reflexivity|]; split; assumption).
  rewrite Hc. exists []. split; [destruct (deniedb s q eff); reflexivity|]. split; [constructor|].
  intro r. split; [intros []|intros [p [[] _]]].
Qed.

Record cinv (I : list rid) (s : state) : Prop := mk_cinv {
  ci_owned : forall r p, lookup r (owner s) = Some p -> In r I;
  ci_closed : forall r, In r (closes (log s)) -> In r I;
  ci_disj : forall r p, lookup r (owner s) = Some p -> ~ In r (closes (log s));
  ci_nodup : NoDup (closes (log s))
}.

(* a binding present after a step was present before, or its id was just issued by the backend
   (a transfer never registers an id that is absent from the map) *)
Lemma step_owner_dom : forall s e r p, inv s ->
  lookup r (owner (step s e)) = Some p -> lookup r (owner s) <> None \/ In r (issued_by e).
Proof.
  intros s e r p Hinv Hnew.
  destruct (lookup r (owner s)) as [o|] eqn:Eo; [left; discriminate|].
  assert (Hg : lookup r (owner s) <> Some p) by congruence.
  pose proof (step_gives s e p r Hinv Hnew Hg) as G.
  destruct e as [q eff a|q res|c vals|sd t v|done|q|q|]; cbn [gives] in G; try contradiction.
  - right. exact (proj2 G).
  - right. exact (proj2 G).
  - destruct G as [_ [_ G]]. congruence.
  - destruct G as [_ [_ G]]. congruence.
Qed.

Lemma issued_no_report : forall e r, In r (issued_by e) -> reported e = [].
Proof. intros e r H. destruct e; try reflexivity; destruct H. Qed.

Lemma cinv_step : forall I s e, inv s -> cinv I s -> NoDup (I ++ issued_by e) ->
  cinv (I ++ issued_by e) (step s e).
Proof.
  intros I s e Hinv [Hown Hcl Hdisj Hnd] Hfresh.
  destruct (step_closes s e Hinv) as [rs [Hcs [Hrsnd Hrs]]].
  assert (Hfr : forall r, In r (issued_by e) -> ~ In r I).
  { intros r Hr HI. clear - Hfresh Hr HI. induction I as [|x t IH]; [destruct HI|].
    cbn [app] in Hfresh. inversion Hfresh as [|? ? Hn Hf]; subst. destruct HI as [->|HI].
    - apply Hn. apply in_or_app. right. exact Hr.
    - exact (IH Hf HI). }
  constructor.
  - intros r p Hl. apply in_or_app.
    destruct (step_owner_dom s e r p Hinv Hl) as [H|H]; [|right; exact H].
    left. destruct (lookup r (owner s)) as [o|] eqn:E; [exact (Hown r o E)|congruence].
  - intros r Hr. rewrite Hcs in Hr. apply in_or_app. left. apply in_app_or in Hr. destruct Hr as [Hr|Hr].
    + exact (Hcl r Hr).
    + apply Hrs in Hr. destruct Hr as [p [_ Hl]]. exact (Hown r p Hl).
  - intros r p Hl Hr. rewrite Hcs in Hr. apply in_app_or in Hr.
    destruct (step_owner_dom s e r p Hinv Hl) as [H|H].
    + destruct (lookup r (owner s)) as [o|] eqn:E; [|congruence]. destruct Hr as [Hr|Hr].
      * exact (Hdisj r o E Hr).
      * apply Hrs in Hr. destruct Hr as [q [Hq Hlq]].
        rewrite (step_owner _ _ _ Hinv) in Hl. apply existsb_eqb_in in Hq.
        destruct e as [q' eff a|q' res|c vals|sd t v|done|q'|q'|]; try (cbn [reported existsb] in Hq; discriminate);
          rewrite Hlq, Hq in Hl; discriminate.
    + destruct Hr as [Hr|Hr].
      * exact (Hfr r H (Hcl r Hr)).
      * apply Hrs in Hr. destruct Hr as [q [Hq _]]. rewrite (issued_no_report e r H) in Hq. destruct Hq.
  - rewrite Hcs. apply nodup_app; [exact Hnd|exact Hrsnd|]. intros r H1 H2.
    apply Hrs in H2. destruct H2 as [q [_ Hl]]. exact (Hdisj r q Hl H1).
Qed.

Lemma nodup_app_l : forall (a b : list rid), NoDup (a ++ b) -> NoDup a.
Proof.
  intros a b. induction a as [|x t IH]; cbn [app]; intro H; [constructor|].
  inversion H as [|? ? Hn Hd]; subst. constructor; [|exact (IH Hd)].
  intro Hx. apply Hn. apply in_or_app. left. exact Hx.
Qed.

Lemma reachable_cinv : forall h, backend_fresh h -> cinv (issued h) (run h).
Proof.
  intro h. induction h as [|e h IH] using rev_ind; intros Hf.
  - constructor; cbn; try (intros; discriminate); try (intros ? []); constructor.
  - unfold backend_fresh in Hf. rewrite issued_snoc in *. rewrite run_snoc.
    apply cinv_step; [apply run_inv| |exact Hf]. apply IH. exact (nodup_app_l _ _ Hf).
Qed.

Theorem closed_at_most_once : forall h, backend_fresh h -> NoDup (closes (log (run h))).
Proof. intros h Hf. exact (ci_nodup _ _ (reachable_cinv h Hf)). Qed.

(* ------------------------------------------------------------------ closed after termination
   F10 (repaired): whoever owns a resource is watched, so the environment hears of its termination *)

Definition owners_watched (s : state) : Prop :=
  forall r p, lookup r (owner s) = Some p -> In p (watched s).

Lemma in_remove_pid_neq : forall p q l, q <> p -> In q l -> In q (remove_pid p l).
Proof.
  intros p q l Hne. induction l as [|x t IH]; cbn [remove_pid In]; [tauto|].
  intros [->|H].
  - destruct (N.eqb p q) eqn:E; [apply N.eqb_eq in E; congruence|left; reflexivity].
  - destruct (N.eqb p x); [exact H|right; exact (IH H)].
Qed.

Lemma results_watched : forall done s, watched (handle_process_results s done) = watched s.
Proof.
  intros done. induction done as [|p t IH]; intro s; cbn [handle_process_results fold_left]; [reflexivity|].
  unfold handle_process_results in IH. rewrite IH. reflexivity.
Qed.

Lemma gives_any_intro : forall g vals m r,
  In r (flat_map rids_of vals) -> lookup r m = Some g -> gives_any g vals m = true.
Proof.
  intros g vals m r Hin Hl. unfold gives_any. apply existsb_exists. exists r. split; [exact Hin|].
  rewrite Hl. cbn [owner_is]. apply N.eqb_refl.
Qed.

Lemma step_owners_watched : forall s e, inv s -> owners_watched s -> owners_watched (step s e).
Proof.
  intros s e Hinv Hw r p Hl.
  destruct e as [q eff a|q res|c vals|sd t v|done|q|q|].
  - cbn [step] in *. rewrite effect_request_unfold in *. destruct (deniedb s q eff); [exact (Hw r p Hl)|].
    destruct a as [res| |]; cbn zeta in *; try exact (Hw r p Hl).
    rewrite completion_owner in Hl. rewrite completion_watched. cbn [owner watched] in *.
    destruct res as [[r'| | |]|]; cbn [result_rid memb existsb map orb] in *; try exact (Hw r p Hl).
    rewrite N.eqb_refl. destruct (N.eqb r r'); [injection Hl as <-; left; reflexivity|right; exact (Hw r p Hl)].
  - cbn [step owner watched] in *. rewrite completion_owner in Hl. rewrite completion_watched.
    destruct res as [[r'| | |]|]; cbn [result_rid memb existsb map orb] in *; try exact (Hw r p Hl).
    rewrite N.eqb_refl. destruct (N.eqb r r'); [injection Hl as <-; left; reflexivity|right; exact (Hw r p Hl)].
  - pose proof Hl as Hl'. rewrite (step_owner _ _ _ Hinv) in Hl'. cbn [step]. unfold handle_spawn.
    destruct (memb r (transferred (ESpawn c vals)) && owner_is c (lookup r (owner s))) eqn:E.
    + apply andb_true_iff in E. destruct E as [E1 E2]. apply memb_in in E1. apply owner_is_true in E2.
      cbn [transferred] in E1. rewrite (gives_any_intro c vals (owner s) r E1 E2).
      injection Hl' as <-. left. reflexivity.
    + destruct (gives_any c vals (owner s)); cbn [watched watch]; [right|]; exact (Hw r p Hl').
  - pose proof Hl as Hl'. rewrite (step_owner _ _ _ Hinv) in Hl'. cbn [step]. unfold handle_deliver.
    destruct (memb r (transferred (ESend sd t v)) && owner_is sd (lookup r (owner s))) eqn:E.
    + apply andb_true_iff in E. destruct E as [E1 E2]. apply memb_in in E1. apply owner_is_true in E2.
      cbn [transferred] in E1.
      assert (E1' : In r (flat_map rids_of [v])) by (cbn [flat_map]; rewrite app_nil_r; exact E1).
      rewrite (gives_any_intro sd [v] (owner s) r E1' E2). injection Hl' as <-. left. reflexivity.
    + destruct (gives_any sd [v] (owner s)); cbn [watched watch]; [right|]; exact (Hw r p Hl').
  - rewrite (step_owner _ _ _ Hinv) in Hl. cbn [step]. rewrite results_watched.
    destruct (lookup r (owner s)) as [o|] eqn:Eo; [|discriminate].
    destruct (existsb (N.eqb o) (reported (EResults done))); [discriminate|]. injection Hl as <-. exact (Hw r o Eo).
  - rewrite (step_owner _ _ _ Hinv) in Hl. cbn [step watched].
    destruct (lookup r (owner s)) as [o|] eqn:Eo; [|discriminate].
    destruct (existsb (N.eqb o) (reported (EWatchReport q))) eqn:Ex; [discriminate|]. injection Hl as <-.
    cbn [reported existsb] in Ex. rewrite orb_false_r in Ex. apply N.eqb_neq in Ex.
    apply in_remove_pid_neq; [exact Ex|]. exact (Hw r o Eo).
  - exact (Hw r p Hl).
  - exact (Hw r p Hl).
Qed.

Theorem owners_are_watched : forall h r p,
  lookup r (owner (run h)) = Some p -> In p (watched (run h)).
Proof.
  intro h. induction h as [|e h IH] using rev_ind.
  - intros r p H. cbn in H. discriminate.
  - rewrite run_snoc. apply step_owners_watched; [apply run_inv|exact IH].
Qed.

(* safety form of "every resource owned at termination is eventually closed": in a quiescent state
   (no completion outstanding, no watched process terminated and unreported) no resource is owned by
   a terminated process *)
Theorem closed_after_termination : forall h p r,
  quiescent (run h) -> In p (dead (run h)) -> lookup r (owner (run h)) <> Some p.
Proof.
  intros h p r [_ Hq] Hd Hl. exact (Hq p (owners_are_watched h r p Hl) Hd).
Qed.

(* ------------------------------------------------------------------ witnesses and probes
   Each history is the event sequence of a run of the REAL environment (harness qv_own) on the
   Quiver program quoted above it. *)

(* `b = @{ !#'m { =H[_] => Ok } }, r = 0 __res_open__, H[r] b, !b, [r, 0] __res_use__` :
   the stale id 1 reaches backend.execute (F47, known) *)
Definition witness_F47 : list event :=
  [ESpawn 0 [VTuple []]; EEffect 0 (Open 0) (ANow (Some (VRes 1))); ESend 0 1 (VTuple [VRes 1]);
   ETerminate 1; EOther; EResults [1]].

Theorem non_owner_never_reaches_backend_unconditional_refuted :
  exists h e p eff r, reports_only_terminated (h ++ [e]) /\
    In (CExec p eff) (new_calls (run h) e) /\ resource_id eff = Some r /\
    lookup r (owner (run h)) <> Some p /\ KnownF47 (h ++ [e]).
Proof.
  exists witness_F47, (EEffect 0 (Op 1 0) AFail), 0, (Op 1 0), 1. repeat split; try reflexivity.
  - vm_compute. left. reflexivity.
  - vm_compute. discriminate.
Qed.

(* F10 (repaired): `p = @{ 0 __res_open__ =r, [r, 0] __res_use__ }, 5` : p is never awaited; it is
   watched from the moment it owns r, and its termination report closes r *)
Definition probe_F10 : list event :=
  [ESpawn 0 [VTuple []]; EEffect 1 (Open 0) (ANow (Some (VRes 1)));
   EEffect 1 (Op 1 0) (ANow (Some VOther)); ETerminate 1; EOther; EWatchReport 1].

Example unawaited_owner_is_cleaned_up :
  reports_only_terminated probe_F10 /\ backend_fresh probe_F10 /\ quiescent (run probe_F10) /\
  In 1 (dead (run probe_F10)) /\ owner (run probe_F10) = [] /\ closes (log (run probe_F10)) = [1] /\
  ~ quiescent (run (firstn 5 probe_F10)).
Proof.
  repeat split; try reflexivity.
  - unfold backend_fresh. vm_compute. constructor; [intros []|constructor].
  - vm_compute. intros p [].
  - vm_compute. left. reflexivity.
  - intros [_ H]. apply (H 1); vm_compute; left; reflexivity.
Qed.

(* F48 (repaired): `b = @{..}, c = @{..}, r = 0 __res_open__, H[r] b, !b, H[r] c, !c` :
   the stale handle sent to c is not registered again; closed once *)
Definition probe_F48 : list event :=
  [ESpawn 0 [VTuple []]; ESpawn 0 [VTuple []]; EEffect 0 (Open 0) (ANow (Some (VRes 1)));
   ESend 0 1 (VTuple [VRes 1]); ETerminate 1; EOther; EResults [1];
   ESend 0 2 (VTuple [VRes 1]); EOther; ETerminate 2; EResults []; EResults [2]; EWatchReport 1].

Example stale_handle_resent_closed_once :
  reports_only_terminated probe_F48 /\ backend_fresh probe_F48 /\
  anyb stale_transferb init probe_F48 = true /\ closes (log (run probe_F48)) = [1].
Proof.
  repeat split; try reflexivity. unfold backend_fresh. vm_compute. constructor; [intros []|constructor].
Qed.

(* F49 (repaired): process 0 gave resource 1 to process 1 and then sends its stale copy to 2:
   ownership stays with 1 *)
Definition probe_F49 : list event :=
  [ESpawn 0 [VTuple []]; ESpawn 0 [VTuple []]; EEffect 0 (Open 0) (ANow (Some (VRes 1)));
   ESend 0 1 (VTuple [VRes 1]); EEffect 1 (Op 1 0) (ANow (Some VOther)); ESend 0 2 (VTuple [VRes 1])].

Example non_owner_send_moves_nothing :
  lookup 1 (owner (run (firstn 5 probe_F49))) = Some 1 /\ lookup 1 (owner (run probe_F49)) = Some 1 /\
  new_calls (run probe_F49) (EEffect 2 (Op 1 0) AFail) = [] /\
  new_calls (run probe_F49) (EEffect 1 (Op 1 4) (ANow (Some VOther))) = [CExec 1 (Op 1 4)].
Proof. repeat split; reflexivity. Qed.

(* ------------------------------------------------------------------ non-vacuity *)

(* three processes, a handle nested in a closure inside a tuple, transferred twice, its last owner
   reported by a watch and by an await: all hypotheses hold, and the resource is closed once *)
Definition good_history : list event :=
  [ESpawn 0 [VTuple []]; EEffect 0 (Open 1) AAsync; EComplete 0 (Some (VRes 1));
   ESend 0 1 (VTuple [VTuple [VFun [VRes 1]; VOther]]);
   EEffect 1 (Op 1 0) (ANow (Some VOther)); EEffect 0 (Op 1 4) AFail;
   ESpawn 1 [VFun [VRes 1]; VTuple []]; ETerminate 1; EWatchReport 1;
   EEffect 2 (Op 1 0) (ANow (Some VOther));
   ETerminate 2; EResults [2]; EResults [1]; EWatchReport 2].

Example good_history_meets_all_hypotheses :
  reports_only_terminated good_history /\ backend_fresh good_history /\
  ~ KnownF47 good_history /\ quiescent (run good_history) /\ In 2 (dead (run good_history)) /\
  closes (log (run good_history)) = [1] /\
  log (run good_history) = [CExec 0 (Open 1); CExec 1 (Op 1 0); CExec 2 (Op 1 0); CClose 1].
Proof.
  repeat split; try reflexivity.
  - unfold backend_fresh. vm_compute. constructor; [intros []|constructor].
  - vm_compute. discriminate.
  - vm_compute. intros p [H|[]]. subst p. intros [H|[H|[]]]; discriminate.
  - vm_compute. left. reflexivity.
Qed.

Example good_history_has_denied_use :
  exists h1 h2, good_history = h1 ++ EEffect 0 (Op 1 4) AFail :: h2 /\
                lookup 1 (owner (run h1)) = Some 1 /\ new_calls (run h1) (EEffect 0 (Op 1 4) AFail) = [].
Proof.
  exists (firstn 5 good_history), (skipn 6 good_history). repeat split; reflexivity.
Qed.

Lemma run_log_extends : forall h e, log (run (h ++ [e])) = log (run h) ++ new_calls (run h) e.
Proof. intros h e. rewrite run_snoc. apply log_extends. apply run_inv. Qed.
