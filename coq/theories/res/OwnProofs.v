(* C14 — proofs about the ownership automaton res/Own.v. *)
From Coq Require Import List NArith Bool Lia.
From Quiver Require Import res.Own.
Import ListNotations.
Open Scope N_scope.

(* ------------------------------------------------------------------ generalities *)

Lemma run_snoc : forall h e, run (h ++ [e]) = step (run h) e.
Proof. intros h e. unfold run. rewrite fold_left_app. reflexivity. Qed.

Lemma run_app : forall h1 h2, run (h1 ++ h2) = fold_left step h2 (run h1).
Proof. intros h1 h2. unfold run. apply fold_left_app. Qed.

Definition keys (m : omap) : list rid := map fst m.

Lemma eqb_refl' : forall r, N.eqb r r = true.
Proof. intro r. apply N.eqb_refl. Qed.

Lemma lookup_insert_eq : forall r p m, lookup r (insert r p m) = Some p.
Proof.
  intros r p m. induction m as [|[r' q] t IH]; cbn [insert lookup].
  - rewrite N.eqb_refl. reflexivity.
  - destruct (N.eqb r r') eqn:E; cbn [lookup]; rewrite E; [reflexivity|exact IH].
Qed.

Lemma lookup_insert_neq : forall r r' p m, r <> r' -> lookup r (insert r' p m) = lookup r m.
Proof.
  intros r r' p m Hne. induction m as [|[k q] t IH]; cbn [insert lookup].
  - destruct (N.eqb r r') eqn:E; [apply N.eqb_eq in E; contradiction|reflexivity].
  - destruct (N.eqb r' k) eqn:E1; cbn [lookup].
    + apply N.eqb_eq in E1. subst k.
      destruct (N.eqb r r') eqn:E; [apply N.eqb_eq in E; contradiction|reflexivity].
    + destruct (N.eqb r k); [reflexivity|exact IH].
Qed.

Lemma lookup_remove_eq : forall r m, lookup r (remove r m) = None.
Proof.
  intros r m. induction m as [|[k q] t IH]; cbn [remove lookup]; [reflexivity|].
  destruct (N.eqb r k) eqn:E; [exact IH|]. cbn [lookup]. rewrite E. exact IH.
Qed.

Lemma lookup_remove_neq : forall r r' m, r <> r' -> lookup r (remove r' m) = lookup r m.
Proof.
  intros r r' m Hne. induction m as [|[k q] t IH]; cbn [remove lookup]; [reflexivity|].
  destruct (N.eqb r' k) eqn:E1.
  - apply N.eqb_eq in E1. subst k.
    destruct (N.eqb r r') eqn:E; [apply N.eqb_eq in E; contradiction|exact IH].
  - cbn [lookup]. destruct (N.eqb r k); [reflexivity|exact IH].
Qed.

Lemma lookup_in_keys : forall r m, lookup r m <> None <-> In r (keys m).
Proof.
  intros r m. induction m as [|[k q] t IH]; cbn [lookup keys map fst In].
  - split; [intro H; contradiction|intros []].
  - destruct (N.eqb r k) eqn:E.
    + apply N.eqb_eq in E. subst k. split; [intros _; left; reflexivity|intros _; discriminate].
    + apply N.eqb_neq in E. rewrite IH. split; [intro H; right; exact H|intros [H|H]; [congruence|exact H]].
Qed.

Lemma lookup_none_keys : forall r m, lookup r m = None <-> ~ In r (keys m).
Proof.
  intros r m. rewrite <- lookup_in_keys. destruct (lookup r m) as [p|].
  - split; [discriminate|]. intro H. exfalso. apply H. discriminate.
  - split; [intros _ H; apply H; reflexivity|reflexivity].
Qed.

Lemma lookup_some_in : forall r p m, lookup r m = Some p -> In (r, p) m.
Proof.
  intros r p m. induction m as [|[k q] t IH]; cbn [lookup]; [discriminate|].
  destruct (N.eqb r k) eqn:E.
  - apply N.eqb_eq in E. subst k. intro H. injection H as ->. left. reflexivity.
  - intro H. right. exact (IH H).
Qed.

Lemma in_lookup : forall r p m, NoDup (keys m) -> In (r, p) m -> lookup r m = Some p.
Proof.
  intros r p m. induction m as [|[k q] t IH]; cbn [keys map fst]; intros Hnd Hin; [destruct Hin|].
  inversion Hnd as [|? ? Hnotin Hnd']; subst. cbn [lookup]. destruct Hin as [Heq|Hin].
  - injection Heq as -> ->. rewrite N.eqb_refl. reflexivity.
  - destruct (N.eqb r k) eqn:E.
    + apply N.eqb_eq in E. subst k. exfalso. apply Hnotin.
      change (In (fst (r, p)) (map fst t)). apply in_map. exact Hin.
    + exact (IH Hnd' Hin).
Qed.

Lemma keys_insert : forall r p m x, In x (keys (insert r p m)) <-> x = r \/ In x (keys m).
Proof.
  intros r p m x. induction m as [|[k q] t IH]; cbn [insert keys map fst In].
  - split; [intros [H|[]]; left; congruence|intros [H|[]]; left; congruence].
  - destruct (N.eqb r k) eqn:E; cbn [keys map fst In].
    + apply N.eqb_eq in E. subst k. split; [intros [H|H]; [left; congruence|right; right; exact H]|
        intros [H|[H|H]]; [left; congruence|left; exact H|right; exact H]].
    + fold (keys (insert r p t)). fold (keys t). rewrite IH. tauto.
Qed.

Lemma nodup_insert : forall r p m, NoDup (keys m) -> NoDup (keys (insert r p m)).
Proof.
  intros r p m. induction m as [|[k q] t IH]; cbn [insert keys map fst]; intro Hnd.
  - constructor; [intros []|constructor].
  - destruct (N.eqb r k) eqn:E; cbn [keys map fst]; [exact Hnd|].
    inversion Hnd as [|? ? Hnotin Hnd']; subst. constructor.
    + fold (keys (insert r p t)). rewrite keys_insert. intros [H|H].
      * subst k. rewrite N.eqb_refl in E. discriminate.
      * exact (Hnotin H).
    + exact (IH Hnd').
Qed.

Lemma keys_remove_incl : forall r m x, In x (keys (remove r m)) -> In x (keys m).
Proof.
  intros r m x. induction m as [|[k q] t IH]; cbn [remove keys map fst In]; [intros []|].
  destruct (N.eqb r k); cbn [keys map fst In].
  - intro H. right. exact (IH H).
  - intros [H|H]; [left; exact H|right; exact (IH H)].
Qed.

Lemma nodup_remove : forall r m, NoDup (keys m) -> NoDup (keys (remove r m)).
Proof.
  intros r m. induction m as [|[k q] t IH]; cbn [remove keys map fst]; intro Hnd; [constructor|].
  inversion Hnd as [|? ? Hnotin Hnd']; subst.
  destruct (N.eqb r k); cbn [keys map fst]; [exact (IH Hnd')|].
  constructor; [|exact (IH Hnd')]. intro H. apply Hnotin. exact (keys_remove_incl _ _ _ H).
Qed.

(* ------------------------------------------------------------------ values *)

Section ValInd.
  Variable P : val -> Prop.
  Hypothesis Hres : forall r, P (VRes r).
  Hypothesis Htup : forall fs, Forall P fs -> P (VTuple fs).
  Hypothesis Hfun : forall cs, Forall P cs -> P (VFun cs).
  Hypothesis Hoth : P VOther.
  Fixpoint val_ind' (v : val) : P v :=
    match v with
    | VRes r => Hres r
    | VTuple fs => Htup fs ((fix go (l : list val) : Forall P l :=
                               match l with [] => Forall_nil P | x :: t => Forall_cons x (val_ind' x) (go t) end) fs)
    | VFun cs => Hfun cs ((fix go (l : list val) : Forall P l :=
                             match l with [] => Forall_nil P | x :: t => Forall_cons x (val_ind' x) (go t) end) cs)
    | VOther => Hoth
    end.
End ValInd.

(* r occurs in v at some depth, below tuples and closures *)
Inductive carries (r : rid) : val -> Prop :=
| carries_res : carries r (VRes r)
| carries_tuple : forall fs f, In f fs -> carries r f -> carries r (VTuple fs)
| carries_fun : forall cs c, In c cs -> carries r c -> carries r (VFun cs).

Lemma carries_iff : forall r v, carries r v <-> In r (rids_of v).
Proof.
  intros r v. induction v as [r'|fs IH|cs IH|] using val_ind'; cbn [rids_of].
  - split; [intro H; inversion H; left; reflexivity|intros [H|[]]; subst; constructor].
  - rewrite in_flat_map. split.
    + intro H. inversion H as [|? f Hin Hc|]; subst. exists f. split; [exact Hin|].
      rewrite Forall_forall in IH. apply (IH f Hin). exact Hc.
    + intros [f [Hin Hr]]. apply carries_tuple with f; [exact Hin|].
      rewrite Forall_forall in IH. apply (IH f Hin). exact Hr.
  - rewrite in_flat_map. split.
    + intro H. inversion H as [| |? c Hin Hc]; subst. exists c. split; [exact Hin|].
      rewrite Forall_forall in IH. apply (IH c Hin). exact Hc.
    + intros [c [Hin Hr]]. apply carries_fun with c; [exact Hin|].
      rewrite Forall_forall in IH. apply (IH c Hin). exact Hr.
  - split; [intro H; inversion H|intros []].
Qed.

Definition insert_all (rs : list rid) (p : pid) (m : omap) : omap :=
  fold_left (fun m r => insert r p m) rs m.

Lemma transfer_rids : forall v p m, transfer v p m = insert_all (rids_of v) p m.
Proof.
  intros v p. induction v as [r|fs IH|cs IH|] using val_ind'; intro m; cbn [transfer rids_of]; try reflexivity.
  - revert m. induction fs as [|f t IHt]; intro m; cbn [fold_left flat_map]; [reflexivity|].
    inversion IH as [|? ? Hf Ht]; subst. unfold insert_all. rewrite fold_left_app.
    fold (insert_all (rids_of f) p m). rewrite <- Hf. exact (IHt Ht _).
  - revert m. induction cs as [|c t IHt]; intro m; cbn [fold_left flat_map]; [reflexivity|].
    inversion IH as [|? ? Hc Ht]; subst. unfold insert_all. rewrite fold_left_app.
    fold (insert_all (rids_of c) p m). rewrite <- Hc. exact (IHt Ht _).
Qed.

Lemma transfer_all_rids : forall vs p m, transfer_all vs p m = insert_all (flat_map rids_of vs) p m.
Proof.
  intros vs p. induction vs as [|v t IH]; intro m; cbn [transfer_all fold_left flat_map]; [reflexivity|].
  unfold insert_all. rewrite fold_left_app. fold (insert_all (rids_of v) p m).
  rewrite <- transfer_rids. exact (IH _).
Qed.

Lemma lookup_insert_all_notin : forall rs p m r, ~ In r rs -> lookup r (insert_all rs p m) = lookup r m.
Proof.
  intros rs p. induction rs as [|a t IH]; intros m r Hn; cbn [insert_all fold_left]; [reflexivity|].
  fold (insert_all t p (insert a p m)). rewrite IH by (intro H; apply Hn; right; exact H).
  apply lookup_insert_neq. intro H. apply Hn. left. symmetry. exact H.
Qed.

Lemma lookup_insert_all_in : forall rs p m r, In r rs -> lookup r (insert_all rs p m) = Some p.
Proof.
  intros rs p. induction rs as [|a t IH]; intros m r Hin; [destruct Hin|].
  cbn [insert_all fold_left]. fold (insert_all t p (insert a p m)).
  destruct (in_dec N.eq_dec r t) as [Ht|Ht]; [exact (IH _ _ Ht)|].
  rewrite lookup_insert_all_notin by exact Ht.
  destruct Hin as [->|Hin]; [apply lookup_insert_eq|contradiction].
Qed.

Lemma nodup_insert_all : forall rs p m, NoDup (keys m) -> NoDup (keys (insert_all rs p m)).
Proof.
  intros rs p. induction rs as [|a t IH]; intros m H; cbn [insert_all fold_left]; [exact H|].
  apply IH. apply nodup_insert. exact H.
Qed.

Lemma keys_insert_all : forall rs p m x, In x (keys (insert_all rs p m)) <-> In x rs \/ In x (keys m).
Proof.
  intros rs p. induction rs as [|a t IH]; intros m x; cbn [insert_all fold_left In]; [tauto|].
  fold (insert_all t p (insert a p m)). rewrite IH, keys_insert. intuition congruence.
Qed.

(* ------------------------------------------------------------------ cleanup *)

Definition remove_all (rs : list rid) (m : omap) : omap := fold_left (fun m r => remove r m) rs m.

Lemma lookup_remove_none : forall a m r, lookup r m = None -> lookup r (remove a m) = None.
Proof.
  intros a m r H. destruct (N.eq_dec r a) as [->|Hne]; [apply lookup_remove_eq|].
  rewrite lookup_remove_neq by exact Hne. exact H.
Qed.

Lemma lookup_remove_all_none : forall rs m r, lookup r m = None -> lookup r (remove_all rs m) = None.
Proof.
  intros rs. induction rs as [|a t IH]; intros m r H; cbn [remove_all fold_left]; [exact H|].
  apply IH. apply lookup_remove_none. exact H.
Qed.

Lemma lookup_remove_all_in : forall rs m r, In r rs -> lookup r (remove_all rs m) = None.
Proof.
  intros rs. induction rs as [|a t IH]; intros m r Hin; [destruct Hin|].
  cbn [remove_all fold_left]. destruct Hin as [->|Hin].
  - apply lookup_remove_all_none. apply lookup_remove_eq.
  - exact (IH _ _ Hin).
Qed.

Lemma nodup_app : forall (l1 l2 : list rid), NoDup l1 -> NoDup l2 ->
  (forall x, In x l1 -> In x l2 -> False) -> NoDup (l1 ++ l2).
Proof.
  intros l1. induction l1 as [|a t IH]; intros l2 H1 H2 Hd; cbn [app]; [exact H2|].
  inversion H1 as [|? ? Hn H1']; subst. constructor.
  - rewrite in_app_iff. intros [H|H]; [exact (Hn H)|]. exact (Hd a (or_introl eq_refl) H).
  - apply IH; [exact H1'|exact H2|]. intros x Hx1 Hx2. exact (Hd x (or_intror Hx1) Hx2).
Qed.

Lemma lookup_remove_all_notin : forall rs m r, ~ In r rs -> lookup r (remove_all rs m) = lookup r m.
Proof.
  intros rs. induction rs as [|a t IH]; intros m r Hn; cbn [remove_all fold_left]; [reflexivity|].
  fold (remove_all t (remove a m)). rewrite IH by (intro H; apply Hn; right; exact H).
  apply lookup_remove_neq. intro H. apply Hn. left. symmetry. exact H.
Qed.

Lemma nodup_remove_all : forall rs m, NoDup (keys m) -> NoDup (keys (remove_all rs m)).
Proof.
  intros rs. induction rs as [|a t IH]; intros m H; cbn [remove_all fold_left]; [exact H|].
  apply IH. apply nodup_remove. exact H.
Qed.

Lemma in_owned_by : forall p m r, In r (owned_by p m) <-> In (r, p) m.
Proof.
  intros p m r. unfold owned_by. rewrite in_map_iff. split.
  - intros [[r' q] [Hfst Hin]]. cbn [fst] in Hfst. subst r'. apply filter_In in Hin.
    destruct Hin as [Hin Heq]. cbn [snd] in Heq. apply N.eqb_eq in Heq. subst q. exact Hin.
  - intro Hin. exists (r, p). split; [reflexivity|]. apply filter_In. split; [exact Hin|].
    cbn [snd]. apply N.eqb_refl.
Qed.

Lemma owned_by_lookup : forall p m r, NoDup (keys m) -> (In r (owned_by p m) <-> lookup r m = Some p).
Proof.
  intros p m r Hnd. rewrite in_owned_by. split; [apply in_lookup; exact Hnd|apply lookup_some_in].
Qed.

Lemma nodup_owned_by : forall p m, NoDup (keys m) -> NoDup (owned_by p m).
Proof.
  intros p m. unfold owned_by, keys. induction m as [|[k q] t IH]; cbn [map fst filter snd]; intro Hnd; [constructor|].
  inversion Hnd as [|? ? Hnotin Hnd']; subst. destruct (N.eqb q p); cbn [map fst]; [|exact (IH Hnd')].
  constructor; [|exact (IH Hnd')]. intro H. apply Hnotin. apply in_map_iff in H.
  destruct H as [x [Hx Hin]]. apply filter_In in Hin. destruct Hin as [Hin _].
  apply in_map_iff. exists x. split; [exact Hx|exact Hin].
Qed.

Definition inv (s : state) : Prop := NoDup (keys (owner s)).

Lemma cleanup_owner : forall s p, owner (cleanup s p) = remove_all (owned_by p (owner s)) (owner s).
Proof. reflexivity. Qed.

Lemma cleanup_log : forall s p, log (cleanup s p) = log s ++ map CClose (owned_by p (owner s)).
Proof. reflexivity. Qed.

Lemma cleanup_inv : forall s p, inv s -> inv (cleanup s p).
Proof. intros s p H. unfold inv. rewrite cleanup_owner. apply nodup_remove_all. exact H. Qed.

(* cleanup of p: p owns nothing afterwards, every other binding is untouched *)
Lemma lookup_cleanup : forall s p r, inv s ->
  lookup r (owner (cleanup s p)) = match lookup r (owner s) with
                                   | Some q => if N.eqb q p then None else Some q
                                   | None => None
                                   end.
Proof.
  intros s p r Hinv. rewrite cleanup_owner.
  destruct (in_dec N.eq_dec r (owned_by p (owner s))) as [Hin|Hn].
  - rewrite lookup_remove_all_in by exact Hin. apply (owned_by_lookup _ _ _ Hinv) in Hin.
    rewrite Hin, N.eqb_refl. reflexivity.
  - rewrite lookup_remove_all_notin by exact Hn. destruct (lookup r (owner s)) as [q|] eqn:E; [|reflexivity].
    destruct (N.eqb q p) eqn:Eq; [|reflexivity]. apply N.eqb_eq in Eq. subst q.
    exfalso. apply Hn. apply (owned_by_lookup _ _ _ Hinv). exact E.
Qed.

Lemma results_inv : forall done s, inv s -> inv (handle_process_results s done).
Proof.
  intros done. induction done as [|p t IH]; intros s H; cbn [handle_process_results fold_left]; [exact H|].
  apply IH. apply cleanup_inv. exact H.
Qed.

Lemma results_dead : forall done s, dead (handle_process_results s done) = dead s.
Proof.
  intros done. induction done as [|p t IH]; intro s; cbn [handle_process_results fold_left]; [reflexivity|].
  unfold handle_process_results in IH. rewrite IH. reflexivity.
Qed.

Lemma results_next_pid : forall done s, next_pid (handle_process_results s done) = next_pid s.
Proof.
  intros done. induction done as [|p t IH]; intro s; cbn [handle_process_results fold_left]; [reflexivity|].
  unfold handle_process_results in IH. rewrite IH. reflexivity.
Qed.

(* after handling ProcessResults done: bindings to reported processes are gone, others untouched *)
Lemma lookup_results : forall done s r, inv s ->
  lookup r (owner (handle_process_results s done)) =
  match lookup r (owner s) with
  | Some q => if existsb (N.eqb q) done then None else Some q
  | None => None
  end.
Proof.
  intros done. induction done as [|p t IH]; intros s r Hinv; cbn [handle_process_results fold_left existsb].
  - destruct (lookup r (owner s)); reflexivity.
  - unfold handle_process_results in IH. rewrite (IH (cleanup s p) r (cleanup_inv _ _ Hinv)).
    rewrite (lookup_cleanup s p r Hinv). destruct (lookup r (owner s)) as [q|]; [|reflexivity].
    destruct (N.eqb q p) eqn:E; cbn [orb]; reflexivity.
Qed.

Lemma existsb_eqb_in : forall q l, existsb (N.eqb q) l = true <-> In q l.
Proof.
  intros q l. rewrite existsb_exists. split.
  - intros [x [Hin Heq]]. apply N.eqb_eq in Heq. subst x. exact Hin.
  - intro Hin. exists q. split; [exact Hin|apply N.eqb_refl].
Qed.

(* the calls made by handle_process_results: only closes, each of a resource owned (before the
   event) by one of the reported processes; and all of those *)
Lemma results_log : forall done s, inv s ->
  exists rs, log (handle_process_results s done) = log s ++ map CClose rs /\
             (forall r, In r rs <-> exists p, In p done /\ lookup r (owner s) = Some p) /\
             NoDup rs.
Proof.
  intros done. induction done as [|p t IH]; intros s Hinv; cbn [handle_process_results fold_left].
  - exists []. split; [rewrite app_nil_r; reflexivity|]. split; [|constructor].
    intro r. split; [intros []|intros [p [[] _]]].
  - destruct (IH (cleanup s p) (cleanup_inv _ _ Hinv)) as [rs [Hlog [Hrs Hnd]]].
    exists (owned_by p (owner s) ++ rs). split; [|split].
    + unfold handle_process_results in Hlog. rewrite Hlog, cleanup_log, map_app, app_assoc. reflexivity.
    + intro r. rewrite in_app_iff, Hrs, (owned_by_lookup _ _ _ Hinv). split.
      * intros [H|[q [Hq Hl]]].
        -- exists p. split; [left; reflexivity|exact H].
        -- rewrite (lookup_cleanup s p r Hinv) in Hl. destruct (lookup r (owner s)) as [o|]; [|discriminate].
           destruct (N.eqb o p); [discriminate|]. exists q. split; [right; exact Hq|]. exact Hl.
      * intros [q [[Hq|Hq] Hl]].
        -- subst q. left. exact Hl.
        -- destruct (N.eq_dec q p) as [->|Hne]; [left; exact Hl|]. right. exists q. split; [exact Hq|].
           rewrite (lookup_cleanup s p r Hinv), Hl. apply N.eqb_neq in Hne. rewrite Hne. reflexivity.
    + apply nodup_app; [apply nodup_owned_by; exact Hinv|exact Hnd|].
      intros r Hin1 Hin2. apply (owned_by_lookup _ _ _ Hinv) in Hin1. apply Hrs in Hin2.
      destruct Hin2 as [q [_ Hl]]. rewrite (lookup_cleanup s p r Hinv), Hin1, N.eqb_refl in Hl. discriminate.
Qed.

(* ------------------------------------------------------------------ one step, characterised *)

Lemma memb_in : forall r l, memb r l = true <-> In r l.
Proof. intros r l. apply existsb_eqb_in. Qed.

Lemma memb_notin : forall r l, memb r l = false <-> ~ In r l.
Proof.
  intros r l. rewrite <- memb_in. destruct (memb r l).
  - split; [discriminate|]. intro H. exfalso. apply H. reflexivity.
  - split; [intros _ H; discriminate H|reflexivity].
Qed.

Lemma lookup_insert : forall r r' p m, lookup r (insert r' p m) = if N.eqb r r' then Some p else lookup r m.
Proof.
  intros r r' p m. destruct (N.eqb r r') eqn:E.
  - apply N.eqb_eq in E. subst r'. apply lookup_insert_eq.
  - apply N.eqb_neq in E. apply lookup_insert_neq. exact E.
Qed.

Lemma lookup_insert_all : forall rs p m r,
  lookup r (insert_all rs p m) = if memb r rs then Some p else lookup r m.
Proof.
  intros rs p m r. destruct (memb r rs) eqn:E.
  - apply memb_in in E. apply lookup_insert_all_in. exact E.
  - apply memb_notin in E. apply lookup_insert_all_notin. exact E.
Qed.

(* environment.rs:1703-1714: the request is refused without touching the backend *)
Definition deniedb (s : state) (p : pid) (e : effect) : bool :=
  match resource_id e with
  | Some r => match lookup r (owner s) with
              | Some o => negb (N.eqb o p)
              | None => false
              end
  | None => false
  end.

Lemma effect_request_unfold : forall s p e a,
  handle_effect_request s p e a =
  if deniedb s p e then s
  else
    let s1 := mkState (owner s) (dead s) (pending s) (next_pid s) (log s ++ [CExec p e]) in
    match a with
    | ANow res => handle_effect_completion s1 p res
    | AAsync => mkState (owner s1) (dead s1) (p :: pending s1) (next_pid s1) (log s1)
    | AFail => s1
    end.
Proof. reflexivity. Qed.

Lemma completion_owner : forall s p res r,
  lookup r (owner (handle_effect_completion s p res)) =
  if memb r (result_rid res) then Some p else lookup r (owner s).
Proof.
  intros s p res r. unfold handle_effect_completion. cbn [owner].
  destruct res as [[r'| | |]|]; cbn [result_rid memb existsb orb]; try reflexivity.
  rewrite lookup_insert. destruct (N.eqb r r'); reflexivity.
Qed.

Lemma completion_inv : forall s p res, inv s -> inv (handle_effect_completion s p res).
Proof.
  intros s p res H. unfold inv, handle_effect_completion. cbn [owner].
  destruct res as [[r'| | |]|]; try exact H. apply nodup_insert. exact H.
Qed.

Lemma step_inv : forall s e, inv s -> inv (step s e).
Proof.
  intros s e H. destruct e as [p eff a|p res|c vals|sd t v|done|p|]; cbn [step].
  - rewrite effect_request_unfold. destruct (deniedb s p eff); [exact H|].
    destruct a as [res| |]; cbn zeta; try exact H. apply completion_inv. exact H.
  - unfold inv. cbn [owner]. apply completion_inv. exact H.
  - unfold inv, handle_spawn. cbn [owner]. rewrite transfer_all_rids. apply nodup_insert_all. exact H.
  - unfold inv, handle_deliver. cbn [owner]. rewrite transfer_rids. apply nodup_insert_all. exact H.
  - apply results_inv. exact H.
  - exact H.
  - exact H.
Qed.

Lemma init_inv : inv init.
Proof. unfold inv. cbn. constructor. Qed.

Lemma run_inv : forall h, inv (run h).
Proof.
  intro h. induction h as [|e h IH] using rev_ind; [exact init_inv|].
  rewrite run_snoc. apply step_inv. exact IH.
Qed.

(* the owner of r after one step *)
Lemma step_owner : forall s e r, inv s ->
  lookup r (owner (step s e)) =
  match e with
  | EEffect p eff a =>
      if deniedb s p eff then lookup r (owner s)
      else if memb r (issued_by e) then Some p else lookup r (owner s)
  | EComplete p res => if memb r (issued_by e) then Some p else lookup r (owner s)
  | ESend _ t v => if memb r (transferred e) then Some t else lookup r (owner s)
  | ESpawn _ vals => if memb r (transferred e) then Some (next_pid s) else lookup r (owner s)
  | EResults done => match lookup r (owner s) with
                     | Some q => if existsb (N.eqb q) done then None else Some q
                     | None => None
                     end
  | ETerminate _ | EOther => lookup r (owner s)
  end.
Proof.
  intros s e r Hinv. destruct e as [p eff a|p res|c vals|sd t v|done|p|]; cbn [step]; try reflexivity.
  - rewrite effect_request_unfold. destruct (deniedb s p eff); [reflexivity|].
    destruct a as [res| |]; cbn zeta; cbn [issued_by memb existsb]; try reflexivity.
    rewrite completion_owner. reflexivity.
  - cbn [owner issued_by]. apply completion_owner.
  - unfold handle_spawn. cbn [owner transferred]. rewrite transfer_all_rids. apply lookup_insert_all.
  - unfold handle_deliver. cbn [owner transferred]. rewrite transfer_rids. apply lookup_insert_all.
  - apply lookup_results. exact Hinv.
Qed.

Lemma skipn_app_exact : forall (A : Type) (a l : list A), skipn (length a) (a ++ l) = l.
Proof. intros A a l. induction a as [|x t IH]; cbn [length app skipn]; [reflexivity|exact IH]. Qed.

(* the backend calls made by one step *)
Lemma step_calls : forall s e, inv s ->
  log (step s e) = log s ++ new_calls s e /\
  match e with
  | EEffect p eff a => new_calls s e = if deniedb s p eff then [] else [CExec p eff]
  | EResults done => exists rs, new_calls s e = map CClose rs /\
                                (forall r, In r rs <-> exists p, In p done /\ lookup r (owner s) = Some p) /\
                                NoDup rs
  | _ => new_calls s e = []
  end.
Proof.
  intros s e Hinv.
  assert (Hgen : forall l, log (step s e) = log s ++ l -> new_calls s e = l).
  { intros l Hl. unfold new_calls. rewrite Hl. apply skipn_app_exact. }
  destruct e as [p eff a|p res|c vals|sd t v|done|p|].
  - assert (Hl : log (step s (EEffect p eff a)) = log s ++ (if deniedb s p eff then [] else [CExec p eff])).
    { cbn [step]. rewrite effect_request_unfold. destruct (deniedb s p eff); [rewrite app_nil_r; reflexivity|].
      destruct a as [res| |]; cbn zeta; reflexivity. }
    rewrite (Hgen _ Hl). split; [exact Hl|reflexivity].
  - assert (Hl : log (step s (EComplete p res)) = log s ++ []) by (rewrite app_nil_r; reflexivity).
    rewrite (Hgen _ Hl). split; [exact Hl|reflexivity].
  - assert (Hl : log (step s (ESpawn c vals)) = log s ++ []) by (rewrite app_nil_r; reflexivity).
    rewrite (Hgen _ Hl). split; [exact Hl|reflexivity].
  - assert (Hl : log (step s (ESend sd t v)) = log s ++ []) by (rewrite app_nil_r; reflexivity).
    rewrite (Hgen _ Hl). split; [exact Hl|reflexivity].
  - destruct (results_log done s Hinv) as [rs [Hl [Hrs Hnd]]].
    cbn [step]. rewrite (Hgen _ Hl). split; [exact Hl|]. exists rs. split; [reflexivity|]. split; assumption.
  - assert (Hl : log (step s (ETerminate p)) = log s ++ []) by (rewrite app_nil_r; reflexivity).
    rewrite (Hgen _ Hl). split; [exact Hl|reflexivity].
  - assert (Hl : log (step s EOther) = log s ++ []) by (rewrite app_nil_r; reflexivity).
    rewrite (Hgen _ Hl). split; [exact Hl|reflexivity].
Qed.

Lemma log_extends : forall s e, inv s -> log (step s e) = log s ++ new_calls s e.
Proof. intros s e H. exact (proj1 (step_calls s e H)). Qed.

Lemma step_dead : forall s e,
  dead (step s e) = match e with ETerminate p => p :: dead s | _ => dead s end.
Proof.
  intros s e. destruct e as [p eff a|p res|c vals|sd t v|done|p|]; cbn [step]; try reflexivity.
  - rewrite effect_request_unfold. destruct (deniedb s p eff); [reflexivity|].
    destruct a as [res| |]; reflexivity.
  - apply results_dead.
Qed.

Lemma dead_iff_terminated : forall h p, In p (dead (run h)) <-> In (ETerminate p) h.
Proof.
  intros h p. induction h as [|e h IH] using rev_ind.
  - cbn. tauto.
  - rewrite run_snoc, step_dead, in_app_iff. cbn [In].
    destruct e; try (rewrite IH; split; [intro H; left; exact H|intros [H|[H|[]]]; [exact H|discriminate H]]).
    cbn [In]. rewrite IH. split.
    + intros [H|H]; [right; left; subst; reflexivity|left; exact H].
    + intros [H|[H|[]]]; [right; exact H|left; injection H as ->; reflexivity].
Qed.
