(* C14 — proofs about the ownership automaton res/Own.v. *)
From Coq Require Import List NArith Bool Lia.
From Quiver Require Import res.Own.
Import ListNotations.
Open Scope N_scope.

Lemma run_snoc : forall h e, run (h ++ [e]) = step (run h) e.
Proof. intros h e. unfold run. rewrite fold_left_app. reflexivity. Qed.
