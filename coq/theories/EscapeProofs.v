(* EscapeProofs.v — round-trip theorems between the formatter's string escaping and the parser's
   un-escaping (model in Escape.v). *)
From Quiver Require Import Base.
From Quiver Require Import Escape.

Ltac zcase c k E :=
  destruct (Z.eqb c k) eqn:E; [apply Z.eqb_eq in E; subst c | apply Z.eqb_neq in E].

(* ------------------------------------------------------------------------------------------ *)
(* 1. single-line: unescape after escape                                                       *)
(* ------------------------------------------------------------------------------------------ *)

Lemma esc_single_char_spec c :
  (c = 92 /\ esc_single_char c = [92; 92]) \/
  (c = 34 /\ esc_single_char c = [92; 34]) \/
  (c = 123 /\ esc_single_char c = [92; 123]) \/
  (c = 10 /\ esc_single_char c = [92; 110]) \/
  (c = 13 /\ esc_single_char c = [92; 114]) \/
  (c = 9 /\ esc_single_char c = [92; 116]) \/
  (c <> 92 /\ c <> 34 /\ c <> 123 /\ esc_single_char c = [c]).
Proof.
  unfold esc_single_char.
  zcase c 92 E92; [tauto|].
  zcase c 34 E34; [tauto|].
  zcase c 123 E123; [tauto|].
  zcase c 10 E10; [tauto|].
  zcase c 13 E13; [tauto|].
  zcase c 9 E9; [tauto|].
  repeat right. tauto.
Qed.

Lemma unescape_plain c t : c <> 92 -> unescape (c :: t) = option_map (cons c) (unescape t).
Proof.
  intros Hc. cbn [unescape]. apply Z.eqb_neq in Hc. rewrite Hc. reflexivity.
Qed.

Lemma unescape_esc_char c t :
  unescape (esc_single_char c ++ t) = option_map (cons c) (unescape t).
Proof.
  destruct (esc_single_char_spec c)
    as [[Hc He]|[[Hc He]|[[Hc He]|[[Hc He]|[[Hc He]|[[Hc He]|[Hc [_ [_ He]]]]]]]]];
    rewrite He; try (subst c; reflexivity).
  cbn [app]. apply unescape_plain. exact Hc.
Qed.

Theorem escape_single_roundtrip : forall s, unescape (escape_single s) = Some s.
Proof.
  induction s as [|c t IH].
  - reflexivity.
  - cbn [escape_single]. rewrite unescape_esc_char, IH. reflexivity.
Qed.

Example escape_single_roundtrip_ex :
  escape_single [97; 32; 32; 10; 9; 34; 123; 92; 13; 32]
    = [97; 32; 32; 92; 110; 92; 116; 92; 34; 92; 123; 92; 92; 92; 114; 32]
  /\ unescape (escape_single [97; 32; 32; 10; 9; 34; 123; 92; 13; 32])
    = Some [97; 32; 32; 10; 9; 34; 123; 92; 13; 32]
  /\ unescape [92; 115] = None          (* \s is not a single-line escape *)
  /\ unescape [97; 92] = None.
Proof. vm_compute. repeat split. Qed.

(* ------------------------------------------------------------------------------------------ *)
(* 2. single-line: the term-position scanner finds the closing quote and opens no hole          *)
(* ------------------------------------------------------------------------------------------ *)

Lemma scan_single_plain c t :
  c <> 92 -> c <> 34 -> c <> 123 -> scan_single (c :: t) = scan_cons c (scan_single t).
Proof.
  intros H92 H34 H123. cbn [scan_single].
  apply Z.eqb_neq in H92. apply Z.eqb_neq in H34. apply Z.eqb_neq in H123.
  rewrite H92, H34, H123. reflexivity.
Qed.

Lemma scan_single_esc_char c t :
  scan_single (esc_single_char c ++ t) = scan_cons c (scan_single t).
Proof.
  destruct (esc_single_char_spec c)
    as [[Hc He]|[[Hc He]|[[Hc He]|[[Hc He]|[[Hc He]|[[Hc He]|[H92 [H34 [H123 He]]]]]]]]];
    rewrite He; try (subst c; reflexivity).
  cbn [app]. apply scan_single_plain; assumption.
Qed.

Theorem escape_single_scan :
  forall s rest, scan_single (escape_single s ++ 34 :: rest) = ScanText s rest.
Proof.
  induction s as [|c t IH]; intros rest.
  - reflexivity.
  - cbn [escape_single]. rewrite <- app_assoc, scan_single_esc_char, IH. reflexivity.
Qed.

Example escape_single_scan_ex :
  scan_single (escape_single [97; 32; 32; 10; 9; 34; 123; 92; 13; 32] ++ 34 :: [41; 123])
    = ScanText [97; 32; 32; 10; 9; 34; 123; 92; 13; 32] [41; 123]
  /\ scan_single [97; 123; 98; 125; 34] = ScanHole [97] [123; 98; 125; 34]
  /\ scan_single [97; 92; 34] = ScanErr.
Proof. vm_compute. repeat split. Qed.

(* ------------------------------------------------------------------------------------------ *)
(* 3. multi-line: process_escapes after render_text                                            *)
(* ------------------------------------------------------------------------------------------ *)

Definition no_lf (l : list Z) : Prop := Forall (fun c => c <> 10) l.

Lemma esc_multi_char_spec c :
  (c = 92 /\ esc_multi_char c = [92; 92]) \/
  (c = 34 /\ esc_multi_char c = [92; 34]) \/
  (c = 123 /\ esc_multi_char c = [92; 123]) \/
  (c = 13 /\ esc_multi_char c = [92; 114]) \/
  (c = 9 /\ esc_multi_char c = [92; 116]) \/
  (c <> 92 /\ c <> 34 /\ c <> 123 /\ c <> 13 /\ c <> 9 /\ esc_multi_char c = [c]).
Proof.
  unfold esc_multi_char.
  zcase c 92 E92; [tauto|].
  zcase c 34 E34; [tauto|].
  zcase c 123 E123; [tauto|].
  zcase c 13 E13; [tauto|].
  zcase c 9 E9; [tauto|].
  repeat right. tauto.
Qed.

Lemma all_space_esc l : all_space (escape_multiline_text l) = all_space l.
Proof.
  induction l as [|c t IH]; [reflexivity|].
  cbn [escape_multiline_text].
  destruct (esc_multi_char_spec c)
    as [[Hc He]|[[Hc He]|[[Hc He]|[[Hc He]|[[Hc He]|[_ [_ [_ [_ [_ He]]]]]]]]]];
    rewrite He; try (subst c; reflexivity).
  cbn [app all_space]. rewrite IH. reflexivity.
Qed.

Lemma protect_cons_ns c x :
  c <> 32 -> protect_trailing_spaces (c :: x) = c :: protect_trailing_spaces x.
Proof.
  intros Hc. cbn [protect_trailing_spaces]. apply Z.eqb_neq in Hc. rewrite Hc. reflexivity.
Qed.

Lemma protect_cons_sp x :
  all_space x = false -> protect_trailing_spaces (32 :: x) = 32 :: protect_trailing_spaces x.
Proof.
  intros Hx. cbn [protect_trailing_spaces]. rewrite Hx, andb_false_r. reflexivity.
Qed.

(* a line that is not entirely spaces: the first character is escaped on its own *)
Lemma render_line_cons c l :
  all_space (c :: l) = false -> render_line (c :: l) = esc_multi_char c ++ render_line l.
Proof.
  intros Hns. unfold render_line. cbn [escape_multiline_text].
  destruct (esc_multi_char_spec c)
    as [[Hc He]|[[Hc He]|[[Hc He]|[[Hc He]|[[Hc He]|[_ [_ [_ [_ [_ He]]]]]]]]]];
    rewrite He; try (subst c; cbn [app]; do 2 (rewrite protect_cons_ns by lia); reflexivity).
  cbn [app]. zcase c 32 E32.
  - cbn [all_space] in Hns. change (32 =? 32) with true in Hns. cbn [andb] in Hns.
    apply protect_cons_sp. rewrite all_space_esc. exact Hns.
  - apply protect_cons_ns. exact E32.
Qed.

(* a line consisting of spaces only: every space becomes \s *)
Lemma render_line_all_space l :
  all_space l = true -> render_line l = flat_map (fun _ => [92; 115]) l.
Proof.
  induction l as [|c t IH]; intros Hsp; [reflexivity|].
  cbn [all_space] in Hsp. apply andb_prop in Hsp. destruct Hsp as [Hc Ht].
  apply Z.eqb_eq in Hc. subst c.
  unfold render_line in *. cbn [escape_multiline_text].
  change (esc_multi_char 32) with [32]. cbn [app protect_trailing_spaces].
  rewrite all_space_esc, Ht. change (32 =? 32) with true. cbn [andb flat_map app].
  rewrite IH by exact Ht. reflexivity.
Qed.

Lemma proc_plain c pend t :
  c <> 32 -> c <> 9 -> c <> 10 -> c <> 92 ->
  process_escapes_aux false pend (c :: t)
  = option_map (fun r => pend ++ c :: r) (process_escapes_aux false [] t).
Proof.
  intros H32 H9 H10 H92. cbn [process_escapes_aux]. unfold is_hspace.
  apply Z.eqb_neq in H32. apply Z.eqb_neq in H9. apply Z.eqb_neq in H10. apply Z.eqb_neq in H92.
  rewrite H32, H9, H10, H92. reflexivity.
Qed.

Lemma proc_esc_multi_char c pend x :
  c <> 32 -> c <> 10 ->
  process_escapes_aux false pend (esc_multi_char c ++ x)
  = option_map (fun r => pend ++ c :: r) (process_escapes_aux false [] x).
Proof.
  intros H32 H10.
  destruct (esc_multi_char_spec c)
    as [[Hc He]|[[Hc He]|[[Hc He]|[[Hc He]|[[Hc He]|[H92 [_ [_ [_ [H9 He]]]]]]]]]];
    rewrite He; try (subst c; reflexivity).
  cbn [app]. apply proc_plain; assumption.
Qed.

Lemma proc_all_space_line l tail :
  all_space l = true ->
  process_escapes_aux false [] (render_line l ++ tail)
  = option_map (app l) (process_escapes_aux false [] tail).
Proof.
  intros Hsp. rewrite render_line_all_space by exact Hsp.
  induction l as [|c t IH].
  - cbn [flat_map app]. destruct (process_escapes_aux false [] tail); reflexivity.
  - cbn [all_space] in Hsp. apply andb_prop in Hsp. destruct Hsp as [Hc Ht].
    apply Z.eqb_eq in Hc. subst c.
    cbn [flat_map app].
    change (process_escapes_aux false [] (92 :: 115 :: flat_map (fun _ : Z => [92; 115]) t ++ tail))
      with (option_map (fun r => [] ++ 32 :: r)
              (process_escapes_aux false [] (flat_map (fun _ : Z => [92; 115]) t ++ tail))).
    rewrite IH by exact Ht.
    destruct (process_escapes_aux false [] tail); reflexivity.
Qed.

Lemma proc_nonspace_line l :
  forall pend tail,
    no_lf l -> all_space l = false ->
    process_escapes_aux false pend (render_line l ++ tail)
    = option_map (fun r => pend ++ l ++ r) (process_escapes_aux false [] tail).
Proof.
  induction l as [|c t IH]; intros pend tail Hlf Hns; [discriminate Hns|].
  inversion Hlf as [|c' t' Hc10 Hlft]; subst c' t'.
  rewrite render_line_cons by exact Hns. rewrite <- app_assoc.
  assert (Hrest : process_escapes_aux false [] (render_line t ++ tail)
                  = option_map (app t) (process_escapes_aux false [] tail)).
  { destruct (bool_dec (all_space t) true) as [Et|Et].
    - apply proc_all_space_line. exact Et.
    - apply not_true_is_false in Et. rewrite (IH [] tail Hlft Et). reflexivity. }
  zcase c 32 E32.
  - change (esc_multi_char 32) with [32]. cbn [app].
    change (process_escapes_aux false pend (32 :: render_line t ++ tail))
      with (process_escapes_aux false (pend ++ [32]) (render_line t ++ tail)).
    cbn [all_space] in Hns. change (32 =? 32) with true in Hns. cbn [andb] in Hns.
    rewrite (IH (pend ++ [32]) tail Hlft Hns).
    destruct (process_escapes_aux false [] tail) as [r|]; [|reflexivity].
    cbn [option_map]. rewrite <- app_assoc. reflexivity.
  - rewrite proc_esc_multi_char by assumption. rewrite Hrest.
    destruct (process_escapes_aux false [] tail) as [r|]; reflexivity.
Qed.

Lemma proc_line l tail :
  no_lf l ->
  process_escapes_aux false [] (render_line l ++ tail)
  = option_map (app l) (process_escapes_aux false [] tail).
Proof.
  intros Hlf. destruct (all_space l) eqn:El.
  - apply proc_all_space_line. exact El.
  - rewrite (proc_nonspace_line l [] tail Hlf El). reflexivity.
Qed.

Lemma split_lf_nonempty s : split_lf s <> [].
Proof.
  destruct s as [|c t]; [discriminate|].
  cbn [split_lf]. destruct (c =? 10); [discriminate|].
  destruct (split_lf t); discriminate.
Qed.

Lemma split_lf_no_lf s : Forall no_lf (split_lf s).
Proof.
  induction s as [|c t IH].
  - repeat constructor.
  - cbn [split_lf]. zcase c 10 E10.
    + constructor; [constructor | exact IH].
    + destruct (split_lf t) as [|l ls].
      * repeat constructor. exact E10.
      * inversion IH as [|l' ls' Hl Hls]; subst l' ls'.
        constructor; [constructor; assumption | exact Hls].
Qed.

Lemma join_lf_cons2 a b ls : join_lf (a :: b :: ls) = a ++ 10 :: join_lf (b :: ls).
Proof. reflexivity. Qed.

Lemma join_split_lf s : join_lf (split_lf s) = s.
Proof.
  induction s as [|c t IH]; [reflexivity|].
  cbn [split_lf]. pose proof (split_lf_nonempty t) as Hne.
  destruct (split_lf t) as [|l ls]; [contradiction|].
  zcase c 10 E10.
  - rewrite join_lf_cons2, IH. reflexivity.
  - rewrite <- IH. destruct ls; reflexivity.
Qed.

Lemma proc_lines ls :
  ls <> [] -> Forall no_lf ls ->
  process_escapes_aux false [] (join_lf (map render_line ls)) = Some (join_lf ls).
Proof.
  induction ls as [|l ls IH]; intros Hne Hlf; [contradiction|].
  inversion Hlf as [|l' ls' Hl Hls]; subst l' ls'.
  destruct ls as [|l2 ls'].
  - cbn [map join_lf]. rewrite <- (app_nil_r (render_line l)).
    rewrite proc_line by exact Hl. cbn [process_escapes_aux option_map].
    rewrite app_nil_r. reflexivity.
  - change (join_lf (map render_line (l :: l2 :: ls')))
      with (render_line l ++ 10 :: join_lf (map render_line (l2 :: ls'))).
    rewrite proc_line by exact Hl.
    change (process_escapes_aux false [] (10 :: join_lf (map render_line (l2 :: ls'))))
      with (option_map (cons 10)
              (process_escapes_aux false [] (join_lf (map render_line (l2 :: ls'))))).
    rewrite IH by (discriminate || exact Hls).
    rewrite join_lf_cons2. reflexivity.
Qed.

Theorem escape_multiline_text_roundtrip : forall s, process_escapes (render_text s) = Some s.
Proof.
  intros s. unfold process_escapes, render_text, render_lines.
  rewrite proc_lines.
  - rewrite join_split_lf. reflexivity.
  - apply split_lf_nonempty.
  - apply split_lf_no_lf.
Qed.

Example escape_multiline_text_roundtrip_ex :
  render_text [97; 32; 32; 10; 9; 34; 123; 92; 13; 32]
    = [97; 92; 115; 92; 115; 10; 92; 116; 92; 34; 92; 123; 92; 92; 92; 114; 92; 115]
  /\ process_escapes (render_text [97; 32; 32; 10; 9; 34; 123; 92; 13; 32])
    = Some [97; 32; 32; 10; 9; 34; 123; 92; 13; 32]
  (* unprotected trailing blanks are dropped, inner ones kept, continuation joins lines *)
  /\ process_escapes [97; 32; 98; 32; 9; 10; 99; 92; 10; 32; 32; 100] = Some [97; 32; 98; 10; 99; 100].
Proof. vm_compute. repeat split. Qed.

(* ------------------------------------------------------------------------------------------ *)
(* 4. multi-line: the full parser pipeline on the formatter's output                            *)
(* ------------------------------------------------------------------------------------------ *)

(* which characters can occur in a rendered line *)
Lemma esc_multi_char_forall (P : Z -> Prop) c :
  P 92 -> P 34 -> P 123 -> P 114 -> P 116 ->
  (c <> 13 -> c <> 9 -> P c) -> Forall P (esc_multi_char c).
Proof.
  intros P92 P34 P123 P114 P116 Pc.
  destruct (esc_multi_char_spec c)
    as [[Hc He]|[[Hc He]|[[Hc He]|[[Hc He]|[[Hc He]|[_ [_ [_ [H13 [H9 He]]]]]]]]]];
    rewrite He; repeat constructor; auto.
Qed.

Lemma escape_multiline_forall (P : Z -> Prop) l :
  P 92 -> P 34 -> P 123 -> P 114 -> P 116 ->
  Forall (fun c => c <> 13 -> c <> 9 -> P c) l -> Forall P (escape_multiline_text l).
Proof.
  intros P92 P34 P123 P114 P116 Hl.
  induction Hl as [|c t Hc Ht IH]; [constructor|].
  cbn [escape_multiline_text]. apply Forall_app. split; [|exact IH].
  apply esc_multi_char_forall; assumption.
Qed.

Lemma protect_forall (P : Z -> Prop) x :
  P 92 -> P 115 -> Forall P x -> Forall P (protect_trailing_spaces x).
Proof.
  intros P92 P115 Hx. induction Hx as [|c t Hc Ht IH]; [constructor|].
  cbn [protect_trailing_spaces].
  destruct ((c =? 32) && all_space t); repeat constructor; assumption.
Qed.

Lemma render_line_forall (P : Z -> Prop) l :
  P 92 -> P 34 -> P 123 -> P 114 -> P 116 -> P 115 ->
  Forall (fun c => c <> 13 -> c <> 9 -> P c) l -> Forall P (render_line l).
Proof.
  intros P92 P34 P123 P114 P116 P115 Hl. unfold render_line.
  apply protect_forall; [assumption|assumption|].
  apply escape_multiline_forall; assumption.
Qed.

Lemma forall_weaken (P : Z -> Prop) l : (forall c, P c) -> Forall P l.
Proof. intros H. induction l; constructor; auto. Qed.

Lemma render_line_no_cr l : Forall (fun c => c <> 13) (render_line l).
Proof.
  apply render_line_forall; try lia. apply forall_weaken. intros c H13 _. exact H13.
Qed.

Lemma render_line_no_lf l : no_lf l -> no_lf (render_line l).
Proof.
  intros Hl. unfold no_lf. apply render_line_forall; try lia.
  eapply Forall_impl; [|exact Hl]. intros c Hc _ _. exact Hc.
Qed.

Lemma escape_multiline_no_tab l : Forall (fun c => c <> 9) (escape_multiline_text l).
Proof.
  apply escape_multiline_forall; try lia. apply forall_weaken. intros c _ H9. exact H9.
Qed.

Lemma repeat_forall (P : Z -> Prop) c n : P c -> Forall P (repeat c n).
Proof. intros Hc. induction n; cbn [repeat]; constructor; assumption. Qed.

Lemma indent_line_forall (P : Z -> Prop) m l : P 32 -> Forall P l -> Forall P (indent_line m l).
Proof.
  intros P32 Hl. destruct l as [|c t]; [constructor|].
  unfold indent_line. apply Forall_app. split; [apply repeat_forall; exact P32 | exact Hl].
Qed.

Lemma flat_map_forall (P : Z -> Prop) (f : list Z -> list Z) ls :
  Forall (fun l => Forall P (f l)) ls -> Forall P (flat_map f ls).
Proof.
  intros H. induction H as [|l ls Hl Hls IH]; [constructor|].
  cbn [flat_map]. apply Forall_app. split; assumption.
Qed.

Lemma render_multiline_forall (P : Z -> Prop) s m :
  P 10 -> P 32 -> Forall (Forall P) (render_lines s) -> Forall P (render_multiline s m).
Proof.
  intros P10 P32 Hls. unfold render_multiline. constructor; [exact P10|].
  apply Forall_app. split; [|apply repeat_forall; exact P32].
  apply flat_map_forall. eapply Forall_impl; [|exact Hls].
  intros l Hl. apply Forall_app. split; [|repeat constructor; exact P10].
  apply indent_line_forall; assumption.
Qed.

Lemma render_lines_forall (P : list Z -> Prop) s :
  (forall l, no_lf l -> P (render_line l)) -> Forall P (render_lines s).
Proof.
  intros H. unfold render_lines. apply Forall_map.
  eapply Forall_impl; [|apply split_lf_no_lf]. exact H.
Qed.

Lemma render_multiline_no_cr s m : Forall (fun c => c <> 13) (render_multiline s m).
Proof.
  apply render_multiline_forall; try lia.
  apply render_lines_forall. intros l _. apply render_line_no_cr.
Qed.

(* newline normalisation is the identity on CR-free text *)
Lemma replace_crlf_id x : Forall (fun c => c <> 13) x -> replace_crlf x = x.
Proof.
  intros Hx. induction Hx as [|c t Hc Ht IH]; [reflexivity|].
  destruct t as [|d t']; [reflexivity|].
  change (replace_crlf (c :: d :: t'))
    with (if (c =? 13) && (d =? 10) then 10 :: replace_crlf t' else c :: replace_crlf (d :: t')).
  apply Z.eqb_neq in Hc. rewrite Hc. cbn [andb]. rewrite IH. reflexivity.
Qed.

Lemma replace_cr_id x : Forall (fun c => c <> 13) x -> replace_cr x = x.
Proof.
  intros Hx. induction Hx as [|c t Hc Ht IH]; [reflexivity|].
  unfold replace_cr in *. cbn [map]. apply Z.eqb_neq in Hc. rewrite Hc, IH. reflexivity.
Qed.

(* rsplit_once on the formatter's layout *)
Lemma rsplit_repeat_space m : rsplit_once_lf (repeat 32 m) = None.
Proof.
  induction m as [|m IH]; [reflexivity|].
  cbn [repeat rsplit_once_lf]. rewrite IH. reflexivity.
Qed.

Lemma rsplit_app a x b1 b2 :
  rsplit_once_lf x = Some (b1, b2) -> rsplit_once_lf (a ++ x) = Some (a ++ b1, b2).
Proof.
  intros Hx. induction a as [|c a IH]; [exact Hx|].
  cbn [app rsplit_once_lf]. rewrite IH. reflexivity.
Qed.

Lemma rsplit_lf_head x : rsplit_once_lf x = None -> rsplit_once_lf (10 :: x) = Some ([], x).
Proof. intros Hx. cbn [rsplit_once_lf]. rewrite Hx. reflexivity. Qed.

Lemma rsplit_lines m ls :
  ls <> [] ->
  rsplit_once_lf (flat_map (fun l => indent_line m l ++ [10]) ls ++ repeat 32 m)
  = Some (join_lf (map (indent_line m) ls), repeat 32 m).
Proof.
  induction ls as [|l ls IH]; intros Hne; [contradiction|].
  destruct ls as [|l2 ls'].
  - cbn [flat_map map join_lf]. rewrite app_nil_r, <- app_assoc. cbn [app].
    rewrite (rsplit_app (indent_line m l) (10 :: repeat 32 m) [] (repeat 32 m)).
    + rewrite app_nil_r. reflexivity.
    + apply rsplit_lf_head. apply rsplit_repeat_space.
  - change (flat_map (fun l => indent_line m l ++ [10]) (l :: l2 :: ls'))
      with ((indent_line m l ++ [10]) ++ flat_map (fun l => indent_line m l ++ [10]) (l2 :: ls')).
    rewrite <- app_assoc.
    rewrite (rsplit_app (indent_line m l ++ [10]) _ _ _ (IH ltac:(discriminate))).
    change (map (indent_line m) (l :: l2 :: ls'))
      with (indent_line m l :: indent_line m l2 :: map (indent_line m) ls').
    rewrite join_lf_cons2, <- app_assoc. reflexivity.
Qed.

(* split('\n') inverts join on LF-free lines *)
Lemma split_lf_single a : no_lf a -> split_lf a = [a].
Proof.
  intros Ha. induction Ha as [|c t Hc Ht IH]; [reflexivity|].
  cbn [split_lf]. apply Z.eqb_neq in Hc. rewrite Hc, IH. reflexivity.
Qed.

Lemma split_lf_app a x : no_lf a -> split_lf (a ++ 10 :: x) = a :: split_lf x.
Proof.
  intros Ha. induction Ha as [|c t Hc Ht IH]; [reflexivity|].
  cbn [app split_lf]. apply Z.eqb_neq in Hc. rewrite Hc, IH. reflexivity.
Qed.

Lemma split_join_lf ls : ls <> [] -> Forall no_lf ls -> split_lf (join_lf ls) = ls.
Proof.
  induction ls as [|l ls IH]; intros Hne Hlf; [contradiction|].
  inversion Hlf as [|l' ls' Hl Hls]; subst l' ls'.
  destruct ls as [|l2 ls'].
  - cbn [join_lf]. apply split_lf_single. exact Hl.
  - rewrite join_lf_cons2, split_lf_app by exact Hl.
    rewrite IH by (discriminate || exact Hls). reflexivity.
Qed.

(* de-indentation of the formatter's lines *)
Lemma all_hspace_repeat_space m : all_hspace (repeat 32 m) = true.
Proof. induction m as [|m IH]; [reflexivity|]. cbn [repeat]. exact IH. Qed.

Lemma strip_prefix_app p l : strip_prefix p (p ++ l) = Some l.
Proof.
  induction p as [|a p IH]; [reflexivity|].
  cbn [app strip_prefix]. rewrite Z.eqb_refl. exact IH.
Qed.

Lemma protect_not_hspace x :
  Forall (fun c => c <> 9) x -> x <> [] -> all_hspace (protect_trailing_spaces x) = false.
Proof.
  intros Hx. induction Hx as [|c t Hc Ht IH]; intros Hne; [contradiction|].
  cbn [protect_trailing_spaces].
  destruct ((c =? 32) && all_space t) eqn:Esp; [reflexivity|].
  unfold all_hspace in *. cbn [forallb].
  destruct (is_hspace c) eqn:Eh; [|reflexivity].
  cbn [andb]. apply IH.
  unfold is_hspace in Eh. apply Z.eqb_neq in Hc. rewrite Hc, orb_false_r in Eh.
  rewrite Eh in Esp. cbn [andb] in Esp.
  intros Hnil. subst t. discriminate Esp.
Qed.

Definition line_ok (r : list Z) : Prop := r = [] \/ all_hspace r = false.

Lemma render_line_ok l : line_ok (render_line l).
Proof.
  unfold line_ok, render_line.
  destruct (escape_multiline_text l) as [|c t] eqn:Ee; [left; reflexivity|].
  right. apply protect_not_hspace; [|discriminate].
  rewrite <- Ee. apply escape_multiline_no_tab.
Qed.

Lemma dedent_lines_render m ls :
  Forall line_ok ls -> dedent_lines (repeat 32 m) (map (indent_line m) ls) = Some ls.
Proof.
  intros Hls. induction Hls as [|r ls Hr Hls IH]; [reflexivity|].
  cbn [map dedent_lines]. rewrite IH.
  destruct Hr as [Hr|Hr].
  - subst r. reflexivity.
  - destruct r as [|c t]; [discriminate Hr|].
    unfold indent_line. unfold all_hspace in *.
    rewrite forallb_app, Hr, andb_false_r, strip_prefix_app. reflexivity.
Qed.

Lemma multiline_dedent_render s m :
  multiline_dedent (render_multiline s m) = Some (render_text s).
Proof.
  unfold multiline_dedent.
  rewrite replace_crlf_id, replace_cr_id by apply render_multiline_no_cr.
  unfold render_multiline.
  change (split_once_lf
            (10 :: flat_map (fun l => indent_line m l ++ [10]) (render_lines s) ++ repeat 32 m))
    with (Some (@nil Z,
                flat_map (fun l => indent_line m l ++ [10]) (render_lines s) ++ repeat 32 m)).
  cbn [all_hspace forallb].
  assert (Hne : render_lines s <> []).
  { unfold render_lines. intros Hnil. apply map_eq_nil in Hnil.
    exact (split_lf_nonempty s Hnil). }
  rewrite (rsplit_lines m (render_lines s) Hne).
  change (forallb is_hspace (repeat 32 m)) with (all_hspace (repeat 32 m)).
  rewrite all_hspace_repeat_space.
  rewrite split_join_lf.
  - rewrite dedent_lines_render; [reflexivity|].
    apply render_lines_forall. intros l _. apply render_line_ok.
  - intros Hnil. apply map_eq_nil in Hnil. exact (Hne Hnil).
  - apply Forall_map. eapply Forall_impl; [|apply (render_lines_forall no_lf s render_line_no_lf)].
    intros l Hl. apply indent_line_forall; [lia|exact Hl].
Qed.

Theorem multiline_roundtrip :
  forall s margin, process_multiline (render_multiline s margin) = Some s.
Proof.
  intros s margin. unfold process_multiline. rewrite multiline_dedent_render.
  apply escape_multiline_text_roundtrip.
Qed.

Example escape_multiline_ex :
  render_multiline [97; 32; 32; 10; 10; 9; 34; 123; 92; 13; 32] 2
    = [10; 32; 32; 97; 92; 115; 92; 115; 10;
       10;
       32; 32; 92; 116; 92; 34; 92; 123; 92; 92; 92; 114; 92; 115; 10;
       32; 32]
  /\ process_multiline (render_multiline [97; 32; 32; 10; 10; 9; 34; 123; 92; 13; 32] 4)
    = Some [97; 32; 32; 10; 10; 9; 34; 123; 92; 13; 32]
  /\ process_multiline (render_multiline [] 3) = Some []
  (* a line indented less than the margin is rejected *)
  /\ process_multiline [10; 32; 97; 10; 32; 32] = None.
Proof. vm_compute. repeat split. Qed.

(* ------------------------------------------------------------------------------------------ *)
(* 4b. the escape-aware scan for the closing delimiter stops exactly after the rendered text    *)
(* ------------------------------------------------------------------------------------------ *)

(* text made of plain characters (neither backslash nor quote) and backslash pairs *)
Inductive toks : list Z -> Prop :=
| toks_nil : toks []
| toks_plain c x : c <> 92 -> c <> 34 -> toks x -> toks (c :: x)
| toks_esc e x : toks x -> toks (92 :: e :: x).

Lemma toks_app x y : toks x -> toks y -> toks (x ++ y).
Proof.
  intros Hx Hy. induction Hx as [|c x H92 H34 Hx IH|e x Hx IH]; [exact Hy| |].
  - cbn [app]. apply toks_plain; assumption.
  - cbn [app]. apply toks_esc. exact IH.
Qed.

Lemma scan_toks x rest :
  toks x -> scan_multiline_raw (x ++ 34 :: 34 :: 34 :: rest) = Some (x, rest).
Proof.
  intros Hx. induction Hx as [|c x H92 H34 Hx IH|e x Hx IH].
  - reflexivity.
  - cbn [app scan_multiline_raw]. apply Z.eqb_neq in H92. apply Z.eqb_neq in H34.
    rewrite H92, H34, IH. reflexivity.
  - change (scan_multiline_raw ((92 :: e :: x) ++ 34 :: 34 :: 34 :: rest))
      with (raw_cons [92; e] (scan_multiline_raw (x ++ 34 :: 34 :: 34 :: rest))).
    rewrite IH. reflexivity.
Qed.

Lemma toks_esc_multi_char c : toks (esc_multi_char c).
Proof.
  destruct (esc_multi_char_spec c)
    as [[Hc He]|[[Hc He]|[[Hc He]|[[Hc He]|[[Hc He]|[H92 [H34 [_ [_ [_ He]]]]]]]]]];
    rewrite He; try (apply toks_esc; apply toks_nil).
  apply toks_plain; [assumption|assumption|apply toks_nil].
Qed.

Lemma toks_render_line l : toks (render_line l).
Proof.
  induction l as [|c t IH]; [apply toks_nil|].
  destruct (bool_dec (all_space (c :: t)) true) as [Esp|Esp].
  - rewrite render_line_all_space by exact Esp.
    clear. induction (c :: t) as [|d u IHu]; [apply toks_nil|].
    cbn [flat_map app]. apply toks_esc. exact IHu.
  - apply not_true_is_false in Esp. rewrite render_line_cons by exact Esp.
    apply toks_app; [apply toks_esc_multi_char | exact IH].
Qed.

Lemma toks_repeat_space m : toks (repeat 32 m).
Proof.
  induction m as [|m IH]; [apply toks_nil|].
  cbn [repeat]. apply toks_plain; [lia|lia|exact IH].
Qed.

Lemma toks_render_multiline s m : toks (render_multiline s m).
Proof.
  unfold render_multiline. apply toks_plain; [lia|lia|].
  apply toks_app; [|apply toks_repeat_space].
  unfold render_lines. induction (split_lf s) as [|l ls IH]; [apply toks_nil|].
  cbn [map flat_map]. apply toks_app; [|exact IH].
  apply toks_app; [|apply toks_plain; [lia|lia|apply toks_nil]].
  unfold indent_line. destruct (render_line l) as [|c t] eqn:El; [apply toks_nil|].
  apply toks_app; [apply toks_repeat_space|]. rewrite <- El. apply toks_render_line.
Qed.

Theorem multiline_raw_scan :
  forall s margin rest,
    scan_multiline_raw (render_multiline s margin ++ [34; 34; 34] ++ rest)
    = Some (render_multiline s margin, rest).
Proof.
  intros s margin rest. apply (scan_toks (render_multiline s margin) rest).
  apply toks_render_multiline.
Qed.

Example multiline_raw_scan_ex :
  scan_multiline_raw
    (render_multiline [97; 32; 32; 10; 10; 9; 34; 34; 34; 123; 92; 13; 32] 2 ++ [34; 34; 34] ++ [41])
  = Some (render_multiline [97; 32; 32; 10; 10; 9; 34; 34; 34; 123; 92; 13; 32] 2, [41])
  (* an escaped quote does not close; an unterminated body is an error *)
  /\ scan_multiline_raw [92; 34; 34; 34; 34; 34; 7] = Some ([92; 34], [34; 7])
  /\ scan_multiline_raw [97; 34; 34] = None.
Proof. vm_compute. repeat split. Qed.

(* ------------------------------------------------------------------------------------------ *)
(* 5. term position: the formatter's output opens no interpolation hole                        *)
(* ------------------------------------------------------------------------------------------ *)

Lemma mcons_nil r : mcons [] r = r.
Proof. destruct r; reflexivity. Qed.

Lemma mcons_mcons a b r : mcons a (mcons b r) = mcons (a ++ b) r.
Proof. destruct r; cbn [mcons]; [rewrite app_assoc|..]; reflexivity. Qed.

Lemma tproc_plain c pend t :
  c <> 32 -> c <> 9 -> c <> 10 -> c <> 92 -> c <> 123 ->
  process_term_aux false pend (c :: t) = mcons (pend ++ [c]) (process_term_aux false [] t).
Proof.
  intros H32 H9 H10 H92 H123. cbn [process_term_aux]. unfold is_hspace.
  apply Z.eqb_neq in H32. apply Z.eqb_neq in H9. apply Z.eqb_neq in H10.
  apply Z.eqb_neq in H92. apply Z.eqb_neq in H123.
  rewrite H32, H9, H10, H92, H123. reflexivity.
Qed.

Lemma tproc_esc_multi_char c pend x :
  c <> 32 -> c <> 10 ->
  process_term_aux false pend (esc_multi_char c ++ x)
  = mcons (pend ++ [c]) (process_term_aux false [] x).
Proof.
  intros H32 H10.
  destruct (esc_multi_char_spec c)
    as [[Hc He]|[[Hc He]|[[Hc He]|[[Hc He]|[[Hc He]|[H92 [_ [H123 [_ [H9 He]]]]]]]]]];
    rewrite He; try (subst c; reflexivity).
  cbn [app]. apply tproc_plain; assumption.
Qed.

Lemma tproc_all_space_line l tail :
  all_space l = true ->
  process_term_aux false [] (render_line l ++ tail) = mcons l (process_term_aux false [] tail).
Proof.
  intros Hsp. rewrite render_line_all_space by exact Hsp.
  induction l as [|c t IH].
  - cbn [flat_map app]. rewrite mcons_nil. reflexivity.
  - cbn [all_space] in Hsp. apply andb_prop in Hsp. destruct Hsp as [Hc Ht].
    apply Z.eqb_eq in Hc. subst c.
    cbn [flat_map app].
    change (process_term_aux false [] (92 :: 115 :: flat_map (fun _ : Z => [92; 115]) t ++ tail))
      with (mcons ([] ++ [32])
              (process_term_aux false [] (flat_map (fun _ : Z => [92; 115]) t ++ tail))).
    rewrite IH by exact Ht. rewrite mcons_mcons. reflexivity.
Qed.

Lemma tproc_nonspace_line l :
  forall pend tail,
    no_lf l -> all_space l = false ->
    process_term_aux false pend (render_line l ++ tail)
    = mcons (pend ++ l) (process_term_aux false [] tail).
Proof.
  induction l as [|c t IH]; intros pend tail Hlf Hns; [discriminate Hns|].
  inversion Hlf as [|c' t' Hc10 Hlft]; subst c' t'.
  rewrite render_line_cons by exact Hns. rewrite <- app_assoc.
  assert (Hrest : process_term_aux false [] (render_line t ++ tail)
                  = mcons t (process_term_aux false [] tail)).
  { destruct (bool_dec (all_space t) true) as [Et|Et].
    - apply tproc_all_space_line. exact Et.
    - apply not_true_is_false in Et. rewrite (IH [] tail Hlft Et). reflexivity. }
  zcase c 32 E32.
  - change (esc_multi_char 32) with [32]. cbn [app].
    change (process_term_aux false pend (32 :: render_line t ++ tail))
      with (process_term_aux false (pend ++ [32]) (render_line t ++ tail)).
    cbn [all_space] in Hns. change (32 =? 32) with true in Hns. cbn [andb] in Hns.
    rewrite (IH (pend ++ [32]) tail Hlft Hns). rewrite <- app_assoc. reflexivity.
  - rewrite tproc_esc_multi_char by assumption. rewrite Hrest, mcons_mcons, <- app_assoc.
    reflexivity.
Qed.

Lemma tproc_line l tail :
  no_lf l ->
  process_term_aux false [] (render_line l ++ tail) = mcons l (process_term_aux false [] tail).
Proof.
  intros Hlf. destruct (bool_dec (all_space l) true) as [El|El].
  - apply tproc_all_space_line. exact El.
  - apply not_true_is_false in El. rewrite (tproc_nonspace_line l [] tail Hlf El). reflexivity.
Qed.

Lemma tproc_lines ls :
  ls <> [] -> Forall no_lf ls ->
  process_term_aux false [] (join_lf (map render_line ls)) = MText (join_lf ls).
Proof.
  induction ls as [|l ls IH]; intros Hne Hlf; [contradiction|].
  inversion Hlf as [|l' ls' Hl Hls]; subst l' ls'.
  destruct ls as [|l2 ls'].
  - cbn [map join_lf]. rewrite <- (app_nil_r (render_line l)).
    rewrite tproc_line by exact Hl. cbn [process_term_aux mcons].
    rewrite app_nil_r. reflexivity.
  - change (join_lf (map render_line (l :: l2 :: ls')))
      with (render_line l ++ 10 :: join_lf (map render_line (l2 :: ls'))).
    rewrite tproc_line by exact Hl.
    change (process_term_aux false [] (10 :: join_lf (map render_line (l2 :: ls'))))
      with (mcons [10] (process_term_aux false [] (join_lf (map render_line (l2 :: ls'))))).
    rewrite IH by (discriminate || exact Hls).
    rewrite join_lf_cons2. reflexivity.
Qed.

Theorem multiline_term_roundtrip :
  forall s margin, process_multiline_term (render_multiline s margin) = MText s.
Proof.
  intros s margin. unfold process_multiline_term. rewrite multiline_dedent_render.
  unfold render_text, render_lines. rewrite tproc_lines.
  - rewrite join_split_lf. reflexivity.
  - apply split_lf_nonempty.
  - apply split_lf_no_lf.
Qed.

Example multiline_term_roundtrip_ex :
  process_multiline_term (render_multiline [97; 32; 32; 10; 10; 9; 34; 123; 92; 13; 32] 4)
    = MText [97; 32; 32; 10; 10; 9; 34; 123; 92; 13; 32]
  /\ process_multiline_term [10; 32; 97; 123; 98; 125; 10; 32] = MHole
  /\ process_multiline_term [10; 32; 97; 92; 113; 10; 32] = MErr.
Proof. vm_compute. repeat split. Qed.

Print Assumptions escape_single_roundtrip.
Print Assumptions escape_single_scan.
Print Assumptions escape_multiline_text_roundtrip.
Print Assumptions multiline_roundtrip.
Print Assumptions multiline_raw_scan.
Print Assumptions multiline_term_roundtrip.
