(* Sem.v — M-Sem: the SPECIFICATION of quiver types as sets of values.  Independent of the checker
   (types.rs `check_type_relation` is not mentioned here); it is the yardstick for C09 and C08.

   * `inhab P n Σ v t` : value `v`, of nesting depth <= n, belongs to type id `t` of registry `P`
     under the cycle environment `Σ` — the ids of the enclosing binders (unions and callables,
     innermost first): `Cycle(d)` denotes the d-th enclosing binder, taken in the environment
     that binder was itself entered in (typing.rs:714-719: "Cycle(depth) is upward from the
     current position", one level per enclosing union / function type).
     Defined by recursion on n; within one level, membership is the least relation closed under
     the rules of `Inh` (so an unguarded cycle `μX. X | int` denotes just `int`).
   * functions and processes inhabit *by declared signature*: a function value carries the id of
     the (closed) callable type it was declared with and belongs to a callable type when the
     declared signature is a semantic subtype at depth n-1 (parameter/receive contravariant,
     result covariant); a process value belongs to a process type when its declared message and
     result types are contained in the expected ones (the language treats both covariantly).
   * `closedb` : the domain of the C09 theorems — closed, contractive, variable-free type ids.
   * `enum_inhab` / `inhabb` : computable enumerator of the inhabitants up to depth n over a small
     atom universe, and computable membership; used by the semantic oracle of ./check C09 against
     the REAL functions' answers. *)
From Quiver Require Import Base Types.
From Coq Require Import Arith.
Close Scope Z_scope.
Open Scope nat_scope.

Inductive value :=
| VInt (z : Z)
| VBin (b : list Z)
| VRef (r : nat)
| VTup (name : option nat) (fields : list (option nat * value))
| VFun (declared : nat)      (* id of the closed callable type the function was declared with *)
| VProc (declared : nat)     (* id of the closed process type (both directions known) *)
| VRes (r : nat).

Section Spec.
  Variable P : registry.

  Definition env := list nat.

  (* the binder a `Cycle(d)` names: the d-th enclosing one (d >= 1) *)
  Definition resolve_binder (E : env) (d : nat) : option nat :=
    match d with 0 => None | S d' => nth_error E d' end.

  Definition field_ok (R : value -> nat -> Prop) (f : option nat * nat) (fv : option nat * value) : Prop :=
    fst f = fst fv /\ R (snd fv) (snd f).

  (* one level of membership; R is membership one level down (for field values and signatures) *)
  Inductive Inh (R : env -> value -> nat -> Prop) : env -> value -> nat -> Prop :=
  | Inh_int : forall E z t, lookup_type P t = Some TInteger -> Inh R E (VInt z) t
  | Inh_bin : forall E b t, lookup_type P t = Some TBinary -> Inh R E (VBin b) t
  | Inh_ref : forall E r t, lookup_type P t = Some TReference -> Inh R E (VRef r) t
  | Inh_res : forall E r t, lookup_type P t = Some (TResource r) -> Inh R E (VRes r) t
  | Inh_union : forall E v t vs u,
      lookup_type P t = Some (TUnion vs) -> In u vs -> Inh R (t :: E) v u -> Inh R E v t
  | Inh_cycle : forall E v t d s,
      lookup_type P t = Some (TCycle (S d)) -> nth_error E d = Some s ->
      Inh R (skipn (S d) E) v s -> Inh R E v t
  (* a DANGLING back-reference (no such enclosing binder — e.g. a variant pulled out of its
     recursive union by narrowing) is unconstrained: every value belongs to it.  This is how the
     whole code base reads it (types.rs:296 "coinductive reasoning": true); such types are
     outside `closedb` and only ever appear here as RESULTS of narrowing. *)
  | Inh_dangling : forall E v t d,
      lookup_type P t = Some (TCycle d) -> resolve_binder E d = None -> Inh R E v t
  | Inh_tuple : forall E t tid info fs,
      lookup_type P t = Some (TTuple tid) -> lookup_tuple P tid = Some info ->
      Forall2 (field_ok (R E)) (tfields info) fs ->
      Inh R E (VTup (tname info) fs) t
  | Inh_partial : forall E t pname pfields name fs,
      lookup_type P t = Some (TPartial pname pfields) ->
      (pname = None \/ pname = name) ->
      (forall l ft, In (l, ft) pfields -> exists fv, In (Some l, fv) fs /\ R E fv ft) ->
      Inh R E (VTup name fs) t
  | Inh_fun : forall E t p r rc c p' r' rc',
      lookup_type P t = Some (TCallable p r rc) ->
      lookup_type P c = Some (TCallable p' r' rc') ->
      (forall w, R (t :: E) w p -> R [c] w p') ->
      (forall w, R [c] w r' -> R (t :: E) w r) ->
      (forall w, R (t :: E) w rc -> R [c] w rc') ->
      Inh R E (VFun c) t
  | Inh_proc : forall E t s r c s' r',
      lookup_type P t = Some (TProcess s r) ->
      lookup_type P c = Some (TProcess (Some s') (Some r')) ->
      (forall s0, s = Some s0 -> forall w, R [] w s' -> R E w s0) ->
      (forall r0, r = Some r0 -> forall w, R [] w r' -> R E w r0) ->
      Inh R E (VProc c) t.

  Fixpoint inhab (n : nat) : env -> value -> nat -> Prop :=
    match n with
    | 0 => fun _ _ _ => False
    | S m => Inh (inhab m)
    end.

  (* ---------------------------------------------------------------- the domain *)
  (* [g] : for each enclosing binder (innermost first), has a tuple / partial / function / process
     constructor been crossed since it was entered?  A `Cycle` may only name a guarded binder. *)
  Definition all_guarded (g : list bool) : list bool := map (fun _ => true) g.

  Fixpoint nodupb (l : list nat) : bool :=
    match l with
    | [] => true
    | x :: l' => negb (existsb (Nat.eqb x) l') && nodupb l'
    end.

  Fixpoint labels_of (fs : list (option nat * nat)) : list nat :=
    match fs with
    | [] => []
    | (Some l, _) :: fs' => l :: labels_of fs'
    | (None, _) :: fs' => labels_of fs'
    end.

  Fixpoint wfb (k : nat) (g : list bool) (t : nat) : bool :=
    match k with
    | 0 => false
    | S k' =>
      match lookup_type P t with
      | None => false
      | Some TInteger | Some TBinary | Some TReference | Some (TResource _) => true
      | Some (TVariable _) => false
      | Some (TCycle 0) => false
      | Some (TCycle (S d)) => match nth_error g d with Some true => true | _ => false end
      | Some (TUnion vs) => forallb (wfb k' (false :: g)) vs
      | Some (TTuple tid) =>
        match lookup_tuple P tid with
        | None => false
        | Some info => nodupb (labels_of (tfields info))
                       && forallb (fun f => wfb k' (all_guarded g) (snd f)) (tfields info)
        end
      | Some (TPartial _ pfields) =>
        nodupb (map fst pfields) && forallb (fun f => wfb k' (all_guarded g) (snd f)) pfields
      | Some (TCallable p r rc) =>
        let g' := true :: all_guarded g in wfb k' g' p && wfb k' g' r && wfb k' g' rc
      | Some (TProcess (Some s) (Some r)) => wfb k' (all_guarded g) s && wfb k' (all_guarded g) r
      | Some (TProcess _ _) => false
      end
    end.

  (* closed + contractive + variable-free, at top level (no enclosing binder) *)
  Definition closedb (t : nat) : bool := wfb (S (length (types P) + length (tuples P))) [] t.

  (* no `Cycle` reachable at all: the fragment handled by induction on the type's height *)
  Fixpoint cycle_freeb (k : nat) (t : nat) : bool :=
    match k with
    | 0 => false
    | S k' =>
      match lookup_type P t with
      | None => false
      | Some (TCycle _) => false
      | Some (TUnion vs) => forallb (cycle_freeb k') vs
      | Some (TTuple tid) =>
        match lookup_tuple P tid with
        | None => false
        | Some info => forallb (fun f => cycle_freeb k' (snd f)) (tfields info)
        end
      | Some (TPartial _ pfields) => forallb (fun f => cycle_freeb k' (snd f)) pfields
      | Some (TCallable p r rc) => cycle_freeb k' p && cycle_freeb k' r && cycle_freeb k' rc
      | Some (TProcess s r) =>
        match s with Some s0 => cycle_freeb k' s0 | None => true end
        && match r with Some r0 => cycle_freeb k' r0 | None => true end
      | Some _ => true
      end
    end.

  (* ---------------------------------------------------------------- computable side *)
  Fixpoint product {A} (ls : list (list A)) : list (list A) :=
    match ls with
    | [] => [[]]
    | l :: ls' => flat_map (fun x => map (cons x) (product ls')) l
    end.

  Definition opt_nat_eqb := opt_eqb.

  Section Level.
    (* enumeration and membership one level down *)
    Variable en : env -> nat -> list value.
    Variable ih : env -> value -> nat -> bool.
    Variable cap : nat.

    Fixpoint fields_okb (E : env) (fs : list (option nat * nat)) (vs : list (option nat * value)) : bool :=
      match fs, vs with
      | [], [] => true
      | (l, ft) :: fs', (l', fv) :: vs' => opt_eqb l l' && ih E fv ft && fields_okb E fs' vs'
      | _, _ => false
      end.

    Definition has_field (E : env) (vs : list (option nat * value)) (f : nat * nat) : bool :=
      existsb (fun lv => opt_eqb (fst lv) (Some (fst f)) && ih E (snd lv) (snd f)) vs.

    (* semantic containment of signatures one level down, over the enumerated universe *)
    Definition subb (E1 : env) (t1 : nat) (E2 : env) (t2 : nat) : bool :=
      forallb (fun w => ih E2 w t2) (en E1 t1).

    Definition fun_okb (E : env) (t p r rc c : nat) : bool :=
      match lookup_type P c with
      | Some (TCallable p' r' rc') =>
        subb (t :: E) p [c] p' && subb [c] r' (t :: E) r && subb (t :: E) rc [c] rc'
      | _ => false
      end.

    Definition proc_okb (E : env) (s r : option nat) (c : nat) : bool :=
      match lookup_type P c with
      | Some (TProcess (Some s') (Some r')) =>
        match s with Some s0 => subb [] s' E s0 | None => true end
        && match r with Some r0 => subb [] r' E r0 | None => true end
      | _ => false
      end.

    (* membership at this level; k bounds the walk through unions and cycles *)
    Fixpoint walk_inh (k : nat) (E : env) (v : value) (t : nat) : bool :=
      match k with
      | 0 => false
      | S k' =>
        match lookup_type P t with
        | None => false
        | Some TInteger => match v with VInt _ => true | _ => false end
        | Some TBinary => match v with VBin _ => true | _ => false end
        | Some TReference => match v with VRef _ => true | _ => false end
        | Some (TResource r) => match v with VRes r' => Nat.eqb r r' | _ => false end
        | Some (TVariable _) => false
        | Some (TUnion vs) => existsb (walk_inh k' (t :: E) v) vs
        | Some (TCycle 0) => true
        | Some (TCycle (S d)) =>
          match nth_error E d with
          | Some s => walk_inh k' (skipn (S d) E) v s
          | None => true
          end
        | Some (TTuple tid) =>
          match lookup_tuple P tid, v with
          | Some info, VTup name fs => opt_eqb name (tname info) && fields_okb E (tfields info) fs
          | _, _ => false
          end
        | Some (TPartial pname pfields) =>
          match v with
          | VTup name fs =>
            match pname with None => true | Some _ => opt_eqb pname name end
            && forallb (has_field E fs) pfields
          | _ => false
          end
        | Some (TCallable p r rc) =>
          match v with VFun c => fun_okb E t p r rc c | _ => false end
        | Some (TProcess s r) =>
          match v with VProc c => proc_okb E s r c | _ => false end
        end
      end.

    Definition ids_upto (n : nat) : list nat := seq 0 n.

    (* values of a registered tuple shape that can inhabit a partial type: the fields the partial
       names are drawn from the partial's field types, the others from the shape's own types *)
    Definition partial_field_type (pfields : list (nat * nat)) (l : option nat) : option nat :=
      match l with
      | None => None
      | Some lab =>
        match find (fun f => Nat.eqb (fst f) lab) pfields with
        | Some f => Some (snd f)
        | None => None
        end
      end.

    Definition shape_matches (pname : option nat) (pfields : list (nat * nat)) (info : tuple_info) : bool :=
      match pname with None => true | Some _ => opt_eqb pname (tname info) end
      && forallb (fun f => existsb (fun lf => opt_eqb (fst lf) (Some (fst f))) (tfields info)) pfields.

    Fixpoint walk_enum (k : nat) (E : env) (t : nat) : list value :=
      match k with
      | 0 => []
      | S k' =>
        firstn cap
        match lookup_type P t with
        | None => []
        | Some TInteger => [VInt 0%Z]
        | Some TBinary => [VBin []]
        | Some TReference => [VRef 0]
        | Some (TResource r) => [VRes r]
        | Some (TVariable _) => []
        | Some (TUnion vs) => flat_map (walk_enum k' (t :: E)) vs
        | Some (TCycle 0) => []
        | Some (TCycle (S d)) =>
          match nth_error E d with
          | Some s => walk_enum k' (skipn (S d) E) s
          | None => []
          end
        | Some (TTuple tid) =>
          match lookup_tuple P tid with
          | None => []
          | Some info =>
            map (VTup (tname info))
                (product (map (fun f => map (pair (fst f)) (en E (snd f))) (tfields info)))
          end
        | Some (TPartial pname pfields) =>
          flat_map (fun info =>
            if shape_matches pname pfields info then
              map (VTup (tname info))
                  (product (map (fun f =>
                     map (pair (fst f))
                         (match partial_field_type pfields (fst f) with
                          | Some pt => en E pt
                          | None => match en [] (snd f) with [] => [VInt 0%Z] | l => l end
                          end)) (tfields info)))
            else []) (tuples P)
        | Some (TCallable p r rc) =>
          map VFun (filter (fun c => fun_okb E t p r rc c) (ids_upto (length (types P))))
        | Some (TProcess s r) =>
          map VProc (filter (fun c => proc_okb E s r c) (ids_upto (length (types P))))
        end
      end.
  End Level.

  (* (enumerator, membership) at depth n; k = walk fuel, cap = per-node truncation of enumerations *)
  Fixpoint sem (k cap n : nat) : (env -> nat -> list value) * (env -> value -> nat -> bool) :=
    match n with
    | 0 => (fun _ _ => [], fun _ _ _ => false)
    | S m =>
      let lower := sem k cap m in
      (walk_enum (fst lower) (snd lower) cap k, walk_inh (fst lower) (snd lower) k)
    end.

  Definition enum_inhab (k cap n : nat) (E : env) (t : nat) : list value := fst (sem k cap n) E t.
  Definition inhabb (k cap n : nat) (E : env) (v : value) (t : nat) : bool := snd (sem k cap n) E v t.
End Spec.
