(* FormatFrag2Proofs.v - round-trip theorems for the BLOCK fragment of FormatFrag2.v:
   frag2_roundtrip, frag2_format_fixpoint, frag2_source_fixpoint, g_normalize_idempotent, parse_frag2_wf.
   Route (extends FormatFragProofs.v): layout_shape/rsh (reused) ; a character-level grammar x* of the outputs indexed by
   what the parser returns ; C: every rendering of g_program_doc n is in the grammar for some c' with wraps c' n
   (c' = n with some branch bodies wrapped in the print-time braces of g_wrap_breaking_body) ; A: g_normalize splices the
   wrappers away again ; D: the parser is complete on the grammar ; E: strip_trailing_whitespace + collapse_blanks only
   empty the whitespace-only line of a tall step (relation cb), which keeps grammar membership (x_cb).
   Sections are prefixed: E_ text lemmas, A_ normalisation, W_ parser soundness, D_ parser completeness, X_ examples. *)
From Quiver Require Import Base Escape EscapeProofs Pretty PrettyProofs FormatFrag FormatFragProofs FormatFrag2.
From Coq Require Import ZifyBool.

(* ########################################################################################## *)
(* common definitions *)
(* ########################################################################################## *)

(* ========================================================================================== *)
(* common definitions                                                                          *)
(* ========================================================================================== *)

(* compositional description of strip_trailing_whitespace + collapse_blanks: cb p s s' q = from state p (previous
   character solid?), the text s is turned into s' and leaves state q. *)
Inductive cb : bool -> list Z -> list Z -> bool -> Prop :=
| cb_nil p : cb p [] [] p
| cb_app p q r a a' b b' : cb p a a' q -> cb q b b' r -> cb p (a ++ b) (a' ++ b') r
| cb_char p c : c <> 10 -> cb p [c] [c] (solid c)
| cb_lf : cb true [10] [10] false
| cb_blank i : cb true (nl i ++ [10]) [10; 10] false.

(* ---- a usable induction principle for gterm ---- *)
Definition gfield_terms (f : gfield) : list gterm := match f with GField _ v => v end.
Definition gbranch_cond (b : gbranch) : list (list gterm) := match b with GBranch c _ => c end.
Definition gbranch_conseq (b : gbranch) : list (list gterm) :=
  match b with GBranch _ (Some k) => k | GBranch _ None => [] end.

Section GTermInd.
  Variable P : gterm -> Prop.
  Hypothesis Hint : forall z, P (GInt z).
  Hypothesis Hident : forall n, P (GIdent n).
  Hypothesis Hstr : forall s, P (GStr s).
  Hypothesis Htuple : forall name fields,
    Forall (fun f => Forall P (gfield_terms f)) fields -> P (GTuple name fields).
  Hypothesis Hblock : forall bs,
    Forall (fun b => Forall (Forall P) (gbranch_cond b) /\ Forall (Forall P) (gbranch_conseq b)) bs ->
    P (GBlock bs).
  Fixpoint gterm_ind2 (t : gterm) : P t :=
    let goterms := fix goterms (l : list gterm) : Forall P l :=
      match l with [] => Forall_nil P | x :: r => Forall_cons x (gterm_ind2 x) (goterms r) end in
    let goseq := fix goseq (cs : list (list gterm)) : Forall (Forall P) cs :=
      match cs with [] => Forall_nil _ | c :: r => Forall_cons c (goterms c) (goseq r) end in
    match t with
    | GInt z => Hint z
    | GIdent n => Hident n
    | GStr s => Hstr s
    | GTuple name fields =>
        Htuple name fields
          ((fix go (fs : list gfield) : Forall (fun f => Forall P (gfield_terms f)) fs :=
              match fs with
              | [] => Forall_nil _
              | f :: r => Forall_cons f (match f return Forall P (gfield_terms f) with GField _ v => goterms v end) (go r)
              end) fields)
    | GBlock bs =>
        Hblock bs
          ((fix go (l : list gbranch)
              : Forall (fun b => Forall (Forall P) (gbranch_cond b) /\ Forall (Forall P) (gbranch_conseq b)) l :=
              match l with
              | [] => Forall_nil _
              | b :: r =>
                  Forall_cons b
                    (match b return Forall (Forall P) (gbranch_cond b) /\ Forall (Forall P) (gbranch_conseq b) with
                     | GBranch c k =>
                         conj (goseq c)
                              (match k return Forall (Forall P) (gbranch_conseq (GBranch c k)) with
                               | Some s => goseq s
                               | None => Forall_nil _
                               end)
                     end) (go r)
              end) bs)
    end.
End GTermInd.

(* ---- normal forms of g_normalize ---- *)
Inductive nf_t : gterm -> Prop :=
| NF_int z : nf_t (GInt z)
| NF_ident n : nf_t (GIdent n)
| NF_str s : nf_t (GStr s)
| NF_tuple name fs :
    Forall (fun f => Forall (fun t => nf_t t /\ g_redundant_body t = None) (gfield_terms f)) fs ->
    nf_t (GTuple name fs)
| NF_block bs :
    Forall (fun b => Forall (Forall (fun t => nf_t t /\ g_redundant_body t = None)) (gbranch_cond b) /\
                     Forall (Forall (fun t => nf_t t /\ g_redundant_body t = None)) (gbranch_conseq b) /\
                     (length (gbranch_conseq b) <= 1)%nat) bs ->
    nf_t (GBlock bs).
Definition nf_c (c : list gterm) : Prop := Forall (fun t => nf_t t /\ g_redundant_body t = None) c.
Definition nf_s (s : list (list gterm)) : Prop := Forall nf_c s.

(* ---- c' is n with some branch bodies [chain] replaced by [[GBlock [GBranch [chain] None]]] ---- *)
Inductive wraps_t : gterm -> gterm -> Prop :=
| W_int z : wraps_t (GInt z) (GInt z)
| W_ident n : wraps_t (GIdent n) (GIdent n)
| W_str s : wraps_t (GStr s) (GStr s)
| W_tuple name fs' fs : Forall2 wraps_f fs' fs -> wraps_t (GTuple name fs') (GTuple name fs)
| W_block bs' bs : Forall2 wraps_b bs' bs -> wraps_t (GBlock bs') (GBlock bs)
with wraps_f : gfield -> gfield -> Prop :=
| W_field l v' v : Forall2 wraps_t v' v -> wraps_f (GField l v') (GField l v)
with wraps_b : gbranch -> gbranch -> Prop :=
| W_plain c' c : wraps_body c' c -> wraps_b (GBranch c' None) (GBranch c None)
| W_guard c' c k' k :
    Forall2 (Forall2 wraps_t) c' c -> wraps_body k' k -> wraps_b (GBranch c' (Some k')) (GBranch c (Some k))
with wraps_body : list (list gterm) -> list (list gterm) -> Prop :=
| WB_same c' c : Forall2 (Forall2 wraps_t) c' c -> wraps_body c' c
| WB_wrap ch' ch : ch <> [] -> Forall2 wraps_t ch' ch -> wraps_body [[GBlock [GBranch [ch'] None]]] [ch].
Definition wraps_c (c' c : list gterm) : Prop := Forall2 wraps_t c' c.
Definition wraps_s (s' s : list (list gterm)) : Prop := Forall2 (Forall2 wraps_t) s' s.

(* ---- the character-level grammar of the formatter's outputs (indexed by what the parser returns) ---- *)
Definition gssep (w : list Z) : Prop :=
  w = [44; 32] \/ (exists i, w = nl i) \/ (exists i j, w = nl i ++ nl j).

Inductive xterm : gterm -> list Z -> Prop :=
| X_int z : xterm (GInt z) (int_text z)
| X_ident n : wf_ident n = true -> xterm (GIdent n) n
| X_str s : xterm (GStr s) (34 :: escape_single s ++ [34])
| X_unit : xterm (GTuple None []) [91; 93]
| X_name n : wf_tuple_name n = true -> xterm (GTuple (Some n) []) n
| X_tuple name f fs w1 body oc w2 :
    wf_name_opt name -> gws w1 -> gws w2 -> (oc = [] \/ oc = [44]) -> xfields f fs body ->
    xterm (GTuple name (f :: fs)) (topen name ++ w1 ++ body ++ oc ++ w2 ++ [93])
| X_block b bs w1 bar body w2 :
    gsep w1 -> gsep w2 -> (bar = [] \/ bar = [124; 32]) -> xbranches b bs body ->
    xterm (GBlock (b :: bs)) (123 :: w1 ++ bar ++ body ++ w2 ++ [125])
with xfields : gfield -> list gfield -> list Z -> Prop :=
| XF_one f s : xfield f s -> xfields f [] s
| XF_cons f f' fs s sep s' :
    xfield f s -> gsep sep -> xfields f' fs s' -> xfields f (f' :: fs) (s ++ 44 :: sep ++ s')
with xfield : gfield -> list Z -> Prop :=
| XFd_plain t ts s : xchain t ts s -> xfield (GField None (t :: ts)) s
| XFd_label n t ts s :
    wf_ident n = true -> xchain t ts s -> xfield (GField (Some n) (t :: ts)) (n ++ 58 :: 32 :: s)
with xchain : gterm -> list gterm -> list Z -> Prop :=
| XC_one t s : xterm t s -> xchain t [] s
| XC_cons t t' ts s sep s' :
    xterm t s -> gcsep sep -> xchain t' ts s' -> xchain t (t' :: ts) (s ++ sep ++ s')
with xbranches : gbranch -> list gbranch -> list Z -> Prop :=
| XBs_one b s : xbranch b s -> xbranches b [] s
| XBs_cons b b' bs s sep s' :
    xbranch b s -> gsep sep -> xbranches b' bs s' -> xbranches b (b' :: bs) (s ++ sep ++ 124 :: 32 :: s')
with xbranch : gbranch -> list Z -> Prop :=
| XB_plain c cs s : xseq c cs s -> xbranch (GBranch (c :: cs) None) s
| XB_guard c cs k ks s s' :
    xseq c cs s -> xseq k ks s' -> xbranch (GBranch (c :: cs) (Some (k :: ks))) (s ++ [32; 61; 62; 32] ++ s')
with xseq : list gterm -> list (list gterm) -> list Z -> Prop :=
| XS_one t ts s : xchain t ts s -> xseq (t :: ts) [] s
| XS_cons t ts c' cs s sep s' :
    xchain t ts s -> gssep sep -> xseq c' cs s' -> xseq (t :: ts) (c' :: cs) (s ++ sep ++ s').

Scheme xterm_mind := Minimality for xterm Sort Prop
  with xfields_mind := Minimality for xfields Sort Prop
  with xfield_mind := Minimality for xfield Sort Prop
  with xchain_mind := Minimality for xchain Sort Prop
  with xbranches_mind := Minimality for xbranches Sort Prop
  with xbranch_mind := Minimality for xbranch Sort Prop
  with xseq_mind := Minimality for xseq Sort Prop.
Combined Scheme x_mutind from xterm_mind, xfields_mind, xfield_mind, xchain_mind, xbranches_mind, xbranch_mind, xseq_mind.


(* ########################################################################################## *)
(* E. strip_trailing_whitespace and collapse_blanks on cb texts *)
(* ########################################################################################## *)

(* ========================================================================================== *)
(* E. strip_trailing_whitespace and collapse_blanks on cb-texts                                *)
(* ========================================================================================== *)

(* ---- part 1: strip_trailing_whitespace ---- *)

(* the continuation predicate: from state p, with any current line cur compatible with p, stripping the rest s
   of the text yields the current line followed by s' *)
Definition E_K (p : bool) (s s' : list Z) : Prop :=
  forall cur, (p = true -> exists c cur', cur = c :: cur' /\ solid c = true) ->
    Pretty.join_lf (map trim_end (split_lines_aux cur s)) = List.rev cur ++ s'.

Lemma E_K_false_nonnil s s' : E_K false s s' -> s <> [].
Proof.
  intros HK Hs. subst s.
  assert (Hf : false = true -> exists c cur', [32] = c :: cur' /\ solid c = true) by (intros Hd; discriminate Hd).
  specialize (HK [32] Hf). vm_compute in HK. discriminate HK.
Qed.

Lemma E_repeat_snoc (x : Z) i l : repeat x i ++ x :: l = x :: repeat x i ++ l.
Proof.
  induction i as [|i IH]; [reflexivity|].
  cbn [repeat app]. rewrite IH. reflexivity.
Qed.

Lemma E_split_spaces i : forall cur t,
  split_lines_aux cur (repeat 32 i ++ t) = split_lines_aux (repeat 32 i ++ cur) t.
Proof.
  induction i as [|i IH]; intros cur t; [reflexivity|].
  cbn [repeat app split_lines_aux].
  replace (32 =? 10) with false by reflexivity.
  rewrite IH. rewrite E_repeat_snoc. reflexivity.
Qed.

Lemma E_trim_end_ws l : forallb is_ws l = true -> trim_end l = [].
Proof.
  induction l as [|c l IH]; intros H; [reflexivity|].
  cbn [forallb] in H. apply andb_true_iff in H. destruct H as [Hc Hl].
  cbn [trim_end]. rewrite (IH Hl). rewrite Hc. reflexivity.
Qed.

Lemma E_ws_rev_spaces i : forallb is_ws (List.rev (repeat 32 i)) = true.
Proof.
  apply forallb_forall. intros x Hx. apply in_rev in Hx. apply repeat_spec in Hx. subst x. reflexivity.
Qed.

Lemma E_drop_cr_spaces i : drop_cr (repeat 32 i) = repeat 32 i.
Proof. destruct i as [|i]; reflexivity. Qed.

Lemma E_drop_cr_solid c cur : solid c = true -> drop_cr (c :: cur) = c :: cur.
Proof.
  intros Hs. cbn [drop_cr].
  assert (Hx : (c =? 13) = false) by (unfold solid in Hs; lia).
  rewrite Hx. reflexivity.
Qed.

Lemma E_trim_end_solid_rev c cur : solid c = true -> trim_end (List.rev (c :: cur)) = List.rev (c :: cur).
Proof.
  intros Hs. cbn [List.rev]. apply trim_end_solid. apply solid_not_ws. exact Hs.
Qed.

(* one line (ending in a solid character) followed by LF and a continuation that is in state false *)
Lemma E_K_line b b' c cur' :
  E_K false b b' -> solid c = true ->
  Pretty.join_lf (List.rev (c :: cur') :: map trim_end (split_lines_aux [] b)) = List.rev (c :: cur') ++ 10 :: b'.
Proof.
  intros HK Hs.
  pose proof (E_K_false_nonnil b b' HK) as Hb.
  pose proof (split_lines_aux_nonnil b [] (or_introl Hb)) as Hne.
  assert (Hf : false = true -> exists c0 cur0, @nil Z = c0 :: cur0 /\ solid c0 = true)
    by (intros Hd; discriminate Hd).
  pose proof (HK [] Hf) as E. cbn [List.rev app] in E.
  destruct (split_lines_aux [] b) as [|l0 ls] eqn:Esp; [congruence|].
  cbn [map] in E |- *. cbn [Pretty.join_lf]. cbn [Pretty.join_lf] in E. rewrite E. reflexivity.
Qed.

Lemma E_cb_K p a a' q : cb p a a' q -> forall b b', E_K q b b' -> E_K p (a ++ b) (a' ++ b').
Proof.
  induction 1 as [p|p q r a a' b b' _ IH1 _ IH2|p c Hc| |i]; intros b0 b0' HK.
  - exact HK.
  - rewrite <- !app_assoc. apply IH1. apply IH2. exact HK.
  - intros cur Hp. cbn [app split_lines_aux]. apply Z.eqb_neq in Hc. rewrite Hc.
    rewrite (HK (c :: cur)).
    + cbn [List.rev]. rewrite <- app_assoc. reflexivity.
    + intros Hs. exists c, cur. split; [reflexivity|exact Hs].
  - intros cur Hp. destruct (Hp eq_refl) as [c [cur' [E Hs]]]. subst cur.
    cbn [app split_lines_aux]. replace (10 =? 10) with true by reflexivity.
    rewrite (E_drop_cr_solid c cur' Hs). cbn [map].
    rewrite E_trim_end_solid_rev by exact Hs.
    apply E_K_line; assumption.
  - intros cur Hp. destruct (Hp eq_refl) as [c [cur' [E Hs]]]. subst cur.
    unfold nl. cbn [app split_lines_aux]. replace (10 =? 10) with true by reflexivity.
    rewrite (E_drop_cr_solid c cur' Hs). cbn [map].
    rewrite <- app_assoc. rewrite E_split_spaces. rewrite app_nil_r.
    cbn [app split_lines_aux]. replace (10 =? 10) with true by reflexivity.
    rewrite E_drop_cr_spaces. cbn [map].
    rewrite (E_trim_end_ws _ (E_ws_rev_spaces i)).
    rewrite E_trim_end_solid_rev by exact Hs.
    pose proof (E_K_false_nonnil b0 b0' HK) as Hb.
    pose proof (split_lines_aux_nonnil b0 [] (or_introl Hb)) as Hne.
    assert (Hf : false = true -> exists c0 cur0, @nil Z = c0 :: cur0 /\ solid c0 = true)
      by (intros Hd; discriminate Hd).
    pose proof (HK [] Hf) as E. cbn [List.rev app] in E.
    destruct (split_lines_aux [] b0) as [|l0 ls] eqn:Esp; [congruence|].
    cbn [map] in E |- *. cbn [Pretty.join_lf]. cbn [Pretty.join_lf] in E. rewrite E.
    cbn [app]. reflexivity.
Qed.

Lemma E_K_nil : E_K true [] [].
Proof.
  intros cur Hp. destruct (Hp eq_refl) as [c [cur' [E Hs]]]. subst cur.
  cbn [split_lines_aux map Pretty.join_lf List.rev].
  rewrite trim_end_solid by (apply solid_not_ws; exact Hs).
  rewrite app_nil_r. reflexivity.
Qed.

Theorem E_cb_strip : forall s s', cb false s s' true -> strip_trailing_whitespace s = s'.
Proof.
  intros s s' H.
  pose proof (E_cb_K _ _ _ _ H [] [] E_K_nil) as HK. rewrite !app_nil_r in HK.
  unfold strip_trailing_whitespace, split_lines.
  rewrite (HK []); [reflexivity|intros Hd; discriminate Hd].
Qed.

(* ---- part 2: collapse_blanks ---- *)

(* the outputs: E_SS = the previous character is solid; E_SL = the previous character is a LF that follows a solid
   character; E_SN = anything else (start of text, after a non-solid non-LF character, after two LFs) *)
Inductive E_st : Type := E_SS | E_SL | E_SN.
Definition E_of (p : bool) : E_st := if p then E_SS else E_SN.

Fixpoint E_good (st : E_st) (t : list Z) : bool :=
  match t with
  | [] => match st with E_SS => true | _ => false end
  | c :: r => if c =? 10 then match st with E_SS => E_good E_SL r | E_SL => E_good E_SN r | E_SN => false end
              else E_good (E_of (solid c)) r
  end.

Lemma E_good_mono t : E_good E_SN t = true -> E_good E_SL t = true.
Proof.
  destruct t as [|c r]; cbn [E_good]; [intros H; exact H|].
  destruct (c =? 10); intros H; [discriminate H|exact H].
Qed.

Lemma E_cb_good p a a' q : cb p a a' q -> forall b, E_good (E_of q) b = true -> E_good (E_of p) (a' ++ b) = true.
Proof.
  induction 1 as [p|p q r a a' b b' _ IH1 _ IH2|p c Hc| |i]; intros b0 Hb.
  - exact Hb.
  - rewrite <- app_assoc. apply IH1. apply IH2. exact Hb.
  - cbn [app E_good]. apply Z.eqb_neq in Hc. rewrite Hc. exact Hb.
  - cbn [app E_good E_of]. replace (10 =? 10) with true by reflexivity. apply E_good_mono. exact Hb.
  - cbn [app E_good E_of]. replace (10 =? 10) with true by reflexivity. exact Hb.
Qed.

Definition E_inv (st : E_st) (cur : list Z) (pb : bool) : Prop :=
  match st with
  | E_SS => exists c cur', cur = c :: cur' /\ solid c = true
  | E_SL => cur = [] /\ pb = false
  | E_SN => True
  end.

Lemma E_line_blank_solid l c : solid c = true -> line_blank (l ++ [c]) = false.
Proof.
  intros Hs.
  assert (H1 : is_ws c = false) by (apply solid_not_ws; exact Hs).
  assert (H2 : is_msp c = false) by (unfold is_msp, is_hsp, solid in *; lia).
  unfold line_blank. rewrite !forallb_app. cbn [forallb]. rewrite H1, H2.
  cbn [andb]. rewrite !andb_false_r. reflexivity.
Qed.

Lemma E_join_cons l X r :
  Pretty.join_lf (drop_trailing_blank X) = r -> r <> [] ->
  Pretty.join_lf (drop_trailing_blank (l :: X)) = l ++ 10 :: r.
Proof.
  intros E Hr. cbn [drop_trailing_blank].
  destruct (drop_trailing_blank X) as [|l0 ls] eqn:Ed.
  - cbn [Pretty.join_lf] in E. congruence.
  - cbn [Pretty.join_lf] in E |- *. rewrite E. reflexivity.
Qed.

Lemma E_good_collapse : forall t st cur pb,
  E_good st t = true -> E_inv st cur pb ->
  Pretty.join_lf (drop_trailing_blank (collapse_lines pb (split_lines_aux cur t))) = List.rev cur ++ t.
Proof.
  induction t as [|c r IH]; intros st cur pb Hg Hi.
  - cbn [E_good] in Hg. destruct st; try discriminate Hg.
    cbn [E_inv] in Hi. destruct Hi as [c [cur' [E Hs]]]. subst cur.
    cbn [split_lines_aux collapse_lines List.rev].
    rewrite (E_line_blank_solid _ _ Hs).
    cbn [collapse_lines drop_trailing_blank].
    destruct (List.rev cur' ++ [c]) as [|x l] eqn:El; [destruct (List.rev cur'); discriminate El|].
    cbn [Pretty.join_lf]. rewrite app_nil_r. reflexivity.
  - cbn [E_good] in Hg. cbn [split_lines_aux]. destruct (c =? 10) eqn:E10.
    + apply Z.eqb_eq in E10. subst c. destruct st; [| |discriminate Hg].
      * cbn [E_inv] in Hi. destruct Hi as [c [cur' [E Hs]]]. subst cur.
        rewrite (E_drop_cr_solid c cur' Hs).
        cbn [collapse_lines List.rev]. rewrite (E_line_blank_solid _ _ Hs).
        assert (Hr : r <> []) by (intros Hd; subst r; cbn [E_good] in Hg; discriminate Hg).
        apply E_join_cons; [|exact Hr].
        apply (IH E_SL [] false Hg). cbn [E_inv]. split; reflexivity.
      * cbn [E_inv] in Hi. destruct Hi as [Ec Epb]. subst cur pb.
        cbn [drop_cr List.rev collapse_lines].
        replace (line_blank []) with true by reflexivity.
        assert (Hr : r <> []) by (intros Hd; subst r; cbn [E_good] in Hg; discriminate Hg).
        apply E_join_cons; [|exact Hr].
        apply (IH E_SN [] true Hg). exact I.
    + rewrite (IH (E_of (solid c)) (c :: cur) pb Hg).
      * cbn [List.rev]. rewrite <- app_assoc. reflexivity.
      * destruct (solid c) eqn:Hs; cbn [E_of E_inv]; [|exact I].
        exists c, cur. split; [reflexivity|exact Hs].
Qed.

Theorem E_cb_collapse : forall s s', cb false s s' true -> collapse_blanks s' = s' ++ [10].
Proof.
  intros s s' H.
  pose proof (E_cb_good _ _ _ _ H [] eq_refl) as Hg. rewrite app_nil_r in Hg.
  unfold collapse_blanks, Pretty.split_lines.
  rewrite (E_good_collapse s' E_SN [] true Hg I). reflexivity.
Qed.

Example E_sanity : collapse_blanks (strip_trailing_whitespace [97;10;32;32;10;32;98]) = [97;10;10;32;98;10].
Proof. vm_compute. reflexivity. Qed.


(* ########################################################################################## *)
(* A. facts about g_normalize *)
(* ########################################################################################## *)

(* ---- step 0: nested fixes unfolded ---- *)
Definition A_strip_field (f : gfield) : gfield :=
  match f with GField l v => GField l (g_strip_chain v) end.
Definition A_strip_branch (b : gbranch) : gbranch :=
  match b with
  | GBranch c k => GBranch (map g_strip_chain c) (option_map (fun s => g_group (map g_strip_chain s)) k)
  end.

Lemma A_terms_eq v :
  (fix terms (ts : list gterm) : list gterm :=
     match ts with [] => [] | x :: r' => g_strip_term x :: terms r' end) v = map g_strip_term v.
Proof.
  induction v as [|x v IHv]; [reflexivity|]. cbn [map]. rewrite <- IHv. reflexivity.
Qed.

Lemma A_chains_eq cs :
  (fix chains (cs : list (list gterm)) : list (list gterm) :=
     match cs with
     | [] => []
     | ch :: r' =>
         g_splice ((fix terms (ts : list gterm) : list gterm :=
                      match ts with [] => [] | x :: r'' => g_strip_term x :: terms r'' end) ch) :: chains r'
     end) cs = map g_strip_chain cs.
Proof.
  induction cs as [|c cs IHcs]; [reflexivity|]. cbn [map]. rewrite <- IHcs. unfold g_strip_chain.
  reflexivity.
Qed.

Lemma A_strip_tuple name fs :
  g_strip_term (GTuple name fs) = GTuple name (map A_strip_field fs).
Proof.
  cbn [g_strip_term]. f_equal.
  induction fs as [|[l v] r IH]; [reflexivity|]. cbn [map A_strip_field]. rewrite <- IH.
  reflexivity.
Qed.

Lemma A_strip_block bs :
  g_strip_term (GBlock bs) = GBlock (map A_strip_branch bs).
Proof.
  cbn [g_strip_term]. f_equal.
  induction bs as [|[c k] r IH]; [reflexivity|]. cbn [map A_strip_branch]. rewrite <- IH.
  destruct k as [s|]; reflexivity.
Qed.

Definition A_wf_field (f : gfield) : bool :=
  match f with
  | GField l v => match l with Some n => wf_ident n | None => true end && g_wf_chain v
  end.
Definition A_wf_branch (b : gbranch) : bool :=
  match b with
  | GBranch c k => g_wf_seq c && match k with Some s => g_wf_seq s | None => true end
  end.

Lemma A_wf_terms_eq v :
  (fix wf_terms (ts : list gterm) : bool :=
     match ts with [] => true | x :: r => g_wf_term x && wf_terms r end) v = forallb g_wf_term v.
Proof.
  induction v as [|x v IHv]; [reflexivity|]. cbn [forallb]. rewrite <- IHv. reflexivity.
Qed.

Lemma A_wf_seq_eq cs :
  (fix wf_seq (cs : list (list gterm)) : bool :=
     match cs with
     | [] => true
     | c :: r =>
         (negb (match c with [] => true | _ => false end) &&
          (fix wf_terms (ts : list gterm) : bool :=
             match ts with [] => true | x :: r => g_wf_term x && wf_terms r end) c) && wf_seq r
     end) cs = forallb g_wf_chain cs.
Proof.
  induction cs as [|c cs IHcs]; [reflexivity|]. cbn [forallb]. rewrite <- IHcs. unfold g_wf_chain.
  reflexivity.
Qed.

Lemma A_wf_tuple name fs :
  g_wf_term (GTuple name fs) =
  match name with Some n => wf_tuple_name n | None => true end && forallb A_wf_field fs.
Proof.
  cbn [g_wf_term]. f_equal.
  induction fs as [|[l v] r IH]; [reflexivity|]. cbn [forallb A_wf_field]. rewrite <- IH.
  reflexivity.
Qed.

Lemma A_wf_block bs :
  g_wf_term (GBlock bs) =
  negb (match bs with [] => true | _ => false end) && forallb A_wf_branch bs.
Proof.
  cbn [g_wf_term]. f_equal.
  induction bs as [|[c k] r IH]; [reflexivity|]. cbn [forallb A_wf_branch]. rewrite <- IH.
  unfold g_wf_seq. destruct k as [s|]; reflexivity.
Qed.

(* ---- redundant bodies ---- *)
Lemma A_redundant_some t b :
  g_redundant_body t = Some b -> t = GBlock [GBranch [b] None] /\ b <> [].
Proof.
  destruct t as [z|n|s|name fs|[|[[|c [|c2 cs]] [k|]] [|b2 bs]]]; simpl; try discriminate.
  destruct c as [|x c]; [discriminate|]. intros H; injection H as <-; split; [reflexivity|discriminate].
Qed.

Lemma A_redundant_block_none s :
  (1 <? length s)%nat = true -> g_redundant_body (GBlock [GBranch s None]) = None.
Proof.
  destruct s as [|c1 [|c2 s]]; simpl; intros H; try discriminate H; reflexivity.
Qed.

Lemma A_group_id s : (length s <= 1)%nat -> g_group s = s.
Proof.
  unfold g_group. intros H. destruct (1 <? length s)%nat eqn:E; [apply Nat.ltb_lt in E; lia|reflexivity].
Qed.

Lemma A_splice_id c : Forall (fun t => g_redundant_body t = None) c -> g_splice c = c.
Proof.
  induction 1 as [|t c Ht Hc IH]; cbn [g_splice]; [reflexivity|]. rewrite Ht, IH. reflexivity.
Qed.

Lemma A_nf_c_splice_id c : nf_c c -> g_splice c = c.
Proof.
  intros Hn. apply A_splice_id. eapply Forall_impl; [|exact Hn]. intros t [_ H]; exact H.
Qed.

(* ---- g_normalize yields normal forms ---- *)
Lemma A_nf_body t b : nf_t t -> g_redundant_body t = Some b -> nf_c b.
Proof.
  intros Hnf Hr. apply A_redundant_some in Hr as [-> Hne].
  inversion Hnf as [| | | |bs HF]; subst. inversion HF as [|b0 l [Hc _] _]; subst.
  cbn [gbranch_cond] in Hc. inversion Hc; subst. assumption.
Qed.

Lemma A_splice_nf c : Forall nf_t c -> nf_c (g_splice c).
Proof.
  unfold nf_c. induction 1 as [|t c Ht Hc IH]; cbn [g_splice]; [constructor|].
  destruct (g_redundant_body t) as [b|] eqn:E.
  - apply Forall_app; split; [exact (A_nf_body t b Ht E)|exact IH].
  - constructor; [split; assumption|exact IH].
Qed.

Lemma A_strip_chain_nf c : Forall (fun t => nf_t (g_strip_term t)) c -> nf_c (g_strip_chain c).
Proof.
  unfold g_strip_chain. intros H. apply A_splice_nf. apply Forall_map. exact H.
Qed.

Lemma A_strip_seq_nf s :
  Forall (Forall (fun t => nf_t (g_strip_term t))) s -> nf_s (map g_strip_chain s).
Proof.
  unfold nf_s. intros H. apply Forall_map. eapply Forall_impl; [|exact H]. intros c. apply A_strip_chain_nf.
Qed.

Lemma A_group_nf s : nf_s s -> nf_s (g_group s) /\ (length (g_group s) <= 1)%nat.
Proof.
  intros H. unfold g_group. destruct (1 <? @length gchain s)%nat eqn:E.
  - split; [|cbn [length]; lia]. constructor; [|constructor]. constructor; [|constructor]. split.
    + apply NF_block. constructor; [|constructor]. cbn [gbranch_cond gbranch_conseq length].
      split; [exact H|split; [constructor|lia]].
    + apply A_redundant_block_none; exact E.
  - split; [assumption|apply Nat.ltb_ge in E; lia].
Qed.

Lemma A_strip_nf t : nf_t (g_strip_term t).
Proof.
  induction t as [z|n|s|name fs IHt|bs IHt] using gterm_ind2.
  - apply NF_int.
  - apply NF_ident.
  - apply NF_str.
  - rewrite A_strip_tuple. apply NF_tuple. apply Forall_map. eapply Forall_impl; [|exact IHt].
    intros [l v] Hv. cbn [A_strip_field gfield_terms] in *. apply A_strip_chain_nf. exact Hv.
  - rewrite A_strip_block. apply NF_block. apply Forall_map. eapply Forall_impl; [|exact IHt].
    intros [c k] [Hc Hk]. cbn [A_strip_branch gbranch_cond] in *.
    split; [apply A_strip_seq_nf; exact Hc|].
    destruct k as [s|]; cbn [option_map gbranch_conseq] in *.
    + apply A_group_nf. apply A_strip_seq_nf. exact Hk.
    + split; [constructor|cbn [length]; lia].
Qed.

Theorem A_normalize_nf : forall s, nf_s (g_normalize s).
Proof.
  intros s. unfold g_normalize. apply A_strip_seq_nf.
  apply Forall_forall; intros c _. apply Forall_forall; intros t _. apply A_strip_nf.
Qed.

(* ---- wrapped normal forms normalise to the normal form ---- *)
Definition A_wIH (t : gterm) : Prop := forall t', wraps_t t' t -> nf_t t -> g_strip_term t' = t.

Lemma A_wraps_chain c' c :
  Forall2 wraps_t c' c -> nf_c c -> Forall A_wIH c -> g_strip_chain c' = c.
Proof.
  intros HW Hn HI. unfold g_strip_chain.
  assert (map g_strip_term c' = c) as ->.
  { induction HW as [|t' t c' c Ht HW IH]; [reflexivity|].
    inversion Hn as [|? ? [Hnt _] Hn2]; inversion HI as [|? ? HI1 HI2]; subst.
    cbn [map]. f_equal; [apply HI1; assumption|apply IH; assumption]. }
  apply A_nf_c_splice_id. exact Hn.
Qed.

Lemma A_wraps_seq s' s :
  Forall2 (Forall2 wraps_t) s' s -> nf_s s -> Forall (Forall A_wIH) s -> map g_strip_chain s' = s.
Proof.
  induction 1 as [|c' c s' s Hc HW IH]; intros Hn HI; [reflexivity|].
  inversion Hn as [|? ? Hn1 Hn2]; inversion HI as [|? ? HI1 HI2]; subst. cbn [map].
  f_equal; [apply A_wraps_chain; assumption|apply IH; assumption].
Qed.

Lemma A_wraps_body_strip k' k :
  wraps_body k' k -> nf_s k -> Forall (Forall A_wIH) k -> map g_strip_chain k' = k.
Proof.
  intros HW Hn HI. inversion HW as [c' c HS|ch' ch Hne HC]; subst.
  - apply A_wraps_seq; assumption.
  - cbn [map]. f_equal. inversion Hn as [|? ? Hn1 _]; inversion HI as [|? ? HI1 _]; subst.
    unfold g_strip_chain at 1. cbn [map]. rewrite A_strip_block. cbn [map A_strip_branch option_map].
    rewrite (A_wraps_chain ch' ch HC Hn1 HI1).
    destruct ch as [|x ch]; [congruence|]. cbn [g_splice g_redundant_body]. rewrite app_nil_r. reflexivity.
Qed.

Lemma A_wraps_term t : A_wIH t.
Proof.
  induction t as [z|n|s|name fs IHt|bs IHt] using gterm_ind2; intros t' HW Hn.
  - inversion HW; subst; reflexivity.
  - inversion HW; subst; reflexivity.
  - inversion HW; subst; reflexivity.
  - inversion HW as [| | |name' fs' fs0 HFF|]; subst. rewrite A_strip_tuple. f_equal.
    inversion Hn as [| | |name' fs0 HF|]; subst. clear HW Hn.
    revert IHt HF. induction HFF as [|f' f fs' fs Hf HFs IHF]; intros IHt HF; [reflexivity|].
    inversion IHt as [|? ? I1 I2]; inversion HF as [|? ? F1 F2]; subst. cbn [map].
    f_equal; [|apply IHF; assumption].
    inversion Hf as [l v' v Hv]; subst. cbn [A_strip_field gfield_terms] in *. f_equal.
    apply A_wraps_chain; assumption.
  - inversion HW as [| | | |bs' bs0 HFF]; subst. rewrite A_strip_block. f_equal.
    inversion Hn as [| | | |bs0 HF]; subst. clear HW Hn.
    revert IHt HF. induction HFF as [|b' b bs' bs Hb HFs IHF]; intros IHt HF; [reflexivity|].
    inversion IHt as [|? ? [Ic Ik] I2]; inversion HF as [|? ? [Fc [Fk Fl]] F2]; subst. cbn [map].
    f_equal; [|apply IHF; assumption].
    inversion Hb as [c' c Hbody|c' c k' k Hc Hk]; subst;
      cbn [A_strip_branch gbranch_cond gbranch_conseq option_map] in *.
    + f_equal. apply A_wraps_body_strip; assumption.
    + f_equal; [apply A_wraps_seq; assumption|]. f_equal.
      rewrite (A_wraps_body_strip k' k Hk Fk Ik). apply A_group_id. exact Fl.
Qed.

Theorem A_wraps_normalize : forall s' n, wraps_s s' n -> nf_s n -> g_normalize s' = n.
Proof.
  intros s' n HW Hn. unfold g_normalize. apply A_wraps_seq; [exact HW|exact Hn|].
  apply Forall_forall; intros c _. apply Forall_forall; intros t _. apply A_wraps_term.
Qed.

(* ---- normal forms are fixed points ---- *)
Definition A_fIH (t : gterm) : Prop := nf_t t -> g_strip_term t = t.

Lemma A_chain_fix c : nf_c c -> Forall A_fIH c -> g_strip_chain c = c.
Proof.
  intros Hn HI. unfold g_strip_chain.
  assert (map g_strip_term c = c) as ->.
  { induction Hn as [|t c [Ht _] Hc IH]; [reflexivity|]. inversion HI as [|? ? HI1 HI2]; subst.
    cbn [map]. f_equal; [apply HI1; assumption|apply IH; assumption]. }
  apply A_nf_c_splice_id. exact Hn.
Qed.

Lemma A_seq_fix s : nf_s s -> Forall (Forall A_fIH) s -> map g_strip_chain s = s.
Proof.
  induction 1 as [|c s Hc Hs IH]; intros HI; [reflexivity|]. inversion HI as [|? ? HI1 HI2]; subst.
  cbn [map]. f_equal; [apply A_chain_fix; assumption|apply IH; assumption].
Qed.

Lemma A_term_fix t : A_fIH t.
Proof.
  induction t as [z|n|s|name fs IHt|bs IHt] using gterm_ind2; intros Hn; try reflexivity.
  - rewrite A_strip_tuple. f_equal. inversion Hn as [| | |name' fs' HF|]; subst. clear Hn.
    induction fs as [|[l v] fs IHfs]; [reflexivity|].
    inversion IHt as [|? ? I1 I2]; inversion HF as [|? ? F1 F2]; subst. cbn [map A_strip_field].
    f_equal; [|apply IHfs; assumption]. f_equal. cbn [gfield_terms] in *. apply A_chain_fix; assumption.
  - rewrite A_strip_block. f_equal. inversion Hn as [| | | |bs' HF]; subst. clear Hn.
    induction bs as [|[c k] bs IHbs]; [reflexivity|].
    inversion IHt as [|? ? [Ic Ik] I2]; inversion HF as [|? ? [Fc [Fk Fl]] F2]; subst.
    cbn [map A_strip_branch]. f_equal; [|apply IHbs; assumption].
    cbn [gbranch_cond] in *. rewrite (A_seq_fix c Fc Ic).
    destruct k as [s|]; cbn [option_map gbranch_conseq] in *; [|reflexivity].
    rewrite (A_seq_fix s Fk Ik). rewrite A_group_id by exact Fl. reflexivity.
Qed.

Theorem A_nf_fix : forall s, nf_s s -> g_normalize s = s.
Proof.
  intros s H. unfold g_normalize. apply A_seq_fix; [exact H|].
  apply Forall_forall; intros c _. apply Forall_forall; intros t _. apply A_term_fix.
Qed.

Theorem g_normalize_idempotent : forall s, g_normalize (g_normalize s) = g_normalize s.
Proof.
  intros s. apply A_nf_fix. apply A_normalize_nf.
Qed.

(* ---- well-formedness is preserved ---- *)
Lemma A_wf_chain_iff c : g_wf_chain c = true <-> c <> [] /\ forallb g_wf_term c = true.
Proof.
  unfold g_wf_chain. destruct c as [|t c]; cbn [negb andb].
  - split; [discriminate|intros [H _]; congruence].
  - split; [intros H; split; [discriminate|exact H]|intros [_ H]; exact H].
Qed.

Lemma A_wf_seq_iff s : g_wf_seq s = true <-> s <> [] /\ forallb g_wf_chain s = true.
Proof.
  unfold g_wf_seq. destruct s as [|c s]; cbn [negb andb].
  - split; [discriminate|intros [H _]; congruence].
  - split; [intros H; split; [discriminate|exact H]|intros [_ H]; exact H].
Qed.

Lemma A_wf_body t b :
  g_wf_term t = true -> g_redundant_body t = Some b -> forallb g_wf_term b = true.
Proof.
  intros Hw Hr. apply A_redundant_some in Hr as [-> Hne]. rewrite A_wf_block in Hw.
  cbn [forallb A_wf_branch negb] in Hw. unfold g_wf_seq, g_wf_chain in Hw. cbn [forallb] in Hw.
  rewrite !andb_true_iff in Hw. tauto.
Qed.

Lemma A_splice_wf c : forallb g_wf_term c = true -> forallb g_wf_term (g_splice c) = true.
Proof.
  induction c as [|t c IH]; intros H; [reflexivity|]. cbn [forallb] in H.
  apply andb_true_iff in H as [Ht Hc]. cbn [g_splice].
  destruct (g_redundant_body t) as [b|] eqn:E.
  - rewrite forallb_app. rewrite (A_wf_body t b Ht E), (IH Hc). reflexivity.
  - cbn [forallb]. rewrite Ht, (IH Hc). reflexivity.
Qed.

Lemma A_splice_nonempty c : c <> [] -> g_splice c <> [].
Proof.
  destruct c as [|t c]; [congruence|]. intros _. cbn [g_splice].
  destruct (g_redundant_body t) as [b|] eqn:E; [|discriminate].
  apply A_redundant_some in E as [_ Hne]. destruct b as [|x b]; [congruence|discriminate].
Qed.

Definition A_wfIH (t : gterm) : Prop := g_wf_term t = true -> g_wf_term (g_strip_term t) = true.

Lemma A_strip_chain_wf c :
  g_wf_chain c = true -> Forall A_wfIH c -> g_wf_chain (g_strip_chain c) = true.
Proof.
  intros H HI. apply A_wf_chain_iff in H as [Hne Hw]. apply A_wf_chain_iff. unfold g_strip_chain. split.
  - apply A_splice_nonempty. destruct c; [congruence|discriminate].
  - apply A_splice_wf. clear Hne. induction HI as [|t c Ht HI IH]; [reflexivity|].
    cbn [forallb map] in *. apply andb_true_iff in Hw as [H1 H2]. rewrite (Ht H1), (IH H2). reflexivity.
Qed.

Lemma A_strip_seq_wf s :
  g_wf_seq s = true -> Forall (Forall A_wfIH) s -> g_wf_seq (map g_strip_chain s) = true.
Proof.
  intros H HI. apply A_wf_seq_iff in H as [Hne Hw]. apply A_wf_seq_iff. split.
  - destruct s; [congruence|discriminate].
  - clear Hne. induction HI as [|c s Hc HI IH]; [reflexivity|].
    cbn [forallb map] in *. apply andb_true_iff in Hw as [H1 H2].
    rewrite (A_strip_chain_wf c H1 Hc), (IH H2). reflexivity.
Qed.

Lemma A_group_wf (s : gseq) : g_wf_seq s = true -> g_wf_seq (g_group s) = true.
Proof.
  intros H. unfold g_group. destruct (1 <? length s)%nat; [|exact H].
  unfold g_wf_seq at 1. cbn [forallb negb andb]. unfold g_wf_chain. cbn [forallb negb andb].
  rewrite A_wf_block. cbn [forallb A_wf_branch negb andb]. rewrite H. reflexivity.
Qed.

Lemma A_strip_wf t : A_wfIH t.
Proof.
  induction t as [z|n|s|name fs IHt|bs IHt] using gterm_ind2; intros Hw; try exact Hw.
  - rewrite A_strip_tuple. rewrite A_wf_tuple in Hw |- *. apply andb_true_iff in Hw as [Hn Hf].
    rewrite Hn. cbn [andb]. clear Hn.
    induction fs as [|[l v] fs IHfs]; [reflexivity|]. inversion IHt as [|? ? I1 I2]; subst.
    cbn [forallb map A_strip_field A_wf_field gfield_terms] in *.
    apply andb_true_iff in Hf as [Hf1 Hf2]. apply andb_true_iff in Hf1 as [Hl Hv].
    rewrite Hl, (A_strip_chain_wf v Hv I1), (IHfs I2 Hf2). reflexivity.
  - rewrite A_strip_block. rewrite A_wf_block in Hw |- *. apply andb_true_iff in Hw as [Hne Hb].
    apply andb_true_iff. split; [destruct bs; [exact Hne|reflexivity]|]. clear Hne.
    induction bs as [|[c k] bs IHbs]; [reflexivity|]. inversion IHt as [|? ? [Ic Ik] I2]; subst.
    cbn [forallb map A_strip_branch A_wf_branch gbranch_cond] in *.
    apply andb_true_iff in Hb as [Hb1 Hr]. apply andb_true_iff in Hb1 as [Hc Hk].
    rewrite (A_strip_seq_wf c Hc Ic), (IHbs I2 Hr).
    destruct k as [s|]; cbn [option_map gbranch_conseq] in *.
    + rewrite (A_group_wf _ (A_strip_seq_wf s Hk Ik)). reflexivity.
    + reflexivity.
Qed.

Theorem A_normalize_wf : forall s, g_wf_seq s = true -> g_wf_seq (g_normalize s) = true.
Proof.
  intros s H. unfold g_normalize. apply A_strip_seq_wf; [exact H|].
  apply Forall_forall; intros c _. apply Forall_forall; intros t _. apply A_strip_wf.
Qed.


(* ########################################################################################## *)
(* W. the parser only produces well-formed sequences *)
(* ########################################################################################## *)

(* ========================================================================================== *)
(* the fragment-2 parser only produces well-formed sequences                                   *)
(* ========================================================================================== *)

Definition W_name_ok (name : option (list Z)) : bool :=
  match name with Some n => wf_tuple_name n | None => true end.
Definition W_label_ok (label : option (list Z)) : bool :=
  match label with Some n => wf_ident n | None => true end.
Definition W_fok (f : gfield) : bool :=
  match f with GField l v => W_label_ok l && g_wf_chain v end.
Definition W_bok (b : gbranch) : bool :=
  match b with
  | GBranch c k => g_wf_seq c && match k with Some s => g_wf_seq s | None => true end
  end.

(* ---- g_wf_term with its nested local fixpoints unfolded ---- *)
Lemma W_wf_term_tuple name fs :
  g_wf_term (GTuple name fs) = W_name_ok name && forallb W_fok fs.
Proof.
  cbn [g_wf_term]. unfold W_name_ok. f_equal.
  induction fs as [|[l v] r IH]; [reflexivity|].
  cbn [forallb W_fok]. rewrite IH. reflexivity.
Qed.

Lemma W_wf_term_block bs :
  g_wf_term (GBlock bs) = negb (match bs with [] => true | _ => false end) && forallb W_bok bs.
Proof.
  cbn [g_wf_term]. f_equal.
  induction bs as [|[c k] r IH]; [reflexivity|].
  cbn [forallb W_bok]. rewrite IH. destruct k as [s|]; reflexivity.
Qed.

(* the propositional forms *)
Lemma W_wf_tuple_iff name fs :
  g_wf_term (GTuple name fs) = true <->
  W_name_ok name = true /\
  Forall (fun f => match f with GField l _ => W_label_ok l = true end /\ g_wf_chain (gfield_terms f) = true) fs.
Proof.
  rewrite W_wf_term_tuple, andb_true_iff, forallb_forall, Forall_forall.
  split; intros [Hn Hf]; (split; [exact Hn|]); intros [l v] Hin; specialize (Hf _ Hin);
    cbn [W_fok gfield_terms] in *; [apply andb_true_iff in Hf|apply andb_true_iff]; exact Hf.
Qed.

Lemma W_wf_block_iff bs :
  g_wf_term (GBlock bs) = true <->
  bs <> [] /\
  Forall (fun b => match b with
                   | GBranch c k =>
                       c <> [] /\ forallb g_wf_chain c = true /\
                       match k with Some s => s <> [] /\ forallb g_wf_chain s = true | None => True end
                   end) bs.
Proof.
  assert (Hs : forall s : list (list gterm), g_wf_seq s = true <-> s <> [] /\ forallb g_wf_chain s = true).
  { intros s. unfold g_wf_seq. rewrite andb_true_iff. destruct s as [|c s]; cbn [negb]; split.
    - intros [Hd _]; discriminate.
    - intros [Hd _]; congruence.
    - intros [_ Hf]. split; [discriminate|exact Hf].
    - intros [_ Hf]. split; [reflexivity|exact Hf]. }
  rewrite W_wf_term_block, andb_true_iff, forallb_forall, Forall_forall.
  split; intros [Hn Hf]; split.
  - destruct bs; [discriminate|discriminate].
  - intros [c k] Hin. specialize (Hf _ Hin). cbn [W_bok] in Hf. apply andb_true_iff in Hf.
    destruct Hf as [Hc Hk]. apply Hs in Hc. destruct Hc as [Hc1 Hc2]. split; [exact Hc1|]. split; [exact Hc2|].
    destruct k as [s|]; [apply Hs; exact Hk|exact I].
  - destruct bs; [congruence|reflexivity].
  - intros [c k] Hin. specialize (Hf _ Hin). cbn [W_bok]. destruct Hf as (Hc1 & Hc2 & Hk).
    apply andb_true_iff. split; [apply Hs; split; assumption|].
    destruct k as [s|]; [apply Hs; exact Hk|reflexivity].
Qed.

Section W_Sound2.
  Variable pt : list Z -> option (gterm * list Z).
  Hypothesis pt_wf : forall s t r, pt s = Some (t, r) -> g_wf_term t = true.

  Lemma W_g_p_chain_rest_wf : forall n s ts r,
    g_p_chain_rest pt n s = (ts, r) -> forallb g_wf_term ts = true.
  Proof.
    induction n as [|n IH]; intros s ts r H; cbn [g_p_chain_rest] in H.
    - inversion H; subst. reflexivity.
    - destruct (p_chain_sep s) as [r1|]; [|inversion H; subst; reflexivity].
      destruct (pt r1) as [[t r2]|] eqn:Ept; [|inversion H; subst; reflexivity].
      destruct (g_p_chain_rest pt n r2) as [ts' r3] eqn:Er. inversion H; subst.
      cbn [forallb]. rewrite (pt_wf _ _ _ Ept), (IH _ _ _ Er). reflexivity.
  Qed.

  Lemma W_g_p_chain_wf s ts r : g_p_chain pt s = Some (ts, r) -> g_wf_chain ts = true.
  Proof.
    unfold g_p_chain. destruct (pt s) as [[t r1]|] eqn:Ept; [|discriminate].
    destruct (g_p_chain_rest pt (length r1) r1) as [ts' r2] eqn:Er. intros H. inversion H; subst.
    unfold g_wf_chain. cbn [forallb negb andb].
    rewrite (pt_wf _ _ _ Ept), (W_g_p_chain_rest_wf _ _ _ _ Er). reflexivity.
  Qed.

  Lemma W_g_p_field_wf s f r : g_p_field pt s = Some (f, r) -> W_fok f = true.
  Proof.
    unfold g_p_field. intros H.
    assert (Hplain : match g_p_chain pt s with Some (ts, r0) => Some (GField None ts, r0) | None => None end
                     = Some (f, r) -> W_fok f = true).
    { destruct (g_p_chain pt s) as [[ts r0]|] eqn:Ec; [|discriminate]. intros H0. inversion H0; subst.
      cbn [W_fok W_label_ok andb]. apply (W_g_p_chain_wf _ _ _ Ec). }
    destruct (p_identifier s) as [[n [|c r0]]|] eqn:Ei; try (apply Hplain; exact H).
    destruct (c =? 58); [|apply Hplain; exact H].
    destruct (take_while is_msp r0) as [w r1]. destruct w as [|w0 w]; [apply Hplain; exact H|].
    destruct (g_p_chain pt r1) as [[ts r2]|] eqn:Ec; [|apply Hplain; exact H].
    inversion H; subst. cbn [W_fok W_label_ok].
    rewrite (p_identifier_wf _ _ _ Ei), (W_g_p_chain_wf _ _ _ Ec). reflexivity.
  Qed.

  Lemma W_g_p_fields_rest_wf : forall n s fs r,
    g_p_fields_rest pt n s = (fs, r) -> forallb W_fok fs = true.
  Proof.
    induction n as [|n IH]; intros s fs r H; cbn [g_p_fields_rest] in H.
    - inversion H; subst. reflexivity.
    - destruct (g_p_comma s) as [r1|]; [|inversion H; subst; reflexivity].
      destruct (g_p_field pt r1) as [[f r2]|] eqn:Ef; [|inversion H; subst; reflexivity].
      destruct (g_p_fields_rest pt n r2) as [fs' r3] eqn:Er. inversion H; subst.
      cbn [forallb]. rewrite (W_g_p_field_wf _ _ _ Ef), (IH _ _ _ Er). reflexivity.
  Qed.

  Lemma W_g_p_fields_wf s fs r : g_p_fields pt s = (fs, r) -> forallb W_fok fs = true.
  Proof.
    unfold g_p_fields.
    assert (Hfs : forall fs0 r0,
      match g_p_field pt s with
      | Some (f, r1) => let (fs1, r') := g_p_fields_rest pt (length r1) r1 in (f :: fs1, r')
      | None => ([], s)
      end = (fs0, r0) -> forallb W_fok fs0 = true).
    { intros fs0 r0. destruct (g_p_field pt s) as [[f r1]|] eqn:Ef.
      - destruct (g_p_fields_rest pt (length r1) r1) as [fs1 r'] eqn:Er. intros H. inversion H; subst.
        cbn [forallb]. rewrite (W_g_p_field_wf _ _ _ Ef), (W_g_p_fields_rest_wf _ _ _ _ Er). reflexivity.
      - intros H. inversion H; subst. reflexivity. }
    destruct (match g_p_field pt s with
              | Some (f, r1) => let (fs1, r') := g_p_fields_rest pt (length r1) r1 in (f :: fs1, r')
              | None => ([], s)
              end) as [fs0 r0] eqn:E.
    specialize (Hfs fs0 r0 eq_refl).
    destruct (g_p_comma r0); intros H; inversion H; subst; exact Hfs.
  Qed.

  Lemma W_g_p_bracket_body_wf s fs r :
    g_p_bracket_body pt s = Some (fs, r) -> forallb W_fok fs = true.
  Proof.
    unfold g_p_bracket_body. destruct (g_p_fields pt (skip_ws s)) as [fs0 r0] eqn:E.
    destruct (skip_ws r0) as [|c r']; [discriminate|]. destruct (c =? 93); [|discriminate].
    intros H. inversion H; subst. apply (W_g_p_fields_wf _ _ _ E).
  Qed.

  Lemma W_g_p_seq_rest_wf : forall n s cs r,
    g_p_seq_rest pt n s = (cs, r) -> forallb g_wf_chain cs = true.
  Proof.
    induction n as [|n IH]; intros s cs r H; cbn [g_p_seq_rest] in H.
    - inversion H; subst. reflexivity.
    - destruct (p_seq_sep s) as [r1|]; [|inversion H; subst; reflexivity].
      destruct (g_p_chain pt r1) as [[c r2]|] eqn:Ec; [|inversion H; subst; reflexivity].
      destruct (g_p_seq_rest pt n r2) as [cs' r3] eqn:Er. inversion H; subst.
      cbn [forallb]. rewrite (W_g_p_chain_wf _ _ _ Ec), (IH _ _ _ Er). reflexivity.
  Qed.

  Lemma W_g_p_sequence_wf s cs r : g_p_sequence pt s = Some (cs, r) -> g_wf_seq cs = true.
  Proof.
    unfold g_p_sequence. destruct (g_p_chain pt s) as [[c r1]|] eqn:Ec; [|discriminate].
    destruct (g_p_seq_rest pt (length r1) r1) as [cs' r2] eqn:Er. intros H. inversion H; subst.
    unfold g_wf_seq. cbn [forallb negb andb].
    rewrite (W_g_p_chain_wf _ _ _ Ec), (W_g_p_seq_rest_wf _ _ _ _ Er). reflexivity.
  Qed.

  Lemma W_g_p_branch_wf s b r : g_p_branch pt s = Some (b, r) -> W_bok b = true.
  Proof.
    unfold g_p_branch. destruct (g_p_sequence pt s) as [[cond r0]|] eqn:Es; [|discriminate].
    pose proof (W_g_p_sequence_wf _ _ _ Es) as Hc.
    assert (Hplain : W_bok (GBranch cond None) = true) by (cbn [W_bok]; rewrite Hc; reflexivity).
    intros H.
    destruct (skip_ws r0) as [|a [|b0 r1]]; try (inversion H; subst; exact Hplain).
    destruct ((a =? 61) && (b0 =? 62)); [|inversion H; subst; exact Hplain].
    destruct (g_p_sequence pt (skip_ws r1)) as [[k r2]|] eqn:Ek; [|inversion H; subst; exact Hplain].
    inversion H; subst. cbn [W_bok]. rewrite Hc, (W_g_p_sequence_wf _ _ _ Ek). reflexivity.
  Qed.

  Lemma W_g_p_branches_rest_wf : forall n s bs r,
    g_p_branches_rest pt n s = (bs, r) -> forallb W_bok bs = true.
  Proof.
    induction n as [|n IH]; intros s bs r H; cbn [g_p_branches_rest] in H.
    - inversion H; subst. reflexivity.
    - destruct (skip_ws s) as [|c r1]; [inversion H; subst; reflexivity|].
      destruct (c =? 124); [|inversion H; subst; reflexivity].
      destruct (g_p_branch pt (skip_ws r1)) as [[b r2]|] eqn:Eb; [|inversion H; subst; reflexivity].
      destruct (g_p_branches_rest pt n r2) as [bs' r3] eqn:Er. inversion H; subst.
      cbn [forallb]. rewrite (W_g_p_branch_wf _ _ _ Eb), (IH _ _ _ Er). reflexivity.
  Qed.

  Lemma W_g_p_expression_wf s bs r :
    g_p_expression pt s = Some (bs, r) -> g_wf_term (GBlock bs) = true.
  Proof.
    unfold g_p_expression.
    destruct (g_p_branch pt (match s with c :: r0 => if c =? 124 then skip_ws r0 else s | [] => s end))
      as [[b r1]|] eqn:Eb; [|discriminate].
    destruct (g_p_branches_rest pt (length r1) r1) as [bs' r2] eqn:Er. intros H. inversion H; subst.
    rewrite W_wf_term_block. cbn [forallb negb andb].
    rewrite (W_g_p_branch_wf _ _ _ Eb), (W_g_p_branches_rest_wf _ _ _ _ Er). reflexivity.
  Qed.

  Lemma W_g_p_block_body_wf s bs r :
    g_p_block_body pt s = Some (bs, r) -> g_wf_term (GBlock bs) = true.
  Proof.
    unfold g_p_block_body. destruct (g_p_expression pt (skip_ws s)) as [[bs0 r0]|] eqn:E; [|discriminate].
    destruct (skip_ws r0) as [|c r']; [discriminate|]. destruct (c =? 125); [|discriminate].
    intros H. inversion H; subst. apply (W_g_p_expression_wf _ _ _ E).
  Qed.
End W_Sound2.

Lemma W_g_p_term_wf : forall fuel s t r, g_p_term fuel s = Some (t, r) -> g_wf_term t = true.
Proof.
  induction fuel as [|f IH]; intros s t r H; [discriminate|].
  cbn [g_p_term] in H. destruct s as [|c r0]; [discriminate|].
  destruct (c =? 34).
  { repeat (match type of H with
            | context [if ?b then _ else _] => destruct b
            | context [match ?x with _ => _ end] => destruct x
            end; try discriminate); inversion H; reflexivity. }
  destruct (is_digit c || (c =? 45)).
  { destruct (p_integer (c :: r0)) as [[z rest]|]; [|discriminate]. inversion H; reflexivity. }
  destruct (is_upper c).
  { destruct (p_tuple_name (c :: r0)) as [[n [|x r']]|] eqn:En; [| |discriminate].
    - inversion H; subst. rewrite W_wf_term_tuple. cbn [W_name_ok forallb].
      rewrite (p_tuple_name_wf _ _ _ En). reflexivity.
    - destruct (x =? 91).
      + destruct (g_p_bracket_body (g_p_term f) r') as [[fs rest]|] eqn:Eb; [|discriminate].
        inversion H; subst. rewrite W_wf_term_tuple. cbn [W_name_ok].
        rewrite (p_tuple_name_wf _ _ _ En), (W_g_p_bracket_body_wf _ IH _ _ _ Eb). reflexivity.
      + assert (Hok : g_wf_term (GTuple (Some n) []) = true).
        { rewrite W_wf_term_tuple. cbn [W_name_ok forallb]. rewrite (p_tuple_name_wf _ _ _ En). reflexivity. }
        destruct (skip_ws (x :: r')) as [|y yr]; [inversion H; subst; exact Hok|].
        destruct (y =? 40); [discriminate|]. inversion H; subst; exact Hok. }
  destruct (c =? 91).
  { destruct (g_p_bracket_body (g_p_term f) r0) as [[fs rest]|] eqn:Eb; [|discriminate].
    inversion H; subst. rewrite W_wf_term_tuple. cbn [W_name_ok andb].
    apply (W_g_p_bracket_body_wf _ IH _ _ _ Eb). }
  destruct (c =? 123).
  { destruct (g_p_block_body (g_p_term f) r0) as [[bs rest]|] eqn:Eb; [|discriminate].
    inversion H; subst. apply (W_g_p_block_body_wf _ IH _ _ _ Eb). }
  destruct (is_lower c); [|discriminate].
  destruct (p_identifier (c :: r0)) as [[n [|x r']]|] eqn:En; [| |discriminate].
  - inversion H; subst. cbn [g_wf_term]. apply (p_identifier_wf _ _ _ En).
  - destruct ((x =? 91) || (x =? 46)); [discriminate|]. inversion H; subst.
    cbn [g_wf_term]. apply (p_identifier_wf _ _ _ En).
Qed.

Theorem parse_frag2_wf : forall t c, parse_frag2 t = Some c -> g_wf_seq c = true.
Proof.
  intros t c. unfold parse_frag2.
  destruct (g_p_sequence (g_p_term (length (skip_ws t))) (skip_ws t)) as [[cs r]|] eqn:E; [|discriminate].
  destruct (skip_ws r); [|discriminate]. intros H. inversion H; subst.
  apply (W_g_p_sequence_wf _ (W_g_p_term_wf _) _ _ _ E).
Qed.


(* ########################################################################################## *)
(* D. parser completeness on the grammar *)
(* ########################################################################################## *)

(* ---- term-start characters ---- *)
Definition D_tstart (c : Z) : bool := tstart c || (c =? 123).
Definition D_starts (s : list Z) : Prop := match s with c :: _ => D_tstart c = true | [] => False end.

Ltac D_cc := unfold D_tstart, tstart, is_word, is_lower, is_upper, is_digit, is_msp, is_hsp, solid in *; lia.

Lemma D_starts_of s : starts s -> D_starts s.
Proof. destruct s as [|c s]; [intros []|]. cbn [starts D_starts]. intros H. D_cc. Qed.
Lemma D_starts_app s r : D_starts s -> D_starts (s ++ r).
Proof. destruct s; [intros []|]. cbn [app D_starts]. auto. Qed.
Lemma D_starts_stops s r : D_starts s -> stops is_msp (s ++ r).
Proof. destruct s as [|c s]; [intros []|]. cbn [D_starts app stops]. intros H. D_cc. Qed.
Lemma D_starts_stops0 s : D_starts s -> stops is_msp s.
Proof. intros H. rewrite <- (app_nil_r s). apply D_starts_stops. exact H. Qed.

Lemma D_x_starts :
  (forall t s, xterm t s -> D_starts s) /\
  (forall f fs s, xfields f fs s -> D_starts s) /\
  (forall f s, xfield f s -> D_starts s) /\
  (forall t ts s, xchain t ts s -> D_starts s) /\
  (forall b bs s, xbranches b bs s -> D_starts s) /\
  (forall b s, xbranch b s -> D_starts s) /\
  (forall c cs s, xseq c cs s -> D_starts s).
Proof.
  apply x_mutind; intros.
  - apply D_starts_of, starts_int.
  - apply D_starts_of, starts_ident; assumption.
  - reflexivity.
  - reflexivity.
  - apply D_starts_of, starts_name; assumption.
  - apply D_starts_app, D_starts_of, starts_topen. assumption.
  - reflexivity.
  - assumption.
  - apply D_starts_app. assumption.
  - assumption.
  - apply D_starts_app, D_starts_of, starts_ident. assumption.
  - assumption.
  - apply D_starts_app. assumption.
  - assumption.
  - apply D_starts_app. assumption.
  - assumption.
  - apply D_starts_app. assumption.
  - assumption.
  - apply D_starts_app. assumption.
Qed.

(* ---- follow sets ---- *)
Definition D_cfollow (rest : list Z) : Prop :=
  match rest with
  | [] => True
  | x :: r => x = 44 \/ x = 93 \/
              (x = 32 /\ exists y r', r = y :: r' /\ (y = 125 \/ y = 124 \/ y = 61)) \/
              (x = 10 /\ exists w tail, r = w ++ tail /\ forallb is_msp w = true /\
                         match tail with [] => True | y :: _ => is_msp y = false /\ y <> 126 /\ y <> 40 end)
  end.

Definition D_sfollow (rest : list Z) : Prop :=
  rest = [] \/
  (exists y r', rest = 32 :: y :: r' /\ (y = 125 \/ y = 124 \/ y = 61)) \/
  (exists w tail, rest = 10 :: w ++ tail /\ forallb is_msp w = true /\
                  match tail with [] => True | y :: _ => y = 125 \/ y = 124 end).

Definition D_seq_eat (rest : list Z) : list Z :=
  match p_seq_sep rest with Some r => r | None => rest end.

Lemma D_cfollow_tfollow rest : D_cfollow rest -> tfollow rest.
Proof.
  destruct rest as [|x r]; intros H.
  - split; exact I.
  - cbn [D_cfollow] in H.
    destruct H as [E|[E|[[E (y & r' & Er & Hy)]|[E (w & tail & Er & Hw & Ht)]]]]; subst x.
    + split; [cbn [first_in]; lia|]. rewrite skip_ws_stop by exact eq_refl. lia.
    + split; [cbn [first_in]; lia|]. rewrite skip_ws_stop by exact eq_refl. lia.
    + split; [cbn [first_in]; lia|]. subst r.
      change (32 :: y :: r') with ([32] ++ y :: r').
      rewrite skip_ws_app; [lia|reflexivity|cbn [stops]; D_cc].
    + split; [cbn [first_in]; lia|]. subst r.
      change (10 :: w ++ tail) with ((10 :: w) ++ tail).
      rewrite skip_ws_app; [|cbn [forallb]; rewrite Hw; reflexivity|destruct tail; [exact I|apply Ht]].
      destruct tail; [exact I|lia].
Qed.

Lemma D_sfollow_cfollow rest : D_sfollow rest -> D_cfollow rest.
Proof.
  intros [E|[(y & r' & E & Hy)|(w & tail & E & Hw & Ht)]]; subst rest.
  - exact I.
  - cbn [D_cfollow]. right. right. left. split; [reflexivity|]. exists y, r'. split; [reflexivity|exact Hy].
  - cbn [D_cfollow]. right. right. right. split; [reflexivity|]. exists w, tail.
    split; [reflexivity|]. split; [exact Hw|]. destruct tail as [|y t]; [exact I|]. D_cc.
Qed.

Lemma D_fsfollow_cfollow rest : fsfollow rest -> D_cfollow rest.
Proof.
  intros (oc & w2 & rest' & E & [Hoc|Hoc] & [Hw|[i Hw]]); subst; cbn [app D_cfollow nl]; try lia.
  right. right. right. split; [reflexivity|]. exists (repeat 32 i), (93 :: rest').
  split; [reflexivity|]. split; [apply msp_spaces|]. D_cc.
Qed.

Lemma D_tfollow_csep sep s rest : gcsep sep -> D_starts s -> tfollow (sep ++ s ++ rest).
Proof.
  intros [E|[i E]] Hs; subst sep.
  - split; [cbn [app first_in]; lia|].
    change ([32] ++ s ++ rest) with ([32] ++ (s ++ rest)).
    rewrite skip_ws_app; [|reflexivity|apply D_starts_stops; exact Hs].
    destruct s as [|c s]; [destruct Hs|]. cbn [D_starts] in Hs. cbn [app]. D_cc.
  - split; [cbn [nl app first_in]; lia|].
    rewrite <- app_assoc. rewrite skip_ws_app; [|apply msp_nl|reflexivity]. cbn [app]. lia.
Qed.

(* ---- dispatch of g_p_term on the first character ---- *)
Lemma D_pt_nil fuel : g_p_term fuel [] = None.
Proof. destruct fuel; reflexivity. Qed.
Lemma D_pt_93 fuel rest : g_p_term fuel (93 :: rest) = None.
Proof. destruct fuel; reflexivity. Qed.
Lemma D_pt_125 fuel rest : g_p_term fuel (125 :: rest) = None.
Proof. destruct fuel; reflexivity. Qed.
Lemma D_pt_124 fuel rest : g_p_term fuel (124 :: rest) = None.
Proof. destruct fuel; reflexivity. Qed.
Lemma D_pt_61 fuel rest : g_p_term fuel (61 :: rest) = None.
Proof. destruct fuel; reflexivity. Qed.

Lemma D_pt_bracket f r :
  g_p_term (S f) (91 :: r) =
  match g_p_bracket_body (g_p_term f) r with Some (fs, rest) => Some (GTuple None fs, rest) | None => None end.
Proof. reflexivity. Qed.
Lemma D_pt_brace f r :
  g_p_term (S f) (123 :: r) =
  match g_p_block_body (g_p_term f) r with Some (bs, rest) => Some (GBlock bs, rest) | None => None end.
Proof. reflexivity. Qed.

Lemma D_pt_upper f c r : is_upper c = true ->
  g_p_term (S f) (c :: r) =
  match p_tuple_name (c :: r) with
  | Some (n, x :: r') =>
      if x =? 91 then
        match g_p_bracket_body (g_p_term f) r' with Some (fs, rest) => Some (GTuple (Some n) fs, rest) | None => None end
      else match skip_ws (x :: r') with
           | y :: _ => if y =? 40 then None else Some (GTuple (Some n) [], x :: r')
           | [] => Some (GTuple (Some n) [], x :: r')
           end
  | Some (n, []) => Some (GTuple (Some n) [], [])
  | None => None
  end.
Proof.
  intros H. cbn [g_p_term]. replace (c =? 34) with false by cc.
  replace (is_digit c || (c =? 45)) with false by cc. rewrite H. reflexivity.
Qed.

Lemma D_pt_lower f c r : is_lower c = true ->
  g_p_term (S f) (c :: r) =
  match p_identifier (c :: r) with
  | Some (n, x :: r') => if (x =? 91) || (x =? 46) then None else Some (GIdent n, x :: r')
  | Some (n, []) => Some (GIdent n, [])
  | None => None
  end.
Proof.
  intros H. cbn [g_p_term]. replace (c =? 34) with false by cc.
  replace (is_digit c || (c =? 45)) with false by cc.
  replace (is_upper c) with false by cc. replace (c =? 91) with false by cc.
  replace (c =? 123) with false by cc. rewrite H. reflexivity.
Qed.

Lemma D_pt_digit f c r : is_digit c || (c =? 45) = true ->
  g_p_term (S f) (c :: r) =
  match p_integer (c :: r) with Some (z, rest) => Some (GInt z, rest) | None => None end.
Proof. intros H. cbn [g_p_term]. replace (c =? 34) with false by cc. rewrite H. reflexivity. Qed.

Lemma D_pt_int f z rest : tfollow rest -> g_p_term (S f) (int_text z ++ rest) = Some (GInt z, rest).
Proof.
  intros Hf. destruct (int_first z) as [c [s' [E Hc]]]. rewrite E.
  cbn [app]. rewrite (D_pt_digit f c _ Hc).
  change (c :: s' ++ rest) with ((c :: s') ++ rest). rewrite <- E.
  rewrite (p_integer_app z rest (tfollow_intfollow _ Hf)). reflexivity.
Qed.

Lemma D_pt_ident f n rest :
  wf_ident n = true -> tfollow rest -> g_p_term (S f) (n ++ rest) = Some (GIdent n, rest).
Proof.
  intros Hwf Hf. destruct n as [|c n']; [discriminate|].
  cbn [app]. rewrite (D_pt_lower f c _ (wf_ident_first _ _ Hwf)).
  change (c :: n' ++ rest) with ((c :: n') ++ rest).
  rewrite (p_identifier_app _ rest Hwf (tfollow_idfollow _ Hf)).
  destruct rest as [|x r]; [reflexivity|]. destruct Hf as [Hf _]. cbn [first_in] in Hf.
  replace ((x =? 91) || (x =? 46)) with false by lia. reflexivity.
Qed.

Lemma D_pt_name f n rest :
  wf_tuple_name n = true -> tfollow rest -> g_p_term (S f) (n ++ rest) = Some (GTuple (Some n) [], rest).
Proof.
  intros Hwf Hf. destruct n as [|c n']; [discriminate|].
  cbn [app]. rewrite (D_pt_upper f c _ (wf_name_first _ _ Hwf)).
  change (c :: n' ++ rest) with ((c :: n') ++ rest).
  rewrite (p_tuple_name_app _ rest Hwf (tfollow_word _ Hf)).
  destruct rest as [|x r]; [reflexivity|]. destruct Hf as [Hf1 Hf2]. cbn [first_in] in Hf1.
  replace (x =? 91) with false by lia.
  destruct (skip_ws (x :: r)) as [|y t]; [reflexivity|].
  replace (y =? 40) with false by lia. reflexivity.
Qed.

Lemma D_pt_str f s rest :
  tfollow rest -> g_p_term (S f) ((34 :: escape_single s ++ [34]) ++ rest) = Some (GStr s, rest).
Proof.
  intros [Hf _]. cbn [app g_p_term]. rewrite Z.eqb_refl. rewrite <- app_assoc. cbn [app].
  assert (Hm : misses 34 rest) by (destruct rest; [exact I|cbn [first_in] in Hf; cbn [misses]; lia]).
  pose proof (escape_single_scan s rest) as Hscan.
  destruct (escape_single s ++ 34 :: rest) as [|a [|b t]] eqn:E.
  - rewrite Hscan. reflexivity.
  - rewrite Hscan. reflexivity.
  - rewrite (esc_no_triple s rest a b t Hm E). rewrite Hscan. reflexivity.
Qed.

(* ---- separators ---- *)
Lemma D_chain_sep_stop rest :
  D_cfollow rest ->
  p_chain_sep rest = None \/ exists y r', p_chain_sep rest = Some (y :: r') /\ (y = 125 \/ y = 124 \/ y = 61).
Proof.
  destruct rest as [|x r]; intros H; [left; reflexivity|].
  cbn [D_cfollow] in H.
  destruct H as [E|[E|[[E (y & r' & Er & Hy)]|[E (w & tail & Er & Hw & Ht)]]]]; subst x.
  - left. reflexivity.
  - left. reflexivity.
  - right. exists y, r'. split; [|exact Hy]. subst r. unfold p_chain_sep.
    change (32 :: y :: r') with ([32] ++ y :: r').
    rewrite (take_while_app is_msp [32] (y :: r') eq_refl) by (cbn [stops]; D_cc).
    rewrite (take_while_app is_hsp [32] (y :: r') eq_refl) by (cbn [stops]; D_cc).
    destruct r' as [|b r2]; [reflexivity|].
    replace (y =? 126) with false by lia. reflexivity.
  - left. subst r. unfold p_chain_sep.
    change (10 :: w ++ tail) with ((10 :: w) ++ tail).
    rewrite (take_while_app is_msp (10 :: w) tail)
      by (first [cbn [forallb]; rewrite Hw; reflexivity | destruct tail; [exact I|apply Ht]]).
    cbn [app take_while]. replace (is_hsp 10) with false by exact eq_refl.
    destruct tail as [|a [|b r2]]; try reflexivity.
    replace (a =? 126) with false by lia. reflexivity.
Qed.

Lemma D_sep_space s : D_starts s -> p_chain_sep (32 :: s) = Some s.
Proof.
  intros Hs. unfold p_chain_sep.
  pose proof (D_starts_stops0 s Hs) as Hst.
  change (32 :: s) with ([32] ++ s).
  rewrite (take_while_app is_msp [32] s eq_refl Hst).
  assert (Hh : stops is_hsp s).
  { destruct s as [|c s']; [exact I|]. cbn [stops D_starts] in *. D_cc. }
  rewrite (take_while_app is_hsp [32] s eq_refl Hh).
  destruct s as [|a [|b r2]]; try reflexivity.
  cbn [D_starts] in Hs. replace (a =? 126) with false by D_cc. reflexivity.
Qed.

Lemma D_sep_arrow i s : D_starts s -> p_chain_sep ((nl i ++ [126; 62; 32]) ++ s) = Some s.
Proof.
  intros Hs. unfold p_chain_sep. rewrite <- app_assoc.
  rewrite take_msp_nl by exact eq_refl.
  unfold nl at 1. cbn [app].
  replace ((126 =? 126) && (62 =? 62)) with true by exact eq_refl.
  pose proof (D_starts_stops0 s Hs) as Hst.
  change (32 :: s) with ([32] ++ s).
  rewrite (take_while_app is_msp [32] s eq_refl Hst). reflexivity.
Qed.

Lemma D_csep_parse sep s : gcsep sep -> D_starts s -> p_chain_sep (sep ++ s) = Some s.
Proof. intros [E|[i E]] Hs; subst sep; [apply D_sep_space|apply D_sep_arrow]; exact Hs. Qed.

Lemma D_starts_fuel s fuel : D_starts s -> (length s <= fuel)%nat -> exists f, fuel = S f.
Proof.
  destruct s as [|c s]; [intros []|]. cbn [length]. intros _ H.
  destruct fuel as [|f]; [lia|]. exists f. reflexivity.
Qed.

(* ---- chains, fields over an abstract term parser ---- *)
Section D_Complete.
  Variable pt : list Z -> option (gterm * list Z).
  Hypothesis pt_nil : pt [] = None.
  Hypothesis pt_rb : forall rest, pt (93 :: rest) = None.
  Hypothesis pt_rc : forall rest, pt (125 :: rest) = None.
  Hypothesis pt_bar : forall rest, pt (124 :: rest) = None.
  Hypothesis pt_eq : forall rest, pt (61 :: rest) = None.

  Lemma D_chain_rest_stop n rest : D_cfollow rest -> g_p_chain_rest pt n rest = ([], rest).
  Proof.
    intros H. destruct n; [reflexivity|]. cbn [g_p_chain_rest].
    destruct (D_chain_sep_stop _ H) as [E|(y & r' & E & Hy)]; rewrite E; [reflexivity|].
    destruct Hy as [Hy|[Hy|Hy]]; subst y; [rewrite pt_rc|rewrite pt_bar|rewrite pt_eq]; reflexivity.
  Qed.

  Definition D_chain_ok (t : gterm) (ts : list gterm) (s rest : list Z) : Prop :=
    exists s2, (length ts <= length s2)%nat /\ (length s2 <= length s)%nat /\
               pt (s ++ rest) = Some (t, s2 ++ rest) /\
               forall n, (length ts <= n)%nat -> g_p_chain_rest pt n (s2 ++ rest) = (ts, rest).

  Lemma D_chain_ok_one t s rest : pt (s ++ rest) = Some (t, rest) -> D_cfollow rest -> D_chain_ok t [] s rest.
  Proof.
    intros Hpt Hf. exists []. cbn [length app]. repeat split; try lia; [exact Hpt|].
    intros n _. apply D_chain_rest_stop. exact Hf.
  Qed.

  Lemma D_chain_ok_cons t t' ts s sep s' rest :
    pt (s ++ sep ++ s' ++ rest) = Some (t, sep ++ s' ++ rest) ->
    gcsep sep -> D_starts s' -> D_chain_ok t' ts s' rest ->
    D_chain_ok t (t' :: ts) (s ++ sep ++ s') rest.
  Proof.
    intros Hpt Hsep Hs' (s2 & L1 & L2 & Hpt' & Hrest).
    assert (Lsep : (1 <= length sep)%nat).
    { destruct Hsep as [E|[i E]]; subst sep; cbn [nl length app]; lia. }
    exists (sep ++ s'). rewrite !app_length. cbn [length]. repeat split; try lia.
    - rewrite <- !app_assoc. exact Hpt.
    - intros n Hn. destruct n as [|n']; [lia|]. cbn [g_p_chain_rest].
      rewrite <- app_assoc. rewrite (D_csep_parse sep (s' ++ rest) Hsep (D_starts_app _ _ Hs')).
      rewrite Hpt'. rewrite (Hrest n') by lia. reflexivity.
  Qed.

  Lemma D_p_chain_complete t ts s rest :
    D_chain_ok t ts s rest -> g_p_chain pt (s ++ rest) = Some (t :: ts, rest).
  Proof.
    intros (s2 & L1 & L2 & Hpt' & Hrest). unfold g_p_chain. rewrite Hpt'.
    rewrite Hrest by (rewrite app_length; lia). reflexivity.
  Qed.

  Lemma D_p_chain_none s : pt s = None -> g_p_chain pt s = None.
  Proof. intros H. unfold g_p_chain. rewrite H. reflexivity. Qed.

  Lemma D_p_field_plain s ts rest :
    nolabel (s ++ rest) -> g_p_chain pt (s ++ rest) = Some (ts, rest) ->
    g_p_field pt (s ++ rest) = Some (GField None ts, rest).
  Proof.
    intros Hn Hc. unfold g_p_field. unfold nolabel in Hn. rewrite Hc.
    destruct (p_identifier (s ++ rest)) as [[n [|c r]]|]; try reflexivity.
    replace (c =? 58) with false by lia. reflexivity.
  Qed.

  Lemma D_p_field_label n s ts rest :
    wf_ident n = true -> D_starts s -> g_p_chain pt (s ++ rest) = Some (ts, rest) ->
    g_p_field pt ((n ++ 58 :: 32 :: s) ++ rest) = Some (GField (Some n) ts, rest).
  Proof.
    intros Hn Hs Hc. unfold g_p_field. rewrite <- app_assoc. cbn [app].
    rewrite (p_identifier_app n (58 :: 32 :: s ++ rest) Hn) by (cbn [idfollow]; split; [reflexivity|split; lia]).
    rewrite Z.eqb_refl.
    change (32 :: s ++ rest) with ([32] ++ (s ++ rest)).
    rewrite (take_while_app is_msp [32] (s ++ rest) eq_refl (D_starts_stops _ _ Hs)).
    rewrite Hc. reflexivity.
  Qed.

  Lemma D_p_field_rb rest : g_p_field pt (93 :: rest) = None.
  Proof. unfold g_p_field, g_p_chain. rewrite pt_rb. reflexivity. Qed.

  Lemma D_p_comma_hit sep s : forallb is_msp sep = true -> stops is_msp s -> g_p_comma (44 :: sep ++ s) = Some s.
  Proof.
    intros Hsep Hs. unfold g_p_comma. rewrite skip_ws_stop by exact eq_refl. rewrite Z.eqb_refl.
    rewrite skip_ws_app by assumption. reflexivity.
  Qed.

  Lemma D_p_comma_rb w rest : forallb is_msp w = true -> g_p_comma (w ++ 93 :: rest) = None.
  Proof. intros Hw. unfold g_p_comma. rewrite skip_ws_app; [reflexivity|exact Hw|reflexivity]. Qed.

  Lemma D_fields_rest_stop n rest : fsfollow rest -> g_p_fields_rest pt n rest = ([], rest).
  Proof.
    intros (oc & w2 & rest' & E & Hoc & Hw). destruct n; [reflexivity|]. cbn [g_p_fields_rest]. subst rest.
    destruct Hoc as [Hoc|Hoc]; subst oc; cbn [app].
    - rewrite (D_p_comma_rb w2 rest' (msp_gws _ Hw)). reflexivity.
    - rewrite (D_p_comma_hit w2 (93 :: rest') (msp_gws _ Hw)) by exact eq_refl.
      rewrite D_p_field_rb. reflexivity.
  Qed.

  Definition D_fields_ok (f : gfield) (fs : list gfield) (s rest : list Z) : Prop :=
    exists s2, (length fs <= length s2)%nat /\ (length s2 <= length s)%nat /\
               g_p_field pt (s ++ rest) = Some (f, s2 ++ rest) /\
               forall n, (length fs <= n)%nat -> g_p_fields_rest pt n (s2 ++ rest) = (fs, rest).

  Lemma D_fields_ok_one f s rest :
    g_p_field pt (s ++ rest) = Some (f, rest) -> fsfollow rest -> D_fields_ok f [] s rest.
  Proof.
    intros Hpf Hf. exists []. cbn [length app]. repeat split; try lia; [exact Hpf|].
    intros n _. apply D_fields_rest_stop. exact Hf.
  Qed.

  Lemma D_fields_ok_cons f f' fs s sep s' rest :
    g_p_field pt (s ++ 44 :: sep ++ s' ++ rest) = Some (f, 44 :: sep ++ s' ++ rest) ->
    gsep sep -> D_starts s' -> D_fields_ok f' fs s' rest ->
    D_fields_ok f (f' :: fs) (s ++ 44 :: sep ++ s') rest.
  Proof.
    intros Hpf Hsep Hs' (s2 & L1 & L2 & Hpf' & Hrest).
    exists (44 :: sep ++ s'). rewrite !app_length. cbn [length]. rewrite !app_length.
    repeat split; try lia.
    - rewrite <- app_assoc. cbn [app]. rewrite <- app_assoc. exact Hpf.
    - intros n Hn. destruct n as [|n']; [lia|]. cbn [g_p_fields_rest app].
      rewrite <- app_assoc.
      rewrite (D_p_comma_hit sep (s' ++ rest) (msp_gsep _ Hsep) (D_starts_stops _ _ Hs')).
      rewrite Hpf'. rewrite (Hrest n') by lia. reflexivity.
  Qed.

  Lemma D_bracket_body_complete f fs w1 body oc w2 rest :
    gws w1 -> gws w2 -> (oc = [] \/ oc = [44]) -> D_starts body ->
    D_fields_ok f fs body (oc ++ w2 ++ 93 :: rest) ->
    g_p_bracket_body pt (w1 ++ body ++ oc ++ w2 ++ 93 :: rest) = Some (f :: fs, rest).
  Proof.
    intros Hw1 Hw2 Hoc Hsb (s2 & L1 & L2 & Hpf & Hrest).
    unfold g_p_bracket_body.
    rewrite (skip_ws_app w1 _ (msp_gws _ Hw1) (D_starts_stops _ _ Hsb)).
    unfold g_p_fields. rewrite Hpf. rewrite Hrest by (rewrite app_length; lia).
    destruct Hoc as [E|E]; subst oc; cbn [app].
    - rewrite (D_p_comma_rb w2 rest (msp_gws _ Hw2)).
      rewrite (skip_ws_app w2 _ (msp_gws _ Hw2)) by exact eq_refl.
      rewrite Z.eqb_refl. reflexivity.
    - rewrite (D_p_comma_hit w2 (93 :: rest) (msp_gws _ Hw2)) by exact eq_refl.
      rewrite (skip_ws_stop (44 :: w2 ++ 93 :: rest)) by exact eq_refl.
      rewrite (skip_ws_app w2 _ (msp_gws _ Hw2)) by exact eq_refl.
      rewrite Z.eqb_refl. reflexivity.
  Qed.
End D_Complete.

(* ---- sequence separators ---- *)
Definition D_stopsc (tail : list Z) : Prop :=
  match tail with [] => True | y :: _ => is_msp y = false /\ y <> 44 end.

Lemma D_swc_app : forall w tail n,
  forallb is_msp w = true -> D_stopsc tail -> (length w <= n)%nat -> skip_ws_commas n (w ++ tail) = tail.
Proof.
  induction w as [|c w IH]; intros tail n Hw Ht Hn.
  - cbn [app]. destruct n as [|n']; [reflexivity|]. destruct tail as [|y t]; [reflexivity|].
    cbn [skip_ws_commas]. cbn [D_stopsc] in Ht. replace (is_msp y || (y =? 44)) with false by lia. reflexivity.
  - cbn [forallb] in Hw. apply andb_true_iff in Hw. destruct Hw as [Hc Hw].
    cbn [length] in Hn. destruct n as [|n']; [lia|]. cbn [app skip_ws_commas]. rewrite Hc. cbn [orb].
    apply IH; [exact Hw|exact Ht|lia].
Qed.

Lemma D_seq_sep_gen c w tail :
  (c = 44 \/ c = 10) -> forallb is_msp w = true -> D_stopsc tail -> p_seq_sep (c :: w ++ tail) = Some tail.
Proof.
  intros Hc Hw Ht. unfold p_seq_sep.
  assert (E : take_while is_hsp (c :: w ++ tail) = ([], c :: w ++ tail)).
  { cbn [take_while]. replace (is_hsp c) with false by D_cc. reflexivity. }
  rewrite E. replace ((c =? 44) || (c =? 10)) with true by lia.
  rewrite D_swc_app; [reflexivity|exact Hw|exact Ht|rewrite app_length; lia].
Qed.

Lemma D_starts_stopsc s r : D_starts s -> D_stopsc (s ++ r).
Proof. destruct s as [|c s]; [intros []|]. cbn [D_starts app D_stopsc]. intros H. D_cc. Qed.

Lemma D_gssep_shape sep : gssep sep -> exists c w, sep = c :: w /\ (c = 44 \/ c = 10) /\ forallb is_msp w = true.
Proof.
  intros [E|[[i E]|[i [j E]]]]; subst sep.
  - exists 44, [32]. repeat split. left. reflexivity.
  - exists 10, (repeat 32 i). repeat split; [right; reflexivity|apply msp_spaces].
  - exists 10, (repeat 32 i ++ nl j). repeat split; [right; reflexivity|].
    rewrite forallb_app, msp_spaces, msp_nl. reflexivity.
Qed.

Lemma D_ssep_parse sep s : gssep sep -> D_starts s -> p_seq_sep (sep ++ s) = Some s.
Proof.
  intros Hsep Hs. destruct (D_gssep_shape sep Hsep) as (c & w & E & Hc & Hw). subst sep.
  cbn [app]. apply D_seq_sep_gen; [exact Hc|exact Hw|].
  rewrite <- (app_nil_r s). apply D_starts_stopsc. exact Hs.
Qed.

Lemma D_ssep_cfollow sep s rest : gssep sep -> D_starts s -> D_cfollow (sep ++ s ++ rest).
Proof.
  intros Hsep Hs. destruct (D_gssep_shape sep Hsep) as (c & w & E & Hc & Hw). subst sep.
  cbn [app D_cfollow]. destruct Hc as [Hc|Hc]; [left; exact Hc|].
  right. right. right. split; [exact Hc|]. exists w, (s ++ rest). split; [reflexivity|]. split; [exact Hw|].
  destruct s as [|y s']; [destruct Hs|]. cbn [app D_starts] in *. D_cc.
Qed.

Lemma D_gssep_len sep : gssep sep -> (1 <= length sep)%nat.
Proof. intros H. destruct (D_gssep_shape sep H) as (c & w & E & _). subst sep. cbn [length]. lia. Qed.

Lemma D_seq_sep_sp y r : (y = 125 \/ y = 124 \/ y = 61) -> p_seq_sep (32 :: y :: r) = None.
Proof.
  intros Hy. unfold p_seq_sep. change (32 :: y :: r) with ([32] ++ y :: r).
  rewrite (take_while_app is_hsp [32] (y :: r) eq_refl) by (cbn [stops]; D_cc).
  replace ((y =? 44) || (y =? 10)) with false by lia. replace (y =? 13) with false by lia. reflexivity.
Qed.

Lemma D_seq_eat_sp y r : (y = 125 \/ y = 124 \/ y = 61) -> D_seq_eat (32 :: y :: r) = 32 :: y :: r.
Proof. intros Hy. unfold D_seq_eat. rewrite (D_seq_sep_sp y r Hy). reflexivity. Qed.

Definition D_blocked (tail : list Z) : Prop :=
  match tail with [] => True | y :: _ => y = 125 \/ y = 124 end.

Lemma D_blocked_stopsc tail : D_blocked tail -> D_stopsc tail.
Proof. destruct tail as [|y t]; [intros; exact I|]. cbn [D_blocked D_stopsc]. intros H. D_cc. Qed.

Lemma D_seq_sep_follow rest :
  D_sfollow rest -> p_seq_sep rest = None \/ exists tail, p_seq_sep rest = Some tail /\ D_blocked tail.
Proof.
  intros [E|[(y & r' & E & Hy)|(w & tail & E & Hw & Ht)]]; subst rest.
  - left. reflexivity.
  - left. apply D_seq_sep_sp. exact Hy.
  - right. exists tail. split; [|exact Ht].
    apply D_seq_sep_gen; [right; reflexivity|exact Hw|apply D_blocked_stopsc; exact Ht].
Qed.

(* ---- what follows a branch ---- *)
Definition D_bfollow (rest : list Z) : Prop :=
  exists w tail, rest = w ++ tail /\ gsep w /\ match tail with y :: _ => y = 125 \/ y = 124 | [] => False end.
Definition D_blkfollow (rest : list Z) : Prop :=
  exists w2 rest', rest = w2 ++ 125 :: rest' /\ gsep w2.

Lemma D_blkfollow_bfollow rest : D_blkfollow rest -> D_bfollow rest.
Proof. intros (w2 & rest' & E & Hw). exists w2, (125 :: rest'). repeat split; [exact E|exact Hw|left; reflexivity]. Qed.

Lemma D_bfollow_sfollow rest : D_bfollow rest -> D_sfollow rest.
Proof.
  intros (w & tail & E & [Hw|[i Hw]] & Ht); subst rest w; destruct tail as [|y t]; try destruct Ht as [].
  - right. left. exists y, t. split; [reflexivity|]. lia.
  - right. left. exists y, t. split; [reflexivity|]. lia.
  - right. right. exists (repeat 32 i), (y :: t). split; [reflexivity|]. split; [apply msp_spaces|]. left. assumption.
  - right. right. exists (repeat 32 i), (y :: t). split; [reflexivity|]. split; [apply msp_spaces|]. right. assumption.
Qed.

Lemma D_seq_eat_bfollow w tail :
  gsep w -> match tail with y :: _ => y = 125 \/ y = 124 | [] => False end ->
  (D_seq_eat (w ++ tail) = w ++ tail \/ D_seq_eat (w ++ tail) = tail) /\ skip_ws (D_seq_eat (w ++ tail)) = tail.
Proof.
  intros Hw Ht. destruct tail as [|y t]; [destruct Ht|].
  assert (Hst : stops is_msp (y :: t)) by (cbn [stops]; D_cc).
  destruct Hw as [E|[i E]]; subst w.
  - cbn [app]. rewrite D_seq_eat_sp by lia. split; [left; reflexivity|].
    change (32 :: y :: t) with ([32] ++ y :: t). apply skip_ws_app; [reflexivity|exact Hst].
  - unfold D_seq_eat. unfold nl. cbn [app].
    rewrite (D_seq_sep_gen 10 (repeat 32 i) (y :: t)); [|right; reflexivity|apply msp_spaces|cbn [D_stopsc]; D_cc].
    split; [right; reflexivity|]. apply skip_ws_stop. exact Hst.
Qed.

Lemma D_seq_eat_len w tail :
  gsep w -> match tail with y :: _ => y = 125 \/ y = 124 | [] => False end ->
  (length tail <= length (D_seq_eat (w ++ tail)))%nat.
Proof.
  intros Hw Ht. destruct (D_seq_eat_bfollow w tail Hw Ht) as [[E|E] _]; rewrite E; [rewrite app_length|]; lia.
Qed.

(* ---- sequences, branches over an abstract term parser ---- *)
Section D_Complete2.
  Variable pt : list Z -> option (gterm * list Z).
  Hypothesis pt_nil : pt [] = None.
  Hypothesis pt_rc : forall rest, pt (125 :: rest) = None.
  Hypothesis pt_bar : forall rest, pt (124 :: rest) = None.

  Lemma D_chain_blocked tail : D_blocked tail -> g_p_chain pt tail = None.
  Proof.
    intros H. unfold g_p_chain. destruct tail as [|y t]; [rewrite pt_nil; reflexivity|].
    cbn [D_blocked] in H. destruct H as [H|H]; subst y; [rewrite pt_rc|rewrite pt_bar]; reflexivity.
  Qed.

  Lemma D_seq_rest_stop n rest : D_sfollow rest -> g_p_seq_rest pt n rest = ([], rest).
  Proof.
    intros H. destruct n; [reflexivity|]. cbn [g_p_seq_rest].
    destruct (D_seq_sep_follow _ H) as [E|(tail & E & Ht)]; rewrite E; [reflexivity|].
    rewrite (D_chain_blocked tail Ht). reflexivity.
  Qed.

  Definition D_seq_ok (c : list gterm) (cs : list (list gterm)) (s rest : list Z) : Prop :=
    exists s2, (length cs <= length s2)%nat /\ (length s2 <= length s)%nat /\
               g_p_chain pt (s ++ rest) = Some (c, s2 ++ rest) /\
               forall n, (length cs <= n)%nat -> g_p_seq_rest pt n (s2 ++ rest) = (cs, rest).

  Lemma D_seq_ok_one c s rest : g_p_chain pt (s ++ rest) = Some (c, rest) -> D_sfollow rest -> D_seq_ok c [] s rest.
  Proof.
    intros Hpc Hf. exists []. cbn [length app]. repeat split; try lia; [exact Hpc|].
    intros n _. apply D_seq_rest_stop. exact Hf.
  Qed.

  Lemma D_seq_ok_cons c c' cs s sep s' rest :
    g_p_chain pt (s ++ sep ++ s' ++ rest) = Some (c, sep ++ s' ++ rest) ->
    gssep sep -> D_starts s' -> D_seq_ok c' cs s' rest ->
    D_seq_ok c (c' :: cs) (s ++ sep ++ s') rest.
  Proof.
    intros Hpc Hsep Hs' (s2 & L1 & L2 & Hpc' & Hrest).
    pose proof (D_gssep_len sep Hsep) as Lsep.
    exists (sep ++ s'). rewrite !app_length. cbn [length]. repeat split; try lia.
    - rewrite <- !app_assoc. exact Hpc.
    - intros n Hn. destruct n as [|n']; [lia|]. cbn [g_p_seq_rest].
      rewrite <- app_assoc. rewrite (D_ssep_parse sep (s' ++ rest) Hsep (D_starts_app _ _ Hs')).
      rewrite Hpc'. rewrite (Hrest n') by lia. reflexivity.
  Qed.

  Lemma D_p_sequence_complete c cs s rest :
    D_seq_ok c cs s rest -> g_p_sequence pt (s ++ rest) = Some (c :: cs, D_seq_eat rest).
  Proof.
    intros (s2 & L1 & L2 & Hpc & Hrest). unfold g_p_sequence. rewrite Hpc.
    rewrite Hrest by (rewrite app_length; lia). reflexivity.
  Qed.

  Lemma D_p_branch_plain s cs rest :
    g_p_sequence pt (s ++ rest) = Some (cs, D_seq_eat rest) -> D_bfollow rest ->
    g_p_branch pt (s ++ rest) = Some (GBranch cs None, D_seq_eat rest).
  Proof.
    intros Hseq (w & tail & E & Hw & Ht). unfold g_p_branch. rewrite Hseq. subst rest.
    destruct (D_seq_eat_bfollow w tail Hw Ht) as [_ Esk]. rewrite Esk.
    destruct tail as [|y [|b t]]; try reflexivity.
    replace (y =? 61) with false by lia. reflexivity.
  Qed.

  Lemma D_p_branch_guard s s' cs ks rest r2 :
    g_p_sequence pt (s ++ [32; 61; 62; 32] ++ s' ++ rest) = Some (cs, 32 :: 61 :: 62 :: 32 :: s' ++ rest) ->
    D_starts s' -> g_p_sequence pt (s' ++ rest) = Some (ks, r2) ->
    g_p_branch pt (s ++ [32; 61; 62; 32] ++ s' ++ rest) = Some (GBranch cs (Some ks), r2).
  Proof.
    intros Hseq Hs' Hseq'. unfold g_p_branch. rewrite Hseq.
    change (32 :: 61 :: 62 :: 32 :: s' ++ rest) with ([32] ++ 61 :: 62 :: 32 :: s' ++ rest).
    rewrite (skip_ws_app [32] (61 :: 62 :: 32 :: s' ++ rest) eq_refl) by exact eq_refl.
    replace ((61 =? 61) && (62 =? 62)) with true by exact eq_refl.
    change (32 :: s' ++ rest) with ([32] ++ (s' ++ rest)).
    rewrite (skip_ws_app [32] (s' ++ rest) eq_refl (D_starts_stops _ _ Hs')).
    rewrite Hseq'. reflexivity.
  Qed.

  Definition D_branches_ok (b : gbranch) (bs : list gbranch) (s rest : list Z) : Prop :=
    (length bs <= length s)%nat /\
    exists r1, (length bs <= length r1)%nat /\
               g_p_branch pt (s ++ rest) = Some (b, r1) /\
               forall n, (length bs <= n)%nat -> g_p_branches_rest pt n r1 = (bs, D_seq_eat rest).

  Lemma D_branches_ok_one b s rest :
    g_p_branch pt (s ++ rest) = Some (b, D_seq_eat rest) -> D_blkfollow rest -> D_branches_ok b [] s rest.
  Proof.
    intros Hb (w2 & rest' & E & Hw). split; [cbn [length]; lia|].
    exists (D_seq_eat rest). split; [cbn [length]; lia|]. split; [exact Hb|].
    intros n _. destruct n; [reflexivity|]. cbn [g_p_branches_rest]. subst rest.
    destruct (D_seq_eat_bfollow w2 (125 :: rest') Hw) as [_ Esk]; [left; reflexivity|].
    rewrite Esk. reflexivity.
  Qed.

  Lemma D_branches_ok_cons b b' bs s sep s' rest :
    g_p_branch pt (s ++ sep ++ 124 :: 32 :: s' ++ rest) = Some (b, D_seq_eat (sep ++ 124 :: 32 :: s' ++ rest)) ->
    gsep sep -> D_starts s' -> D_branches_ok b' bs s' rest ->
    D_branches_ok b (b' :: bs) (s ++ sep ++ 124 :: 32 :: s') rest.
  Proof.
    intros Hb Hsep Hs' (L0 & r1' & L1 & Hb' & Hrest).
    assert (Ht : match 124 :: 32 :: s' ++ rest with y :: _ => y = 125 \/ y = 124 | [] => False end) by (right; reflexivity).
    split; [rewrite !app_length; cbn [length]; lia|].
    exists (D_seq_eat (sep ++ 124 :: 32 :: s' ++ rest)). split; [|split].
    - pose proof (D_seq_eat_len sep (124 :: 32 :: s' ++ rest) Hsep Ht) as L. cbn [length] in *. rewrite app_length in L. lia.
    - rewrite <- !app_assoc. cbn [app]. exact Hb.
    - intros n Hn. cbn [length] in Hn. destruct n as [|n']; [lia|]. cbn [g_p_branches_rest].
      destruct (D_seq_eat_bfollow sep (124 :: 32 :: s' ++ rest) Hsep Ht) as [_ Esk]. rewrite Esk.
      rewrite Z.eqb_refl.
      change (32 :: s' ++ rest) with ([32] ++ (s' ++ rest)).
      rewrite (skip_ws_app [32] (s' ++ rest) eq_refl (D_starts_stops _ _ Hs')).
      rewrite Hb'. rewrite (Hrest n') by lia. reflexivity.
  Qed.

  Lemma D_block_body_complete b bs w1 bar body w2 rest :
    gsep w1 -> gsep w2 -> (bar = [] \/ bar = [124; 32]) -> D_starts body ->
    D_branches_ok b bs body (w2 ++ 125 :: rest) ->
    g_p_block_body pt (w1 ++ bar ++ body ++ w2 ++ 125 :: rest) = Some (b :: bs, rest).
  Proof.
    intros Hw1 Hw2 Hbar Hsb (L0 & r1 & L1 & Hb & Hrest).
    assert (Hexp : g_p_expression pt (bar ++ body ++ w2 ++ 125 :: rest) = Some (b :: bs, D_seq_eat (w2 ++ 125 :: rest))).
    { unfold g_p_expression. destruct Hbar as [E|E]; subst bar.
      - cbn [app]. destruct body as [|c body']; [destruct Hsb|]. cbn [D_starts] in Hsb.
        cbn [app] in *. replace (c =? 124) with false by D_cc.
        rewrite Hb. rewrite Hrest by lia. reflexivity.
      - cbn [app]. rewrite Z.eqb_refl.
        change (32 :: body ++ w2 ++ 125 :: rest) with ([32] ++ (body ++ w2 ++ 125 :: rest)).
        rewrite (skip_ws_app [32] _ eq_refl (D_starts_stops _ _ Hsb)).
        rewrite Hb. rewrite Hrest by lia. reflexivity. }
    unfold g_p_block_body.
    rewrite (skip_ws_app w1 (bar ++ body ++ w2 ++ 125 :: rest) (msp_gsep _ Hw1)).
    - rewrite Hexp. destruct (D_seq_eat_bfollow w2 (125 :: rest) Hw2) as [_ Esk]; [left; reflexivity|].
      rewrite Esk. rewrite Z.eqb_refl. reflexivity.
    - destruct Hbar as [E|E]; subst bar; [cbn [app]; apply D_starts_stops; exact Hsb|reflexivity].
  Qed.
End D_Complete2.

(* ---- plain fields are not mistaken for labelled ones ---- *)
Lemma D_xterm_nolabel t s rest : xterm t s -> tfollow rest -> nolabel (s ++ rest).
Proof.
  intros H Hf.
  destruct H as [z|n Hn|s0| |n Hn|name f fs w1 body oc w2 Hn Hw1 Hw2 Hoc Hfs|b bs w1 bar body w2 Hw1 Hw2 Hbar Hbs].
  - destruct (int_first z) as [c [s' [E Hc]]]. rewrite E. cbn [app]. apply nolabel_nonlower. cc.
  - unfold nolabel. rewrite (p_identifier_app n rest Hn (tfollow_idfollow _ Hf)).
    destruct rest as [|x r]; [exact I|]. destruct Hf as [Hf _]. cbn [first_in] in Hf. lia.
  - cbn [app]. apply nolabel_nonlower. reflexivity.
  - cbn [app]. apply nolabel_nonlower. reflexivity.
  - destruct n as [|c n']; [discriminate|]. cbn [app]. apply nolabel_nonlower.
    pose proof (wf_name_first _ _ Hn). cc.
  - destruct name as [[|c n']|]; cbn [wf_name_opt topen] in *.
    + discriminate.
    + cbn [app]. apply nolabel_nonlower. pose proof (wf_name_first _ _ Hn). cc.
    + cbn [app]. apply nolabel_nonlower. reflexivity.
  - cbn [app]. apply nolabel_nonlower. reflexivity.
Qed.

Lemma D_xchain_nolabel t ts s rest : xchain t ts s -> D_cfollow rest -> nolabel (s ++ rest).
Proof.
  intros H Hf. destruct H as [t s Ht|t t' ts s sep s' Ht Hsep Hc].
  - apply (D_xterm_nolabel t s rest Ht). apply D_cfollow_tfollow. exact Hf.
  - rewrite <- !app_assoc. apply (D_xterm_nolabel t s _ Ht).
    apply D_tfollow_csep; [exact Hsep|]. apply (proj1 (proj2 (proj2 (proj2 D_x_starts))) _ _ _ Hc).
Qed.

Lemma D_cfollow_comma r : D_cfollow (44 :: r).
Proof. cbn [D_cfollow]. lia. Qed.

Ltac D_hyp := solve [intros; first [apply D_pt_nil | apply D_pt_93 | apply D_pt_125 | apply D_pt_124 | apply D_pt_61]].

Lemma D_st_fields f fs s : xfields f fs s -> D_starts s.
Proof. apply (proj1 (proj2 D_x_starts)). Qed.
Lemma D_st_chain t ts s : xchain t ts s -> D_starts s.
Proof. apply (proj1 (proj2 (proj2 (proj2 D_x_starts)))). Qed.
Lemma D_st_branches b bs s : xbranches b bs s -> D_starts s.
Proof. apply (proj1 (proj2 (proj2 (proj2 (proj2 D_x_starts))))). Qed.
Lemma D_st_seq c cs s : xseq c cs s -> D_starts s.
Proof. apply (proj2 (proj2 (proj2 (proj2 (proj2 (proj2 D_x_starts)))))). Qed.

(* ---- the mutual induction ---- *)
Lemma D_complete :
  (forall t s, xterm t s -> forall fuel rest, (length s <= fuel)%nat -> tfollow rest ->
               g_p_term fuel (s ++ rest) = Some (t, rest)) /\
  (forall f fs s, xfields f fs s -> forall fuel rest, (length s <= fuel)%nat -> fsfollow rest ->
               D_fields_ok (g_p_term fuel) f fs s rest) /\
  (forall f s, xfield f s -> forall fuel rest, (length s <= fuel)%nat -> D_cfollow rest ->
               g_p_field (g_p_term fuel) (s ++ rest) = Some (f, rest)) /\
  (forall t ts s, xchain t ts s -> forall fuel rest, (length s <= fuel)%nat -> D_cfollow rest ->
               D_chain_ok (g_p_term fuel) t ts s rest) /\
  (forall b bs s, xbranches b bs s -> forall fuel rest, (length s <= fuel)%nat -> D_blkfollow rest ->
               D_branches_ok (g_p_term fuel) b bs s rest) /\
  (forall b s, xbranch b s -> forall fuel rest, (length s <= fuel)%nat -> D_bfollow rest ->
               g_p_branch (g_p_term fuel) (s ++ rest) = Some (b, D_seq_eat rest)) /\
  (forall c cs s, xseq c cs s -> forall fuel rest, (length s <= fuel)%nat -> D_sfollow rest ->
               D_seq_ok (g_p_term fuel) c cs s rest).
Proof.
  apply x_mutind.
  - (* int *) intros z fuel rest Hl Hf.
    destruct (D_starts_fuel _ _ (D_starts_of _ (starts_int z)) Hl) as [f E]. subst fuel. apply D_pt_int. exact Hf.
  - (* ident *) intros n Hn fuel rest Hl Hf.
    destruct (D_starts_fuel _ _ (D_starts_of _ (starts_ident n Hn)) Hl) as [f E]. subst fuel.
    apply D_pt_ident; assumption.
  - (* str *) intros s fuel rest Hl Hf.
    destruct fuel as [|f]; [cbn [length] in Hl; lia|]. apply D_pt_str. exact Hf.
  - (* unit *) intros fuel rest Hl Hf.
    destruct fuel as [|f]; [cbn [length] in Hl; lia|]. cbn [app].
    rewrite D_pt_bracket. unfold g_p_bracket_body.
    rewrite (skip_ws_stop (93 :: rest)) by exact eq_refl.
    unfold g_p_fields. rewrite (D_p_field_rb _ (D_pt_93 f)).
    unfold g_p_comma. rewrite (skip_ws_stop (93 :: rest)) by exact eq_refl. reflexivity.
  - (* name *) intros n Hn fuel rest Hl Hf.
    destruct (D_starts_fuel _ _ (D_starts_of _ (starts_name n Hn)) Hl) as [f E]. subst fuel.
    apply D_pt_name; assumption.
  - (* tuple *) intros name f fs w1 body oc w2 Hn Hw1 Hw2 Hoc Hfs IH fuel rest Hl Hf.
    rewrite !app_length in Hl. cbn [length] in Hl.
    destruct fuel as [|fu]; [lia|].
    assert (Hbody : g_p_bracket_body (g_p_term fu) (w1 ++ body ++ oc ++ w2 ++ 93 :: rest) = Some (f :: fs, rest)).
    { apply D_bracket_body_complete; try assumption.
      - apply (D_st_fields _ _ _ Hfs).
      - apply IH; [lia|]. exists oc, w2, rest. repeat split; assumption. }
    rewrite <- !app_assoc. cbn [app].
    destruct name as [n|]; cbn [topen wf_name_opt] in *.
    + destruct n as [|c n']; [discriminate|]. rewrite <- app_assoc. cbn [app].
      rewrite (D_pt_upper fu c _ (wf_name_first _ _ Hn)).
      change (c :: n' ++ 91 :: w1 ++ body ++ oc ++ w2 ++ 93 :: rest)
        with ((c :: n') ++ 91 :: w1 ++ body ++ oc ++ w2 ++ 93 :: rest).
      rewrite (p_tuple_name_app _ _ Hn) by exact eq_refl.
      rewrite Z.eqb_refl, Hbody. reflexivity.
    + cbn [app]. rewrite D_pt_bracket, Hbody. reflexivity.
  - (* block *) intros b bs w1 bar body w2 Hw1 Hw2 Hbar Hbs IH fuel rest Hl Hf.
    cbn [length] in Hl. rewrite !app_length in Hl. cbn [length] in Hl.
    destruct fuel as [|fu]; [lia|].
    assert (Hbody : g_p_block_body (g_p_term fu) (w1 ++ bar ++ body ++ w2 ++ 125 :: rest) = Some (b :: bs, rest)).
    { apply D_block_body_complete; try assumption.
      - apply (D_st_branches _ _ _ Hbs).
      - apply IH; [lia|]. exists w2, rest. split; [reflexivity|assumption]. }
    cbn [app]. rewrite D_pt_brace. rewrite <- !app_assoc. cbn [app]. rewrite Hbody. reflexivity.
  - (* one field *) intros f s Hf IH fuel rest Hl Hfol.
    apply D_fields_ok_one; try D_hyp; [|exact Hfol].
    apply IH; [exact Hl|apply D_fsfollow_cfollow; exact Hfol].
  - (* more fields *) intros f f' fs s sep s' Hf IH1 Hsep Hfs IH2 fuel rest Hl Hfol.
    rewrite !app_length in Hl. cbn [length] in Hl. rewrite !app_length in Hl.
    apply D_fields_ok_cons; [|exact Hsep|apply (D_st_fields _ _ _ Hfs)|apply IH2; [lia|exact Hfol]].
    apply IH1; [lia|apply D_cfollow_comma].
  - (* plain field *) intros t ts s Hc IH fuel rest Hl Hfol.
    apply D_p_field_plain; [apply (D_xchain_nolabel _ _ _ _ Hc Hfol)|].
    apply D_p_chain_complete. apply IH; assumption.
  - (* labelled field *) intros n t ts s Hn Hc IH fuel rest Hl Hfol.
    rewrite !app_length in Hl. cbn [length] in Hl.
    apply D_p_field_label; [exact Hn|apply (D_st_chain _ _ _ Hc)|].
    apply D_p_chain_complete. apply IH; [lia|exact Hfol].
  - (* one term *) intros t s Ht IH fuel rest Hl Hfol.
    apply D_chain_ok_one; try D_hyp; [|exact Hfol]. apply IH; [exact Hl|apply D_cfollow_tfollow; exact Hfol].
  - (* more terms *) intros t t' ts s sep s' Ht IH1 Hsep Hc IH2 fuel rest Hl Hfol.
    rewrite !app_length in Hl.
    pose proof (D_st_chain _ _ _ Hc) as Hs'.
    apply D_chain_ok_cons; [|exact Hsep|exact Hs'|apply IH2; [lia|exact Hfol]].
    apply IH1; [lia|]. apply D_tfollow_csep; assumption.
  - (* one branch *) intros b s Hb IH fuel rest Hl Hfol.
    apply D_branches_ok_one; try D_hyp; [|exact Hfol].
    apply IH; [exact Hl|apply D_blkfollow_bfollow; exact Hfol].
  - (* more branches *) intros b b' bs s sep s' Hb IH1 Hsep Hbs IH2 fuel rest Hl Hfol.
    rewrite !app_length in Hl. cbn [length] in Hl.
    apply D_branches_ok_cons; [|exact Hsep|apply (D_st_branches _ _ _ Hbs)|apply IH2; [lia|exact Hfol]].
    apply IH1; [lia|]. exists sep, (124 :: 32 :: s' ++ rest). split; [reflexivity|]. split; [exact Hsep|right; reflexivity].
  - (* plain branch *) intros c cs s Hs IH fuel rest Hl Hfol.
    apply D_p_branch_plain; [|exact Hfol].
    apply D_p_sequence_complete. apply IH; [exact Hl|apply D_bfollow_sfollow; exact Hfol].
  - (* guarded branch *) intros c cs k ks s s' Hs IH1 Hs' IH2 fuel rest Hl Hfol.
    rewrite !app_length in Hl. cbn [length] in Hl.
    rewrite <- !app_assoc. apply D_p_branch_guard.
    + assert (Hsf : D_sfollow ([32; 61; 62; 32] ++ s' ++ rest)).
      { right. left. exists 61, (62 :: 32 :: s' ++ rest). split; [reflexivity|lia]. }
      assert (Hl1 : (length s <= fuel)%nat) by lia.
      pose proof (D_p_sequence_complete _ _ _ _ _ (IH1 fuel _ Hl1 Hsf)) as H.
      cbn [app] in H. rewrite D_seq_eat_sp in H by lia. exact H.
    + apply (D_st_seq _ _ _ Hs').
    + apply D_p_sequence_complete. apply IH2; [lia|apply D_bfollow_sfollow; exact Hfol].
  - (* one step *) intros t ts s Hc IH fuel rest Hl Hfol.
    apply D_seq_ok_one; try D_hyp; [|exact Hfol].
    apply D_p_chain_complete. apply IH; [exact Hl|apply D_sfollow_cfollow; exact Hfol].
  - (* more steps *) intros t ts c' cs s sep s' Hc IH1 Hsep Hs IH2 fuel rest Hl Hfol.
    rewrite !app_length in Hl.
    pose proof (D_st_seq _ _ _ Hs) as Hs'.
    apply D_seq_ok_cons; [|exact Hsep|exact Hs'|apply IH2; [lia|exact Hfol]].
    apply (D_p_chain_complete _ t ts s (sep ++ s' ++ rest)).
    apply IH1; [lia|]. apply D_ssep_cfollow; assumption.
Qed.

(* parser completeness for a whole program text *)
Theorem D_parse_grammar : forall c cs s, xseq c cs s -> parse_frag2 (s ++ [10]) = Some (c :: cs).
Proof.
  intros c cs s H. pose proof (D_st_seq _ _ _ H) as Hs.
  unfold parse_frag2. rewrite (skip_ws_stop (s ++ [10])) by (apply D_starts_stops; exact Hs).
  assert (Hsf : D_sfollow [10]).
  { right. right. exists [], []. split; [reflexivity|]. split; [reflexivity|exact I]. }
  assert (Hl : (length s <= length (s ++ [10%Z]))%nat) by (rewrite app_length; lia).
  pose proof (proj2 (proj2 (proj2 (proj2 (proj2 (proj2 D_complete))))) _ _ _ H _ _ Hl Hsf) as Hok.
  rewrite (D_p_sequence_complete _ _ _ _ _ Hok).
  replace (D_seq_eat [10]) with (@nil Z) by reflexivity. reflexivity.
Qed.


Definition g_seq_doc (s : gseq) (nest : nat) : doc := g_sequence_doc_of (g_seq_items s) nest.
Definition g_field_doc (f : gfield) : doc :=
  match f with
  | GField label value =>
      DConcat [DNil;
               match label with
               | Some n => DConcat [DText (n ++ [58; 32]); g_chain_doc value]
               | None => g_chain_doc value
               end;
               DNil]
  end.
Definition g_branch_doc (b : gbranch) (multi : bool) : doc :=
  let nest := if multi then 2%nat else 0%nat in
  match b with
  | GBranch cond None => g_wrap_breaking_body cond (g_seq_doc cond nest) multi
  | GBranch cond (Some conseq) =>
      let condition := g_seq_doc cond nest in
      let body := g_wrap_breaking_body conseq (g_seq_doc conseq nest) multi in
      if forces_break condition then
        let content := DConcat [condition; DText [32; 61; 62; 32]; body] in
        match cond with [_] => DNest 2 content | _ => content end
      else DConcat [DText (flatten condition); DText [32; 61; 62; 32]; body]
  end.
Fixpoint g_parts (first : bool) (bs : list gbranch) : list doc :=
  match bs with
  | [] => []
  | b :: r => DLine :: DNil :: g_leading_bar first :: g_branch_doc b true :: g_parts false r
  end.
Definition g_block_inner (bs : list gbranch) : doc :=
  match bs with
  | [b] => DConcat [DLine; g_branch_doc b false]
  | _ => break_if_wider_than (DConcat (g_parts true bs)) SHORT_BLOCK_WIDTH
  end.

Lemma g_term_doc_block bs :
  g_term_doc (GBlock bs) = group (DConcat [DText [123]; DNest 2 (g_block_inner bs); DLine; DText [125]]).
Proof. reflexivity. Qed.

Lemma g_term_doc_tuple name f fs :
  g_term_doc (GTuple name (f :: fs)) = bracketed (topen name) [93] (map g_field_doc (f :: fs)).
Proof.
  cbn [g_term_doc]. unfold topen. destruct f as [label value]. cbn [map g_field_doc]. f_equal. f_equal.
  induction fs as [|[l v] r IH]; [reflexivity|]. cbn [map g_field_doc]. rewrite <- IH. reflexivity.
Qed.

Definition g_wf_field (f : gfield) : bool :=
  match f with GField label value => match label with Some n => wf_ident n | None => true end && g_wf_chain value end.
Definition g_wf_branch (b : gbranch) : bool :=
  match b with
  | GBranch c k =>
      negb (match c with [] => true | _ => false end) && forallb g_wf_chain c &&
      match k with Some s => negb (match s with [] => true | _ => false end) && forallb g_wf_chain s | None => true end
  end.

Lemma g_wf_tuple name fs :
  g_wf_term (GTuple name fs) = match name with Some n => wf_tuple_name n | None => true end && forallb g_wf_field fs.
Proof.
  cbn [g_wf_term]. f_equal. induction fs as [|[l v] r IH]; [reflexivity|].
  cbn [forallb g_wf_field]. rewrite <- IH. reflexivity.
Qed.
Lemma g_wf_block bs :
  g_wf_term (GBlock bs) = negb (match bs with [] => true | _ => false end) && forallb g_wf_branch bs.
Proof.
  cbn [g_wf_term]. f_equal. induction bs as [|[c k] r IH]; [reflexivity|].
  cbn [forallb g_wf_branch]. rewrite <- IH. reflexivity.
Qed.

(* ========================================================================================== *)
(* cb: grammar texts are normalised by strip_trailing_whitespace / collapse_blanks to grammar texts *)
(* ========================================================================================== *)
Lemma cl_cb p s q : cl p s q -> cb p s s q.
Proof.
  induction 1 as [p|p q r a b H1 IH1 H2 IH2|p c Hc|].
  - apply cb_nil.
  - eapply cb_app; eassumption.
  - apply cb_char; exact Hc.
  - apply cb_lf.
Qed.

Definition cbok (s s' : list Z) : Prop := forall p, cb p s s' true.

Lemma cl_bar p : cl p [124; 32] false.
Proof. apply (cl_text [124; 32] p). repeat constructor; lia. Qed.
Lemma cl_arrow : cl true [32; 61; 62; 32] false.
Proof. apply (cl_text [32; 61; 62; 32] true). repeat constructor; lia. Qed.
Lemma cl_one c p : solid c = true -> cl p [c] true.
Proof. intros H. apply cl_solid; [discriminate|]. cbn [forallb]. rewrite H. reflexivity. Qed.

Lemma gssep_cb sep : gssep sep -> exists sep', gssep sep' /\ cb true sep sep' false.
Proof.
  intros [E|[[i E]|[i [j E]]]]; subst sep.
  - exists [44; 32]. split; [left; reflexivity|]. apply cl_cb.
    change [44; 32] with ([44] ++ [32]). eapply cl_app; [apply cl_one; reflexivity|apply cl_space].
  - exists (nl i). split; [right; left; exists i; reflexivity|]. apply cl_cb, cl_nl.
  - exists (nl 0 ++ nl j). split; [right; right; exists 0%nat, j; reflexivity|].
    replace (nl i ++ nl j) with ((nl i ++ [10]) ++ repeat 32 j)
      by (unfold nl; rewrite <- app_assoc; reflexivity).
    change (nl 0 ++ nl j) with ([10; 10] ++ repeat 32 j).
    eapply cb_app; [apply cb_blank|apply cl_cb, cl_spaces].
Qed.

Lemma x_cb :
  (forall t s, xterm t s -> exists s', xterm t s' /\ cbok s s') /\
  (forall f fs s, xfields f fs s -> exists s', xfields f fs s' /\ cbok s s') /\
  (forall f s, xfield f s -> exists s', xfield f s' /\ cbok s s') /\
  (forall t ts s, xchain t ts s -> exists s', xchain t ts s' /\ cbok s s') /\
  (forall b bs s, xbranches b bs s -> exists s', xbranches b bs s' /\ cbok s s') /\
  (forall b s, xbranch b s -> exists s', xbranch b s' /\ cbok s s') /\
  (forall c cs s, xseq c cs s -> exists s', xseq c cs s' /\ cbok s s').
Proof.
  apply x_mutind.
  - intros z. exists (int_text z). split; [constructor|]. intros p. apply cl_cb, cl_solid; apply solid_int.
  - intros n Hn. exists n. split; [constructor; exact Hn|]. intros p. apply cl_cb, cl_solid; apply solid_ident; exact Hn.
  - intros s. eexists. split; [constructor|]. intros p. apply cl_cb, cl_str.
  - eexists. split; [constructor|]. intros p. apply cl_cb, cl_solid; [discriminate|reflexivity].
  - intros n Hn. exists n. split; [constructor; exact Hn|]. intros p. apply cl_cb, cl_solid; apply solid_name; exact Hn.
  - intros name f fs w1 body oc w2 Hn Hw1 Hw2 Hoc _ (body' & Hx & Hcb).
    exists (topen name ++ w1 ++ body' ++ oc ++ w2 ++ [93]). split; [apply X_tuple; assumption|]. intros p.
    destruct (gws_cl w1 Hw1) as [q1 H1]. destruct (gws_cl w2 Hw2) as [q2 H2].
    eapply cb_app; [apply cl_cb, cl_topen; exact Hn|].
    eapply cb_app; [apply cl_cb; exact H1|].
    eapply cb_app; [apply Hcb|].
    eapply cb_app; [apply cl_cb, oc_cl; exact Hoc|].
    eapply cb_app; [apply cl_cb; exact H2|].
    apply cl_cb, cl_one. reflexivity.
  - intros b bs w1 bar body w2 Hw1 Hw2 Hbar _ (body' & Hx & Hcb).
    exists (123 :: w1 ++ bar ++ body' ++ w2 ++ [125]). split; [apply X_block; assumption|]. intros p.
    apply (cb_app p true true [123] [123]); [apply cl_cb, cl_one; reflexivity|].
    eapply cb_app; [apply cl_cb, gsep_cl; exact Hw1|].
    eapply cb_app; [apply cl_cb; destruct Hbar as [E|E]; subst bar; [apply cl_nil|apply cl_bar]|].
    eapply cb_app; [apply Hcb|].
    eapply cb_app; [apply cl_cb, gsep_cl; exact Hw2|].
    apply cl_cb, cl_one. reflexivity.
  - intros f s _ IH. exact (match IH with ex_intro _ s' (conj H1 H2) => ex_intro _ s' (conj (XF_one _ _ H1) H2) end).
  - intros f f' fs s sep s' _ (s1 & Hx1 & Hcb1) Hsep _ (s2 & Hx2 & Hcb2).
    exists (s1 ++ 44 :: sep ++ s2). split; [apply XF_cons; assumption|]. intros p.
    change (cb p (s ++ [44] ++ sep ++ s') (s1 ++ [44] ++ sep ++ s2) true).
    eapply cb_app; [apply Hcb1|].
    eapply cb_app; [apply cl_cb, (cl_one 44 true); reflexivity|].
    eapply cb_app; [apply cl_cb, gsep_cl; exact Hsep|apply Hcb2].
  - intros t ts s _ (s1 & Hx1 & Hcb1). exists s1. split; [apply XFd_plain; exact Hx1|exact Hcb1].
  - intros n t ts s Hn _ (s1 & Hx1 & Hcb1).
    exists (n ++ 58 :: 32 :: s1). split; [apply XFd_label; assumption|]. intros p.
    change (cb p (n ++ [58] ++ [32] ++ s) (n ++ [58] ++ [32] ++ s1) true).
    eapply cb_app; [apply cl_cb, cl_solid; apply solid_ident; exact Hn|].
    eapply cb_app; [apply cl_cb, (cl_one 58 true); reflexivity|].
    eapply cb_app; [apply cl_cb, cl_space|apply Hcb1].
  - intros t s _ (s1 & Hx1 & Hcb1). exists s1. split; [apply XC_one; exact Hx1|exact Hcb1].
  - intros t t' ts s sep s' _ (s1 & Hx1 & Hcb1) Hsep _ (s2 & Hx2 & Hcb2).
    exists (s1 ++ sep ++ s2). split; [apply XC_cons; assumption|]. intros p.
    eapply cb_app; [apply Hcb1|].
    eapply cb_app; [apply cl_cb, gcsep_cl; exact Hsep|apply Hcb2].
  - intros b s _ (s1 & Hx1 & Hcb1). exists s1. split; [apply XBs_one; exact Hx1|exact Hcb1].
  - intros b b' bs s sep s' _ (s1 & Hx1 & Hcb1) Hsep _ (s2 & Hx2 & Hcb2).
    exists (s1 ++ sep ++ 124 :: 32 :: s2). split; [apply XBs_cons; assumption|]. intros p.
    change (cb p (s ++ sep ++ [124; 32] ++ s') (s1 ++ sep ++ [124; 32] ++ s2) true).
    eapply cb_app; [apply Hcb1|].
    eapply cb_app; [apply cl_cb, gsep_cl; exact Hsep|].
    eapply cb_app; [apply cl_cb, cl_bar|apply Hcb2].
  - intros c cs s _ (s1 & Hx1 & Hcb1). exists s1. split; [apply XB_plain; exact Hx1|exact Hcb1].
  - intros c cs k ks s s' _ (s1 & Hx1 & Hcb1) _ (s2 & Hx2 & Hcb2).
    exists (s1 ++ [32; 61; 62; 32] ++ s2). split; [apply XB_guard; assumption|]. intros p.
    eapply cb_app; [apply Hcb1|].
    eapply cb_app; [apply cl_cb, cl_arrow|apply Hcb2].
  - intros t ts s _ (s1 & Hx1 & Hcb1). exists s1. split; [apply XS_one; exact Hx1|exact Hcb1].
  - intros t ts c' cs s sep s' _ (s1 & Hx1 & Hcb1) Hsep _ (s2 & Hx2 & Hcb2).
    destruct (gssep_cb sep Hsep) as (sep' & Hsep' & Hcbs).
    exists (s1 ++ sep' ++ s2). split; [apply XS_cons; assumption|]. intros p.
    eapply cb_app; [apply Hcb1|].
    eapply cb_app; [exact Hcbs|apply Hcb2].
Qed.

(* ========================================================================================== *)
(* C. every rendered shape of a block-fragment doc is in the grammar, for a term related by wraps *)
(* ========================================================================================== *)
Definition Q2 (t : gterm) : Prop :=
  suffix_free (g_term_doc t) = true /\
  forall m s, rsh m (g_term_doc t) s -> exists t', wraps_t t' t /\ xterm t' s.

Definition xchainL (c : list gterm) (s : list Z) : Prop :=
  match c with [] => False | t :: ts => xchain t ts s end.
Definition xseqL (cs : list (list gterm)) (s : list Z) : Prop :=
  match cs with [] => False | c :: r => xseq c r s end.

Lemma xseqL_inv s t : xseqL s t -> exists c cs, s = c :: cs /\ xseq c cs t.
Proof. destruct s as [|c cs]; [intros []|]. intros H. exists c, cs. split; [reflexivity|exact H]. Qed.

Lemma Q2_flat t : Q2 t -> exists t', wraps_t t' t /\ xterm t' (flatten (g_term_doc t)).
Proof.
  intros [Hsf Hg]. destruct (Hg Flat _ (rsh_flatten_raw _ Hsf)) as (t' & Hw & Hx).
  destruct (proj1 x_cb _ _ Hx) as (s' & Hx' & Hcb).
  exists t'. split; [exact Hw|]. unfold flatten. rewrite (E_cb_strip _ _ (Hcb false)). exact Hx'.
Qed.

Lemma g_cparts_sf c : Forall Q2 c ->
  forall prev, forallb suffix_free (g_chain_terms_parts prev (g_chain_items c)) = true.
Proof.
  induction 1 as [|t r [Hsf _] _ IH]; intros prev; [reflexivity|].
  unfold g_chain_items. cbn [map g_chain_terms_parts]. fold (g_chain_items r).
  rewrite forallb_app. cbn [forallb]. rewrite Hsf, IH.
  destruct prev as [p|]; [destruct (g_is_call_ender p)|]; reflexivity.
Qed.

Lemma g_cparts_rsh c : Forall Q2 c -> forall m prev s,
  rsh_list (rsh m) (g_chain_terms_parts prev (g_chain_items c)) s ->
  match c with
  | [] => s = []
  | _ :: _ => exists sep s' c', s = sep ++ s' /\
                                match prev with None => sep = [] | Some _ => gcsep sep end /\
                                wraps_c c' c /\ xchainL c' s'
  end.
Proof.
  induction 1 as [|t r [_ Hg] Hr IH]; intros m prev s H; [exact H|].
  unfold g_chain_items in H. cbn [map g_chain_terms_parts] in H. fold (g_chain_items r) in H.
  destruct (rsh_list_app _ _ _ _ H) as (a & b & E & Ha & Hb).
  cbn [rsh_list] in Hb. destruct Hb as (x & y & Eb & Hx & Hy).
  apply Hg in Hx. destruct Hx as (t' & Hwt & Hxt). specialize (IH m (Some t) y Hy).
  assert (Hsep : match prev with None => a = [] | Some _ => gcsep a end).
  { destruct prev as [p|]; [|exact Ha].
    destruct (g_is_call_ender p).
    - cbn [rsh_list] in Ha. destruct Ha as (a1 & b1 & E1 & H1 & (a2 & b2 & E2 & H2 & E3)).
      destruct m; cbn [rsh] in H1, H2.
      + subst. left. reflexivity.
      + destruct H1 as [i Hi]. subst. right. exists i. rewrite app_nil_r. reflexivity.
    - cbn [rsh_list rsh] in Ha. destruct Ha as (a1 & b1 & E1 & H1 & E2). subst. left. reflexivity. }
  exists a. destruct r as [|t2 ts].
  - subst y. exists x, [t']. rewrite app_nil_r in Eb. subst.
    split; [reflexivity|]. split; [exact Hsep|]. split; [constructor; [exact Hwt|constructor]|].
    cbn [xchainL]. constructor. exact Hxt.
  - destruct IH as (sep & s' & c' & Ey & Hsep' & Hwc & Hc). subst.
    destruct c' as [|t2' ts']; [destruct Hc|]. cbn [xchainL] in Hc.
    exists (x ++ sep ++ s'), (t' :: t2' :: ts').
    split; [reflexivity|]. split; [exact Hsep|]. split; [constructor; assumption|].
    cbn [xchainL]. constructor; assumption.
Qed.

Definition g_chain_default (c : gchain) : doc :=
  DConcat [DNil; group (break_if_wider_than (DConcat (g_chain_terms_parts None (g_chain_items c))) CHAIN_SOFT_WIDTH)].

Lemma g_default_ok c : Forall Q2 c -> c <> [] ->
  suffix_free (g_chain_default c) = true /\
  forall m s, rsh m (g_chain_default c) s -> exists c', wraps_c c' c /\ xchainL c' s.
Proof.
  intros HQ Hne. split.
  - unfold g_chain_default, group. cbn [suffix_free forallb]. rewrite biwt_sf.
    cbn [suffix_free]. rewrite (g_cparts_sf c HQ None). reflexivity.
  - intros m s H. unfold g_chain_default, group in H. cbn [rsh rsh_list] in H.
    destruct H as (a & b & E & Ha & (a' & b' & E' & (m' & Hm) & Eb')). subst.
    apply biwt_rsh in Hm. cbn [rsh] in Hm.
    pose proof (g_cparts_rsh c HQ m' None a' Hm) as Hp. rewrite app_nil_r. cbn [app].
    destruct c as [|t ts]; [congruence|]. destruct Hp as (sep & s' & c' & E & Hsep & Hw & Hc). subst.
    exists c'. split; assumption.
Qed.

Lemma g_headflat_text hc tl tl' a : Forall Q2 hc -> wraps_t tl' tl -> xterm tl' a ->
  exists c', wraps_c c' (hc ++ [tl]) /\
             xchainL c' (flat_map (fun td : gterm * doc => flatten (snd td) ++ [32]) (g_chain_items hc) ++ a).
Proof.
  induction 1 as [|t r Ht _ IH]; intros Hw Ha.
  - exists [tl']. split; [constructor; [exact Hw|constructor]|].
    cbn [app g_chain_items map flat_map xchainL]. constructor. exact Ha.
  - destruct (IH Hw Ha) as (c' & Hwc & Hc). destruct (Q2_flat t Ht) as (t' & Hwt & Hxt).
    unfold g_chain_items. cbn [map flat_map snd app]. fold (g_chain_items r).
    destruct c' as [|t2 ts2]; [destruct Hc|]. exists (t' :: t2 :: ts2).
    split; [constructor; assumption|].
    cbn [xchainL] in *. rewrite <- !app_assoc. apply XC_cons; [exact Hxt|left; reflexivity|exact Hc].
Qed.

Lemma g_split_last_items c head tl d :
  split_last (g_chain_items c) = Some (head, (tl, d)) ->
  exists hc, c = hc ++ [tl] /\ head = g_chain_items hc /\ d = g_term_doc tl.
Proof.
  revert head. induction c as [|x r IH]; intros head H; [discriminate|].
  unfold g_chain_items in H. cbn [map split_last] in H. fold (g_chain_items r) in H.
  destruct (split_last (g_chain_items r)) as [[h t]|] eqn:E.
  - inversion H; subst. destruct (IH h eq_refl) as (hc & E1 & E2 & E3).
    exists (x :: hc). subst. repeat split.
  - inversion H; subst. apply split_last_none in E. unfold g_chain_items in E.
    apply map_eq_nil in E. subst r. exists []. repeat split.
Qed.

Lemma g_chain_doc_ok c : Forall Q2 c -> c <> [] ->
  suffix_free (g_chain_doc c) = true /\
  forall m s, rsh m (g_chain_doc c) s -> exists c', wraps_c c' c /\ xchainL c' s.
Proof.
  intros HQ Hne. pose proof (g_default_ok c HQ Hne) as Hdef.
  unfold g_chain_doc, g_chain_doc_of. cbv zeta. fold (g_chain_default c).
  destruct (split_last (g_chain_items c)) as [[head [tl tl_doc]]|] eqn:E; [|exact Hdef].
  match goal with |- context [if ?b then _ else _] => destruct b end; [|exact Hdef].
  destruct (g_split_last_items _ _ _ _ E) as (hc & Ec & Eh & Ed). subst.
  apply Forall_app in HQ. destruct HQ as [HQh HQt]. inversion HQt as [|? ? [Hsf Hg] _]; subst.
  split.
  - cbn [suffix_free forallb]. rewrite Hsf. reflexivity.
  - intros m s H. cbn [rsh rsh_list] in H.
    destruct H as (a & b & E1 & Ha & (a2 & b2 & E2 & Ha2 & (a3 & b3 & E3 & Ha3 & E4))). subst.
    cbn [app]. rewrite app_nil_r. apply Hg in Ha3. destruct Ha3 as (tl' & Hw & Hx).
    apply (g_headflat_text hc tl tl' a3); assumption.
Qed.

(* ---- fields and tuples ---- *)
Definition Qf2 (f : gfield) : Prop :=
  suffix_free (g_field_doc f) = true /\
  forall m s, rsh m (g_field_doc f) s -> exists f', wraps_f f' f /\ xfield f' s.

Lemma g_field_ok f : g_wf_field f = true -> Forall Q2 (gfield_terms f) -> Qf2 f.
Proof.
  destruct f as [label value]. cbn [g_wf_field gfield_terms]. intros Hwf HQ.
  apply andb_true_iff in Hwf. destruct Hwf as [Hl Hc].
  unfold g_wf_chain in Hc. apply andb_true_iff in Hc. destruct Hc as [Hne _].
  assert (Hne' : value <> []) by (destruct value; [discriminate|discriminate]).
  destruct (g_chain_doc_ok value HQ Hne') as [Hsf Hg]. split.
  - cbn [g_field_doc suffix_free forallb]. destruct label; cbn [suffix_free forallb]; rewrite Hsf; reflexivity.
  - intros m s H. cbn [g_field_doc] in H.
    destruct label as [n|]; cbn [rsh rsh_list] in H.
    + destruct H as (a & b & E1 & Ha & (a2 & b2 & E2 &
                      (a3 & b3 & E3 & Ha3 & (a4 & b4 & E4 & Ha4 & E5)) & (a5 & b5 & E6 & Ha5 & E7))).
      subst. apply Hg in Ha4. destruct Ha4 as (c' & Hw & Hx). destruct c' as [|t ts]; [destruct Hx|].
      exists (GField (Some n) (t :: ts)). split; [constructor; exact Hw|].
      cbn [app]. rewrite !app_nil_r. rewrite <- app_assoc. cbn [app]. apply XFd_label; assumption.
    + destruct H as (a & b & E1 & Ha & (a2 & b2 & E2 & Ha2 & (a5 & b5 & E6 & Ha5 & E7))).
      subst. apply Hg in Ha2. destruct Ha2 as (c' & Hw & Hx). destruct c' as [|t ts]; [destruct Hx|].
      exists (GField None (t :: ts)). split; [constructor; exact Hw|].
      cbn [app]. rewrite !app_nil_r. apply XFd_plain. exact Hx.
Qed.

Lemma g_join_rsh m : forall fs f body, Forall Qf2 (f :: fs) ->
  rsh_list (rsh m) (join_docs (DConcat [DText [44]; DLine]) (map g_field_doc (f :: fs))) body ->
  exists f' fs', Forall2 wraps_f (f' :: fs') (f :: fs) /\ xfields f' fs' body.
Proof.
  induction fs as [|f2 fs IH]; intros f body HQ H; inversion HQ as [|? ? [_ Hg] HQ']; subst.
  - cbn [map join_docs rsh_list] in H. destruct H as (a & b & E & Ha & Eb). subst.
    rewrite app_nil_r. apply Hg in Ha. destruct Ha as (f' & Hw & Hx). exists f', [].
    split; [constructor; [exact Hw|constructor]|apply XF_one; exact Hx].
  - cbn [map] in H. rewrite join_docs_cons2 in H. cbn [rsh_list] in H.
    destruct H as (a & b & E & Ha & (a2 & b2 & E2 & Hsep & Hrest)).
    cbn [rsh rsh_list] in Hsep. destruct Hsep as (x & y & E3 & Hx & (x2 & y2 & E4 & Hy & E5)).
    subst. apply Hg in Ha. destruct Ha as (f' & Hw & Hxf).
    destruct (IH f2 b2 HQ' Hrest) as (f2' & fs' & Hws & Hxs).
    exists f', (f2' :: fs'). split; [constructor; assumption|].
    rewrite app_nil_r. rewrite <- app_assoc. cbn [app].
    apply XF_cons; [exact Hxf| |exact Hxs].
    destruct m; [left; exact Hy|right; exact Hy].
Qed.

(* ---- sequences ---- *)
Definition chain_good (c : gchain) : Prop := c <> [] /\ Forall Q2 c.
Definition seq_good (s : gseq) : Prop := s <> [] /\ Forall chain_good s.
Definition branch_good (b : gbranch) : Prop :=
  seq_good (gbranch_cond b) /\ match b with GBranch _ (Some k) => seq_good k | _ => True end.

Lemma g_seq_rest_sf r : Forall chain_good r ->
  forall tall, forallb suffix_free (g_sequence_rest tall (g_seq_items r)) = true.
Proof.
  induction 1 as [|c r [Hne HQ] _ IH]; intros tall; [reflexivity|].
  unfold g_seq_items. cbn [map g_sequence_rest]. fold (g_seq_items r).
  rewrite forallb_app. cbn [forallb suffix_free]. rewrite (proj1 (g_chain_doc_ok c HQ Hne)), IH.
  match goal with |- context [if ?b then _ else _] => destruct b end; reflexivity.
Qed.

Lemma g_seq_rest_rsh r : Forall chain_good r -> forall m tall s,
  rsh_list (rsh m) (g_sequence_rest tall (g_seq_items r)) s ->
  match r with
  | [] => s = []
  | _ :: _ => exists sep s' r', s = sep ++ s' /\ gssep sep /\ wraps_s r' r /\ xseqL r' s'
  end.
Proof.
  induction 1 as [|c r [Hne HQ] Hr IH]; intros m tall s H; [exact H|].
  unfold g_seq_items in H. cbn [map g_sequence_rest] in H. fold (g_seq_items r) in H.
  destruct (rsh_list_app _ _ _ _ H) as (a & b & E & Ha & Hb).
  cbn [rsh_list] in Hb. destruct Hb as (x & y & Eb & Hx & Hy).
  cbn [rsh rsh_list] in Hx.
  destruct Hx as (x1 & y1 & E1 & Hx1 & (x2 & y2 & E2 & Hx2 & (x3 & y3 & E3 & Hx3 & E4))).
  apply (proj2 (g_chain_doc_ok c HQ Hne)) in Hx2. destruct Hx2 as (c' & Hwc & Hxc).
  specialize (IH m _ y Hy).
  assert (Hsep : gssep a).
  { match type of Ha with context [if ?b then _ else _] => destruct b end.
    - cbn [rsh_list rsh] in Ha. destruct Ha as (a1 & b1 & F1 & [i Hi] & (a2 & b2 & F2 & [j Hj] & F3)). subst.
      right. right. exists i, j. rewrite app_nil_r. reflexivity.
    - destruct m; cbn [rsh_list rsh] in Ha;
        destruct Ha as (a1 & b1 & F1 & (a2 & b2 & F2 & G1 & (a3 & b3 & F3 & G2 & F4)) & F5).
      + subst. left. reflexivity.
      + destruct G2 as [i Hi]. subst. right. left. exists i. cbn [app]. rewrite !app_nil_r. reflexivity. }
  subst. destruct c' as [|t' ts']; [destruct Hxc|]. cbn [xchainL] in Hxc.
  exists a. destruct r as [|c2 r2].
  - subst y. exists x2, [t' :: ts']. cbn [app]. rewrite !app_nil_r.
    split; [reflexivity|]. split; [exact Hsep|]. split; [constructor; [exact Hwc|constructor]|].
    cbn [xseqL]. apply XS_one. exact Hxc.
  - destruct IH as (sep & s' & r' & Ey & Hsep' & Hwr & Hxr). subst.
    destruct r' as [|c2' r2']; [destruct Hxr|].
    exists (x2 ++ sep ++ s'), ((t' :: ts') :: c2' :: r2'). cbn [app]. rewrite !app_nil_r.
    split; [reflexivity|]. split; [exact Hsep|]. split; [constructor; assumption|].
    cbn [xseqL] in *. apply XS_cons; assumption.
Qed.

Lemma g_seq_doc_ok s n : Forall chain_good s -> s <> [] ->
  suffix_free (g_seq_doc s n) = true /\
  forall m t, rsh m (g_seq_doc s n) t -> exists s', wraps_s s' s /\ xseqL s' t.
Proof.
  intros Hall Hne. destruct s as [|c r]; [congruence|]. inversion Hall as [|? ? [Hcne HQ] Hr]; subst.
  destruct (g_chain_doc_ok c HQ Hcne) as [Hsf Hg].
  unfold g_seq_doc, g_seq_items. cbn [map g_sequence_doc_of]. fold (g_seq_items r). split.
  - unfold group. cbn [suffix_free forallb]. rewrite Hsf, (g_seq_rest_sf r Hr). reflexivity.
  - intros m t H. unfold group in H. cbn [rsh rsh_list] in H.
    destruct H as (m' & a & b & E & (x1 & y1 & E1 & Hx1 & (x2 & y2 & E2 & Hx2 & (x3 & y3 & E3 & Hx3 & E4)))
                      & (a2 & b2 & E5 & Ha2 & E6)).
    apply Hg in Hx2. destruct Hx2 as (c' & Hwc & Hxc).
    pose proof (g_seq_rest_rsh r Hr m' _ a2 Ha2) as Hrest.
    subst. destruct c' as [|t' ts']; [destruct Hxc|]. cbn [xchainL] in Hxc.
    destruct r as [|c2 r2].
    + subst a2. exists [t' :: ts']. cbn [app]. rewrite !app_nil_r.
      split; [constructor; [exact Hwc|constructor]|]. cbn [xseqL]. apply XS_one. exact Hxc.
    + destruct Hrest as (sep & s' & r' & Ey & Hsep' & Hwr & Hxr). subst.
      destruct r' as [|c2' r2']; [destruct Hxr|].
      exists ((t' :: ts') :: c2' :: r2'). cbn [app]. rewrite !app_nil_r.
      split; [constructor; assumption|]. cbn [xseqL] in *. apply XS_cons; assumption.
Qed.

(* ---- wrap_breaking_body ---- *)
Lemma g_wrap_ok seq body multi :
  (suffix_free body = true /\ forall m t, rsh m body t -> exists s', wraps_s s' seq /\ xseqL s' t) ->
  suffix_free (g_wrap_breaking_body seq body multi) = true /\
  forall m t, rsh m (g_wrap_breaking_body seq body multi) t -> exists s', wraps_body s' seq /\ xseqL s' t.
Proof.
  intros [Hsf Hg].
  assert (Hsame : suffix_free body = true /\
                  forall m t, rsh m body t -> exists s', wraps_body s' seq /\ xseqL s' t).
  { split; [exact Hsf|]. intros m t H. destruct (Hg m t H) as (s' & Hw & Hx).
    exists s'. split; [apply WB_same; exact Hw|exact Hx]. }
  unfold g_wrap_breaking_body. cbv zeta.
  match goal with |- context [if ?b then _ else _] => destruct b eqn:Eb end; [|exact Hsame].
  apply andb_true_iff in Eb. destruct Eb as [Eb _]. apply andb_true_iff in Eb. destruct Eb as [_ Eb].
  destruct seq as [|chain [|c2 r]]; try discriminate.
  assert (Hcne : chain <> []) by (destruct chain; [discriminate|discriminate]).
  clear Eb. split.
  - cbn [suffix_free forallb]. rewrite Hsf. reflexivity.
  - intros m t H. cbn [rsh rsh_list] in H.
    destruct H as (a1 & b1 & E1 & H1 & (a2 & b2 & E2 & (x1 & y1 & F1 & [i Hi] & (x2 & y2 & F2 & Hx2 & F3))
                      & (a3 & b3 & E3 & [j Hj] & (a4 & b4 & E4 & H4 & E5)))).
    apply Hg in Hx2. destruct Hx2 as (s' & Hw & Hx). subst.
    inversion Hw as [|ch' ? l' ? Hwc Hnil]; subst. inversion Hnil; subst. cbn [xseqL] in Hx.
    exists [[GBlock [GBranch [ch'] None]]]. split; [apply WB_wrap; [exact Hcne|exact Hwc]|].
    cbn [xseqL]. apply XS_one. apply XC_one.
    match goal with |- xterm _ ?s => replace s with (123 :: nl i ++ [] ++ x2 ++ nl j ++ [125]) end.
    + apply X_block; [right; exists i; reflexivity|right; exists j; reflexivity|left; reflexivity|].
      apply XBs_one, XB_plain. exact Hx.
    + cbn [app]. rewrite ?app_nil_r. rewrite <- ?app_assoc. reflexivity.
Qed.

(* ---- branches ---- *)
Definition Qb (b : gbranch) (multi : bool) : Prop :=
  suffix_free (g_branch_doc b multi) = true /\
  forall m t, rsh m (g_branch_doc b multi) t -> exists b', wraps_b b' b /\ xbranch b' t.

Lemma nest_match_sf {A} (l : list A) d :
  suffix_free (match l with [_] => DNest 2 d | _ => d end) = suffix_free d.
Proof. destruct l as [|? [|? ?]]; reflexivity. Qed.
Lemma nest_match_rsh {A} (l : list A) m d t :
  rsh m (match l with [_] => DNest 2 d | _ => d end) t -> rsh m d t.
Proof. destruct l as [|? [|? ?]]; auto. Qed.

Lemma g_guard_doc_ok cond k condition body :
  (suffix_free condition = true /\
   forall m a, rsh m condition a -> exists c', wraps_s c' cond /\ xseqL c' a) ->
  (suffix_free body = true /\
   forall m t, rsh m body t -> exists k', wraps_body k' k /\ xseqL k' t) ->
  let d := if forces_break condition
           then match cond with
                | [_] => DNest 2 (DConcat [condition; DText [32; 61; 62; 32]; body])
                | _ => DConcat [condition; DText [32; 61; 62; 32]; body]
                end
           else DConcat [DText (flatten condition); DText [32; 61; 62; 32]; body] in
  suffix_free d = true /\
  forall m t, rsh m d t -> exists b', wraps_b b' (GBranch cond (Some k)) /\ xbranch b' t.
Proof.
  intros [Hcsf Hcg] [Hbsf Hbg] d.
  assert (Hfin : forall a b0,
    (exists m, rsh m condition a) \/ a = flatten condition -> (exists m, rsh m body b0) ->
    exists b', wraps_b b' (GBranch cond (Some k)) /\ xbranch b' (a ++ [32; 61; 62; 32] ++ b0)).
  { intros a b0 Ha [mb Hb].
    assert (Hc : exists c', wraps_s c' cond /\ xseqL c' a).
    { destruct Ha as [[ma Ha]|Ha]; [apply (Hcg ma); exact Ha|].
      destruct (Hcg Flat _ (rsh_flatten_raw _ Hcsf)) as (c' & Hw & Hx).
      destruct (xseqL_inv _ _ Hx) as (c0 & cs0 & Ec & Hx0).
      destruct (proj2 (proj2 (proj2 (proj2 (proj2 (proj2 x_cb))))) _ _ _ Hx0) as (s' & Hx' & Hcb).
      exists c'. split; [exact Hw|]. subst a c'. unfold flatten.
      rewrite (E_cb_strip _ _ (Hcb false)). exact Hx'. }
    destruct Hc as (c' & Hwc & Hxc). destruct (Hbg mb _ Hb) as (k' & Hwk & Hxk).
    destruct (xseqL_inv _ _ Hxc) as (c0 & cs0 & Ec & Hxc0). subst c'.
    destruct (xseqL_inv _ _ Hxk) as (k0 & ks0 & Ek & Hxk0). subst k'.
    exists (GBranch (c0 :: cs0) (Some (k0 :: ks0))).
    split; [apply W_guard; assumption|apply XB_guard; assumption]. }
  subst d. destruct (forces_break condition).
  - split.
    + rewrite nest_match_sf. cbn [suffix_free forallb]. rewrite Hcsf, Hbsf. reflexivity.
    + intros m t H. apply nest_match_rsh in H. cbn [rsh rsh_list] in H.
      destruct H as (a & b0 & E & Ha & (a2 & b2 & E2 & Ha2 & (a3 & b3 & E3 & Ha3 & E4))). subst.
      rewrite app_nil_r. apply Hfin; [left; exists m; exact Ha|exists m; exact Ha3].
  - split.
    + cbn [suffix_free forallb]. rewrite Hbsf. reflexivity.
    + intros m t H. cbn [rsh rsh_list] in H.
      destruct H as (a & b0 & E & Ha & (a2 & b2 & E2 & Ha2 & (a3 & b3 & E3 & Ha3 & E4))). subst.
      rewrite app_nil_r. apply Hfin; [right; reflexivity|exists m; exact Ha3].
Qed.

Lemma g_branch_ok b multi : branch_good b -> Qb b multi.
Proof.
  destruct b as [cond [k|]]; unfold branch_good; cbn [gbranch_cond]; intros [[Hne Hall] Hk].
  - destruct Hk as [Hkne Hkall]. unfold Qb, g_branch_doc. cbv zeta.
    apply (g_guard_doc_ok cond k).
    + apply g_seq_doc_ok; assumption.
    + apply g_wrap_ok. apply g_seq_doc_ok; assumption.
  - unfold Qb, g_branch_doc. cbv zeta.
    destruct (g_wrap_ok cond _ multi (g_seq_doc_ok cond (if multi then 2 else 0)%nat Hall Hne)) as [Hsf Hg].
    split; [exact Hsf|]. intros m t H. destruct (Hg m t H) as (s' & Hw & Hx).
    destruct (xseqL_inv _ _ Hx) as (c0 & cs0 & Ec & Hx0). subst s'.
    exists (GBranch (c0 :: cs0) None). split; [apply W_plain; exact Hw|apply XB_plain; exact Hx0].
Qed.

Lemma g_bparts_sf bs : Forall branch_good bs ->
  forall first, forallb suffix_free (g_parts first bs) = true.
Proof.
  induction 1 as [|b r Hb _ IH]; intros first; [reflexivity|].
  cbn [g_parts forallb suffix_free]. rewrite (proj1 (g_branch_ok b true Hb)), IH.
  destruct first; reflexivity.
Qed.

Lemma g_bparts_rsh bs : Forall branch_good bs -> forall m first t,
  rsh_list (rsh m) (g_parts first bs) t ->
  match bs with
  | [] => t = []
  | _ :: _ => exists w bar body b' r',
      t = w ++ bar ++ body /\ gsep w /\ (bar = [] \/ bar = [124; 32]) /\ (first = false -> bar = [124; 32]) /\
      Forall2 wraps_b (b' :: r') bs /\ xbranches b' r' body
  end.
Proof.
  induction 1 as [|b r Hb Hr IH]; intros m first t H; [exact H|].
  cbn [g_parts rsh_list] in H.
  destruct H as (a & b0 & E & Ha & (a2 & b2 & E2 & Ha2 & (a3 & b3 & E3 & Ha3 & (a4 & b4 & E4 & Ha4 & Hrest)))).
  cbn [rsh] in Ha2. apply (proj2 (g_branch_ok b true Hb)) in Ha4. destruct Ha4 as (b' & Hwb & Hxb).
  specialize (IH m false b4 Hrest).
  assert (Hw : gsep a) by (destruct m; cbn [rsh] in Ha; [left|right]; exact Ha).
  assert (Hbar : (a3 = [] \/ a3 = [124; 32]) /\ (first = false -> a3 = [124; 32])).
  { unfold g_leading_bar in Ha3. destruct first; destruct m; cbn [rsh] in Ha3; subst a3.
    - split; [left; reflexivity|discriminate].
    - split; [right; reflexivity|reflexivity].
    - split; [right; reflexivity|reflexivity].
    - split; [right; reflexivity|reflexivity]. }
  destruct Hbar as [Hbar1 Hbar2]. subst. cbn [app].
  exists a, a3. destruct r as [|b2' r2].
  - subst b4. exists a4, b', []. rewrite app_nil_r.
    split; [reflexivity|]. split; [exact Hw|]. split; [exact Hbar1|]. split; [exact Hbar2|].
    split; [constructor; [exact Hwb|constructor]|apply XBs_one; exact Hxb].
  - destruct IH as (w' & bar' & body' & b2'' & r2'' & Et & Hw' & _ & Hbar' & Hws & Hxs).
    specialize (Hbar' eq_refl). subst.
    exists (a4 ++ w' ++ 124 :: 32 :: body'), b', (b2'' :: r2'').
    split; [reflexivity|]. split; [exact Hw|]. split; [exact Hbar1|]. split; [exact Hbar2|].
    split; [constructor; assumption|apply XBs_cons; assumption].
Qed.

Lemma g_block_ok bs : bs <> [] -> Forall branch_good bs -> Q2 (GBlock bs).
Proof.
  intros Hne Hall. unfold Q2. rewrite g_term_doc_block.
  assert (Hinner : suffix_free (g_block_inner bs) = true /\
    forall m t, rsh m (g_block_inner bs) t ->
      exists w1 bar body b' r', t = w1 ++ bar ++ body /\ gsep w1 /\ (bar = [] \/ bar = [124; 32]) /\
                                Forall2 wraps_b (b' :: r') bs /\ xbranches b' r' body).
  { destruct bs as [|b [|b2 r]]; [congruence| |]; unfold g_block_inner.
    - inversion Hall as [|? ? Hb _]; subst. destruct (g_branch_ok b false Hb) as [Hsf Hg]. split.
      + cbn [suffix_free forallb]. rewrite Hsf. reflexivity.
      + intros m t H. cbn [rsh rsh_list] in H. destruct H as (a & b0 & E & Ha & (a2 & b2 & E2 & Ha2 & E3)).
        apply Hg in Ha2. destruct Ha2 as (b' & Hw & Hx). subst.
        exists a, [], a2, b', []. rewrite app_nil_r. cbn [app].
        split; [reflexivity|]. split; [destruct m; [left|right]; exact Ha|]. split; [left; reflexivity|].
        split; [constructor; [exact Hw|constructor]|apply XBs_one; exact Hx].
    - split.
      + rewrite biwt_sf. cbn [suffix_free]. apply g_bparts_sf. exact Hall.
      + intros m t H. apply biwt_rsh in H. cbn [rsh] in H.
        destruct (g_bparts_rsh _ Hall m true t H) as (w & bar & body & b' & r' & E & Hw & Hbar & _ & Hws & Hx).
        exists w, bar, body, b', r'.
        split; [exact E|]. split; [exact Hw|]. split; [exact Hbar|]. split; assumption. }
  destruct Hinner as [Hisf Hig]. split.
  - unfold group. cbn [suffix_free forallb]. rewrite Hisf. reflexivity.
  - intros m s H. unfold group in H. cbn [rsh rsh_list] in H.
    destruct H as (m' & a & b0 & E & Ha & (a2 & b2 & E2 & Ha2 & (a3 & b3 & E3 & Ha3 & (a4 & b4 & E4 & Ha4 & E5)))).
    apply Hig in Ha2. destruct Ha2 as (w1 & bar & body & b' & r' & Et & Hw1 & Hbar & Hws & Hx). subst.
    inversion Hws as [|? b1 ? bs1 Hwb1 Hws1 E1 E2]. subst.
    exists (GBlock (b' :: r')). split; [apply W_block; exact Hws|].
    match goal with |- xterm _ ?s => replace s with (123 :: w1 ++ bar ++ body ++ a3 ++ [125]) end.
    + apply X_block; try assumption. destruct m'; [left|right]; exact Ha3.
    + cbn [app]. rewrite ?app_nil_r. rewrite <- ?app_assoc. reflexivity.
Qed.

(* ---- terms ---- *)
Lemma chain_good_of c : Forall (fun t => g_wf_term t = true -> Q2 t) c -> g_wf_chain c = true -> chain_good c.
Proof.
  intros IH Hwf. unfold g_wf_chain in Hwf. apply andb_true_iff in Hwf. destruct Hwf as [Hne Hall]. split.
  - destruct c; [discriminate|discriminate].
  - rewrite forallb_forall in Hall. rewrite Forall_forall in *. intros t Hin. apply IH; [exact Hin|apply Hall; exact Hin].
Qed.
Lemma seq_good_of s : Forall (Forall (fun t => g_wf_term t = true -> Q2 t)) s ->
  negb (match s with [] => true | _ => false end) && forallb g_wf_chain s = true -> seq_good s.
Proof.
  intros IH Hwf. apply andb_true_iff in Hwf. destruct Hwf as [Hne Hall]. split.
  - destruct s; [discriminate|discriminate].
  - rewrite forallb_forall in Hall. rewrite Forall_forall in *. intros c Hin.
    apply chain_good_of; [apply IH; exact Hin|apply Hall; exact Hin].
Qed.

Lemma g_term_doc_ok : forall t, g_wf_term t = true -> Q2 t.
Proof.
  induction t as [z|n|s0|name fields IH|bs IH] using gterm_ind2; intros Hwf.
  - split; [reflexivity|]. intros m s H. cbn [g_term_doc rsh] in H. subst. exists (GInt z). split; constructor.
  - split; [reflexivity|]. intros m s H. cbn [g_term_doc rsh] in H. subst. exists (GIdent n).
    split; [constructor|constructor; exact Hwf].
  - split; [reflexivity|]. intros m s H. cbn [g_term_doc rsh] in H. subst. exists (GStr s0). split; constructor.
  - rewrite g_wf_tuple in Hwf. apply andb_true_iff in Hwf. destruct Hwf as [Hn Hfs].
    assert (Hn' : wf_name_opt name) by (destruct name; [exact Hn|exact I]).
    destruct fields as [|f fs].
    + destruct name as [n|]; (split; [reflexivity|]); intros m s H; cbn [g_term_doc rsh] in H; subst.
      * exists (GTuple (Some n) []). split; [constructor; constructor|constructor; exact Hn].
      * exists (GTuple None []). split; [constructor; constructor|constructor].
    + assert (HQf : Forall Qf2 (f :: fs)).
      { revert IH Hfs. generalize (f :: fs). intros l IH Hfs.
        induction IH as [|f0 r Hf0 _ IHr]; [constructor|].
        cbn [forallb] in Hfs. apply andb_true_iff in Hfs. destruct Hfs as [Hw Hws].
        constructor; [|apply IHr; exact Hws].
        apply g_field_ok; [exact Hw|]. destruct f0 as [label value]. cbn [g_wf_field gfield_terms] in *.
        apply andb_true_iff in Hw. destruct Hw as [_ Hc]. apply (chain_good_of value Hf0 Hc). }
      unfold Q2. rewrite g_term_doc_tuple. split.
      * apply bracketed_sf. clear -HQf. induction HQf as [|f0 r [Hsf _] _ IHr]; [reflexivity|].
        cbn [map forallb]. rewrite Hsf. exact IHr.
      * intros m s H.
        destruct (bracketed_rsh _ _ _ _ _ H) as (m' & w1 & body & oc & w2 & E & Hw1 & Hw2 & Hoc & Hb).
        destruct (g_join_rsh m' fs f body HQf Hb) as (f' & fs' & Hws & Hx). subst s.
        exists (GTuple name (f' :: fs')). split; [apply W_tuple; exact Hws|apply X_tuple; assumption].
  - rewrite g_wf_block in Hwf. apply andb_true_iff in Hwf. destruct Hwf as [Hne Hbs].
    apply g_block_ok; [destruct bs; [discriminate|discriminate]|].
    clear Hne. induction IH as [|b r [Hc Hk] _ IHr]; [constructor|].
    cbn [forallb] in Hbs. apply andb_true_iff in Hbs. destruct Hbs as [Hw Hws].
    constructor; [|apply IHr; exact Hws].
    destruct b as [c k]. cbn [g_wf_branch gbranch_cond gbranch_conseq] in *.
    apply andb_true_iff in Hw. destruct Hw as [Hwc Hwk]. split.
    + apply seq_good_of; assumption.
    + destruct k as [k|]; [|exact I]. apply seq_good_of; assumption.
Qed.

(* ---- the program ---- *)
Lemma g_program_doc_ok s : g_wf_seq s = true ->
  suffix_free (g_program_doc s) = true /\
  forall m t, rsh m (g_program_doc s) t -> exists s', wraps_s s' s /\ xseqL s' t.
Proof.
  intros Hwf.
  assert (Hgood : seq_good s).
  { apply seq_good_of; [|exact Hwf]. apply Forall_forall. intros c _. apply Forall_forall. intros t _.
    apply g_term_doc_ok. }
  destruct Hgood as [Hne Hall]. destruct (g_seq_doc_ok s 0 Hall Hne) as [Hsf Hg].
  unfold g_program_doc. fold (g_seq_doc s 0). split.
  - cbn [suffix_free forallb]. rewrite Hsf. reflexivity.
  - intros m t H. cbn [rsh rsh_list] in H. destruct H as (a & b & E & Ha & Eb). subst.
    rewrite app_nil_r. apply (Hg m). exact Ha.
Qed.

(* ========================================================================================== *)
(* F. the round trip                                                                           *)
(* ========================================================================================== *)
Theorem frag2_roundtrip : forall (s : gseq) (w : nat), g_wf_seq s = true ->
  exists out c', format_frag2 s w = Some out /\ parse_frag2 out = Some c' /\ g_normalize c' = g_normalize s.
Proof.
  intros s w Hwf.
  assert (Hnwf : g_wf_seq (g_normalize s) = true) by (apply A_normalize_wf; exact Hwf).
  destruct (layout_total (g_program_doc (g_normalize s)) w) as [ts Hts].
  destruct (g_program_doc_ok (g_normalize s) Hnwf) as [Hsf Hg].
  pose proof (shape_rsh _ _ _ (layout_shape _ w _ Hsf Hts)) as Hr.
  destruct (Hg Break _ Hr) as (s' & Hw & Hx).
  destruct (xseqL_inv _ _ Hx) as (c & cs & Ec & Hxc). subst s'.
  destruct (proj2 (proj2 (proj2 (proj2 (proj2 (proj2 x_cb))))) _ _ _ Hxc) as (t' & Hx' & Hcb).
  exists (t' ++ [10]), (c :: cs). split; [|split].
  - unfold format_frag2, print. rewrite Hts. cbn [option_map].
    rewrite (E_cb_strip _ _ (Hcb false)), (E_cb_collapse _ _ (Hcb false)). reflexivity.
  - apply D_parse_grammar. exact Hx'.
  - apply A_wraps_normalize; [exact Hw|apply A_normalize_nf].
Qed.

Theorem frag2_format_fixpoint : forall s w out, g_wf_seq s = true -> format_frag2 s w = Some out ->
  exists c', parse_frag2 out = Some c' /\ format_frag2 c' w = Some out.
Proof.
  intros s w out Hwf Hf. destruct (frag2_roundtrip s w Hwf) as (out' & c' & Hf' & Hp & Hn).
  rewrite Hf in Hf'. inversion Hf'; subst out'. exists c'. split; [exact Hp|].
  unfold format_frag2 in *. rewrite Hn. exact Hf.
Qed.

Theorem frag2_source_fixpoint : forall t c w out, parse_frag2 t = Some c -> format_frag2 c w = Some out ->
  exists c', parse_frag2 out = Some c' /\ format_frag2 c' w = Some out.
Proof.
  intros t c w out Hp Hf. apply (frag2_format_fixpoint c w out); [apply (parse_frag2_wf t); exact Hp|exact Hf].
Qed.

(* ########################################################################################## *)
(* X. non-vacuity *)
(* ########################################################################################## *)

(* Non-vacuity of the FormatFrag2 round trip
     forall s w, g_wf_seq s = true ->
       exists out c', format_frag2 s w = Some out /\ parse_frag2 out = Some c' /\ g_normalize c' = g_normalize s
   on one example that exercises: the splice of a redundant block, g_group of a compound consequence,
   g_wrap_breaking_body inside a multi-branch block, and tall steps (blank lines). Everything by vm_compute.
   Also a batch of adversarial inputs at widths 0 7 20 41 51 80 100 300: no counterexample was found
   (X_adv_all_ok), so there is no X_refuted in this file. *)

(* ------------------------------------------------------------------------------------------ *)
(* the example                                                                                 *)
Definition X_la : list Z := repeat 97 30.   (* aaa...a, 30 characters *)
Definition X_lb : list Z := repeat 98 30.   (* bbb...b, 30 characters *)

(* source tree, four top-level steps:
     1.  first { gamma helper } index            the block is REDUNDANT (one branch, no =>, one non-empty chain):
                                                 g_normalize splices it: first gamma helper index
     2.  { x => p, q 7 | aaa...a bbb...b }       two branches; the first has a guard whose consequence has two steps,
                                                 so g_group wraps it: x => { p, q 7 }; the second branch is a single
                                                 chain of two identifiers, 61 columns > CHAIN_SOFT_WIDTH = 50, so it
                                                 force-breaks with ''~>'' at every width and g_wrap_breaking_body puts
                                                 it in braces of its own
     3.  aaa...a bbb...b                         the same pipeline as a top-level step: g_is_tall_step holds, blank
                                                 lines before and after it
     4.  P[x: 1, ''hi {'', { u | v }]            a tuple with a label, a string with an escaped brace, and a short
                                                 two-branch block: flat at width 100, broken at width 20 *)
Definition X_ex_seq : gseq :=
  [ [GIdent [102; 105; 114; 115; 116];
     GBlock [GBranch [[GIdent [103; 97; 109; 109; 97]; GIdent [104; 101; 108; 112; 101; 114]]] None];
     GIdent [105; 110; 100; 101; 120]];
    [GBlock [GBranch [[GIdent [120]]] (Some [[GIdent [112]]; [GIdent [113]; GInt 7]]);
             GBranch [[GIdent X_la; GIdent X_lb]] None]];
    [GIdent X_la; GIdent X_lb];
    [GTuple (Some [80]) [GField (Some [120]) [GInt 1];
                         GField None [GStr [104; 105; 32; 123]];
                         GField None [GBlock [GBranch [[GIdent [117]]] None; GBranch [[GIdent [118]]] None]]]] ].

Example X_ex_wf : g_wf_seq X_ex_seq = true.
Proof. vm_compute. reflexivity. Qed.

(* what the printer is run on *)
Definition X_ex_norm : gseq :=
  [ [GIdent [102; 105; 114; 115; 116]; GIdent [103; 97; 109; 109; 97];
     GIdent [104; 101; 108; 112; 101; 114]; GIdent [105; 110; 100; 101; 120]];
    [GBlock [GBranch [[GIdent [120]]] (Some [[GBlock [GBranch [[GIdent [112]]; [GIdent [113]; GInt 7]] None]]]);
             GBranch [[GIdent X_la; GIdent X_lb]] None]];
    [GIdent X_la; GIdent X_lb];
    [GTuple (Some [80]) [GField (Some [120]) [GInt 1];
                         GField None [GStr [104; 105; 32; 123]];
                         GField None [GBlock [GBranch [[GIdent [117]]] None; GBranch [[GIdent [118]]] None]]]] ].
Example X_ex_normalize : g_normalize X_ex_seq = X_ex_norm.
Proof. vm_compute. reflexivity. Qed.
Example X_ex_normalize_idem : g_normalize X_ex_norm = X_ex_norm.
Proof. vm_compute. reflexivity. Qed.

(* ------------------------------------------------------------------------------------------ *)
(* width 100:
first gamma helper index
{
  | x => { p, q 7 }
  | {
    aaaaaaaaaaaaaaaaaaaaaaaaaaaaaa
    ~> bbbbbbbbbbbbbbbbbbbbbbbbbbbbbb
  }
}

aaaaaaaaaaaaaaaaaaaaaaaaaaaaaa
~> bbbbbbbbbbbbbbbbbbbbbbbbbbbbbb

P[x: 1, ''hi \{'', { u | v }]
   (the '' stand for the string quotes, code point 34)
   - line 1: the redundant block is gone
   - line 3: the grouped consequence
   - lines 4-7: the wrapped breaking body of the second branch
   - the blank lines: step 3 is tall (hard line twice before it, and twice after it since prev_tall)
   - the two-branch block of step 2 is broken because it contains hard lines; the one in the tuple is flat *)
Definition X_out100 : list Z :=
  [102; 105; 114; 115; 116; 32; 103; 97; 109; 109; 97; 32; 104; 101; 108; 112; 101; 114; 32; 105; 110; 100; 101; 120; 10;
     123; 10;
     32; 32; 124; 32; 120; 32; 61; 62; 32; 123; 32; 112; 44; 32; 113; 32; 55; 32; 125; 10;
     32; 32; 124; 32; 123; 10;
     32; 32; 32; 32]
  ++ X_la
  ++ [10;
     32; 32; 32; 32; 126; 62; 32]
  ++ X_lb
  ++ [10;
     32; 32; 125; 10;
     125; 10;
     10]
  ++ X_la
  ++ [10;
     126; 62; 32]
  ++ X_lb
  ++ [10;
     10;
     80; 91; 120; 58; 32; 49; 44; 32; 34; 104; 105; 32; 92; 123; 34; 44; 32; 123; 32; 117; 32; 124; 32; 118; 32; 125; 93; 10].
Example X_fmt100 : format_frag2 X_ex_seq 100 = Some X_out100.
Proof. vm_compute. reflexivity. Qed.

(* width 20:
first
~> gamma
~> helper
~> index
{
  | x => { p, q 7 }
  | {
    aaaaaaaaaaaaaaaaaaaaaaaaaaaaaa
    ~> bbbbbbbbbbbbbbbbbbbbbbbbbbbbbb
  }
}

aaaaaaaaaaaaaaaaaaaaaaaaaaaaaa
~> bbbbbbbbbbbbbbbbbbbbbbbbbbbbbb

P[
  x: 1,
  ''hi \{'',
  { u | v },
]
   - step 1 (24 columns) now breaks because of the width only; it does not force a break, so it is NOT a tall step
     and no blank line follows it (X_tall_not_by_width)
   - the tuple is broken with a trailing comma *)
Definition X_out20 : list Z :=
  [102; 105; 114; 115; 116; 10;
     126; 62; 32; 103; 97; 109; 109; 97; 10;
     126; 62; 32; 104; 101; 108; 112; 101; 114; 10;
     126; 62; 32; 105; 110; 100; 101; 120; 10;
     123; 10;
     32; 32; 124; 32; 120; 32; 61; 62; 32; 123; 32; 112; 44; 32; 113; 32; 55; 32; 125; 10;
     32; 32; 124; 32; 123; 10;
     32; 32; 32; 32]
  ++ X_la
  ++ [10;
     32; 32; 32; 32; 126; 62; 32]
  ++ X_lb
  ++ [10;
     32; 32; 125; 10;
     125; 10;
     10]
  ++ X_la
  ++ [10;
     126; 62; 32]
  ++ X_lb
  ++ [10;
     10;
     80; 91; 10;
     32; 32; 120; 58; 32; 49; 44; 10;
     32; 32; 34; 104; 105; 32; 92; 123; 34; 44; 10;
     32; 32; 123; 32; 117; 32; 124; 32; 118; 32; 125; 44; 10;
     93; 10].
Example X_fmt20 : format_frag2 X_ex_seq 20 = Some X_out20.
Proof. vm_compute. reflexivity. Qed.

Example X_outs_differ : X_out100 <> X_out20.
Proof. intro H. apply (f_equal (fun l => nth 5 l 0)) in H. vm_compute in H. discriminate H. Qed.

(* ------------------------------------------------------------------------------------------ *)
(* what the parser returns: the splice is not undone (4 terms in the first chain), the grouping block and the
   wrapping block are read as blocks. The wrapping block is redundant, so g_normalize removes it again. *)
Definition X_parsed100 : gseq :=
  [ [GIdent [102; 105; 114; 115; 116]; GIdent [103; 97; 109; 109; 97];
     GIdent [104; 101; 108; 112; 101; 114]; GIdent [105; 110; 100; 101; 120]];
    [GBlock [GBranch [[GIdent [120]]] (Some [[GBlock [GBranch [[GIdent [112]]; [GIdent [113]; GInt 7]] None]]]);
             GBranch [[GBlock [GBranch [[GIdent X_la; GIdent X_lb]] None]]] None]];
    [GIdent X_la; GIdent X_lb];
    [GTuple (Some [80]) [GField (Some [120]) [GInt 1];
                         GField None [GStr [104; 105; 32; 123]];
                         GField None [GBlock [GBranch [[GIdent [117]]] None; GBranch [[GIdent [118]]] None]]]] ].
Definition X_parsed20 : gseq :=
  [ [GIdent [102; 105; 114; 115; 116]; GIdent [103; 97; 109; 109; 97];
     GIdent [104; 101; 108; 112; 101; 114]; GIdent [105; 110; 100; 101; 120]];
    [GBlock [GBranch [[GIdent [120]]] (Some [[GBlock [GBranch [[GIdent [112]]; [GIdent [113]; GInt 7]] None]]]);
             GBranch [[GBlock [GBranch [[GIdent X_la; GIdent X_lb]] None]]] None]];
    [GIdent X_la; GIdent X_lb];
    [GTuple (Some [80]) [GField (Some [120]) [GInt 1];
                         GField None [GStr [104; 105; 32; 123]];
                         GField None [GBlock [GBranch [[GIdent [117]]] None; GBranch [[GIdent [118]]] None]]]] ].

(* probes used for the disequalities *)
Definition X_first_len (s : gseq) : nat := length (hd [] s).
Definition X_wrapped_probe (s : gseq) : bool :=
  match nth 1 s [] with
  | [GBlock [_; GBranch [[GBlock [GBranch [[_; _]] None]]] None]] => true
  | _ => false
  end.

Example X_rt100 :
  parse_frag2 X_out100 = Some X_parsed100 /\
  g_normalize X_parsed100 = g_normalize X_ex_seq /\
  X_parsed100 <> X_ex_seq /\
  format_frag2 X_parsed100 100 = Some X_out100.
Proof.
  split; [vm_compute; reflexivity|]. split; [vm_compute; reflexivity|]. split.
  - intro H. apply (f_equal X_first_len) in H. vm_compute in H. discriminate H.
  - vm_compute. reflexivity.
Qed.

Example X_rt20 :
  parse_frag2 X_out20 = Some X_parsed20 /\
  g_normalize X_parsed20 = g_normalize X_ex_seq /\
  X_parsed20 <> X_ex_seq /\
  format_frag2 X_parsed20 20 = Some X_out20.
Proof.
  split; [vm_compute; reflexivity|]. split; [vm_compute; reflexivity|]. split.
  - intro H. apply (f_equal X_first_len) in H. vm_compute in H. discriminate H.
  - vm_compute. reflexivity.
Qed.

(* both layouts are read back as the same tree *)
Example X_parsed_same : X_parsed20 = X_parsed100.
Proof. reflexivity. Qed.

(* the round-trip statement itself on the example, at both widths *)
Example X_roundtrip_instance : forall w, w = 100%nat \/ w = 20%nat ->
  exists out c', format_frag2 X_ex_seq w = Some out /\ parse_frag2 out = Some c' /\ g_normalize c' = g_normalize X_ex_seq.
Proof.
  intros w [-> | ->].
  - exists X_out100, X_parsed100. split; [exact X_fmt100|]. split; [apply X_rt100|apply X_rt100].
  - exists X_out20, X_parsed20. split; [exact X_fmt20|]. split; [apply X_rt20|apply X_rt20].
Qed.

(* ------------------------------------------------------------------------------------------ *)
(* the features fire                                                                           *)
Fixpoint X_has_blank (s : list Z) : bool :=
  match s with
  | a :: r => match r with
              | b :: _ => ((a =? 10) && (b =? 10)) || X_has_blank r
              | [] => false
              end
  | [] => false
  end.
Fixpoint X_prefix (p s : list Z) : bool :=
  match p, s with
  | [], _ => true
  | a :: p', b :: s' => (a =? b) && X_prefix p' s'
  | _ :: _, [] => false
  end.
Fixpoint X_has_sub (p s : list Z) : bool :=
  X_prefix p s || match s with [] => false | _ :: r => X_has_sub p r end.
Fixpoint X_count_blank (s : list Z) : nat :=
  match s with
  | a :: r => match r with
              | b :: _ => if (a =? 10) && (b =? 10) then S (X_count_blank r) else X_count_blank r
              | [] => 0%nat
              end
  | [] => 0%nat
  end.

(* the text of the wrapped second branch:
  | {
    aaa...a
    ~> bbb...b
  }                                   *)
Definition X_wrapped_text : list Z :=
  [10; 32; 32; 124; 32; 123; 10; 32; 32; 32; 32] ++ X_la ++ [10; 32; 32; 32; 32; 126; 62; 32] ++ X_lb ++ [10; 32; 32; 125; 10].
(* the text of the grouped consequence: x => { p, q 7 } *)
Definition X_grouped_text : list Z := [120; 32; 61; 62; 32; 123; 32; 112; 44; 32; 113; 32; 55; 32; 125; 10].

Example X_wrap_fires :
  (* the parsed tree is not the normal form (it has the wrapping block) although it normalizes to it *)
  g_normalize X_parsed100 = g_normalize X_ex_seq /\ X_parsed100 <> g_normalize X_ex_seq /\
  g_normalize X_parsed20 = g_normalize X_ex_seq /\ X_parsed20 <> g_normalize X_ex_seq /\
  X_wrapped_probe X_parsed100 = true /\ X_wrapped_probe (g_normalize X_ex_seq) = false /\
  (* the wrapped body and the grouped consequence are in both texts *)
  X_has_sub X_wrapped_text X_out100 = true /\ X_has_sub X_wrapped_text X_out20 = true /\
  X_has_sub X_grouped_text X_out100 = true /\ X_has_sub X_grouped_text X_out20 = true /\
  (* blank lines: exactly two in each text (before and after the tall step) *)
  X_has_blank X_out100 = true /\ X_has_blank X_out20 = true /\
  X_count_blank X_out100 = 2%nat /\ X_count_blank X_out20 = 2%nat /\
  (* the redundant block left no trace: three braces-open only (step 2 block, group, wrap) plus the escaped one
     in the string and the one in the tuple *)
  count_occ Z.eq_dec X_out100 123 = 5%nat.
Proof.
  split; [vm_compute; reflexivity|]. split.
  { intro H. apply (f_equal X_wrapped_probe) in H. vm_compute in H. discriminate H. }
  split; [vm_compute; reflexivity|]. split.
  { intro H. apply (f_equal X_wrapped_probe) in H. vm_compute in H. discriminate H. }
  vm_compute. repeat split; reflexivity.
Qed.

(* g_is_tall_step on the steps of the normal form, with the docs the printer builds *)
Example X_tall_fires :
  map (fun c => g_is_tall_step c (g_chain_doc c)) (g_normalize X_ex_seq) = [false; false; true; false].
Proof. vm_compute. reflexivity. Qed.
(* step 1 breaks at width 20 only because it does not fit: not tall, no blank line after ''~> index'' *)
Example X_tall_not_by_width :
  g_is_tall_step (hd [] (g_normalize X_ex_seq)) (g_chain_doc (hd [] (g_normalize X_ex_seq))) = false /\
  X_has_sub [126; 62; 32; 105; 110; 100; 101; 120; 10; 123; 10] X_out20 = true.
Proof. vm_compute. split; reflexivity. Qed.
(* g_wrap_breaking_body: wraps in a multi-branch block, leaves the body alone in a single-branch one *)
Example X_wrap_body :
  let c := [GIdent X_la; GIdent X_lb] in
  let body := g_sequence_doc_of (g_seq_items [c]) 2 in
  forces_break body = true /\
  g_wrap_breaking_body [c] body true = DConcat [DText [123]; DNest 2 (DConcat [DHardLine; body]); DHardLine; DText [125]] /\
  g_wrap_breaking_body [c] body false = body.
Proof. vm_compute. repeat split; reflexivity. Qed.

(* ------------------------------------------------------------------------------------------ *)
(* adversarial inputs: a decision procedure for one instance of the round trip, and a batch     *)
Definition X_leqb (a b : list Z) : bool := if list_eq_dec Z.eq_dec a b then true else false.
Definition X_oeqb (a b : option (list Z)) : bool :=
  match a, b with Some x, Some y => X_leqb x y | None, None => true | _, _ => false end.
Fixpoint X_teqb (a b : gterm) {struct a} : bool :=
  let chain := fix chain (x y : list gterm) {struct x} : bool :=
    match x, y with [], [] => true | p :: x', q :: y' => X_teqb p q && chain x' y' | _, _ => false end in
  let seq := fix seq (x y : list (list gterm)) {struct x} : bool :=
    match x, y with [], [] => true | p :: x', q :: y' => chain p q && seq x' y' | _, _ => false end in
  match a, b with
  | GInt x, GInt y => x =? y
  | GIdent x, GIdent y => X_leqb x y
  | GStr x, GStr y => X_leqb x y
  | GTuple n f, GTuple m g =>
      X_oeqb n m &&
      (fix fields (x y : list gfield) {struct x} : bool :=
         match x, y with
         | [], [] => true
         | GField l v :: x', GField l' v' :: y' => X_oeqb l l' && chain v v' && fields x' y'
         | _, _ => false end) f g
  | GBlock bs, GBlock cs =>
      (fix brs (x y : list gbranch) {struct x} : bool :=
         match x, y with
         | [], [] => true
         | GBranch c k :: x', GBranch c' k' :: y' =>
             seq c c' && match k, k' with Some s, Some s' => seq s s' | None, None => true | _, _ => false end && brs x' y'
         | _, _ => false end) bs cs
  | _, _ => false
  end.
Fixpoint X_ceqb (x y : gchain) : bool :=
  match x, y with [], [] => true | p :: x', q :: y' => X_teqb p q && X_ceqb x' y' | _, _ => false end.
Fixpoint X_seqb (x y : gseq) : bool :=
  match x, y with [], [] => true | p :: x', q :: y' => X_ceqb p q && X_seqb x' y' | _, _ => false end.

(* 0: wf, formats, parses, same normal form, and the parsed tree formats to the same text;
   1: does not parse; 2: normal forms differ; 3: printer fails; 5/6: not a fixpoint; 9: not wf *)
Definition X_check (s : gseq) (w : nat) : nat :=
  if g_wf_seq s then
    match format_frag2 s w with
    | Some out =>
        match parse_frag2 out with
        | Some c' => if X_seqb (g_normalize c') (g_normalize s)
                     then match format_frag2 c' w with Some o2 => if X_leqb o2 out then 0 else 5 | None => 6 end
                     else 2
        | None => 1
        end
    | None => 3
    end
  else 9.
Definition X_ws : list nat := [0; 7; 20; 41; 51; 80; 100; 300]%nat.

(* the checker is not constantly 0: it sees a difference of normal forms and a non-wf input *)
Example X_check_control :
  X_seqb (g_normalize X_parsed100) (g_normalize X_ex_seq) = true /\
  X_seqb X_parsed100 (g_normalize X_ex_seq) = false /\
  X_seqb X_parsed100 X_ex_seq = false /\
  X_check [[]] 100 = 9%nat /\ X_check [[GIdent [65]]] 100 = 9%nat.
Proof. vm_compute. repeat split; reflexivity. Qed.

Definition X_a30 := GIdent X_la.
Definition X_b30 := GIdent X_lb.
Definition X_i (c : Z) := GIdent [c].
Definition X_blk1 (c : gchain) := GBlock [GBranch [c] None].
Definition X_adv_tests : list gseq := [
  X_ex_seq; X_parsed100;
  (* blocks first / last / in the middle of chains *)
  [[GBlock [GBranch [[X_i 97]] None; GBranch [[X_i 98]] None]; X_i 120]];
  [[X_i 120; GBlock [GBranch [[X_i 97]] None; GBranch [[X_i 98]] None]]];
  [[X_i 120; GBlock [GBranch [[X_i 97]] None; GBranch [[X_i 98]] None]; X_i 121]];
  (* nested blocks in guards *)
  [[GBlock [GBranch [[GBlock [GBranch [[X_i 97]] (Some [[X_i 98]])]]] (Some [[X_i 99]])]]];
  [[GBlock [GBranch [[GBlock [GBranch [[X_i 97]] (Some [[X_i 98]]); GBranch [[X_a30; X_b30]] None]]]
                    (Some [[X_i 99]; [X_i 100]])]]];
  (* strings: => | } LF quote inside; empty strings; blanks *)
  [[GStr [61; 62; 32; 124; 32; 125; 10; 34]; GStr []; GStr [32; 32]]; [GStr []]];
  [[GBlock [GBranch [[GStr [10; 10]]] (Some [[GStr [125]]]); GBranch [[GStr []; GStr []]] None]]];
  (* tuples containing blocks *)
  [[GTuple (Some [80]) [GField (Some [120]) [X_blk1 [X_i 97; X_i 98]];
                        GField None [GBlock [GBranch [[X_i 97]] None; GBranch [[X_a30; X_b30]] None]]]]];
  [[GTuple None [GField None [X_i 102; GBlock [GBranch [[X_i 97]] (Some [[X_i 98]; [X_i 99]])]]]; GTuple (Some [81]) []]];
  (* multi-step conditions, breaking conditions *)
  [[GBlock [GBranch [[X_i 97]; [X_i 98]] (Some [[X_i 99]])]]];
  [[GBlock [GBranch [[X_i 97]; [X_a30; X_b30]] (Some [[X_i 99]]);
            GBranch [[X_a30; X_b30]; [X_i 97]] (Some [[X_a30; X_b30]])]]];
  [[GBlock [GBranch [[X_a30; X_b30]] (Some [[X_a30; X_b30]])]]];
  [[GBlock [GBranch [[X_a30; X_b30]] (Some [[X_a30; X_b30]; [X_i 99]])]]];
  (* nests of redundant blocks *)
  [[X_blk1 [X_blk1 [X_blk1 [X_i 97]]]]];
  [[X_blk1 [X_blk1 [X_i 97; X_blk1 [X_i 98; X_i 99]]; X_i 100]; X_blk1 [X_a30]; X_blk1 [X_b30]]];
  [[GBlock [GBranch [[X_blk1 [X_i 97]]; [X_blk1 [X_i 98]]] None]]];
  [[GBlock [GBranch [[X_i 97]; [X_i 98]] None]]];
  [[GBlock [GBranch [[X_i 97]] (Some [[X_blk1 [X_i 98]]])]]];
  [[GBlock [GBranch [[X_i 97]] (Some [[GBlock [GBranch [[X_i 98]; [X_i 99]] None]]])]]];
  (* tall steps inside branches and at the top *)
  [[GBlock [GBranch [[X_a30; X_b30]; [X_i 99]; [X_a30; X_b30]] None; GBranch [[X_i 100]] None]]];
  [[GBlock [GBranch [[X_i 99]; [X_a30; X_b30]] None]]; [X_i 101]];
  [[X_a30; X_b30]];
  [[X_a30; X_b30]; [X_a30; X_b30]];
  [[X_a30; GInt (-5); X_b30; GTuple (Some [80]) []]];
  (* a wide block in the head of a chain whose last term is not a container *)
  [[GBlock [GBranch [[X_a30]] None; GBranch [[X_b30]] None]; X_i 120]];
  [[GBlock [GBranch [[GBlock [GBranch [[X_a30]] None; GBranch [[X_b30]] None]; X_i 120]] None; GBranch [[X_i 98]] None]]];
  [[X_i 120; GBlock [GBranch [[X_a30; X_b30]] None; GBranch [[X_b30]] None]; X_i 121; X_i 122]];
  (* integers, empty tuples next to containers *)
  [[X_i 120; GInt (-1); GInt 0; GBlock [GBranch [[GInt (-3)]] (Some [[GInt 4]])]]];
  [[GTuple (Some [80]) []; GTuple None [GField None [GInt 1]]];
   [GTuple (Some [80]) []; GBlock [GBranch [[X_i 97]] (Some [[X_i 98]])]]];
  [[GIdent [121; 63]; GBlock [GBranch [[X_i 97]] (Some [[X_i 98]])]; GIdent [121; 63]]];
  [[GBlock [GBranch [[GTuple None []]] (Some [[GTuple None []]]); GBranch [[GTuple None []]] None]]]
].
Example X_adv_all_ok :
  forallb (fun s => forallb (fun w => (X_check s w =? 0)%nat) X_ws) X_adv_tests = true.
Proof. vm_compute. reflexivity. Qed.

(* the theorem instantiated on the example (not by computation): every width *)
Example X_ex_roundtrip_all_widths : forall w, exists out c',
  format_frag2 X_ex_seq w = Some out /\ parse_frag2 out = Some c' /\ g_normalize c' = g_normalize X_ex_seq.
Proof. intros w. apply frag2_roundtrip. exact X_ex_wf. Qed.

Print Assumptions frag2_roundtrip.
Print Assumptions frag2_format_fixpoint.
Print Assumptions frag2_source_fixpoint.
Print Assumptions g_normalize_idempotent.
Print Assumptions parse_frag2_wf.
