(* FormatFrag2.v — FormatFrag.v extended with BLOCKS: `{ … }` with one or several `|` branches, guards `cond => consequence`,
   multi-step sequences (`,` / newline separated chains) at the top level and inside branches. Still no comments,
   bindings, matches, functions. Definitions only; executable.
   New on the printer side (format.rs): format_program's normalize_blocks step (simplify.rs with the formatter's options:
   redundant single-chain blocks are spliced away, a compound consequence is wrapped in grouping braces, nothing is lifted),
   sequence_doc for several chains (`,`+line separator, tall steps set off by blank lines), is_tall_step, block_doc,
   leading_bar, branch_doc (flattened guard / breaking guard), wrap_breaking_body, collapse_blanks.
   New on the parser side (parser.rs): block, expression, branch, sequence, seq_sep, and the block alternative of primary. *)
From Quiver Require Import Base Escape Pretty FormatFrag.

Inductive gterm :=
| GInt (z : Z)
| GIdent (n : list Z)
| GStr (s : list Z)
| GTuple (name : option (list Z)) (fields : list gfield)
| GBlock (branches : list gbranch)                       (* Term::Block(Expression{branches}) *)
with gfield :=
| GField (label : option (list Z)) (value : list gterm)
with gbranch :=
| GBranch (condition : list (list gterm)) (consequence : option (list (list gterm))).   (* Branch{condition, consequence}: Sequences of chains *)

Definition gchain := list gterm.
Definition gseq := list gchain.

(* ------------------------------------------------------------------------------------------ *)
(* simplify.rs normalize_blocks with the formatter's options on the fragment: keep = nothing (no trivia), lift = false,
   group_consequences = true. Every chain of the fragment is frame-free and has no tail call, so a block is
   redundant iff it is a single branch without `=>` holding a single non-empty chain. *)
Definition g_redundant_body (t : gterm) : option gchain :=
  match t with
  | GBlock [GBranch [c] None] => match c with [] => None | _ :: _ => Some c end
  | _ => None
  end.
Fixpoint g_splice (ts : list gterm) : list gterm :=
  match ts with
  | [] => []
  | t :: r => match g_redundant_body t with
              | Some body => body ++ g_splice r
              | None => t :: g_splice r
              end
  end.
(* group_consequence: a multi-step consequence becomes one step holding a block of it *)
Definition g_group (s : gseq) : gseq :=
  if (1 <? length s)%nat then [[GBlock [GBranch s None]]] else s.

Fixpoint g_strip_term (t : gterm) : gterm :=
  match t with
  | GTuple name fields =>
      GTuple name ((fix go (fs : list gfield) : list gfield :=
                      match fs with
                      | [] => []
                      | GField l v :: r =>
                          GField l (g_splice ((fix terms (ts : list gterm) : list gterm :=
                                                 match ts with [] => [] | x :: r' => g_strip_term x :: terms r' end) v)) :: go r
                      end) fields)
  | GBlock branches =>
      GBlock ((fix go (bs : list gbranch) : list gbranch :=
                 match bs with
                 | [] => []
                 | GBranch c k :: r =>
                     let seq := (fix chains (cs : list (list gterm)) : list (list gterm) :=
                                   match cs with
                                   | [] => []
                                   | ch :: r' =>
                                       g_splice ((fix terms (ts : list gterm) : list gterm :=
                                                    match ts with [] => [] | x :: r'' => g_strip_term x :: terms r'' end) ch) :: chains r'
                                   end) in
                     GBranch (seq c) (match k with Some s => Some (g_group (seq s)) | None => None end) :: go r
                 end) branches)
  | other => other
  end.
Definition g_strip_chain (c : gchain) : gchain := g_splice (map g_strip_term c).
Definition g_normalize (s : gseq) : gseq := map g_strip_chain s.

(* ------------------------------------------------------------------------------------------ *)
(* printer                                                                                     *)
Definition g_is_container (t : gterm) : bool :=
  match t with GTuple _ (_ :: _) => true | GBlock _ => true | _ => false end.
Definition g_is_call_ender (t : gterm) : bool := match t with GIdent _ => true | _ => false end.

Fixpoint g_chain_terms_parts (prev : option gterm) (items : list (gterm * doc)) : list doc :=
  match items with
  | [] => []
  | (t, d) :: r =>
      (match prev with
       | None => []
       | Some p => if g_is_call_ender p then [DLine; DIfBreak (DText [126; 62; 32]) DNil] else [DText [32]]
       end) ++ d :: g_chain_terms_parts (Some t) r
  end.

(* format.rs chain_doc (no binding) over (term, doc) pairs, as in FormatFrag.chain_doc_of *)
Definition g_chain_doc_of (items : list (gterm * doc)) : doc :=
  let default := DConcat [DNil; group (break_if_wider_than (DConcat (g_chain_terms_parts None items)) CHAIN_SOFT_WIDTH)] in
  match split_last items with
  | Some (head, (tl, tl_doc)) =>
      if (1 <? length items)%nat && g_is_container tl && negb (existsb (fun td => forces_break (snd td)) head)
      then DConcat [DNil; DText (flat_map (fun td => flatten (snd td) ++ [32]) head); tl_doc]
      else default
  | None => default
  end.

(* format.rs is_tall_step *)
Definition g_is_tall_step (terms : list gterm) (body : doc) : bool :=
  match split_last terms with
  | Some (head, tl) =>
      (2 <=? length terms)%nat && negb (g_is_container tl) && existsb g_is_call_ender head && forces_break body
  | None => false
  end.

(* format.rs sequence_doc over (chain terms, chain doc) pairs; trivia docs are DNil; needs_comma is never true on
   the fragment (no bindings, no function heads) *)
Fixpoint g_sequence_rest (prev_tall : bool) (items : list (list gterm * doc)) : list doc :=
  match items with
  | [] => []
  | (terms, body) :: r =>
      let tall := g_is_tall_step terms body in
      (if prev_tall || tall then [DHardLine; DHardLine]
       else [DConcat [DIfBreak DNil (DText [44]); DLine]])
      ++ DConcat [DNil; body; DNil] :: g_sequence_rest tall r
  end.
Definition g_sequence_doc_of (items : list (list gterm * doc)) (continuation_nest : nat) : doc :=
  match items with
  | [] => group (DConcat [DNil; DNest continuation_nest (DConcat [])])
  | (terms, body) :: r =>
      group (DConcat [DConcat [DNil; body; DNil];
                      DNest continuation_nest (DConcat (g_sequence_rest (g_is_tall_step terms body) r))])
  end.

(* format.rs wrap_breaking_body (every chain of the fragment is frame-free) *)
Definition g_wrap_breaking_body (seq : gseq) (body : doc) (multi_branch : bool) : doc :=
  let breaking_pipeline :=
    match seq with
    | [chain] => match split_last chain with Some (_, tl) => negb (g_is_container tl) | None => false end
    | _ => false
    end in
  if multi_branch && breaking_pipeline && forces_break body
  then DConcat [DText [123]; DNest 2 (DConcat [DHardLine; body]); DHardLine; DText [125]]
  else body.

(* format.rs leading_bar *)
Definition g_leading_bar (first : bool) : doc :=
  if first then DIfBreak (DText [124; 32]) DNil else DText [124; 32].

Definition SHORT_BLOCK_WIDTH : nat := 40.

(* format.rs term_doc / tuple_doc / field_doc / block_doc / branch_doc / sequence_doc / chain_doc, mutually nested *)
Fixpoint g_term_doc (t : gterm) : doc :=
  let chain_items := fix chain_items (ts : list gterm) : list (gterm * doc) :=
                       match ts with [] => [] | x :: r => (x, g_term_doc x) :: chain_items r end in
  let seq_items := fix seq_items (cs : list (list gterm)) : list (list gterm * doc) :=
                     match cs with [] => [] | c :: r => (c, g_chain_doc_of (chain_items c)) :: seq_items r end in
  match t with
  | GInt z => DText (int_text z)
  | GIdent n => DText n
  | GStr s => DText (34 :: escape_single s ++ [34])
  | GTuple name fields =>
      match fields with
      | [] => match name with Some n => DText n | None => DText [91; 93] end
      | _ :: _ =>
          let open := match name with Some n => n ++ [91] | None => [91] end in
          bracketed open [93]
            ((fix fields_docs (fs : list gfield) : list doc :=
                match fs with
                | [] => []
                | GField label value :: r =>
                    let chain := g_chain_doc_of (chain_items value) in
                    DConcat [DNil;
                             match label with
                             | Some n => DConcat [DText (n ++ [58; 32]); chain]
                             | None => chain
                             end;
                             DNil] :: fields_docs r
                end) fields)
      end
  | GBlock branches =>
      (* branch_doc *)
      let branch_doc := fun (b : gbranch) (multi_branch : bool) =>
        let nest := if multi_branch then 2%nat else 0%nat in
        match b with
        | GBranch cond None =>
            g_wrap_breaking_body cond (g_sequence_doc_of (seq_items cond) nest) multi_branch
        | GBranch cond (Some conseq) =>
            let condition := g_sequence_doc_of (seq_items cond) nest in
            let body := g_wrap_breaking_body conseq (g_sequence_doc_of (seq_items conseq) nest) multi_branch in
            if forces_break condition then
              let content := DConcat [condition; DText [32; 61; 62; 32]; body] in
              match cond with [_] => DNest 2 content | _ => content end
            else DConcat [DText (flatten condition); DText [32; 61; 62; 32]; body]
        end in
      let inner :=
        match branches with
        | [b] => DConcat [DLine; branch_doc b false]
        | _ =>
            break_if_wider_than
              (DConcat ((fix parts (first : bool) (bs : list gbranch) : list doc :=
                           match bs with
                           | [] => []
                           | b :: r => DLine :: DNil :: g_leading_bar first :: branch_doc b true :: parts false r
                           end) true branches))
              SHORT_BLOCK_WIDTH
        end in
      group (DConcat [DText [123]; DNest 2 inner; DLine; DText [125]])
  end.

Definition g_chain_items (c : gchain) : list (gterm * doc) := map (fun t => (t, g_term_doc t)) c.
Definition g_chain_doc (c : gchain) : doc := g_chain_doc_of (g_chain_items c).
Definition g_seq_items (s : gseq) : list (list gterm * doc) := map (fun c => (c, g_chain_doc c)) s.

(* format_program for one Expression statement *)
Definition g_program_doc (s : gseq) : doc := DConcat [g_sequence_doc_of (g_seq_items s) 0].

(* format.rs collapse_blanks on a text without multi-line strings: a blank line is a whitespace-only line *)
Definition line_blank (l : list Z) : bool := forallb is_ws l || forallb (fun c => is_msp c) l.
Fixpoint collapse_lines (prev_blank : bool) (ls : list (list Z)) : list (list Z) :=
  match ls with
  | [] => []
  | l :: r => if line_blank l then (if prev_blank then collapse_lines true r else [] :: collapse_lines true r)
              else l :: collapse_lines false r
  end.
Fixpoint drop_trailing_blank (ls : list (list Z)) : list (list Z) :=
  match ls with
  | [] => []
  | l :: r => match drop_trailing_blank r with
              | [] => match l with [] => [] | _ :: _ => [l] end
              | r' => l :: r'
              end
  end.
Definition collapse_blanks (text : list Z) : list Z :=
  Pretty.join_lf (drop_trailing_blank (collapse_lines true (Pretty.split_lines text))) ++ [10].

Definition format_frag2 (s : gseq) (width : nat) : option (list Z) :=
  match Pretty.print (g_program_doc (g_normalize s)) width with
  | Some out => Some (collapse_blanks out)
  | None => None
  end.

(* ------------------------------------------------------------------------------------------ *)
(* parser                                                                                      *)

(* parser.rs seq_sep (comments are outside the fragment): [space|tab]* (`,` | LF | CR LF) [multispace | `,`]*;
   returns the rest after it *)
Fixpoint skip_ws_commas (n : nat) (s : list Z) : list Z :=
  match n with
  | O => s
  | S n' => match s with
            | c :: r => if is_msp c || (c =? 44) then skip_ws_commas n' r else s
            | [] => []
            end
  end.
Definition p_seq_sep (s : list Z) : option (list Z) :=
  let (_, r) := take_while is_hsp s in
  match r with
  | c :: r1 =>
      if (c =? 44) || (c =? 10) then Some (skip_ws_commas (length r1) r1)
      else if c =? 13 then match r1 with d :: r2 => if d =? 10 then Some (skip_ws_commas (length r2) r2) else None | [] => None end
      else None
  | [] => None
  end.

Section WithTerm2.
  Variable p_term : list Z -> option (gterm * list Z).

  Fixpoint g_p_chain_rest (n : nat) (s : list Z) : list gterm * list Z :=
    match n with
    | O => ([], s)
    | S n' =>
        match p_chain_sep s with
        | Some r => match p_term r with
                    | Some (t, r') => let (ts, r'') := g_p_chain_rest n' r' in (t :: ts, r'')
                    | None => ([], s)
                    end
        | None => ([], s)
        end
    end.
  Definition g_p_chain (s : list Z) : option (list gterm * list Z) :=
    match p_term s with
    | Some (t, r) => let (ts, r') := g_p_chain_rest (length r) r in Some (t :: ts, r')
    | None => None
    end.

  Definition g_p_field (s : list Z) : option (gfield * list Z) :=
    let labelled :=
      match p_identifier s with
      | Some (n, c :: r) =>
          if c =? 58 then
            let (w, r') := take_while is_msp r in
            match w with
            | _ :: _ => match g_p_chain r' with Some (ts, r'') => Some (GField (Some n) ts, r'') | None => None end
            | [] => None
            end
          else None
      | _ => None
      end in
    match labelled with
    | Some x => Some x
    | None => match g_p_chain s with Some (ts, r) => Some (GField None ts, r) | None => None end
    end.

  Definition g_p_comma (s : list Z) : option (list Z) :=
    match skip_ws s with c :: r => if c =? 44 then Some (skip_ws r) else None | [] => None end.

  Fixpoint g_p_fields_rest (n : nat) (s : list Z) : list gfield * list Z :=
    match n with
    | O => ([], s)
    | S n' =>
        match g_p_comma s with
        | Some r => match g_p_field r with
                    | Some (f, r') => let (fs, r'') := g_p_fields_rest n' r' in (f :: fs, r'')
                    | None => ([], s)
                    end
        | None => ([], s)
        end
    end.
  Definition g_p_fields (s : list Z) : list gfield * list Z :=
    let (fs, r) :=
      match g_p_field s with
      | Some (f, r) => let (fs, r') := g_p_fields_rest (length r) r in (f :: fs, r')
      | None => ([], s)
      end in
    match g_p_comma r with
    | Some _ => (fs, match skip_ws r with _ :: r' => r' | [] => r end)
    | None => (fs, r)
    end.
  Definition g_p_bracket_body (s : list Z) : option (list gfield * list Z) :=
    let (fs, r) := g_p_fields (skip_ws s) in
    match skip_ws r with c :: r' => if c =? 93 then Some (fs, r') else None | [] => None end.

  (* parser.rs sequence: separated_list1(seq_sep, chain) then opt(seq_sep) *)
  Fixpoint g_p_seq_rest (n : nat) (s : list Z) : list gchain * list Z :=
    match n with
    | O => ([], s)
    | S n' =>
        match p_seq_sep s with
        | Some r => match g_p_chain r with
                    | Some (c, r') => let (cs, r'') := g_p_seq_rest n' r' in (c :: cs, r'')
                    | None => ([], s)
                    end
        | None => ([], s)
        end
    end.
  Definition g_p_sequence (s : list Z) : option (gseq * list Z) :=
    match g_p_chain s with
    | Some (c, r) =>
        let (cs, r') := g_p_seq_rest (length r) r in
        Some (c :: cs, match p_seq_sep r' with Some r'' => r'' | None => r' end)
    | None => None
    end.

  (* parser.rs branch: sequence, opt(wsc ''=>'' wsc sequence) *)
  Definition g_p_branch (s : list Z) : option (gbranch * list Z) :=
    match g_p_sequence s with
    | Some (cond, r) =>
        match skip_ws r with
        | a :: b :: r1 =>
            if (a =? 61) && (b =? 62) then
              match g_p_sequence (skip_ws r1) with
              | Some (k, r2) => Some (GBranch cond (Some k), r2)
              | None => Some (GBranch cond None, r)
              end
            else Some (GBranch cond None, r)
        | _ => Some (GBranch cond None, r)
        end
    | None => None
    end.

  (* parser.rs expression: opt('|' wsc) separated_list1(wsc '|' wsc, branch) *)
  Fixpoint g_p_branches_rest (n : nat) (s : list Z) : list gbranch * list Z :=
    match n with
    | O => ([], s)
    | S n' =>
        match skip_ws s with
        | c :: r => if c =? 124 then
                      match g_p_branch (skip_ws r) with
                      | Some (b, r') => let (bs, r'') := g_p_branches_rest n' r' in (b :: bs, r'')
                      | None => ([], s)
                      end
                    else ([], s)
        | [] => ([], s)
        end
    end.
  Definition g_p_expression (s : list Z) : option (list gbranch * list Z) :=
    let s1 := match s with c :: r => if c =? 124 then skip_ws r else s | [] => s end in
    match g_p_branch s1 with
    | Some (b, r) => let (bs, r') := g_p_branches_rest (length r) r in Some (b :: bs, r')
    | None => None
    end.

  (* parser.rs block: '{' wsc expression wsc '}' — after the '{' *)
  Definition g_p_block_body (s : list Z) : option (list gbranch * list Z) :=
    match g_p_expression (skip_ws s) with
    | Some (bs, r) => match skip_ws r with c :: r' => if c =? 125 then Some (bs, r') else None | [] => None end
    | None => None
    end.
End WithTerm2.

Fixpoint g_p_term (fuel : nat) (s : list Z) : option (gterm * list Z) :=
  match fuel with
  | O => None
  | S f =>
      match s with
      | [] => None
      | c :: r =>
          if c =? 34 then
            match r with
            | a :: b :: _ => if (a =? 34) && (b =? 34) then None
                             else match scan_single r with ScanText t rest => Some (GStr t, rest) | _ => None end
            | _ => match scan_single r with ScanText t rest => Some (GStr t, rest) | _ => None end
            end
          else if is_digit c || (c =? 45) then
            match p_integer s with Some (z, rest) => Some (GInt z, rest) | None => None end
          else if is_upper c then
            match p_tuple_name s with
            | Some (n, x :: r') =>
                if x =? 91 then
                  match g_p_bracket_body (g_p_term f) r' with Some (fs, rest) => Some (GTuple (Some n) fs, rest) | None => None end
                else match skip_ws (x :: r') with
                     | y :: _ => if y =? 40 then None else Some (GTuple (Some n) [], x :: r')
                     | [] => Some (GTuple (Some n) [], x :: r')
                     end
            | Some (n, []) => Some (GTuple (Some n) [], [])
            | None => None
            end
          else if c =? 91 then
            match g_p_bracket_body (g_p_term f) r with Some (fs, rest) => Some (GTuple None fs, rest) | None => None end
          else if c =? 123 then
            match g_p_block_body (g_p_term f) r with Some (bs, rest) => Some (GBlock bs, rest) | None => None end
          else if is_lower c then
            match p_identifier s with
            | Some (n, x :: r') => if (x =? 91) || (x =? 46) then None else Some (GIdent n, x :: r')
            | Some (n, []) => Some (GIdent n, [])
            | None => None
            end
          else None
      end
  end.

(* parser.rs program for one Expression statement: ws, sequence, ws, eof *)
Definition parse_frag2 (s : list Z) : option gseq :=
  let s' := skip_ws s in
  match g_p_sequence (g_p_term (length s')) s' with
  | Some (cs, r) => match skip_ws r with [] => Some cs | _ :: _ => None end
  | None => None
  end.

(* well-formedness: lexically valid names, non-empty chains / sequences / branch lists *)
Fixpoint g_wf_term (t : gterm) : bool :=
  let wf_terms := fix wf_terms (ts : list gterm) : bool :=
                    match ts with [] => true | x :: r => g_wf_term x && wf_terms r end in
  let wf_chain := fun (c : list gterm) => negb (match c with [] => true | _ => false end) && wf_terms c in
  let wf_seq := fix wf_seq (cs : list (list gterm)) : bool :=
                  match cs with [] => true | c :: r => wf_chain c && wf_seq r end in
  match t with
  | GInt _ | GStr _ => true
  | GIdent n => wf_ident n
  | GTuple name fields =>
      match name with Some n => wf_tuple_name n | None => true end &&
      (fix wf_fields (fs : list gfield) : bool :=
         match fs with
         | [] => true
         | GField label value :: r =>
             match label with Some n => wf_ident n | None => true end && wf_chain value && wf_fields r
         end) fields
  | GBlock branches =>
      negb (match branches with [] => true | _ => false end) &&
      (fix wf_branches (bs : list gbranch) : bool :=
         match bs with
         | [] => true
         | GBranch c k :: r =>
             negb (match c with [] => true | _ => false end) && wf_seq c &&
             match k with Some s => negb (match s with [] => true | _ => false end) && wf_seq s | None => true end &&
             wf_branches r
         end) branches
  end.
Definition g_wf_chain (c : gchain) : bool := negb (match c with [] => true | _ => false end) && forallb g_wf_term c.
Definition g_wf_seq (s : gseq) : bool := negb (match s with [] => true | _ => false end) && forallb g_wf_chain s.
