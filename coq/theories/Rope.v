(* Rope.v — model of quiver-core/src/binary.rs (BinaryData).
   usize quantities are Z; `wf` (RopeProofs.v) is the representation invariant under which
   none of the Rust arithmetic below can overflow and no index/unwrap can panic. *)
From Quiver Require Export Base.

Definition MAX_BINARY_SIZE : Z := 16 * 1024 * 1024.

Inductive rope :=
| Owned (bs : list Z)                       (* Owned(Rc<Vec<u8>>) *)
| Zeroed (n : Z)                            (* Zeroed(len) *)
| Slice (parent : rope) (off len : Z)       (* Slice { parent, offset, length } *)
| Concat (l r : rope) (total : Z)           (* Concat { left, right, total_length } *)
| Tiled (unit : rope) (count : Z).          (* Tiled { unit, count } *)

(* BinaryData::len (binary.rs:50) *)
Fixpoint rlen (r : rope) : Z :=
  match r with
  | Owned bs => Z.of_nat (length bs)
  | Zeroed n => n
  | Slice _ _ len => len
  | Concat _ _ t => t
  | Tiled u c => rlen u * c
  end.

(* BinaryData::concat (binary.rs:66) *)
Definition mk_concat (l r : rope) : rope := Concat l r (rlen l + rlen r).

(* BinaryData::slice (binary.rs:77): None when out of bounds *)
Definition mk_slice (p : rope) (off len : Z) : option rope :=
  let plen := rlen p in
  if (plen <? off) || (plen <? off + len) then None
  else if len =? 0 then Some (Owned [])
  else if (off =? 0) && (len =? plen) then Some p
  else Some (Slice p off len).

(* BinaryData::tiled (binary.rs:103) *)
Definition mk_tiled (u : rope) (count : Z) : rope :=
  if (count =? 0) || (rlen u =? 0) then Owned []
  else if count =? 1 then u
  else Tiled u count.

(* BinaryData::byte_at (binary.rs:115) *)
Fixpoint byte_at (r : rope) (i : Z) : option Z :=
  if (i <? 0) || (rlen r <=? i) then None else
  match r with
  | Owned bs => nth_error bs (Z.to_nat i)
  | Zeroed _ => Some 0
  | Slice p off _ => byte_at p (off + i)
  | Concat l rr _ => if i <? rlen l then byte_at l i else byte_at rr (i - rlen l)
  | Tiled u _ => byte_at u (i mod rlen u)
  end.

(* BinaryData::to_vec (binary.rs:147): the denotation of a rope *)
Fixpoint bytes_of (r : rope) : list Z :=
  match r with
  | Owned bs => bs
  | Zeroed n => repeat 0 (Z.to_nat n)
  | Slice p off len => firstn (Z.to_nat len) (skipn (Z.to_nat off) (bytes_of p))
  | Concat l rr _ => bytes_of l ++ bytes_of rr
  | Tiled u c => concat (repeat (bytes_of u) (Z.to_nat c))
  end.

(* position of the first `b` in `l`, as a Z *)
Fixpoint list_find (b : Z) (l : list Z) : option Z :=
  match l with
  | [] => None
  | x :: t => if x =? b then Some 0 else option_map Z.succ (list_find b t)
  end.

(* first index >= off of b in l, as a plain list function (the reference for find_byte) *)
Definition find_from (b : Z) (l : list Z) (off : Z) : option Z :=
  if Z.of_nat (length l) <=? off then None
  else option_map (fun p => p + off) (list_find b (skipn (Z.to_nat off) l)).

(* BinaryData::find_byte (binary.rs:205) *)
Fixpoint find_byte (r : rope) (b : Z) (off : Z) : option Z :=
  match r with
  | Owned bs =>
      if Z.of_nat (length bs) <=? off then None
      else option_map (fun p => p + off) (list_find b (skipn (Z.to_nat off) bs))
  | Zeroed len => if (b =? 0) && (off <? len) then Some off else None
  | Slice p soff len =>
      if len <=? off then None
      else match find_byte p b (soff + off) with
           | Some a => let rel := a - soff in if rel <? len then Some rel else None
           | None => None
           end
  | Concat l rr _ =>
      let ll := rlen l in
      if off <? ll then
        match find_byte l b off with
        | Some i => Some i
        | None => option_map (fun i => i + ll) (find_byte rr b 0)
        end
      else option_map (fun i => i + ll) (find_byte rr b (off - ll))
  | Tiled u count =>
      let ul := rlen u in
      if (ul =? 0) || (ul * count <=? off) then None
      else
        let su := off / ul in
        match find_byte u b (off mod ul) with
        | Some p => Some (su * ul + p)
        | None =>
            if su + 1 <? count then
              match find_byte u b 0 with
              | Some p => Some ((su + 1) * ul + p)
              | None => None
              end
            else None
        end
  end.

(* BinaryIterator: successive byte_at until None *)
Fixpoint iter_from (r : rope) (i : Z) (fuel : nat) : list Z :=
  match fuel with
  | O => []
  | S f => match byte_at r i with Some b => b :: iter_from r (i + 1) f | None => [] end
  end.
Definition rope_iter (r : rope) : list Z := iter_from r 0 (Z.to_nat (rlen r)).

(* BinaryData::depth *)
Fixpoint depth (r : rope) : nat :=
  match r with
  | Owned _ | Zeroed _ => O
  | Slice p _ _ => S (depth p)
  | Concat l rr _ => S (Nat.max (depth l) (depth rr))
  | Tiled u _ => S (depth u)
  end.
