(* NumReal.v — the sign decision of the surd kernel agrees with the sign of a + b sqrt n in the real
   numbers.  This is the only file of the C20 cone that uses Coq's classical Reals (and therefore
   the standard-library axioms of Reals); everything else is axiom-free. *)
From Coq Require Import QArith Reals Qreals Lra Psatz.
From Quiver Require Import Base Num NumProofs NumSurd.

Lemma Q2R_inject_Z n : Q2R (inject_Z n) = IZR n.
Proof. unfold Q2R, inject_Z. cbn [Qnum Qden]. rewrite Rinv_1. ring. Qed.

Lemma Qcompare_R x y :
  match (x ?= y)%Q with
  | Eq => Q2R x = Q2R y
  | Lt => (Q2R x < Q2R y)%R
  | Gt => (Q2R y < Q2R x)%R
  end.
Proof.
  destruct (x ?= y)%Q eqn:C.
  - apply Qeq_eqR. now apply Qeq_alt.
  - apply Qlt_Rlt. now apply Qlt_alt.
  - apply Qlt_Rlt. now apply Qgt_alt.
Qed.

Definition rsgn (v : R) (s : Z) : Prop :=
  (s = 1%Z <-> (0 < v)%R) /\ (s = (-1)%Z <-> (v < 0)%R) /\ (s = 0%Z <-> v = 0%R).

Lemma rsgn_zcmp x y : rsgn (Q2R x - Q2R y) (zcmp (x ?= y)%Q).
Proof.
  pose proof (Qcompare_R x y) as H. unfold rsgn. destruct (x ?= y)%Q; cbn [zcmp];
    repeat split; intros; try lia; try lra.
Qed.

(* surd_sign (the squares-comparison decision of num.qv:154-176) is the real sign of a + b sqrt n *)
Theorem surd_sign_real qa qb n : (0 < n)%Z ->
  rsgn (Q2R qa + Q2R qb * R_sqrt.sqrt (IZR n)) (surd_sign qa qb n).
Proof.
  intros Hn. set (A := Q2R qa). set (B := Q2R qb). set (N := IZR n).
  assert (HN : (0 < N)%R) by (apply IZR_lt; exact Hn).
  set (r := R_sqrt.sqrt N). assert (Hr : (0 < r)%R) by (apply sqrt_lt_R0; exact HN).
  assert (Hr2 : (r * r = N)%R) by (apply sqrt_sqrt; lra).
  unfold surd_sign.
  pose proof (Qcompare_R qb 0) as Cb. pose proof (Qcompare_R qa 0) as Ca.
  pose proof (Qcompare_R (qa * qa) (qb * qb * inject_Z n)) as Cd.
  rewrite RMicromega.Q2R_0 in Cb, Ca. rewrite !Q2R_mult, Q2R_inject_Z in Cd.
  fold A in Ca, Cd. fold B in Cb, Cd. fold N in Cd.
  assert (Hprod : ((B * r - A) * (B * r + A) = B * B * N - A * A)%R) by (rewrite <- Hr2; ring).
  unfold rsgn.
  destruct (qb ?= 0)%Q.
  - (* b = 0 *) rewrite Cb. replace (A + 0 * r)%R with A by ring.
    destruct (qa ?= 0)%Q; cbn [zcmp]; repeat split; intros; try lia; try lra.
  - (* b < 0 *)
    destruct (qa ?= 0)%Q.
    + repeat split; intros; try lia; try nra.
    + repeat split; intros; try lia; try nra.
    + (* a > 0 > b: compare a^2 with b^2 n *)
      assert (Hpos : (0 < A - B * r)%R) by nra.
      destruct (qa * qa ?= qb * qb * inject_Z n)%Q; cbn [zcmp]; repeat split; intros; try lia; try nra.
  - (* b > 0 *)
    destruct (qa ?= 0)%Q.
    + repeat split; intros; try lia; try nra.
    + (* a < 0 < b *)
      assert (Hpos : (0 < B * r - A)%R) by nra.
      destruct (qa * qa ?= qb * qb * inject_Z n)%Q; cbn [zcmp]; repeat split; intros; try lia; try nra.
    + repeat split; intros; try lia; try nra.
Qed.

(* the model's ssign, and hence compare / sign / the predicates on one field, decide the real order *)
Theorem ssign_real a b n : canon a -> canon b -> (0 < n)%Z ->
  exists s, ssign a b n = Val s /\ rsgn (Q2R (qval a) + Q2R (qval b) * R_sqrt.sqrt (IZR n)) s.
Proof.
  intros Ca Cb Hn. exists (surd_sign (qval a) (qval b) n). split; [apply ssign_spec; assumption |].
  apply surd_sign_real. exact Hn.
Qed.

Theorem compare_surd_real x y : wf_num x -> wf_num y -> is_surd x \/ is_surd y ->
  (exists a b n c d m, x = NSurd a b n /\ y = NSurd c d m /\ n <> m /\ compare (Some x) (Some y) = Val None) \/
  (exists n px py s, (1 < n)%Z /\ denotes x n px /\ denotes y n py /\ compare (Some x) (Some y) = Val (Some s) /\
     rsgn ((Q2R (fst px) + Q2R (snd px) * R_sqrt.sqrt (IZR n)) - (Q2R (fst py) + Q2R (snd py) * R_sqrt.sqrt (IZR n))) s).
Proof.
  intros Hx Hy Hs. destruct (compare_surd x y Hx Hy Hs) as [H | (n & px & py & Hn & _ & Dx & Dy & E)]; [left; exact H |].
  right. exists n, px, py, (surd_sign (fst (psub px py)) (snd (psub px py)) n).
  split; [exact Hn |]. split; [exact Dx |]. split; [exact Dy |]. split; [exact E |].
  pose proof (surd_sign_real (fst (psub px py)) (snd (psub px py)) n ltac:(lia)) as H.
  unfold psub in H. cbn [fst snd] in H. unfold Qminus in H. rewrite !Q2R_plus, !Q2R_opp in H.
  match goal with |- rsgn ?v _ => replace v with
    (Q2R (fst px) + - Q2R (fst py) + (Q2R (snd px) + - Q2R (snd py)) * R_sqrt.sqrt (IZR n))%R by ring end.
  exact H.
Qed.
