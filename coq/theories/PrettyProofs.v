(* PrettyProofs.v — proofs about the model of quiver-compiler/src/pretty.rs in Pretty.v. *)
From Quiver Require Import Base Pretty.
From Coq Require Import Permutation.

(* ------------------------------------------------------------------------------------------ *)
(* weights                                                                                     *)
(* ------------------------------------------------------------------------------------------ *)

Lemma weight_pos d : (1 <= weight d)%nat.
Proof. destruct d; cbn [weight]; lia. Qed.

Lemma stack_weight_nil : stack_weight [] = 0%nat.
Proof. reflexivity. Qed.

Lemma stack_weight_nil' : stack_weight (@nil (nat * mode * doc)) = 0%nat.
Proof. reflexivity. Qed.
Lemma suffix_weight_nil' : suffix_weight (@nil (nat * mode * doc)) = 0%nat.
Proof. reflexivity. Qed.

Lemma stack_weight_cons i m d r :
  stack_weight ((i, m, d) :: r) = (weight d + stack_weight r)%nat.
Proof. reflexivity. Qed.

Lemma stack_weight_app a b : stack_weight (a ++ b) = (stack_weight a + stack_weight b)%nat.
Proof. unfold stack_weight. rewrite map_app, list_sum_app. reflexivity. Qed.

Lemma stack_weight_map i m ds :
  stack_weight (map (fun c => (i, m, c)) ds) = list_sum (map weight ds).
Proof.
  induction ds as [|d ds IH]; [reflexivity|].
  cbn [map]. rewrite stack_weight_cons, IH. reflexivity.
Qed.

Lemma suffix_weight_nil : suffix_weight [] = 0%nat.
Proof. reflexivity. Qed.

Lemma suffix_weight_cons i m d r :
  suffix_weight ((i, m, d) :: r) = (2 * weight d + 1 + suffix_weight r)%nat.
Proof. reflexivity. Qed.

Lemma suffix_weight_app a b : suffix_weight (a ++ b) = (suffix_weight a + suffix_weight b)%nat.
Proof. unfold suffix_weight. rewrite map_app, list_sum_app. reflexivity. Qed.

Lemma stack_lt_suffix sfx : sfx <> [] -> (stack_weight sfx < suffix_weight sfx)%nat.
Proof.
  induction sfx as [|[[i m] d] r IH]; intros Hne; [congruence|].
  rewrite stack_weight_cons, suffix_weight_cons.
  destruct r as [|fr r'].
  - rewrite stack_weight_nil, suffix_weight_nil. lia.
  - assert (Hr : (stack_weight (fr :: r') < suffix_weight (fr :: r'))%nat)
      by (apply IH; discriminate).
    lia.
Qed.

Lemma weight_concat ds : weight (DConcat ds) = S (list_sum (map weight ds)).
Proof. reflexivity. Qed.
Lemma weight_nest n d : weight (DNest n d) = S (weight d).
Proof. reflexivity. Qed.
Lemma weight_group d b : weight (DGroup d b) = S (weight d).
Proof. reflexivity. Qed.
Lemma weight_ifbreak b f : weight (DIfBreak b f) = S (weight b + weight f).
Proof. reflexivity. Qed.
Lemma weight_linesuffix d : weight (DLineSuffix d) = (2 * weight d + 2)%nat.
Proof. reflexivity. Qed.
Lemma weight_nil : weight DNil = 1%nat. Proof. reflexivity. Qed.
Lemma weight_text s : weight (DText s) = 1%nat. Proof. reflexivity. Qed.
Lemma weight_line : weight DLine = 1%nat. Proof. reflexivity. Qed.
Lemma weight_softline : weight DSoftLine = 1%nat. Proof. reflexivity. Qed.
Lemma weight_hardline : weight DHardLine = 1%nat. Proof. reflexivity. Qed.
Lemma weight_breakparent : weight DBreakParent = 1%nat. Proof. reflexivity. Qed.

Global Hint Rewrite stack_weight_nil stack_weight_nil' suffix_weight_nil' stack_weight_cons stack_weight_app stack_weight_map
  suffix_weight_nil suffix_weight_cons suffix_weight_app
  weight_concat weight_nest weight_group weight_ifbreak weight_linesuffix
  weight_nil weight_text weight_line weight_softline weight_hardline weight_breakparent : pw.

(* ------------------------------------------------------------------------------------------ *)
(* 1. totality: the explicit fuel suffices                                                     *)
(* ------------------------------------------------------------------------------------------ *)

(* `fits` terminates by the plain sum of the weights of its local stack and of the rest. *)
Lemma fits_fuel_total : forall fuel rem local rest,
  (stack_weight local + stack_weight rest < fuel)%nat ->
  exists b, fits_fuel fuel rem local rest = Some b.
Proof.
  induction fuel as [|f IH]; intros rem local rest Hlt; [lia|].
  cbn [fits_fuel].
  destruct (rem <? 0); [eauto|].
  assert (Hstep : forall i m d local' rest',
    (weight d + stack_weight local' + stack_weight rest' <= f)%nat ->
    exists b,
      match d with
      | DNil | DLineSuffix _ | DBreakParent => fits_fuel f rem local' rest'
      | DText s => fits_fuel f (rem - Z.of_nat (length s)) local' rest'
      | DConcat ds =>
          fits_fuel f rem (map (fun c => (i, m, c)) ds ++ local') rest'
      | DNest extra inner =>
          fits_fuel f rem (((i + extra)%nat, m, inner) :: local') rest'
      | DLine => match m with
                 | Flat => fits_fuel f (rem - 1) local' rest'
                 | Break => Some true
                 end
      | DSoftLine => match m with
                     | Flat => fits_fuel f rem local' rest'
                     | Break => Some true
                     end
      | DHardLine => Some true
      | DIfBreak br fl =>
          fits_fuel f rem
            ((i, m, match m with Break => br | Flat => fl end) :: local') rest'
      | DGroup inner sb =>
          fits_fuel f rem
            ((i, (if sb then Break else Flat), inner) :: local') rest'
      end = Some b).
  { intros i m d local' rest' Hw.
    destruct d; autorewrite with pw in Hw;
      try (apply IH; autorewrite with pw; lia).
    - destruct m; [apply IH; autorewrite with pw; lia | eauto].
    - destruct m; [apply IH; autorewrite with pw; lia | eauto].
    - eauto.
    - destruct m; apply IH; autorewrite with pw; lia. }
  destruct local as [|[[i m] d] local'].
  - destruct rest as [|[[i m] d] rest']; cbn [fits_pop]; [eauto|].
    apply Hstep. autorewrite with pw in Hlt. autorewrite with pw. lia.
  - cbn [fits_pop]. apply Hstep. autorewrite with pw in Hlt. lia.
Qed.

(* The measure-decrease lemma in its operational form: whenever the fuel exceeds
   stack_weight stack + suffix_weight sfx, the print loop terminates normally. *)
Lemma layout_fuel_total : forall fuel width stack sfx col out,
  (stack_weight stack + suffix_weight sfx < fuel)%nat ->
  exists ts, layout_fuel fuel width stack sfx col out = Some ts.
Proof.
  induction fuel as [|f IH]; intros width stack sfx col out Hlt; [lia|].
  cbn [layout_fuel].
  destruct stack as [|[[i m] d] rest].
  - destruct sfx as [|fr sfx']; [eauto|].
    apply IH.
    assert (Hs : (stack_weight (fr :: sfx') < suffix_weight (fr :: sfx'))%nat)
      by (apply stack_lt_suffix; discriminate).
    autorewrite with pw in Hlt. rewrite suffix_weight_nil. lia.
  - assert (Hbrk : (1 + stack_weight rest + suffix_weight sfx <= f)%nat ->
                   weight d = 1%nat ->
      exists ts,
        match sfx with
        | [] => layout_fuel f width rest [] i (TNewline i :: out)
        | _ :: _ => layout_fuel f width (sfx ++ (i, m, d) :: rest) [] col out
        end = Some ts).
    { intros Hw Hd. destruct sfx as [|fr sfx'].
      - apply IH. autorewrite with pw in *. lia.
      - apply IH.
        assert (Hs : (stack_weight (fr :: sfx') < suffix_weight (fr :: sfx'))%nat)
          by (apply stack_lt_suffix; discriminate).
        rewrite stack_weight_app, stack_weight_cons, suffix_weight_nil, Hd. lia. }
    rewrite stack_weight_cons in Hlt.
    destruct d; autorewrite with pw in Hlt;
      try (apply IH; autorewrite with pw; lia).
    + (* DLine *) destruct m; [apply IH; autorewrite with pw; lia|].
      apply Hbrk; [lia|reflexivity].
    + (* DSoftLine *) destruct m; [apply IH; autorewrite with pw; lia|].
      apply Hbrk; [lia|reflexivity].
    + (* DHardLine *) apply Hbrk; [lia|reflexivity].
    + (* DGroup *)
      destruct should_break; [apply IH; autorewrite with pw; lia|].
      unfold fits.
      destruct (fits_fuel_total (S f) (Z.of_nat (width - col)) [(i, Flat, d)] rest)
        as [fb Hfb]; [autorewrite with pw; lia|].
      rewrite Hfb. apply IH. autorewrite with pw. lia.
    + (* DIfBreak *) destruct m; apply IH; autorewrite with pw; lia.
Qed.

Theorem layout_total : forall d width, exists ts, layout d width = Some ts.
Proof.
  intros d width. unfold layout, enough_fuel.
  apply layout_fuel_total. autorewrite with pw. lia.
Qed.

Theorem print_total : forall d width, exists out, print d width = Some out.
Proof.
  intros d width. unfold print.
  destruct (layout_total d width) as [ts Hts]. rewrite Hts. cbn [option_map]. eauto.
Qed.

(* ------------------------------------------------------------------------------------------ *)
(* 2. the width only changes line breaks, indentation and IfBreak decorations                  *)
(* ------------------------------------------------------------------------------------------ *)

(* mode-resolved content: the Text atoms of a doc in order, where a group that is not forced
   (should_break = false) may be resolved in either mode. *)
Inductive content : mode -> doc -> list (list Z) -> Prop :=
| C_nil m : content m DNil []
| C_text m s : content m (DText s) [s]
| C_line m : content m DLine []
| C_softline m : content m DSoftLine []
| C_hardline m : content m DHardLine []
| C_breakparent m : content m DBreakParent []
| C_concat m ds l : content_list m ds l -> content m (DConcat ds) l
| C_nest m n d l : content m d l -> content m (DNest n d) l
| C_group_forced m d l : content Break d l -> content m (DGroup d true) l
| C_group_free m m' d l : content m' d l -> content m (DGroup d false) l
| C_ifbreak m br fl l :
    content m (match m with Break => br | Flat => fl end) l -> content m (DIfBreak br fl) l
with content_list : mode -> list doc -> list (list Z) -> Prop :=
| CL_nil m : content_list m [] []
| CL_cons m d ds l1 l2 :
    content m d l1 -> content_list m ds l2 -> content_list m (d :: ds) (l1 ++ l2).

Inductive content_stack : list frame -> list (list Z) -> Prop :=
| CS_nil : content_stack [] []
| CS_cons i m d rest l1 l2 :
    content m d l1 -> content_stack rest l2 -> content_stack ((i, m, d) :: rest) (l1 ++ l2).

Lemma texts_app a b : texts (a ++ b) = texts a ++ texts b.
Proof.
  induction a as [|t a IH]; [reflexivity|].
  destruct t; cbn [texts app]; rewrite IH; reflexivity.
Qed.

Lemma content_stack_concat : forall ds i m rest l,
  content_stack (map (fun c => (i, m, c)) ds ++ rest) l ->
  exists l1 l2, l = l1 ++ l2 /\ content_list m ds l1 /\ content_stack rest l2.
Proof.
  induction ds as [|d ds IH]; intros i m rest l Hcs.
  - exists [], l. split; [reflexivity|]. split; [constructor|exact Hcs].
  - cbn [map app] in Hcs.
    inversion Hcs as [|i' m' d' rest' la lb Hd Hrest]; subst.
    destruct (IH _ _ _ _ Hrest) as [l1 [l2 [El [Hl1 Hl2]]]]. subst lb.
    exists (la ++ l1), l2. split; [apply app_assoc|].
    split; [constructor; assumption|assumption].
Qed.

Definition stack_suffix_free (st : list frame) : Prop :=
  Forall (fun fr : frame => suffix_free (snd fr) = true) st.

Lemma stack_suffix_free_concat i m ds rest :
  forallb suffix_free ds = true -> stack_suffix_free rest ->
  stack_suffix_free (map (fun c => (i, m, c)) ds ++ rest).
Proof.
  intros Hds Hrest. unfold stack_suffix_free. apply Forall_app. split; [|exact Hrest].
  apply Forall_forall. intros fr Hin. apply in_map_iff in Hin.
  destruct Hin as [c [Ec Hc]]. subst fr. cbn [snd].
  rewrite forallb_forall in Hds. apply Hds. exact Hc.
Qed.

(* Generalised invariant over the machine state (suffix buffer empty, all frames suffix-free). *)
Lemma layout_fuel_content : forall fuel width stack col out ts,
  stack_suffix_free stack ->
  layout_fuel fuel width stack [] col out = Some ts ->
  exists l, content_stack stack l /\ texts ts = texts (rev out) ++ l.
Proof.
  induction fuel as [|f IH]; intros width stack col out ts Hsf Hrun; [discriminate|].
  cbn [layout_fuel] in Hrun.
  destruct stack as [|[[i m] d] rest].
  - inversion Hrun; subst. exists []. split; [constructor|]. rewrite app_nil_r. reflexivity.
  - inversion Hsf as [|fr0 st0 Hd Hrest]; subst. cbn [snd] in Hd.
    (* the three shapes of a step *)
    assert (Hskip : forall col' l0,
      content m d l0 -> l0 = [] ->
      layout_fuel f width rest [] col' out = Some ts ->
      exists l, content_stack ((i, m, d) :: rest) l /\ texts ts = texts (rev out) ++ l).
    { intros col' l0 Hc El Hr. subst l0.
      destruct (IH _ _ _ _ _ Hrest Hr) as [l [Hcs Ht]].
      exists ([] ++ l). split; [constructor; assumption|exact Ht]. }
    assert (Hws : forall col' tok,
      content m d [] -> texts [tok] = [] ->
      layout_fuel f width rest [] col' (tok :: out) = Some ts ->
      exists l, content_stack ((i, m, d) :: rest) l /\ texts ts = texts (rev out) ++ l).
    { intros col' tok Hc Etok Hr.
      destruct (IH _ _ _ _ _ Hrest Hr) as [l [Hcs Ht]].
      exists ([] ++ l). split; [constructor; assumption|].
      rewrite Ht. cbn [rev]. rewrite texts_app, Etok, app_nil_r. reflexivity. }
    assert (Hpush : forall i' m' d',
      suffix_free d' = true ->
      (forall l1, content m' d' l1 -> content m d l1) ->
      layout_fuel f width ((i', m', d') :: rest) [] col out = Some ts ->
      exists l, content_stack ((i, m, d) :: rest) l /\ texts ts = texts (rev out) ++ l).
    { intros i' m' d' Hd' Himp Hr.
      assert (Hsf' : stack_suffix_free ((i', m', d') :: rest))
        by (constructor; [exact Hd'|exact Hrest]).
      destruct (IH _ _ _ _ _ Hsf' Hr) as [l [Hcs Ht]].
      inversion Hcs as [|i0 m0 d0 rest0 l1 l2 Hc1 Hc2]; subst.
      exists (l1 ++ l2). split; [constructor; [apply Himp; exact Hc1|exact Hc2]|exact Ht]. }
    destruct d; cbn [suffix_free] in Hd.
    + (* DNil *) eapply Hskip; [constructor|reflexivity|exact Hrun].
    + (* DText *)
      destruct (IH _ _ _ _ _ Hrest Hrun) as [l [Hcs Ht]].
      exists ([s] ++ l). split; [constructor; [constructor|assumption]|].
      rewrite Ht. cbn [rev]. rewrite texts_app. cbn [texts]. rewrite <- app_assoc. reflexivity.
    + (* DLine *)
      destruct m.
      * eapply Hws; [constructor| |exact Hrun]; reflexivity.
      * eapply Hws; [constructor| |exact Hrun]; reflexivity.
    + (* DSoftLine *)
      destruct m.
      * eapply Hskip; [constructor|reflexivity|exact Hrun].
      * eapply Hws; [constructor| |exact Hrun]; reflexivity.
    + (* DHardLine *) eapply Hws; [constructor| |exact Hrun]; reflexivity.
    + (* DConcat *)
      assert (Hsf' : stack_suffix_free (map (fun c => (i, m, c)) ds ++ rest))
        by (apply stack_suffix_free_concat; assumption).
      destruct (IH _ _ _ _ _ Hsf' Hrun) as [l [Hcs Ht]].
      destruct (content_stack_concat _ _ _ _ _ Hcs) as [l1 [l2 [El [Hl1 Hl2]]]]. subst l.
      exists (l1 ++ l2). split; [constructor; [constructor; exact Hl1|exact Hl2]|exact Ht].
    + (* DNest *)
      eapply Hpush; [exact Hd| |exact Hrun]. intros l1 Hc. constructor. exact Hc.
    + (* DGroup *)
      destruct should_break.
      * eapply Hpush; [exact Hd| |exact Hrun]. intros l1 Hc. constructor. exact Hc.
      * destruct (fits (S f) (width - col)%nat i d rest) as [fb|]; [|discriminate].
        eapply Hpush; [exact Hd| |exact Hrun]. intros l1 Hc.
        eapply C_group_free. exact Hc.
    + (* DIfBreak *)
      apply andb_true_iff in Hd. destruct Hd as [Hb Hf].
      eapply Hpush; [| |exact Hrun].
      * destruct m; assumption.
      * intros l1 Hc. constructor. exact Hc.
    + (* DLineSuffix *) discriminate.
    + (* DBreakParent *) eapply Hskip; [constructor|reflexivity|exact Hrun].
Qed.

Theorem layout_content_invariant : forall d width ts,
  suffix_free d = true -> layout d width = Some ts -> content Break d (texts ts).
Proof.
  intros d width ts Hsf Hrun. unfold layout in Hrun.
  assert (Hst : stack_suffix_free [(0%nat, Break, d)]) by (constructor; [exact Hsf|constructor]).
  destruct (layout_fuel_content _ _ _ _ _ _ Hst Hrun) as [l [Hcs Ht]].
  inversion Hcs as [|i0 m0 d0 rest0 l1 l2 Hc1 Hc2]; subst.
  inversion Hc2; subst. cbn [rev texts app] in Ht. rewrite app_nil_r in Ht.
  rewrite Ht. exact Hc1.
Qed.

(* ------------------------------------------------------------------------------------------ *)
(* 3. the general version with LineSuffix: the Text atoms are preserved up to a permutation   *)
(*    (LineSuffix content is moved to the end of its line)                                     *)
(* ------------------------------------------------------------------------------------------ *)

(* like `content`, but also descends into DLineSuffix (in document order) *)
Inductive content_all : mode -> doc -> list (list Z) -> Prop :=
| CA_nil m : content_all m DNil []
| CA_text m s : content_all m (DText s) [s]
| CA_line m : content_all m DLine []
| CA_softline m : content_all m DSoftLine []
| CA_hardline m : content_all m DHardLine []
| CA_breakparent m : content_all m DBreakParent []
| CA_concat m ds l : content_all_list m ds l -> content_all m (DConcat ds) l
| CA_nest m n d l : content_all m d l -> content_all m (DNest n d) l
| CA_group_forced m d l : content_all Break d l -> content_all m (DGroup d true) l
| CA_group_free m m' d l : content_all m' d l -> content_all m (DGroup d false) l
| CA_ifbreak m br fl l :
    content_all m (match m with Break => br | Flat => fl end) l ->
    content_all m (DIfBreak br fl) l
| CA_linesuffix m d l : content_all m d l -> content_all m (DLineSuffix d) l
with content_all_list : mode -> list doc -> list (list Z) -> Prop :=
| CAL_nil m : content_all_list m [] []
| CAL_cons m d ds l1 l2 :
    content_all m d l1 -> content_all_list m ds l2 -> content_all_list m (d :: ds) (l1 ++ l2).

Inductive content_all_stack : list frame -> list (list Z) -> Prop :=
| CAS_nil : content_all_stack [] []
| CAS_cons i m d rest l1 l2 :
    content_all m d l1 -> content_all_stack rest l2 ->
    content_all_stack ((i, m, d) :: rest) (l1 ++ l2).

Lemma content_all_stack_app : forall a b l,
  content_all_stack (a ++ b) l ->
  exists la lb, l = la ++ lb /\ content_all_stack a la /\ content_all_stack b lb.
Proof.
  induction a as [|[[i m] d] a IH]; intros b l Hcs.
  - exists [], l. split; [reflexivity|]. split; [constructor|exact Hcs].
  - cbn [app] in Hcs.
    inversion Hcs as [|i' m' d' rest' l1 l2 Hd Hrest]; subst.
    destruct (IH _ _ Hrest) as [la [lb [El [Hla Hlb]]]]. subst l2.
    exists (l1 ++ la), lb. split; [apply app_assoc|].
    split; [constructor; assumption|assumption].
Qed.

Lemma content_all_stack_concat : forall ds i m rest l,
  content_all_stack (map (fun c => (i, m, c)) ds ++ rest) l ->
  exists l1 l2, l = l1 ++ l2 /\ content_all_list m ds l1 /\ content_all_stack rest l2.
Proof.
  induction ds as [|d ds IH]; intros i m rest l Hcs.
  - exists [], l. split; [reflexivity|]. split; [constructor|exact Hcs].
  - cbn [map app] in Hcs.
    inversion Hcs as [|i' m' d' rest' la lb Hd Hrest]; subst.
    destruct (IH _ _ _ _ Hrest) as [l1 [l2 [El [Hl1 Hl2]]]]. subst lb.
    exists (la ++ l1), l2. split; [apply app_assoc|].
    split; [constructor; assumption|assumption].
Qed.

(* Generalised invariant over an arbitrary machine state. *)
Lemma layout_fuel_perm : forall fuel width stack sfx col out ts,
  layout_fuel fuel width stack sfx col out = Some ts ->
  exists ls lx l,
    content_all_stack stack ls /\ content_all_stack sfx lx /\
    texts ts = texts (rev out) ++ l /\ Permutation l (ls ++ lx).
Proof.
  induction fuel as [|f IH]; intros width stack sfx col out ts Hrun; [discriminate|].
  cbn [layout_fuel] in Hrun.
  destruct stack as [|[[i m] d] rest].
  - destruct sfx as [|fr sfx'].
    + inversion Hrun; subst. exists [], [], []. split; [constructor|].
      split; [constructor|]. split; [rewrite app_nil_r; reflexivity|constructor].
    + destruct (IH _ _ _ _ _ _ Hrun) as [ls [lx [l [Hls [Hlx [Ht Hp]]]]]].
      inversion Hlx; subst. rewrite app_nil_r in Hp.
      exists [], ls, l. split; [constructor|]. split; [exact Hls|]. split; [exact Ht|exact Hp].
  - (* shapes of a step *)
    assert (Hskip : forall col',
      content_all m d [] ->
      layout_fuel f width rest sfx col' out = Some ts ->
      exists ls lx l,
        content_all_stack ((i, m, d) :: rest) ls /\ content_all_stack sfx lx /\
        texts ts = texts (rev out) ++ l /\ Permutation l (ls ++ lx)).
    { intros col' Hc Hr.
      destruct (IH _ _ _ _ _ _ Hr) as [ls [lx [l [Hls [Hlx [Ht Hp]]]]]].
      exists ([] ++ ls), lx, l. split; [constructor; assumption|].
      split; [exact Hlx|]. split; [exact Ht|exact Hp]. }
    assert (Hws : forall col' tok,
      content_all m d [] -> texts [tok] = [] ->
      layout_fuel f width rest sfx col' (tok :: out) = Some ts ->
      exists ls lx l,
        content_all_stack ((i, m, d) :: rest) ls /\ content_all_stack sfx lx /\
        texts ts = texts (rev out) ++ l /\ Permutation l (ls ++ lx)).
    { intros col' tok Hc Etok Hr.
      destruct (IH _ _ _ _ _ _ Hr) as [ls [lx [l [Hls [Hlx [Ht Hp]]]]]].
      exists ([] ++ ls), lx, l. split; [constructor; assumption|].
      split; [exact Hlx|]. split; [|exact Hp].
      rewrite Ht. cbn [rev]. rewrite texts_app, Etok, app_nil_r. reflexivity. }
    assert (Hpush : forall i' m' d',
      (forall l1, content_all m' d' l1 -> content_all m d l1) ->
      layout_fuel f width ((i', m', d') :: rest) sfx col out = Some ts ->
      exists ls lx l,
        content_all_stack ((i, m, d) :: rest) ls /\ content_all_stack sfx lx /\
        texts ts = texts (rev out) ++ l /\ Permutation l (ls ++ lx)).
    { intros i' m' d' Himp Hr.
      destruct (IH _ _ _ _ _ _ Hr) as [ls [lx [l [Hls [Hlx [Ht Hp]]]]]].
      inversion Hls as [|i0 m0 d0 rest0 l1 l2 Hc1 Hc2]; subst.
      exists (l1 ++ l2), lx, l. split; [constructor; [apply Himp; exact Hc1|exact Hc2]|].
      split; [exact Hlx|]. split; [exact Ht|exact Hp]. }
    (* a real line break: emit the newline, or re-push the Line under the pending suffixes *)
    assert (Hbrk : content_all m d [] ->
      match sfx with
      | [] => layout_fuel f width rest [] i (TNewline i :: out)
      | _ :: _ => layout_fuel f width (sfx ++ (i, m, d) :: rest) [] col out
      end = Some ts ->
      exists ls lx l,
        content_all_stack ((i, m, d) :: rest) ls /\ content_all_stack sfx lx /\
        texts ts = texts (rev out) ++ l /\ Permutation l (ls ++ lx)).
    { intros Hc Hr. destruct sfx as [|fr sfx'].
      - eapply Hws; [exact Hc| |exact Hr]; reflexivity.
      - destruct (IH _ _ _ _ _ _ Hr) as [ls [lx [l [Hls [Hlx [Ht Hp]]]]]].
        inversion Hlx; subst. rewrite app_nil_r in Hp.
        destruct (content_all_stack_app _ _ _ Hls) as [la [lb [El [Hla Hlb]]]]. subst ls.
        exists lb, la, l. split; [exact Hlb|]. split; [exact Hla|]. split; [exact Ht|].
        eapply Permutation_trans; [exact Hp|apply Permutation_app_comm]. }
    destruct d.
    + (* DNil *) eapply Hskip; [constructor|exact Hrun].
    + (* DText *)
      destruct (IH _ _ _ _ _ _ Hrun) as [ls [lx [l [Hls [Hlx [Ht Hp]]]]]].
      exists ([s] ++ ls), lx, (s :: l). split; [constructor; [constructor|assumption]|].
      split; [exact Hlx|]. split.
      * rewrite Ht. cbn [rev]. rewrite texts_app. cbn [texts]. rewrite <- app_assoc. reflexivity.
      * cbn [app]. apply perm_skip. exact Hp.
    + (* DLine *)
      destruct m.
      * eapply Hws; [constructor| |exact Hrun]; reflexivity.
      * apply Hbrk; [constructor|exact Hrun].
    + (* DSoftLine *)
      destruct m.
      * eapply Hskip; [constructor|exact Hrun].
      * apply Hbrk; [constructor|exact Hrun].
    + (* DHardLine *) apply Hbrk; [constructor|exact Hrun].
    + (* DConcat *)
      destruct (IH _ _ _ _ _ _ Hrun) as [ls [lx [l [Hls [Hlx [Ht Hp]]]]]].
      destruct (content_all_stack_concat _ _ _ _ _ Hls) as [l1 [l2 [El [Hl1 Hl2]]]]. subst ls.
      exists (l1 ++ l2), lx, l. split; [constructor; [constructor; exact Hl1|exact Hl2]|].
      split; [exact Hlx|]. split; [exact Ht|exact Hp].
    + (* DNest *)
      eapply Hpush; [|exact Hrun]. intros l1 Hc. constructor. exact Hc.
    + (* DGroup *)
      destruct should_break.
      * eapply Hpush; [|exact Hrun]. intros l1 Hc. constructor. exact Hc.
      * destruct (fits (S f) (width - col)%nat i d rest) as [fb|]; [|discriminate].
        eapply Hpush; [|exact Hrun]. intros l1 Hc. eapply CA_group_free. exact Hc.
    + (* DIfBreak *)
      eapply Hpush; [|exact Hrun]. intros l1 Hc. constructor. exact Hc.
    + (* DLineSuffix: the content moves from the stack to the suffix buffer *)
      destruct (IH _ _ _ _ _ _ Hrun) as [ls [lx [l [Hls [Hlx [Ht Hp]]]]]].
      destruct (content_all_stack_app _ _ _ Hlx) as [la [lb [El [Hla Hlb]]]]. subst lx.
      inversion Hlb as [|i0 m0 d0 rest0 l1 l2 Hc1 Hc2]; subst.
      inversion Hc2; subst. rewrite app_nil_r in Hp.
      exists (l1 ++ ls), la, l.
      split; [constructor; [constructor; exact Hc1|exact Hls]|].
      split; [exact Hla|]. split; [exact Ht|].
      eapply Permutation_trans; [exact Hp|].
      (* ls ++ la ++ l1  ~  (l1 ++ ls) ++ la *)
      rewrite app_assoc.
      eapply Permutation_trans; [apply Permutation_app_comm|].
      rewrite app_assoc. apply Permutation_refl.
    + (* DBreakParent *) eapply Hskip; [constructor|exact Hrun].
Qed.

Theorem layout_content_perm : forall d width ts,
  layout d width = Some ts ->
  exists l, content_all Break d l /\ Permutation (texts ts) l.
Proof.
  intros d width ts Hrun. unfold layout in Hrun.
  destruct (layout_fuel_perm _ _ _ _ _ _ _ Hrun) as [ls [lx [l [Hls [Hlx [Ht Hp]]]]]].
  inversion Hlx; subst.
  inversion Hls as [|i0 m0 d0 rest0 l1 l2 Hc1 Hc2]; subst.
  inversion Hc2; subst. cbn [rev texts app] in Ht. rewrite !app_nil_r in Hp.
  exists l1. split; [exact Hc1|]. rewrite Ht. exact Hp.
Qed.

(* ------------------------------------------------------------------------------------------ *)
(* 4. non-vacuity                                                                              *)
(* ------------------------------------------------------------------------------------------ *)

(* group("f(" nest(2, softline "a," line "b" if_break(",", nil)) softline ")")
   "f(" = 102 40, "a," = 97 44, "b" = 98, "," = 44, ")" = 41 *)
Definition ex_call : doc :=
  group (DConcat [DText [102; 40];
                  DNest 2 (DConcat [DSoftLine; DText [97; 44]; DLine; DText [98];
                                    DIfBreak (DText [44]) DNil]);
                  DSoftLine; DText [41]]).

Example ex_call_group : exists inner, ex_call = DGroup inner false /\ suffix_free ex_call = true.
Proof. eexists. split; vm_compute; reflexivity. Qed.

(* width 80: flat, "f(a, b)" *)
Example ex_call_flat_layout :
  layout ex_call 80 =
  Some [TText [102; 40]; TText [97; 44]; TSpace; TText [98]; TText [41]].
Proof. vm_compute. reflexivity. Qed.
Example ex_call_flat_print : print ex_call 80 = Some [102; 40; 97; 44; 32; 98; 41].
Proof. vm_compute. reflexivity. Qed.

(* width 5: broken, "f(\n  a,\n  b,\n)" — the trailing comma of the IfBreak appears *)
Example ex_call_broken_layout :
  layout ex_call 5 =
  Some [TText [102; 40]; TNewline 2; TText [97; 44]; TNewline 2; TText [98]; TText [44];
        TNewline 0; TText [41]].
Proof. vm_compute. reflexivity. Qed.
Example ex_call_broken_print :
  print ex_call 5 = Some [102; 40; 10; 32; 32; 97; 44; 10; 32; 32; 98; 44; 10; 41].
Proof. vm_compute. reflexivity. Qed.

(* the texts differ exactly by the IfBreak branch (nil when flat, "," when broken) *)
Example ex_call_texts :
  option_map texts (layout ex_call 80) = Some ([[102; 40]; [97; 44]; [98]] ++ [] ++ [[41]]) /\
  option_map texts (layout ex_call 5) = Some ([[102; 40]; [97; 44]; [98]] ++ [[44]] ++ [[41]]).
Proof. split; vm_compute; reflexivity. Qed.

(* both are mode-resolved contents of the same doc (instances of layout_content_invariant) *)
Example ex_call_content :
  content Break ex_call [[102; 40]; [97; 44]; [98]; [41]] /\
  content Break ex_call [[102; 40]; [97; 44]; [98]; [44]; [41]].
Proof.
  split.
  - apply (layout_content_invariant ex_call 80 _ eq_refl ex_call_flat_layout).
  - apply (layout_content_invariant ex_call 5 _ eq_refl ex_call_broken_layout).
Qed.

(* group("x" line_suffix(" // c") break_parent line "y" "  "): the BreakParent forces the group
   (should_break = true), the comment is flushed before the newline, and the trailing blanks of
   the last line are stripped.  "x" = 120, " // c" = 32 47 47 32 99, "y" = 121 *)
Definition ex_comment : doc :=
  group (DConcat [DText [120]; DLineSuffix (DText [32; 47; 47; 32; 99]); DBreakParent; DLine;
                  DText [121]; DText [32; 32]]).

Example ex_comment_forced : exists inner, ex_comment = DGroup inner true.
Proof. eexists. vm_compute. reflexivity. Qed.
Example ex_comment_layout :
  layout ex_comment 80 =
  Some [TText [120]; TText [32; 47; 47; 32; 99]; TNewline 0; TText [121]; TText [32; 32]].
Proof. vm_compute. reflexivity. Qed.
Example ex_comment_print : print ex_comment 80 = Some [120; 32; 47; 47; 32; 99; 10; 121].
Proof. vm_compute. reflexivity. Qed.

(* a LineSuffix with no following line break is flushed at the end of input: the Text atoms come
   out in a different order than in the doc — the permutation in layout_content_perm is needed. *)
Definition ex_reorder : doc :=
  DConcat [DText [120]; DLineSuffix (DText [32; 47; 47; 32; 99]); DText [121]].
Example ex_reorder_layout :
  layout ex_reorder 80 = Some [TText [120]; TText [121]; TText [32; 47; 47; 32; 99]].
Proof. vm_compute. reflexivity. Qed.
Example ex_reorder_perm :
  exists l, content_all Break ex_reorder l /\
            Permutation [[120]; [121]; [32; 47; 47; 32; 99]] l.
Proof. apply (layout_content_perm ex_reorder 80 _ ex_reorder_layout). Qed.
Example ex_reorder_content_all :
  content_all Break ex_reorder [[120]; [32; 47; 47; 32; 99]; [121]].
Proof.
  apply CA_concat.
  apply (CAL_cons Break _ _ [[120]] [[32; 47; 47; 32; 99]; [121]]); [constructor|].
  apply (CAL_cons Break _ _ [[32; 47; 47; 32; 99]] [[121]]); [constructor; constructor|].
  apply (CAL_cons Break _ _ [[121]] []); constructor.
Qed.

(* strip_trailing_whitespace: "a \r\n\n b\t\n" -> "a\n\n b" *)
Example ex_strip :
  strip_trailing_whitespace [97; 32; 13; 10; 10; 32; 98; 9; 10] = [97; 10; 10; 32; 98].
Proof. vm_compute. reflexivity. Qed.
