(* OverlapPartialEx.v — the premise `wfv` (labels occur at most once in a tuple value) of
   OverlapPartial.overlap_complete_fop is necessary, and the theorem is not vacuous. *)
From Quiver Require Import Base Types Rel Sem Witness OverlapPartial.
From Coq Require Import Arith.
Close Scope Z_scope.
Open Scope nat_scope.

(* (x: int, ..) and (x: bin, ..) *)
Definition reg_dup : registry :=
  mk_reg [mk_tuple None []; mk_tuple (Some name_ok) []]
         [TInteger; TBinary; TPartial None [(0, 0)]; TPartial None [(0, 1)]; TPartial None [(1, 1)]].
(* [x: 0, x: ''] — a label twice *)
Definition v_dup : value := VTup None [(Some 0, VInt 0%Z); (Some 0, VBin [])].
(* [x: 0, y: ''] *)
Definition v_xy : value := VTup None [(Some 0, VInt 0%Z); (Some 1, VBin [])].

Lemma v_dup_not_wfv : ~ wfv v_dup.
Proof.
  intros H. inversion H as [| | | | | |? ? Hfun _]; subst.
  assert (Heq : VInt 0%Z = VBin []) by (apply (Hfun 0); [left; reflexivity|right; left; reflexivity]).
  discriminate Heq.
Qed.

Lemma v_xy_wfv : wfv v_xy.
Proof.
  constructor.
  - intros l v1 v2 [H1|[H1|[]]] [H2|[H2|[]]]; inversion H1; inversion H2; subst; try reflexivity; discriminate.
  - intros f [<-|[<-|[]]]; constructor.
Qed.

(* without the premise the statement is false: the checker calls (x: int, ..) and (x: bin, ..)
   disjoint, and a value with the label x twice belongs to both *)
Lemma overlap_partial_needs_distinct_labels :
  cfg_any_callable current_cfg = true /\ cfg_partial_any current_cfg = true /\
  fop_domain reg_dup 2 = true /\ fop_domain reg_dup 3 = true /\
  types_overlap_with current_cfg 1000 reg_dup 2 3 = Some false /\
  memb reg_dup v_dup 2 = true /\ memb reg_dup v_dup 3 = true /\ ~ wfv v_dup.
Proof. repeat (split; [vm_compute; reflexivity|]). exact v_dup_not_wfv. Qed.

Lemma overlap_partial_nonvacuous :
  fop_domain reg_dup 2 = true /\ fop_domain reg_dup 4 = true /\
  types_overlap_with current_cfg 1000 reg_dup 2 4 = Some true /\
  memb reg_dup v_xy 2 = true /\ memb reg_dup v_xy 4 = true /\ wfv v_xy.
Proof. repeat (split; [vm_compute; reflexivity|]). exact v_xy_wfv. Qed.
