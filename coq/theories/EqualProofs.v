(* EqualProofs.v — proofs about the model in Equal.v (property C13). *)
From Quiver Require Import Base Equal.
Require Import Lia.

(* ================================================================ boolean equalities *)

Lemma list_eqb_spec {A} (eqb : A -> A -> bool) :
  (forall a b, eqb a b = true <-> a = b) ->
  forall x y, list_eqb eqb x y = true <-> x = y.
Proof.
  intros Heq x. induction x as [|a x IH]; intros [|b y]; cbn [list_eqb]; split; intro H;
    try reflexivity; try discriminate.
  - apply andb_true_iff in H. destruct H as [H1 H2].
    apply Heq in H1. apply IH in H2. subst. reflexivity.
  - inversion H; subst. apply andb_true_iff. split; [apply Heq; reflexivity | apply IH; reflexivity].
Qed.

Lemma option_eqb_spec {A} (eqb : A -> A -> bool) :
  (forall a b, eqb a b = true <-> a = b) ->
  forall x y, option_eqb eqb x y = true <-> x = y.
Proof.
  intros Heq [a|] [b|]; cbn [option_eqb]; split; intro H; try reflexivity; try discriminate.
  - apply Heq in H. subst. reflexivity.
  - inversion H; subst. apply Heq. reflexivity.
Qed.

Lemma bytes_eqb_eq x y : bytes_eqb x y = true <-> x = y.
Proof. apply list_eqb_spec. intros a b. apply Z.eqb_eq. Qed.

Lemma bytes_eqb_refl x : bytes_eqb x x = true.
Proof. apply bytes_eqb_eq. reflexivity. Qed.

Lemma shape_eqb_eq a b : shape_eqb a b = true <-> a = b.
Proof.
  destruct a as [na la], b as [nb lb]. unfold shape_eqb. cbn [fst snd].
  rewrite andb_true_iff.
  rewrite (option_eqb_spec _ bytes_eqb_eq).
  rewrite (list_eqb_spec _ (option_eqb_spec _ bytes_eqb_eq)).
  split; [intros [H1 H2]; subst; reflexivity | intro H; inversion H; auto].
Qed.

Lemma shape_eqb_refl a : shape_eqb a a = true.
Proof. apply shape_eqb_eq. reflexivity. Qed.

Lemma shape_eqb_neq a b : shape_eqb a b = false <-> a <> b.
Proof.
  split.
  - intros H E. apply shape_eqb_eq in E. congruence.
  - intro H. destruct (shape_eqb a b) eqn:E; [apply shape_eqb_eq in E; contradiction | reflexivity].
Qed.

(* ================================================================ canonical tuples *)

(* specification: index of the first entry of the table with the given shape *)
Fixpoint find_first (sh : shape) (ts : list tuple_info) : option nat :=
  match ts with
  | [] => None
  | t :: r => if shape_eqb (shape_of t) sh then Some 0%nat else option_map S (find_first sh r)
  end.

Lemma find_first_app sh pre l :
  find_first sh (pre ++ l) =
  match find_first sh pre with
  | Some j => Some j
  | None => option_map (fun k => (length pre + k)%nat) (find_first sh l)
  end.
Proof.
  induction pre as [|t pre IH]; cbn [find_first app length].
  - destruct (find_first sh l); reflexivity.
  - destruct (shape_eqb (shape_of t) sh); [reflexivity|].
    rewrite IH. destruct (find_first sh pre); cbn [option_map]; [reflexivity|].
    destruct (find_first sh l); reflexivity.
Qed.

Lemma find_first_some sh ts j :
  find_first sh ts = Some j ->
  (exists info, nth_error ts j = Some info /\ shape_of info = sh) /\
  (forall i info, (i < j)%nat -> nth_error ts i = Some info -> shape_of info <> sh).
Proof.
  revert j. induction ts as [|t ts IH]; intros j H; cbn [find_first] in H; [discriminate|].
  destruct (shape_eqb (shape_of t) sh) eqn:E.
  - inversion H; subst. split.
    + exists t. split; [reflexivity | apply shape_eqb_eq; exact E].
    + intros i info Hi. lia.
  - destruct (find_first sh ts) as [j'|] eqn:F; cbn [option_map] in H; [|discriminate].
    inversion H; subst. destruct (IH j' eq_refl) as [[info [Hn Hs]] Hmin]. split.
    + exists info. split; assumption.
    + intros i info' Hi Hn'. destruct i as [|i]; cbn [nth_error] in Hn'.
      * inversion Hn'; subst. apply shape_eqb_neq. exact E.
      * apply (Hmin i info'); [lia | assumption].
Qed.

Lemma find_first_present ts k info :
  nth_error ts k = Some info -> exists j, find_first (shape_of info) ts = Some j /\ (j <= k)%nat.
Proof.
  revert k. induction ts as [|t ts IH]; intros k H; [destruct k; discriminate|].
  cbn [find_first]. destruct (shape_eqb (shape_of t) (shape_of info)) eqn:E.
  - exists 0%nat. split; [reflexivity | lia].
  - destruct k as [|k]; cbn [nth_error] in H.
    + inversion H; subst. rewrite shape_eqb_refl in E. discriminate.
    + destruct (IH k H) as [j [Hj Hle]]. exists (S j). rewrite Hj. split; [reflexivity | lia].
Qed.

Definition acc_ok (acc : list (shape * nat)) (pre : list tuple_info) : Prop :=
  forall sh, assoc_shape sh acc = find_first sh pre.

Lemma find_first_snoc sh pre info :
  find_first sh (pre ++ [info]) =
  match find_first sh pre with
  | Some j => Some j
  | None => if shape_eqb (shape_of info) sh then Some (length pre) else None
  end.
Proof.
  rewrite find_first_app. destruct (find_first sh pre); [reflexivity|].
  cbn [find_first]. destruct (shape_eqb (shape_of info) sh); cbn [option_map]; [|reflexivity].
  f_equal. lia.
Qed.

Lemma acc_ok_hit acc pre info c :
  acc_ok acc pre -> assoc_shape (shape_of info) acc = Some c -> acc_ok acc (pre ++ [info]).
Proof.
  intros Hok Hc sh. rewrite find_first_snoc. rewrite (Hok sh).
  destruct (find_first sh pre) eqn:F; [reflexivity|].
  destruct (shape_eqb (shape_of info) sh) eqn:E; [|reflexivity].
  apply shape_eqb_eq in E. subst sh. rewrite <- (Hok (shape_of info)) in F. congruence.
Qed.

Lemma acc_ok_miss acc pre info :
  acc_ok acc pre -> assoc_shape (shape_of info) acc = None ->
  acc_ok ((shape_of info, length pre) :: acc) (pre ++ [info]).
Proof.
  intros Hok Hc sh. rewrite find_first_snoc. cbn [assoc_shape].
  destruct (shape_eqb (shape_of info) sh) eqn:E.
  - apply shape_eqb_eq in E. subst sh. rewrite <- (Hok (shape_of info)), Hc. reflexivity.
  - rewrite (Hok sh). destruct (find_first sh pre); reflexivity.
Qed.

Lemma canon_go_spec ts : forall pre acc,
  acc_ok acc pre ->
  forall k info, nth_error ts k = Some info ->
  nth_error (canon_go acc (length pre) ts) k = find_first (shape_of info) (pre ++ ts).
Proof.
  induction ts as [|info0 rest IH]; intros pre acc Hok k info Hk; [destruct k; discriminate|].
  cbn [canon_go].
  assert (Hlen : S (length pre) = length (pre ++ [info0])) by (rewrite app_length; cbn; lia).
  assert (Happ : pre ++ info0 :: rest = (pre ++ [info0]) ++ rest) by (rewrite <- app_assoc; reflexivity).
  destruct (assoc_shape (shape_of info0) acc) as [c|] eqn:Hc.
  - destruct k as [|k]; cbn [nth_error] in *.
    + inversion Hk; subst. rewrite find_first_app, <- (Hok (shape_of info)), Hc. reflexivity.
    + rewrite Hlen, Happ. apply IH; [eapply acc_ok_hit; eassumption | assumption].
  - destruct k as [|k]; cbn [nth_error] in *.
    + inversion Hk; subst. rewrite find_first_app, <- (Hok (shape_of info)), Hc.
      cbn [find_first]. rewrite shape_eqb_refl. cbn [option_map]. f_equal. lia.
    + rewrite Hlen, Happ. apply IH; [apply acc_ok_miss; assumption | assumption].
Qed.

Lemma compute_canonical_spec ts k info :
  nth_error ts k = Some info ->
  nth_error (compute_canonical ts) k = find_first (shape_of info) ts.
Proof.
  intro H. unfold compute_canonical.
  apply (canon_go_spec ts [] []); [intro sh; reflexivity | exact H].
Qed.

Lemma canon_go_length ts : forall acc id, length (canon_go acc id ts) = length ts.
Proof.
  induction ts as [|t ts IH]; intros acc id; cbn [canon_go length]; [reflexivity|].
  destruct (assoc_shape (shape_of t) acc); cbn [length]; rewrite IH; reflexivity.
Qed.

Lemma compute_canonical_length ts : length (compute_canonical ts) = length ts.
Proof. apply canon_go_length. Qed.

(* compute_canonical_tuples maps an id to the LOWEST id with equal name and labels *)
Lemma canonical_is_lowest ts t info :
  nth_error ts t = Some info ->
  exists c, nth_error (compute_canonical ts) t = Some c /\ (c <= t)%nat /\
            (exists ic, nth_error ts c = Some ic /\ shape_of ic = shape_of info) /\
            (forall j ij, (j < c)%nat -> nth_error ts j = Some ij -> shape_of ij <> shape_of info).
Proof.
  intro H. rewrite (compute_canonical_spec _ _ _ H).
  destruct (find_first_present _ _ _ H) as [j [Hj Hle]].
  exists j. split; [exact Hj|]. split; [exact Hle|].
  apply find_first_some. exact Hj.
Qed.

Lemma canonical_iff_same_shape ts t1 t2 i1 i2 :
  nth_error ts t1 = Some i1 -> nth_error ts t2 = Some i2 ->
  (nth_error (compute_canonical ts) t1 = nth_error (compute_canonical ts) t2 <->
   (t_name i1, t_labels i1) = (t_name i2, t_labels i2)).
Proof.
  intros H1 H2. rewrite (compute_canonical_spec _ _ _ H1), (compute_canonical_spec _ _ _ H2).
  change (t_name i1, t_labels i1) with (shape_of i1). change (t_name i2, t_labels i2) with (shape_of i2).
  split.
  - intro E. destruct (find_first_present _ _ _ H1) as [j [Hj _]].
    rewrite Hj in E. symmetry in E.
    destruct (find_first_some _ _ _ Hj) as [[ia [Ha Hsa]] _].
    destruct (find_first_some _ _ _ E) as [[ib [Hb Hsb]] _].
    rewrite Ha in Hb. inversion Hb; subst. congruence.
  - intro E. rewrite E. reflexivity.
Qed.

(* the table over a longer tuple list agrees with the old one on the old ids *)
Lemma compute_canonical_app ts ext t :
  (t < length ts)%nat ->
  nth_error (compute_canonical (ts ++ ext)) t = nth_error (compute_canonical ts) t.
Proof.
  intro Ht. destruct (nth_error ts t) as [info|] eqn:H; [|apply nth_error_None in H; lia].
  assert (H' : nth_error (ts ++ ext) t = Some info) by (rewrite nth_error_app1; assumption).
  rewrite (compute_canonical_spec _ _ _ H), (compute_canonical_spec _ _ _ H').
  rewrite find_first_app. destruct (find_first_present _ _ _ H) as [j [Hj _]]. rewrite Hj. reflexivity.
Qed.

(* ================================================================ values: induction principle *)

Section value_induction.
  Variable Pv : value -> Prop.
  Hypothesis Hint : forall z, Pv (VInt z).
  Hypothesis Hbin : forall b, Pv (VBin b).
  Hypothesis Href : forall r, Pv (VRef r).
  Hypothesis Htup : forall t fs, Forall Pv fs -> Pv (VTuple t fs).
  Hypothesis Hfun : forall f caps, Forall Pv caps -> Pv (VFun f caps).
  Hypothesis Hbi : forall b, Pv (VBuiltin b).
  Hypothesis Hproc : forall p f, Pv (VProc p f).
  Hypothesis Hres : forall r t, Pv (VRes r t).

  Fixpoint value_ind' (v : value) : Pv v :=
    match v with
    | VInt z => Hint z
    | VBin b => Hbin b
    | VRef r => Href r
    | VTuple t fs =>
        Htup t fs ((fix go (l : list value) : Forall Pv l :=
                      match l with [] => Forall_nil _ | x :: l' => Forall_cons _ (value_ind' x) (go l') end) fs)
    | VFun f caps =>
        Hfun f caps ((fix go (l : list value) : Forall Pv l :=
                        match l with [] => Forall_nil _ | x :: l' => Forall_cons _ (value_ind' x) (go l') end) caps)
    | VBuiltin b => Hbi b
    | VProc p f => Hproc p f
    | VRes r t => Hres r t
    end.
End value_induction.

(* unfolding lemmas: the nested fixpoints are the top-level list functions *)
Lemma values_equal_tuple P ta fa tb fb :
  values_equal P (VTuple ta fa) (VTuple tb fb) =
  Nat.eqb (canonical_tuple P ta) (canonical_tuple P tb) && Nat.eqb (length fa) (length fb) && zip_all P fa fb.
Proof.
  cbn [values_equal]. f_equal.
  revert fb. induction fa as [|x fa IH]; intros [|y fb]; cbn [zip_all]; try reflexivity.
  rewrite IH. reflexivity.
Qed.

Lemma values_equal_fun P ia ca ib cb :
  values_equal P (VFun ia ca) (VFun ib cb) =
  Z.eqb ia ib && Nat.eqb (length ca) (length cb) && zip_all P ca cb.
Proof.
  cbn [values_equal]. f_equal.
  revert cb. induction ca as [|x ca IH]; intros [|y cb]; cbn [zip_all]; try reflexivity.
  rewrite IH. reflexivity.
Qed.

Lemma wf_value_tuple P t fs :
  wf_value P (VTuple t fs) <-> (t < length (tuples P))%nat /\ Forall (wf_value P) fs.
Proof.
  cbn [wf_value]. apply and_iff_compat_l.
  induction fs as [|x fs IH]; [split; constructor|].
  split.
  - intros [Hx Hr]. constructor; [exact Hx | apply IH; exact Hr].
  - intro H. inversion H; subst. split; [assumption | apply IH; assumption].
Qed.

Lemma wf_value_fun P f caps :
  wf_value P (VFun f caps) <-> Forall (wf_value P) caps.
Proof.
  cbn [wf_value].
  induction caps as [|x fs IH]; [split; constructor|].
  split.
  - intros [Hx Hr]. constructor; [exact Hx | apply IH; exact Hr].
  - intro H. inversion H; subst. split; [assumption | apply IH; assumption].
Qed.

Lemma wf_valueb_spec P v : wf_valueb P v = true <-> wf_value P v.
Proof.
  induction v as [z|b|r|t fs IH|f caps IH|b|p f|r t] using value_ind'; cbn [wf_valueb wf_value];
    try (split; intro; [exact I | reflexivity]).
  - destruct (bin_bytes P b); split; intro H; try discriminate; try reflexivity; try congruence.
  - rewrite andb_true_iff, Nat.ltb_lt. apply and_iff_compat_l.
    induction IH as [|x fs Hx _ IHfs]; [split; intro; [exact I | reflexivity]|].
    rewrite andb_true_iff, Hx, IHfs. reflexivity.
  - induction IH as [|x fs Hx _ IHfs]; [split; intro; [exact I | reflexivity]|].
    rewrite andb_true_iff, Hx, IHfs. reflexivity.
Qed.

(* ================================================================ binaries *)

Lemma bytes_eqb_length x y : bytes_eqb x y = true -> length x = length y.
Proof. intro H. apply bytes_eqb_eq in H. subst. reflexivity. Qed.

(* the three arms of the Binary comparison all decide: both resolve, to the same bytes *)
Lemma bin_equal_spec P a b :
  bin_equal P a b = true <-> exists bs, bin_bytes P a = Some bs /\ bin_bytes P b = Some bs.
Proof.
  destruct a as [ia|ia], b as [ib|ib]; cbn [bin_equal bin_bytes].
  - destruct (nth_error (constants P) ia) as [[z|x]|], (nth_error (constants P) ib) as [[z'|y]|];
      try (split; [discriminate | intros [bs [H1 H2]]; discriminate]).
    rewrite bytes_eqb_eq. split; [intro; subst; eauto | intros [bs [H1 H2]]; congruence].
  - destruct (nth_error (constants P) ia) as [[z|x]|], (nth_error (heap P) ib) as [y|];
      try (split; [discriminate | intros [bs [H1 H2]]; discriminate]).
    rewrite bytes_eqb_eq. split; [intro; subst; eauto | intros [bs [H1 H2]]; congruence].
  - destruct (nth_error (constants P) ib) as [[z|x]|], (nth_error (heap P) ia) as [y|];
      try (split; [discriminate | intros [bs [H1 H2]]; discriminate]).
    rewrite bytes_eqb_eq. split; [intro; subst; eauto | intros [bs [H1 H2]]; congruence].
  - destruct (nth_error (heap P) ia) as [x|], (nth_error (heap P) ib) as [y|];
      try (split; [discriminate | intros [bs [H1 H2]]; discriminate]).
    destruct (Nat.eqb (length x) (length y)) eqn:L; cbn [negb].
    + rewrite bytes_eqb_eq. split; [intro; subst; eauto | intros [bs [H1 H2]]; congruence].
    + split; [discriminate|]. intros [bs [H1 H2]].
      assert (x = y) by congruence. subst. rewrite Nat.eqb_refl in L. discriminate.
Qed.

(* ================================================================ values_equal is structural *)

Lemma zip_all_spec P (Q : value -> value -> Prop) fa :
  Forall (fun x => forall y, values_equal P x y = true <-> Q x y) fa ->
  forall fb, length fa = length fb ->
  (zip_all P fa fb = true <-> Forall2 Q fa fb).
Proof.
  induction 1 as [|x fa Hx _ IH]; intros [|y fb] Hlen; cbn [length] in Hlen; try discriminate.
  - cbn [zip_all]. split; [constructor | reflexivity].
  - cbn [zip_all]. rewrite andb_true_iff, Hx, (IH fb) by lia.
    split; [intros [H1 H2]; constructor; assumption | intro H; inversion H; subst; auto].
Qed.

Lemma Forall2_map_eq {A B} (f : A -> B) l1 l2 :
  Forall2 (fun x y => f x = f y) l1 l2 <-> map f l1 = map f l2.
Proof.
  revert l2. induction l1 as [|x l1 IH]; intros [|y l2]; cbn [map]; split; intro H;
    try reflexivity; try discriminate; try (inversion H; fail); try constructor.
  - inversion H; subst. f_equal; [assumption | apply IH; assumption].
  - inversion H; reflexivity.
  - inversion H. apply IH. assumption.
Qed.

Lemma canonical_tuple_wf P t info :
  wf_tables P -> nth_error (tuples P) t = Some info ->
  nth_error (canonical P) t = Some (canonical_tuple P t).
Proof.
  intros Hwf Ht. unfold canonical_tuple. rewrite Hwf.
  destruct (canonical_is_lowest _ _ _ Ht) as [c [Hc _]]. rewrite Hc. reflexivity.
Qed.

Lemma canonical_tuple_iff P ta tb ia ib :
  wf_tables P -> nth_error (tuples P) ta = Some ia -> nth_error (tuples P) tb = Some ib ->
  (canonical_tuple P ta = canonical_tuple P tb <-> (t_name ia, t_labels ia) = (t_name ib, t_labels ib)).
Proof.
  intros Hwf Ha Hb.
  rewrite <- (canonical_iff_same_shape _ _ _ _ _ Ha Hb).
  pose proof (canonical_tuple_wf _ _ _ Hwf Ha) as Ca.
  pose proof (canonical_tuple_wf _ _ _ Hwf Hb) as Cb.
  rewrite Hwf in Ca, Cb. rewrite Ca, Cb.
  split; [intro E; rewrite E; reflexivity | intro E; inversion E; reflexivity].
Qed.

Lemma zip_all_erase P fa :
  Forall (fun x => forall y, wf_value P x -> wf_value P y ->
                   (values_equal P x y = true <-> erase P x = erase P y)) fa ->
  Forall (wf_value P) fa ->
  forall fb, Forall (wf_value P) fb -> length fa = length fb ->
  (zip_all P fa fb = true <-> map (erase P) fa = map (erase P) fb).
Proof.
  induction 1 as [|x fa Hx _ IH]; intros Hwa [|y fb] Hwb Hlen; cbn [length] in Hlen; try discriminate.
  - cbn [zip_all map]. split; reflexivity.
  - inversion Hwa; subst. inversion Hwb; subst.
    cbn [zip_all map]. rewrite andb_true_iff, (Hx y), (IH H2 fb) by (assumption || lia).
    split; [intros [H5 H6]; f_equal; assumption | intro H; inversion H; auto].
Qed.

Theorem values_equal_structural P :
  wf_tables P ->
  forall v w, wf_value P v -> wf_value P w ->
  (values_equal P v w = true <-> erase P v = erase P w).
Proof.
  intros Hwf v.
  induction v as [z|b|r|t fs IH|f caps IH|b|p f|r t] using value_ind'; intros w Hv Hw.
  - destruct w as [z'|b'|r'|t' fs'|f' caps'|b'|p' f'|r' t']; cbn [values_equal erase]; try (split; discriminate).
    + rewrite Z.eqb_eq. split; [intro; subst; reflexivity | intro H; inversion H; reflexivity].
    + split; [discriminate|]. destruct (bin_bytes P b'); discriminate.
    + split; [discriminate|]. destruct (nth_error (tuples P) t'); discriminate.
  - cbn [wf_value] in Hv. destruct (bin_bytes P b) as [x|] eqn:Eb; [|contradiction Hv; reflexivity].
    destruct w as [z'|b'|r'|t' fs'|f' caps'|b'|p' f'|r' t']; cbn [values_equal erase]; rewrite ?Eb;
      try (split; discriminate).
    + rewrite bin_equal_spec. cbn [wf_value] in Hw.
      destruct (bin_bytes P b') as [y|] eqn:Eb'; [|contradiction Hw; reflexivity].
      split; [intros [bs [H1 H2]]; congruence | intro H; inversion H; subst; eauto].
    + split; [discriminate|]. destruct (nth_error (tuples P) t'); discriminate.
  - destruct w as [z'|b'|r'|t' fs'|f' caps'|b'|p' f'|r' t']; cbn [values_equal erase]; try (split; discriminate).
    + split; [discriminate|]. destruct (bin_bytes P b'); discriminate.
    + rewrite Z.eqb_eq. split; [intro; subst; reflexivity | intro H; inversion H; reflexivity].
    + split; [discriminate|]. destruct (nth_error (tuples P) t'); discriminate.
  - apply wf_value_tuple in Hv. destruct Hv as [Ht Hfs].
    destruct (nth_error (tuples P) t) as [ia|] eqn:Ea; [|apply nth_error_None in Ea; lia].
    destruct w as [z'|b'|r'|t' fs'|f' caps'|b'|p' f'|r' t']; cbn [erase]; rewrite ?Ea;
      try (cbn [values_equal]; split; discriminate).
    + cbn [values_equal]. split; [discriminate|]. destruct (bin_bytes P b'); discriminate.
    + apply wf_value_tuple in Hw. destruct Hw as [Ht' Hfs'].
      destruct (nth_error (tuples P) t') as [ib|] eqn:Eb; [|apply nth_error_None in Eb; lia].
      rewrite values_equal_tuple, !andb_true_iff, !Nat.eqb_eq.
      rewrite (canonical_tuple_iff P t t' ia ib Hwf Ea Eb).
      split.
      * intros [[Hsh Hlen] Hz]. inversion Hsh as [[Hn Hl]]. f_equal.
        apply (zip_all_erase P fs IH Hfs fs' Hfs' Hlen). exact Hz.
      * intro H. inversion H as [[Hn Hl Hm]].
        assert (Hlen : length fs = length fs').
        { rewrite <- (map_length (erase P) fs), <- (map_length (erase P) fs'), Hm. reflexivity. }
        split; [split; [congruence | exact Hlen]|].
        apply (zip_all_erase P fs IH Hfs fs' Hfs' Hlen). exact Hm.
  - apply wf_value_fun in Hv.
    destruct w as [z'|b'|r'|t' fs'|f' caps'|b'|p' f'|r' t']; cbn [erase];
      try (cbn [values_equal]; split; discriminate).
    + cbn [values_equal]. split; [discriminate|]. destruct (bin_bytes P b'); discriminate.
    + cbn [values_equal]. split; [discriminate|]. destruct (nth_error (tuples P) t'); discriminate.
    + apply wf_value_fun in Hw.
      rewrite values_equal_fun, !andb_true_iff, Nat.eqb_eq, Z.eqb_eq.
      split.
      * intros [[Hf Hlen] Hz]. subst. f_equal.
        apply (zip_all_erase P caps IH Hv caps' Hw Hlen). exact Hz.
      * intro H. inversion H as [[Hf Hm]].
        assert (Hlen : length caps = length caps').
        { rewrite <- (map_length (erase P) caps), <- (map_length (erase P) caps'), Hm. reflexivity. }
        split; [split; [reflexivity | exact Hlen]|].
        apply (zip_all_erase P caps IH Hv caps' Hw Hlen). exact Hm.
  - destruct w as [z'|b'|r'|t' fs'|f' caps'|b'|p' f'|r' t']; cbn [values_equal erase]; try (split; discriminate).
    + split; [discriminate|]. destruct (bin_bytes P b'); discriminate.
    + split; [discriminate|]. destruct (nth_error (tuples P) t'); discriminate.
    + rewrite Z.eqb_eq. split; [intro; subst; reflexivity | intro H; inversion H; reflexivity].
  - destruct w as [z'|b'|r'|t' fs'|f' caps'|b'|p' f'|r' t']; cbn [values_equal erase]; try (split; discriminate).
    + split; [discriminate|]. destruct (bin_bytes P b'); discriminate.
    + split; [discriminate|]. destruct (nth_error (tuples P) t'); discriminate.
    + rewrite Z.eqb_eq. split; [intro; subst; reflexivity | intro H; inversion H; reflexivity].
  - destruct w as [z'|b'|r'|t' fs'|f' caps'|b'|p' f'|r' t']; cbn [values_equal erase]; try (split; discriminate).
    + split; [discriminate|]. destruct (bin_bytes P b'); discriminate.
    + split; [discriminate|]. destruct (nth_error (tuples P) t'); discriminate.
    + rewrite Z.eqb_eq. split; [intro; subst; reflexivity | intro H; inversion H; reflexivity].
Qed.

(* ================================================================ corollaries *)

Theorem equal_refl P v : wf_tables P -> wf_value P v -> values_equal P v v = true.
Proof. intros Hwf Hv. apply (values_equal_structural P Hwf v v Hv Hv). reflexivity. Qed.

Theorem equal_sym P v w :
  wf_tables P -> wf_value P v -> wf_value P w ->
  values_equal P v w = values_equal P w v.
Proof.
  intros Hwf Hv Hw.
  destruct (values_equal P v w) eqn:E1, (values_equal P w v) eqn:E2; try reflexivity.
  - apply (values_equal_structural P Hwf v w Hv Hw) in E1. symmetry in E1.
    apply (values_equal_structural P Hwf w v Hw Hv) in E1. congruence.
  - apply (values_equal_structural P Hwf w v Hw Hv) in E2. symmetry in E2.
    apply (values_equal_structural P Hwf v w Hv Hw) in E2. congruence.
Qed.

Theorem equal_trans P u v w :
  wf_tables P -> wf_value P u -> wf_value P v -> wf_value P w ->
  values_equal P u v = true -> values_equal P v w = true -> values_equal P u w = true.
Proof.
  intros Hwf Hu Hv Hw H1 H2.
  apply (values_equal_structural P Hwf u v Hu Hv) in H1.
  apply (values_equal_structural P Hwf v w Hv Hw) in H2.
  apply (values_equal_structural P Hwf u w Hu Hw). congruence.
Qed.

(* a binary is its bytes, wherever it lives (constants table, heap slot, any rope of that content) *)
Theorem equal_binary_representation_independent P a b :
  values_equal P (VBin a) (VBin b) = true <->
  exists bs, bin_bytes P a = Some bs /\ bin_bytes P b = Some bs.
Proof. cbn [values_equal]. apply bin_equal_spec. Qed.

Corollary equal_constant_vs_heap P k i bs :
  nth_error (constants P) k = Some (CBin bs) -> nth_error (heap P) i = Some bs ->
  values_equal P (VBin (BConst k)) (VBin (BHeap i)) = true /\
  values_equal P (VBin (BHeap i)) (VBin (BConst k)) = true.
Proof.
  intros Hk Hi. split; apply equal_binary_representation_independent; exists bs;
    cbn [bin_bytes]; rewrite Hk, Hi; split; reflexivity.
Qed.

(* two tuple ids with the same name and labels build the same value *)
Theorem equal_tuple_id_independent P t1 t2 i1 i2 fs1 fs2 :
  wf_tables P ->
  nth_error (tuples P) t1 = Some i1 -> nth_error (tuples P) t2 = Some i2 ->
  (t_name i1, t_labels i1) = (t_name i2, t_labels i2) ->
  Forall2 (fun x y => values_equal P x y = true) fs1 fs2 ->
  values_equal P (VTuple t1 fs1) (VTuple t2 fs2) = true.
Proof.
  intros Hwf H1 H2 Hsh Hfs.
  rewrite values_equal_tuple, !andb_true_iff, !Nat.eqb_eq.
  split; [split|].
  - apply (canonical_tuple_iff P t1 t2 i1 i2 Hwf H1 H2). exact Hsh.
  - clear -Hfs. induction Hfs; cbn [length]; [reflexivity | f_equal; assumption].
  - induction Hfs as [|x y l1 l2 Hxy _ IH]; cbn [zip_all]; [reflexivity|].
    rewrite Hxy, IH. reflexivity.
Qed.

(* ---------------------------------------------------------------- appending updates *)

Lemma bin_bytes_update P cs hs ts b :
  bin_bytes P b <> None -> bin_bytes (update_tables P cs hs ts) b = bin_bytes P b.
Proof.
  destruct b as [k|i]; cbn [bin_bytes update_tables constants heap]; intro H.
  - destruct (nth_error (constants P) k) as [c|] eqn:E; [|contradiction H; reflexivity].
    rewrite nth_error_app1 by (apply nth_error_Some; congruence). rewrite E. reflexivity.
  - destruct (nth_error (heap P) i) as [c|] eqn:E; [|contradiction H; reflexivity].
    rewrite nth_error_app1 by (apply nth_error_Some; congruence). rewrite E. reflexivity.
Qed.

Lemma wf_tables_update P cs hs ts : wf_tables (update_tables P cs hs ts).
Proof. reflexivity. Qed.

Lemma wf_value_update P cs hs ts v :
  wf_value P v -> wf_value (update_tables P cs hs ts) v.
Proof.
  induction v as [z|b|r|t fs IH|f caps IH|b|p f|r t] using value_ind'; intro H; try exact I.
  - cbn [wf_value] in *. rewrite bin_bytes_update; assumption.
  - apply wf_value_tuple in H. destruct H as [Ht Hfs]. apply wf_value_tuple. split.
    + cbn [update_tables tuples]. rewrite app_length. lia.
    + rewrite Forall_forall in *. intros x Hx. apply IH; [exact Hx | apply Hfs; exact Hx].
  - apply wf_value_fun in H. apply wf_value_fun.
    rewrite Forall_forall in *. intros x Hx. apply IH; [exact Hx | apply H; exact Hx].
Qed.

Lemma erase_update P cs hs ts v :
  wf_value P v -> erase (update_tables P cs hs ts) v = erase P v.
Proof.
  induction v as [z|b|r|t fs IH|f caps IH|b|p f|r t] using value_ind'; intro H; try reflexivity.
  - cbn [erase wf_value] in *. rewrite bin_bytes_update by assumption. reflexivity.
  - apply wf_value_tuple in H. destruct H as [Ht Hfs]. cbn [erase].
    cbn [update_tables tuples]. rewrite nth_error_app1 by exact Ht.
    destruct (nth_error (tuples P) t); [|reflexivity]. f_equal.
    apply map_ext_in. intros x Hx. rewrite Forall_forall in *. apply IH; [exact Hx | apply Hfs; exact Hx].
  - apply wf_value_fun in H. cbn [erase]. f_equal.
    apply map_ext_in. intros x Hx. rewrite Forall_forall in *. apply IH; [exact Hx | apply H; exact Hx].
Qed.

(* update_program only appends (constants, tuples; the heap only grows) and recomputes the
   canonical table over the whole tuple list: verdicts on existing values do not change *)
Theorem equal_stable_under_update P cs hs ts v w :
  wf_tables P -> wf_value P v -> wf_value P w ->
  values_equal (update_tables P cs hs ts) v w = values_equal P v w.
Proof.
  intros Hwf Hv Hw.
  pose proof (values_equal_structural P Hwf v w Hv Hw) as H1.
  pose proof (values_equal_structural (update_tables P cs hs ts) (wf_tables_update P cs hs ts) v w
                (wf_value_update P cs hs ts v Hv) (wf_value_update P cs hs ts w Hw)) as H2.
  rewrite !erase_update in H2 by assumption.
  destruct (values_equal (update_tables P cs hs ts) v w), (values_equal P v w); try reflexivity.
  - symmetry. apply H1. apply H2. reflexivity.
  - apply H2. apply H1. reflexivity.
Qed.

(* the canonical id of an existing tuple id is unchanged by an appending update *)
Theorem canonical_stable_under_update P cs hs ts t :
  wf_tables P -> (t < length (tuples P))%nat ->
  canonical_tuple (update_tables P cs hs ts) t = canonical_tuple P t.
Proof.
  intros Hwf Ht. unfold canonical_tuple. cbn [update_tables canonical]. rewrite Hwf.
  rewrite compute_canonical_app by exact Ht. reflexivity.
Qed.

(* ---------------------------------------------------------------- the pattern-level verdict *)

(* Equal(2); Not; JumpIf(fail): the requirement of a pin / literal / repeated binder is met
   exactly when values_equal says so (in particular also when both values are nil) *)
Theorem pin_matches_spec P a b :
  wf_tables P -> wf_value P a ->
  pin_matches P a b = Val (values_equal P a b).
Proof.
  intros Hwf Ha. unfold pin_matches, handle_equal.
  cbn [length Nat.ltb Nat.leb firstn rev app skipn forallb obind].
  rewrite (equal_refl P a Hwf Ha). cbn [andb].
  destruct (values_equal P a b); reflexivity.
Qed.

(* handle_equal never reads below the `count` topmost values and returns a verdict *)
Theorem handle_equal_verdict P first rest below :
  handle_equal P (S (length rest)) (rev (first :: rest) ++ below) =
  Val ((if forallb (values_equal P first) (first :: rest) then ok_value else nil_value) :: below).
Proof.
  unfold handle_equal.
  remember (rev (first :: rest)) as top eqn:Etop.
  assert (Hlen : length top = S (length rest)) by (subst; rewrite rev_length; reflexivity).
  rewrite <- Hlen.
  replace (Nat.ltb (length (top ++ below)) (length top)) with false
    by (symmetry; apply Nat.ltb_ge; rewrite app_length; lia).
  rewrite firstn_app, Nat.sub_diag, firstn_all, firstn_O, app_nil_r.
  rewrite skipn_app, Nat.sub_diag, skipn_all, skipn_O. cbn [app].
  subst top. rewrite rev_involutive. reflexivity.
Qed.

(* ================================================================ refs *)

Lemma ref_value_arith w n :
  0 <= w < 2 ^ 16 -> ref_value w n = Z.lor (Z.shiftl w 48) n.
Proof.
  intro Hw. unfold ref_value, wrap_u64, two64. f_equal.
  rewrite Z.shiftl_mul_pow2 by lia. apply Z.mod_small.
  change (2 ^ 64) with (2 ^ 16 * 2 ^ 48). nia.
Qed.

Lemma ref_value_worker w n :
  0 <= w < 2 ^ 16 -> 0 <= n < 2 ^ 48 -> Z.shiftr (ref_value w n) 48 = w.
Proof.
  intros Hw Hn. rewrite ref_value_arith by exact Hw.
  rewrite Z.shiftr_lor, Z.shiftr_shiftl_l by lia.
  rewrite Z.sub_diag, Z.shiftl_0_r.
  rewrite (Z.shiftr_div_pow2 n) by lia. rewrite Z.div_small by lia. apply Z.lor_0_r.
Qed.

Lemma ref_value_counter w n :
  0 <= w < 2 ^ 16 -> 0 <= n < 2 ^ 48 -> Z.land (ref_value w n) (Z.ones 48) = n.
Proof.
  intros Hw Hn. rewrite ref_value_arith by exact Hw.
  rewrite Z.land_lor_distr_l, !Z.land_ones by lia.
  rewrite Z.shiftl_mul_pow2 by lia. rewrite Z.mod_mul by lia.
  rewrite Z.mod_small by lia. apply Z.lor_0_l.
Qed.

Theorem create_ref_injective w1 n1 w2 n2 :
  0 <= w1 < 2 ^ 16 -> 0 <= w2 < 2 ^ 16 -> 0 <= n1 < 2 ^ 48 -> 0 <= n2 < 2 ^ 48 ->
  ref_value w1 n1 = ref_value w2 n2 -> w1 = w2 /\ n1 = n2.
Proof.
  intros Hw1 Hw2 Hn1 Hn2 E. split.
  - rewrite <- (ref_value_worker w1 n1), <- (ref_value_worker w2 n2) by assumption. rewrite E. reflexivity.
  - rewrite <- (ref_value_counter w1 n1), <- (ref_value_counter w2 n2) by assumption. rewrite E. reflexivity.
Qed.

(* beyond the bound the code does not enforce, mintings of different workers DO collide *)
Lemma create_ref_collides_beyond_bound : ref_value 0 (2 ^ 48) = ref_value 1 0.
Proof. vm_compute. reflexivity. Qed.

Lemma nodup_map_inj {A B} (f : A -> B) l x y :
  NoDup (map f l) -> In x l -> In y l -> f x = f y -> x = y.
Proof.
  induction l as [|a l IH]; cbn [map]; intros Hnd Hx Hy E; [contradiction|].
  inversion Hnd as [|? ? Hnotin Hnd']; subst.
  destruct Hx as [Hx|Hx], Hy as [Hy|Hy]; subst.
  - reflexivity.
  - exfalso. apply Hnotin. rewrite E. apply in_map. exact Hy.
  - exfalso. apply Hnotin. rewrite <- E. apply in_map. exact Hx.
  - apply IH; assumption.
Qed.

Lemma update_nth_length {A} (l : list A) i x : length (update_nth l i x) = length l.
Proof.
  revert i. induction l as [|h t IH]; intros [|i]; cbn [update_nth length]; try reflexivity.
  rewrite IH. reflexivity.
Qed.

Lemma update_nth_hit {A} (l : list A) i x e :
  nth_error l i = Some e -> nth_error (update_nth l i x) i = Some x.
Proof.
  revert i. induction l as [|h t IH]; intros [|i] H; cbn in *; try discriminate; [reflexivity|].
  apply IH. exact H.
Qed.

Lemma update_nth_in {A} (l : list A) i x y : In y (update_nth l i x) -> y = x \/ In y l.
Proof.
  revert i. induction l as [|h t IH]; intros [|i] H; cbn in *; try contradiction.
  - destruct H as [H|H]; [left; auto | right; right; exact H].
  - destruct H as [H|H]; [right; left; exact H|]. destruct (IH i H) as [H'|H']; [left; exact H' | right; right; exact H'].
Qed.

Lemma update_nth_map {A B} (f : A -> B) (l : list A) i x e :
  nth_error l i = Some e -> f x = f e -> map f (update_nth l i x) = map f l.
Proof.
  revert i. induction l as [|h t IH]; intros [|i] H E; cbn in *; try discriminate.
  - inversion H; subst. rewrite E. reflexivity.
  - f_equal. apply IH; assumption.
Qed.

Definition minter_ok (bound : Z) (e : minter) : Prop :=
  0 <= worker_id e < 2 ^ 16 /\ 0 <= next_ref e /\ next_ref e + bound <= 2 ^ 48.

(* every ref minted from state `sys` on carries the worker id of one of the executors and a
   counter at or above that executor's current counter *)
Definition minted_from (sys : list minter) (r : Z) : Prop :=
  exists e k, In e sys /\ next_ref e <= k < 2 ^ 48 /\ r = ref_value (worker_id e) k.

Lemma run_mints_unique m sched : forall sys,
  NoDup (map worker_id sys) ->
  Forall (minter_ok (Z.of_nat (length sched))) sys ->
  exists refs, run_mints m sys sched = Val refs /\ NoDup refs /\ Forall (minted_from sys) refs.
Proof.
  induction sched as [|i rest IH]; intros sys Hnd Hok.
  - exists []. repeat split; constructor.
  - cbn [run_mints].
    assert (Hok' : Forall (minter_ok (Z.of_nat (length rest))) sys).
    { eapply Forall_impl; [|exact Hok]. intros e [H1 [H2 H3]]. cbn [length] in H3.
      repeat split; try assumption; lia. }
    destruct (nth_error sys i) as [e|] eqn:Ei; [|apply IH; assumption].
    assert (Hin : In e sys) by (eapply nth_error_In; exact Ei).
    destruct (proj1 (Forall_forall _ _) Hok e Hin) as [Hw [Hn Hb]]. cbn [length] in Hb.
    unfold create_ref.
    assert (Hu : in_u64 (next_ref e + 1) = true).
    { unfold in_u64, two64. apply andb_true_iff. split; [apply Z.leb_le | apply Z.ltb_lt]; lia. }
    rewrite Hu. cbn [obind fst snd].
    set (e' := {| worker_id := worker_id e; next_ref := next_ref e + 1 |}).
    set (sys' := update_nth sys i e').
    assert (Hmap : map worker_id sys' = map worker_id sys) by (apply (update_nth_map worker_id sys i e' e Ei); reflexivity).
    assert (Hnd' : NoDup (map worker_id sys')) by (rewrite Hmap; exact Hnd).
    assert (Hin' : In e' sys') by (eapply nth_error_In; eapply update_nth_hit; exact Ei).
    assert (Hoks : Forall (minter_ok (Z.of_nat (length rest))) sys').
    { apply Forall_forall. intros x Hx. destruct (update_nth_in _ _ _ _ Hx) as [->|Hx'].
      - unfold minter_ok, e'. cbn [worker_id next_ref]. repeat split; lia.
      - apply (proj1 (Forall_forall _ _) Hok' x Hx'). }
    destruct (IH sys' Hnd' Hoks) as [refs [Hrun [Hnodup Hfrom]]].
    rewrite Hrun. cbn [obind]. eexists. split; [reflexivity|]. split.
    + constructor; [|exact Hnodup].
      intro Hr. destruct (proj1 (Forall_forall _ _) Hfrom _ Hr) as [x [k [Hx [Hk Er]]]].
      destruct (proj1 (Forall_forall _ _) Hoks x Hx) as [Hwx [Hnx _]].
      assert (Hinj : worker_id e = worker_id x /\ next_ref e = k).
      { apply create_ref_injective; try lia; try assumption. }
      destruct Hinj as [Ew Ek].
      assert (x = e') by (apply (nodup_map_inj worker_id sys' x e' Hnd' Hx Hin'); exact (eq_sym Ew)).
      subst x. unfold e' in Hk. cbn [next_ref] in Hk. lia.
    + constructor.
      * exists e, (next_ref e). repeat split; try assumption; lia.
      * apply Forall_forall. intros r Hr.
        destruct (proj1 (Forall_forall _ _) Hfrom _ Hr) as [x [k [Hx [Hk Er]]]].
        destruct (update_nth_in _ _ _ _ Hx) as [->|Hx'].
        -- exists e, k. unfold e' in *. cbn [next_ref worker_id] in *. repeat split; try assumption; lia.
        -- exists x, k. repeat split; try assumption; lia.
Qed.

Theorem refs_unique_system m sys sched :
  NoDup (map worker_id sys) ->
  Forall (fun e => 0 <= worker_id e < 2 ^ 16 /\ 0 <= next_ref e /\
                   next_ref e + Z.of_nat (length sched) <= 2 ^ 48) sys ->
  exists refs, run_mints m sys sched = Val refs /\ NoDup refs.
Proof.
  intros Hnd Hok. destruct (run_mints_unique m sched sys Hnd Hok) as [refs [H1 [H2 _]]].
  exists refs. split; assumption.
Qed.

(* ================================================================ evalue_eqb decides equality *)

Section evalue_induction.
  Variable Pe : evalue -> Prop.
  Hypothesis Hint : forall z, Pe (EInt z).
  Hypothesis Hbytes : forall b, Pe (EBytes b).
  Hypothesis Href : forall r, Pe (ERef r).
  Hypothesis Htup : forall n l fs, Forall Pe fs -> Pe (ETuple n l fs).
  Hypothesis Hfun : forall f caps, Forall Pe caps -> Pe (EFun f caps).
  Hypothesis Hbi : forall b, Pe (EBuiltin b).
  Hypothesis Hproc : forall p, Pe (EProc p).
  Hypothesis Hres : forall r, Pe (ERes r).
  Hypothesis Hbad : Pe EBad.

  Fixpoint evalue_ind' (v : evalue) : Pe v :=
    match v with
    | EInt z => Hint z
    | EBytes b => Hbytes b
    | ERef r => Href r
    | ETuple n l fs =>
        Htup n l fs ((fix go (l : list evalue) : Forall Pe l :=
                        match l with [] => Forall_nil _ | x :: l' => Forall_cons _ (evalue_ind' x) (go l') end) fs)
    | EFun f caps =>
        Hfun f caps ((fix go (l : list evalue) : Forall Pe l :=
                        match l with [] => Forall_nil _ | x :: l' => Forall_cons _ (evalue_ind' x) (go l') end) caps)
    | EBuiltin b => Hbi b
    | EProc p => Hproc p
    | ERes r => Hres r
    | EBad => Hbad
    end.
End evalue_induction.

Lemma evalue_eqb_spec a : forall b, evalue_eqb a b = true <-> a = b.
Proof.
  induction a as [z|bs|r|n l fs IH|f caps IH|bi|p|r|] using evalue_ind'; intros b;
    destruct b as [z'|bs'|r'|n' l' fs'|f' caps'|bi'|p'|r'|]; cbn [evalue_eqb];
    try (split; [discriminate | intro H; discriminate H]);
    try (rewrite Z.eqb_eq; split; [intro; subst; reflexivity | intro H; inversion H; reflexivity]).
  - rewrite bytes_eqb_eq. split; [intro; subst; reflexivity | intro H; inversion H; reflexivity].
  - rewrite !andb_true_iff, (option_eqb_spec _ bytes_eqb_eq), (list_eqb_spec _ (option_eqb_spec _ bytes_eqb_eq)).
    assert (Hgo : forall fs', (fix go (xs ys : list evalue) {struct xs} : bool :=
                                 match xs, ys with
                                 | [], [] => true
                                 | x :: xs', y :: ys' => evalue_eqb x y && go xs' ys'
                                 | _, _ => false
                                 end) fs fs' = true <-> fs = fs').
    { induction IH as [|x fs Hx _ IHfs]; intros [|y ys]; try (split; [discriminate | intro H; discriminate H]).
      - split; reflexivity.
      - rewrite andb_true_iff, Hx, IHfs. split; [intros [? ?]; subst; reflexivity | intro H; inversion H; auto]. }
    rewrite Hgo. split; [intros [[? ?] ?]; subst; reflexivity | intro H; inversion H; auto].
  - rewrite !andb_true_iff, Z.eqb_eq.
    assert (Hgo : forall fs', (fix go (xs ys : list evalue) {struct xs} : bool :=
                                 match xs, ys with
                                 | [], [] => true
                                 | x :: xs', y :: ys' => evalue_eqb x y && go xs' ys'
                                 | _, _ => false
                                 end) caps fs' = true <-> caps = fs').
    { induction IH as [|x fs Hx _ IHfs]; intros [|y ys]; try (split; [discriminate | intro H; discriminate H]).
      - split; reflexivity.
      - rewrite andb_true_iff, Hx, IHfs. split; [intros [? ?]; subst; reflexivity | intro H; inversion H; auto]. }
    rewrite Hgo. split; [intros [? ?]; subst; reflexivity | intro H; inversion H; auto].
  - split; reflexivity.
Qed.

(* values_equal is exactly the decision procedure for erased equality *)
Corollary values_equal_is_erase_eqb P v w :
  wf_tables P -> wf_value P v -> wf_value P w ->
  values_equal P v w = evalue_eqb (erase P v) (erase P w).
Proof.
  intros Hwf Hv Hw. pose proof (values_equal_structural P Hwf v w Hv Hw) as H.
  pose proof (evalue_eqb_spec (erase P v) (erase P w)) as H'.
  destruct (values_equal P v w), (evalue_eqb (erase P v) (erase P w)); try reflexivity.
  - symmetry. apply H'. apply H. reflexivity.
  - apply H. apply H'. reflexivity.
Qed.

(* ================================================================ non-vacuity *)

Definition ex_A : tuple_info := {| t_name := Some [65]; t_labels := [Some [120]; None] |}.   (* A[x: _, _] *)
Definition ex_B : tuple_info := {| t_name := Some [66]; t_labels := [Some [120]; None] |}.   (* B[x: _, _] *)
Definition ex_nil : tuple_info := {| t_name := None; t_labels := [] |}.
Definition ex_ok : tuple_info := {| t_name := Some [79; 107]; t_labels := [] |}.
Definition ex_tuples := [ex_nil; ex_ok; ex_A; ex_B; ex_A].
Definition ex_tables : tables :=
  {| constants := [CInt 5; CBin [10; 27]]; heap := [[10; 27]; [1]];
     tuples := ex_tuples; canonical := compute_canonical ex_tuples |}.
(* the same value twice: A[x: 0x0a1b, A[x: 1, <ref 7>]] with the tuple ids 2/4 swapped and the
   binary once as a constant, once on the heap *)
Definition ex_v : value := VTuple 2 [VBin (BConst 1); VTuple 4 [VInt 1; VRef 7]].
Definition ex_w : value := VTuple 4 [VBin (BHeap 0); VTuple 2 [VInt 1; VRef 7]].
Definition ex_u : value := VTuple 4 [VBin (BHeap 0); VTuple 3 [VInt 1; VRef 7]].   (* B inside *)

Example ex_canonical : compute_canonical ex_tuples = [0; 1; 2; 3; 2]%nat.
Proof. vm_compute. reflexivity. Qed.

Example ex_structural :
  wf_tables ex_tables /\ wf_value ex_tables ex_v /\ wf_value ex_tables ex_w /\ wf_value ex_tables ex_u /\
  ex_v <> ex_w /\
  values_equal ex_tables ex_v ex_w = true /\ erase ex_tables ex_v = erase ex_tables ex_w /\
  values_equal ex_tables ex_v ex_u = false /\ erase ex_tables ex_v <> erase ex_tables ex_u.
Proof.
  split; [reflexivity|].
  split; [apply wf_valueb_spec; vm_compute; reflexivity|].
  split; [apply wf_valueb_spec; vm_compute; reflexivity|].
  split; [apply wf_valueb_spec; vm_compute; reflexivity|].
  split; [discriminate|].
  split; [vm_compute; reflexivity|].
  split; [vm_compute; reflexivity|].
  split; [vm_compute; reflexivity|].
  vm_compute. discriminate.
Qed.

Example ex_update :
  let P' := update_tables ex_tables [CBin [10; 27]] [[10; 27]] [ex_A; ex_B] in
  canonical P' = [0; 1; 2; 3; 2; 2; 3]%nat /\
  values_equal P' ex_v ex_w = true /\
  values_equal P' ex_v (VTuple 5 [VBin (BConst 2); VTuple 4 [VInt 1; VRef 7]]) = true.
Proof. vm_compute. repeat split; reflexivity. Qed.

Example ex_pin :
  pin_matches ex_tables ex_v ex_w = Val true /\ pin_matches ex_tables ex_v ex_u = Val false /\
  pin_matches ex_tables nil_value nil_value = Val true.
Proof. vm_compute. repeat split; reflexivity. Qed.

Definition ex_sys : list minter :=
  [ {| worker_id := 0; next_ref := 0 |}; {| worker_id := 1; next_ref := 0 |}; {| worker_id := 65535; next_ref := 5 |} ].
Example ex_refs :
  NoDup (map worker_id ex_sys) /\
  Forall (fun e => 0 <= worker_id e < 2 ^ 16 /\ 0 <= next_ref e /\ next_ref e + Z.of_nat (length [0; 1; 2; 0; 2; 1]%nat) <= 2 ^ 48) ex_sys /\
  run_mints Debug ex_sys [0; 1; 2; 0; 2; 1]%nat =
    Val [0; 281474976710656; 18446462598732840965; 1; 18446462598732840966; 281474976710657].
Proof.
  split; [repeat constructor; cbn; intuition discriminate|].
  split; [repeat constructor; cbn; lia|].
  vm_compute. reflexivity.
Qed.
