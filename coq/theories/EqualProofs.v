(* EqualProofs.v — proofs about the model in Equal.v (property C13). *)
From Quiver Require Import Base Equal.

Lemma compute_canonical_nil : compute_canonical [] = [].
Proof. reflexivity. Qed.
