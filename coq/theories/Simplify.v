(* Simplify.v — model of quiver-compiler/src/simplify.rs (`normalize_blocks`).
   Definitions only. The Rust loops `for term in terms { let term = strip_term(term); if strip {extend}
   else {push} }` are written as `splice (map strip_term terms)`: the decision for a term depends only
   on the already-simplified term and on whether it is the last one (`index == last_index`), so
   map-then-splice is the same computation. The `unreachable!` arms of the Rust (after a successful
   `matches!`) do not exist here because test and destructuring are fused (`redundant_body`,
   `liftable_chains` return `option`). *)
From Quiver Require Import Base Ast.

(* simplify.rs:15 struct Options *)
Record options := mkOptions {
  keep : chain -> bool;
  lift : bool;
  group_consequences : bool }.

Definition is_some {A} (o : option A) : bool := match o with Some _ => true | None => false end.
Definition null {A} (l : list A) : bool := match l with [] => true | _ => false end.

(* simplify.rs:254 is_tail_call *)
Definition is_tail_call (t : term) : bool :=
  match t with
  | Access (mkAccess (Some (TailCall _)) _) => true
  | Access (mkAccess (Some TailCallRipple) _) => true
  | _ => false
  end.

(* simplify.rs:266 has_nonfinal_tail_call: terms.len() > 1 && terms[..len-1].iter().any(is_tail_call) *)
Definition has_nonfinal_tail_call (ts : list term) : bool :=
  (1 <? Z.of_nat (length ts)) && existsb is_tail_call (removelast ts).

(* simplify.rs:234 contains_match: recurses through tuples and select sources, stops at blocks/functions *)
Fixpoint contains_match (t : term) : bool :=
  match t with
  | Match _ => true
  | Tuple _ fs =>
      existsb (fun f => match f with
                        | TupleField _ (FChain (Chain mp _ ts)) => is_some mp || existsb contains_match ts
                        | TupleField _ (FSpread _) => false
                        end) fs
  | Select (Some cs) =>
      existsb (fun c => match c with Chain mp _ ts => is_some mp || existsb contains_match ts end) cs
  | _ => false
  end.

(* simplify.rs:213 is_frame_free_chain *)
Definition is_frame_free_chain (c : chain) : bool :=
  match c with Chain mp _ ts => negb (is_some mp) && negb (existsb contains_match ts) end.

(* simplify.rs:206 is_inlinable_chain *)
Definition is_inlinable_chain (c : chain) : bool :=
  negb (null (chain_terms c)) && is_frame_free_chain c && negb (has_nonfinal_tail_call (chain_terms c)).

(* simplify.rs:196 is_redundant_block, fused with the destructuring of strip_chain (l.96-98, 105-109):
   Some body  <->  is_redundant_block term, body = branches[0].condition.chains[0] *)
Definition redundant_body (t : term) : option chain :=
  match t with
  | Block (Expression [Branch (Sequence [c]) None]) => if is_inlinable_chain c then Some c else None
  | _ => None
  end.
Definition is_redundant_block (t : term) : bool := is_some (redundant_body t).

(* simplify.rs:221 is_liftable_block, fused with the destructuring at l.64-67 *)
Definition liftable_chains (t : term) : option (list chain) :=
  match t with
  | Block (Expression [Branch (Sequence cs) None]) =>
      if negb (null cs) && forallb is_frame_free_chain cs then Some cs else None
  | _ => None
  end.

(* simplify.rs:169 group_consequence (synthetic chain: Spanned::default() = no span) *)
Definition group_consequence (s : sequence) : sequence :=
  match s with Sequence cs =>
    if (1 <? Z.of_nat (length cs)) && forallb is_frame_free_chain cs
    then Sequence [Chain None None [Block (Expression [Branch (Sequence cs) None])]]
    else Sequence cs
  end.

(* simplify.rs:272 ends_in_tail_call (added by the F19 repair, commit e176e48): a tail call, or a redundant
   block (one that `keep` retained) whose body ends in one, looked through recursively:
     match term { Term::Block(e) if is_redundant_block(term) => e.branches[0].condition.chains[0].terms.last()
                                                                  .is_some_and(ends_in_tail_call),
                  term => is_tail_call(term) } *)
Fixpoint term_ends_in_tail_call (t : term) : bool :=
  match t with
  | Block (Expression [Branch (Sequence [Chain mp sp ts]) None]) =>
      if is_inlinable_chain (Chain mp sp ts)
      then (fix last_ends (l : list term) : bool :=
              match l with
              | [] => false
              | x :: r => match r with [] => term_ends_in_tail_call x | _ :: _ => last_ends r end
              end) ts
      else false        (* is_tail_call (Block _) *)
  | other => is_tail_call other
  end.

(* the `strip` decision of strip_chain (simplify.rs:94-104) for an already-simplified term *)
Definition last_term (ts : list term) : option term := last (map Some ts) None.
(* simplify.rs:95 `body.terms.last().is_some_and(ends_in_tail_call)` *)
Definition ends_in_tail_call (body : chain) : bool :=
  match last_term (chain_terms body) with Some t => term_ends_in_tail_call t | None => false end.
(* the test as it was before the repair (simplify.rs@488e7e3:95 `body.terms.last().is_some_and(is_tail_call)`) *)
Definition ends_in_tail_call_pre_repair (body : chain) : bool :=
  match last_term (chain_terms body) with Some t => is_tail_call t | None => false end.
Definition should_strip (o : options) (t : term) (is_last : bool) : option (list term) :=
  match redundant_body t with
  | Some body =>
      if negb (keep o body) && (negb (ends_in_tail_call body) || is_last)
      then Some (chain_terms body) else None
  | None => None
  end.

(* the body of the loop of strip_chain (simplify.rs:90-114) over already-simplified terms *)
Fixpoint splice (o : options) (ts : list term) : list term :=
  match ts with
  | [] => []
  | t :: r => match should_strip o t (null r) with
              | Some body_terms => body_terms ++ splice o r
              | None => t :: splice o r
              end
  end.

(* the lift decision of strip_sequence (simplify.rs:60-70) for an already-simplified chain *)
Definition should_lift (o : options) (c : chain) : option (list chain) :=
  if lift o then
    match c with
    | Chain None _ [t] => liftable_chains t
    | _ => None
    end
  else None.

Fixpoint lift_chains (o : options) (cs : list chain) : list chain :=
  match cs with
  | [] => []
  | c :: r => match should_lift o c with
              | Some inner => inner ++ lift_chains o r
              | None => c :: lift_chains o r
              end
  end.

(* simplify.rs:119 strip_term, :79 strip_chain, :54 strip_sequence, :148 strip_expression *)
Fixpoint strip_term (o : options) (t : term) : term :=
  match t with
  | Tuple n fs => Tuple n (map (strip_field o) fs)
  | Block e => Block (strip_expression o e)
  | String st segs => String st (map (strip_segment o) segs)
  | Function sg body => Function sg (match body with Some e => Some (strip_expression o e) | None => None end)
  | Spawn inner => Spawn (strip_term o inner)
  | Select (Some cs) => Select (Some (map (strip_chain o) cs))
  | other => other
  end
with strip_field (o : options) (f : tuple_field) : tuple_field :=
  match f with
  | TupleField n (FChain c) => TupleField n (FChain (strip_chain o c))
  | other => other
  end
with strip_segment (o : options) (g : str_segment) : str_segment :=
  match g with
  | Hole e => Hole (strip_expression o e)
  | text => text
  end
with strip_chain (o : options) (c : chain) : chain :=
  match c with Chain mp sp ts => Chain mp sp (splice o (map (strip_term o) ts)) end
with strip_sequence (o : options) (s : sequence) : sequence :=
  match s with Sequence cs => Sequence (lift_chains o (map (strip_chain o) cs)) end
with strip_branch (o : options) (b : branch) : branch :=
  match b with
  | Branch c k =>
      Branch (strip_sequence o c)
             (match k with
              | Some s => let s' := strip_sequence o s in
                          Some (if group_consequences o then group_consequence s' else s')
              | None => None
              end)
  end
with strip_expression (o : options) (e : expression) : expression :=
  match e with Expression bs => Expression (map (strip_branch o) bs) end.

(* simplify.rs:38 normalize_blocks *)
Definition normalize_blocks (p : program) (o : options) : program :=
  match p with Program stmts =>
    Program (map (fun s => match s with
                           | StmtExpression sq => StmtExpression (strip_sequence o sq)
                           | alias => alias
                           end) stmts)
  end.

(* the two option sets in use: compiler.rs:548 and format.rs:42 *)
Definition compiler_options : options := mkOptions (fun _ => false) true false.
Definition formatter_options (k : chain -> bool) : options := mkOptions k false true.
(* the formatter's closure `|chain| trivia.has_trivia(chain.span)`: a function of the span offset only *)
Definition keep_by_span (has_trivia : Z -> bool) (c : chain) : bool :=
  match chain_span c with Some off => has_trivia off | None => false end.
