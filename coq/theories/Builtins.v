(* Builtins.v — implementation-faithful models of the pure builtins registered in
   quiver-core/src/builtins/mod.rs (integer.rs, binary.rs, vector.rs).
   Each `impl_<name>` follows the Rust control flow: argument-shape checks first
   (TypeMismatch), then domain checks (InvalidArgument), then the computation on machine
   integers with explicit wrap. Panic sites are numbered; BuiltinProofs.v shows that none is
   reachable on well-formed arguments. *)
From Quiver Require Export Rope.

(* the slice of `Value` that builtins can inspect (tuple ids are ignored by every builtin) *)
Inductive bval :=
| BInt (z : Z)
| BBin (r : rope)
| BTup (fs : list bval)
| BOther.                      (* ref / function / builtin / process / resource *)

Definition bnil : bval := BTup [].

(* bigint_to_i64 / bigint_to_usize / bigint_to_u8 (mod.rs:14-31) *)
Definition to_i64_checked (z : Z) : outcome Z := if in_i64 z then Val z else Err InvalidArgument.
Definition to_usize_checked (z : Z) : outcome Z := if in_u64 z then Val z else Err InvalidArgument.
Definition to_u8_checked (z : Z) : outcome Z := if byteb z then Val z else Err InvalidArgument.

(* ---------------------------------------------------------------- integer.rs *)

(* extract_two_bigints (integer.rs:25) *)
Definition two_bigints (a : bval) : outcome (Z * Z) :=
  match a with
  | BTup fs =>
      match fs with
      | [x; y] =>
          match x with
          | BInt a => match y with BInt b => Val (a, b) | _ => Err TypeMismatch end
          | _ => Err TypeMismatch
          end
      | _ => Err InvalidArgument
      end
  | _ => Err TypeMismatch
  end.

(* extract_two_integers (integer.rs:66): each field narrowed to i64 as it is read *)
Definition two_i64 (a : bval) : outcome (Z * Z) :=
  match a with
  | BTup fs =>
      match fs with
      | [x; y] =>
          match x with
          | BInt a =>
              a' <- to_i64_checked a ;;
              match y with
              | BInt b => b' <- to_i64_checked b ;; Val (a', b')
              | _ => Err TypeMismatch
              end
          | _ => Err TypeMismatch
          end
      | _ => Err InvalidArgument
      end
  | _ => Err TypeMismatch
  end.

Definition impl_integer_abs (a : bval) : outcome bval :=
  match a with BInt n => Val (BInt (Z.abs n)) | _ => Err TypeMismatch end.

Definition impl_integer_sqrt (a : bval) : outcome bval :=
  match a with
  | BInt n => if n <? 0 then Err InvalidArgument else Val (BInt (Z.sqrt n))
  | _ => Err TypeMismatch
  end.

Definition impl_integer_add a := p <- two_bigints a ;; Val (BInt (fst p + snd p)).
Definition impl_integer_subtract a := p <- two_bigints a ;; Val (BInt (fst p - snd p)).
Definition impl_integer_multiply a := p <- two_bigints a ;; Val (BInt (fst p * snd p)).
Definition impl_integer_gcd a := p <- two_bigints a ;; Val (BInt (Z.gcd (fst p) (snd p))).
(* BigInt `/` and `%` truncate toward zero *)
Definition impl_integer_divide a :=
  p <- two_bigints a ;; if snd p =? 0 then Err InvalidArgument else Val (BInt (Z.quot (fst p) (snd p))).
Definition impl_integer_modulo a :=
  p <- two_bigints a ;; if snd p =? 0 then Err InvalidArgument else Val (BInt (Z.rem (fst p) (snd p))).
Definition impl_integer_compare a :=
  p <- two_bigints a ;;
  Val (BInt (match fst p ?= snd p with Lt => -1 | Gt => 1 | Eq => 0 end)).

(* bitwise family on i64 *)
Definition impl_integer_and a := p <- two_i64 a ;; Val (BInt (Z.land (fst p) (snd p))).
Definition impl_integer_or a := p <- two_i64 a ;; Val (BInt (Z.lor (fst p) (snd p))).
Definition impl_integer_xor a := p <- two_i64 a ;; Val (BInt (Z.lxor (fst p) (snd p))).
Definition impl_integer_not (a : bval) : outcome bval :=
  match a with
  | BInt n => n' <- to_i64_checked n ;; Val (BInt (Z.lnot n'))
  | _ => Err TypeMismatch
  end.

(* integer_shift (integer.rs:323): `value << k` on i64 wraps (no overflow check on shl);
   `value >> k` is arithmetic *)
Definition impl_integer_shift (a : bval) : outcome bval :=
  p <- two_i64 a ;;
  let value := fst p in let amount := snd p in
  if amount =? 0 then Val (BInt value)
  else
    let k := Z.abs amount in               (* unsigned_abs: 2^63 for i64::MIN *)
    if 64 <=? k then
      if 0 <? amount then Val (BInt 0) else Val (BInt (if 0 <=? value then 0 else -1))
    else if 0 <? amount then Val (BInt (to_i64 (Z.shiftl value k)))
    else Val (BInt (Z.shiftr value k)).

(* number of set bits of a non-negative number *)
Fixpoint pos_popcount (p : positive) : Z :=
  match p with xH => 1 | xO q => pos_popcount q | xI q => 1 + pos_popcount q end.
Definition popcount (z : Z) : Z := match z with Zpos p => pos_popcount p | _ => 0 end.

Definition impl_integer_popcount (a : bval) : outcome bval :=
  match a with
  | BInt n => n' <- to_i64_checked n ;; Val (BInt (popcount (wrap_u64 n')))
  | _ => Err TypeMismatch
  end.

(* ================================================================== shared helpers *)

(* Panic sites (explicit partiality of the Rust code; BinaryProofs.v / VectorProofs.v show that none
   is reachable when every argument binary is a well-formed rope):
     1  binary_concat   a.len() + b.len() overflows usize           (binary.rs:127)
     2  binary_or/xor   byte_at(i).unwrap()                          (binary.rs:221,226,271,276)
     3  binary_shift    bytes.len() as u64 * 8 overflows             (binary.rs:389)
     4  binary_shift    bytes[i + byte_shift] (aligned left)         (binary.rs:408)
     5  binary_shift    bytes[i + byte_shift] (carry left)           (binary.rs:416)
     6  binary_shift    slice bounds of the aligned right copy       (binary.rs:426)
     7  binary_shift    bytes[i - byte_shift] (carry right)          (binary.rs:433)
     8  binary_popcount u64 sum overflows                            (binary.rs:475)
     9  binary_get/set  byte_offset * 8 + bit_offset overflows       (binary.rs:539,645)
    10  binary_get/set  total_bit_start + num_bits overflows         (binary.rs:540,646)
    11  binary_get/set  last_byte_needed - byte_offset underflows    (binary.rs:552,674)
    12  binary_get/set  byte_at(byte_offset + i).unwrap()            (binary.rs:556,678)
    13  binary_get/set  bits_read - bit_offset - num_bits underflows (binary.rs:561,683)
    14  binary_get/set  u128 shift amount >= 128                     (binary.rs:563,687,690)
    15  binary_set      BinaryData::slice(..).unwrap()               (binary.rs:718,723,728,734)
    16  binary_append   left.len() + right.len() overflows (concat)  (binary.rs:68 via :928)
    20  vector lane     bytes[off..off + width] out of bounds        (vector.rs:25,26)
    21  vector_take     data[i*width..(i+1)*width] out of bounds     (vector.rs:214)
    22  vector_push     concat length overflows                      (binary.rs:68 via vector.rs:288) *)

Definition wrap_u128 (z : Z) : Z := z mod 2 ^ 128.
Definition in_u128 (z : Z) : bool := (0 <=? z) && (z <? 2 ^ 128).

(* 0, 1, ..., n-1 : the index sequence of `for i in 0..n` *)
Definition zrange (n : Z) : list Z := map Z.of_nat (seq 0 (Z.to_nat n)).

(* a loop body that may fail, mapped over the indices *)
Fixpoint omap {A B} (f : A -> outcome B) (l : list A) : outcome (list B) :=
  match l with
  | [] => Val []
  | x :: t => y <- f x ;; ys <- omap f t ;; Val (y :: ys)
  end.

(* a loop with mutable state that may fail *)
Fixpoint ofold {A S} (f : S -> A -> outcome S) (l : list A) (s : S) : outcome S :=
  match l with
  | [] => Val s
  | x :: t => s' <- f s x ;; ofold f t s'
  end.

(* Executor::allocate_binary_data (executor.rs:300): `data.len() > MAX_BINARY_SIZE` → InvalidArgument *)
Definition alloc (r : rope) : outcome bval :=
  if MAX_BINARY_SIZE <? rlen r then Err InvalidArgument else Val (BBin r).
(* Executor::allocate_binary (executor.rs:503) *)
Definition alloc_bytes (bs : list Z) : outcome bval := alloc (Owned bs).

(* usize::checked_mul *)
Definition checked_mul_usize (a b : Z) : option Z := if in_u64 (a * b) then Some (a * b) else None.

(* ---------------------------------------------------------------- builtins/binary.rs *)

(* builtin_binary_repeat (binary.rs:14) *)
Definition impl_binary_repeat (a : bval) : outcome bval :=
  match a with
  | BTup [BBin unit; BInt count] =>
      if count <? 0 then Err InvalidArgument else
      count <- to_usize_checked count ;;
      match checked_mul_usize (rlen unit) count with
      | None => Err InvalidArgument
      | Some total =>
          if MAX_BINARY_SIZE <? total then Err InvalidArgument
          else alloc (mk_tiled unit count)
      end
  | _ => Err TypeMismatch
  end.

(* builtin_binary_new (binary.rs:60) *)
Definition impl_binary_new (a : bval) : outcome bval :=
  match a with
  | BInt size =>
      if size <? 0 then Err InvalidArgument else
      size <- to_usize_checked size ;;
      if MAX_BINARY_SIZE <? size then Err InvalidArgument else alloc (Zeroed size)
  | _ => Err TypeMismatch
  end.

(* builtin_binary_length (binary.rs:95) *)
Definition impl_binary_length (a : bval) : outcome bval :=
  match a with
  | BBin r => Val (BInt (rlen r))
  | _ => Err TypeMismatch
  end.

(* builtin_binary_concat (binary.rs:116) *)
Definition impl_binary_concat (a : bval) : outcome bval :=
  match a with
  | BTup [BBin ra; BBin rb] =>
      let total := rlen ra + rlen rb in
      if negb (in_u64 total) then Panic 1 else
      if MAX_BINARY_SIZE <? total then Err InvalidArgument
      else alloc (mk_concat ra rb)
  | _ => Err TypeMismatch
  end.

Fixpoint zip_with (f : Z -> Z -> Z) (l1 l2 : list Z) : list Z :=
  match l1, l2 with
  | x :: t1, y :: t2 => f x y :: zip_with f t1 t2
  | _, _ => []
  end.

(* builtin_binary_and (binary.rs:163): iter().zip(iter()) — the shorter length *)
Definition impl_binary_and (a : bval) : outcome bval :=
  match a with
  | BTup [BBin ra; BBin rb] => alloc_bytes (zip_with Z.land (rope_iter ra) (rope_iter rb))
  | _ => Err TypeMismatch
  end.

(* `if i < len { data.byte_at(i).unwrap() } else { 0 }` *)
Definition padded_byte (r : rope) (len i : Z) : outcome Z :=
  if i <? len then match byte_at r i with Some b => Val b | None => Panic 2 end else Val 0.

Definition padded_op (op : Z -> Z -> Z) (ra rb : rope) : outcome bval :=
  let la := rlen ra in let lb := rlen rb in
  bs <- omap (fun i => x <- padded_byte ra la i ;; y <- padded_byte rb lb i ;; Val (op x y))
             (zrange (Z.max la lb)) ;;
  alloc_bytes bs.

(* builtin_binary_or (binary.rs:201), builtin_binary_xor (binary.rs:251) *)
Definition impl_binary_or (a : bval) : outcome bval :=
  match a with
  | BTup [BBin ra; BBin rb] => padded_op Z.lor ra rb
  | _ => Err TypeMismatch
  end.
Definition impl_binary_xor (a : bval) : outcome bval :=
  match a with
  | BTup [BBin ra; BBin rb] => padded_op Z.lxor ra rb
  | _ => Err TypeMismatch
  end.

(* builtin_binary_index (binary.rs:301) *)
Definition impl_binary_index (a : bval) : outcome bval :=
  match a with
  | BTup [BBin r; BInt byte; BInt off] =>
      byte <- to_u8_checked byte ;;
      if off <? 0 then Err InvalidArgument else
      off <- to_usize_checked off ;;
      match find_byte r byte off with
      | Some i => Val (BInt i)
      | None => Val bnil
      end
  | _ => Err TypeMismatch
  end.

(* builtin_binary_not (binary.rs:341): `!byte` on u8 *)
Definition impl_binary_not (a : bval) : outcome bval :=
  match a with
  | BBin r => alloc_bytes (map (fun b => 255 - b) (rope_iter r))
  | _ => Err TypeMismatch
  end.

(* the four loops of builtin_binary_shift (binary.rs:402-439) *)
Definition shl_aligned (bytes : list Z) (len byte_shift : Z) : outcome (list Z) :=
  omap (fun i => if i + byte_shift <? len
                 then match nth_error bytes (Z.to_nat (i + byte_shift)) with
                      | Some b => Val b | None => Panic 4 end
                 else Val 0) (zrange len).

(* `for i in (0..len).rev()`: state = (carry, suffix of result already written) *)
Definition shl_carry (bytes : list Z) (len byte_shift bit_shift : Z) : outcome (list Z) :=
  st <- ofold (fun (st : Z * list Z) i =>
                 let (carry, acc) := st in
                 if i + byte_shift <? len
                 then match nth_error bytes (Z.to_nat (i + byte_shift)) with
                      | Some src => Val (Z.shiftr src (8 - bit_shift),
                                         Z.lor (wrap_u8 (Z.shiftl src bit_shift)) carry :: acc)
                      | None => Panic 5 end
                 else Val (carry, 0 :: acc))
              (rev (zrange len)) (0, []) ;;
  Val (snd st).

Definition shr_aligned (bytes : list Z) (len byte_shift : Z) : outcome (list Z) :=
  if len <? byte_shift then Panic 6
  else Val (repeat 0 (Z.to_nat byte_shift) ++ firstn (Z.to_nat (len - byte_shift)) bytes).

(* `for i in 0..len`: state = (carry, reversed prefix of result already written) *)
Definition shr_carry (bytes : list Z) (len byte_shift bit_shift : Z) : outcome (list Z) :=
  st <- ofold (fun (st : Z * list Z) i =>
                 let (carry, acc) := st in
                 if byte_shift <=? i
                 then match nth_error bytes (Z.to_nat (i - byte_shift)) with
                      | Some src => Val (wrap_u8 (Z.shiftl src (8 - bit_shift)),
                                         Z.lor (Z.shiftr src bit_shift) carry :: acc)
                      | None => Panic 7 end
                 else Val (carry, 0 :: acc))
              (zrange len) (0, []) ;;
  Val (rev (snd st)).

(* builtin_binary_shift (binary.rs:368) *)
Definition impl_binary_shift (a : bval) : outcome bval :=
  match a with
  | BTup [BBin r; BInt amount] =>
      amount <- to_i64_checked amount ;;
      if amount =? 0 then Val (BBin r)                 (* the same binary handle *)
      else
        let bytes := bytes_of r in                     (* to_vec *)
        let len := Z.of_nat (length bytes) in
        let shift_bits := Z.abs amount in              (* unsigned_abs: u64 *)
        if negb (in_u64 (len * 8)) then Panic 3 else
        if len * 8 <=? shift_bits then alloc_bytes (repeat 0 (length bytes))
        else
          let sb := wrap_u32 shift_bits in             (* `as u32` *)
          let byte_shift := sb / 8 in
          let bit_shift := sb mod 8 in
          res <- (if 0 <? amount
                  then if bit_shift =? 0 then shl_aligned bytes len byte_shift
                       else shl_carry bytes len byte_shift bit_shift
                  else if bit_shift =? 0 then shr_aligned bytes len byte_shift
                       else shr_carry bytes len byte_shift bit_shift) ;;
          alloc_bytes res
  | _ => Err TypeMismatch
  end.

(* builtin_binary_popcount (binary.rs:462): u8::count_ones summed into a u64 *)
Definition impl_binary_popcount (a : bval) : outcome bval :=
  match a with
  | BBin r =>
      let count := fold_left (fun acc b => acc + popcount b) (rope_iter r) 0 in
      if in_u64 count then Val (BInt count) else Panic 8
  | _ => Err TypeMismatch
  end.

(* the common prefix of builtin_binary_get / builtin_binary_set: argument narrowing, range checks
   and the byte window [byte_offset, last_byte_needed). Returns (byte_offset, bit_offset, num_bits,
   last_byte_needed, bytes_in_window, bits_after). *)
Definition bit_window (len bo bi nb : Z) : outcome (Z * Z * Z * Z * Z * Z) :=
  bo <- to_i64_checked bo ;;
  bi <- to_i64_checked bi ;;
  nb <- to_i64_checked nb ;;
  if bo <? 0 then Err InvalidArgument else
  if negb ((0 <=? bi) && (bi <=? 7)) then Err InvalidArgument else
  if negb ((1 <=? nb) && (nb <=? 64)) then Err InvalidArgument else
  if len <? bo then Err InvalidArgument else
  let tbs := bo * 8 + bi in
  if negb (in_u64 tbs) then Panic 9 else
  let tbe := tbs + nb in
  if negb (in_u64 tbe) then Panic 10 else
  let last := (tbe + 7) / 8 in                       (* div_ceil(8) *)
  if len <? last then Err InvalidArgument else
  let nbytes := last - bo in
  if nbytes <? 0 then Panic 11 else
  let bits_after := nbytes * 8 - bi - nb in
  if bits_after <? 0 then Panic 13 else
  if 128 <=? bits_after then Panic 14 else
  Val (bo, bi, nb, last, nbytes, bits_after).

(* `for i in 0..n { value = (value << 8) | byte_at(byte_offset + i).unwrap() as u128 }` *)
Definition read_window (r : rope) (bo nbytes : Z) : outcome Z :=
  ofold (fun v i => match byte_at r (bo + i) with
                    | Some b => Val (Z.lor (wrap_u128 (Z.shiftl v 8)) b)
                    | None => Panic 12 end) (zrange nbytes) 0.

(* builtin_binary_get (binary.rs:491) *)
Definition impl_binary_get (a : bval) : outcome bval :=
  match a with
  | BTup [BBin r; BInt bo; BInt bi; BInt nb] =>
      w <- bit_window (rlen r) bo bi nb ;;
      let '(bo, bi, nb, last, nbytes, bits_after) := w in
      value <- read_window r bo nbytes ;;
      let value := Z.shiftr value bits_after in
      let mask := wrap_u128 (Z.shiftl 1 nb) - 1 in
      Val (BInt (wrap_u64 (Z.land value mask)))
  | _ => Err TypeMismatch
  end.

(* builtin_binary_set (binary.rs:589) *)
Definition impl_binary_set (a : bval) : outcome bval :=
  match a with
  | BTup [BBin r; BInt bo; BInt bi; BInt value; BInt nb] =>
      let len := rlen r in
      w <- bit_window len bo bi nb ;;
      let '(bo, bi, nb, last, nbytes, bits_after) := w in
      let max_value := if nb =? 64 then two64 - 1 else Z.shiftl 1 nb - 1 in
      value <- to_i64_checked value ;;
      if (value <? 0) || (max_value <? value) then Err InvalidArgument else
      current <- read_window r bo nbytes ;;          (* modified_bytes folded big-endian *)
      let shifted_value := wrap_u128 (Z.shiftl value bits_after) in
      let target_mask := wrap_u128 (Z.shiftl (wrap_u128 (Z.shiftl 1 nb) - 1) bits_after) in
      let mask := 2 ^ 128 - 1 - target_mask in       (* `!target_mask` on u128 *)
      let new_value := Z.lor (Z.land current mask) shifted_value in
      let new_bytes := map (fun i => Z.land (Z.shiftr new_value (i * 8)) 255) (rev (zrange nbytes)) in
      let mid := Owned new_bytes in
      res <- (if (bo =? 0) && (last =? len) then Val mid
              else if bo =? 0 then
                match mk_slice r last (len - last) with
                | Some rgt => Val (mk_concat mid rgt) | None => Panic 15 end
              else if last =? len then
                match mk_slice r 0 bo with
                | Some lft => Val (mk_concat lft mid) | None => Panic 15 end
              else
                match mk_slice r 0 bo, mk_slice r last (len - last) with
                | Some lft, Some rgt => Val (mk_concat (mk_concat lft mid) rgt)
                | _, _ => Panic 15 end) ;;
      alloc res
  | _ => Err TypeMismatch
  end.

(* builtin_binary_slice (binary.rs:762) *)
Definition impl_binary_slice (a : bval) : outcome bval :=
  match a with
  | BTup [BBin r; BInt s; BInt e] =>
      if (s <? 0) || (e <? 0) then Err InvalidArgument else
      s <- to_usize_checked s ;;
      e <- to_usize_checked e ;;
      let len := rlen r in
      if (len <? s) || (len <? e) then Err InvalidArgument else
      if e <? s then Err InvalidArgument else
      match mk_slice r s (e - s) with
      | Some x => alloc x
      | None => Err InvalidArgument
      end
  | _ => Err TypeMismatch
  end.

(* builtin_binary_hash32 (binary.rs:823): FNV-1a, u32 wrapping_mul *)
Definition impl_binary_hash32 (a : bval) : outcome bval :=
  match a with
  | BBin r => Val (BInt (fold_left (fun h b => wrap_u32 (Z.lxor h b * 16777619)) (rope_iter r) 2166136261))
  | _ => Err TypeMismatch
  end.

(* builtin_binary_hash64 (binary.rs:848): FNV-1a, u64 wrapping_mul, `hash as i64` *)
Definition impl_binary_hash64 (a : bval) : outcome bval :=
  match a with
  | BBin r =>
      Val (BInt (to_i64 (fold_left (fun h b => wrap_u64 (Z.lxor h b * 1099511628211)) (rope_iter r)
                                   14695981039346656037)))
  | _ => Err TypeMismatch
  end.

(* builtin_binary_append (binary.rs:879) *)
Definition impl_binary_append (a : bval) : outcome bval :=
  match a with
  | BTup [BBin r; BInt value; BInt num_bytes] =>
      num_bytes <- to_i64_checked num_bytes ;;
      if negb ((1 <=? num_bytes) && (num_bytes <=? 8)) then Err InvalidArgument else
      if value <? 0 then Err InvalidArgument else
      value <- to_i64_checked value ;;               (* then `as u64`: value >= 0 here *)
      let max_value := if num_bytes =? 8 then two64 - 1 else Z.shiftl 1 (num_bytes * 8) - 1 in
      if max_value <? value then Err InvalidArgument else
      let new_bytes := map (fun i => Z.land (Z.shiftr value (i * 8)) 255) (rev (zrange num_bytes)) in
      if negb (in_u64 (rlen r + num_bytes)) then Panic 16 else
      alloc (mk_concat r (Owned new_bytes))
  | _ => Err TypeMismatch
  end.

(* ---------------------------------------------------------------- builtins/vector.rs *)

(* little-endian value of a byte slice *)
Fixpoint le_val (bs : list Z) : Z :=
  match bs with [] => 0 | b :: t => b + 256 * le_val t end.
(* iN::from_le_bytes: two's-complement reinterpretation of a residue mod 2^bits *)
Definition to_signed (bits v : Z) : Z := if v <? 2 ^ (bits - 1) then v else v - 2 ^ bits.
(* (value as iN).to_le_bytes() *)
Fixpoint le_bytes (n : nat) (v : Z) : list Z :=
  match n with O => [] | S k => v mod 256 :: le_bytes k (v / 256) end.

(* lane (vector.rs:22): `bytes[off..off + width]` panics when out of bounds *)
Definition lane (bytes : list Z) (w i : Z) : outcome Z :=
  let chunk := firstn (Z.to_nat w) (skipn (Z.to_nat (i * w)) bytes) in
  if Z.of_nat (length chunk) =? w then Val (to_signed (8 * w) (le_val chunk)) else Panic 20.

(* fits (vector.rs:32) *)
Definition fits (v w : Z) : bool :=
  if w =? 4 then (- 2 ^ 31 <=? v) && (v <? 2 ^ 31) else if w =? 8 then true else false.

(* push_lane (vector.rs:41) *)
Definition push_lane (w v : Z) : list Z := le_bytes (Z.to_nat w) (v mod 2 ^ (8 * w)).

(* checked_width (vector.rs:50) *)
Definition checked_width (w : Z) : outcome Z :=
  w <- to_i64_checked w ;;
  if (w =? 4) || (w =? 8) then Val w else Err InvalidArgument.

(* i64::checked_add / checked_sub / checked_mul *)
Definition checked_i64 (op : Z -> Z -> Z) (x y : Z) : option Z :=
  if in_i64 (op x y) then Some (op x y) else None.

(* elementwise (vector.rs:68); None = the nil result *)
Fixpoint elementwise_loop (op : Z -> Z -> option Z) (a b : list Z) (w : Z) (idxs : list Z) (out : list Z)
  : outcome (option (list Z)) :=
  match idxs with
  | [] => Val (Some out)
  | i :: rest =>
      x <- lane a w i ;;
      y <- lane b w i ;;
      match op x y with
      | Some v => if fits v w then elementwise_loop op a b w rest (out ++ push_lane w v)
                  else Val None
      | None => Val None
      end
  end.

Definition elementwise (op : Z -> Z -> option Z) (arg : bval) : outcome bval :=
  match arg with
  | BTup [BBin ra; BBin rb; BInt w] =>
      w <- checked_width w ;;
      let a := bytes_of ra in let b := bytes_of rb in          (* materialize *)
      let la := Z.of_nat (length a) in let lb := Z.of_nat (length b) in
      if negb (la =? lb) || negb (la mod w =? 0) then Val bnil else
      res <- elementwise_loop op a b w (zrange (la / w)) [] ;;
      match res with
      | Some out => alloc_bytes out
      | None => Val bnil
      end
  | _ => Err TypeMismatch
  end.

Definition impl_vector_add := elementwise (checked_i64 Z.add).
Definition impl_vector_subtract := elementwise (checked_i64 Z.sub).
Definition impl_vector_multiply := elementwise (checked_i64 Z.mul).

(* compare (vector.rs:131) *)
Definition compare_kernel (pred : Z -> Z -> bool) (arg : bval) : outcome bval :=
  match arg with
  | BTup [BBin ra; BBin rb; BInt w] =>
      w <- checked_width w ;;
      let a := bytes_of ra in let b := bytes_of rb in
      let la := Z.of_nat (length a) in let lb := Z.of_nat (length b) in
      if negb (la =? lb) || negb (la mod w =? 0) then Val bnil else
      out <- omap (fun i => x <- lane a w i ;; y <- lane b w i ;; Val (if pred x y then 1 else 0))
                  (zrange (la / w)) ;;
      alloc_bytes out
  | _ => Err TypeMismatch
  end.

Definition impl_vector_less_than := compare_kernel Z.ltb.
Definition impl_vector_equal := compare_kernel Z.eqb.
Definition impl_vector_greater_than := compare_kernel Z.gtb.

(* builtin_vector_take (vector.rs:191) *)
Definition impl_vector_take (arg : bval) : outcome bval :=
  match arg with
  | BTup [BBin rd; BInt w; BBin rm] =>
      w <- checked_width w ;;
      let data := bytes_of rd in let mask := bytes_of rm in
      let ld := Z.of_nat (length data) in let lm := Z.of_nat (length mask) in
      if negb (ld mod w =? 0) || negb (lm =? ld / w) then Val bnil else
      chunks <- omap (fun (p : Z * Z) =>
                        let (i, selected) := p in
                        if selected =? 0 then Val []
                        else let chunk := firstn (Z.to_nat w) (skipn (Z.to_nat (i * w)) data) in
                             if Z.of_nat (length chunk) =? w then Val chunk else Panic 21)
                     (combine (zrange lm) mask) ;;
      alloc_bytes (concat chunks)
  | _ => Err TypeMismatch
  end.

Definition sat_u64 (z : Z) : Z := Z.min z (two64 - 1).

(* builtin_vector_get (vector.rs:224) *)
Definition impl_vector_get (arg : bval) : outcome bval :=
  match arg with
  | BTup [BBin r; BInt w; BInt index] =>
      w <- checked_width w ;;
      let bytes := bytes_of r in
      let len := Z.of_nat (length bytes) in
      if in_u64 index &&
         ((len mod w =? 0) && (sat_u64 (sat_u64 (index + 1) * w) <=? len))
      then v <- lane bytes w index ;; Val (BInt v)
      else Val bnil
  | _ => Err TypeMismatch
  end.

(* builtin_vector_push (vector.rs:255) *)
Definition impl_vector_push (arg : bval) : outcome bval :=
  match arg with
  | BTup [BBin r; BInt w; BInt value] =>
      w <- checked_width w ;;
      if negb (in_i64 value && fits value w) then Val bnil else
      let old_len := rlen r in
      if negb (old_len mod w =? 0) then Val bnil else
      let lane_rope := Owned (push_lane w value) in
      if old_len =? 0 then alloc lane_rope
      else if negb (in_u64 (old_len + w)) then Panic 22
      else alloc (mk_concat r lane_rope)
  | _ => Err TypeMismatch
  end.

(* builtin_vector_sum (vector.rs:296) *)
Definition impl_vector_sum (arg : bval) : outcome bval :=
  match arg with
  | BTup [BBin r; BInt w] =>
      w <- checked_width w ;;
      let bytes := bytes_of r in
      let len := Z.of_nat (length bytes) in
      if negb (len mod w =? 0) then Val bnil else
      acc <- ofold (fun acc i => x <- lane bytes w i ;; Val (acc + x)) (zrange (len / w)) 0 ;;
      Val (BInt acc)
  | _ => Err TypeMismatch
  end.

(* builtin_vector_dot (vector.rs:322) *)
Definition impl_vector_dot (arg : bval) : outcome bval :=
  match arg with
  | BTup [BBin ra; BBin rb; BInt w] =>
      w <- checked_width w ;;
      let a := bytes_of ra in let b := bytes_of rb in
      let la := Z.of_nat (length a) in let lb := Z.of_nat (length b) in
      if negb (la =? lb) || negb (la mod w =? 0) then Val bnil else
      acc <- ofold (fun acc i => x <- lane a w i ;; y <- lane b w i ;; Val (acc + x * y))
                   (zrange (la / w)) 0 ;;
      Val (BInt acc)
  | _ => Err TypeMismatch
  end.
