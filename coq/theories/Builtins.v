(* Builtins.v — implementation-faithful models of the pure builtins registered in
   quiver-core/src/builtins/mod.rs (integer.rs, binary.rs, vector.rs).
   Each `impl_<name>` follows the Rust control flow: argument-shape checks first
   (TypeMismatch), then domain checks (InvalidArgument), then the computation on machine
   integers with explicit wrap. Panic sites are numbered; BuiltinProofs.v shows that none is
   reachable on well-formed arguments. *)
From Quiver Require Export Rope.
From Coq Require Import String.

(* the slice of `Value` that builtins can inspect (tuple ids are ignored by every builtin) *)
Inductive bval :=
| BInt (z : Z)
| BBin (r : rope)
| BTup (fs : list bval)
| BOther.                      (* ref / function / builtin / process / resource *)

Definition bnil : bval := BTup [].

(* bigint_to_i64 / bigint_to_usize / bigint_to_u8 (mod.rs:14-31) *)
Definition to_i64_checked (z : Z) : outcome Z := if in_i64 z then Val z else Err InvalidArgument.
Definition to_usize_checked (z : Z) : outcome Z := if in_u64 z then Val z else Err InvalidArgument.
Definition to_u8_checked (z : Z) : outcome Z := if byteb z then Val z else Err InvalidArgument.

(* ---------------------------------------------------------------- integer.rs *)

(* extract_two_bigints (integer.rs:25) *)
Definition two_bigints (a : bval) : outcome (Z * Z) :=
  match a with
  | BTup fs =>
      match fs with
      | [x; y] =>
          match x with
          | BInt a => match y with BInt b => Val (a, b) | _ => Err TypeMismatch end
          | _ => Err TypeMismatch
          end
      | _ => Err InvalidArgument
      end
  | _ => Err TypeMismatch
  end.

(* extract_two_integers (integer.rs:66): each field narrowed to i64 as it is read *)
Definition two_i64 (a : bval) : outcome (Z * Z) :=
  match a with
  | BTup fs =>
      match fs with
      | [x; y] =>
          match x with
          | BInt a =>
              a' <- to_i64_checked a ;;
              match y with
              | BInt b => b' <- to_i64_checked b ;; Val (a', b')
              | _ => Err TypeMismatch
              end
          | _ => Err TypeMismatch
          end
      | _ => Err InvalidArgument
      end
  | _ => Err TypeMismatch
  end.

Definition impl_integer_abs (a : bval) : outcome bval :=
  match a with BInt n => Val (BInt (Z.abs n)) | _ => Err TypeMismatch end.

Definition impl_integer_sqrt (a : bval) : outcome bval :=
  match a with
  | BInt n => if n <? 0 then Err InvalidArgument else Val (BInt (Z.sqrt n))
  | _ => Err TypeMismatch
  end.

Definition impl_integer_add a := p <- two_bigints a ;; Val (BInt (fst p + snd p)).
Definition impl_integer_subtract a := p <- two_bigints a ;; Val (BInt (fst p - snd p)).
Definition impl_integer_multiply a := p <- two_bigints a ;; Val (BInt (fst p * snd p)).
Definition impl_integer_gcd a := p <- two_bigints a ;; Val (BInt (Z.gcd (fst p) (snd p))).
(* BigInt `/` and `%` truncate toward zero *)
Definition impl_integer_divide a :=
  p <- two_bigints a ;; if snd p =? 0 then Err InvalidArgument else Val (BInt (Z.quot (fst p) (snd p))).
Definition impl_integer_modulo a :=
  p <- two_bigints a ;; if snd p =? 0 then Err InvalidArgument else Val (BInt (Z.rem (fst p) (snd p))).
Definition impl_integer_compare a :=
  p <- two_bigints a ;;
  Val (BInt (match fst p ?= snd p with Lt => -1 | Gt => 1 | Eq => 0 end)).

(* bitwise family on i64 *)
Definition impl_integer_and a := p <- two_i64 a ;; Val (BInt (Z.land (fst p) (snd p))).
Definition impl_integer_or a := p <- two_i64 a ;; Val (BInt (Z.lor (fst p) (snd p))).
Definition impl_integer_xor a := p <- two_i64 a ;; Val (BInt (Z.lxor (fst p) (snd p))).
Definition impl_integer_not (a : bval) : outcome bval :=
  match a with
  | BInt n => n' <- to_i64_checked n ;; Val (BInt (Z.lnot n'))
  | _ => Err TypeMismatch
  end.

(* integer_shift (integer.rs:323): `value << k` on i64 wraps (no overflow check on shl);
   `value >> k` is arithmetic *)
Definition impl_integer_shift (a : bval) : outcome bval :=
  p <- two_i64 a ;;
  let value := fst p in let amount := snd p in
  if amount =? 0 then Val (BInt value)
  else
    let k := Z.abs amount in               (* unsigned_abs: 2^63 for i64::MIN *)
    if 64 <=? k then
      if 0 <? amount then Val (BInt 0) else Val (BInt (if 0 <=? value then 0 else -1))
    else if 0 <? amount then Val (BInt (to_i64 (Z.shiftl value k)))
    else Val (BInt (Z.shiftr value k)).

(* number of set bits of a non-negative number *)
Fixpoint pos_popcount (p : positive) : Z :=
  match p with xH => 1 | xO q => pos_popcount q | xI q => 1 + pos_popcount q end.
Definition popcount (z : Z) : Z := match z with Zpos p => pos_popcount p | _ => 0 end.

Definition impl_integer_popcount (a : bval) : outcome bval :=
  match a with
  | BInt n => n' <- to_i64_checked n ;; Val (BInt (popcount (wrap_u64 n')))
  | _ => Err TypeMismatch
  end.
