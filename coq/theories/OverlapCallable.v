(* OverlapCallable.v — overlap_complete on the cycle-free fragment WITH callable and process types,
   for the model variants that contain the F25 repair (ANY mode: two callable types, and two process
   types, always overlap): a `false` of types_overlap is a proof of disjointness for ints, bins, refs,
   resources, tuples, unions, callables and processes.  Same proof as OverlapProofs.v with two more
   shapes (a callable never shares a value with a non-callable, a process with a non-process). *)
From Quiver Require Import Base Types Rel Sem SemProofs RelProofs OverlapProofs.
From Coq Require Import Arith Lia.
Close Scope Z_scope.
Open Scope nat_scope.

Section OverlapC.
  Variable cfg : rel_cfg.
  Variable P : registry.

  Inductive FOc : nat -> Prop :=
  | FOc_int : forall t, lookup_type P t = Some TInteger -> FOc t
  | FOc_bin : forall t, lookup_type P t = Some TBinary -> FOc t
  | FOc_ref : forall t, lookup_type P t = Some TReference -> FOc t
  | FOc_res : forall t r, lookup_type P t = Some (TResource r) -> FOc t
  | FOc_union : forall t vs, lookup_type P t = Some (TUnion vs) -> (forall u, In u vs -> FOc u) -> FOc t
  | FOc_tuple : forall t tid info, lookup_type P t = Some (TTuple tid) -> lookup_tuple P tid = Some info ->
      (forall f, In f (tfields info) -> FOc (snd f)) -> FOc t
  | FOc_callable : forall t p r rc, lookup_type P t = Some (TCallable p r rc) -> FOc t
  | FOc_process : forall t s r, lookup_type P t = Some (TProcess s r) -> FOc t.

  Hypothesis Hany : cfg_any_callable cfg = true.

  Definition disjoint_c (s p : nat) : Prop :=
    forall n E1 E2 v, inhab P n E1 v s -> inhab P n E2 v p -> False.

  Ltac inv H := inversion H; subst; clear H.
  Ltac lk := match goal with
             | H1 : lookup_type P ?t = Some _, H2 : lookup_type P ?t = Some _ |- _ =>
               rewrite H1 in H2; inv H2
             | H1 : lookup_tuple P ?t = Some _, H2 : lookup_tuple P ?t = Some _ |- _ =>
               rewrite H1 in H2; inv H2
             end.
  (* two memberships of one value whose head constructors / lookups cannot both hold *)
  Ltac clash := let n := fresh "n" in let H1 := fresh "H1" in let H2 := fresh "H2" in
    intros n ? ? ? H1 H2; destruct n; [contradiction|]; cbn [inhab] in H1, H2;
    inversion H1; subst; repeat lk; inversion H2; subst; repeat lk.

  Lemma disjoint_union_left_c s vs p :
    lookup_type P s = Some (TUnion vs) -> (forall v, In v vs -> disjoint_c v p) -> disjoint_c s p.
  Proof.
    intros Hs Hall n E1 E2 v H1 H2. destruct n; [contradiction|]. cbn [inhab] in H1. inv H1; repeat lk.
    eapply (Hall u) with (n := S n); [assumption|cbn [inhab]; eassumption|exact H2].
  Qed.

  Lemma disjoint_union_right_c s vs p :
    lookup_type P p = Some (TUnion vs) -> (forall v, In v vs -> disjoint_c s v) -> disjoint_c s p.
  Proof.
    intros Hp Hall n E1 E2 v H1 H2. destruct n; [contradiction|]. cbn [inhab] in H2. inv H2; repeat lk.
    eapply (Hall u) with (n := S n); [assumption|exact H1|cbn [inhab]; eassumption].
  Qed.

  Definition fields_disjoint_c (f1 f2 : list (option nat * nat)) : Prop :=
    forall m E1 E2 vs, Forall2 (field_ok (inhab P m E1)) f1 vs -> Forall2 (field_ok (inhab P m E2)) f2 vs -> False.

  Lemma disjoint_tuple_c s p id1 id2 i1 i2 :
    lookup_type P s = Some (TTuple id1) -> lookup_type P p = Some (TTuple id2) ->
    lookup_tuple P id1 = Some i1 -> lookup_tuple P id2 = Some i2 ->
    (tname i1 <> tname i2 \/ length (tfields i1) <> length (tfields i2) \/ fields_disjoint_c (tfields i1) (tfields i2)) ->
    disjoint_c s p.
  Proof.
    intros Hs Hp H1 H2 Hd. clash.
    destruct Hd as [Hn|[Hl|Hf]].
    - congruence.
    - repeat match goal with Ha : Forall2 _ _ _ |- _ => apply Forall2_len in Ha end. apply Hl. congruence.
    - eapply Hf; eassumption.
  Qed.

  Section Iter.
    Variable rec : assumptions -> list nat -> list nat -> nat -> nat -> res.
    Hypothesis HRD : forall A ss ps s p A1, FOc s -> FOc p -> rec A ss ps s p = Some (false, A1) -> disjoint_c s p.

    Lemma any_left_false_c p : FOc p -> forall vs A ss ps A1,
      (forall v, In v vs -> FOc v) -> any_left rec A ss ps vs p = Some (false, A1) ->
      forall v, In v vs -> disjoint_c v p.
    Proof.
      intros Hp. induction vs as [|v vs IH]; intros A ss ps A1 Hvs H u Hu; [destruct Hu|]. cbn in H.
      destruct (rec A ss ps v p) as [[b' A']|] eqn:Hrec; [|discriminate].
      destruct b'; [discriminate|].
      destruct Hu as [<-|Hu].
      - eapply HRD; [apply Hvs; left; reflexivity|exact Hp|exact Hrec].
      - eapply IH; [intros w Hw; apply Hvs; right; exact Hw|exact H|exact Hu].
    Qed.

    Lemma any_right_false_c s : FOc s -> forall vs A ss ps A1,
      (forall v, In v vs -> FOc v) -> any_right rec A ss ps s vs = Some (false, A1) ->
      forall v, In v vs -> disjoint_c s v.
    Proof.
      intros Hs. induction vs as [|v vs IH]; intros A ss ps A1 Hvs H u Hu; [destruct Hu|]. cbn in H.
      destruct (rec A ss ps s v) as [[b' A']|] eqn:Hrec; [|discriminate].
      destruct b'; [discriminate|].
      destruct Hu as [<-|Hu].
      - eapply HRD; [exact Hs|apply Hvs; left; reflexivity|exact Hrec].
      - eapply IH; [intros w Hw; apply Hvs; right; exact Hw|exact H|exact Hu].
    Qed.

    Lemma tuple_fields_false_c : forall f1 f2 A ss ps A1,
      (forall a, In a f1 -> FOc (snd a)) -> (forall a, In a f2 -> FOc (snd a)) ->
      tuple_fields rec A ss ps f1 f2 = Some (false, A1) -> fields_disjoint_c f1 f2.
    Proof.
      induction f1 as [|[n1 t1] f1 IH]; intros [|[n2 t2] f2] A ss ps A1 H1 H2 H; cbn in H; try discriminate.
      intros m E1 E2 vs Ha Hb. inv Ha. inv Hb.
      repeat match goal with Hok : field_ok _ _ _ |- _ => destruct Hok as [? ?] end. cbn in *.
      destruct (opt_eqb n1 n2) eqn:Hn.
      - destruct (rec A ss ps t1 t2) as [[b' A']|] eqn:Hrec; [|discriminate].
        destruct b'.
        + eapply (IH f2 A' ss ps A1); [intros a Hin; apply H1; right; exact Hin|intros a Hin; apply H2; right; exact Hin
                                        |exact H|eassumption|eassumption].
        + eapply (HRD _ _ _ _ _ _ (H1 (n1, t1) (or_introl eq_refl)) (H2 (n2, t2) (or_introl eq_refl)) Hrec); eassumption.
      - assert (Hnn : n1 = n2) by congruence. rewrite Hnn in Hn. destruct n2; cbn in Hn; [rewrite Nat.eqb_refl in Hn|]; discriminate.
    Qed.
  End Iter.

  Lemma retract_false_c mark r A1 : retract cfg mark r = Some (false, A1) -> exists A2, r = Some (false, A2).
  Proof.
    unfold retract. destruct r as [[b A2]|]; [|discriminate]. destruct b; [discriminate|]. intros _. eauto.
  Qed.

  Lemma overlap_false_disjoint_c : forall fuel A ss ps s p A1,
    FOc s -> FOc p -> check_rel cfg P Any fuel A ss ps s p = Some (false, A1) -> disjoint_c s p.
  Proof.
    induction fuel as [|f IH]; intros A ss ps s p A1 Hs Hp H; [discriminate|].
    cbn [check_rel] in H. unfold step in H.
    destruct (Nat.eqb s p) eqn:Heq; [discriminate|].
    destruct (assumed A (s, p)) eqn:Has; [discriminate|].
    inversion Hs as [? Hls|? Hls|? Hls|? ? Hls|? vs Hls Hvs|? tid1 info1 Hls Hlt1 Hfs1|? cp1 cr1 cc1 Hls|? ps1 pr1 Hls]; subst;
    inversion Hp as [? Hlp|? Hlp|? Hlp|? ? Hlp|? ws Hlp Hws|? tid2 info2 Hlp Hlt2 Hfs2|? cp2 cr2 cc2 Hlp|? ps2 pr2 Hlp]; subst;
    rewrite Hls, Hlp in H; cbn in H; rewrite ?Hany in H; cbn in H;
    try (destruct vs as [|v0 vs]; cbn in H);
    try discriminate;
    try (clash; fail).
    (* resource / resource with different names *)
    all: try (match goal with Hr : Some (?r =? ?r0, _) = Some _ |- _ =>
                destruct (r =? r0) eqn:Hrr; [discriminate|]; apply Nat.eqb_neq in Hrr; clash; congruence end; fail).
    (* empty union on the left *)
    all: try (eapply disjoint_union_left_c; [exact Hls|intros ? []]; fail).
    (* union on the left *)
    all: try (apply retract_false_c in H; destruct H as [A2 H];
              eapply disjoint_union_left_c; [exact Hls|];
              eapply (any_left_false_c (check_rel cfg P Any f) IH p Hp (v0 :: vs)); [exact Hvs|exact H]; fail).
    (* union on the right *)
    all: try (apply retract_false_c in H; destruct H as [A2 H];
              eapply disjoint_union_right_c; [exact Hlp|];
              eapply (any_right_false_c (check_rel cfg P Any f) IH s Hs ws); [exact Hws|exact H]; fail).
    (* tuple / tuple *)
    destruct (tid1 =? tid2) eqn:Ht; [discriminate|].
    rewrite Hlt1, Hlt2 in H.
    destruct (opt_eqb (tname info1) (tname info2)) eqn:Hn; cbn in H.
    - destruct (length (tfields info1) =? length (tfields info2)) eqn:Hlen.
      + eapply disjoint_tuple_c; [exact Hls|exact Hlp|exact Hlt1|exact Hlt2|right; right].
        eapply (tuple_fields_false_c (check_rel cfg P Any f) IH); [exact Hfs1|exact Hfs2|exact H].
      + apply Nat.eqb_neq in Hlen. eapply disjoint_tuple_c; [exact Hls|exact Hlp|exact Hlt1|exact Hlt2|right; left; exact Hlen].
    - eapply disjoint_tuple_c; [exact Hls|exact Hlp|exact Hlt1|exact Hlt2|left].
      intros Heqn. rewrite Heqn in Hn. destruct (tname info2); cbn in Hn; [rewrite Nat.eqb_refl in Hn|]; discriminate.
  Qed.
End OverlapC.

Fixpoint focb (P : registry) (k : nat) (t : nat) : bool :=
  match k with
  | 0 => false
  | S k' =>
    match lookup_type P t with
    | Some TInteger | Some TBinary | Some TReference | Some (TResource _) => true
    | Some (TCallable _ _ _) | Some (TProcess _ _) => true
    | Some (TUnion vs) => forallb (focb P k') vs
    | Some (TTuple tid) =>
      match lookup_tuple P tid with
      | Some info => forallb (fun f => focb P k' (snd f)) (tfields info)
      | None => false
      end
    | _ => false
    end
  end.

Lemma focb_FOc P : forall k t, focb P k t = true -> FOc P t.
Proof.
  induction k as [|k IH]; intros t H; [discriminate|]. cbn in H.
  destruct (lookup_type P t) as [ty|] eqn:Hl; [|discriminate].
  destruct ty as [| | |tid|pn fs|p r rc|d|vs|s r|r|v]; try discriminate.
  - eapply FOc_int; eassumption.
  - eapply FOc_bin; eassumption.
  - eapply FOc_ref; eassumption.
  - destruct (lookup_tuple P tid) as [info|] eqn:Ht; [|discriminate].
    eapply FOc_tuple; [eassumption|eassumption|]. rewrite forallb_forall in H. intros f Hf. apply IH. apply H. exact Hf.
  - eapply FOc_callable; eassumption.
  - eapply FOc_union; [eassumption|]. rewrite forallb_forall in H. intros u Hu. apply IH. apply H. exact Hu.
  - eapply FOc_process; eassumption.
  - eapply FOc_res; eassumption.
Qed.

(* first-order + callable + process (components of callables / processes unconstrained) *)
Definition foc_domain (P : registry) (t : nat) : bool := focb P (S (length (types P))) t.

Theorem overlap_complete_foc : forall cfg P fuel a b r,
  cfg_any_callable cfg = true ->
  foc_domain P a = true -> foc_domain P b = true ->
  types_overlap_with cfg fuel P a b = Some r ->
  (exists n v, inhab P n [] v a /\ inhab P n [] v b) -> r = true.
Proof.
  intros cfg P fuel a b r Hany Ha Hb Hr [n [v [Hva Hvb]]].
  destruct r; [reflexivity|exfalso].
  unfold types_overlap_with in Hr.
  destruct (check_rel cfg P Any fuel [] [] [] a b) as [[r A1]|] eqn:Hc; [|discriminate]. cbn in Hr. inversion Hr; subst r.
  eapply (overlap_false_disjoint_c cfg P Hany fuel [] [] [] a b A1 (focb_FOc _ _ _ Ha) (focb_FOc _ _ _ Hb) Hc); eassumption.
Qed.
