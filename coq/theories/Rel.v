(* Rel.v — model of `check_type_relation` (quiver-core/src/types.rs), both union modes.

   State.  The Rust function threads two pieces of mutable state through every recursive call:
     assumptions : the coinductive hypotheses `(self_id, pattern_id)`
     type_stack  : the enclosing union / callable ids against which `Cycle(depth)` is resolved
   `assumptions` is threaded here explicitly (every call returns the new set).  Every push on a
   stack is undone by a pop on the same path before the arm returns (there is no early `return`
   between them), so the stacks are passed down as arguments — the same function, without the
   bookkeeping.  A stack is a list with its TOP AT THE HEAD: `type_stack[len - depth]` is
   `nth_error stack (depth - 1)`.

   Two switches select between the code as found and the proposed repairs
   (/verif/hooks/fix_F7.patch, fix_F12.patch); `current_cfg` names the variant that /repo has.
     cfg_retract    (F7)   on failure of a union arm, truncate `assumptions` back to the mark
     cfg_selfstack  (F12)  keep a separate stack for the self side (pushed by the union-on-left
                           and callable arms), resolve a self-side `Cycle` against it, and swap
                           the two stacks in contravariant positions
     cfg_partial_name      (F29, fix 2932723) ALL mode: an unnamed partial is
                           not assignable to a named one
     cfg_partial_any       (F25p, fix 7ba69a0) ANY mode: (Partial, Tuple) is
                           answered by the swapped call; a label only the pattern partial names
                           is unconstrained
     cfg_callable_assume   (F55, fix e7dcc7d) the callable arm records the coinductive
                           assumption too (and retracts it on failure), so recursive function types
                           terminate
     cfg_any_callable      (F25, fix dea0269) ANY mode: two callable types, and two process
                           types, always overlap
     cfg_cc_callable       (F56, fix 2bb39f1; used by Narrow.v) contains_cycle descends into
                           Callable / Process types
   Fuel: `None` = out of fuel (the Rust recursion is bounded by the assumption set; the fuel is
   only there to make the definition structurally recursive). *)
From Quiver Require Import Base Types.
From Coq Require Import Arith.
Close Scope Z_scope.
Open Scope nat_scope.

(* types.rs:187-196 *)
Inductive union_mode := All | Any.

Record rel_cfg := mk_cfg { cfg_retract : bool; cfg_selfstack : bool;
                           cfg_partial_name : bool; cfg_partial_any : bool;
                           cfg_callable_assume : bool; cfg_cc_callable : bool;
                           cfg_any_callable : bool }.

Definition assumptions := list (nat * nat).
Definition key_eqb (k1 k2 : nat * nat) : bool :=
  Nat.eqb (fst k1) (fst k2) && Nat.eqb (snd k1) (snd k2).
Definition assumed (A : assumptions) (k : nat * nat) : bool := existsb (key_eqb k) A.

(* `Vec::truncate(mark)` on a vector that only grew by pushes since `mark` was taken: the model
   keeps the newest assumption at the head, so truncation keeps the last `mark` elements. *)
Definition truncate_to (mark : nat) (A : assumptions) : assumptions :=
  skipn (length A - mark) A.

Definition stack_contains (st : list nat) (id : nat) : bool := existsb (Nat.eqb id) st.
(* `if !already_on_stack { stack.push(id) }` *)
Definition push_once (st : list nat) (id : nat) : list nat :=
  if stack_contains st id then st else id :: st.

Definition res := option (bool * assumptions).

Section Step.
  Variable cfg : rel_cfg.
  Variable P : registry.
  Variable mode : union_mode.
  (* the recursive call: rec A self_stack pattern_stack self_id pattern_id *)
  Variable rec : assumptions -> list nat -> list nat -> nat -> nat -> res.

  (* `variants.iter().all(|v| check(v, pattern_id))` with short-circuit *)
  Fixpoint all_left (A : assumptions) (ss ps : list nat) (vs : list nat) (p : nat) : res :=
    match vs with
    | [] => Some (true, A)
    | v :: vs' =>
      match rec A ss ps v p with
      | None => None
      | Some (false, A') => Some (false, A')
      | Some (true, A') => all_left A' ss ps vs' p
      end
    end.

  (* `variants.iter().any(|v| check(v, pattern_id))` *)
  Fixpoint any_left (A : assumptions) (ss ps : list nat) (vs : list nat) (p : nat) : res :=
    match vs with
    | [] => Some (false, A)
    | v :: vs' =>
      match rec A ss ps v p with
      | None => None
      | Some (true, A') => Some (true, A')
      | Some (false, A') => any_left A' ss ps vs' p
      end
    end.

  (* `variants.iter().any(|v| check(self_id, v))` *)
  Fixpoint any_right (A : assumptions) (ss ps : list nat) (s : nat) (vs : list nat) : res :=
    match vs with
    | [] => Some (false, A)
    | v :: vs' =>
      match rec A ss ps s v with
      | None => None
      | Some (true, A') => Some (true, A')
      | Some (false, A') => any_right A' ss ps s vs'
      end
    end.

  (* types.rs:388-400  zip(fields1, fields2).all(|..| fname1 == fname2 && check(ftype1, ftype2));
     zip stops at the shorter list (the lengths were compared before) *)
  Fixpoint tuple_fields (A : assumptions) (ss ps : list nat)
           (f1 f2 : list (option nat * nat)) : res :=
    match f1, f2 with
    | (n1, t1) :: f1', (n2, t2) :: f2' =>
      if opt_eqb n1 n2 then
        match rec A ss ps t1 t2 with
        | None => None
        | Some (false, A') => Some (false, A')
        | Some (true, A') => tuple_fields A' ss ps f1' f2'
        end
      else Some (false, A)
    | _, _ => Some (true, A)
    end.

  (* types.rs:424-437  concrete_info.fields.iter().any(|(cname, ctype)|
       cname.as_ref() == Some(partial_fname) && check(ctype, partial_ftype)) *)
  Fixpoint any_concrete_field (A : assumptions) (ss ps : list nat)
           (cfields : list (option nat * nat)) (pname ptype : nat) : res :=
    match cfields with
    | [] => Some (false, A)
    | (cname, ctype) :: cfields' =>
      if opt_eqb cname (Some pname) then
        match rec A ss ps ctype ptype with
        | None => None
        | Some (true, A') => Some (true, A')
        | Some (false, A') => any_concrete_field A' ss ps cfields' pname ptype
        end
      else any_concrete_field A ss ps cfields' pname ptype
    end.

  (* types.rs:423-438  partial_fields.iter().all(|(pfname, pftype)| any_concrete_field ..) *)
  Fixpoint all_partial_fields (A : assumptions) (ss ps : list nat)
           (cfields : list (option nat * nat)) (pfields : list (nat * nat)) : res :=
    match pfields with
    | [] => Some (true, A)
    | (pname, ptype) :: pfields' =>
      match any_concrete_field A ss ps cfields pname ptype with
      | None => None
      | Some (false, A') => Some (false, A')
      | Some (true, A') => all_partial_fields A' ss ps cfields pfields'
      end
    end.

  (* types.rs:459-469  fields1.iter().any(|(fname1, ftype1)| fname1 == fname2 && check(ftype1, ftype2)) *)
  Fixpoint any_partial_field (A : assumptions) (ss ps : list nat)
           (fields1 : list (nat * nat)) (fname2 ftype2 : nat) : res :=
    match fields1 with
    | [] => Some (false, A)
    | (fname1, ftype1) :: fields1' =>
      if Nat.eqb fname1 fname2 then
        match rec A ss ps ftype1 ftype2 with
        | None => None
        | Some (true, A') => Some (true, A')
        | Some (false, A') => any_partial_field A' ss ps fields1' fname2 ftype2
        end
      else any_partial_field A ss ps fields1' fname2 ftype2
    end.

  (* types.rs:458-470  fields2.iter().all(|(fname2, ftype2)| any_partial_field ..) *)
  Fixpoint all_partial_partial (A : assumptions) (ss ps : list nat)
           (fields1 fields2 : list (nat * nat)) : res :=
    match fields2 with
    | [] => Some (true, A)
    | (fname2, ftype2) :: fields2' =>
      match (if cfg_partial_any cfg && (match mode with Any => true | All => false end)
                && negb (existsb (fun f => Nat.eqb (fst f) fname2) fields1)
             then Some (true, A)
             else any_partial_field A ss ps fields1 fname2 ftype2) with
      | None => None
      | Some (false, A') => Some (false, A')
      | Some (true, A') => all_partial_partial A' ss ps fields1 fields2'
      end
    end.

  (* `a && b` where both thread the assumptions *)
  Definition and_then (r : res) (k : assumptions -> res) : res :=
    match r with
    | None => None
    | Some (false, A') => Some (false, A')
    | Some (true, A') => k A'
    end.

  (* retract-on-failure of the two inserting arms (fix_F7.patch): `if !result { truncate(mark) }` *)
  Definition retract (mark : nat) (r : res) : res :=
    match r with
    | Some (false, A') => if cfg_retract cfg then Some (false, truncate_to mark A') else r
    | _ => r
    end.

  (* types.rs:295-305 / 307-317  resolution of `Cycle(depth)` against a stack:
       if stack.len() < depth { return true }
       stack.get(stack.len() - depth)  — None only for depth = 0  => true *)
  Definition resolve_cycle (st : list nat) (depth : nat) : option nat :=
    match depth with
    | 0 => None
    | S d => nth_error st d
    end.

  (* One unfolding of check_type_relation, types.rs:245-547 *)
  Definition step (A : assumptions) (ss ps : list nat) (self_id pattern_id : nat) : res :=
    (* 254: fast path *)
    if Nat.eqb self_id pattern_id then Some (true, A) else
    (* 259-262: coinductive hypothesis *)
    let key := (self_id, pattern_id) in
    if assumed A key then Some (true, A) else
    (* 264-269 *)
    match lookup_type P self_id with
    | None => Some (false, A)
    | Some self_type =>
    match lookup_type P pattern_id with
    | None => Some (false, A)
    | Some pattern_type =>
    match self_type, pattern_type with
    (* 273-278: empty union *)
    | TUnion [], _ => Some (match mode with All => true | Any => false end, A)
    (* 281-283 *)
    | TInteger, TInteger => Some (true, A)
    | TBinary, TBinary => Some (true, A)
    | TReference, TReference => Some (true, A)
    (* 286 *)
    | TResource r1, TResource r2 => Some (Nat.eqb r1 r2, A)
    (* 289: type variables match anything *)
    | TVariable _, _ => Some (true, A)
    | _, TVariable _ => Some (true, A)
    | _, _ =>
    match self_type, pattern_type with
    (* 292: both cycles, same depth; otherwise fall to 295 (self side first) *)
    | TCycle d1, TCycle d2 =>
      if Nat.eqb d1 d2 then Some (true, A) else
      match resolve_cycle (if cfg_selfstack cfg then ss else ps) d1 with
      | None => Some (true, A)
      | Some stack_id => rec A ss ps stack_id pattern_id
      end
    (* 295-305 *)
    | TCycle d1, _ =>
      match resolve_cycle (if cfg_selfstack cfg then ss else ps) d1 with
      | None => Some (true, A)
      | Some stack_id => rec A ss ps stack_id pattern_id
      end
    (* 307-317 *)
    | _, TCycle d2 =>
      match resolve_cycle ps d2 with
      | None => Some (true, A)
      | Some stack_id => rec A ss ps self_id stack_id
      end
    (* 320-346: union on the left *)
    | TUnion variants, _ =>
      let mark := length A in
      let A1 := key :: A in
      let ss1 := if cfg_selfstack cfg then push_once ss self_id else ss in
      retract mark
        (match mode with
         | All => all_left A1 ss1 ps variants pattern_id
         | Any => any_left A1 ss1 ps variants pattern_id
         end)
    (* 349-367: union on the right *)
    | _, TUnion variants =>
      let mark := length A in
      let A1 := key :: A in
      retract mark (any_right A1 ss (push_once ps pattern_id) self_id variants)
    (* 374-401 *)
    | TTuple id1, TTuple id2 =>
      if Nat.eqb id1 id2 then Some (true, A) else
      match lookup_tuple P id1 with
      | None => Some (false, A)
      | Some info1 =>
      match lookup_tuple P id2 with
      | None => Some (false, A)
      | Some info2 =>
        if opt_eqb (tname info1) (tname info2)
           && Nat.eqb (length (tfields info1)) (length (tfields info2))
        then tuple_fields A ss ps (tfields info1) (tfields info2)
        else Some (false, A)
      end end
    (* 404-439: concrete tuple vs partial *)
    | TTuple concrete_id, TPartial partial_name partial_fields =>
      match lookup_tuple P concrete_id with
      | None => Some (false, A)
      | Some concrete_info =>
        let name_ok :=
          match partial_name with
          | Some pname => opt_eqb (tname concrete_info) (Some pname)
          | None => true
          end in
        if name_ok then all_partial_fields A ss ps (tfields concrete_info) partial_fields
        else Some (false, A)
      end
    (* 442-471: partial vs partial *)
    | TPartial name1 fields1, TPartial name2 fields2 =>
      let clash :=
        if cfg_partial_name cfg && (match mode with All => true | Any => false end)
        then match name2 with Some _ => negb (opt_eqb name1 name2) | None => false end
        else match name1, name2 with
             | Some n1, Some n2 => negb (Nat.eqb n1 n2)
             | _, _ => false
             end in
      if clash then Some (false, A) else all_partial_partial A ss ps fields1 fields2
    (* ANY-mode arm added by 7ba69a0: overlap is symmetric *)
    | TPartial _ _, TTuple _ =>
      if cfg_partial_any cfg && (match mode with Any => true | All => false end)
      then rec A ps ss pattern_id self_id
      else Some (false, A)
    (* 474-499: process types; `send_ok` and `receive_ok` are both evaluated before `&&` *)
    | TProcess send1 receive1, TProcess send2 receive2 =>
      if cfg_any_callable cfg && (match mode with Any => true | All => false end) then Some (true, A) else
      let r_send :=
        match send1, send2 with
        | Some s1, Some s2 => rec A ss ps s1 s2
        | _, _ => Some (true, A)
        end in
      match r_send with
      | None => None
      | Some (send_ok, A1) =>
        let r_recv :=
          match receive1, receive2 with
          | Some r1, Some r2 => rec A1 ss ps r1 r2
          | _, _ => Some (true, A1)
          end in
        match r_recv with
        | None => None
        | Some (receive_ok, A2) => Some (send_ok && receive_ok, A2)
        end
      end
    (* 502-543: callable types *)
    | TCallable param1 result1 receive1, TCallable param2 result2 receive2 =>
      if cfg_any_callable cfg && (match mode with Any => true | All => false end) then Some (true, A) else
      let mark := length A in
      let A0 := if cfg_callable_assume cfg then key :: A else A in
      let ss1 := if cfg_selfstack cfg then push_once ss self_id else ss in
      let ps1 := push_once ps pattern_id in
      (* contravariant positions: the sides swap, and (fix_F12) their stacks with them *)
      let css := if cfg_selfstack cfg then ps1 else ss1 in
      let cps := if cfg_selfstack cfg then ss1 else ps1 in
      let r :=
        and_then (rec A0 css cps param2 param1) (fun A1 =>
        and_then (rec A1 ss1 ps1 result1 result2) (fun A2 =>
        rec A2 css cps receive2 receive1)) in
      if cfg_callable_assume cfg then retract mark r else r
    (* 545 *)
    | _, _ => Some (false, A)
    end end end end.
End Step.

Fixpoint check_rel (cfg : rel_cfg) (P : registry) (mode : union_mode) (fuel : nat)
         (A : assumptions) (ss ps : list nat) (self_id pattern_id : nat) : res :=
  match fuel with
  | 0 => None
  | S f => step cfg P mode (check_rel cfg P mode f) A ss ps self_id pattern_id
  end.

(* the code as found at the pinned commit / with the proposed repairs *)
Definition legacy_cfg : rel_cfg := mk_cfg false false false false false false false.
Definition f7_cfg : rel_cfg := mk_cfg true false false false false false false.
Definition fixed_cfg : rel_cfg := mk_cfg true true false false false false false.          (* /repo at 2246a47 (F7, F12 repaired) *)
Definition partial_cfg : rel_cfg := mk_cfg true true true true false false false.  (* + 2932723 (F29) and 7ba69a0 (F25p) *)
Definition f55_cfg : rel_cfg := mk_cfg true true true true true true false.        (* + e7dcc7d (F55) and 2bb39f1 (F56) *)
Definition f25_cfg : rel_cfg := mk_cfg true true true true true true true.   (* + dea0269 (F25) *)
Definition current_cfg : rel_cfg := f25_cfg.                             (* = /repo today *)

(* types.rs:204-215 / 223-234 *)
Definition is_compatible_with (cfg : rel_cfg) (fuel : nat) (P : registry) (a b : nat) : option bool :=
  option_map fst (check_rel cfg P All fuel [] [] [] a b).
Definition types_overlap_with (cfg : rel_cfg) (fuel : nat) (P : registry) (a b : nat) : option bool :=
  option_map fst (check_rel cfg P Any fuel [] [] [] a b).
