(* RelProofs.v — soundness of the ALL mode of check_rel (is_compatible) on the cycle-free fragment,
   for every variant of the model that retracts failed assumptions (fix_F7).

   Invariant (Brandt–Henglein adapted to a DAG): every recorded assumption is either semantically
   valid or belongs to a pair that is still in progress; in a registry whose ids are topologically
   ordered (children are registered before their parents: `topo`) the in-progress pairs have a
   strictly larger id-sum than the pair being examined, so an assumption that is HIT is valid. *)
From Quiver Require Import Base Types Rel Sem SemProofs.
From Coq Require Import Arith Lia.
Close Scope Z_scope.
Open Scope nat_scope.

Definition children (P : registry) (t : ty) : list nat :=
  match t with
  | TUnion vs => vs
  | TTuple tid => match lookup_tuple P tid with Some info => map snd (tfields info) | None => [] end
  | TPartial _ fs => map snd fs
  | TCallable p r rc => [p; r; rc]
  | TProcess s r => (match s with Some x => [x] | None => [] end) ++ (match r with Some x => [x] | None => [] end)
  | _ => []
  end.

(* ids are topologically ordered: what Program::register_* produces when types are built bottom-up *)
Definition topo (P : registry) : Prop :=
  forall id t, lookup_type P id = Some t -> forall c, In c (children P t) -> c < id.

Definition topob (P : registry) : bool :=
  forallb (fun id => match lookup_type P id with
                     | Some t => forallb (fun c => c <? id) (children P t)
                     | None => true
                     end) (seq 0 (length (types P))).

Lemma topob_topo P : topob P = true -> topo P.
Proof.
  unfold topob, topo. intros H id t Hl c Hc.
  rewrite forallb_forall in H.
  assert (Hid : id < length (types P)) by (apply nth_error_Some; unfold lookup_type in Hl; congruence).
  specialize (H id). rewrite in_seq in H. specialize (H ltac:(lia)). rewrite Hl in H.
  rewrite forallb_forall in H. apply Nat.ltb_lt. apply H. exact Hc.
Qed.

Lemma key_eqb_eq k1 k2 : key_eqb k1 k2 = true -> k1 = k2.
Proof.
  destruct k1, k2. unfold key_eqb. cbn. intros H. apply andb_true_iff in H. destruct H as [H1 H2].
  apply Nat.eqb_eq in H1. apply Nat.eqb_eq in H2. congruence.
Qed.

Lemma assumed_In A k : assumed A k = true -> In k A.
Proof.
  unfold assumed. intros H. apply existsb_exists in H. destruct H as [x [Hin Heq]].
  apply key_eqb_eq in Heq. subst. exact Hin.
Qed.

Lemma truncate_app (new A : assumptions) : truncate_to (length A) (new ++ A) = A.
Proof.
  unfold truncate_to. rewrite app_length. replace (length new + length A - length A) with (length new) by lia.
  induction new; [reflexivity|assumption].
Qed.

Lemma opt_eqb_eq o1 o2 : opt_eqb o1 o2 = true -> o1 = o2.
Proof. destruct o1, o2; cbn; intros H; try discriminate; [apply Nat.eqb_eq in H; congruence|reflexivity]. Qed.

Section RelSound.
  Variable cfg : rel_cfg.
  Variable P : registry.
  Variable named_ok : bool.
  Hypothesis Hretract : cfg_retract cfg = true.
  Hypothesis Hnamed : cfg_partial_name cfg = true \/ named_ok = false.
  Hypothesis Htopo : topo P.

  Notation CF := (CF P named_ok).
  Notation sub := (sub P).

  Definition valid (k : nat * nat) : Prop := sub (fst k) (snd k).
  Definition Inv (A : assumptions) (M : nat) : Prop := forall k, In k A -> valid k \/ M <= fst k + snd k.
  Definition Post (A A1 : assumptions) : Prop := exists new, A1 = new ++ A /\ forall k, In k new -> valid k.

  Lemma Post_refl A : Post A A.
  Proof. exists []. split; [reflexivity|intros k []]. Qed.

  Lemma Post_trans A A1 A2 : Post A A1 -> Post A1 A2 -> Post A A2.
  Proof.
    intros [n1 [-> H1]] [n2 [-> H2]]. exists (n2 ++ n1). split; [rewrite app_assoc; reflexivity|].
    intros k Hin. apply in_app_or in Hin. destruct Hin; auto.
  Qed.

  Lemma Inv_Post A A1 M : Inv A M -> Post A A1 -> Inv A1 M.
  Proof.
    intros HI [new [-> Hn]] k Hin. apply in_app_or in Hin. destruct Hin as [Hin|Hin]; [left; auto|auto].
  Qed.

  Lemma Inv_weaken A M M' : Inv A M -> M' <= M -> Inv A M'.
  Proof. intros HI Hle k Hin. destruct (HI k Hin); [left; assumption|right; lia]. Qed.

  Definition RS (rec : assumptions -> list nat -> list nat -> nat -> nat -> res) (M : nat) : Prop :=
    forall A ss ps s p b A1, CF s -> CF p -> s + p < M -> Inv A M ->
      rec A ss ps s p = Some (b, A1) -> Post A A1 /\ (b = true -> sub s p).

  Section Iter.
    Variable rec : assumptions -> list nat -> list nat -> nat -> nat -> res.
    Variable M : nat.
    Hypothesis HRS : RS rec M.

    Lemma all_left_spec p : CF p -> forall vs A ss ps b A1,
      (forall v, In v vs -> CF v /\ v + p < M) -> Inv A M ->
      all_left rec A ss ps vs p = Some (b, A1) ->
      Post A A1 /\ (b = true -> forall v, In v vs -> sub v p).
    Proof.
      intros Hp. induction vs as [|v vs IH]; intros A ss ps b A1 Hvs HI H; cbn in H.
      - inversion H; subst. split; [apply Post_refl|intros _ v []].
      - destruct (rec A ss ps v p) as [[b' A']|] eqn:Hrec; [|discriminate].
        destruct (Hvs v (or_introl eq_refl)) as [Hcv Hlt].
        destruct (HRS _ _ _ _ _ _ _ Hcv Hp Hlt HI Hrec) as [HP Hsub].
        destruct b'.
        + destruct (IH A' ss ps b A1 (fun u Hu => Hvs u (or_intror Hu)) (Inv_Post _ _ _ HI HP) H) as [HP2 Hall].
          split; [eapply Post_trans; eassumption|].
          intros Hb u [<-|Hu]; [apply Hsub; reflexivity|apply Hall; assumption].
        + inversion H; subst. split; [assumption|discriminate].
    Qed.

    Lemma any_right_spec s : CF s -> forall vs A ss ps b A1,
      (forall v, In v vs -> CF v /\ s + v < M) -> Inv A M ->
      any_right rec A ss ps s vs = Some (b, A1) ->
      Post A A1 /\ (b = true -> exists v, In v vs /\ sub s v).
    Proof.
      intros Hs. induction vs as [|v vs IH]; intros A ss ps b A1 Hvs HI H; cbn in H.
      - inversion H; subst. split; [apply Post_refl|discriminate].
      - destruct (rec A ss ps s v) as [[b' A']|] eqn:Hrec; [|discriminate].
        destruct (Hvs v (or_introl eq_refl)) as [Hcv Hlt].
        destruct (HRS _ _ _ _ _ _ _ Hs Hcv Hlt HI Hrec) as [HP Hsub].
        destruct b'.
        + inversion H; subst. split; [assumption|]. intros _. exists v. split; [left; reflexivity|auto].
        + destruct (IH A' ss ps b A1 (fun u Hu => Hvs u (or_intror Hu)) (Inv_Post _ _ _ HI HP) H) as [HP2 Hex].
          split; [eapply Post_trans; eassumption|].
          intros Hb. destruct (Hex Hb) as [u [Hu Hsu]]. exists u. split; [right; assumption|assumption].
    Qed.

    Lemma tuple_fields_spec : forall f1 f2 A ss ps b A1,
      length f1 = length f2 ->
      (forall a, In a f1 -> CF (snd a)) -> (forall a, In a f2 -> CF (snd a)) ->
      (forall a c, In a f1 -> In c f2 -> snd a + snd c < M) -> Inv A M ->
      tuple_fields rec A ss ps f1 f2 = Some (b, A1) ->
      Post A A1 /\ (b = true -> Forall2 (fields_sub P) f1 f2).
    Proof.
      induction f1 as [|[n1 t1] f1 IH]; intros [|[n2 t2] f2] A ss ps b A1 Hlen H1 H2 Hlt HI H; cbn in H, Hlen; try discriminate.
      - inversion H; subst. split; [apply Post_refl|constructor].
      - destruct (opt_eqb n1 n2) eqn:Hn.
        + destruct (rec A ss ps t1 t2) as [[b' A']|] eqn:Hrec; [|discriminate].
          assert (Hc1 : CF t1) by (apply (H1 (n1, t1)); left; reflexivity).
          assert (Hc2 : CF t2) by (apply (H2 (n2, t2)); left; reflexivity).
          assert (Hm : t1 + t2 < M) by (apply (Hlt (n1, t1) (n2, t2)); left; reflexivity).
          destruct (HRS _ _ _ _ _ _ _ Hc1 Hc2 Hm HI Hrec) as [HP Hsub].
          destruct b'.
          * destruct (IH f2 A' ss ps b A1 ltac:(lia) (fun a Ha => H1 a (or_intror Ha)) (fun a Ha => H2 a (or_intror Ha))
                         (fun a c Ha Hc => Hlt a c (or_intror Ha) (or_intror Hc)) (Inv_Post _ _ _ HI HP) H) as [HP2 HF].
            split; [eapply Post_trans; eassumption|].
            intros Hb. constructor; [|auto]. split; [cbn; apply opt_eqb_eq; assumption|cbn; auto].
          * inversion H; subst. split; [assumption|discriminate].
        + inversion H; subst. split; [apply Post_refl|discriminate].
    Qed.

    Lemma any_concrete_field_spec pname ptype : CF ptype -> forall cfields A ss ps b A1,
      (forall a, In a cfields -> CF (snd a) /\ snd a + ptype < M) -> Inv A M ->
      any_concrete_field rec A ss ps cfields pname ptype = Some (b, A1) ->
      Post A A1 /\ (b = true -> exists ct, In (Some pname, ct) cfields /\ sub ct ptype).
    Proof.
      intros Hp. induction cfields as [|[cn ct] cfields IH]; intros A ss ps b A1 Hc HI H; cbn in H.
      - inversion H; subst. split; [apply Post_refl|discriminate].
      - destruct (opt_eqb cn (Some pname)) eqn:Hn.
        + destruct (rec A ss ps ct ptype) as [[b' A']|] eqn:Hrec; [|discriminate].
          destruct (Hc (cn, ct) (or_introl eq_refl)) as [Hcc Hlt]. cbn in Hcc, Hlt.
          destruct (HRS _ _ _ _ _ _ _ Hcc Hp Hlt HI Hrec) as [HP Hsub].
          destruct b'.
          * inversion H; subst. split; [assumption|]. intros _. exists ct.
            apply opt_eqb_eq in Hn. subst cn. split; [left; reflexivity|auto].
          * destruct (IH A' ss ps b A1 (fun a Ha => Hc a (or_intror Ha)) (Inv_Post _ _ _ HI HP) H) as [HP2 Hex].
            split; [eapply Post_trans; eassumption|].
            intros Hb. destruct (Hex Hb) as [ct' [Hin Hs]]. exists ct'. split; [right; assumption|assumption].
        + destruct (IH A ss ps b A1 (fun a Ha => Hc a (or_intror Ha)) HI H) as [HP2 Hex].
          split; [assumption|].
          intros Hb. destruct (Hex Hb) as [ct' [Hin Hs]]. exists ct'. split; [right; assumption|assumption].
    Qed.

    Lemma all_partial_fields_spec cfields :
      (forall a, In a cfields -> CF (snd a)) -> forall pfields A ss ps b A1,
      (forall f, In f pfields -> CF (snd f)) ->
      (forall a f, In a cfields -> In f pfields -> snd a + snd f < M) -> Inv A M ->
      all_partial_fields rec A ss ps cfields pfields = Some (b, A1) ->
      Post A A1 /\ (b = true -> forall l pt, In (l, pt) pfields ->
                                 exists ct, In (Some l, ct) cfields /\ sub ct pt).
    Proof.
      intros Hcf. induction pfields as [|[pn pt] pfields IH]; intros A ss ps b A1 Hpf Hlt HI H; cbn in H.
      - inversion H; subst. split; [apply Post_refl|intros _ l pt []].
      - destruct (any_concrete_field rec A ss ps cfields pn pt) as [[b' A']|] eqn:Hany; [|discriminate].
        destruct (any_concrete_field_spec pn pt (Hpf (pn, pt) (or_introl eq_refl)) cfields A ss ps b' A'
                    (fun a Ha => conj (Hcf a Ha) (Hlt a (pn, pt) Ha (or_introl eq_refl))) HI Hany) as [HP Hex].
        destruct b'.
        + destruct (IH A' ss ps b A1 (fun f Hf => Hpf f (or_intror Hf)) (fun a f Ha Hf => Hlt a f Ha (or_intror Hf))
                       (Inv_Post _ _ _ HI HP) H) as [HP2 Hall].
          split; [eapply Post_trans; eassumption|].
          intros Hb l pt' [Heq|Hin]; [inversion Heq; subst; apply Hex; reflexivity|apply Hall; assumption].
        + inversion H; subst. split; [assumption|discriminate].
    Qed.

    Lemma any_partial_field_spec fname2 ftype2 : CF ftype2 -> forall fields1 A ss ps b A1,
      (forall a, In a fields1 -> CF (snd a) /\ snd a + ftype2 < M) -> Inv A M ->
      any_partial_field rec A ss ps fields1 fname2 ftype2 = Some (b, A1) ->
      Post A A1 /\ (b = true -> exists t1, In (fname2, t1) fields1 /\ sub t1 ftype2).
    Proof.
      intros Hp. induction fields1 as [|[n1 t1] fields1 IH]; intros A ss ps b A1 Hc HI H; cbn in H.
      - inversion H; subst. split; [apply Post_refl|discriminate].
      - destruct (Nat.eqb n1 fname2) eqn:Hn.
        + destruct (rec A ss ps t1 ftype2) as [[b' A']|] eqn:Hrec; [|discriminate].
          destruct (Hc (n1, t1) (or_introl eq_refl)) as [Hcc Hlt]. cbn in Hcc, Hlt.
          destruct (HRS _ _ _ _ _ _ _ Hcc Hp Hlt HI Hrec) as [HP Hsub].
          destruct b'.
          * inversion H; subst. split; [assumption|]. intros _. exists t1.
            apply Nat.eqb_eq in Hn. subst n1. split; [left; reflexivity|auto].
          * destruct (IH A' ss ps b A1 (fun a Ha => Hc a (or_intror Ha)) (Inv_Post _ _ _ HI HP) H) as [HP2 Hex].
            split; [eapply Post_trans; eassumption|].
            intros Hb. destruct (Hex Hb) as [t' [Hin Hs]]. exists t'. split; [right; assumption|assumption].
        + destruct (IH A ss ps b A1 (fun a Ha => Hc a (or_intror Ha)) HI H) as [HP2 Hex].
          split; [assumption|].
          intros Hb. destruct (Hex Hb) as [t' [Hin Hs]]. exists t'. split; [right; assumption|assumption].
    Qed.

    Lemma all_partial_partial_spec fields1 :
      (forall a, In a fields1 -> CF (snd a)) -> forall fields2 A ss ps b A1,
      (forall f, In f fields2 -> CF (snd f)) ->
      (forall a f, In a fields1 -> In f fields2 -> snd a + snd f < M) -> Inv A M ->
      all_partial_partial cfg All rec A ss ps fields1 fields2 = Some (b, A1) ->
      Post A A1 /\ (b = true -> forall l t2, In (l, t2) fields2 ->
                                 exists t1, In (l, t1) fields1 /\ sub t1 t2).
    Proof.
      intros Hcf. induction fields2 as [|[n2 t2] fields2 IH]; intros A ss ps b A1 Hpf Hlt HI H; cbn in H.
      - inversion H; subst. split; [apply Post_refl|intros _ l pt []].
      - rewrite andb_false_r in H. cbn in H.
        destruct (any_partial_field rec A ss ps fields1 n2 t2) as [[b' A']|] eqn:Hany; [|discriminate].
        destruct (any_partial_field_spec n2 t2 (Hpf (n2, t2) (or_introl eq_refl)) fields1 A ss ps b' A'
                    (fun a Ha => conj (Hcf a Ha) (Hlt a (n2, t2) Ha (or_introl eq_refl))) HI Hany) as [HP Hex].
        destruct b'.
        + destruct (IH A' ss ps b A1 (fun f Hf => Hpf f (or_intror Hf)) (fun a f Ha Hf => Hlt a f Ha (or_intror Hf))
                       (Inv_Post _ _ _ HI HP) H) as [HP2 Hall].
          split; [eapply Post_trans; eassumption|].
          intros Hb l pt' [Heq|Hin]; [inversion Heq; subst; apply Hex; reflexivity|apply Hall; assumption].
        + inversion H; subst. split; [assumption|discriminate].
    Qed.
  End Iter.

  Lemma topo_union s vs v : lookup_type P s = Some (TUnion vs) -> In v vs -> v < s.
  Proof. intros Hl Hin. apply (Htopo s _ Hl). exact Hin. Qed.
  Lemma topo_tuple s tid info f :
    lookup_type P s = Some (TTuple tid) -> lookup_tuple P tid = Some info -> In f (tfields info) -> snd f < s.
  Proof. intros Hl Ht Hin. apply (Htopo s _ Hl). cbn. rewrite Ht. apply in_map. exact Hin. Qed.
  Lemma topo_partial s n fs f : lookup_type P s = Some (TPartial n fs) -> In f fs -> snd f < s.
  Proof. intros Hl Hin. apply (Htopo s _ Hl). cbn. apply in_map. exact Hin. Qed.
  Lemma topo_callable s p r rc : lookup_type P s = Some (TCallable p r rc) -> p < s /\ r < s /\ rc < s.
  Proof. intros Hl. repeat split; apply (Htopo s _ Hl); cbn; auto. Qed.
  Lemma topo_process s a b : lookup_type P s = Some (TProcess (Some a) (Some b)) -> a < s /\ b < s.
  Proof. intros Hl. split; apply (Htopo s _ Hl); cbn; auto. Qed.

  Ltac triv H := inversion H; subst; split; [apply Post_refl|discriminate].

  Lemma fields_sub_refl (l : list (option nat * nat)) :
    (forall f0, In f0 l -> CF (snd f0)) -> Forall2 (fields_sub P) l l.
  Proof.
    induction l as [|a l IHl]; intros Hl; constructor.
    - split; [reflexivity|]. eapply sub_refl. apply Hl. left; reflexivity.
    - apply IHl. intros f0 Hf0. apply Hl. right; exact Hf0.
  Qed.

  Lemma check_sound : forall fuel A ss ps s p b A1,
    CF s -> CF p -> Inv A (S (s + p)) ->
    check_rel cfg P All fuel A ss ps s p = Some (b, A1) ->
    Post A A1 /\ (b = true -> sub s p).
  Proof.
    induction fuel as [|f IH]; intros A ss ps s p b A1 Hs Hp HI H; [discriminate|].
    cbn [check_rel] in H. unfold step in H.
    destruct (Nat.eqb s p) eqn:Heq.
    { apply Nat.eqb_eq in Heq. subst p. inversion H; subst. split; [apply Post_refl|].
      intros _. eapply sub_refl; eassumption. }
    destruct (assumed A (s, p)) eqn:Has.
    { apply assumed_In in Has. inversion H; subst. split; [apply Post_refl|]. intros _.
      destruct (HI _ Has) as [Hv|Hm]; [exact Hv|cbn in Hm; lia]. }
    assert (HRS : RS (check_rel cfg P All f) (s + p)).
    { intros A0 ss0 ps0 s0 p0 b0 A2 Hs0 Hp0 Hlt HI0 H0.
      eapply IH; [exact Hs0|exact Hp0| |exact H0]. eapply Inv_weaken; [exact HI0|lia]. }
    assert (HI' : Inv A (s + p)) by (eapply Inv_weaken; [exact HI|lia]).
    assert (HIk : Inv ((s, p) :: A) (s + p)).
    { intros k [<-|Hin]; [right; cbn; lia|apply HI'; exact Hin]. }
    (* finishing an inserting arm: Post on (key :: A), result b *)
    assert (Hins : forall r, (forall b0 A2, r = Some (b0, A2) -> Post ((s, p) :: A) A2 /\ (b0 = true -> sub s p)) ->
                   retract cfg (length A) r = Some (b, A1) -> Post A A1 /\ (b = true -> sub s p)).
    { intros r Hr Hret. unfold retract in Hret. destruct r as [[b0 A2]|]; [|discriminate].
      destruct (Hr b0 A2 eq_refl) as [[new [-> Hnew]] Hsub].
      destruct b0.
      - inversion Hret; subst. split; [|exact Hsub].
        exists (new ++ [(s, p)]). split; [rewrite <- app_assoc; reflexivity|].
        intros k Hin. apply in_app_or in Hin. destruct Hin as [Hin|[<-|[]]]; [auto|apply Hsub; reflexivity].
      - rewrite Hretract in Hret. inversion Hret; subst.
        replace (new ++ (s, p) :: A) with ((new ++ [(s, p)]) ++ A) by (rewrite <- app_assoc; reflexivity).
        rewrite truncate_app. split; [apply Post_refl|discriminate]. }
    inversion Hs as [? Hls|? Hls|? Hls|? ? Hls|? vs Hls Hvs|? tid1 info1 Hls Hlt1 Hfs1|? pn1 pf1 Hls Hnm1 Hpf1
                     |? p1 r1 c1 Hls Hcp1 Hcr1 Hcc1|? s1 r1 Hls Hcs1 Hcr1]; subst;
    inversion Hp as [? Hlp|? Hlp|? Hlp|? ? Hlp|? ws Hlp Hws|? tid2 info2 Hlp Hlt2 Hfs2|? pn2 pf2 Hlp Hnm2 Hpf2
                     |? p2 r2 c2 Hlp Hcp2 Hcr2 Hcc2|? s2 r2 Hlp Hcs2 Hcr2]; subst;
    rewrite Hls, Hlp in H; cbn in H;
    try (destruct vs as [|v0 vs]; cbn in H);
    try (triv H; fail).
    (* leaves *)
    all: try (inversion H; subst; split; [apply Post_refl|intros _];
              first [eapply sub_int; eassumption|eapply sub_bin; eassumption|eapply sub_ref; eassumption
                    |eapply sub_empty_union; eassumption]; fail).
    all: try (match goal with
              | Hr : Some (?r =? ?r0, _) = Some _ |- _ =>
                destruct (r =? r0) eqn:Hrr; inversion Hr; subst; split;
                [apply Post_refl|intros _|apply Post_refl|discriminate];
                apply Nat.eqb_eq in Hrr; subst; eapply sub_res; eassumption
              end; fail).
    (* union on the left (non-empty) *)
    all: try (eapply Hins; [|exact H]; intros b0 A2 Hr;
              destruct (all_left_spec (check_rel cfg P All f) (s + p) HRS p Hp (v0 :: vs) ((s, p) :: A) _ ps b0 A2
                          (fun v Hv => conj (Hvs v Hv) (proj1 (Nat.add_lt_mono_r v s p) (topo_union _ _ _ Hls Hv)))
                          HIk Hr) as [HP Hall];
              split; [exact HP|intros Hb; eapply sub_union_left; [exact Hls|apply Hall; exact Hb]]; fail).
    (* union on the right *)
    all: try (eapply Hins; [|exact H]; intros b0 A2 Hr;
              destruct (any_right_spec (check_rel cfg P All f) (s + p) HRS s Hs ws ((s, p) :: A) ss _ b0 A2
                          (fun v Hv => conj (Hws v Hv) (proj1 (Nat.add_lt_mono_l v p s) (topo_union _ _ _ Hlp Hv)))
                          HIk Hr) as [HP Hex];
              split; [exact HP|intros Hb; destruct (Hex Hb) as [u [Hu Hsu]]; eapply sub_union_right; eassumption]; fail).
    - (* tuple / tuple *)
      destruct (tid1 =? tid2) eqn:Ht.
      + apply Nat.eqb_eq in Ht. subst tid2. rewrite Hlt1 in Hlt2. inversion Hlt2; subst info2.
        inversion H; subst. split; [apply Post_refl|intros _].
        eapply sub_tuple; [exact Hls|exact Hlp|exact Hlt1|exact Hlt1|reflexivity|].
        apply fields_sub_refl. exact Hfs1.
      + rewrite Hlt1, Hlt2 in H.
        destruct (opt_eqb (tname info1) (tname info2) && (length (tfields info1) =? length (tfields info2))) eqn:Hc;
          [|triv H].
        apply andb_true_iff in Hc. destruct Hc as [Hn Hlen]. apply opt_eqb_eq in Hn. apply Nat.eqb_eq in Hlen.
        destruct (tuple_fields_spec (check_rel cfg P All f) (s + p) HRS (tfields info1) (tfields info2) A ss ps b A1 Hlen
                    Hfs1 Hfs2
                    (fun a c Ha Hc0 => Nat.add_lt_mono _ _ _ _ (topo_tuple _ _ _ _ Hls Hlt1 Ha) (topo_tuple _ _ _ _ Hlp Hlt2 Hc0))
                    HI' H) as [HP HF].
        split; [exact HP|intros Hb]. eapply sub_tuple; [exact Hls|exact Hlp|exact Hlt1|exact Hlt2|exact Hn|apply HF; exact Hb].
    - (* tuple / partial *)
      rewrite Hlt1 in H.
      destruct (match pn2 with Some pname => opt_eqb (tname info1) (Some pname) | None => true end) eqn:Hn; [|triv H].
      destruct (all_partial_fields_spec (check_rel cfg P All f) (s + p) HRS (tfields info1) Hfs1 pf2 A ss ps b A1 Hpf2
                  (fun a f0 Ha Hf0 => Nat.add_lt_mono _ _ _ _ (topo_tuple _ _ _ _ Hls Hlt1 Ha) (topo_partial _ _ _ _ Hlp Hf0))
                  HI' H) as [HP Hall].
      split; [exact HP|intros Hb]. eapply sub_tuple_partial; [exact Hls|exact Hlt1|exact Hlp| |apply Hall; exact Hb].
      destruct pn2; [right; apply opt_eqb_eq in Hn; congruence|left; reflexivity].
    - (* partial / tuple *)
      rewrite andb_false_r in H. triv H.
    - (* partial / partial *)
      assert (Hnames : forall clash : bool,
                 (if cfg_partial_name cfg && true
                  then match pn2 with Some _ => negb (opt_eqb pn1 pn2) | None => false end
                  else match pn1, pn2 with Some n1, Some n2 => negb (n1 =? n2) | _, _ => false end) = false ->
                 pn2 = None \/ pn1 = pn2).
      { intros _ Hcl. rewrite andb_true_r in Hcl. destruct (cfg_partial_name cfg) eqn:Hpn.
        - destruct pn2; [|left; reflexivity]. right. apply negb_false_iff in Hcl. apply opt_eqb_eq in Hcl. exact Hcl.
        - destruct Hnamed as [Hx|Hx]; [rewrite Hx in Hpn; discriminate|].
          destruct Hnm2 as [Hy|Hy]; [rewrite Hx in Hy; discriminate|]. left; exact Hy. }
      match type of H with (if ?c then _ else _) = _ => destruct c eqn:Hcl end; [triv H|].
      specialize (Hnames true eq_refl).
      destruct (all_partial_partial_spec (check_rel cfg P All f) (s + p) HRS pf1 Hpf1 pf2 A ss ps b A1 Hpf2
                  (fun a f0 Ha Hf0 => Nat.add_lt_mono _ _ _ _ (topo_partial _ _ _ _ Hls Ha) (topo_partial _ _ _ _ Hlp Hf0))
                  HI' H) as [HP Hall].
      split; [exact HP|intros Hb]. eapply sub_partial_partial; [exact Hls|exact Hlp|exact Hnames|apply Hall; exact Hb].
    - (* callable / callable *)
      rewrite andb_false_r in H.
      destruct (topo_callable _ _ _ _ Hls) as [Hp1 [Hr1 Hc1]].
      destruct (topo_callable _ _ _ _ Hlp) as [Hp2 [Hr2 Hc2]].
      (* the three component checks from any start set A0 that satisfies the invariant *)
      assert (Hbody : forall A0 css cps ss1 ps1 b0 A2, Inv A0 (s + p) ->
                and_then (check_rel cfg P All f A0 css cps p2 p1) (fun A1 =>
                and_then (check_rel cfg P All f A1 ss1 ps1 r1 r2) (fun A2 =>
                check_rel cfg P All f A2 css cps c2 c1)) = Some (b0, A2) ->
                Post A0 A2 /\ (b0 = true -> sub s p)).
      { intros A0 css cps ss1 ps1 b0 A2 HI0 H0. unfold and_then in H0.
        match type of H0 with match ?e with _ => _ end = _ => destruct e as [[b1 A1']|] eqn:E1 end; [|discriminate].
        destruct (HRS _ _ _ _ _ _ _ Hcp2 Hcp1 ltac:(lia) HI0 E1) as [HP1 Hs1].
        destruct b1; [|inversion H0; subst; split; [exact HP1|discriminate]].
        match type of H0 with match ?e with _ => _ end = _ => destruct e as [[b2 A2']|] eqn:E2 end; [|discriminate].
        destruct (HRS _ _ _ _ _ _ _ Hcr1 Hcr2 ltac:(lia) (Inv_Post _ _ _ HI0 HP1) E2) as [HP2 Hs2].
        destruct b2; [|inversion H0; subst; split; [eapply Post_trans; eassumption|discriminate]].
        destruct (HRS _ _ _ _ _ _ _ Hcc2 Hcc1 ltac:(lia) (Inv_Post _ _ _ (Inv_Post _ _ _ HI0 HP1) HP2) H0) as [HP3 Hs3].
        split; [eapply Post_trans; [eapply Post_trans|]; eassumption|intros Hb].
        eapply sub_callable; [exact Hls|exact Hlp|apply Hs1; reflexivity|apply Hs2; reflexivity|apply Hs3; exact Hb]. }
      destruct (cfg_callable_assume cfg).
      + eapply Hins; [|exact H]. intros b0 A2 Hr. eapply Hbody; [exact HIk|exact Hr].
      + eapply Hbody; [exact HI'|exact H].
    - (* process / process *)
      rewrite andb_false_r in H.
      destruct (topo_process _ _ _ Hls) as [Hs1' Hr1'].
      destruct (topo_process _ _ _ Hlp) as [Hs2' Hr2'].
      match type of H with match ?e with _ => _ end = _ => destruct e as [[b1 A1']|] eqn:E1 end; [|discriminate].
      destruct (HRS _ _ _ _ _ _ _ Hcs1 Hcs2 ltac:(lia) HI' E1) as [HP1 Hsub1].
      match type of H with match ?e with _ => _ end = _ => destruct e as [[b2 A2']|] eqn:E2 end; [|discriminate].
      destruct (HRS _ _ _ _ _ _ _ Hcr1 Hcr2 ltac:(lia) (Inv_Post _ _ _ HI' HP1) E2) as [HP2 Hsub2].
      inversion H; subst. split; [eapply Post_trans; eassumption|intros Hb].
      apply andb_true_iff in Hb. destruct Hb as [Hb1 Hb2].
      eapply sub_process; [exact Hls|exact Hlp|apply Hsub1; exact Hb1|apply Hsub2; exact Hb2].
  Qed.
End RelSound.

(* ------------------------------------------------------------------ boolean domain predicate *)
Section Domain.
  Variable P : registry.
  Variable named_ok : bool.

  (* cycle-free, variable-free, processes with both directions known (boolean form of CF) *)
  Fixpoint cfb (k : nat) (t : nat) : bool :=
    match k with
    | 0 => false
    | S k' =>
      match lookup_type P t with
      | Some TInteger | Some TBinary | Some TReference | Some (TResource _) => true
      | Some (TUnion vs) => forallb (cfb k') vs
      | Some (TTuple tid) =>
        match lookup_tuple P tid with
        | Some info => forallb (fun f => cfb k' (snd f)) (tfields info)
        | None => false
        end
      | Some (TPartial pn fs) =>
        (named_ok || match pn with None => true | Some _ => false end) && forallb (fun f => cfb k' (snd f)) fs
      | Some (TCallable p r rc) => cfb k' p && cfb k' r && cfb k' rc
      | Some (TProcess (Some s) (Some r)) => cfb k' s && cfb k' r
      | _ => false
      end
    end.

  Lemma cfb_CF : forall k t, cfb k t = true -> CF P named_ok t.
  Proof.
    induction k as [|k IH]; intros t H; [discriminate|]. cbn in H.
    destruct (lookup_type P t) as [ty|] eqn:Hl; [|discriminate].
    destruct ty as [| | |tid|pn fs|p r rc|d|vs|s r|r|v]; try discriminate.
    - eapply CF_int; eassumption.
    - eapply CF_bin; eassumption.
    - eapply CF_ref; eassumption.
    - destruct (lookup_tuple P tid) as [info|] eqn:Ht; [|discriminate].
      eapply CF_tuple; [eassumption|eassumption|]. rewrite forallb_forall in H. intros f Hf. apply IH. apply H. exact Hf.
    - apply andb_true_iff in H. destruct H as [Hn Hf].
      eapply CF_partial; [eassumption| |].
      + destruct named_ok; [left; reflexivity|]. destruct pn; [discriminate|right; reflexivity].
      + rewrite forallb_forall in Hf. intros f Hin. apply IH. apply Hf. exact Hin.
    - apply andb_true_iff in H. destruct H as [H Hc]. apply andb_true_iff in H. destruct H as [Hp Hr].
      eapply CF_callable; [eassumption|apply IH; assumption|apply IH; assumption|apply IH; assumption].
    - eapply CF_union; [eassumption|]. rewrite forallb_forall in H. intros u Hu. apply IH. apply H. exact Hu.
    - destruct s as [s|]; [|discriminate]. destruct r as [r|]; [|discriminate].
      apply andb_true_iff in H. destruct H as [Hs Hr].
      eapply CF_process; [eassumption|apply IH; assumption|apply IH; assumption].
    - eapply CF_res; eassumption.
  Qed.
End Domain.

(* the fragment on which compat_sound is proved *)
Definition cf_domain (cfg : rel_cfg) (P : registry) (t : nat) : bool :=
  topob P && cfb P (cfg_partial_name cfg) (S (length (types P))) t.

Theorem compat_sound_cf : forall cfg P fuel a b,
  cfg_retract cfg = true ->
  cf_domain cfg P a = true -> cf_domain cfg P b = true ->
  is_compatible_with cfg fuel P a b = Some true ->
  forall n v, inhab P n [] v a -> inhab P n [] v b.
Proof.
  intros cfg P fuel a b Hret Ha Hb Hc n v Hv.
  unfold cf_domain in *. apply andb_true_iff in Ha. destruct Ha as [Ht Ha]. apply andb_true_iff in Hb. destruct Hb as [_ Hb].
  apply topob_topo in Ht. apply cfb_CF in Ha. apply cfb_CF in Hb.
  unfold is_compatible_with in Hc.
  destruct (check_rel cfg P All fuel [] [] [] a b) as [[r A1]|] eqn:Hr; [|discriminate]. cbn in Hc. inversion Hc; subst r.
  assert (Hnamed : cfg_partial_name cfg = true \/ cfg_partial_name cfg = false) by (destruct (cfg_partial_name cfg); auto).
  destruct (check_sound cfg P (cfg_partial_name cfg) Hret Hnamed Ht fuel [] [] [] a b true A1 Ha Hb
              (fun k (Hin : In k []) => match Hin with end) Hr) as [_ Hsub].
  eapply (Hsub eq_refl). exact Hv.
Qed.

(* reflexivity holds outright (fast path), for every registry and every id *)
Theorem compat_refl_all : forall cfg P fuel a, is_compatible_with cfg (S fuel) P a a = Some true.
Proof. intros. unfold is_compatible_with. cbn. unfold step. rewrite Nat.eqb_refl. reflexivity. Qed.
