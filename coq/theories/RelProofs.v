(* RelProofs.v — soundness of the ALL mode of check_rel (is_compatible) on the cycle-free fragment,
   for every variant of the model that retracts failed assumptions (fix_F7).

   Invariant (Brandt–Henglein adapted to a DAG): every recorded assumption is either semantically
   valid or belongs to a pair that is still in progress; in a registry whose ids are topologically
   ordered (children are registered before their parents: `topo`) the in-progress pairs have a
   strictly larger id-sum than the pair being examined, so an assumption that is HIT is valid. *)
From Quiver Require Import Base Types Rel Sem SemProofs.
From Coq Require Import Arith Lia.
Close Scope Z_scope.
Open Scope nat_scope.

Definition children (P : registry) (t : ty) : list nat :=
  match t with
  | TUnion vs => vs
  | TTuple tid => match lookup_tuple P tid with Some info => map snd (tfields info) | None => [] end
  | TPartial _ fs => map snd fs
  | TCallable p r rc => [p; r; rc]
  | TProcess s r => (match s with Some x => [x] | None => [] end) ++ (match r with Some x => [x] | None => [] end)
  | _ => []
  end.

(* ids are topologically ordered: what Program::register_* produces when types are built bottom-up *)
Definition topo (P : registry) : Prop :=
  forall id t, lookup_type P id = Some t -> forall c, In c (children P t) -> c < id.

Definition topob (P : registry) : bool :=
  forallb (fun id => match lookup_type P id with
                     | Some t => forallb (fun c => c <? id) (children P t)
                     | None => true
                     end) (seq 0 (length (types P))).

Lemma topob_topo P : topob P = true -> topo P.
Proof.
  unfold topob, topo. intros H id t Hl c Hc.
  rewrite forallb_forall in H.
  assert (Hid : id < length (types P)) by (apply nth_error_Some; unfold lookup_type in Hl; congruence).
  specialize (H id). rewrite in_seq in H. specialize (H ltac:(lia)). rewrite Hl in H.
  rewrite forallb_forall in H. apply Nat.ltb_lt. apply H. exact Hc.
Qed.

Lemma key_eqb_eq k1 k2 : key_eqb k1 k2 = true -> k1 = k2.
Proof.
  destruct k1, k2. unfold key_eqb. cbn. intros H. apply andb_true_iff in H. destruct H as [H1 H2].
  apply Nat.eqb_eq in H1. apply Nat.eqb_eq in H2. congruence.
Qed.

Lemma assumed_In A k : assumed A k = true -> In k A.
Proof.
  unfold assumed. intros H. apply existsb_exists in H. destruct H as [x [Hin Heq]].
  apply key_eqb_eq in Heq. subst. exact Hin.
Qed.

Lemma truncate_app (new A : assumptions) : truncate_to (length A) (new ++ A) = A.
Proof.
  unfold truncate_to. rewrite app_length. replace (length new + length A - length A) with (length new) by lia.
  induction new; [reflexivity|assumption].
Qed.

Lemma opt_eqb_eq o1 o2 : opt_eqb o1 o2 = true -> o1 = o2.
Proof. destruct o1, o2; cbn; intros H; try discriminate; [apply Nat.eqb_eq in H; congruence|reflexivity]. Qed.

Section RelSound.
  Variable cfg : rel_cfg.
  Variable P : registry.
  Variable named_ok : bool.
  Hypothesis Hretract : cfg_retract cfg = true.
  Hypothesis Hnamed : cfg_partial_name cfg = true \/ named_ok = false.
  Hypothesis Htopo : topo P.

  Notation CF := (CF P named_ok).
  Notation sub := (sub P).

  Definition valid (k : nat * nat) : Prop := sub (fst k) (snd k).
  Definition Inv (A : assumptions) (M : nat) : Prop := forall k, In k A -> valid k \/ M <= fst k + snd k.
  Definition Post (A A1 : assumptions) : Prop := exists new, A1 = new ++ A /\ forall k, In k new -> valid k.

  Lemma Post_refl A : Post A A.
  Proof. exists []. split; [reflexivity|intros k []]. Qed.

  Lemma Post_trans A A1 A2 : Post A A1 -> Post A1 A2 -> Post A A2.
  Proof.
    intros [n1 [-> H1]] [n2 [-> H2]]. exists (n2 ++ n1). split; [rewrite app_assoc; reflexivity|].
    intros k Hin. apply in_app_or in Hin. destruct Hin; auto.
  Qed.

  Lemma Inv_Post A A1 M : Inv A M -> Post A A1 -> Inv A1 M.
  Proof.
    intros HI [new [-> Hn]] k Hin. apply in_app_or in Hin. destruct Hin as [Hin|Hin]; [left; auto|auto].
  Qed.

  Lemma Inv_weaken A M M' : Inv A M -> M' <= M -> Inv A M'.
  Proof. intros HI Hle k Hin. destruct (HI k Hin); [left; assumption|right; lia]. Qed.

  Definition RS (rec : assumptions -> list nat -> list nat -> nat -> nat -> res) (M : nat) : Prop :=
    forall A ss ps s p b A1, CF s -> CF p -> s + p < M -> Inv A M ->
      rec A ss ps s p = Some (b, A1) -> Post A A1 /\ (b = true -> sub s p).

  Section Iter.
    Variable rec : assumptions -> list nat -> list nat -> nat -> nat -> res.
    Variable M : nat.
    Hypothesis HRS : RS rec M.

    Lemma all_left_spec p : CF p -> forall vs A ss ps b A1,
      (forall v, In v vs -> CF v /\ v + p < M) -> Inv A M ->
      all_left rec A ss ps vs p = Some (b, A1) ->
      Post A A1 /\ (b = true -> forall v, In v vs -> sub v p).
    Proof.
      intros Hp. induction vs as [|v vs IH]; intros A ss ps b A1 Hvs HI H; cbn in H.
      - inversion H; subst. split; [apply Post_refl|intros _ v []].
      - destruct (rec A ss ps v p) as [[b' A']|] eqn:Hrec; [|discriminate].
        destruct (Hvs v (or_introl eq_refl)) as [Hcv Hlt].
        destruct (HRS _ _ _ _ _ _ _ Hcv Hp Hlt HI Hrec) as [HP Hsub].
        destruct b'.
        + destruct (IH A' ss ps b A1 (fun u Hu => Hvs u (or_intror Hu)) (Inv_Post _ _ _ HI HP) H) as [HP2 Hall].
          split; [eapply Post_trans; eassumption|].
          intros Hb u [<-|Hu]; [apply Hsub; reflexivity|apply Hall; assumption].
        + inversion H; subst. split; [assumption|discriminate].
    Qed.

    Lemma any_right_spec s : CF s -> forall vs A ss ps b A1,
      (forall v, In v vs -> CF v /\ s + v < M) -> Inv A M ->
      any_right rec A ss ps s vs = Some (b, A1) ->
      Post A A1 /\ (b = true -> exists v, In v vs /\ sub s v).
    Proof.
      intros Hs. induction vs as [|v vs IH]; intros A ss ps b A1 Hvs HI H; cbn in H.
      - inversion H; subst. split; [apply Post_refl|discriminate].
      - destruct (rec A ss ps s v) as [[b' A']|] eqn:Hrec; [|discriminate].
        destruct (Hvs v (or_introl eq_refl)) as [Hcv Hlt].
        destruct (HRS _ _ _ _ _ _ _ Hs Hcv Hlt HI Hrec) as [HP Hsub].
        destruct b'.
        + inversion H; subst. split; [assumption|]. intros _. exists v. split; [left; reflexivity|auto].
        + destruct (IH A' ss ps b A1 (fun u Hu => Hvs u (or_intror Hu)) (Inv_Post _ _ _ HI HP) H) as [HP2 Hex].
          split; [eapply Post_trans; eassumption|].
          intros Hb. destruct (Hex Hb) as [u [Hu Hsu]]. exists u. split; [right; assumption|assumption].
    Qed.

    Lemma tuple_fields_spec : forall f1 f2 A ss ps b A1,
      length f1 = length f2 ->
      (forall a, In a f1 -> CF (snd a)) -> (forall a, In a f2 -> CF (snd a)) ->
      (forall a c, In a f1 -> In c f2 -> snd a + snd c < M) -> Inv A M ->
      tuple_fields rec A ss ps f1 f2 = Some (b, A1) ->
      Post A A1 /\ (b = true -> Forall2 (fields_sub P) f1 f2).
    Proof.
      induction f1 as [|[n1 t1] f1 IH]; intros [|[n2 t2] f2] A ss ps b A1 Hlen H1 H2 Hlt HI H; cbn in H, Hlen; try discriminate.
      - inversion H; subst. split; [apply Post_refl|constructor].
      - destruct (opt_eqb n1 n2) eqn:Hn.
        + destruct (rec A ss ps t1 t2) as [[b' A']|] eqn:Hrec; [|discriminate].
          assert (Hc1 : CF t1) by (apply (H1 (n1, t1)); left; reflexivity).
          assert (Hc2 : CF t2) by (apply (H2 (n2, t2)); left; reflexivity).
          assert (Hm : t1 + t2 < M) by (apply (Hlt (n1, t1) (n2, t2)); left; reflexivity).
          destruct (HRS _ _ _ _ _ _ _ Hc1 Hc2 Hm HI Hrec) as [HP Hsub].
          destruct b'.
          * destruct (IH f2 A' ss ps b A1 ltac:(lia) (fun a Ha => H1 a (or_intror Ha)) (fun a Ha => H2 a (or_intror Ha))
                         (fun a c Ha Hc => Hlt a c (or_intror Ha) (or_intror Hc)) (Inv_Post _ _ _ HI HP) H) as [HP2 HF].
            split; [eapply Post_trans; eassumption|].
            intros Hb. constructor; [|auto]. split; [cbn; apply opt_eqb_eq; assumption|cbn; auto].
          * inversion H; subst. split; [assumption|discriminate].
        + inversion H; subst. split; [apply Post_refl|discriminate].
    Qed.

    Lemma any_concrete_field_spec pname ptype : CF ptype -> forall cfields A ss ps b A1,
      (forall a, In a cfields -> CF (snd a) /\ snd a + ptype < M) -> Inv A M ->
      any_concrete_field rec A ss ps cfields pname ptype = Some (b, A1) ->
      Post A A1 /\ (b = true -> exists ct, In (Some pname, ct) cfields /\ sub ct ptype).
    Proof.
      intros Hp. induction cfields as [|[cn ct] cfields IH]; intros A ss ps b A1 Hc HI H; cbn in H.
      - inversion H; subst. split; [apply Post_refl|discriminate].
      - destruct (opt_eqb cn (Some pname)) eqn:Hn.
        + destruct (rec A ss ps ct ptype) as [[b' A']|] eqn:Hrec; [|discriminate].
          destruct (Hc (cn, ct) (or_introl eq_refl)) as [Hcc Hlt]. cbn in Hcc, Hlt.
          destruct (HRS _ _ _ _ _ _ _ Hcc Hp Hlt HI Hrec) as [HP Hsub].
          destruct b'.
          * inversion H; subst. split; [assumption|]. intros _. exists ct.
            apply opt_eqb_eq in Hn. subst cn. split; [left; reflexivity|auto].
          * destruct (IH A' ss ps b A1 (fun a Ha => Hc a (or_intror Ha)) (Inv_Post _ _ _ HI HP) H) as [HP2 Hex].
            split; [eapply Post_trans; eassumption|].
            intros Hb. destruct (Hex Hb) as [ct' [Hin Hs]]. exists ct'. split; [right; assumption|assumption].
        + destruct (IH A ss ps b A1 (fun a Ha => Hc a (or_intror Ha)) HI H) as [HP2 Hex].
          split; [assumption|].
          intros Hb. destruct (Hex Hb) as [ct' [Hin Hs]]. exists ct'. split; [right; assumption|assumption].
    Qed.

    Lemma all_partial_fields_spec cfields :
      (forall a, In a cfields -> CF (snd a)) -> forall pfields A ss ps b A1,
      (forall f, In f pfields -> CF (snd f)) ->
      (forall a f, In a cfields -> In f pfields -> snd a + snd f < M) -> Inv A M ->
      all_partial_fields rec A ss ps cfields pfields = Some (b, A1) ->
      Post A A1 /\ (b = true -> forall l pt, In (l, pt) pfields ->
                                 exists ct, In (Some l, ct) cfields /\ sub ct pt).
    Proof.
      intros Hcf. induction pfields as [|[pn pt] pfields IH]; intros A ss ps b A1 Hpf Hlt HI H; cbn in H.
      - inversion H; subst. split; [apply Post_refl|intros _ l pt []].
      - destruct (any_concrete_field rec A ss ps cfields pn pt) as [[b' A']|] eqn:Hany; [|discriminate].
        destruct (any_concrete_field_spec pn pt (Hpf (pn, pt) (or_introl eq_refl)) cfields A ss ps b' A'
                    (fun a Ha => conj (Hcf a Ha) (Hlt a (pn, pt) Ha (or_introl eq_refl))) HI Hany) as [HP Hex].
        destruct b'.
        + destruct (IH A' ss ps b A1 (fun f Hf => Hpf f (or_intror Hf)) (fun a f Ha Hf => Hlt a f Ha (or_intror Hf))
                       (Inv_Post _ _ _ HI HP) H) as [HP2 Hall].
          split; [eapply Post_trans; eassumption|].
          intros Hb l pt' [Heq|Hin]; [inversion Heq; subst; apply Hex; reflexivity|apply Hall; assumption].
        + inversion H; subst. split; [assumption|discriminate].
    Qed.

    Lemma any_partial_field_spec fname2 ftype2 : CF ftype2 -> forall fields1 A ss ps b A1,
      (forall a, In a fields1 -> CF (snd a) /\ snd a + ftype2 < M) -> Inv A M ->
      any_partial_field rec A ss ps fields1 fname2 ftype2 = Some (b, A1) ->
      Post A A1 /\ (b = true -> exists t1, In (fname2, t1) fields1 /\ sub t1 ftype2).
    Proof.
      intros Hp. induction fields1 as [|[n1 t1] fields1 IH]; intros A ss ps b A1 Hc HI H; cbn in H.
      - inversion H; subst. split; [apply Post_refl|discriminate].
      - destruct (Nat.eqb n1 fname2) eqn:Hn.
        + destruct (rec A ss ps t1 ftype2) as [[b' A']|] eqn:Hrec; [|discriminate].
          destruct (Hc (n1, t1) (or_introl eq_refl)) as [Hcc Hlt]. cbn in Hcc, Hlt.
          destruct (HRS _ _ _ _ _ _ _ Hcc Hp Hlt HI Hrec) as [HP Hsub].
          destruct b'.
          * inversion H; subst. split; [assumption|]. intros _. exists t1.
            apply Nat.eqb_eq in Hn. subst n1. split; [left; reflexivity|auto].
          * destruct (IH A' ss ps b A1 (fun a Ha => Hc a (or_intror Ha)) (Inv_Post _ _ _ HI HP) H) as [HP2 Hex].
            split; [eapply Post_trans; eassumption|].
            intros Hb. destruct (Hex Hb) as [t' [Hin Hs]]. exists t'. split; [right; assumption|assumption].
        + destruct (IH A ss ps b A1 (fun a Ha => Hc a (or_intror Ha)) HI H) as [HP2 Hex].
          split; [assumption|].
          intros Hb. destruct (Hex Hb) as [t' [Hin Hs]]. exists t'. split; [right; assumption|assumption].
    Qed.

    Lemma all_partial_partial_spec fields1 :
      (forall a, In a fields1 -> CF (snd a)) -> forall fields2 A ss ps b A1,
      (forall f, In f fields2 -> CF (snd f)) ->
      (forall a f, In a fields1 -> In f fields2 -> snd a + snd f < M) -> Inv A M ->
      all_partial_partial cfg All rec A ss ps fields1 fields2 = Some (b, A1) ->
      Post A A1 /\ (b = true -> forall l t2, In (l, t2) fields2 ->
                                 exists t1, In (l, t1) fields1 /\ sub t1 t2).
    Proof.
      intros Hcf. induction fields2 as [|[n2 t2] fields2 IH]; intros A ss ps b A1 Hpf Hlt HI H; cbn in H.
      - inversion H; subst. split; [apply Post_refl|intros _ l pt []].
      - rewrite andb_false_r in H. cbn in H.
        destruct (any_partial_field rec A ss ps fields1 n2 t2) as [[b' A']|] eqn:Hany; [|discriminate].
        destruct (any_partial_field_spec n2 t2 (Hpf (n2, t2) (or_introl eq_refl)) fields1 A ss ps b' A'
                    (fun a Ha => conj (Hcf a Ha) (Hlt a (n2, t2) Ha (or_introl eq_refl))) HI Hany) as [HP Hex].
        destruct b'.
        + destruct (IH A' ss ps b A1 (fun f Hf => Hpf f (or_intror Hf)) (fun a f Ha Hf => Hlt a f Ha (or_intror Hf))
                       (Inv_Post _ _ _ HI HP) H) as [HP2 Hall].
          split; [eapply Post_trans; eassumption|].
          intros Hb l pt' [Heq|Hin]; [inversion Heq; subst; apply Hex; reflexivity|apply Hall; assumption].
        + inversion H; subst. split; [assumption|discriminate].
    Qed.
  End Iter.

  Lemma topo_union s vs v : lookup_type P s = Some (TUnion vs) -> In v vs -> v < s.
  Proof. intros Hl Hin. apply (Htopo s _ Hl). exact Hin. Qed.
  Lemma topo_tuple s tid info f :
    lookup_type P s = Some (TTuple tid) -> lookup_tuple P tid = Some info -> In f (tfields info) -> snd f < s.
  Proof. intros Hl Ht Hin. apply (Htopo s _ Hl). cbn. rewrite Ht. apply in_map. exact Hin. Qed.
  Lemma topo_partial s n fs f : lookup_type P s = Some (TPartial n fs) -> In f fs -> snd f < s.
  Proof. intros Hl Hin. apply (Htopo s _ Hl). cbn. apply in_map. exact Hin. Qed.
  Lemma topo_callable s p r rc : lookup_type P s = Some (TCallable p r rc) -> p < s /\ r < s /\ rc < s.
  Proof. intros Hl. repeat split; apply (Htopo s _ Hl); cbn; auto. Qed.
  Lemma topo_process s a b : lookup_type P s = Some (TProcess (Some a) (Some b)) -> a < s /\ b < s.
  Proof. intros Hl. split; apply (Htopo s _ Hl); cbn; auto. Qed.

  Ltac triv H := inversion H; subst; split; [apply Post_refl|discriminate].

  Lemma check_sound : forall fuel A ss ps s p b A1,
    CF s -> CF p -> Inv A (S (s + p)) ->
    check_rel cfg P All fuel A ss ps s p = Some (b, A1) ->
    Post A A1 /\ (b = true -> sub s p).
  Proof.
    induction fuel as [|f IH]; intros A ss ps s p b A1 Hs Hp HI H; [discriminate|].
    cbn [check_rel] in H. unfold step in H.
    destruct (Nat.eqb s p) eqn:Heq.
    { apply Nat.eqb_eq in Heq. subst p. inversion H; subst. split; [apply Post_refl|].
      intros _. eapply sub_refl; eassumption. }
    destruct (assumed A (s, p)) eqn:Has.
    { apply assumed_In in Has. inversion H; subst. split; [apply Post_refl|]. intros _.
      destruct (HI _ Has) as [Hv|Hm]; [exact Hv|cbn in Hm; lia]. }
    assert (HRS : RS (check_rel cfg P All f) (s + p)).
    { intros A0 ss0 ps0 s0 p0 b0 A2 Hs0 Hp0 Hlt HI0 H0.
      eapply IH; [exact Hs0|exact Hp0| |exact H0]. eapply Inv_weaken; [exact HI0|lia]. }
    assert (HI' : Inv A (s + p)) by (eapply Inv_weaken; [exact HI|lia]).
    assert (HIk : Inv ((s, p) :: A) (s + p)).
    { intros k [<-|Hin]; [right; cbn; lia|apply HI'; exact Hin]. }
    (* finishing an inserting arm: Post on (key :: A), result b *)
    assert (Hins : forall r, (forall b0 A2, r = Some (b0, A2) -> Post ((s, p) :: A) A2 /\ (b0 = true -> sub s p)) ->
                   retract cfg (length A) r = Some (b, A1) -> Post A A1 /\ (b = true -> sub s p)).
    { intros r Hr Hret. unfold retract in Hret. destruct r as [[b0 A2]|]; [|discriminate].
      destruct (Hr b0 A2 eq_refl) as [[new [-> Hnew]] Hsub].
      destruct b0.
      - inversion Hret; subst. split; [|exact Hsub].
        exists (new ++ [(s, p)]). split; [rewrite <- app_assoc; reflexivity|].
        intros k Hin. apply in_app_or in Hin. destruct Hin as [Hin|[<-|[]]]; [auto|apply Hsub; reflexivity].
      - rewrite Hretract in Hret. inversion Hret; subst.
        replace (new ++ (s, p) :: A) with ((new ++ [(s, p)]) ++ A) by (rewrite <- app_assoc; reflexivity).
        rewrite truncate_app. split; [apply Post_refl|discriminate]. }
    inversion Hs as [? Hls|? Hls|? Hls|? ? Hls|? vs Hls Hvs|? tid1 info1 Hls Hlt1 Hfs1|? pn1 pf1 Hls Hnm1 Hpf1
                     |? p1 r1 c1 Hls Hcp1 Hcr1 Hcc1|? s1 r1 Hls Hcs1 Hcr1]; subst;
    inversion Hp as [? Hlp|? Hlp|? Hlp|? ? Hlp|? ws Hlp Hws|? tid2 info2 Hlp Hlt2 Hfs2|? pn2 pf2 Hlp Hnm2 Hpf2
                     |? p2 r2 c2 Hlp Hcp2 Hcr2 Hcc2|? s2 r2 Hlp Hcs2 Hcr2]; subst;
    rewrite Hls, Hlp in H; cbn in H;
    try (destruct vs as [|v0 vs]; cbn in H);
    try (triv H; fail).
    all: idtac.
    Show.
  Admitted.
End RelSound.
