(* Types.v — M-Types: the type table of quiver-core (types.rs, program.rs).
   Definitions only (executable, total).  Proofs about them are in TypesProofs.v.

   Identifiers: type ids, tuple ids, cycle depths are `usize` in Rust and `nat` here (the model
   never does arithmetic on them that could overflow: only equality, list indexing and
   `len - depth`).  Tuple names, field labels, resource and variable names are `String` in Rust;
   only their equality is ever observed, so they are `nat` codes here (the harness renders code k
   as "N<k>" / "l<k>" / "R<k>" / "v<k>"; the builtin name "Ok" is code [name_ok]). *)
From Quiver Require Import Base.
From Coq Require Import Arith.
Close Scope Z_scope.
Open Scope nat_scope.

(* types.rs:20-54  `pub enum Type` — the 11 variants, in declaration order *)
Inductive ty :=
| TInteger
| TBinary
| TReference
| TTuple (tuple_id : nat)
| TPartial (name : option nat) (fields : list (nat * nat))   (* (field_name, type_id) *)
| TCallable (parameter result receive : nat)
| TCycle (depth : nat)
| TUnion (variants : list nat)
| TProcess (send receive : option nat)
| TResource (r : nat)
| TVariable (v : nat).

(* types.rs:57-64  TupleField = (Option<String>, usize); TupleTypeInfo { name, fields } *)
Record tuple_info := mk_tuple { tname : option nat; tfields : list (option nat * nat) }.

(* program.rs:13-19  the two tables of `Program` that TypeLookup reads *)
Record registry := mk_reg { tuples : list tuple_info; types : list ty }.

(* ---- structural equality (derive(PartialEq) on Type / TupleTypeInfo) ---- *)
Definition opt_eqb (o1 o2 : option nat) : bool :=
  match o1, o2 with
  | None, None => true
  | Some a, Some b => Nat.eqb a b
  | _, _ => false
  end.

Fixpoint list_eqb {A} (eqb : A -> A -> bool) (l1 l2 : list A) : bool :=
  match l1, l2 with
  | [], [] => true
  | x :: l1', y :: l2' => eqb x y && list_eqb eqb l1' l2'
  | _, _ => false
  end.

Definition pfield_eqb (f1 f2 : nat * nat) : bool :=
  Nat.eqb (fst f1) (fst f2) && Nat.eqb (snd f1) (snd f2).
Definition tfield_eqb (f1 f2 : option nat * nat) : bool :=
  opt_eqb (fst f1) (fst f2) && Nat.eqb (snd f1) (snd f2).

Definition ty_eqb (t1 t2 : ty) : bool :=
  match t1, t2 with
  | TInteger, TInteger => true
  | TBinary, TBinary => true
  | TReference, TReference => true
  | TTuple a, TTuple b => Nat.eqb a b
  | TPartial n1 f1, TPartial n2 f2 => opt_eqb n1 n2 && list_eqb pfield_eqb f1 f2
  | TCallable p1 r1 c1, TCallable p2 r2 c2 => Nat.eqb p1 p2 && Nat.eqb r1 r2 && Nat.eqb c1 c2
  | TCycle a, TCycle b => Nat.eqb a b
  | TUnion v1, TUnion v2 => list_eqb Nat.eqb v1 v2
  | TProcess s1 r1, TProcess s2 r2 => opt_eqb s1 s2 && opt_eqb r1 r2
  | TResource a, TResource b => Nat.eqb a b
  | TVariable a, TVariable b => Nat.eqb a b
  | _, _ => false
  end.

Definition tuple_eqb (name : option nat) (fields : list (option nat * nat)) (t : tuple_info) : bool :=
  opt_eqb (tname t) name && list_eqb tfield_eqb (tfields t) fields.

(* program.rs:21-29  impl TypeLookup for Program: `Vec::get` *)
Definition lookup_type (P : registry) (id : nat) : option ty := nth_error (types P) id.
Definition lookup_tuple (P : registry) (id : nat) : option tuple_info := nth_error (tuples P) id.

(* `iter().position(pred)` *)
Fixpoint position {A} (pred : A -> bool) (l : list A) : option nat :=
  match l with
  | [] => None
  | x :: l' => if pred x then Some 0 else option_map S (position pred l')
  end.

(* program.rs:145-160  register_tuple: dedup by (name, fields) equality, else push *)
Definition register_tuple (P : registry) (name : option nat) (fields : list (option nat * nat))
  : registry * nat :=
  match position (tuple_eqb name fields) (tuples P) with
  | Some index => (P, index)
  | None => (mk_reg (tuples P ++ [mk_tuple name fields]) (types P), length (tuples P))
  end.

(* program.rs:163-172  register_type: dedup by structural equality, else push *)
Definition register_type (P : registry) (t : ty) : registry * nat :=
  match position (ty_eqb t) (types P) with
  | Some index => (P, index)
  | None => (mk_reg (tuples P) (types P ++ [t]), length (types P))
  end.

(* program.rs:176-178  never(): register_type(Type::Union(vec![])) *)
Definition never (P : registry) : registry * nat := register_type P (TUnion []).

(* the code of the tuple name "Ok" (types.rs:8  OK = 1) *)
Definition name_ok : nat := 1000.

(* program.rs:42-59  Program::new(): tuple 0 = nil `[]`, tuple 1 = `Ok` *)
Definition new_registry : registry :=
  let '(P1, _) := register_tuple (mk_reg [] []) None [] in
  let '(P2, _) := register_tuple P1 (Some name_ok) [] in
  P2.

(* types.rs:124-129 / narrowing.rs:555-568  variants of a type id ([] when the id is unknown) *)
Definition get_type_variants (P : registry) (id : nat) : list nat :=
  match lookup_type P id with
  | None => []
  | Some (TUnion ids) => ids
  | Some _ => [id]
  end.
