(* C05 — Select follows its documented semantics: priority, filters, timeouts.
   ONLY property theorems, each closed by `exact <lemma>` and followed by Print Assumptions.

   Model     : sel/Select.v  — the select machine of quiver-core/src/executor.rs (handle_select,
               handle_select_continuation, initialize_select, ensure_select_start_time,
               process_select_sources, handle_select_timeout/process/receive, handle_receive_result,
               scan_mailbox_for_message, call_receive_function, complete_select,
               check_expired_timeouts, next_timeout_ms, notify_message / notify_result /
               mark_active, the Err arm of Worker::notify_result and the awaiters loop of
               Executor::step) for one process, re-entrant, filters as an oracle
               `verdict_of : receive index -> message -> Truthy n | VdNil | VdErr e`; `run` folds an
               arbitrary list of events (EStep now = one execution of the Select instruction; EMsg,
               EResult, EFail, EActive, ELocal = arrivals between entries; the clock value of each
               step is arbitrary).  `fix45` switches the proposed repair of F45 on.
   Spec      : sel/SelectSpec.v — select_spec (first ready source in written order), and the
               environment's await protocol (pending_awaits) with `merge` = the repair of F8.
   Proofs    : sel/SelectRefine.v, sel/SelectProofs.v, sel/AwaitProofs.v; non-vacuity Examples
               ex_select_completes, ex_timeout_fires, stale_await_witness_repaired,
               await_protocol_witness_repaired, wf_history_inhabited.

   How "ready at the moment it completes" is made precise.  The theorems speak about ENTRIES
   (executions of the Select instruction).  An entry that completes the select yields exactly
   select_spec of the state AT THAT ENTRY (mailbox, delivered results, start time, clock): a
   higher-priority source that becomes ready while a lower-priority filter runs wins at the next
   entry, the filter's verdict is dropped, its message stays.  Two things are NOT priority-ordered
   in the code and are stated as such, not hidden: (a) the failure of an awaited process is an
   asynchronous kill (EFail / ELocal None set the error at arrival, whatever else is ready);
   (b) a filter that fails does so inside its own frame before the next entry, so a source that
   became ready meanwhile cannot pre-empt it: the guarantee is that the filter was only CALLED on
   a message for which select_spec, on the CALLING entry's state, is Fail e. *)
(* ------------------------------------------------------------------------------------------------
   HOW THESE THEOREMS DISCHARGE THE PREMISES OF THE PROTOCOL CONE (sys/*.v, props/C04.v, C15.v)

   The protocol model M-Sys (sys/Proto.v) abstracts the behaviour of a process: what one time slice
   did is an input `did` of the step (d_sel: select state at the end of the slice, d_park: the pass
   over the sources found nothing ready, d_act: the Action returned, d_forget: process sources
   forgotten by complete_select, d_fin: the result).  Its no-lost-wake-up / quiescence theorems
   hold for every schedule UNDER premises on `did`, which are properties of the select machine.
   Below, left = premise in sys (file), right = theorem of THIS file about the select machine
   (sel/Select.v: `step` = one execution of the Select instruction; a slice that parks ends with
   such an entry, so "the slice parks" = "p_queued st' = false, p_error st' = None after an
   entry of a runnable live process"; `step_action` = the Action the slice returns;
   `p_unreported` = Process.unreported_awaits, emptied by EReport = notify_await_report and by a
   stored result; theorems about a PASS over the sources carry `p_unreported st = []`).

   sys/ProtoParked.v  park_honest d mail', clause 1 (d_park = true -> sl_start <> None -> every cursor
     of d_sel = |mail'|; conditional on the start time since /repo 8388832, F72: a select woken
     before every awaited process was reported parks again with the start time unset and its
     cursors untouched), hence honest_step / honest_run, used by C04 parked_has_no_unseen_message
        <-  C05_parked_started_select_is_fully_scanned  (the clause as sys states it: ANY parking entry,
                                                     start time set -> all cursors = |mailbox|)
            C05_parks_only_after_full_scan          (a pass over the sources — every awaited process
                                                     reported — parks with all cursors = |mailbox|
                                                     and the start time set)
            C05_reparks_until_all_reported          (the other parking entry of a live select: some
                                                     awaited process unreported -> parks again, nothing
                                                     evaluated, start time and `receiving` unset)
            C05_completes_only_after_all_reported   (F72 itself: no completion before every report)
            C05_never_parks_with_acceptable_message (in the machine's own terms: no message of the
                                                     mailbox is acceptable to any receive source;
                                                     also C05_parks_only_when_spec_waits above)
   sys/ProtoParked.v  park_honest d mail', clause 2 (d_act = Some (AAwait ts) -> sl_start = None)
        <-  C05_await_slice_has_not_started         (the Await slice is the initialising entry: start
                                                     unset, parks, ts = the process sources in order)
   sys/ProtoParked.v  time_honest now d  (d_sel = Some s, sl_start s = Some t0 -> no timeout of s due
     at now), used by C04 no_timeout_due_at_last_check / no_timeout_due_after_step
        <-  C05_never_parks_with_due_timeout        (for the slice that PARKS — by a pass or by an
                                                     Await: `expired s' now = false`)
            C05_parked_not_expired_at_same_clock    (check_expired_timeouts at the same clock leaves it)
        NOTE: time_honest as written in sys is not conditional on d_park.  Unconditionally it is
        FALSE of the select machine and of the real executor: a slice that ends RUNNABLE may end
        with a due timeout (`! [0]` at quantum 1; `! [&f, 0]` while the filter f runs) — Example
        ex_runnable_slice_may_end_with_due_timeout in sel/SelectRefine.v, real witness in the
        corpus.  The proof of no_timeout_due_after_step only uses the premise for the slice's
        process when it ends in `selecting` (the `Hreason` it discards), i.e. exactly what is
        proved here; the premise should read `d_park d = true -> ...` (an Await-parked slice has
        sl_start = None by clause 2 of park_honest).
   sys/ProtoAwait.v  await_honestb, conjunct (a)  (a slice is executed only for a process with
     p_res = None), used by C04 await_backed, parked_await_answer_in_flight, quiescent_no_ready
        <-  C05_dead_process_runs_no_entry          (a process completed in place by a failure: the
                                                     step only dequeues it; no entry, no Action)
            (a process that finished normally is outside this model: it is never queued again)
   sys/ProtoAwait.v  await_honestb, conjunct (b)  (d_act = Some (AAwait ts) -> every key of
     fold aremove d_forget awaiting is in ts), with d_forget = the process sources of the selects
     completed in the slice (complete_select, executor.rs ~2671-2681)
        <-  C05_complete_select_clears_process_sources  (d_forget: the completing entry removes
                                                     every process source of its select, from ANY map)
            C05_completed_select_awaits_nothing     (so the next select starts from no key)
            C05_awaiting_keys_subset_of_current_sources (invariant: every key is a process source
                                                     of the current, uncompleted select)
            C05_await_slice_leaves_only_its_targets (conjunct (b) itself)
        These four are about the code since /repo 09625d4 (fix45 = true); for the code before it
        conjunct (b) is false (C05_stale_await_kills_refuted: a completed select kept its keys).
        "A process blocks in one select at a time": the machine has one select state; a select
        inside a filter is rejected by handle_select_continuation (not modelled, see Select.v).
   The correspondence (vplib/props/c05.py) evaluates every one of these premises on the REAL
   executor after every slice of the process under test (counts `premise_*` in the evidence) and
   compares `step_action` with the Action the real step returned.
   ------------------------------------------------------------------------------------------------ *)
From Quiver Require Import Base.
From Quiver Require Import sel.Select sel.SelectSpec sel.SelectProofs sel.SelectRefine sel.AwaitProofs.

(* select_refines_spec: from the first entry on, under ANY history of entries and arrivals, an
   entry that completes the select (p_value None -> Some v) completes with select_spec evaluated on
   the state at that entry, and the mailbox afterwards is the one select_spec returns *)
Theorem C05_select_refines_spec :
  forall (fix45 : bool) (verdict_of : nat -> msg -> verdict) (written : list source)
         (mb0 : list msg) (aw0 : list (pid * option value)) (evs : list event) (st : proc)
         (now : Z) (st' : proc) (v : value),
    run fix45 verdict_of written evs (initial mb0 aw0) = Val st ->
    step fix45 verdict_of written now st = Val st' ->
    p_value st = None ->
    p_value st' = Some v ->
    exists s : sel_state,
      p_sel st = Some s /\
      select_spec verdict_of written (p_mailbox st) (p_awaiting st) (start_of s now) now =
      Complete v (p_mailbox st').
Proof. exact select_refines_spec. Qed.
Print Assumptions C05_select_refines_spec.

(* untaken_preserved_in_order: ... which is that entry's mailbox minus exactly the taken message
   (nothing, when the select completed by a process result or a timeout), order preserved *)
Theorem C05_untaken_preserved_in_order :
  forall (fix45 : bool) (verdict_of : nat -> msg -> verdict) (written : list source)
         (mb0 : list msg) (aw0 : list (pid * option value)) (evs : list event) (st : proc)
         (now : Z) (st' : proc) (v : value),
    run fix45 verdict_of written evs (initial mb0 aw0) = Val st ->
    step fix45 verdict_of written now st = Val st' ->
    p_value st = None ->
    p_value st' = Some v ->
    p_mailbox st' = p_mailbox st \/
    (exists (m : msg) (l1 l2 : list msg),
       v = VMsg m /\ p_mailbox st = l1 ++ m :: l2 /\ p_mailbox st' = l1 ++ l2).
Proof. exact untaken_preserved_in_order. Qed.
Print Assumptions C05_untaken_preserved_in_order.

(* an entry parks the process (runnable and alive before, not runnable and alive after) only when
   no source is ready: select_spec says Wait *)
Theorem C05_parks_only_when_spec_waits :
  forall (fix45 : bool) (verdict_of : nat -> msg -> verdict) (written : list source)
         (mb0 : list msg) (aw0 : list (pid * option value)) (evs : list event) (st : proc)
         (now : Z) (st' : proc) (s : sel_state),
    run fix45 verdict_of written evs (initial mb0 aw0) = Val st ->
    step fix45 verdict_of written now st = Val st' ->
    active now st s ->
    p_unreported st = [] ->
    p_queued st' = false ->
    p_error st' = None ->
    select_spec verdict_of written (p_mailbox st) (p_awaiting st) (start_of s now) now = Wait.
Proof. exact parks_only_when_spec_waits. Qed.
Print Assumptions C05_parks_only_when_spec_waits.

(* an entry fails the process with an executor error e only if the verdict it popped was that
   filter error, or select_spec on this entry's state is Fail e (an invalid source is reached
   before any ready one) *)
Theorem C05_fails_only_when_spec_fails :
  forall (fix45 : bool) (verdict_of : nat -> msg -> verdict) (written : list source)
         (mb0 : list msg) (aw0 : list (pid * option value)) (evs : list event) (st : proc)
         (now : Z) (st' : proc) (s : sel_state) (e : err),
    run fix45 verdict_of written evs (initial mb0 aw0) = Val st ->
    step fix45 verdict_of written now st = Val st' ->
    active now st s ->
    p_unreported st = [] ->
    p_error st' = Some (PErr e) ->
    (exists (r : nat) (m : msg), ss_receiving s = Some (r, m) /\ verdict_of r m = VdErr e) \/
    select_spec verdict_of written (p_mailbox st) (p_awaiting st) (start_of s now) now = Fail e.
Proof. exact fails_only_when_spec_fails. Qed.
Print Assumptions C05_fails_only_when_spec_fails.

(* ... and a filter that is going to fail is only ever called, on message m of receive source r,
   at an entry on whose state select_spec is already Fail e: no earlier source was ready and every
   earlier message of that source was rejected *)
Theorem C05_failing_filter_called_only_when_spec_fails :
  forall (fix45 : bool) (verdict_of : nat -> msg -> verdict) (written : list source)
         (mb0 : list msg) (aw0 : list (pid * option value)) (evs : list event) (st : proc)
         (now : Z) (st' : proc) (s s' : sel_state) (r : nat) (m : msg) (e : err),
    run fix45 verdict_of written evs (initial mb0 aw0) = Val st ->
    step fix45 verdict_of written now st = Val st' ->
    active now st s ->
    p_unreported st = [] ->
    (forall (r0 : nat) (m0 : msg) (e0 : err),
       ss_receiving s = Some (r0, m0) -> verdict_of r0 m0 <> VdErr e0) ->
    p_error st' = None ->
    p_value st' = None ->
    p_queued st' = true ->
    p_sel st' = Some s' ->
    ss_receiving s' = Some (r, m) ->
    verdict_of r m = VdErr e ->
    select_spec verdict_of written (p_mailbox st) (p_awaiting st) (start_of s now) now = Fail e.
Proof. exact failing_filter_called_only_when_spec_fails. Qed.
Print Assumptions C05_failing_filter_called_only_when_spec_fails.

(* cursor_skips_only_rejected: in every reachable state of a live select, every mailbox message
   before the cursor of a receive source is type-incompatible with it, or the source has a filter
   and the (pure) filter rejects it *)
Theorem C05_cursor_skips_only_rejected :
  forall (fix45 : bool) (verdict_of : nat -> msg -> verdict) (written : list source)
         (mb0 : list msg) (aw0 : list (pid * option value)) (evs : list event) (st : proc)
         (s : sel_state),
    run fix45 verdict_of written evs (initial mb0 aw0) = Val st ->
    p_error st = None ->
    p_sel st = Some s ->
    forall (r : nat) (c : list nat) (t : bool),
      nth_recv written r = Some (c, t) ->
      forall (j : nat) (m : msg),
        (j < cur_get r (ss_cursors s))%nat ->
        nth_error (p_mailbox st) j = Some m ->
        compat c m = false \/ t = false /\ verdict_of r m = VdNil.
Proof. exact cursor_skips_only_rejected_reach. Qed.
Print Assumptions C05_cursor_skips_only_rejected.

(* verdict_is_only_a_verdict: two filter oracles that agree on accept / reject / fail — whatever
   non-nil values they return — give the same run (every state, hence every yielded value) ... *)
Theorem C05_verdict_is_only_a_verdict :
  forall (fix45 : bool) (v1 v2 : nat -> msg -> verdict) (written : list source),
    (forall (r : nat) (m : msg), same_verdict (v1 r m) (v2 r m)) ->
    forall (evs : list event) (st : proc), run fix45 v1 written evs st = run fix45 v2 written evs st.
Proof. exact verdict_is_only_a_verdict. Qed.
Print Assumptions C05_verdict_is_only_a_verdict.

(* ... and the same specification *)
Theorem C05_spec_ignores_verdict_payload :
  forall v1 v2 : nat -> msg -> verdict,
    (forall (r : nat) (m : msg), same_verdict (v1 r m) (v2 r m)) ->
    forall (srcs : list source) (mb : list msg) (aw : list (pid * option value)) (start now : Z),
      select_spec v1 srcs mb aw start now = select_spec v2 srcs mb aw start now.
Proof. exact select_spec_same_verdict. Qed.
Print Assumptions C05_spec_ignores_verdict_payload.

(* timeout_not_early: if no clock value of the history (nor of the completing entry) is behind
   t0, a select that completes with nil although no awaited process delivered nil has a timeout d
   whose duration has elapsed since t0 — in particular since the select's first entry.
   (eff_timeout d = max d 0 for every d that fits an i64; the code clamps the others to 2^63-1.) *)
Theorem C05_timeout_not_early :
  forall (fix45 : bool) (verdict_of : nat -> msg -> verdict) (written : list source)
         (t0 : Z) (mb0 : list msg) (aw0 : list (pid * option value)) (evs : list event)
         (st : proc) (now : Z) (st' : proc),
    steps_ge t0 evs ->
    t0 <= now ->
    run fix45 verdict_of written evs (initial mb0 aw0) = Val st ->
    step fix45 verdict_of written now st = Val st' ->
    p_value st = None ->
    p_value st' = Some VNil ->
    (forall p : pid, aw_get p (p_awaiting st) <> Some (Some VNil)) ->
    exists d : Z, In (SrcTimeout d) written /\ Z.min d i64_max <= now - t0 /\ eff_timeout d <= now - t0.
Proof. exact timeout_not_early. Qed.
Print Assumptions C05_timeout_not_early.

Theorem C05_eff_timeout_in_range : forall d : Z, in_i64 d = true -> eff_timeout d = Z.max d 0.
Proof. exact eff_timeout_in_range. Qed.
Print Assumptions C05_eff_timeout_in_range.

(* the machine is total: no history reaches one of the index panics of the code
   (cursors[receive_idx] in handle_receive_result / call_receive_function) or a missing verdict *)
Theorem C05_machine_never_panics :
  forall (fix45 : bool) (verdict_of : nat -> msg -> verdict) (written : list source)
         (mb0 : list msg) (aw0 : list (pid * option value)) (evs : list event),
    exists st : proc, run fix45 verdict_of written evs (initial mb0 aw0) = Val st.
Proof. exact machine_never_panics. Qed.
Print Assumptions C05_machine_never_panics.

(* ---- the environment's await protocol (finding F8, fixed in /repo 5c787ac) ---- *)
(* the repaired code: a worker's later answer is merged into its earlier one.  For every history
   of ProcessResults events of an initial await (distinct keys per event, every target owned by
   one worker, every expected worker answers at least once, in ANY order and any number of times),
   what reaches the awaiter contains, for every target, the latest answer any worker gave *)
Theorem C05_await_protocol_delivers_all :
  forall (owner : pid -> wid) (expected : list wid) (evs : list (wid * answer)) (targets : list pid),
    wf_history owner expected evs -> delivers_all true expected evs targets.
Proof. exact await_protocol_delivers_all. Qed.
Print Assumptions C05_await_protocol_delivers_all.

(* the code before the repair (responses.insert REPLACED the earlier answer): refuted by the
   history `w1:{p1:11,p3:-}  w1:{p3:33}  w0:{p2:-}` of `! [p1, p3, p2]` — kept as the record of what
   the repair is for; the correspondence check fails if the real code behaves like this again *)
Theorem C05_await_protocol_refuted_before_repair :
  exists expected evs targets, ~ delivers_all false expected evs targets.
Proof. exact await_protocol_refuted. Qed.
Print Assumptions C05_await_protocol_refuted_before_repair.

(* ---- finding F45: stale awaits ---- *)
(* the code as it stands (fix45 = false): a process whose select has completed is killed by the
   later failure of a process that select awaited: `! [p0, 0]` yields nil, then p0 fails *)
Theorem C05_stale_await_kills_refuted : ~ completed_select_survives false.
Proof. exact stale_await_kills_refuted. Qed.
Print Assumptions C05_stale_await_kills_refuted.

(* with the proposed repair (complete_select forgets the select's targets; a failure only reaches
   a process that still awaits its origin) the un-negated statement holds for every history *)
Theorem C05_completed_select_survives_repaired : completed_select_survives true.
Proof. exact completed_select_survives_repaired. Qed.
Print Assumptions C05_completed_select_survives_repaired.

(* ================================================================================================
   The premises of the protocol cone, proved of the select machine (see the table at the top)
   ================================================================================================ *)

(* park_honest, clause 1: an entry parks a runnable live process only after scanning the whole
   mailbox with every receive source: all cursors are at the end of the mailbox and the sources
   have been evaluated (start time set) *)
Theorem C05_parks_only_after_full_scan :
  forall (fix45 : bool) (verdict_of : nat -> msg -> verdict) (written : list source)
         (mb0 : list msg) (aw0 : list (pid * option value)) (evs : list event)
         (st : proc) (now : Z) (st' : proc) (s : sel_state),
    run fix45 verdict_of written evs (initial mb0 aw0) = Val st ->
    step fix45 verdict_of written now st = Val st' ->
    active now st s ->
    p_unreported st = [] ->
    p_queued st' = false ->
    p_error st' = None ->
    exists s' : sel_state,
      p_sel st' = Some s' /\
      p_selecting st' = true /\
      ss_start s' <> None /\ Forall (fun c : nat => c = length (p_mailbox st')) (ss_cursors s').
Proof. exact parks_only_after_full_scan. Qed.
Print Assumptions C05_parks_only_after_full_scan.

(* ... it never parks with an unseen matching message: no message left in the mailbox is
   acceptable to any receive source *)
Theorem C05_never_parks_with_acceptable_message :
  forall (fix45 : bool) (verdict_of : nat -> msg -> verdict) (written : list source)
         (mb0 : list msg) (aw0 : list (pid * option value)) (evs : list event)
         (st : proc) (now : Z) (st' : proc) (s : sel_state),
    run fix45 verdict_of written evs (initial mb0 aw0) = Val st ->
    step fix45 verdict_of written now st = Val st' ->
    active now st s ->
    p_unreported st = [] ->
    p_queued st' = false ->
    p_error st' = None ->
    forall (r : nat) (c : list nat) (t : bool),
      nth_recv written r = Some (c, t) ->
      forall m : msg, In m (p_mailbox st') -> compat c m = false \/ t = false /\ verdict_of r m = VdNil.
Proof. exact never_parks_with_acceptable_message. Qed.
Print Assumptions C05_never_parks_with_acceptable_message.

(* park_honest, clause 2: the slice that returns Action::Await ts is the initialising entry: ts are
   the process sources in written order, the start time is unset, the process parks, and exactly
   ts are entered into `awaiting` with no result *)
Theorem C05_await_slice_has_not_started :
  forall (fix45 : bool) (verdict_of : nat -> msg -> verdict) (written : list source)
         (now : Z) (st st' : proc) (ts : list pid),
    step_action written now st = Some ts ->
    step fix45 verdict_of written now st = Val st' ->
    ts = pids_of written /\
    ts <> [] /\
    p_queued st' = false /\
    p_selecting st' = true /\
    (exists s' : sel_state,
       p_sel st' = Some s' /\
       ss_start s' = None /\
       ss_sources s' = written /\
       ss_receiving s' = None /\
       p_awaiting st' =
       fold_left (fun (aw : list (pid * option value)) (p : pid) => aw_insert p None aw) ts (p_awaiting st) /\
       p_unreported st' = ts).
Proof. exact await_slice_has_not_started. Qed.
Print Assumptions C05_await_slice_has_not_started.

(* time_honest (for the slice that parks): whichever way an entry parks the process, no timeout
   source of its select is due at the clock the entry ran with *)
Theorem C05_never_parks_with_due_timeout :
  forall (fix45 : bool) (verdict_of : nat -> msg -> verdict) (written : list source)
         (mb0 : list msg) (aw0 : list (pid * option value)) (evs : list event)
         (st : proc) (now : Z) (st' : proc),
    run fix45 verdict_of written evs (initial mb0 aw0) = Val st ->
    step fix45 verdict_of written now st = Val st' ->
    runs now st ->
    p_queued st' = false ->
    p_error st' = None -> forall s' : sel_state, p_sel st' = Some s' -> expired s' now = false.
Proof. exact never_parks_with_due_timeout. Qed.
Print Assumptions C05_never_parks_with_due_timeout.

(* ... so check_expired_timeouts of any later step at the same clock leaves it parked *)
Theorem C05_parked_not_expired_at_same_clock :
  forall (fix45 : bool) (verdict_of : nat -> msg -> verdict) (written : list source)
         (mb0 : list msg) (aw0 : list (pid * option value)) (evs : list event)
         (st : proc) (now : Z) (st' : proc),
    run fix45 verdict_of written evs (initial mb0 aw0) = Val st ->
    step fix45 verdict_of written now st = Val st' ->
    runs now st -> p_queued st' = false -> p_error st' = None -> check_expired now st' = st'.
Proof. exact parked_not_expired_at_same_clock. Qed.
Print Assumptions C05_parked_not_expired_at_same_clock.

(* await_honest (a): no entry is executed for a process whose result has been set in place by a
   failure notification: the step takes it off the queue, returns no Action, changes nothing else *)
Theorem C05_dead_process_runs_no_entry :
  forall (fix45 : bool) (verdict_of : nat -> msg -> verdict) (written : list source)
         (now : Z) (st st' : proc) (e : perr),
    p_error st = Some e ->
    step fix45 verdict_of written now st = Val st' ->
    step_action written now st = None /\
    p_sel st' = p_sel st /\
    p_mailbox st' = p_mailbox st /\
    p_awaiting st' = p_awaiting st /\
    p_value st' = p_value st /\ p_error st' = Some e /\ p_queued st' = false.
Proof. exact dead_process_runs_no_entry. Qed.
Print Assumptions C05_dead_process_runs_no_entry.

(* awaiting_keys_subset_of_current_sources (invariant, code since 09625d4): in every reachable
   state of a process that started with no awaited key, every key of `awaiting` is a process
   source of the current select, which exists and has not completed *)
Theorem C05_awaiting_keys_subset_of_current_sources :
  forall (verdict : nat -> msg -> verdict) (written : list source) (evs : list event)
         (mb : list msg) (st : proc),
    run true verdict written evs (initial mb []) = Val st ->
    forall p : pid,
      aw_has p (p_awaiting st) = true ->
      p_value st = None /\
      In (SrcProc p) written /\ (exists s : sel_state, p_sel st = Some s /\ ss_sources s = written).
Proof. exact awaiting_keys_subset_of_current_sources. Qed.
Print Assumptions C05_awaiting_keys_subset_of_current_sources.

(* complete_select_clears_process_sources: the entry that completes a select removes every process
   source of that select from `awaiting`, whatever the map held before *)
Theorem C05_complete_select_clears_process_sources :
  forall (verdict : nat -> msg -> verdict) (written : list source) (evs : list event)
         (mb : list msg) (aw0 : list (pid * option value)) (st : proc) (now : Z)
         (st' : proc) (v : value),
    run true verdict written evs (initial mb aw0) = Val st ->
    step true verdict written now st = Val st' ->
    p_value st = None ->
    p_value st' = Some v ->
    forall p : pid, In (SrcProc p) written -> aw_has p (p_awaiting st') = false.
Proof. exact complete_select_clears_process_sources. Qed.
Print Assumptions C05_complete_select_clears_process_sources.

(* ... hence a process that started with no awaited key awaits nothing once its select is over *)
Theorem C05_completed_select_awaits_nothing :
  forall (verdict : nat -> msg -> verdict) (written : list source) (evs : list event)
         (mb : list msg) (st : proc),
    run true verdict written evs (initial mb []) = Val st ->
    p_value st <> None -> forall p : pid, aw_has p (p_awaiting st) = false.
Proof. exact completed_select_awaits_nothing. Qed.
Print Assumptions C05_completed_select_awaits_nothing.

(* await_honest (b): when a slice ends with Action::Await on targets ts, every key that remains in
   `awaiting` is one of ts *)
Theorem C05_await_slice_leaves_only_its_targets :
  forall (verdict : nat -> msg -> verdict) (written : list source) (evs : list event)
         (mb : list msg) (st : proc) (now : Z) (st' : proc) (ts : list pid),
    run true verdict written evs (initial mb []) = Val st ->
    step_action written now st = Some ts ->
    step true verdict written now st = Val st' ->
    forall p : pid, aw_has p (p_awaiting st') = true -> In p ts.
Proof. exact await_slice_leaves_only_its_targets. Qed.
Print Assumptions C05_await_slice_leaves_only_its_targets.

(* ================================================================================================
   /repo 8388832 (F72): no evaluation before the await has reported every process source
   ================================================================================================ *)

(* a live select entered while some awaited process is still unreported parks again: the step
   changes nothing but the scheduling flags; its start time and `receiving` slot are unset *)
Theorem C05_reparks_until_all_reported :
  forall (fix45 : bool) (verdict_of : nat -> msg -> verdict) (written : list source)
         (mb0 : list msg) (aw0 : list (pid * option value)) (evs : list event)
         (st : proc) (now : Z) (s : sel_state),
    run fix45 verdict_of written evs (initial mb0 aw0) = Val st ->
    active now st s ->
    p_unreported st <> [] ->
    step fix45 verdict_of written now st = Val (set_flags (check_expired now st) false true) /\
    ss_start s = None /\ ss_receiving s = None.
Proof. exact reparks_until_all_reported. Qed.
Print Assumptions C05_reparks_until_all_reported.

(* an entry completes the select only when every awaited process has been reported *)
Theorem C05_completes_only_after_all_reported :
  forall (fix45 : bool) (verdict_of : nat -> msg -> verdict) (written : list source)
         (now : Z) (st st' : proc) (v : value),
    step fix45 verdict_of written now st = Val st' ->
    p_value st = None -> p_value st' = Some v -> p_unreported st = [].
Proof. exact completes_only_after_all_reported. Qed.
Print Assumptions C05_completes_only_after_all_reported.

(* park_honest clause 1 as the protocol cone states it now: ANY entry that parks a runnable live
   process, if it leaves the select with its start time set, leaves every cursor at the end of
   the mailbox *)
Theorem C05_parked_started_select_is_fully_scanned :
  forall (fix45 : bool) (verdict_of : nat -> msg -> verdict) (written : list source)
         (mb0 : list msg) (aw0 : list (pid * option value)) (evs : list event)
         (st : proc) (now : Z) (st' : proc),
    run fix45 verdict_of written evs (initial mb0 aw0) = Val st ->
    step fix45 verdict_of written now st = Val st' ->
    runs now st ->
    p_queued st' = false ->
    p_error st' = None ->
    forall s' : sel_state,
      p_sel st' = Some s' ->
      ss_start s' <> None -> Forall (fun c : nat => c = length (p_mailbox st')) (ss_cursors s').
Proof. exact parked_started_select_is_fully_scanned. Qed.
Print Assumptions C05_parked_started_select_is_fully_scanned.
