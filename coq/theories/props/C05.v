(* C05 — Select follows its documented semantics: priority, filters, timeouts.
   ONLY property theorems, each closed by `exact <lemma>` and followed by Print Assumptions.
   Model: sel/Select.v; specification: sel/SelectSpec.v; proofs: sel/SelectProofs.v. *)
From Quiver Require Import Base.
From Quiver Require Import sel.Select sel.SelectSpec sel.SelectProofs.

(* F8: with the code as it stands (a worker's later answer REPLACES its earlier one) the await
   protocol loses an already-delivered result *)
Theorem C05_await_protocol_refuted :
  exists expected evs targets, ~ delivers_all false expected evs targets.
Proof. exact await_protocol_refuted. Qed.
Print Assumptions C05_await_protocol_refuted.
