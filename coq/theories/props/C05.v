(* C05 — Select follows its documented semantics: priority, filters, timeouts.
   ONLY property theorems, each closed by `exact <lemma>` and followed by Print Assumptions.

   Model     : sel/Select.v  — the select machine of quiver-core/src/executor.rs (handle_select,
               handle_select_continuation, initialize_select, ensure_select_start_time,
               process_select_sources, handle_select_timeout/process/receive, handle_receive_result,
               scan_mailbox_for_message, call_receive_function, complete_select,
               check_expired_timeouts, next_timeout_ms, notify_message / notify_result /
               mark_active, the Err arm of Worker::notify_result and the awaiters loop of
               Executor::step) for one process, re-entrant, filters as an oracle
               `verdict_of : receive index -> message -> Truthy n | VdNil | VdErr e`; `run` folds an
               arbitrary list of events (EStep now = one execution of the Select instruction; EMsg,
               EResult, EFail, EActive, ELocal = arrivals between entries; the clock value of each
               step is arbitrary).  `fix45` switches the proposed repair of F45 on.
   Spec      : sel/SelectSpec.v — select_spec (first ready source in written order), and the
               environment's await protocol (pending_awaits) with `merge` = the repair of F8.
   Proofs    : sel/SelectRefine.v, sel/SelectProofs.v, sel/AwaitProofs.v; non-vacuity Examples
               ex_select_completes, ex_timeout_fires, stale_await_witness_repaired,
               await_protocol_witness_repaired, wf_history_inhabited.

   How "ready at the moment it completes" is made precise.  The theorems speak about ENTRIES
   (executions of the Select instruction).  An entry that completes the select yields exactly
   select_spec of the state AT THAT ENTRY (mailbox, delivered results, start time, clock): a
   higher-priority source that becomes ready while a lower-priority filter runs wins at the next
   entry, the filter's verdict is dropped, its message stays.  Two things are NOT priority-ordered
   in the code and are stated as such, not hidden: (a) the failure of an awaited process is an
   asynchronous kill (EFail / ELocal None set the error at arrival, whatever else is ready);
   (b) a filter that fails does so inside its own frame before the next entry, so a source that
   became ready meanwhile cannot pre-empt it: the guarantee is that the filter was only CALLED on
   a message for which select_spec, on the CALLING entry's state, is Fail e. *)
From Quiver Require Import Base.
From Quiver Require Import sel.Select sel.SelectSpec sel.SelectProofs sel.SelectRefine sel.AwaitProofs.

(* select_refines_spec: from the first entry on, under ANY history of entries and arrivals, an
   entry that completes the select (p_value None -> Some v) completes with select_spec evaluated on
   the state at that entry, and the mailbox afterwards is the one select_spec returns *)
Theorem C05_select_refines_spec :
  forall (fix45 : bool) (verdict_of : nat -> msg -> verdict) (written : list source)
         (mb0 : list msg) (aw0 : list (pid * option value)) (evs : list event) (st : proc)
         (now : Z) (st' : proc) (v : value),
    run fix45 verdict_of written evs (initial mb0 aw0) = Val st ->
    step fix45 verdict_of written now st = Val st' ->
    p_value st = None ->
    p_value st' = Some v ->
    exists s : sel_state,
      p_sel st = Some s /\
      select_spec verdict_of written (p_mailbox st) (p_awaiting st) (start_of s now) now =
      Complete v (p_mailbox st').
Proof. exact select_refines_spec. Qed.
Print Assumptions C05_select_refines_spec.

(* untaken_preserved_in_order: ... which is that entry's mailbox minus exactly the taken message
   (nothing, when the select completed by a process result or a timeout), order preserved *)
Theorem C05_untaken_preserved_in_order :
  forall (fix45 : bool) (verdict_of : nat -> msg -> verdict) (written : list source)
         (mb0 : list msg) (aw0 : list (pid * option value)) (evs : list event) (st : proc)
         (now : Z) (st' : proc) (v : value),
    run fix45 verdict_of written evs (initial mb0 aw0) = Val st ->
    step fix45 verdict_of written now st = Val st' ->
    p_value st = None ->
    p_value st' = Some v ->
    p_mailbox st' = p_mailbox st \/
    (exists (m : msg) (l1 l2 : list msg),
       v = VMsg m /\ p_mailbox st = l1 ++ m :: l2 /\ p_mailbox st' = l1 ++ l2).
Proof. exact untaken_preserved_in_order. Qed.
Print Assumptions C05_untaken_preserved_in_order.

(* an entry parks the process (runnable and alive before, not runnable and alive after) only when
   no source is ready: select_spec says Wait *)
Theorem C05_parks_only_when_spec_waits :
  forall (fix45 : bool) (verdict_of : nat -> msg -> verdict) (written : list source)
         (mb0 : list msg) (aw0 : list (pid * option value)) (evs : list event) (st : proc)
         (now : Z) (st' : proc) (s : sel_state),
    run fix45 verdict_of written evs (initial mb0 aw0) = Val st ->
    step fix45 verdict_of written now st = Val st' ->
    active now st s ->
    p_queued st' = false ->
    p_error st' = None ->
    select_spec verdict_of written (p_mailbox st) (p_awaiting st) (start_of s now) now = Wait.
Proof. exact parks_only_when_spec_waits. Qed.
Print Assumptions C05_parks_only_when_spec_waits.

(* an entry fails the process with an executor error e only if the verdict it popped was that
   filter error, or select_spec on this entry's state is Fail e (an invalid source is reached
   before any ready one) *)
Theorem C05_fails_only_when_spec_fails :
  forall (fix45 : bool) (verdict_of : nat -> msg -> verdict) (written : list source)
         (mb0 : list msg) (aw0 : list (pid * option value)) (evs : list event) (st : proc)
         (now : Z) (st' : proc) (s : sel_state) (e : err),
    run fix45 verdict_of written evs (initial mb0 aw0) = Val st ->
    step fix45 verdict_of written now st = Val st' ->
    active now st s ->
    p_error st' = Some (PErr e) ->
    (exists (r : nat) (m : msg), ss_receiving s = Some (r, m) /\ verdict_of r m = VdErr e) \/
    select_spec verdict_of written (p_mailbox st) (p_awaiting st) (start_of s now) now = Fail e.
Proof. exact fails_only_when_spec_fails. Qed.
Print Assumptions C05_fails_only_when_spec_fails.

(* ... and a filter that is going to fail is only ever called, on message m of receive source r,
   at an entry on whose state select_spec is already Fail e: no earlier source was ready and every
   earlier message of that source was rejected *)
Theorem C05_failing_filter_called_only_when_spec_fails :
  forall (fix45 : bool) (verdict_of : nat -> msg -> verdict) (written : list source)
         (mb0 : list msg) (aw0 : list (pid * option value)) (evs : list event) (st : proc)
         (now : Z) (st' : proc) (s s' : sel_state) (r : nat) (m : msg) (e : err),
    run fix45 verdict_of written evs (initial mb0 aw0) = Val st ->
    step fix45 verdict_of written now st = Val st' ->
    active now st s ->
    (forall (r0 : nat) (m0 : msg) (e0 : err),
       ss_receiving s = Some (r0, m0) -> verdict_of r0 m0 <> VdErr e0) ->
    p_error st' = None ->
    p_value st' = None ->
    p_queued st' = true ->
    p_sel st' = Some s' ->
    ss_receiving s' = Some (r, m) ->
    verdict_of r m = VdErr e ->
    select_spec verdict_of written (p_mailbox st) (p_awaiting st) (start_of s now) now = Fail e.
Proof. exact failing_filter_called_only_when_spec_fails. Qed.
Print Assumptions C05_failing_filter_called_only_when_spec_fails.

(* cursor_skips_only_rejected: in every reachable state of a live select, every mailbox message
   before the cursor of a receive source is type-incompatible with it, or the source has a filter
   and the (pure) filter rejects it *)
Theorem C05_cursor_skips_only_rejected :
  forall (fix45 : bool) (verdict_of : nat -> msg -> verdict) (written : list source)
         (mb0 : list msg) (aw0 : list (pid * option value)) (evs : list event) (st : proc)
         (s : sel_state),
    run fix45 verdict_of written evs (initial mb0 aw0) = Val st ->
    p_error st = None ->
    p_sel st = Some s ->
    forall (r : nat) (c : list nat) (t : bool),
      nth_recv written r = Some (c, t) ->
      forall (j : nat) (m : msg),
        (j < cur_get r (ss_cursors s))%nat ->
        nth_error (p_mailbox st) j = Some m ->
        compat c m = false \/ t = false /\ verdict_of r m = VdNil.
Proof. exact cursor_skips_only_rejected_reach. Qed.
Print Assumptions C05_cursor_skips_only_rejected.

(* verdict_is_only_a_verdict: two filter oracles that agree on accept / reject / fail — whatever
   non-nil values they return — give the same run (every state, hence every yielded value) ... *)
Theorem C05_verdict_is_only_a_verdict :
  forall (fix45 : bool) (v1 v2 : nat -> msg -> verdict) (written : list source),
    (forall (r : nat) (m : msg), same_verdict (v1 r m) (v2 r m)) ->
    forall (evs : list event) (st : proc), run fix45 v1 written evs st = run fix45 v2 written evs st.
Proof. exact verdict_is_only_a_verdict. Qed.
Print Assumptions C05_verdict_is_only_a_verdict.

(* ... and the same specification *)
Theorem C05_spec_ignores_verdict_payload :
  forall v1 v2 : nat -> msg -> verdict,
    (forall (r : nat) (m : msg), same_verdict (v1 r m) (v2 r m)) ->
    forall (srcs : list source) (mb : list msg) (aw : list (pid * option value)) (start now : Z),
      select_spec v1 srcs mb aw start now = select_spec v2 srcs mb aw start now.
Proof. exact select_spec_same_verdict. Qed.
Print Assumptions C05_spec_ignores_verdict_payload.

(* timeout_not_early: if no clock value of the history (nor of the completing entry) is behind
   t0, a select that completes with nil although no awaited process delivered nil has a timeout d
   whose duration has elapsed since t0 — in particular since the select's first entry.
   (eff_timeout d = max d 0 for every d that fits an i64; the code clamps the others to 2^63-1.) *)
Theorem C05_timeout_not_early :
  forall (fix45 : bool) (verdict_of : nat -> msg -> verdict) (written : list source)
         (t0 : Z) (mb0 : list msg) (aw0 : list (pid * option value)) (evs : list event)
         (st : proc) (now : Z) (st' : proc),
    steps_ge t0 evs ->
    t0 <= now ->
    run fix45 verdict_of written evs (initial mb0 aw0) = Val st ->
    step fix45 verdict_of written now st = Val st' ->
    p_value st = None ->
    p_value st' = Some VNil ->
    (forall p : pid, aw_get p (p_awaiting st) <> Some (Some VNil)) ->
    exists d : Z, In (SrcTimeout d) written /\ Z.min d i64_max <= now - t0 /\ eff_timeout d <= now - t0.
Proof. exact timeout_not_early. Qed.
Print Assumptions C05_timeout_not_early.

Theorem C05_eff_timeout_in_range : forall d : Z, in_i64 d = true -> eff_timeout d = Z.max d 0.
Proof. exact eff_timeout_in_range. Qed.
Print Assumptions C05_eff_timeout_in_range.

(* the machine is total: no history reaches one of the index panics of the code
   (cursors[receive_idx] in handle_receive_result / call_receive_function) or a missing verdict *)
Theorem C05_machine_never_panics :
  forall (fix45 : bool) (verdict_of : nat -> msg -> verdict) (written : list source)
         (mb0 : list msg) (aw0 : list (pid * option value)) (evs : list event),
    exists st : proc, run fix45 verdict_of written evs (initial mb0 aw0) = Val st.
Proof. exact machine_never_panics. Qed.
Print Assumptions C05_machine_never_panics.

(* ---- the environment's await protocol (finding F8, fixed in /repo 5c787ac) ---- *)
(* the repaired code: a worker's later answer is merged into its earlier one.  For every history
   of ProcessResults events of an initial await (distinct keys per event, every target owned by
   one worker, every expected worker answers at least once, in ANY order and any number of times),
   what reaches the awaiter contains, for every target, the latest answer any worker gave *)
Theorem C05_await_protocol_delivers_all :
  forall (owner : pid -> wid) (expected : list wid) (evs : list (wid * answer)) (targets : list pid),
    wf_history owner expected evs -> delivers_all true expected evs targets.
Proof. exact await_protocol_delivers_all. Qed.
Print Assumptions C05_await_protocol_delivers_all.

(* the code before the repair (responses.insert REPLACED the earlier answer): refuted by the
   history `w1:{p1:11,p3:-}  w1:{p3:33}  w0:{p2:-}` of `! [p1, p3, p2]` — kept as the record of what
   the repair is for; the correspondence check fails if the real code behaves like this again *)
Theorem C05_await_protocol_refuted_before_repair :
  exists expected evs targets, ~ delivers_all false expected evs targets.
Proof. exact await_protocol_refuted. Qed.
Print Assumptions C05_await_protocol_refuted_before_repair.

(* ---- finding F45: stale awaits ---- *)
(* the code as it stands (fix45 = false): a process whose select has completed is killed by the
   later failure of a process that select awaited: `! [p0, 0]` yields nil, then p0 fails *)
Theorem C05_stale_await_kills_refuted : ~ completed_select_survives false.
Proof. exact stale_await_kills_refuted. Qed.
Print Assumptions C05_stale_await_kills_refuted.

(* with the proposed repair (complete_select forgets the select's targets; a failure only reaches
   a process that still awaits its origin) the un-negated statement holds for every history *)
Theorem C05_completed_select_survives_repaired : completed_select_survives true.
Proof. exact completed_select_survives_repaired. Qed.
Print Assumptions C05_completed_select_survives_repaired.
