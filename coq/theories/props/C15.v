(* C15 — Failures are contained; workers never crash.
   ONLY property theorems: statement, `exact <lemma>`, Print Assumptions.
   Model: sys/Proto.v (see props/C04.v). A process-level error is the oracle input
   `d_fin = Some (RErr e)`; a worker/environment-level failure is the `Fault` outcome of a step.

   PROVED: failure_local; the error is unchanged on every hop to an awaiter (same worker: part of
   failure_local; other worker: check_completed -> environment -> Worker::notify_result; awaiter
   registered after the failure: query_failed_registers); Worker::handle_command and
   Environment::handle_event fail only on a client's misuse / an unrouted process id.
   Also PROVED (phase 3), for every state, action and oracle: step_errs_only — the complete list of
   ways a step of the model returns Err:
     Worker.step      : WorkerErr only if a ResumeProcess / GetResult command (issued only by client
                        calls) is among the commands it handles; any other Fault is BadOracle (the
                        oracle does not describe a possible slice — not an error of the code);
     Environment.step : only if some queued event names a process id that is not routed;
     client calls, time: never.
   NOT PROVED (partial; full statements kept here):
     awaiters_get_same_error_partial :
                               forall sigma, run (init nw) sigma = Good s -> every process that has a
                               failed process t in `awaiting` and whose await of t was answered
                               has p_res = the error of t. NOT an invariant as stated: an awaiter of
                               two failing processes t1, t2 is completed with the error of t1 and
                               then OVERWRITTEN with the error of t2 (upd_proc .. with_res, both in
                               finish/notify_local and Worker::notify_result) — the code keeps the
                               last one. What holds and is proved is hop-wise: the error value is
                               unchanged on every hop, and an awaiter still awaiting t is completed
                               with exactly t's error at the moment the notification is handled.
     step_never_errs_partial : (superseded by step_never_errs below; the old text is kept) forall sigma
                               from init, run (init nw) sigma is never Fault (EnvErr _): by
                               step_errs_only this is the invariant `events_routed` ("every process id
                               in a queued event is routed"); it needs (a) oracle honesty: Send / Await
                               actions name allocated process ids (the VM obtains pids only from spawn /
                               self / messages), and (b) a pass "awaiter ids recorded in
                               awaiters_for_target are routed" over the worker operations. WorkerErr:
                               excluded class is exactly "the client calls resume_process /
                               request_result for a process that is not there / not sleeping / failed".
   NOW PROVED (phase 4, sys/ProtoRouted.v, sys/ProtoErrTok.v over the micro-step decomposition
   sys/ProtoMicro.v), for every schedule and every oracle:
     errors_originate (awaiters_get_same_error, global form, NO premise): in every reachable state
                       every error anywhere — the result of a process, an `awaiting` value, a
                       ProcessResults / ResultResponse event, an UpdateAwaitResults command, an answer
                       stored in pending_awaits — is the error some time slice of the schedule
                       finished with (origin_errs sigma): the protocol never invents or alters an
                       error.  Corollary single_failure_same_error: when all failing slices fail
                       with the same e0 (in particular: exactly one process fails on its own), EVERY
                       failed process — each awaiter, transitively, on every worker — has exactly e0.
                       With several distinct failures an awaiter of two failing processes keeps the
                       one written last (see awaiters_get_same_error_partial above): which one is
                       schedule-dependent, so this is the strongest schedule-independent statement.
     step_never_errs : under the single premise `pid_honest_run` (a boolean on the schedule: the
                       Send / Await action of every Worker::step's oracle names process ids below
                       next_process_id at that moment), run (init nw) sigma is never Fault (EnvErr _).
                       No premise on client calls is needed (their misuse is a WorkerErr).
                       The invariant: WF, every pid below next_process_id is routed, every queued
                       event is routed including the awaiter of an AwaitAction, the awaiter of every
                       queued QueryAndAwait is routed, every awaiter in awaiters_for_target is routed.
     events_always_routed : the invariant `events_routed` itself in every reachable state.
     step_faults_only_bad_oracle (sys/ProtoNoErr.v) : under pid_honest_run and a schedule whose client
                       never calls resume_process (`no_resume`), EVERY Fault of run (init nw) sigma is
                       BadOracle: no Worker::step and no Environment::step returns Err. In particular
                       request_result never fails (the GetResult command reaches the worker the process
                       is routed to behind its Start/Spawn command). The excluded class is exactly
                       "the client calls resume_process" (for a process that is not there / not
                       sleeping / failed, or twice).
     step_faults_only_bad_oracle_resume : the same when the client does resume, HONESTLY
                       (resume_honest_run, boolean form resume_honest_runb in sys/ProtoPremises.v): at
                       the call the process is routed, sleeping on its worker (finished Ok, persistent,
                       awaiting nothing) or its StartProcess(sleeping) is queued there, and no
                       ResumeProcess for it is queued already. A sleeping process stays sleeping under
                       every worker operation but its own resume (sys/ProtoSleep.v).
   Outside this model: the debug panic of F9 (heap accounting, C06; repaired by b6882e1). *)
From Quiver Require Import sys.Proto sys.ProtoFail sys.ProtoExamples sys.ProtoErrs sys.ProtoMicro sys.ProtoRouted sys.ProtoErrTok sys.ProtoNoErr sys.ProtoPremises.

Theorem C15_failure_local : forall p e h hint w w',
  NoDup (map fst (w_procs w)) ->
  finish p (RErr e) h hint w = Good w' ->
  w_queue w' = w_queue w /\ w_spawning w' = w_spawning w /\ w_selecting w' = w_selecting w /\
  (forall q pr, q <> p -> alookup q (w_procs w) = Some pr -> alookup p (p_awaiting pr) = None ->
      alookup q (w_procs w') = Some pr) /\
  (forall q pr, q <> p -> alookup q (w_procs w) = Some pr -> alookup p (p_awaiting pr) <> None ->
      exists pr', alookup q (w_procs w') = Some pr' /\ p_res pr' = Some (RErr e) /\
                  p_mail pr' = p_mail pr /\ p_awaiting pr' = p_awaiting pr /\ p_sel pr' = p_sel pr).
Proof. exact failure_local. Qed.
Print Assumptions C15_failure_local.

Theorem C15_error_reported_unchanged : forall w ev t r,
  result_of w t = Some r ->
  snd (report_completed (w, ev) t) =
  ev ++ map (fun a => EResults a [(t, Some r)]) (match alookup t (w_awaiters w) with Some l => l | None => [] end).
Proof. exact report_completed_same_error. Qed.
Print Assumptions C15_error_reported_unchanged.

Theorem C15_error_forwarded_unchanged : forall nw e ns awaiter results aw,
  alookup awaiter (e_pending e) = None -> alookup awaiter (e_router e) = Some aw ->
  handle_event nw (EResults awaiter results) (e, ns) = Good (e, push_cmd aw (CUpdate awaiter results) ns).
Proof. exact env_forwards_results. Qed.
Print Assumptions C15_error_forwarded_unchanged.

Theorem C15_error_delivered_unchanged : forall awaiter awaited e w pr,
  alookup awaiter (w_procs w) = Some pr -> alookup awaited (p_awaiting pr) <> None ->
  exists pr', alookup awaiter (w_procs (worker_notify awaiter awaited (RErr e) w)) = Some pr' /\ p_res pr' = Some (RErr e).
Proof. exact worker_notify_same_error. Qed.
Print Assumptions C15_error_delivered_unchanged.

(* a failure of a process that is no longer awaited does not touch the former awaiter (repair of F45) *)
Theorem C15_stale_failure_is_harmless : forall awaiter awaited e w pr,
  alookup awaiter (w_procs w) = Some pr -> alookup awaited (p_awaiting pr) = None ->
  w_procs (worker_notify awaiter awaited (RErr e) w) = w_procs w.
Proof. exact stale_failure_is_harmless. Qed.
Print Assumptions C15_stale_failure_is_harmless.

Theorem C15_late_awaiter_is_registered : forall awaiter t w rs pr e,
  alookup t (w_procs w) = Some pr -> p_res pr = Some (RErr e) ->
  let '(w', rs') := query_one awaiter (w, rs) t in
  In t (w_awaited w') /\ (exists l, alookup t (w_awaiters w') = Some (l ++ [awaiter])) /\ alookup t rs' = Some None.
Proof. exact query_failed_registers. Qed.
Print Assumptions C15_late_awaiter_is_registered.

Theorem C15_worker_errs_only_on_client_commands : forall c w f,
  handle_cmd c w = Fault f -> (exists p, c = CResume p) \/ (exists r p, c = CGetResult r p).
Proof. exact handle_cmd_errs_only_on_client_commands. Qed.
Print Assumptions C15_worker_errs_only_on_client_commands.

Theorem C15_environment_never_errs_on_routed_events : forall nw ev e ns,
  event_routed e ev -> exists st, handle_event nw ev (e, ns) = Good st.
Proof. exact handle_event_never_errs. Qed.
Print Assumptions C15_environment_never_errs_on_routed_events.

(* non-vacuity: a parked select with two sources whose awaited target fails *)
Theorem C15_nonvacuous :
  NoDup (map fst (w_procs fail_worker)) /\
  exists w', finish 1 (RErr 7) false [0; 1; 2] fail_worker = Good w' /\
    (exists pr, alookup 0 (w_procs w') = Some pr /\ p_res pr = Some (RErr 7) /\ p_sel pr = p_sel two_source_proc) /\
    alookup 2 (w_procs w') = Some bystander_proc /\ w_selecting w' = [0].
Proof. exact failure_local_applies. Qed.
Print Assumptions C15_nonvacuous.

(* ---- phase 3 *)
Theorem C15_worker_step_errs_only_on_client_commands : forall i now k o nd f,
  node_step i now k o nd = Fault f ->
  is_oracle_fault f \/ (is_worker_err f /\ existsb client_cmd (fst (split_at k (n_cmd nd))) = true).
Proof. exact worker_step_errs_only_on_client_commands. Qed.
Print Assumptions C15_worker_step_errs_only_on_client_commands.

Theorem C15_env_step_never_errs_on_routed_ids : forall s ks,
  events_routed s -> exists s', sys_step s (E ks) = Good s'.
Proof. exact env_step_never_errs_on_routed_ids. Qed.
Print Assumptions C15_env_step_never_errs_on_routed_ids.

Theorem C15_step_errs_only : forall s a f, sys_step s a = Fault f ->
  match a with
  | W i k o => exists nd, nth_error (s_nodes s) i = Some nd /\
                 (is_oracle_fault f \/ (is_worker_err f /\ existsb client_cmd (fst (split_at k (n_cmd nd))) = true))
  | E ks => ~ events_routed s
  | T _ | X _ => False
  end.
Proof. exact step_errs_only. Qed.
Print Assumptions C15_step_errs_only.

Theorem C15_error_classes_nonvacuous :
  node_step 0 0 None (orc None idle_did) {| n_w := new_worker; n_cmd := [CResume 5]; n_evt := [] |} = Fault (WorkerErr 1) /\
  sys_step {| s_nodes := [{| n_w := new_worker; n_cmd := []; n_evt := [EDeliverA 7 (mkMsg 0 0 0)] |}];
              s_env := {| e_router := []; e_next := 0; e_pending := [] |}; s_clock := 0 |} (E []) = Fault (EnvErr 1).
Proof. exact (conj worker_err_on_client_misuse env_err_on_unrouted_id). Qed.
Print Assumptions C15_error_classes_nonvacuous.

(* ---- phase 4: step_never_errs for every schedule and oracle *)
Theorem C15_step_never_errs : forall nw sigma,
  pid_honest_run (init nw) sigma = true -> forall n, run (init nw) sigma <> Fault (EnvErr n).
Proof. exact step_never_errs. Qed.
Print Assumptions C15_step_never_errs.

Theorem C15_events_always_routed : forall nw sigma s,
  pid_honest_run (init nw) sigma = true -> run (init nw) sigma = Good s ->
  forall i nd ev, nth_error (s_nodes s) i = Some nd -> In ev (n_evt nd) -> event_routed (s_env s) ev.
Proof. exact events_always_routed. Qed.
Print Assumptions C15_events_always_routed.

(* non-vacuity: 11 actions on two workers (spawn, send and await across workers, completion report,
   update) meet the premise and run *)
Theorem C15_step_never_errs_nonvacuous :
  pid_honest_run (init 2) routed_schedule = true /\
  exists s nd pr, run (init 2) routed_schedule = Good s /\ nth_error (s_nodes s) 0 = Some nd /\
    alookup 0 (w_procs (n_w nd)) = Some pr /\ p_res pr = Some (ROk 6) /\ e_next (s_env s) = 2.
Proof. exact step_never_errs_applies. Qed.
Print Assumptions C15_step_never_errs_nonvacuous.

(* ---- phase 4: awaiters_get_same_error as a global invariant *)
Theorem C15_errors_originate : forall nw sigma s,
  run (init nw) sigma = Good s ->
  forall i nd p pr e, nth_error (s_nodes s) i = Some nd -> alookup p (w_procs (n_w nd)) = Some pr ->
    p_res pr = Some (RErr e) -> In e (origin_errs sigma).
Proof. exact errors_originate. Qed.
Print Assumptions C15_errors_originate.

Theorem C15_errors_in_flight_originate : forall nw sigma s,
  run (init nw) sigma = Good s ->
  forall i nd, nth_error (s_nodes s) i = Some nd ->
    (forall a rs t e, In (EResults a rs) (n_evt nd) -> In (t, Some (RErr e)) rs -> In e (origin_errs sigma)) /\
    (forall a rs t e, In (CUpdate a rs) (n_cmd nd) -> In (t, Some (RErr e)) rs -> In e (origin_errs sigma)).
Proof. exact errors_in_flight_originate. Qed.
Print Assumptions C15_errors_in_flight_originate.

Theorem C15_awaiters_get_same_error_single_failure : forall nw sigma s e0,
  run (init nw) sigma = Good s -> (forall e, In e (origin_errs sigma) -> e = e0) ->
  forall i nd p pr e, nth_error (s_nodes s) i = Some nd -> alookup p (w_procs (n_w nd)) = Some pr ->
    p_res pr = Some (RErr e) -> e = e0.
Proof. exact single_failure_same_error. Qed.
Print Assumptions C15_awaiters_get_same_error_single_failure.

Theorem C15_single_failure_nonvacuous :
  origin_errs err_schedule = [7] /\
  exists s nd0 pr0 nd1 pr1, run (init 2) err_schedule = Good s /\
    nth_error (s_nodes s) 0 = Some nd0 /\ alookup 0 (w_procs (n_w nd0)) = Some pr0 /\ p_res pr0 = Some (RErr 7) /\
    nth_error (s_nodes s) 1 = Some nd1 /\ alookup 1 (w_procs (n_w nd1)) = Some pr1 /\ p_res pr1 = Some (RErr 7).
Proof. exact single_failure_applies. Qed.
Print Assumptions C15_single_failure_nonvacuous.

(* ---- phase 4: neither Worker::step nor Environment::step returns Err, except for resume_process misuse *)
Theorem C15_step_faults_only_bad_oracle : forall nw sigma f,
  pid_honest_run (init nw) sigma = true -> no_resume sigma -> run (init nw) sigma = Fault f -> is_oracle_fault f.
Proof. exact step_faults_only_bad_oracle. Qed.
Print Assumptions C15_step_faults_only_bad_oracle.

Theorem C15_step_faults_only_bad_oracle_nonvacuous :
  pid_honest_run (init 2) getresult_schedule = true /\ no_resume getresult_schedule /\
  exists s, run (init 2) getresult_schedule = Good s.
Proof. exact step_faults_only_bad_oracle_applies. Qed.
Print Assumptions C15_step_faults_only_bad_oracle_nonvacuous.

Theorem C15_step_faults_only_bad_oracle_resume : forall nw sigma f,
  pid_honest_run (init nw) sigma = true -> resume_honest_run (init nw) sigma -> run (init nw) sigma = Fault f -> is_oracle_fault f.
Proof. exact step_faults_only_bad_oracle_resume. Qed.
Print Assumptions C15_step_faults_only_bad_oracle_resume.

Theorem C15_resume_premise_decidable : forall sigma s, resume_honest_runb s sigma = true -> resume_honest_run s sigma.
Proof. exact resume_honest_runb_sound. Qed.
Print Assumptions C15_resume_premise_decidable.

Theorem C15_honest_resumes_nonvacuous :
  (pid_honest_run (init 1) resume_schedule = true /\ resume_honest_run (init 1) resume_schedule /\
   exists s nd pr, run (init 1) resume_schedule = Good s /\ nth_error (s_nodes s) 0 = Some nd /\
     alookup 0 (w_procs (n_w nd)) = Some pr /\ p_res pr = Some (ROk 10)) /\
  (resume_honest_runb (init 1) [X (XStart false); X (XResume 0)] = false /\
   run (init 1) [X (XStart false); X (XResume 0); W 0 None (orc None idle_did)] = Fault (WorkerErr 3)).
Proof. exact (conj honest_resumes_apply dishonest_resume_flagged). Qed.
Print Assumptions C15_honest_resumes_nonvacuous.
