(* C15 — Failures are contained; workers never crash.
   ONLY property theorems: statement, `exact <lemma>`, Print Assumptions.
   Model: sys/Proto.v (see props/C04.v). A process-level error is the oracle input
   `d_fin = Some (RErr e)`; a worker/environment-level failure is the `Fault` outcome of a step.

   PROVED: failure_local; the error is unchanged on every hop to an awaiter (same worker: part of
   failure_local; other worker: check_completed -> environment -> Worker::notify_result; awaiter
   registered after the failure: query_failed_registers); Worker::handle_command and
   Environment::handle_event fail only on a client's misuse / an unrouted process id.
   NOT PROVED (partial; full statements kept here):
     awaiters_get_same_error : forall sigma, run (init nw) sigma = Good s -> every process that has a
                               failed process t in `awaiting` and whose await of t was answered
                               has p_res = the error of t (the global composition of the hops).
     step_never_errs         : forall sigma from init with client calls naming started processes,
                               run (init nw) sigma is never Fault (WorkerErr _ | EnvErr _) (needs the
                               invariant "every process id in a queued event is routed").
   Outside this model: the debug panic of F9 (heap accounting, C06; repaired by b6882e1). *)
From Quiver Require Import sys.Proto sys.ProtoFail sys.ProtoExamples.

Theorem C15_failure_local : forall p e h hint w w',
  NoDup (map fst (w_procs w)) ->
  finish p (RErr e) h hint w = Good w' ->
  w_queue w' = w_queue w /\ w_spawning w' = w_spawning w /\ w_selecting w' = w_selecting w /\
  (forall q pr, q <> p -> alookup q (w_procs w) = Some pr -> alookup p (p_awaiting pr) = None ->
      alookup q (w_procs w') = Some pr) /\
  (forall q pr, q <> p -> alookup q (w_procs w) = Some pr -> alookup p (p_awaiting pr) <> None ->
      exists pr', alookup q (w_procs w') = Some pr' /\ p_res pr' = Some (RErr e) /\
                  p_mail pr' = p_mail pr /\ p_awaiting pr' = p_awaiting pr /\ p_sel pr' = p_sel pr).
Proof. exact failure_local. Qed.
Print Assumptions C15_failure_local.

Theorem C15_error_reported_unchanged : forall w ev t r,
  result_of w t = Some r ->
  snd (report_completed (w, ev) t) =
  ev ++ map (fun a => EResults a [(t, Some r)]) (match alookup t (w_awaiters w) with Some l => l | None => [] end).
Proof. exact report_completed_same_error. Qed.
Print Assumptions C15_error_reported_unchanged.

Theorem C15_error_forwarded_unchanged : forall nw e ns awaiter results aw,
  alookup awaiter (e_pending e) = None -> alookup awaiter (e_router e) = Some aw ->
  handle_event nw (EResults awaiter results) (e, ns) = Good (e, push_cmd aw (CUpdate awaiter results) ns).
Proof. exact env_forwards_results. Qed.
Print Assumptions C15_error_forwarded_unchanged.

Theorem C15_error_delivered_unchanged : forall awaiter awaited e w pr,
  alookup awaiter (w_procs w) = Some pr -> alookup awaited (p_awaiting pr) <> None ->
  exists pr', alookup awaiter (w_procs (worker_notify awaiter awaited (RErr e) w)) = Some pr' /\ p_res pr' = Some (RErr e).
Proof. exact worker_notify_same_error. Qed.
Print Assumptions C15_error_delivered_unchanged.

(* a failure of a process that is no longer awaited does not touch the former awaiter (repair of F45) *)
Theorem C15_stale_failure_is_harmless : forall awaiter awaited e w pr,
  alookup awaiter (w_procs w) = Some pr -> alookup awaited (p_awaiting pr) = None ->
  w_procs (worker_notify awaiter awaited (RErr e) w) = w_procs w.
Proof. exact stale_failure_is_harmless. Qed.
Print Assumptions C15_stale_failure_is_harmless.

Theorem C15_late_awaiter_is_registered : forall awaiter t w rs pr e,
  alookup t (w_procs w) = Some pr -> p_res pr = Some (RErr e) ->
  let '(w', rs') := query_one awaiter (w, rs) t in
  In t (w_awaited w') /\ (exists l, alookup t (w_awaiters w') = Some (l ++ [awaiter])) /\ alookup t rs' = Some None.
Proof. exact query_failed_registers. Qed.
Print Assumptions C15_late_awaiter_is_registered.

Theorem C15_worker_errs_only_on_client_commands : forall c w f,
  handle_cmd c w = Fault f -> (exists p, c = CResume p) \/ (exists r p, c = CGetResult r p).
Proof. exact handle_cmd_errs_only_on_client_commands. Qed.
Print Assumptions C15_worker_errs_only_on_client_commands.

Theorem C15_environment_never_errs_on_routed_events : forall nw ev e ns,
  event_routed e ev -> exists st, handle_event nw ev (e, ns) = Good st.
Proof. exact handle_event_never_errs. Qed.
Print Assumptions C15_environment_never_errs_on_routed_events.

(* non-vacuity: a parked select with two sources whose awaited target fails *)
Theorem C15_nonvacuous :
  NoDup (map fst (w_procs fail_worker)) /\
  exists w', finish 1 (RErr 7) false [0; 1; 2] fail_worker = Good w' /\
    (exists pr, alookup 0 (w_procs w') = Some pr /\ p_res pr = Some (RErr 7) /\ p_sel pr = p_sel two_source_proc) /\
    alookup 2 (w_procs w') = Some bystander_proc /\ w_selecting w' = [0].
Proof. exact failure_local_applies. Qed.
Print Assumptions C15_nonvacuous.
