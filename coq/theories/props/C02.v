(* C02 — compiled execution agrees with the language's reference semantics.
   This file contains ONLY the property theorems about the reference evaluator (Lang.v), each
   closed by `exact <lemma>` and followed by Print Assumptions.  Proofs and the non-vacuity
   Examples: lang/LangProofs.v.

   Level: proof, PARTIAL.  What is proved: the reference evaluator is a well-defined (partial)
   function with the laws docs/spec.md states.  What is NOT proved, and is decided per program by
   the differential check vplib/props/c02.py (real parser's AST -> extracted evaluator vs real
   compiler + real VM):

     compile_correct (NOT PROVED — there is no model of compiler.rs):
       forall (p : program) (v : value) n,
         eval_program mods n p = Ret v _ ->
         run (compile p) = v     (after erasing tuple ids to (name, labels))

     normalize_preserves_eval (NOT ATTEMPTED): Simplify.v (C17's model of simplify.rs) works on
       Ast.v, whose patterns and types are an opaque payload; the evaluator needs them structured
       and has its own AST (lang/Lang.v), so `eval (normalize_blocks p) = eval p` cannot even be
       stated between the two files without a translation.  What the check does instead: every
       compared program is compiled by the real compiler, i.e. AFTER the real normalize_blocks,
       while the evaluator runs the un-normalised parser output.
*)
From Coq Require Import ZArith List Bool.
From Quiver Require Import lang.Lang lang.LangProofs.
Import ListNotations.
Open Scope Z_scope.

Theorem C02_chain_infallible : forall mods n c e t ts v x e1 w,
  eval_term mods n c e t v = Ret (x, e1) w ->
  eval_terms mods (S n) c e (t :: ts) v =
  tick w (tick (match t, ts with
                | Match _, _ :: _ => if is_nil x then ev_mid_fail else st0
                | _, _ => st0
                end) (eval_terms mods n c e1 ts x)).
Proof. exact chain_infallible. Qed.
Print Assumptions C02_chain_infallible.

Theorem C02_sequence_short_circuit : forall mods n c e ch rest v x e1 w,
  rest <> [] ->
  eval_chain mods n c e ch v = Ret (x, e1) w -> is_nil x = true ->
  eval_seq mods (S n) c e (ch :: rest) v = Ret (vnil, e1) (st_add w ev_short).
Proof. exact sequence_short_circuit. Qed.
Print Assumptions C02_sequence_short_circuit.

Theorem C02_branch_fallthrough : forall mods n c e cond conseq rest v x e1 w,
  eval_seq mods n c e (seq_chains cond) v = Ret (x, e1) w -> is_nil x = true ->
  eval_branches mods (S n) c e (Branch cond conseq :: rest) v =
  tick w (tick ev_fallthrough (eval_branches mods n c e rest v)).
Proof. exact branch_fallthrough. Qed.
Print Assumptions C02_branch_fallthrough.

Theorem C02_consequence_commits : forall mods n c e cond k rest v x e1 w y e2 w2,
  eval_seq mods n c e (seq_chains cond) v = Ret (x, e1) w -> is_nil x = false ->
  eval_seq mods n c e1 (seq_chains k) v = Ret (y, e2) w2 ->
  exists w', eval_branches mods (S n) c e (Branch cond (Some k) :: rest) v = Ret y w'.
Proof. exact consequence_commits. Qed.
Print Assumptions C02_consequence_commits.

Theorem C02_block_scoping : forall mods n c e b v r e' w,
  eval_term mods n c e (Block b) v = Ret (r, e') w -> e' = e.
Proof. exact block_scoping. Qed.
Print Assumptions C02_block_scoping.

Theorem C02_closure_captures_by_value : forall mods n c e f clo v,
  lookup_var f e = Some clo ->
  eval_term mods (S (S n)) c e (Access (mkAccess (Some (Identifier f)) [])) v =
  with_env e (tick st0 (if is_callable clo then call mods n clo (tail_arg clo v) st0 else ret clo)).
Proof. exact closure_captures_by_value. Qed.
Print Assumptions C02_closure_captures_by_value.

(* a finished result is stable under more fuel: the semantics is a partial function *)
Theorem C02_eval_fuel_mono : forall mods n m c e b v r,
  (n <= m)%nat -> eval mods n c e b v = r -> r <> Timeout -> eval mods m c e b v = r.
Proof. exact eval_fuel_mono. Qed.
Print Assumptions C02_eval_fuel_mono.

Theorem C02_eval_program_fuel_mono : forall mods n m p r,
  (n <= m)%nat -> eval_program mods n p = r -> r <> Timeout -> eval_program mods m p = r.
Proof. exact eval_program_fuel_mono. Qed.
Print Assumptions C02_eval_program_fuel_mono.

(* ... for every judgement of the evaluator (terms, calls, chains, sequences, branches, fields,
   string segments, imports, programs) *)
Theorem C02_fuel_mono_all_judgements : forall mods n m, (n <= m)%nat -> mono_at mods n m.
Proof. exact mono_all. Qed.
Print Assumptions C02_fuel_mono_all_judgements.

Theorem C02_eval_deterministic : forall mods n m c e b v,
  eval mods n c e b v <> Timeout -> eval mods m c e b v <> Timeout ->
  eval mods n c e b v = eval mods m c e b v.
Proof. exact eval_deterministic. Qed.
Print Assumptions C02_eval_deterministic.

(* a match evaluates to Ok or []; on success the scope grows by the pattern's bindings, on
   failure by its static binders, all nil (reading R3 of Lang.v); nothing else changes *)
Theorem C02_match_verdict : forall n c e p v r e' w,
  do_match n c e p v = Ret (r, e') w ->
  (r = vok /\ exists b, pmatch n (c_tenv c) e [] p v = POk b /\ e' = b ++ e) \/
  (r = vnil /\ pmatch n (c_tenv c) e [] p v = PFail /\ e' = nil_fill (binders p) ++ e).
Proof. exact match_verdict. Qed.
Print Assumptions C02_match_verdict.

(* inside one pattern, a successful sub-match only adds bindings *)
Theorem C02_pmatch_extends : forall n te outer p b v b',
  pmatch n te outer b p v = POk b' -> exists d, b' = d ++ b.
Proof. exact pmatch_extends. Qed.
Print Assumptions C02_pmatch_extends.

Theorem C02_bare_binder_always_succeeds : forall n c e x v,
  do_match n c e (MIdentifier x) v = Ret (vok, (x, v) :: e) st0.
Proof. exact bare_binder_always_succeeds. Qed.
Print Assumptions C02_bare_binder_always_succeeds.

(* the names a successful match adds to the scope are static binders of the pattern (for
   patterns without `*`, whose binders depend on the value, and whose or-alternatives bind
   names of the first alternative, as the compiler demands) *)
Theorem C02_match_binds_only_binders : forall n c e p v e' w,
  wf_pat p -> do_match n c e p v = Ret (vok, e') w ->
  exists d, e' = d ++ e /\ incl (map fst d) (binders p).
Proof. exact match_binds_only_binders. Qed.
Print Assumptions C02_match_binds_only_binders.
