(* C02 — compiled execution agrees with the language's reference semantics.
   This file contains ONLY the property theorems about the reference evaluator (Lang.v), each
   closed by `exact <lemma>` and followed by Print Assumptions.  Proofs and the non-vacuity
   Examples: lang/LangProofs.v.

   Level: proof, PARTIAL.  What is proved: the reference evaluator is a well-defined (partial)
   function with the laws docs/spec.md states.  What is NOT proved, and is decided per program by
   the differential check vplib/props/c02.py (real parser's AST -> extracted evaluator vs real
   compiler + real VM):

     compile_correct (NOT PROVED — there is no model of compiler.rs):
       forall (p : program) (v : value) n,
         eval_program mods n p = Ret v _ ->
         run (compile p) = v     (after erasing tuple ids to (name, labels))

     normalize_preserves_eval is PROVED below (C02_normalize_preserves_eval) for the model
       lang/LangSimplify.v of simplify.rs with the compiler's options (keep nothing, lift, no
       grouping); the model is tied to the real `normalize_blocks` by differential runs
       (`qv_ast --norm` dumps the AST before/after, the extracted model must map one to the other).
*)
From Coq Require Import ZArith List Bool.
From Quiver Require Import lang.Lang lang.LangProofs lang.LangSimplify lang.LangSimplifyProofs lang.LangCompile lang.LangCompileProofs.
Import ListNotations.
Open Scope Z_scope.

(* Notation: one level of the evaluator is parameterised by the fuel of the type tests `tf`, by
   `cf` (calling a function value) and `imf` (importing a module); `call mods n`,
   `eval_import mods n`, `eval_program mods n`, `eval mods n` tie the knot on the fuel. *)

Theorem C02_chain_infallible : forall tf cf imf c e t ts v x e1 w,
  eval_term tf cf imf c t e v = Ret (x, e1) w ->
  eval_chain tf cf imf c (Chain None (t :: ts)) e v =
  tick w (tick (match t, ts with
                | Match _, _ :: _ => if is_nil x then ev_mid_fail else st0
                | _, _ => st0
                end) (eval_chain tf cf imf c (Chain None ts) e1 x)).
Proof. exact chain_infallible. Qed.
Print Assumptions C02_chain_infallible.

Theorem C02_sequence_short_circuit : forall tf cf imf c e ch rest v x e1 w,
  rest <> [] ->
  eval_chain tf cf imf c ch e v = Ret (x, e1) w -> is_nil x = true ->
  eval_sequence tf cf imf c (Sequence (ch :: rest)) e v = Ret (vnil, e1) (st_add w ev_short).
Proof. exact sequence_short_circuit. Qed.
Print Assumptions C02_sequence_short_circuit.

Theorem C02_branch_fallthrough : forall tf cf imf c e cond conseq rest v x e1 w,
  eval_sequence tf cf imf c cond e v = Ret (x, e1) w -> is_nil x = true ->
  eval_expr tf cf imf c (Expression (Branch cond conseq :: rest)) e v =
  tick w (tick ev_fallthrough (eval_expr tf cf imf c (Expression rest) e v)).
Proof. exact branch_fallthrough. Qed.
Print Assumptions C02_branch_fallthrough.

Theorem C02_consequence_commits : forall tf cf imf c e cond k rest v x e1 w y e2 w2,
  eval_sequence tf cf imf c cond e v = Ret (x, e1) w -> is_nil x = false ->
  eval_sequence tf cf imf c k e1 v = Ret (y, e2) w2 ->
  exists w', eval_expr tf cf imf c (Expression (Branch cond (Some k) :: rest)) e v = Ret y w'.
Proof. exact consequence_commits. Qed.
Print Assumptions C02_consequence_commits.

Theorem C02_block_scoping : forall tf cf imf c e b v r e' w,
  eval_term tf cf imf c (Block b) e v = Ret (r, e') w -> e' = e.
Proof. exact block_scoping. Qed.
Print Assumptions C02_block_scoping.

Theorem C02_closure_captures_by_value : forall tf cf imf c e f clo v,
  lookup_var f e = Some clo ->
  eval_term tf cf imf c (Access (mkAccess (Some (Identifier f)) [])) e v =
  with_env e (tick st0 (if is_callable clo then cf clo (tail_arg clo v) st0 else ret clo)).
Proof. exact closure_captures_by_value. Qed.
Print Assumptions C02_closure_captures_by_value.

(* a finished result is stable under more fuel: the semantics is a partial function *)
Theorem C02_eval_fuel_mono : forall mods n m c e b v r,
  (n <= m)%nat -> eval mods n c e b v = r -> r <> Timeout -> eval mods m c e b v = r.
Proof. exact eval_fuel_mono. Qed.
Print Assumptions C02_eval_fuel_mono.

Theorem C02_eval_program_fuel_mono : forall mods n m p r,
  (n <= m)%nat -> eval_program mods n p = r -> r <> Timeout -> eval_program mods m p = r.
Proof. exact eval_program_fuel_mono. Qed.
Print Assumptions C02_eval_program_fuel_mono.

(* ... for the two judgements that consume fuel (function calls with their tail-call loop, and
   imports), and for one level in its parameters *)
Theorem C02_fuel_mono_all_judgements : forall mods n m, (n <= m)%nat -> mono_at mods n m.
Proof. exact mono_all. Qed.
Print Assumptions C02_fuel_mono_all_judgements.

Theorem C02_eval_deterministic : forall mods n m c e b v,
  eval mods n c e b v <> Timeout -> eval mods m c e b v <> Timeout ->
  eval mods n c e b v = eval mods m c e b v.
Proof. exact eval_deterministic. Qed.
Print Assumptions C02_eval_deterministic.

(* a match evaluates to Ok or []; on success the scope grows by the pattern's bindings, on
   failure by its static binders, all nil (reading R3 of Lang.v); nothing else changes *)
Theorem C02_match_verdict : forall n c e p v r e' w,
  do_match n c e p v = Ret (r, e') w ->
  (r = vok /\ exists b, pmatch n (c_tenv c) e [] p v = POk b /\ e' = b ++ e) \/
  (r = vnil /\ pmatch n (c_tenv c) e [] p v = PFail /\ e' = nil_fill (binders p) ++ e).
Proof. exact match_verdict. Qed.
Print Assumptions C02_match_verdict.

(* inside one pattern, a successful sub-match only adds bindings *)
Theorem C02_pmatch_extends : forall n te outer p b v b',
  pmatch n te outer b p v = POk b' -> exists d, b' = d ++ b.
Proof. exact pmatch_extends. Qed.
Print Assumptions C02_pmatch_extends.

Theorem C02_bare_binder_always_succeeds : forall n c e x v,
  do_match n c e (MIdentifier x) v = Ret (vok, (x, v) :: e) st0.
Proof. exact bare_binder_always_succeeds. Qed.
Print Assumptions C02_bare_binder_always_succeeds.

(* the names a successful match adds to the scope are static binders of the pattern (for
   patterns without `*`, whose binders depend on the value, and whose or-alternatives bind
   names of the first alternative, as the compiler demands) *)
Theorem C02_match_binds_only_binders : forall n c e p v e' w,
  wf_pat p -> do_match n c e p v = Ret (vok, e') w ->
  exists d, e' = d ++ e /\ incl (map fst d) (binders p).
Proof. exact match_binds_only_binders. Qed.
Print Assumptions C02_match_binds_only_binders.

(* ------------------------------------------------------------------------------------------
   simplify.rs block normalisation preserves the reference semantics. *)

(* the evaluator does not see a redundant block spliced into its chain ... *)
Theorem C02_splice_noop : forall tf cf imf c ts e v,
  eqv (terms_with (eval_term tf cf imf c) (splice ts) e v) (terms_with (eval_term tf cf imf c) ts e v).
Proof. exact splice_noop. Qed.
Print Assumptions C02_splice_noop.

(* ... nor a multi-step binding-free block lifted into its sequence *)
Theorem C02_lift_noop : forall tf cf imf c cs e v,
  eqv (seq_with (eval_chain tf cf imf c) (lift_chains cs) e v) (seq_with (eval_chain tf cf imf c) cs e v).
Proof. exact lift_noop. Qed.
Print Assumptions C02_lift_noop.

(* at EVERY fuel the normalised program (with normalised modules) has the same outcome — value,
   tail call, error or out-of-fuel — as the program, up to the event counters (`erase`) and to
   normalising the bodies of the function values inside the result (`nv`) *)
Theorem C02_normalize_preserves_eval : forall mods n p,
  erase (eval_program (nmods mods) n (normalize p)) = erase (rmap nv (eval_program mods n p)).
Proof. exact normalize_preserves_eval. Qed.
Print Assumptions C02_normalize_preserves_eval.

(* a result without function values is literally the same value *)
Theorem C02_normalize_preserves_value : forall mods n p v w,
  eval_program mods n p = Ret v w -> closure_free v ->
  exists w', eval_program (nmods mods) n (normalize p) = Ret v w'.
Proof. exact normalize_preserves_value. Qed.
Print Assumptions C02_normalize_preserves_value.

Theorem C02_normalize_preserves_termination : forall mods n p,
  eval_program (nmods mods) n (normalize p) = Timeout <-> eval_program mods n p = Timeout.
Proof. exact normalize_preserves_termination. Qed.
Print Assumptions C02_normalize_preserves_termination.

(* the same for calling a function value and for importing a module *)
Theorem C02_call_import_norm : forall mods n,
  (forall f a acc acc', sim nv (call (nmods mods) n (nv f) (nv a) acc') (call mods n f a acc)) /\
  (forall path, sim nv (eval_import (nmods mods) n path) (eval_import mods n path)).
Proof. exact call_import_norm. Qed.
Print Assumptions C02_call_import_norm.

(* ------------------------------------------------------------------------------------------
   Compile slice: for a fragment of the core language the code generation of compiler.rs is
   mirrored by lang/LangCompile.v (compared with the real compiler's bytecode on every run:
   `qv_ast --code` vs the extracted `compile_program (normalize p)`, identical instructions after
   resolving constant indices and tuple ids) and PROVED to simulate the reference evaluator on the
   VM model vm/Vm.v (C07's, itself tied to executor.rs by C07's value-level lock-step run).

   IN the fragment: integer literals; tuple literals without spreads; positional access on the
   flowing value and on identifiers; the bare binder (`x = chain`, `chain =x`); integer-literal
   matches (`=5`); chains; sequences with their nil short-circuit; BLOCKS — the block's input in a
   fresh slot (Store/Load), any number of branches, each a condition sequence with or without a
   `=>` consequence sequence, fall-through to the next branch with the input re-loaded, Reset of
   the slots a branch bound and of the block's own slot at the exit; NON-CAPTURING FUNCTIONS with a
   non-nil parameter, bound by `f = #T { body }` (IFunction) and called `arg f` (ILoad; ICall: the
   callee's frame, its own locals above the caller's, the frame pop), to any call depth.
   NOT in the fragment (the mirror answers None): a `=>` branch whose CONDITION binds (the
   compiler then emits an out-of-line failure handler), spreads, label access (`.x`: resolved
   through the static type), strings/binaries, tuple/partial/star/type/or/pin patterns, function
   values anywhere but as the value of a binding step (in tuples, as arguments, `&f`), capturing
   or nilary functions, tail calls (ITailCall), builtins, imports, processes.  Not mirrored: after
   a step whose STATIC type is nil the real compiler drops the rest of the sequence (a non-final
   nil-literal step is refused; the generator produces no other statically-nil value).

   IEqual: the VM model takes the verdict of Equal as an outside input (`x_bool`).  The run the
   theorems exhibit supplies, at each IEqual of a literal match `=z`, the verdict of the
   EVALUATOR's own structural equality (`lit_verdict z v`: v is the integer z); every other step
   uses no outside input.  (C13 proves that the real `values_equal` is that structural equality.)

   SIM P fn C caps shapes isfun fnum base rest pers ev c sc sc' (LangCompileProofs.v) reads: whenever the
   evaluator judgement `ev e v` yields (v', e'), the machine of function `fn`, whose code C holds
   `c` at pc, started with a value related to v on top of ANY stack and locals related to the scope
   sc/e above any `base` locals, runs to pc + |c| with a value related to v' on top of the same
   stack and locals — an extension of the initial ones — related to sc'/e'. *)
Theorem C02_compile_simulates :
  forall (P : Quiver.vm.Bytecode.program) (fn : nat) (C : list Quiver.vm.Bytecode.instr) (caps : nat),
    nth_error (Quiver.vm.Bytecode.p_funcs P) fn = Some (Quiver.vm.Bytecode.Build_func C caps) ->
    forall (pool : list Z) (shapes : list shape),
    (forall z k, const_index pool z = Some k -> nth_error (Quiver.vm.Bytecode.p_consts P) k = Some (Quiver.vm.Bytecode.CInt z)) ->
    (forall sh t, shape_index shapes sh = Some t -> nth_error (Quiver.vm.Bytecode.p_tuples P) t = Some (length (snd sh))) ->
    (exists r, shapes = nil_shape :: ok_shape :: r) ->
    forall (isfun : atom -> bool) (fnum : expression -> option nat),
    (forall body k, fnum body = Some k ->
       exists code, function_code pool shapes isfun fnum body = Some code /\
                    nth_error (Quiver.vm.Bytecode.p_funcs P) k = Some (Quiver.vm.Bytecode.Build_func code 0)) ->
    forall (base : nat) (rest : list Quiver.vm.Vm.frame) (pers : bool) tf cf imf,
    (* calls at the evaluator's current fuel are simulated (C02_call_simulates discharges this for
       `call mods n`, every n) *)
    (forall body cenv te k a acc r w ma pc stk locs,
       fnum body = Some k -> cf (VClos false (Some body) cenv te) a acc = Ret r w -> vrel shapes a ma ->
       nth_error C pc = Some Quiver.vm.Bytecode.ICall ->
       exists mr, star P (st fn caps base rest pers pc (Quiver.vm.Bytecode.VFun k nil :: ma :: stk) locs)
                         (st fn caps base rest pers (S pc) (mr :: stk) locs) /\ vrel shapes r mr) ->
    (forall t ctx sc c sc', compile_term pool shapes isfun fnum sc t = Some (c, sc') ->
                            SIM P fn C caps shapes isfun fnum base rest pers (eval_term tf cf imf ctx t) c sc sc') /\
    (forall ch ctx sc c sc', compile_chain pool shapes isfun fnum sc ch = Some (c, sc') ->
                             SIM P fn C caps shapes isfun fnum base rest pers (eval_chain tf cf imf ctx ch) c sc sc').
Proof. exact compile_simulates. Qed.
Print Assumptions C02_compile_simulates.

(* blocks: the term `{ branches }` — Store/Load of the input, the branches with their fall-through
   and commit jumps, the Resets — leaves the scope and the locals as they were and the block's
   value on the stack *)
Theorem C02_compile_block_simulates :
  forall (P : Quiver.vm.Bytecode.program) (fn : nat) (C : list Quiver.vm.Bytecode.instr) (caps : nat),
    nth_error (Quiver.vm.Bytecode.p_funcs P) fn = Some (Quiver.vm.Bytecode.Build_func C caps) ->
    forall (pool : list Z) (shapes : list shape),
    (forall z k, const_index pool z = Some k -> nth_error (Quiver.vm.Bytecode.p_consts P) k = Some (Quiver.vm.Bytecode.CInt z)) ->
    (forall sh t, shape_index shapes sh = Some t -> nth_error (Quiver.vm.Bytecode.p_tuples P) t = Some (length (snd sh))) ->
    (exists r, shapes = nil_shape :: ok_shape :: r) ->
    forall (isfun : atom -> bool) (fnum : expression -> option nat),
    (forall body k, fnum body = Some k ->
       exists code, function_code pool shapes isfun fnum body = Some code /\
                    nth_error (Quiver.vm.Bytecode.p_funcs P) k = Some (Quiver.vm.Bytecode.Build_func code 0)) ->
    forall (base : nat) (rest : list Quiver.vm.Vm.frame) (pers : bool) tf cf imf,
    (forall body cenv te k a acc r w ma pc stk locs,
       fnum body = Some k -> cf (VClos false (Some body) cenv te) a acc = Ret r w -> vrel shapes a ma ->
       nth_error C pc = Some Quiver.vm.Bytecode.ICall ->
       exists mr, star P (st fn caps base rest pers pc (Quiver.vm.Bytecode.VFun k nil :: ma :: stk) locs)
                         (st fn caps base rest pers (S pc) (mr :: stk) locs) /\ vrel shapes r mr) ->
    forall bs ctx sc c sc',
    compile_term pool shapes isfun fnum sc (Block (Expression bs)) = Some (c, sc') ->
    SIM P fn C caps shapes isfun fnum base rest pers (eval_term tf cf imf ctx (Block (Expression bs))) c sc sc'.
Proof. exact compile_block_simulates. Qed.
Print Assumptions C02_compile_block_simulates.

(* calls: for EVERY fuel n the evaluator's `call mods n` of a function value (non-capturing, with a
   non-nil parameter) is simulated from every caller frame: Call pushes the callee's frame, the
   callee's code (store; load 0; branches; reset 0) runs, the exhausted frame is popped, and the
   caller continues after the Call with the related result.
   call_simulated P shapes fnum mods n (LangCompileProofs.v) is exactly the premise about `cf` of
   the two theorems above, with cf := call mods n, for all fn C caps base rest pers. *)
Theorem C02_call_simulates :
  forall (P : Quiver.vm.Bytecode.program) (pool : list Z) (shapes : list shape) (isfun : atom -> bool) (fnum : expression -> option nat),
    (forall z k, const_index pool z = Some k -> nth_error (Quiver.vm.Bytecode.p_consts P) k = Some (Quiver.vm.Bytecode.CInt z)) ->
    (forall sh t, shape_index shapes sh = Some t -> nth_error (Quiver.vm.Bytecode.p_tuples P) t = Some (length (snd sh))) ->
    (exists r, shapes = nil_shape :: ok_shape :: r) ->
    (forall body k, fnum body = Some k ->
       exists code, function_code pool shapes isfun fnum body = Some code /\
                    nth_error (Quiver.vm.Bytecode.p_funcs P) k = Some (Quiver.vm.Bytecode.Build_func code 0)) ->
    forall mods n, call_simulated P shapes fnum mods n.
Proof. exact call_simulates. Qed.
Print Assumptions C02_call_simulates.

(* whole programs: the VM started as spawn_process starts it reaches the end of the compiled
   code with the evaluator's value on the stack, pops the frame and finishes with that value *)
Theorem C02_compile_program_correct :
  forall (P : Quiver.vm.Bytecode.program) (pool : list Z) (shapes : list shape) (isfun : atom -> bool) (fnum : expression -> option nat),
    (forall z k, const_index pool z = Some k -> nth_error (Quiver.vm.Bytecode.p_consts P) k = Some (Quiver.vm.Bytecode.CInt z)) ->
    (forall sh t, shape_index shapes sh = Some t -> nth_error (Quiver.vm.Bytecode.p_tuples P) t = Some (length (snd sh))) ->
    (exists r, shapes = nil_shape :: ok_shape :: r) ->
    (forall body k, fnum body = Some k ->
       exists code, function_code pool shapes isfun fnum body = Some code /\
                    nth_error (Quiver.vm.Bytecode.p_funcs P) k = Some (Quiver.vm.Bytecode.Build_func code 0)) ->
    forall (mods : list (list atom * program)) (fn : nat) (p : program) (code : list Quiver.vm.Bytecode.instr) (pers : bool),
    compile_program pool shapes isfun fnum p = Some code ->
    nth_error (Quiver.vm.Bytecode.p_funcs P) fn = Some (Quiver.vm.Bytecode.Build_func code 0) ->
    forall n v w, eval_program mods n p = Ret v w ->
    exists mv ls,
      vrel shapes v mv /\
      star P (Quiver.vm.Vm.init_state fn nil Quiver.vm.Bytecode.vnil pers) (st fn 0 0 nil pers (length code) (mv :: nil) ls) /\
      (forall x, Quiver.vm.Vm.step P (st fn 0 0 nil pers (length code) (mv :: nil) ls) x =
                 Quiver.vm.Vm.Next (Quiver.vm.Vm.Build_state (mv :: nil) (if pers then ls else nil) nil pers)) /\
      (forall x, Quiver.vm.Vm.step P (Quiver.vm.Vm.Build_state (mv :: nil) (if pers then ls else nil) nil pers) x =
                 Quiver.vm.Vm.Finished mv (Quiver.vm.Vm.Build_state nil (if pers then ls else nil) nil pers)).
Proof. exact compile_program_correct. Qed.
Print Assumptions C02_compile_program_correct.

(* what the compiler does — normalise the blocks, then generate code — computes the value the
   reference evaluator assigns to the ORIGINAL program *)
Theorem C02_normalize_then_compile_correct :
  forall (P : Quiver.vm.Bytecode.program) (pool : list Z) (shapes : list shape) (isfun : atom -> bool) (fnum : expression -> option nat),
    (forall z k, const_index pool z = Some k -> nth_error (Quiver.vm.Bytecode.p_consts P) k = Some (Quiver.vm.Bytecode.CInt z)) ->
    (forall sh t, shape_index shapes sh = Some t -> nth_error (Quiver.vm.Bytecode.p_tuples P) t = Some (length (snd sh))) ->
    (exists r, shapes = nil_shape :: ok_shape :: r) ->
    (forall body k, fnum body = Some k ->
       exists code, function_code pool shapes isfun fnum body = Some code /\
                    nth_error (Quiver.vm.Bytecode.p_funcs P) k = Some (Quiver.vm.Bytecode.Build_func code 0)) ->
    forall (fn : nat) (p : program) (code : list Quiver.vm.Bytecode.instr) (pers : bool),
    compile_program pool shapes isfun fnum (normalize p) = Some code ->
    nth_error (Quiver.vm.Bytecode.p_funcs P) fn = Some (Quiver.vm.Bytecode.Build_func code 0) ->
    forall mods n v w, eval_program mods n p = Ret v w -> closure_free v ->
    exists mv ls,
      vrel shapes v mv /\
      star P (Quiver.vm.Vm.init_state fn nil Quiver.vm.Bytecode.vnil pers) (st fn 0 0 nil pers (length code) (mv :: nil) ls) /\
      (forall x, Quiver.vm.Vm.step P (st fn 0 0 nil pers (length code) (mv :: nil) ls) x =
                 Quiver.vm.Vm.Next (Quiver.vm.Vm.Build_state (mv :: nil) (if pers then ls else nil) nil pers)) /\
      (forall x, Quiver.vm.Vm.step P (Quiver.vm.Vm.Build_state (mv :: nil) (if pers then ls else nil) nil pers) x =
                 Quiver.vm.Vm.Finished mv (Quiver.vm.Vm.Build_state nil (if pers then ls else nil) nil pers)).
Proof. exact normalize_then_compile_correct. Qed.
Print Assumptions C02_normalize_then_compile_correct.
