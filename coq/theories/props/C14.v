(* C14 — property theorems (statements pinned here; proofs in res/OwnProofs.v). *)
From Coq Require Import List NArith Bool.
From Quiver Require Import res.Own res.OwnProofs.
Import ListNotations.
Open Scope N_scope.

Theorem C14_run_snoc : forall h e, run (h ++ [e]) = step (run h) e.
Proof. exact run_snoc. Qed.
Print Assumptions C14_run_snoc.
